import LyModel.Lex.JsonNumEval
/-!
# The composition branches of `lyjson_exp_number`, as byte strings and as numbers

`PrepSpec` says what `prep` yields on a number text: the digit string `G` of the trimmed numeric part (without the old
point), with `mant = digitsVal G · 10^c` and the new point `dp` positions behind the start of `G`.  For every branch the
stores are consecutive from 0 (`seqW 0 bytes`), `buf_len` is the number of bytes, and `bytes` parses as the decimal
`±digitsVal G · 10^(dp − |G|)` (`OutOk`).
-/
namespace LyModel.JsonNum
open LyModel.Utf8 (rd)

theorem minusW_sign (t : NumText) : minusW (signBytes t).length = seqW 0 (signBytes t) := by
  unfold signBytes minusW
  cases t.neg <;> rfl

theorem seqW_zero_append (a b : Bytes) : seqW 0 a ++ seqW a.length b = seqW 0 (a ++ b) := by
  rw [seqW_append]; simp

theorem seqW_zero_append3 (a b c : Bytes) :
    seqW 0 a ++ seqW a.length b ++ seqW (a.length + b.length) c = seqW 0 (a ++ (b ++ c)) := by
  rw [seqW_zero_append, ← List.length_append, seqW_zero_append, List.append_assoc]

theorem copyNumPart_eq (num : Bytes) (decIdx : Option Nat) (dp : Int) (base : Nat) :
    (copyNumPart num decIdx dp base).1 = seqW base (insertDot dp (eraseDec decIdx num 0)) ∧
    (copyNumPart num decIdx dp base).2 = (insertDot dp (eraseDec decIdx num 0)).length := by
  have h := copyGo_eq_seqW decIdx dp base num 0 0
  have hb := copyBytes_eq decIdx dp num 0 0
  have : dp - ((0 : Nat) : Int) = dp := by omega
  rw [this] at hb
  unfold copyNumPart
  rw [h.1, h.2, hb]
  simp

theorem insertDot_ge (k : Int) (l : Bytes) (h : (l.length : Int) ≤ k) : insertDot k l = l := by
  unfold insertDot; have : ¬ (0 ≤ k ∧ k < (l.length : Int)) := by omega
  simp [this]

theorem insertDot_in (k : Nat) (l : Bytes) (h : k < l.length) : insertDot (k : Int) l = l.take k ++ 46 :: l.drop k := by
  unfold insertDot
  have : (0 : Int) ≤ (k : Int) ∧ (k : Int) < (l.length : Int) := by omega
  simp [this]

theorem zerosPrefix_take_le : ∀ (l : Bytes) (k : Nat), zerosPrefix (l.take k) ≤ zerosPrefix l
  | [], k => by simp [zerosPrefix]
  | c :: cs, 0 => by simp [zerosPrefix]
  | c :: cs, k + 1 => by
    have := zerosPrefix_take_le cs k
    simp only [List.take_succ_cons, zerosPrefix]
    split <;> omega

/-! ## `parseDec`, for non-empty digit strings -/

theorem parseDec_int' (neg : Bool) (ip : Bytes) (hip : allDigits ip = true) (hne : ip ≠ []) :
    parseDec (signB neg ++ ip) = some (neg, digitsVal ip, 0) := by
  cases ip with
  | nil => exact absurd rfl hne
  | cons i0 ip' =>
    rw [allDigits_cons, Bool.and_eq_true] at hip
    exact parseDec_int neg i0 ip' hip.1 hip.2

theorem parseDec_frac' (neg : Bool) (ip f : Bytes) (hip : allDigits ip = true) (hne : ip ≠ [])
    (hf : allDigits f = true) (hfne : f ≠ []) :
    parseDec (signB neg ++ ip ++ 46 :: f) = some (neg, digitsVal (ip ++ f), f.length) := by
  cases ip with
  | nil => exact absurd rfl hne
  | cons i0 ip' =>
    cases f with
    | nil => exact absurd rfl hfne
    | cons f0 f' =>
      rw [allDigits_cons, Bool.and_eq_true] at hip
      exact parseDec_frac neg i0 ip' f0 f' hip.1 hip.2 hf

/-! ## what `prep` yields on a number text, and what a branch must deliver -/

structure PrepSpec (inp : Bytes) (t : NumText) (p : Prep) (G : Bytes) (c : Nat) : Prop where
  m : p.m = (signBytes t).length
  digits : allDigits G = true
  /-- a digit that is not `0` -/
  nz : zerosPrefix G < G.length
  mant : t.mant = digitsVal G * 10 ^ c
  exp : p.dp - (G.length : Int) = t.expVal - t.fracLen + c
  dot : p.dot = dotOf p.decIdx p.numLen p.dp
  lt : p.numLen < 65536
  erase : eraseDec p.decIdx (slice inp p.numOff p.numLen) 0 = G
  len : p.numLen = G.length + (if p.decIdx.isSome then 1 else 0)
  /-- a mantissa `0.ddd`: the numeric part starts with the old point -/
  lz : p.leadingZero = true → p.decIdx = some 0 ∧ slice inp (p.numOff + 1) G.length = G ∧
    t.ip = [48] ∧ t.fp.isSome = true ∧ t.fracLen = G.length + c

/-- `bytes` is a decimal string with the sign of `t` and the value `digitsVal G · 10^(dp − |G|)` -/
def OutOk (t : NumText) (p : Prep) (G : Bytes) (bytes : Bytes) : Prop :=
  ∃ Mo k, parseDec bytes = some (t.neg, Mo, k) ∧
    ((p.dp - (G.length : Int) ≤ 0 ∧ Mo = digitsVal G ∧ (k : Int) = -(p.dp - (G.length : Int))) ∨
     (0 ≤ p.dp - (G.length : Int) ∧ Mo = digitsVal G * 10 ^ (p.dp - (G.length : Int)).toNat ∧ k = 0))

/-- what every branch is shown to deliver -/
def BranchOk (t : NumText) (p : Prep) (G : Bytes) (r : Composed) : Prop :=
  ∃ bytes lens, r = ((bytes.length : Int), seqW 0 bytes, lens) ∧ OutOk t p G bytes

variable {inp : Bytes} {t : NumText} {p : Prep} {G : Bytes} {c : Nat}

theorem PrepSpec.ne_nil (h : PrepSpec inp t p G c) : G ≠ [] := by
  intro hG; have := h.nz; rw [hG] at this; simp at this

/-- `dp_position <= 0`: `0.` zeros digits -/
theorem composeB1_spec (h : PrepSpec inp t p G c) (hdp : p.dp ≤ 0) : BranchOk t p G (composeB1 inp p) := by
  have hGpos : 0 < G.length := by have := h.nz; omega
  refine ⟨signBytes t ++ 48 :: 46 :: (List.replicate p.dp.natAbs 48 ++ G), [(p.dp.natAbs : Int), (p.numLen : Int)], ?_, ?_⟩
  · unfold composeB1
    simp only []
    have hc := copyNumPart_eq (slice inp p.numOff p.numLen) p.decIdx (-1) (p.m + 2 + p.dp.natAbs)
    rw [h.erase, insertDot_neg _ _ (by omega)] at hc
    have hw : minusW p.m ++ [(p.m, 48), (p.m + 1, 46)] ++ memsetW (p.m + 2) 48 p.dp.natAbs
        ++ (copyNumPart (slice inp p.numOff p.numLen) p.decIdx (-1) (p.m + 2 + p.dp.natAbs)).1
        = seqW 0 (signBytes t ++ 48 :: 46 :: (List.replicate p.dp.natAbs 48 ++ G)) := by
      rw [hc.1, h.m, minusW_sign, memsetW_eq_seqW]
      have e1 : signBytes t ++ 48 :: 46 :: (List.replicate p.dp.natAbs 48 ++ G)
          = ((signBytes t ++ [48, 46]) ++ List.replicate p.dp.natAbs 48) ++ G := by simp
      rw [e1, seqW_append, seqW_append, seqW_append]
      simp [seqW]
      congr 1; omega
    have hl : ((p.m : Nat) : Int) + 1 + p.dot + (p.dp.natAbs : Int) + (p.numLen : Int)
        = ((signBytes t ++ 48 :: 46 :: (List.replicate p.dp.natAbs 48 ++ G)).length : Int) := by
      have hdot := h.dot
      have hlen := h.len
      have hm := h.m
      unfold dotOf at hdot
      cases hd : p.decIdx with
      | none =>
        simp only [hd, Option.isSome_none, Bool.false_and, Bool.false_eq_true, if_false] at hdot hlen
        simp only [List.length_append, List.length_cons, List.length_replicate]
        omega
      | some i =>
        simp only [hd, Option.isSome_some, Bool.true_and, if_true] at hdot hlen
        have hne : ((p.numLen : Int) - 1 == p.dp) = false := by
          simp only [beq_eq_false_iff_ne, ne_eq]; omega
        simp only [hne, Bool.false_eq_true, if_false] at hdot
        simp only [List.length_append, List.length_cons, List.length_replicate]
        omega
    rw [hw, hl]
  · refine ⟨digitsVal G, p.dp.natAbs + G.length, ?_, Or.inl ⟨by omega, rfl, by omega⟩⟩
    have e1 : signBytes t ++ 48 :: 46 :: (List.replicate p.dp.natAbs 48 ++ G)
        = signB t.neg ++ [48] ++ 46 :: (List.replicate p.dp.natAbs 48 ++ G) := by simp [signBytes_eq]
    rw [e1, parseDec_frac' t.neg [48] _ (by decide) (by simp)
      (by rw [allDigits_append, allDigits_replicate_zero, h.digits]; rfl) (by simp [h.ne_nil])]
    simp only [List.cons_append, List.nil_append, digitsVal_zero_cons, digitsVal_zeros_append, List.length_append,
      List.length_replicate]

/-- no leading zero, the point moves inside the digits (or right behind them, the old point falling away) -/
theorem composeB3_spec (h : PrepSpec inp t p G c) (hdp : 0 < p.dp) (hlt : p.dp < p.numLen) :
    BranchOk t p G (composeB3 inp p) := by
  have hGpos : 0 < G.length := by have := h.nz; omega
  have hc := copyNumPart_eq (slice inp p.numOff p.numLen) p.decIdx p.dp p.m
  rw [h.erase] at hc
  have hdot := h.dot
  have hlen := h.len
  unfold dotOf at hdot
  obtain ⟨k, hk⟩ : ∃ k : Nat, p.dp = k := ⟨p.dp.toNat, by omega⟩
  by_cases hcase : (k : Int) = G.length
  · -- the old point falls away: an integer
    have hkG : k = G.length := by omega
    have hsome : p.decIdx.isSome = true := by
      cases hd : p.decIdx with
      | none => simp only [hd, Option.isSome_none, Bool.false_eq_true, if_false] at hlen; omega
      | some i => rfl
    simp only [hsome, if_true, Bool.true_and] at hdot hlen
    have he : ((p.numLen : Int) - 1 == p.dp) = true := by simp only [beq_iff_eq]; omega
    simp only [he, if_true] at hdot
    refine ⟨signBytes t ++ G, [(p.numLen : Int)], ?_, ?_⟩
    · unfold composeB3
      simp only []
      rw [hc.1, insertDot_ge _ _ (by omega), h.m, minusW_sign, hdot]
      rw [seqW_zero_append]
      have hl : (((signBytes t).length : Nat) : Int) + -1 + (p.numLen : Int) = ((signBytes t ++ G).length : Int) := by
        simp only [List.length_append]; omega
      rw [hl]
    · refine ⟨digitsVal G, 0, ?_, Or.inr ⟨by omega, ?_, rfl⟩⟩
      · rw [signBytes_eq, parseDec_int' t.neg G h.digits h.ne_nil]
      · have : (p.dp - (G.length : Int)).toNat = 0 := by omega
        rw [this]; simp
  · -- the point inside the digits
    have hkG : k < G.length := by
      cases hd : p.decIdx with
      | none => simp only [hd, Option.isSome_none, Bool.false_eq_true, if_false] at hlen; omega
      | some i => simp only [hd, Option.isSome_some, if_true] at hlen; omega
    have hdotlen : p.dot + (p.numLen : Int) = G.length + 1 := by
      cases hd : p.decIdx with
      | none =>
        simp only [hd, Option.isSome_none, Bool.false_and, Bool.false_eq_true, if_false] at hdot hlen
        omega
      | some i =>
        simp only [hd, Option.isSome_some, Bool.true_and, if_true] at hdot hlen
        have hne : ((p.numLen : Int) - 1 == p.dp) = false := by
          simp only [beq_eq_false_iff_ne, ne_eq]; omega
        simp only [hne, Bool.false_eq_true, if_false] at hdot
        omega
    refine ⟨signBytes t ++ (G.take k ++ 46 :: G.drop k), [(p.numLen : Int)], ?_, ?_⟩
    · unfold composeB3
      simp only []
      rw [hc.1, hk, insertDot_in k G hkG, h.m, minusW_sign]
      rw [seqW_zero_append]
      have hl : (((signBytes t).length : Nat) : Int) + p.dot + (p.numLen : Int)
          = ((signBytes t ++ (G.take k ++ 46 :: G.drop k)).length : Int) := by
        simp only [List.length_append, List.length_cons, List.length_take, List.length_drop]
        omega
      rw [hl]
    · refine ⟨digitsVal G, G.length - k, ?_, Or.inl ⟨by omega, rfl, by omega⟩⟩
      have e1 : signBytes t ++ (G.take k ++ 46 :: G.drop k) = signB t.neg ++ G.take k ++ 46 :: G.drop k := by
        simp [signBytes_eq]
      rw [e1, parseDec_frac' t.neg (G.take k) (G.drop k) (allDigits_take h.digits k)
        (List.ne_nil_of_length_pos (by simp only [List.length_take]; omega))
        (allDigits_drop h.digits k)
        (List.ne_nil_of_length_pos (by simp only [List.length_drop]; omega))]
      simp

/-- no leading zero, integer result: digits, then zeros -/
theorem composeB5_spec (h : PrepSpec inp t p G c) (_hdp : 0 < p.dp) (hge : (p.numLen : Int) ≤ p.dp) :
    BranchOk t p G (composeB5 inp p) := by
  have hGpos : 0 < G.length := by have := h.nz; omega
  have hc := copyNumPart_eq (slice inp p.numOff p.numLen) p.decIdx p.dp p.m
  rw [h.erase] at hc
  have hlen := h.len
  have hGle : (G.length : Int) ≤ p.dp := by
    have : G.length ≤ p.numLen := by rw [hlen]; omega
    omega
  rw [insertDot_ge _ _ hGle] at hc
  obtain ⟨pad, hpad⟩ : ∃ pad : Nat, p.dp - (G.length : Int) = pad := ⟨(p.dp - (G.length : Int)).toNat, by omega⟩
  refine ⟨signBytes t ++ (G ++ List.replicate pad 48), [(p.numLen : Int), (pad : Int)], ?_, ?_⟩
  · unfold composeB5
    simp only []
    rw [hc.1, hc.2, h.m, minusW_sign]
    have hp : ((signBytes t).length : Int) + p.dp - (((signBytes t).length + G.length : Nat) : Int) = (pad : Int) := by
      omega
    rw [hp, Int.toNat_natCast, memsetW_eq_seqW]
    rw [seqW_zero_append3]
    have hl : ((signBytes t).length : Int) + p.dp = ((signBytes t ++ (G ++ List.replicate pad 48)).length : Int) := by
      simp only [List.length_append, List.length_replicate]; omega
    rw [hl]
  · refine ⟨digitsVal G * 10 ^ pad, 0, ?_, Or.inr ⟨by omega, ?_, rfl⟩⟩
    · rw [signBytes_eq, parseDec_int' t.neg _ (by rw [allDigits_append, allDigits_replicate_zero, h.digits]; rfl)
        (by simp [h.ne_nil]), digitsVal_append_zeros]
    · rw [hpad, Int.toNat_natCast]

/-- mantissa `0.ddd`, integer result: digits without their leading zeros, then zeros -/
theorem composeB4_spec (h : PrepSpec inp t p G c) (hlz : p.leadingZero = true) (_hdp : 0 < p.dp)
    (hge : (G.length : Int) ≤ p.dp) : BranchOk t p G (composeB4 inp p) := by
  obtain ⟨hdec, hsl, _⟩ := h.lz hlz
  have hlen := h.len
  simp only [hdec, Option.isSome_some, if_true] at hlen
  have hnl : (p.numLen + 65535) % 65536 = G.length := by have := h.lt; omega
  have hz : countFwd inp (p.numOff + 1) (p.numOff + 1 + G.length) = zerosPrefix G := by rw [countFwd_eq, hsl]
  have hnz := h.nz
  obtain ⟨pad, hpad⟩ : ∃ pad : Nat, p.dp - (G.length : Int) = pad := ⟨(p.dp - (G.length : Int)).toNat, by omega⟩
  have hn : ((G.length : Int) - (zerosPrefix G : Int)).toNat = G.length - zerosPrefix G := by omega
  have hsrc : slice inp (p.numOff + 1 + zerosPrefix G) (G.length - zerosPrefix G) = G.drop (zerosPrefix G) := by
    rw [slice_drop, hsl]
  have hc := copyNumPart_eq (G.drop (zerosPrefix G)) none p.dp p.m
  rw [eraseDec_none, insertDot_ge _ _ (by simp only [List.length_drop]; omega)] at hc
  refine ⟨signBytes t ++ (G.drop (zerosPrefix G) ++ List.replicate pad 48),
    [(G.length : Int) - (zerosPrefix G : Int), (pad : Int)], ?_, ?_⟩
  · unfold composeB4
    simp only []
    rw [hnl, hz, hn, hsrc, hc.1, hc.2, h.m, minusW_sign]
    have hp : ((signBytes t).length : Int) + p.dp - (zerosPrefix G : Int)
        - (((signBytes t).length + (G.drop (zerosPrefix G)).length : Nat) : Int) = (pad : Int) := by
      simp only [List.length_drop]; omega
    rw [hp, Int.toNat_natCast, memsetW_eq_seqW]
    rw [seqW_zero_append3]
    have hl : ((signBytes t).length : Int) + p.dp - (zerosPrefix G : Int)
        = ((signBytes t ++ (G.drop (zerosPrefix G) ++ List.replicate pad 48)).length : Int) := by
      simp only [List.length_append, List.length_replicate, List.length_drop]; omega
    rw [hl]
  · refine ⟨digitsVal G * 10 ^ pad, 0, ?_, Or.inr ⟨by omega, ?_, rfl⟩⟩
    · rw [signBytes_eq, parseDec_int' t.neg _
        (by rw [allDigits_append, allDigits_replicate_zero, allDigits_drop h.digits]; rfl)
        (List.ne_nil_of_length_pos (by simp only [List.length_append, List.length_drop]; omega)),
        digitsVal_append_zeros, digitsVal_drop_zeros G _ (Nat.le_refl _)]
    · rw [hpad, Int.toNat_natCast]

/-- mantissa `0.ddd`, the point moves inside the digits — the branch as rewritten by `fixes/F14.diff` -/
theorem composeB2fixed_spec (h : PrepSpec inp t p G c) (hlz : p.leadingZero = true) (hdp : 0 < p.dp)
    (hlt : p.dp < (G.length : Int)) : BranchOk t p G (composeB2fixed inp p) := by
  obtain ⟨hdec, hsl, _⟩ := h.lz hlz
  have hlen := h.len
  simp only [hdec, Option.isSome_some, if_true] at hlen
  have hnl : (p.numLen + 65535) % 65536 = G.length := by have := h.lt; omega
  obtain ⟨k, hk⟩ : ∃ k : Nat, p.dp = k := ⟨p.dp.toNat, by omega⟩
  have hkpos : 0 < k := by omega
  have hkG : k < G.length := by omega
  have hz0 : countFwd inp (p.numOff + 1) (p.numOff + 1 + k) = zerosPrefix (G.take k) := by
    rw [countFwd_eq, slice_take inp _ G.length k (by omega), hsl]
  have hz0le : zerosPrefix (G.take k) ≤ k := by
    have := zerosPrefix_le_length (G.take k); simp only [List.length_take] at this; omega
  have hz0G := zerosPrefix_take_le G k
  -- the number of zeros dropped, in both cases
  obtain ⟨z, hzdef, hzlt, hzle⟩ : ∃ z : Nat,
      (if ((zerosPrefix (G.take k) : Int) == (k : Int)) = true then (zerosPrefix (G.take k) : Int) - 1
        else (zerosPrefix (G.take k) : Int)) = (z : Int) ∧ z < k ∧ z ≤ zerosPrefix G := by
    by_cases hall : zerosPrefix (G.take k) = k
    · refine ⟨k - 1, ?_, by omega, by omega⟩
      have : ((zerosPrefix (G.take k) : Int) == (k : Int)) = true := by simp [hall]
      simp only [this, if_true]; omega
    · refine ⟨zerosPrefix (G.take k), ?_, by omega, hz0G⟩
      have : ((zerosPrefix (G.take k) : Int) == (k : Int)) = false := by
        simp only [beq_eq_false_iff_ne, ne_eq]; omega
      simp [this]
  have hdp' : (if ((zerosPrefix (G.take k) : Int) == (k : Int)) = true then (1 : Int) else (k : Int) - (z : Int))
      = ((k - z : Nat) : Int) := by
    by_cases hall : zerosPrefix (G.take k) = k
    · have hb : ((zerosPrefix (G.take k) : Int) == (k : Int)) = true := by simp [hall]
      simp only [hb, if_true] at hzdef ⊢
      omega
    · have hb : ((zerosPrefix (G.take k) : Int) == (k : Int)) = false := by
        simp only [beq_eq_false_iff_ne, ne_eq]; omega
      simp only [hb, Bool.false_eq_true, if_false]
      omega
  have hn : ((G.length : Int) - (z : Int)).toNat = G.length - z := by omega
  have hsrc : slice inp (p.numOff + 1 + z) (G.length - z) = G.drop z := by rw [slice_drop, hsl]
  have hc := copyNumPart_eq (G.drop z) none ((k - z : Nat) : Int) p.m
  rw [eraseDec_none, insertDot_in (k - z) (G.drop z) (by simp only [List.length_drop]; omega)] at hc
  refine ⟨signBytes t ++ ((G.drop z).take (k - z) ++ 46 :: (G.drop z).drop (k - z)), [(G.length : Int) - (z : Int)], ?_, ?_⟩
  · unfold composeB2fixed
    simp only []
    rw [hnl, hk, Int.toNat_natCast, hz0]
    simp only [hzdef, hdp', Int.toNat_natCast]
    rw [hn, hsrc, hc.1, h.m, minusW_sign]
    rw [seqW_zero_append]
    have hl : ((signBytes t).length : Int) + 1 + ((G.length : Int) - (z : Int))
        = ((signBytes t ++ ((G.drop z).take (k - z) ++ 46 :: (G.drop z).drop (k - z))).length : Int) := by
      simp only [List.length_append, List.length_cons, List.length_take, List.length_drop]; omega
    rw [hl]
  · refine ⟨digitsVal G, G.length - k, ?_, Or.inl ⟨by omega, rfl, by omega⟩⟩
    have e1 : signBytes t ++ ((G.drop z).take (k - z) ++ 46 :: (G.drop z).drop (k - z))
        = signB t.neg ++ (G.drop z).take (k - z) ++ 46 :: (G.drop z).drop (k - z) := by simp [signBytes_eq]
    rw [e1, parseDec_frac' t.neg _ _ (allDigits_take (allDigits_drop h.digits z) _)
      (List.ne_nil_of_length_pos (by simp only [List.length_take, List.length_drop]; omega))
      (allDigits_drop (allDigits_drop h.digits z) _)
      (List.ne_nil_of_length_pos (by simp only [List.length_drop]; omega))]
    rw [List.take_append_drop, digitsVal_drop_zeros G z hzle]
    simp only [List.length_drop]
    have : G.length - z - (k - z) = G.length - k := by omega
    rw [this]

/-- **the composition on a prepared number text**, for the source as fixed; for the 3.7.8 source outside the branch of
    F14 (`0.ddd` with the new point inside the digits) -/
theorem compose_spec (h : PrepSpec inp t p G c)
    (hx : Generated.lyjsonExpLeadingZeroFixed = true ∨ ¬ (p.leadingZero = true ∧ 0 < p.dp ∧ p.dp < p.numLen)) :
    BranchOk t p G (compose inp p) := by
  have hlen := h.len
  unfold compose
  by_cases hdp : p.dp ≤ 0
  · simp only [hdp, if_true]; exact composeB1_spec h hdp
  · simp only [hdp, if_false]
    have hdp' : 0 < p.dp := by omega
    cases hlz : p.leadingZero with
    | true =>
      obtain ⟨hdec, _⟩ := h.lz hlz
      simp only [hdec, Option.isSome_some, if_true] at hlen
      cases hfx : Generated.lyjsonExpLeadingZeroFixed with
      | true =>
        simp only [Bool.true_and, Bool.not_true, Bool.false_and, Bool.false_eq_true, if_true, if_false]
        by_cases hb : p.dp < (p.numLen : Int) - 1
        · simp only [hb, decide_true, if_true]
          exact composeB2fixed_spec h hlz hdp' (by omega)
        · simp only [hb, decide_false, Bool.false_eq_true, if_false]
          exact composeB4_spec h hlz hdp' (by omega)
      | false =>
        rw [hfx] at hx
        have hx' : ¬ (p.dp < (p.numLen : Int)) := by
          rcases hx with hx | hx
          · cases hx
          · intro hlt; exact hx ⟨hlz, hdp', hlt⟩
        simp only [Bool.true_and, Bool.false_eq_true, if_true, if_false, hx', decide_false]
        exact composeB4_spec h hlz hdp' (by omega)
    | false =>
      have hsame : (if Generated.lyjsonExpLeadingZeroFixed = true then
            if (false && decide (p.dp < (p.numLen : Int) - 1)) = true then composeB2fixed inp p
            else if (!false && decide (p.dp < (p.numLen : Int))) = true then composeB3 inp p
            else if false = true then composeB4 inp p else composeB5 inp p
          else
            if (false && decide (p.dp < (p.numLen : Int))) = true then composeB2orig inp p
            else if p.dp < (p.numLen : Int) then composeB3 inp p
            else if false = true then composeB4 inp p else composeB5 inp p)
          = if p.dp < (p.numLen : Int) then composeB3 inp p else composeB5 inp p := by
        by_cases hb : p.dp < (p.numLen : Int) <;> simp [hb]
      rw [hsame]
      by_cases hb : p.dp < (p.numLen : Int)
      · simp only [hb, if_true]; exact composeB3_spec h hdp' hb
      · simp only [hb, if_false]; exact composeB5_spec h hdp' (by omega)

end LyModel.JsonNum
