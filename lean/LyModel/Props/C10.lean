import LyModel.YangStr.Lex
namespace LyModel.Props.C10
theorem placeholder : True := trivial
end LyModel.Props.C10
