import LyModel.YangStr.LemmasTree
import LyModel.YangStr.LemmasKw
/-!
# C10 — printed schemas re-parse to the same module: the string side

Model: `LyModel/YangStr/Print.lean` (`ypr_encode`, `ypr_text`, `yprp_stmt` of `printer_yang.c`) and
`LyModel/YangStr/Lex.lean` (`read_qstring`, `get_argument`, `get_keyword`, `parse_ext_substmt` of `parser_yang.c`), tied to
the C code by `harness/wb_yang.c` (byte-exact correspondence on every run) and by `Generated/YangStr.lean` (the escape
switches, `is_yangutf8char`, `Y_TAB_SPACES` and the keyword trie are regenerated from the source).

`isYangText s`: the byte strings the lexer itself accepts character by character, i.e. exactly what an argument of a
parsed module can hold.  After the closing quote come `k` blanks and `rest`, where `RestOk rest` says that `rest` does
not start with `optsep` or `+` (the printers continue with `;` or ` {`, i.e. `k = 0` or `1`): the lexer skips the blanks
and stops in front of `rest`.  `ind` is `ctx->indent`, the lexer's own column counter, after the keyword.  In a single-line
statement it must EQUAL the true column (hypothesis `hind` of `yang_text_roundtrip_partial`, an equation: with an over-counted
column — `lysp_match_kw` over-counts when it backs out — the lexer strips more blanks from continuation lines than the printer
wrote).  That the lexer is in that state after every keyword of the trie is `kwAt_of_yangKwTrie`; `yang_text_roundtrip_keyword`
runs `get_keyword` and `get_argument` in sequence over the whole of what `ypr_text` printed.
-/
namespace LyModel.Props.C10
open LyModel LyModel.YangStr LyModel.Generated

/-! ## `ypr_encode` ↔ double-quoted lexing -/

/-- For every valid text without CR, what `ypr_encode` writes between double quotes is read back by `read_qstring`
    as the same text, at every column, leaving the rest of the input untouched. -/
theorem yang_encode_roundtrip (s rest : Bytes) (col k : Nat)
    (hs : isYangText s = true) (hcr : 13 ∉ s) (hr : RestOk rest) :
    ∃ ind', readQString col (34 :: (encode s ++ 34 :: (spaces k ++ rest))) = .ok (s, ind', rest) :=
  encode_readQString s rest col k (ychars_of_isYangText s hs) hcr hr

-- non-vacuity: `a"b\c<TAB><LF>é ` followed by `;`
example : ∃ ind', readQString 7 (34 :: (encode [97, 34, 98, 92, 99, 9, 10, 0xc3, 0xa9, 32] ++ 34 :: (spaces 0 ++ [59]))) =
    .ok ([97, 34, 98, 92, 99, 9, 10, 0xc3, 0xa9, 32], ind', [59]) :=
  yang_encode_roundtrip _ _ _ 0 (by decide) (by decide) (by decide)

/-- non-vacuity (audit): the same text at column 0 followed by one blank and `{` (`k = 1`, the other continuation the
    printers use) -/
example : ∃ ind', readQString 0 (34 :: (encode [97, 34, 98, 92, 99, 9, 10, 0xc3, 0xa9, 32] ++ 34 :: (spaces 1 ++ [123, 10]))) =
    .ok ([97, 34, 98, 92, 99, 9, 10, 0xc3, 0xa9, 32], ind', [123, 10]) :=
  yang_encode_roundtrip _ _ _ 1 (by decide) (by decide) (by decide)

/-- The hypothesis "no CR" cannot be dropped (F82): CR is a legal YANG character, `ypr_encode` copies it, and the
    lexer rejects a CR that is not followed by LF — and after CR LF the encoded string reads back differently. -/
theorem yang_encode_roundtrip_fails_cr :
    ¬ ∀ (s rest : Bytes) (col : Nat), isYangText s = true → RestOk rest →
      ∃ ind', readQString col (34 :: (encode s ++ 34 :: rest)) = .ok (s, ind', rest) := by
  intro h
  obtain ⟨ind', e⟩ := h [97, 13, 10, 98] [59] 4 (by decide) (by decide)
  have : readQString 4 (34 :: (encode [97, 13, 10, 98] ++ 34 :: [59])) = .ok ([97, 92, 110, 98], 3, [59]) := by rfl
  rw [this] at e
  simp at e

/-! ## `ypr_text` ↔ `get_argument` -/

/-- the quoting flag `get_argument` reports -/
def quoteFlag (flags : Nat) : Nat := if flagSingleQuoted flags then LYS_SINGLEQUOTED else LYS_DOUBLEQUOTED

/-- The texts `ypr_text` prints faithfully under `flags`: every single-quoted text; every double-quoted text without
    CR (F82: the double-quoted form has no escape for CR and libyang's lexer rejects a bare one). -/
def TextOk (flags : Nat) (s : Bytes) : Prop :=
  if flagSingleQuoted flags then True else 13 ∉ s

instance (flags : Nat) (s : Bytes) : Decidable (TextOk flags s) := by
  unfold TextOk; exact inferInstance

-- AUDIT (resolved): the docstring of `printText_eq` says that it is a definitional unfolding without content of its own.
/-- `ypr_text l flags name s` is `indent ++ name ++ printTextArg …`.  This is a DEFINITIONAL UNFOLDING of the model (`rfl`): it has no
    content of its own and is not a property theorem (it is, rightly, not listed in `Audit/C10.lean`); it only fixes how the
    statements below are read — they are about the part after the name (`printTextArg`), read by `get_argument` with the lexer's
    column counter after the keyword.  The statement about the whole of `printText`, keyword included, is
    `yang_text_roundtrip_keyword`. -/
theorem printText_eq (fmt : Bool) (level flags : Nat) (name s : Bytes) :
    printText fmt level flags name s = indentOf fmt level ++ name ++ printTextArg fmt level flags name.length s := rfl

-- AUDIT (resolved): `hind` is an equation about the lexer's state after the keyword; that state is proved for every keyword of
-- `yangKwTrie` (`kwAt_of_yangKwTrie`) and composed with this theorem in `yang_text_roundtrip_keyword` (both below the F82 theorems).
/-- **Round trip of `ypr_text`** (after the repair of F5, F35 and F83).  For every formatting mode, indentation level,
    flag set, length of the statement name and valid text `s` — without CR if it is printed in double quotes —, `get_argument`
    applied to what `ypr_text` printed after the statement name returns exactly `s`, with the quoting style the printer chose,
    and stops in front of the rest of the input.  `hind` is an ASSUMPTION about the lexer's state after the keyword: in a
    single-line statement its column counter `ind` must equal the true column, indentation + name length (an equation; `≥` would
    not do).  This theorem does not run `get_keyword`; that the assumption holds for every keyword of the trie is
    `kwAt_of_yangKwTrie`, and `yang_text_roundtrip_keyword` is the composition without the assumption. -/
theorem yang_text_roundtrip_partial (fmt : Bool) (level flags nameLen ind k : Nat) (s rest : Bytes)
    (hs : isYangText s = true) (hok : TextOk flags s)
    (hind : flagSingleLine flags = true → ind = (indentOf fmt level).length + nameLen) (hr : RestOk rest) :
    ∃ ind', getArgument false ind (printTextArg fmt level flags nameLen s ++ (spaces k ++ rest)) =
      .ok { word := some s, flags := quoteFlag flags, ind := ind', rest := rest } := by
  unfold TextOk at hok
  unfold quoteFlag
  cases hq : flagSingleQuoted flags with
  | true =>
    simp only [hq, if_true] at hok ⊢
    exact text_sq_getArgument false fmt level flags nameLen ind s rest hq (ychars_of_isYangText s hs) hr k
  | false =>
    simp only [hq, Bool.false_eq_true, if_false] at hok ⊢
    exact text_dq_getArgument false fmt level flags nameLen ind s rest hq (ychars_of_isYangText s hs) hok hind hr k

-- non-vacuity: a multi-line description (block style, level 2) with quotes, a tab, indented continuation lines and a
-- line that ends in a blank (the former F5 witness shape)
example : ∃ ind', getArgument false 15 (printTextArg true 2 0 11 [97, 34, 32, 10, 32, 32, 98, 9, 10, 10, 0xc3, 0xa9, 39] ++ (spaces 0 ++ [59])) =
    .ok { word := some [97, 34, 32, 10, 32, 32, 98, 9, 10, 10, 0xc3, 0xa9, 39], flags := LYS_DOUBLEQUOTED, ind := ind', rest := [59] } :=
  yang_text_roundtrip_partial true 2 0 11 15 0 _ [59] (by decide) (by decide) (by decide) (by decide)

-- the former F35 witness: `default "a<LF>  b"` at level 1 (keyword of 7 bytes read at column 2: ind = 9)
example : ∃ ind', getArgument false 9 (printTextArg true 1 1 7 [97, 10, 32, 32, 98] ++ (spaces 0 ++ [59])) =
    .ok { word := some [97, 10, 32, 32, 98], flags := LYS_DOUBLEQUOTED, ind := ind', rest := [59] } :=
  yang_text_roundtrip_partial true 1 1 7 9 0 _ [59] (by decide) (by decide) (by decide) (by decide)

-- the former F83 witness: `pattern 'a<LF>b'`, and a single-quoted text with quotes and CR inside, followed by ` {`
example : ∃ ind', getArgument false 9 (printTextArg true 1 3 7 [97, 10, 98] ++ (spaces 0 ++ [59])) =
    .ok { word := some [97, 10, 98], flags := LYS_SINGLEQUOTED, ind := ind', rest := [59] } :=
  yang_text_roundtrip_partial true 1 3 7 9 0 _ [59] (by decide) (by decide) (by decide) (by decide)

example : ∃ ind', getArgument false 9 (printTextArg true 1 3 7 [105, 116, 39, 39, 115, 13, 92] ++ (spaces 1 ++ [123])) =
    .ok { word := some [105, 116, 39, 39, 115, 13, 92], flags := LYS_SINGLEQUOTED, ind := ind', rest := [123] } :=
  yang_text_roundtrip_partial true 1 3 7 9 1 _ [123] (by decide) (by decide) (by decide) (by decide)

/-- non-vacuity (audit): the hypothesis `hind` is what the lexer itself produces — `get_keyword` started at column 0 of
    the line `  default "a<LF>  b";` (level 1, single-line flag) returns the keyword with `ctx->indent` = indentation +
    keyword length = 9, and `get_argument` continued from there returns the text -/
example : getKeyword 0 1 (printText true 1 1 [100, 101, 102, 97, 117, 108, 116] [97, 10, 32, 32, 98] ++ [59]) =
    .ok { tok := .kw, word := [100, 101, 102, 97, 117, 108, 116], ind := (indentOf true 1).length + 7, depth := 1,
          rest := printTextArg true 1 1 7 [97, 10, 32, 32, 98] ++ [59] } := by rfl
example : ∃ k a, getKeyword 0 1 (printText true 1 1 [100, 101, 102, 97, 117, 108, 116] [97, 10, 32, 32, 98] ++ [59]) = .ok k ∧
    k.word = [100, 101, 102, 97, 117, 108, 116] ∧ getArgument false k.ind k.rest = .ok a ∧
    a.word = some [97, 10, 32, 32, 98] ∧ a.rest = [59] :=
  ⟨_, _, rfl, rfl, rfl, rfl, rfl⟩

/-- non-vacuity (audit): shrink mode (`fmt = false`: no indentation at all), deep level, double-quoted block style -/
example : ∃ ind', getArgument false 3 (printTextArg false 40 0 11 [97, 32, 10, 32, 98, 9] ++ (spaces 1 ++ [123])) =
    .ok { word := some [97, 32, 10, 32, 98, 9], flags := LYS_DOUBLEQUOTED, ind := ind', rest := [123] } :=
  yang_text_roundtrip_partial false 40 0 11 3 1 _ [123] (by decide) (by decide) (by decide) (by decide)

-- AUDIT (resolved, naming only): `…_fails_F50` is about finding F82 (the name is referenced by `evidence/C10.json` and kept); alias `…_fails_F82`.
/-- F82 remains: a CR in a double-quoted text: the lexer rejects its own printer's output — the round trip without the no-CR
    hypothesis is false.  (The name says F50 for historical reasons — F50 is an unrelated finding, an XPath out-parameter leak of
    property C05; the same statement under the right number is `yang_text_roundtrip_fails_F82`.) -/
theorem yang_text_roundtrip_fails_F50 :
    ¬ ∀ (fmt : Bool) (level flags nameLen ind : Nat) (s rest : Bytes), isYangText s = true →
      flagSingleQuoted flags = false → (flagSingleLine flags = true → ind = (indentOf fmt level).length + nameLen) → RestOk rest →
      ∃ ind', getArgument false ind (printTextArg fmt level flags nameLen s ++ rest) =
        .ok { word := some s, flags := quoteFlag flags, ind := ind', rest := rest } := by
  intro h
  obtain ⟨ind', e⟩ := h true 1 1 7 9 [97, 13, 98] [59] (by decide) (by decide) (by decide) (by decide)
  have : getArgument false 9 (printTextArg true 1 1 7 [97, 13, 98] ++ [59]) = .error .inChar := by rfl
  rw [this] at e
  simp at e

/-- `yang_text_roundtrip_fails_F50` under the number of the finding the statement is about (F82: CR in a double-quoted text) -/
theorem yang_text_roundtrip_fails_F82 :
    ¬ ∀ (fmt : Bool) (level flags nameLen ind : Nat) (s rest : Bytes), isYangText s = true →
      flagSingleQuoted flags = false → (flagSingleLine flags = true → ind = (indentOf fmt level).length + nameLen) → RestOk rest →
      ∃ ind', getArgument false ind (printTextArg fmt level flags nameLen s ++ rest) =
        .ok { word := some s, flags := quoteFlag flags, ind := ind', rest := rest } :=
  yang_text_roundtrip_fails_F50

/-! ## `get_keyword` on the keywords of the trie, and the whole of `ypr_text` -/

/-- **Every keyword of the generated trie `yangKwTrie` lexes as itself, with the exact column** (`yangKeywords`: the 68 words the
    `IF_KW` / `IF_KW_PREFIX` alternatives of `lysp_match_kw` spell).  Followed by a blank or a newline, at every column `ind`, every
    depth and whatever stands behind the separator, `get_keyword` (from `keyword_start:` on) returns the keyword as a keyword token,
    leaves the separator in the input and has advanced `ctx->indent` by exactly the length of the keyword — the state that
    hypothesis `hind` of `yang_text_roundtrip_partial` assumes.  (Proof: the walk looks at one byte behind the keyword only,
    `walkAlts_sep`; the rest is an evaluation per keyword, `yangKeywords_check`.) -/
theorem kwAt_of_yangKwTrie (kw : Bytes) (hkw : kw ∈ yangKeywords) (ind depth : Nat) (sep : UInt8) (r : Bytes)
    (hsep : sep = 32 ∨ sep = 10) :
    kwAt ind depth (kw ++ sep :: r) =
      .ok { tok := .kw, word := kw, ind := ind + kw.length, depth := depth, rest := sep :: r } :=
  kwAt_yangKeyword kw hkw ind depth sep r hsep

/-- non-vacuity: the list is the keyword list of the trie — 68 words, among them one that is a prefix of another (`leaf` /
    `leaf-list`, `type` / `typedef`, `revision` / `revision-date`) and the ones with hyphens -/
example : yangKeywords.length = 68 ∧ ∀ kw ∈ ([
    [108, 101, 97, 102] /- leaf -/,
    [108, 101, 97, 102, 45, 108, 105, 115, 116] /- leaf-list -/,
    [116, 121, 112, 101] /- type -/,
    [116, 121, 112, 101, 100, 101, 102] /- typedef -/,
    [114, 101, 118, 105, 115, 105, 111, 110] /- revision -/,
    [114, 101, 118, 105, 115, 105, 111, 110, 45, 100, 97, 116, 101] /- revision-date -/,
    [121, 105, 110, 45, 101, 108, 101, 109, 101, 110, 116] /- yin-element -/,
    [101, 114, 114, 111, 114, 45, 97, 112, 112, 45, 116, 97, 103] /- error-app-tag -/,
    [97, 110, 121, 120, 109, 108] /- anyxml -/,
    [99, 111, 110, 116, 97, 105, 110, 101, 114] /- container -/,
    [105, 110, 112, 117, 116] /- input -/,
    [111, 117, 116, 112, 117, 116] /- output -/,
    [100, 101, 115, 99, 114, 105, 112, 116, 105, 111, 110] /- description -/] : List Bytes),
    kw ∈ yangKeywords := by decide

/-- non-vacuity: `leaf` at column 4, depth 2, followed by ` x;` and by a newline -/
example : kwAt 4 2 ([108, 101, 97, 102] ++ 32 :: [120, 59]) =
      .ok { tok := .kw, word := [108, 101, 97, 102], ind := 8, depth := 2, rest := [32, 120, 59] } ∧
    kwAt 4 2 ([108, 101, 97, 102] ++ 10 :: []) = .ok { tok := .kw, word := [108, 101, 97, 102], ind := 8, depth := 2, rest := [10] } :=
  ⟨kwAt_of_yangKwTrie _ (by decide) 4 2 32 _ (Or.inl rfl), kwAt_of_yangKwTrie _ (by decide) 4 2 10 _ (Or.inr rfl)⟩

/-- **`KwOk` holds for every keyword of the generated trie** — the side condition `WfStmts` puts on the keyword of each statement
    ("the keyword token lexes as itself when a blank or a newline follows", at every column, depth and continuation) is met by
    all 68 YANG keywords, not only by the ones of the witnesses below. -/
theorem kwOk_of_yangKwTrie (kw : Bytes) (hkw : kw ∈ yangKeywords) : KwOk kw :=
  ⟨startChar_of_yangKeyword kw hkw, fun ind depth sep r hsep =>
    ⟨Tok.kw, ind + kw.length, by decide, kwAt_yangKeyword kw hkw ind depth sep r hsep⟩⟩

/-- **`KwBareOk` for `input` and `output`**, the two YANG statements without an argument (the only keywords the printer can write
    with `;` directly behind them and `get_keyword` accepts there) -/
theorem kwBareOk_input_output : KwBareOk kwInput ∧ KwBareOk kwOutput :=
  ⟨fun ind depth r => ⟨Tok.kw, ind + kwInput.length, by decide, kwAt_bare_input_output kwInput (Or.inl rfl) ind depth r⟩,
   fun ind depth r => ⟨Tok.kw, ind + kwOutput.length, by decide, kwAt_bare_input_output kwOutput (Or.inr rfl) ind depth r⟩⟩

/-- non-vacuity: `KwOk` at two keywords the witnesses below do not use, and the bare form of `input` evaluated -/
example : KwOk [108, 101, 97, 102, 45, 108, 105, 115, 116] /- leaf-list -/ ∧ KwOk [114, 101, 113, 117, 105, 114, 101, 45, 105, 110, 115, 116, 97, 110, 99, 101] /- require-instance -/ ∧
    kwAt 2 1 (kwInput ++ 59 :: [10]) = .ok { tok := .kw, word := kwInput, ind := 7, depth := 1, rest := [59, 10] } :=
  ⟨kwOk_of_yangKwTrie _ (by decide), kwOk_of_yangKwTrie _ (by decide), rfl⟩

/-- **Round trip of the whole of `ypr_text`, keyword included** (`yang_text_roundtrip_partial` without its assumption `hind`).
    For every keyword `name` of the trie, every formatting mode, indentation level, flag set and valid text `s` — without CR if
    it is printed in double quotes —: `get_keyword`, started at column 0 of the line `ypr_text` printed (any depth), returns the
    keyword `name`, and `get_argument`, continued from the state `get_keyword` left (its column counter, its rest of the input),
    returns exactly `s` with the quoting style the printer chose and stops in front of the rest of the input. -/
theorem yang_text_roundtrip_keyword (fmt : Bool) (level flags depth k : Nat) (name s rest : Bytes)
    (hname : name ∈ yangKeywords) (hs : isYangText s = true) (hok : TextOk flags s) (hr : RestOk rest) :
    ∃ kres ind', getKeyword 0 depth (printText fmt level flags name s ++ (spaces k ++ rest)) = .ok kres ∧
      kres.tok = Tok.kw ∧ kres.word = name ∧ kres.depth = depth ∧
      getArgument false kres.ind kres.rest = .ok { word := some s, flags := quoteFlag flags, ind := ind', rest := rest } := by
  obtain ⟨c, w, rfl, hc⟩ := startChar_of_yangKeyword name hname
  obtain ⟨sep, tl, hsep, harg⟩ : ∃ sep tl, (sep = 32 ∨ sep = 10) ∧
      printTextArg fmt level flags (c :: w).length s = sep :: tl := by
    unfold printTextArg
    dsimp only
    split
    · exact ⟨32, _, Or.inl rfl, rfl⟩
    · exact ⟨10, _, Or.inr rfl, rfl⟩
  obtain ⟨ind', harg2⟩ := yang_text_roundtrip_partial fmt level flags (c :: w).length
    ((indentOf fmt level).length + (c :: w).length) k s rest hs hok (fun _ => rfl) hr
  have hin : printText fmt level flags (c :: w) s ++ (spaces k ++ rest) =
      spaces (if fmt then 2 * level else 0) ++ c :: (w ++ sep :: (tl ++ (spaces k ++ rest))) := by
    simp only [printText, indentOf, harg, List.append_assoc, List.cons_append]
  have hkw := kwAt_yangKeyword (c :: w) hname (0 + (if fmt then 2 * level else 0)) depth sep (tl ++ (spaces k ++ rest)) hsep
  rw [List.cons_append] at hkw
  refine ⟨_, ind', (by rw [hin, getKeyword_spaces 0 depth _ c _ hc, hkw]), rfl, rfl, rfl, ?_⟩
  show getArgument false (0 + (if fmt then 2 * level else 0) + (c :: w).length) (sep :: (tl ++ (spaces k ++ rest))) = _
  rw [← List.cons_append, ← harg]
  have e : 0 + (if fmt then 2 * level else 0) + (c :: w).length = (indentOf fmt level).length + (c :: w).length := by
    simp only [indentOf, spaces_length, Nat.zero_add]
  rw [e]
  exact harg2

/-- non-vacuity: the former F35 witness with its keyword — `  default "a<LF>  b";` (level 1, single-line flag) — and a block-style
    `description` at level 2 followed by ` {` -/
example : ∃ kres ind', getKeyword 0 1 (printText true 1 1 [100, 101, 102, 97, 117, 108, 116] /- default -/ [97, 10, 32, 32, 98] ++ (spaces 0 ++ [59])) = .ok kres ∧
    kres.tok = Tok.kw ∧ kres.word = [100, 101, 102, 97, 117, 108, 116] /- default -/ ∧ kres.depth = 1 ∧
    getArgument false kres.ind kres.rest = .ok { word := some [97, 10, 32, 32, 98], flags := quoteFlag 1, ind := ind', rest := [59] } :=
  yang_text_roundtrip_keyword true 1 1 1 0 _ _ [59] (by decide) (by decide) (by decide) (by decide)
example : ∃ kres ind', getKeyword 0 3 (printText true 2 0 [100, 101, 115, 99, 114, 105, 112, 116, 105, 111, 110] /- description -/ [97, 34, 32, 10, 98, 9] ++ (spaces 1 ++ [123])) = .ok kres ∧
    kres.tok = Tok.kw ∧ kres.word = [100, 101, 115, 99, 114, 105, 112, 116, 105, 111, 110] /- description -/ ∧ kres.depth = 3 ∧
    getArgument false kres.ind kres.rest = .ok { word := some [97, 34, 32, 10, 98, 9], flags := quoteFlag 0, ind := ind', rest := [123] } :=
  yang_text_roundtrip_keyword true 2 0 3 1 _ _ [123] (by decide) (by decide) (by decide) (by decide)

/-! ## `yprp_stmt` ↔ `parse_ext_substmt`: generic statement trees

`WfStmts ss` (LemmasTree): every keyword lexes as itself (`KwOk`, and `KwBareOk` where `;` follows it directly: a
YANG keyword without argument must be `input`/`output`, the printer writes `leaf;` and `get_keyword` wants a separator
after `leaf`); every argument is absent, or unquoted and able to stand without quotes (`UnquotedOk`), or double-quoted
without CR (F82), or single-quoted.

`KwOk kw` is a structure whose field `lex` quantifies over every column, depth and continuation; it is an ASSUMPTION of the three
theorems, per statement.  What is proved about it: it holds for every keyword of the generated trie (`kwOk_of_yangKwTrie`, all
68 YANG keywords; `kwBareOk_input_output` for the two that may stand bare) and for the extension keyword `e:x` of the
witnesses (`kwok_ex`, `kwbare_ex`).  For extension keywords `prefix:name` in general it is NOT proved (only evaluated: `e:x`, and
`type-x:y` after the `fix:` for F105 — before that fix it was false for a prefix that starts with a YANG keyword followed by `-`,
`_` or `.`), so for statement trees with other extension instances the theorems hold under a hypothesis that is not discharged here.
-- OPEN: `KwOk kw` (and `KwBareOk kw`) for every `kw = p ++ 58 :: n` with `p`, `n` YANG identifiers
-- (`isIdentStart` first byte, `isIdentChar` the others): needs `extLoop` over an arbitrary identifier after `matchKw` has
-- matched, backed out of, or not found a keyword at the start of `p`. -/

-- AUDIT (resolved): (1) `KwOk` is proved for every keyword of `yangKwTrie` (`kwOk_of_yangKwTrie`); (2) the keyword-like prefix (`type-x:y`) was finding F105, fixed (examples below); the section header says what `WfStmts` assumes.
/-- The statements `ss` (with all their substatements) printed by `yprp_stmt` at any level inside a block, read by the
    substatement loop of `parse_ext_substmt` with enough fuel, come back as exactly `ss` — keywords, arguments, quoting
    flags and tree shape — and the loop stops behind the closing brace.  Hypothesis `WfStmts ss` assumes, for the keyword of
    every statement, that it lexes as itself (`KwOk`; proved for every YANG keyword, `kwOk_of_yangKwTrie`, assumed for extension
    keywords other than the witnesses' — see the section header), and restricts the arguments as described there. -/
theorem stmt_tree_roundtrip (fmt : Bool) (l ind depth n f : Nat) (ss : List Stmt) (rest : Bytes)
    (hwf : WfStmts ss) (hd : 0 < depth) (hh : depth + heightL ss ≤ 500) (hf : needL ss ≤ f) :
    ∃ ind', parseStmt.parseChildren f ind depth (10 :: (printStmts fmt l ss ++ (spaces n ++ 125 :: rest))) =
      .ok (ss, ind', depth - 1, rest) :=
  qstmts_all ss fmt l ind depth n f rest hwf hd hh hf

/-- … in particular with the fuel the parser has when it is started on the text: `length + 1` of its input (every
    statement prints at least three bytes). -/
theorem stmt_tree_roundtrip_input_fuel (fmt : Bool) (l ind depth n : Nat) (ss : List Stmt) (rest : Bytes)
    (hwf : WfStmts ss) (hd : 0 < depth) (hh : depth + heightL ss ≤ 500) :
    ∃ ind', parseStmt.parseChildren ((10 :: (printStmts fmt l ss ++ (spaces n ++ 125 :: rest))).length + 1) ind depth
        (10 :: (printStmts fmt l ss ++ (spaces n ++ 125 :: rest))) = .ok (ss, ind', depth - 1, rest) :=
  stmt_tree_roundtrip fmt l ind depth n _ ss rest hwf hd hh (by
    have := needL_le ss fmt l hwf
    simp only [List.length_cons, List.length_append]
    omega)

/-- the same for one statement, entered as `parse_ext_substmt` is: after its keyword -/
theorem stmt_roundtrip (fmt : Bool) (l ind depth f : Nat) (s : Stmt) (rest : Bytes)
    (hwf : WfStmt s) (hh : depth + height s ≤ 500) (hf : need s ≤ f) :
    ∃ ind', parseStmt f (kwOf s) ind depth (afterKw fmt l s rest) = .ok (s, ind', depth, 10 :: rest) :=
  pstmt_all s fmt l ind depth f rest hwf hh hf

/-- AUDIT (resolved): before the `fix:` for F105 a statement whose keyword is `type-x:y` (an extension instance with the legal
    prefix `type-x`, which starts with a statement keyword) was never well-formed, because `get_keyword` stopped with "expected a
    keyword followed by a separator"; the statement-tree theorems were vacuous for such prefixes and the printed statement did
    not re-parse.  The lexer (and this model of it) now goes on scanning the identifier: -/
example : ∃ k, kwAt 0 0 ([116, 121, 112, 101, 45, 120, 58, 121] ++ [32]) = .ok k ∧ k.tok = Tok.ext ∧
    k.word = [116, 121, 112, 101, 45, 120, 58, 121] := ⟨_, rfl, rfl, rfl⟩

/-- … and the printed statement `type-x:y "a";` is lexed as an extension instance again -/
example : ∃ k, getKeyword 0 1 (printStmt true 0 (.mk [116, 121, 112, 101, 45, 120, 58, 121] (some [97]) LYS_DOUBLEQUOTED [])) = .ok k ∧
    k.tok = Tok.ext := ⟨_, rfl, rfl⟩

/-- a word that starts with a keyword and has no colon is still refused -/
example : kwAt 0 0 ([116, 121, 112, 101, 45, 120] ++ [32]) = .error .inStrExp := rfl

/-! non-vacuity: `e:x "a<LF>b" { type string; e:x; units 'it''s'; }` -/

theorem kwok_type : KwOk [116, 121, 112, 101] := by
  refine ⟨⟨116, _, rfl, by decide⟩, ?_⟩
  intro ind depth sep r hsep
  refine ⟨Tok.kw, ind + 4, by decide, ?_⟩
  rcases hsep with rfl | rfl <;>
    simp [kwAt, matchKw, yangKwTrie, walkAlts, stripPrefix, isAlnum, Utf8.rd]

theorem kwok_units : KwOk [117, 110, 105, 116, 115] := by
  refine ⟨⟨117, _, rfl, by decide⟩, ?_⟩
  intro ind depth sep r hsep
  refine ⟨Tok.kw, ind + 5, by decide, ?_⟩
  rcases hsep with rfl | rfl <;>
    simp [kwAt, matchKw, yangKwTrie, walkAlts, stripPrefix, isAlnum, Utf8.rd]

theorem kwok_ex : KwOk [101, 58, 120] := by
  have h58 : ∀ cs, Utf8.getUtf8 (58 :: cs) = some (58, 1) := fun cs => getUtf8_ascii 58 cs (by decide) (by decide)
  have h120 : ∀ cs, Utf8.getUtf8 (120 :: cs) = some (120, 1) := fun cs => getUtf8_ascii 120 cs (by decide) (by decide)
  refine ⟨⟨101, _, rfl, by decide⟩, ?_⟩
  intro ind depth sep r hsep
  refine ⟨Tok.ext, ind + 3, by decide, ?_⟩
  rcases hsep with rfl | rfl <;>
    simp [kwAt, matchKw, yangKwTrie, walkAlts, stripPrefix, isAlnum, Utf8.rd, extLoop, h58, h120, isIdentStart] <;> omega

theorem kwbare_ex : KwBareOk [101, 58, 120] := by
  have h58 : ∀ cs, Utf8.getUtf8 (58 :: cs) = some (58, 1) := fun cs => getUtf8_ascii 58 cs (by decide) (by decide)
  have h120 : ∀ cs, Utf8.getUtf8 (120 :: cs) = some (120, 1) := fun cs => getUtf8_ascii 120 cs (by decide) (by decide)
  intro ind depth r
  refine ⟨Tok.ext, ind + 3, by decide, ?_⟩
  simp [kwAt, matchKw, yangKwTrie, walkAlts, stripPrefix, isAlnum, Utf8.rd, extLoop, h58, h120, isIdentStart]

def exampleTree : List Stmt :=
  [.mk [101, 58, 120] (some [97, 10, 98]) LYS_DOUBLEQUOTED
    [.mk [116, 121, 112, 101] (some [115, 116, 114, 105, 110, 103]) 0 [],
     .mk [101, 58, 120] none 0 [],
     .mk [117, 110, 105, 116, 115] (some [105, 116, 39, 39, 115]) LYS_SINGLEQUOTED []]]

theorem exampleTree_wf : WfStmts exampleTree := by
  refine ⟨⟨kwok_ex, Or.inr (Or.inl ⟨rfl, by decide, by decide⟩), ?_⟩, trivial⟩
  refine ⟨⟨kwok_type, Or.inl ⟨rfl, ⟨by decide, by decide, by decide, by decide⟩⟩, trivial⟩, ?_⟩
  refine ⟨⟨kwok_ex, ⟨rfl, fun _ => kwbare_ex⟩, trivial⟩, ?_⟩
  exact ⟨⟨kwok_units, Or.inr (Or.inr ⟨rfl, by decide⟩), trivial⟩, trivial⟩

example : ∃ ind', parseStmt.parseChildren 10 4 1 (10 :: (printStmts true 1 exampleTree ++ (spaces 0 ++ 125 :: [10]))) =
    .ok (exampleTree, ind', 0, [10]) :=
  stmt_tree_roundtrip true 1 4 1 0 10 exampleTree [10] exampleTree_wf (by decide) (by decide) (by decide)

/-- non-vacuity (audit): `stmt_tree_roundtrip_input_fuel` at the example tree — the fuel is the parser's own `length + 1` -/
example : ∃ ind', parseStmt.parseChildren ((10 :: (printStmts true 1 exampleTree ++ (spaces 0 ++ 125 :: [10]))).length + 1) 4 1
    (10 :: (printStmts true 1 exampleTree ++ (spaces 0 ++ 125 :: [10]))) = .ok (exampleTree, ind', 0, [10]) :=
  stmt_tree_roundtrip_input_fuel true 1 4 1 0 exampleTree [10] exampleTree_wf (by decide) (by decide)

/-- `container c { leaf-list x { type string; description "a<LF>b"; } input; }` — keywords of the trie only (the generic parser does
    not care which statement may stand where) -/
def kwTree : List Stmt :=
  [.mk [99, 111, 110, 116, 97, 105, 110, 101, 114] (some [99]) 0
    [.mk [108, 101, 97, 102, 45, 108, 105, 115, 116] (some [120]) 0
       [.mk [116, 121, 112, 101] (some [115, 116, 114, 105, 110, 103]) 0 [],
        .mk [100, 101, 115, 99, 114, 105, 112, 116, 105, 111, 110] (some [97, 10, 98]) LYS_DOUBLEQUOTED []],
     .mk kwInput none 0 []]]

/-- non-vacuity of `kwOk_of_yangKwTrie` / `kwBareOk_input_output` as suppliers of `WfStmts`: every `KwOk` / `KwBareOk` obligation of
    that tree is discharged by them (membership in the keyword list by evaluation) -/
theorem kwTree_wf : WfStmts kwTree := by
  have ua : ∀ a : Bytes, isYangText a = true → a ≠ [] → (∀ b ∈ a, PlainByte b) → NoCmt a → UnquotedOk a := fun a h1 h2 h3 h4 => ⟨h1, h2, h3, h4⟩
  refine ⟨⟨kwOk_of_yangKwTrie _ (by decide), Or.inl ⟨rfl, ua _ (by decide) (by decide) (by decide) (by decide)⟩, ?_⟩, trivial⟩
  refine ⟨⟨kwOk_of_yangKwTrie _ (by decide), Or.inl ⟨rfl, ua _ (by decide) (by decide) (by decide) (by decide)⟩, ?_⟩,
    ⟨kwOk_of_yangKwTrie _ (by decide), ⟨rfl, fun _ => kwBareOk_input_output.1⟩, trivial⟩, trivial⟩
  exact ⟨⟨kwOk_of_yangKwTrie _ (by decide), Or.inl ⟨rfl, ua _ (by decide) (by decide) (by decide) (by decide)⟩, trivial⟩,
    ⟨kwOk_of_yangKwTrie _ (by decide), Or.inr (Or.inl ⟨rfl, by decide, by decide⟩), trivial⟩, trivial⟩

example : ∃ ind', parseStmt.parseChildren 12 4 1 (10 :: (printStmts true 1 kwTree ++ (spaces 0 ++ 125 :: [10]))) =
    .ok (kwTree, ind', 0, [10]) :=
  stmt_tree_roundtrip true 1 4 1 0 12 kwTree [10] kwTree_wf (by decide) (by decide) (by decide)

/-- the single statement of `exampleTree` -/
def exampleStmt : Stmt :=
  .mk [101, 58, 120] (some [97, 10, 98]) LYS_DOUBLEQUOTED
    [.mk [116, 121, 112, 101] (some [115, 116, 114, 105, 110, 103]) 0 [],
     .mk [101, 58, 120] none 0 [],
     .mk [117, 110, 105, 116, 115] (some [105, 116, 39, 39, 115]) LYS_SINGLEQUOTED []]

/-- non-vacuity (audit): `stmt_roundtrip` at that statement (a block with three substatements), entered after its keyword
    at depth 3 -/
example : ∃ ind', parseStmt 9 (kwOf exampleStmt) 7 3 (afterKw true 1 exampleStmt [125]) = .ok (exampleStmt, ind', 3, 10 :: [125]) :=
  stmt_roundtrip true 1 7 3 9 exampleStmt [125] exampleTree_wf.1 (by decide) (by decide)

/-- non-vacuity (audit): `e:x { e:x "q" { type string; } units 'u'; }  type a/b;` — three levels of nesting, two top-level
    siblings, a block without argument, an unquoted argument containing `/` -/
def auditTree : List Stmt :=
  [.mk [101, 58, 120] none 0
    [.mk [101, 58, 120] (some [113]) LYS_DOUBLEQUOTED
       [.mk [116, 121, 112, 101] (some [115, 116, 114, 105, 110, 103]) 0 []],
     .mk [117, 110, 105, 116, 115] (some [117]) LYS_SINGLEQUOTED []],
   .mk [116, 121, 112, 101] (some [97, 47, 98]) 0 []]

theorem auditTree_wf : WfStmts auditTree := by
  refine ⟨⟨kwok_ex, ⟨rfl, fun _ => kwbare_ex⟩, ?_⟩,
    ⟨kwok_type, Or.inl ⟨rfl, ⟨by decide, by decide, by decide, by decide⟩⟩, trivial⟩, trivial⟩
  refine ⟨⟨kwok_ex, Or.inr (Or.inl ⟨rfl, by decide, by decide⟩), ?_⟩,
    ⟨kwok_units, Or.inr (Or.inr ⟨rfl, by decide⟩), trivial⟩, trivial⟩
  exact ⟨⟨kwok_type, Or.inl ⟨rfl, ⟨by decide, by decide, by decide, by decide⟩⟩, trivial⟩, trivial⟩

/-- non-vacuity (audit): shrink mode, level 3, entered at depth 2, two blanks before the closing brace -/
example : ∃ ind', parseStmt.parseChildren 20 0 2 (10 :: (printStmts false 3 auditTree ++ (spaces 2 ++ 125 :: [59]))) =
    .ok (auditTree, ind', 1, [59]) :=
  stmt_tree_roundtrip false 3 0 2 2 20 auditTree [59] auditTree_wf (by decide) (by decide) (by decide)

/-- non-vacuity (audit): the fuel hypothesis is a real one — with fuel 2 the same input is not parsed -/
example : parseStmt.parseChildren 2 0 2 (10 :: (printStmts false 3 auditTree ++ (spaces 2 ++ 125 :: [59]))) = .error .fuel := by rfl

end LyModel.Props.C10
