import LyModel.XsdRe.SemLemmas
import LyModel.XsdRe.MceLemmas
import LyModel.XsdRe.SemMceLemmas
import LyModel.XsdRe.SemSubLemmas
import LyModel.XsdRe.SemNegLemmas
import LyModel.XsdRe.MceSem
import LyModel.XsdRe.RenderLemmas
import LyModel.XsdRe.Lemmas
import LyModel.XsdRe.BlockLemmas
import LyModel.XsdRe.FuelLemmas
/-!
# C18 — the rewrite XSD → PCRE2 preserves the language, on the fragment where the two syntaxes agree

`lys_compile_type_pattern_check` has no parser: it edits the pattern text (`XsdRe/Rewrite.lean`) and hands it to
`pcre2_compile`.  What the text *means* to PCRE2 is stated here as a small model: the PCRE dialect of the parser
(`Dialect.pcre`, `XsdRe/Parse.lean`: literals and `\`-escaped metacharacters, `\n \r \t`, `\x{H…}`, `.`, `\d \D`,
`\p{Xx} \P{Xx}`, classes with ranges and negation, groups, alternation, greedy quantifiers with bounds up to 65535; no raw
`^` / `$` outside a class — those are assertions — no `\i \c \w \s`, no `\p{IsX}`, no class subtraction) together with the
meaning of each construct under given compile options (`pcreRegex`) and the acceptance of a subject string under the
anchoring options (`PcreAccepts`).  **Trusted**: that PCRE2, for a text of this subset, accepts exactly the strings
`PcreAccepts` says (the library implements the textbook semantics of the subset; greedy quantifiers with backtracking decide
membership).  Proved: for every pattern of the fragment the text the C code produces from the canonical XSD text is in the
subset and accepts exactly the XSD language — with the options and the newline convention *of the source*
(`Generated.UBlocks`).

The fragment (`InFragment`) excludes exactly: class subtraction (F181), `\i \I \c \C` (F182), `\w \W \s \S` (F183), block escapes
(`\P{IsX}` and the missing blocks are F185; for `\p{IsX}` with a table row the single substitution step is
`C18.block_subst_correct`, the whole-pattern statement is OPEN), a literal `{` as class member (F450), quantifier bounds above
65535 (F451), U+0000 (a C string).  Each exclusion has its witness below.
-/
namespace LyModel.Props.C18Sem
open LyModel LyModel.XsdRe LyModel.XsdRe.Regex

/-! ## the PCRE2 meaning of the subset, by compile option -/

/-- `\d` with PCRE2_UCP is `\p{Nd}`, without it `[0-9]` -/
def pcreDigit (opts : List String) (c : Char) : Bool :=
  if "PCRE2_UCP" ∈ opts then Unicode.isXsdDigit c else decide ('0' ≤ c ∧ c ≤ '9')

/-- `.`: everything with PCRE2_DOTALL, else everything but the newline characters of the convention (the three conventions
    a single character decides: ANYCRLF, CR, LF = the build default "") -/
def pcreDot (opts : List String) (nl : String) (c : Char) : Bool :=
  if "PCRE2_DOTALL" ∈ opts then true
  else if nl = "PCRE2_NEWLINE_ANYCRLF" then !(c == '\n' || c == '\r')
  else if nl = "PCRE2_NEWLINE_CR" then !(c == '\r')
  else !(c == '\n')

def pcreEscMem (opts : List String) : Esc → Char → Bool
  | .dig, c => pcreDigit opts c
  | e, c => e.mem c

def pcreItemMem (opts : List String) : CItem → Char → Bool
  | .esc neg e, c => pcreEscMem opts e c != neg
  | i, c => i.mem c

def pcreClassMem (opts : List String) : CClass → Char → Bool
  | [], _ => false
  | g :: rest, c => ((g.items.any fun i => pcreItemMem opts i c) != g.neg) && !(pcreClassMem opts rest c)

/-- the regular expression a tree of the PCRE dialect stands for under the compile options `opts` and newline convention `nl`
    (PCRE2_NO_AUTO_CAPTURE or not, a group only groups) -/
def pcreRegex (opts : List String) (nl : String) : Pat → Regex Char
  | .eps => .one
  | .chr a => .sym fun c => a == c
  | .dot => .sym (pcreDot opts nl)
  | .esc neg e => .sym fun c => pcreEscMem opts e c != neg
  | .cls cc => .sym (pcreClassMem opts cc)
  | .alt a b => .alt (pcreRegex opts nl a) (pcreRegex opts nl b)
  | .cat a b => .cat (pcreRegex opts nl a) (pcreRegex opts nl b)
  | .rep p lo hi => .rep (pcreRegex opts nl p) lo hi
  | .group p => pcreRegex opts nl p

/-- acceptance of a subject: with PCRE2_ANCHORED and PCRE2_ENDANCHORED (at compile or at match time) the whole subject must
    match, otherwise some substring -/
def PcreAccepts (copts mopts : List String) (nl : String) (q : Pat) (s : List Char) : Prop :=
  if ("PCRE2_ANCHORED" ∈ copts ∨ "PCRE2_ANCHORED" ∈ mopts) ∧ ("PCRE2_ENDANCHORED" ∈ copts ∨ "PCRE2_ENDANCHORED" ∈ mopts) then
    L (pcreRegex copts nl q) s
  else ∃ u v w, s = u ++ v ++ w ∧ L (pcreRegex copts nl q) v

/-- the options the model's meaning depends on, as they must be for the PCRE meaning to be the XSD meaning -/
def OptionsOk (copts mopts : List String) (nl : String) : Prop :=
  "PCRE2_UTF" ∈ copts ∧ "PCRE2_UCP" ∈ copts ∧ "PCRE2_DOTALL" ∉ copts ∧ "PCRE2_CASELESS" ∉ copts ∧ "PCRE2_EXTENDED" ∉ copts ∧
  "PCRE2_MULTILINE" ∉ copts ∧ "PCRE2_UNGREEDY" ∉ copts ∧ "PCRE2_LITERAL" ∉ copts ∧
  ("PCRE2_ANCHORED" ∈ copts ∨ "PCRE2_ANCHORED" ∈ mopts) ∧ ("PCRE2_ENDANCHORED" ∈ copts ∨ "PCRE2_ENDANCHORED" ∈ mopts) ∧
  nl = "PCRE2_NEWLINE_ANYCRLF"

instance (a b c) : Decidable (OptionsOk a b c) := by unfold OptionsOk; infer_instance

/-- **The options and the newline convention of the source are the ones the theorem needs** (a source edit that drops
    PCRE2_UCP, adds PCRE2_DOTALL / PCRE2_CASELESS, removes an anchoring option or the `pcre2_set_newline` call breaks this). -/
theorem source_options_ok :
    OptionsOk Generated.UBlocks.compileOpts Generated.UBlocks.matchOpts Generated.UBlocks.newline := by decide

theorem pcreClassMem_eq (opts : List String) (h : "PCRE2_UCP" ∈ opts) : ∀ cc : CClass, pcreClassMem opts cc = cc.mem
  | [] => by funext c; rfl
  | g :: rest => by
    funext c
    have hi : ∀ i : CItem, pcreItemMem opts i c = i.mem c := by
      intro i
      cases i with
      | esc neg e => cases e <;> simp [pcreItemMem, pcreEscMem, pcreDigit, h, CItem.mem, Esc.mem]
      | ch a => rfl
      | range lo hi => rfl
    simp only [pcreClassMem, CClass.mem, CGroup.mem, pcreClassMem_eq opts h rest, hi]

/-- under the options of `OptionsOk` every construct of the subset means what it means in XSD -/
theorem pcreRegex_eq (copts mopts : List String) (nl : String) (h : OptionsOk copts mopts nl) :
    ∀ p : Pat, pcreRegex copts nl p = p.toRegex := by
  obtain ⟨_, hucp, hdot, _, _, _, _, _, _, _, hnl⟩ := h
  have hucp' := hucp
  have hdot' := hdot
  intro p
  induction p with
  | eps => rfl
  | chr a => rfl
  | dot =>
    simp only [pcreRegex, Pat.toRegex]
    congr 1; funext c
    simp [pcreDot, hdot', hnl, dotMem]
  | esc neg e =>
    simp only [pcreRegex, Pat.toRegex]
    congr 1; funext c
    cases e <;> simp [pcreEscMem, pcreDigit, hucp', Esc.mem]
  | cls cc => simp only [pcreRegex, Pat.toRegex, pcreClassMem_eq copts hucp' cc]
  | alt a b iha ihb => simp only [pcreRegex, Pat.toRegex, iha, ihb]
  | cat a b iha ihb => simp only [pcreRegex, Pat.toRegex, iha, ihb]
  | rep p lo hi ih => simp only [pcreRegex, Pat.toRegex, ih]
  | group p ih => simp only [pcreRegex, Pat.toRegex, ih]

/-! ## the fragment -/

/-- the patterns the theorem covers: trees of the grammar, all of whose constructs PCRE2 reads the way XSD does -/
def InFragment (p : Pat) : Bool := p.Canon && p.inDialect .pcre && p.noNul && p.noClsBrace

/-- the escape letters of the table of the source are among `i I c C s S w W` — none of which the fragment puts behind a
    backslash -/
theorem source_table_letters : ∀ e ∈ Generated.UBlocks.mceTable, e.1 ∈ mceLetters := by decide

/-- the model of the source as it is now (with or without fixes/F181.diff, F182.diff, F183.diff, F185.diff: escape table,
    subtraction code and negated-block pass as extracted) maps the canonical XSD text of a fragment pattern to its canonical
    PCRE text -/
theorem rewriteSrc_render (fx : Fixes) (p : Pat) (hwf : p.wf = true) (hd : p.inDialect .pcre = true) (hn : p.noNul = true)
    (hb : p.noClsBrace = true) : rewriteSrc fx (utf8 (p.render .xsd)) = .ok (utf8 (p.render .pcre)) :=
  LyModel.XsdRe.rewriteSrc_render fx p hwf hd hn hb

/-- **The rewrite preserves the language.**  For every XSD regular expression `p` of the fragment, take its canonical text
    (which the XSD parser reads back to `p`): the model of `lys_compile_type_pattern_check` — in every state of the five
    repairs, with the multi-character escape table and the subtraction code of the source now (`rewriteSrc`) —
    accepts it and produces a text `t` that (a) lies in the PCRE2 subset and (b) is accepted by PCRE2's semantics
    of that subset, under the compile options, match options and newline convention of the source, for exactly the strings
    of the XSD language `L p.toRegex`. -/
theorem rewrite_preserves_language (fx : Fixes) (p : Pat) (hf : InFragment p = true) :
    parseXsd (utf8 (renderXsd p)) = .ok p ∧
    ∃ t cs q, rewriteSrc fx (utf8 (renderXsd p)) = .ok t ∧ decodeUtf8 t = some cs ∧
      parseCharsD .pcre cs = .ok q ∧
      ∀ s, PcreAccepts Generated.UBlocks.compileOpts Generated.UBlocks.matchOpts Generated.UBlocks.newline q s ↔ L p.toRegex s := by
  simp only [InFragment, Bool.and_eq_true] at hf
  obtain ⟨⟨⟨hc, hd⟩, hn⟩, hb⟩ := hf
  have hwf : p.wf = true := by
    simp only [Pat.Canon, Bool.and_eq_true] at hc; exact hc.2
  refine ⟨?_, utf8 (p.render .pcre), p.render .pcre, p,
    rewriteSrc_render fx p hwf hd hn hb, decodeUtf8_utf8 _,
    parseCharsD_render .pcre p hc hd, fun s => ?_⟩
  · unfold parseXsd
    rw [decodeUtf8_utf8]
    exact parseCharsD_render .xsd p hc (Pat.inDialect_xsd p)
  · have ho := source_options_ok
    unfold PcreAccepts
    rw [if_pos ⟨ho.2.2.2.2.2.2.2.2.1, ho.2.2.2.2.2.2.2.2.2.1⟩, pcreRegex_eq _ _ _ ho p]

/-- … and so the derivative matcher on the PCRE reading of the rewritten text decides the XSD language (the executable
    form the check module runs) -/
theorem rewrite_preserves_matches (fx : Fixes) (p : Pat) (hf : InFragment p = true) (s : List Char) :
    ∃ t cs q, rewriteSrc fx (utf8 (renderXsd p)) = .ok t ∧ decodeUtf8 t = some cs ∧
      parseCharsD .pcre cs = .ok q ∧
      ((pcreRegex Generated.UBlocks.compileOpts Generated.UBlocks.newline q).matches s = true ↔ L p.toRegex s) := by
  obtain ⟨_, t, cs, q, h1, h2, h3, h4⟩ := rewrite_preserves_language fx p hf
  refine ⟨t, cs, q, h1, h2, h3, ?_⟩
  have ho := source_options_ok
  have := h4 s
  unfold PcreAccepts at this
  rw [if_pos ⟨ho.2.2.2.2.2.2.2.2.1, ho.2.2.2.2.2.2.2.2.2.1⟩] at this
  rw [matches_iff_L]
  exact this

/-- `a^[$^\]x-z]{2,3}(\\|\$)*.\d\P{Lu}`: anchors outside a class (escaped by the rewrite) and inside one (left alone), an
    escaped backslash, a quantified group, `.`, `\d`, a negated category -/
def exFrag : Pat :=
  .cat (.chr 'a') (.cat (.chr '^') (.cat (.rep (.cls [⟨false, [.ch '$', .ch '^', .ch ']', .range 'x' 'z']⟩]) 2 (some 3))
    (.cat (.rep (.group (.alt (.chr '\\') (.chr '$'))) 0 none) (.cat .dot (.cat (.esc false .dig) (.esc true (.cat "Lu")))))))

-- non-vacuity: the example is in the fragment, its canonical texts are as announced, and the theorem applies
example : InFragment exFrag = true := by decide +kernel
example : renderXsd exFrag = "a^[$\\^\\]x-z]{2,3}(\\\\|$)*.\\d\\P{Lu}".toList := by decide +kernel
example : exFrag.render .pcre = "a\\^[$\\^\\]x-z]{2,3}(\\\\|\\$)*.\\d\\P{Lu}".toList := by decide +kernel
example : rewriteWith Fixes.all (utf8 (renderXsd exFrag)) = .ok (utf8 (exFrag.render .pcre)) :=
  rewrite_render Fixes.all exFrag (by decide +kernel) (by decide +kernel) (by decide +kernel) (by decide +kernel)

/-! ## the rewrite is needed, and the exclusions are needed -/

/-- without the rewrite the XSD text is NOT in the subset: a raw `^` is an assertion for PCRE2 -/
theorem unrewritten_text_not_in_subset :
    (match parseCharsD .pcre (renderXsd (.chr '^')) with | .ok _ => false | .error _ => true) = true ∧
    parseCharsD .pcre ((Pat.chr '^').render .pcre) = .ok (.chr '^') := by
  constructor
  · decide +kernel
  · exact parseCharsD_render .pcre (.chr '^') (by decide +kernel) (by decide +kernel)

/-- F181: class subtraction is outside the subset — the rewritten text of `[a-c-[b]]` is the XSD text, which the PCRE dialect
    does not read as a subtraction -/
theorem subtraction_excluded :
    rewriteWith Fixes.all (utf8 (renderXsd (.cls [⟨false, [.range 'a' 'c']⟩, ⟨false, [.ch 'b']⟩]))) = .ok (utf8 "[a-c-[b]]".toList) ∧
    (match parseCharsD .pcre "[a-c-[b]]".toList with | .ok _ => false | .error _ => true) = true := by
  constructor <;> decide +kernel

/-- F182 / F183: without the table of fixes/F182.diff + F183.diff, `\i` and `\w` reach PCRE2 unchanged, outside the subset (PCRE2
    has no `\i`, and its `\w` is another set) -/
theorem multi_char_escapes_excluded :
    rewriteWithM [] Fixes.all (utf8 (renderXsd (.cat (.esc false .nameStart) (.esc false .word)))) = .ok (utf8 "\\i\\w".toList) ∧
    (match parseCharsD .pcre "\\i\\w".toList with | .ok _ => false | .error _ => true) = true := by
  constructor <;> decide +kernel

/-- F450: a literal `{` in a class can put the needle `\p{Is` of pass 2 behind an ESCAPED backslash; the substitution then
    edits the members of the class -/
theorem cls_brace_excluded :
    ¬ ∀ p : Pat, p.wf = true → p.inDialect .pcre = true → p.noNul = true →
      rewriteWith Fixes.all (utf8 (p.render .xsd)) = .ok (utf8 (p.render .pcre)) :=
  rewrite_render_fails_cls_brace

/-- F451: a bound above 65535 is outside the subset (PCRE2 refuses the number) -/
theorem big_quantifier_excluded :
    parseChars "a{0,65536}".toList = .ok (.rep (.chr 'a') 0 (some 65536)) ∧
    (match parseCharsD .pcre "a{0,65536}".toList with | .ok _ => false | .error _ => true) = true := by
  constructor
  · have h : renderXsd (.rep (.chr 'a') 0 (some 65536)) = "a{0,65536}".toList := by decide +kernel
    rw [← h]
    exact parseCharsD_render .xsd (.rep (.chr 'a') 0 (some 65536)) (by decide +kernel) (Pat.inDialect_xsd _)
  · decide +kernel

/-! ## fixes/F182.diff + F183.diff: the table of the source -/

/-- **With an empty table the repaired loop is the loop as it was.** -/
theorem mce_switch_off (fx : Fixes) (p : Bytes) : rewriteWithM [] fx p = rewriteWith fx p := rewriteWithM_nil fx p

/-- **Every row of `xsdmce2class` as it is in the source now denotes the XSD escape of its letter** (vacuous while the source
    has no table): the members, read as a PCRE2 class body, form one positive group that contains — for every character —
    exactly the characters of `\i \I \c \C \s \S \W`, and for `\w` exactly those of every character whose general category is
    one of the seven major categories. -/
theorem mce_rows_match_xsd_fixed : ∀ row ∈ Generated.UBlocks.mceTable,
    ∃ neg e items, mceSpec row.1 = some (neg, e) ∧ mceClass row.2 = .ok ([⟨false, items⟩], []) ∧
      ∀ c : Char, (row.1 = 119 → MajorCat c) → CClass.mem [⟨false, items⟩] c = (e.mem c != neg) := by
  have h : ∀ row ∈ Generated.UBlocks.mceTable, rowOk row = true := by decide +kernel
  exact fun row hr => rowOk_sound row (h row hr)

/-- the table has one of three states: none (before the repairs), `\i \I \c \C` (fixes/F182.diff), all eight (F183.diff on top) -/
theorem mce_table_state :
    (Generated.UBlocks.mceTable.map (·.1)) ∈ [[], [105, 73, 99, 67], [105, 73, 99, 67, 115, 83, 119, 87]] := by decide +kernel

/-- **What the repaired loop does with an escape of the table**: `\c` becomes the members of its row — in brackets of their
    own at depth 0, bare inside a class — and the loop goes on in the same state. -/
theorem mce_escape_replaced_fixed (tbl : List (UInt8 × Bytes)) (fx : Fixes) (b : Nat) (c : UInt8) (m rest : Bytes)
    (h : mceLookup tbl c = some m) :
    escapeLoopM tbl fx b false (bBackslash :: c :: rest) =
      (escapeLoopM tbl fx b false rest).map (fun t => (if b = 0 then bOpen :: (m ++ [bClose]) else m) ++ t) :=
  escapeLoopM_at_escape tbl fx b c m rest h

-- non-vacuity: a two-row table; `\s[\s^]$` ↦ `[ST][ST^]\$`
example : escapeLoopM [(115, [83, 84])] Fixes.all 0 false [92, 115, 91, 92, 115, 94, 93, 36] =
    .ok [91, 83, 84, 93, 91, 83, 84, 94, 93, 92, 36] := by decide

/-! ## fixes/F181.diff: class subtraction -/

/-- **With the repair, a class expression with subtractions becomes nested fixed-length look-behinds in one non-capturing
    group**: `[g₁-[g₂-[…gₙ]]]` ↦ `(?:[g₁](?<![g₂](?<!…[gₙ]…)))` (`subText`; a class without subtraction is copied) — for every
    class of up to 63 levels (the `sub_mask` of the C code has 64 bits) whose members are characters, ranges, `\d \D`, `\p{Cat}`
    `\P{Cat}`, in every state of the other repairs and with any escape table.  Read with PCRE2's documented semantics —
    `[G](?<!X)` consumes a character of `G` and then requires that `X` does not match the character just consumed — this
    is `g₁` minus (`g₂` minus (… `gₙ`)), the XSD meaning `CClass.mem`; look-behinds are outside the modelled subset, so
    that reading is tied by the matching law of the check only. -/
theorem subtraction_text_fixed (tbl : List (UInt8 × Bytes)) (htbl : ∀ e ∈ tbl, e.1 ∈ mceLetters) (fx : Fixes) (cc : CClass)
    (hwf : cc.wf = true) (hd : ∀ g ∈ cc, ∀ i ∈ g.items, CItem.inDialect .pcre i = true) (hn : CClass.noNul cc = true)
    (hb : ∀ g ∈ cc, ∀ i ∈ g.items, i.noBrace = true) (hlen : cc.length ≤ 63) :
    rewriteWithS tbl fx (utf8 ('[' :: cc.render)) = .ok (utf8 (subText cc)) :=
  subtraction_text tbl htbl fx cc hwf hd hn hb hlen

-- non-vacuity: `[^a-[b-[c-e\d]]]` ↦ `(?:[^a](?<![b](?<![c-e\d])))`, and a quantifier behind it applies to the group
example : subText [⟨true, [.ch 'a']⟩, ⟨false, [.ch 'b']⟩, ⟨false, [.range 'c' 'e', .esc false .dig]⟩] =
    "(?:[^a](?<![b](?<![c-e\\d])))".toList := by decide +kernel
example : rewriteWithS [] Fixes.all (utf8 "[a-c-[b]]+x".toList) = .ok (utf8 "(?:[a-c](?<![b]))+x".toList) := by decide +kernel

/-- **Switch off = the loop before the repair**: on a text without a subtraction trigger (an unescaped `-` inside a class
    directly followed by `[`) the repaired loop produces what `escapeLoopM` produces -/
theorem subtraction_switch_off (tbl : List (UInt8 × Bytes)) (fx : Fixes) (b : Nat) (e : Bool) (s : Bytes)
    (h : noSubTrig b e s = true) :
    (escapeLoopS tbl fx { brack := b, escaped := e } s).map resolve = escapeLoopM tbl fx b e s :=
  escapeLoopS_eq_escapeLoopM tbl fx b e s h

-- non-vacuity: `[a\-[b]` has an ESCAPED dash: no trigger
example : noSubTrig 0 false [91, 97, 92, 45, 91, 98, 93] = true := by decide

/-! ## fixes/F185.diff: negated block escapes outside a class -/

/-- **With the repair, `\P{IsNAME}` outside every character class becomes `[^\p{IsNAME}]`** before pass 1 (pass 2 then
    substitutes the range of NAME without its brackets: `C18.block_subst_correct`, depth ≠ 0) — for any text `pre` before it
    that contains no such escape itself and ends outside a class and outside an escape; inside a class and behind an
    escaped backslash nothing is touched (`negBlocksLoop_id`). -/
theorem negated_block_fixed (pre name post : Bytes) (hpre : noNegTrig 0 false pre = true) (hend : negEnd 0 false pre = (0, false))
    (hname : bRBrace ∉ name) (hn : ∀ x ∈ name, x ≠ bBackslash ∧ x ≠ bOpen ∧ x ≠ bClose) :
    negBlocksLoop 0 false false (pre ++ [92, 80, 123, 73, 115] ++ name ++ bRBrace :: post) =
      pre ++ [91, 94, 92, 112, 123, 73, 115] ++ name ++ [bRBrace, bClose] ++ negBlocksLoop 0 false false post :=
  negBlocksLoop_at pre name post hpre hend hname hn

/-- … and a text without such an escape outside a class is left alone -/
theorem negated_block_switch_off (s : Bytes) (h : noNegTrig 0 false s = true) : negBlocksLoop 0 false false s = s := by
  have := negBlocksLoop_id s 0 false h
  simpa using this

-- non-vacuity: `a[\P{IsX}]\P{IsGreek}+` ↦ `a[\P{IsX}][^\p{IsGreek}]+` and, with pass 1 and 2, `a[\P{IsX}][^\x{0370}-\x{03FF}]+`
example : negBlocksLoop 0 false false (utf8 "a[\\P{IsX}]\\P{IsGreek}+".toList) = utf8 "a[\\P{IsX}][^\\p{IsGreek}]+".toList := by decide +kernel
example : rewriteWithM [] Fixes.all (prePass true (utf8 "x\\P{IsGreek}+".toList)) = .ok (utf8 "x[^\\x{0370}-\\x{03FF}]+".toList) := by decide +kernel
example : noNegTrig 0 false (utf8 "[\\P{IsGreek}]\\\\P{IsGreek}".toList) = true := by decide +kernel

/-- pass 1 has no other error than the stray bracket, with any table; so the whole rewrite neither crashes (F1 repaired) nor
    runs out of fuel -/
theorem rewriteM_total (tbl : List (UInt8 × Bytes)) (fx : Fixes) (h1 : fx.f1 = true) (h187 : fx.f187 = true) (p : Bytes) :
    rewriteWithM tbl fx p ≠ .error .crash ∧ rewriteWithM tbl fx p ≠ .error .fuel := by
  unfold rewriteWithM
  split
  · rename_i e he
    have := escapeLoopM_err tbl fx _ _ _ e he
    subst this
    exact ⟨fun h => (by cases h), fun h => (by cases h)⟩
  · exact ⟨chblocksLoop_no_crash fx h1 _ _ _ _, chblocks_fuel_sufficient fx h187 _⟩

example : rewriteWithM [(115, [83, 84])] Fixes.all [92, 115, 92, 112, 123, 73, 115, 71, 114, 101, 101, 107, 125] ≠ .error .crash :=
  (rewriteM_total _ Fixes.all rfl rfl _).1

end LyModel.Props.C18Sem
