import LyModel.Val.LemmasHex
/-!
# C03 — `hex-string`, `mac-address`, `phys-address`, `uuid` (ietf-yang-types, RFC 6991)

Model: `Val/HexStr.lean` — `lyplg_type_store_hex_string` of `plugins_types/hex_string.c` with the `_simple` compare / sort / print
callbacks; compared with the implementation on every run (`tools/checks/valhex.py`).  The compiled types of the four typedefs
(`HexStr.tyOf`) are built from `models/ietf-yang-types@2013-07-15.yang` (`Generated/ValHex.lean`); the matcher is the specification
matcher of C18 (`XsdRe.Regex.matches`, equal to the denotation `Regex.L`).

RFC 6991: "The canonical representation uses lowercase characters."  The theorems hold for every compiled string type `t` the plug-in
could be attached to; the examples use the four typedefs.
-/
namespace LyModel.Props.C03Hex
open LyModel LyModel.Val LyModel.Val.HexStr LyModel.XsdRe LyModel.XsdRe.Regex

/-- ASCII upper-case letter -/
abbrev IsUpperAscii (b : UInt8) : Prop := 65 ≤ b.toNat ∧ b.toNat ≤ 90

/-- the compiled typedefs (empty type if the YANG module had no such typedef: the examples below would fail) -/
def hexString : PStrTy := (tyOf "hex-string").getD ⟨[], []⟩
def macAddress : PStrTy := (tyOf "mac-address").getD ⟨[], []⟩
def physAddress : PStrTy := (tyOf "phys-address").getD ⟨[], []⟩
def uuid : PStrTy := (tyOf "uuid").getD ⟨[], []⟩

/-- bytes of a literal -/
def b (s : String) : Bytes := s.toUTF8.toList

/-! ## acceptance -/

/-- `hex_accept_iff`: a value is stored ⇔ the hint set admits a string AND the LOWER-CASED C string of the input satisfies the length
    restriction (in characters) and every pattern of the compiled type (with `invert-match`: no pattern) on the whole value — for a type
    with patterns this includes being well-formed UTF-8, which nothing else checks; the stored (canonical) value is that lower-cased
    string. -/
theorem hex_accept_iff (t : PStrTy) (hints : Nat) (s x : Bytes) :
    store t hints s = .ok x ↔
      (checkHints hints "string").isSome = true ∧ x = lower (cstr s) ∧
        validateRange (rangeIsUnsigned "string") t.length (utf8Len (x.length + 1) x : Nat) = true ∧
        (t.pats = [] ∨ ∃ cs, decodeUtf8 x = some cs ∧ ∀ p ∈ t.pats, (L p.1 cs ↔ p.2 = false)) :=
  store_ok_iff t hints s x

example : store macAddress Generated.LYD_HINT_DATA (b "00:11:22:AA:bb:Cc") = .ok (b "00:11:22:aa:bb:cc") := by decide +kernel
example : store macAddress Generated.LYD_HINT_DATA (b "00:11:22:AA:bb") = .error .Pattern := by decide +kernel
example : store uuid Generated.LYD_HINT_DATA (b "F81D4FAE-7dec-11D0-a765-00A0C91E6BF6") = .ok (b "f81d4fae-7dec-11d0-a765-00a0c91e6bf6") := by
  decide +kernel
example : store hexString Generated.LYD_HINT_DATA [] = .ok [] ∧ store physAddress Generated.LYD_HINT_DATA (b "0A:b") = .error .Pattern ∧
    store hexString Generated.LYD_HINT_DATA [0x41, 0x42, 0xFF] = .error .PcreUtf8 ∧ store hexString 0 (b "ab") = .error .Hint := by decide +kernel
-- the theorem used left to right: the canonical MAC address is in the language of the typedef's pattern
example : ∃ cs, decodeUtf8 (b "00:11:22:aa:bb:cc") = some cs ∧ ∀ p ∈ macAddress.pats, (L p.1 cs ↔ p.2 = false) := by
  obtain ⟨_, _, _, h⟩ := (hex_accept_iff macAddress Generated.LYD_HINT_DATA (b "00:11:22:AA:bb:Cc") (b "00:11:22:aa:bb:cc")).mp (by decide +kernel)
  exact h.resolve_left (by decide +kernel)

/-- Full strength: the stored value is the lower-cased INPUT.  False — the plug-in copies the value with `strndup`, which stops at the
    first NUL byte, and never looks at the rest: `AB\0zz` (5 bytes, e.g. the value of a LYB document or of `lyd_value_validate` with an
    explicit length) is accepted and stored as `ab`.  The `string` plug-in refuses the same bytes (`Invalid character 0x00`). -/
theorem hex_accept_whole_input_fails :
    ¬ ∀ (t : PStrTy) (hints : Nat) (s x : Bytes), store t hints s = .ok x → x = lower s := by
  intro h
  have := h hexString Generated.LYD_HINT_DATA [0x41, 0x42, 0, 0x7A, 0x7A] [0x61, 0x62] (by decide +kernel)
  exact absurd this (by decide)

/-- …true for every input without a NUL byte (every value of the text formats). -/
theorem hex_accept_whole_input_partial (t : PStrTy) (hints : Nat) (s x : Bytes) (hs : ∀ c ∈ s, c ≠ 0) :
    store t hints s = .ok x → x = lower s := by
  intro h
  rw [(store_ok_iff t hints s x).mp h |>.2.1, cstr_eq_self_of_no_nul s hs]

example : (∀ c ∈ b "00:11:22:AA:bb:Cc", c ≠ 0) ∧ store macAddress Generated.LYD_HINT_DATA (b "00:11:22:AA:bb:Cc") = .ok (lower (b "00:11:22:AA:bb:Cc")) := by
  decide +kernel

/-! ## canonical form -/

/-- `hex_canonical_lowercase`: a stored value has no upper-case ASCII letter, and it is the (C string of the) input itself exactly
    when the input has none. -/
theorem hex_canonical_lowercase (t : PStrTy) (hints : Nat) (s x : Bytes) (h : store t hints s = .ok x) :
    (∀ c ∈ canon x, ¬ IsUpperAscii c) ∧ (canon x = cstr s ↔ ∀ c ∈ cstr s, ¬ IsUpperAscii c) := by
  obtain ⟨_, rfl, _, _⟩ := (store_ok_iff t hints s x).mp h
  have conv : ∀ c : UInt8, isUpper c = false ↔ ¬ IsUpperAscii c := fun c => by
    show isUpper c = false ↔ ¬ (65 ≤ c.toNat ∧ c.toNat ≤ 90)
    rw [← isUpper_iff]
    cases isUpper c <;> simp
  unfold HexStr.canon
  refine ⟨fun c hc => (conv c).mp (lower_no_upper _ c hc), ?_⟩
  rw [lower_eq_self_iff]
  exact forall_congr' fun c => imp_congr_right fun _ => conv c

example : canon (b "00:11:22:aa:bb:cc") ≠ cstr (b "00:11:22:AA:bb:Cc") ∧ ¬ ∀ c ∈ cstr (b "00:11:22:AA:bb:Cc"), ¬ IsUpperAscii c := by
  refine ⟨by decide +kernel, fun h => h 0x41 (by decide +kernel) (by decide)⟩

/-- `hex_canon_idempotent`: the canonical value is stored as itself. -/
theorem hex_canon_idempotent (t : PStrTy) (hints : Nat) (s x : Bytes) (h : store t hints s = .ok x) :
    store t hints (canon x) = .ok x := by
  obtain ⟨_, rfl, _, _⟩ := (store_ok_iff t hints s x).mp h
  unfold HexStr.canon
  rw [store_congr t hints (s2 := s) (by rw [cstr_lower_cstr, lower_idem])]
  exact h

example : store uuid Generated.LYD_HINT_DATA (canon (b "f81d4fae-7dec-11d0-a765-00a0c91e6bf6")) = .ok (b "f81d4fae-7dec-11d0-a765-00a0c91e6bf6") := by
  decide +kernel

/-! ## equality -/

/-- `hex_eq_iff_canon_eq`: two stored values are equal (compare callback) ⇔ their canonical strings are equal ⇔ the lower-cased inputs
    are equal. -/
theorem hex_eq_iff_canon_eq (t : PStrTy) (h1 h2 : Nat) (s1 s2 x y : Bytes) (hx : store t h1 s1 = .ok x) (hy : store t h2 s2 = .ok y) :
    (cmpEq x y = true ↔ canon x = canon y) ∧ (cmpEq x y = true ↔ lower (cstr s1) = lower (cstr s2)) := by
  obtain ⟨_, rfl, _, _⟩ := (store_ok_iff t h1 s1 x).mp hx
  obtain ⟨_, rfl, _, _⟩ := (store_ok_iff t h2 s2 y).mp hy
  unfold HexStr.cmpEq HexStr.canon
  simp only [beq_iff_eq, and_self]

/-- `hex_case_insensitive`: two inputs that differ only in the case of ASCII letters (position by position the same byte, or the
    upper- and lower-case form of one letter) get the same verdict: both are refused, for the same reason, or both are stored, and
    then as EQUAL values — same canonical string, compare callback `LY_SUCCESS`, sort callback 0. -/
theorem hex_case_insensitive (t : PStrTy) (hints : Nat) (s1 s2 : Bytes) (h : CaseEq s1 s2) :
    (∃ e, store t hints s1 = .error e ∧ store t hints s2 = .error e) ∨
      (∃ x, store t hints s1 = .ok x ∧ store t hints s2 = .ok x ∧ cmpEq x x = true ∧ sort x x = 0) := by
  have hc := store_congr t hints (caseEq_lower_cstr h)
  cases h1 : store t hints s1 with
  | error e => exact Or.inl ⟨e, rfl, by rw [← hc, h1]⟩
  | ok x =>
    refine Or.inr ⟨x, rfl, by rw [← hc, h1], ?_, ?_⟩
    · unfold HexStr.cmpEq; exact beq_self_eq_true x
    · unfold HexStr.sort; exact (strcmp_zero x x).mpr rfl

example : CaseEq (b "00:11:22:AA:bb:Cc") (b "00:11:22:aa:BB:cC") ∧ b "00:11:22:AA:bb:Cc" ≠ b "00:11:22:aa:BB:cC" ∧
    store macAddress Generated.LYD_HINT_DATA (b "00:11:22:aa:BB:cC") = .ok (b "00:11:22:aa:bb:cc") := by
  refine ⟨(caseEq_iff _ _).mpr (by decide +kernel), by decide +kernel, by decide +kernel⟩
example : CaseEq (b "0G") (b "0g") ∧ store hexString Generated.LYD_HINT_DATA (b "0G") = .error .Pattern := by
  refine ⟨(caseEq_iff _ _).mpr (by decide +kernel), by decide +kernel⟩

/-- …and only case variants are identified: two stored values are equal ⇔ the inputs (their C strings) differ in the case of ASCII
    letters only. -/
theorem hex_equal_only_case_variants (t : PStrTy) (h1 h2 : Nat) (s1 s2 x y : Bytes) (hx : store t h1 s1 = .ok x) (hy : store t h2 s2 = .ok y) :
    cmpEq x y = true ↔ CaseEq (cstr s1) (cstr s2) := by
  rw [(hex_eq_iff_canon_eq t h1 h2 s1 s2 x y hx hy).2, caseEq_iff]

example : ¬ CaseEq (cstr (b "0a")) (cstr (b "0b")) := by
  rw [caseEq_iff]; decide +kernel

/-! ## order -/

/-- `hex_sort_consistent_with_eq`: the sort callback (`strcmp` of the canonical values) is antisymmetric, transitive, and 0 exactly
    for equal values: a total preorder whose equivalence is the equality of the compare callback. -/
theorem hex_sort_consistent_with_eq (x y z : Bytes) :
    sort x y = -sort y x ∧ (sort x y ≤ 0 → sort y z ≤ 0 → sort x z ≤ 0) ∧ (sort x y = 0 ↔ cmpEq x y = true) := by
  unfold HexStr.sort HexStr.cmpEq
  refine ⟨strcmp_antisymm x y, strcmp_trans x y z, ?_⟩
  rw [strcmp_zero, beq_iff_eq]

example : sort (b "00:0a") (b "00:0b") = -1 ∧ sort (b "00") (b "00:00") = -1 ∧ sort (b "ff") (b "0a:00") = 1 := by decide +kernel

/-! ## LYB -/

/-- `hex_lyb_roundtrip`: the LYB form of a stored value is its canonical string, and storing it from LYB gives the value back. -/
theorem hex_lyb_roundtrip (t : PStrTy) (hints : Nat) (s x : Bytes) (h : store t hints s = .ok x) :
    lyb x = canon x ∧ unlyb t (lyb x) = .ok x := by
  refine ⟨rfl, ?_⟩
  have hh := ((store_ok_iff t hints s x).mp h).1
  unfold HexStr.unlyb HexStr.lyb
  rw [store_hints t x data_hints_string hh]
  exact hex_canon_idempotent t hints s x h

/-- a LYB value is lower-cased like a text value: storing from LYB is storing the same bytes as text -/
theorem hex_lyb_is_text (t : PStrTy) (hints : Nat) (v : Bytes) (hh : (checkHints hints "string").isSome = true) :
    unlyb t v = store t hints v :=
  store_hints t v data_hints_string hh

example : unlyb macAddress (b "00:11:22:AA:BB:CC") = .ok (b "00:11:22:aa:bb:cc") ∧ unlyb macAddress (lyb (b "00:11:22:aa:bb:cc")) = .ok (b "00:11:22:aa:bb:cc") := by
  decide +kernel

/-! ## relation to the `string` type (C03Pattern, `storePStr`) -/

/-- `hex_accepts_string_values`: the typedefs are restrictions of `string` whose values are taken case-insensitively — whenever the
    `string` plug-in with the same length and patterns stores the lower-cased C string of the input, the hex-string plug-in stores the
    input, as that string. -/
theorem hex_accepts_string_values (t : PStrTy) (hints : Nat) (s x : Bytes) (h : storePStr t hints (lower (cstr s)) = .ok x) :
    store t hints s = .ok x :=
  store_of_storePStr h

/-- `hex_value_is_string_value`: a stored value is a value of the `string` type with the same restrictions (so `string_accept_iff` and
    `string_chain_all_applied` of C03Pattern apply to it) — provided it passes `string_check_chars`, the one step of the `string`
    plug-in this plug-in leaves out (for a type whose patterns admit only ASCII, like the four typedefs, the patterns imply it). -/
theorem hex_value_is_string_value (t : PStrTy) (hints : Nat) (s x : Bytes) (h : store t hints s = .ok x) (hp : t.pats ≠ [])
    (hc : checkChars (x.length + 1) x = true) : storePStr t hints x = .ok x :=
  storePStr_of_store h hp hc

example : storePStr macAddress Generated.LYD_HINT_DATA (lower (cstr (b "00:11:22:AA:bb:Cc"))) = .ok (b "00:11:22:aa:bb:cc") ∧
    macAddress.pats ≠ [] ∧ checkChars ((b "00:11:22:aa:bb:cc").length + 1) (b "00:11:22:aa:bb:cc") = true := by decide +kernel
-- the step that is left out: U+0001 is refused by the pattern here (`Pattern`), by the character check there (`BadUtf8`)
example : store hexString Generated.LYD_HINT_DATA [1] = .error .Pattern ∧ storePStr hexString Generated.LYD_HINT_DATA [1] = .error (.val .BadUtf8) := by
  decide +kernel

end LyModel.Props.C03Hex
