import LyModel.XmlLex.Safety
/-!
# C05 — the XML pull lexer (`lyxml_ctx_next` and its helpers, `xml.c`) reads inside its input

Model: `LyModel/XmlLex/Model.lean` (shared by the YIN schema parser model `LyModel/Yin` and, being the same C functions, the lexer of the
XML data parser), tied to the C code by `harness/wb_yin.c` (`lyxml_ctx_new` + every `lyxml_ctx_next` the YIN parser makes, on printed and
on malformed documents) and through the public API by `tools/checks/c05yin.py`.

The input is a C string; the model holds the bytes before the NUL and the read position is "the remaining input".  Memory safety of
the reads is: what a function leaves as remaining input is a SUFFIX of what it was given — the position never moves back and never
passes the NUL — and every look-ahead is on that remaining input (at most 4 bytes in `ly_getutf8`, each read only after the previous
byte was seen not to be the NUL).
-/
namespace LyModel.Props.C05XmlLex
open LyModel LyModel.XmlLex LyModel.XmlText LyModel.Generated

/-- **`lyxml_parse_value` stops inside its input**, for EVERY input, end character and amount of fuel: entity and character
    references, CDATA sections and multi-byte characters are consumed whole or refused. -/
theorem xml_value_within_input (endc : UInt8) (fuel : Nat) (inp : Bytes) (ws : Bool) (v : Bytes) (w : Bool) (rest : Bytes)
    (h : parseValue endc fuel inp ws = .ok (v, w, rest)) : rest <:+ inp :=
  parseValue_suffix endc fuel inp ws (v, w, rest) h

example : parseValue 60 20 [97, 38, 108, 116, 59, 60, 47] true = .ok ([97, 60], false, [60, 47]) := by rfl

/-- **Names**: `lyxml_parse_qname` (two `lyxml_parse_identifier` runs and the colon) stops inside its input. -/
theorem xml_qname_within_input (inp : Bytes) (p : Option Bytes) (n rest : Bytes) (h : parseQName inp = .ok (p, n, rest)) : rest <:+ inp :=
  parseQName_suffix inp p n rest h

/-- **Attribute values**: `lyxml_next_attr_content` (`=`, either quote, the value, the closing quote) stops inside its input. -/
theorem xml_attr_within_input (inp v : Bytes) (w : Bool) (rest : Bytes) (h : nextAttrContent inp = .ok (v, w, rest)) : rest <:+ inp :=
  nextAttrContent_suffix inp v w rest h

/-- **Between tags**: `lyxml_skip_until_end_or_after_otag` (white space, comments, processing instructions) stops inside its input,
    whatever the fuel. -/
theorem xml_skip_within_input (depth fuel : Nat) (inp rest : Bytes) (h : skipToTag depth fuel inp = .ok rest) : rest <:+ inp :=
  skipToTag_suffix depth fuel inp rest h

/-- **Element stack bounded**: an element is pushed only by `lyxml_open_element`, which refuses to exceed `LY_MAX_BLOCK_DEPTH`;
    `lyxml_close_element` only pops. -/
theorem xml_stack_bounded (cx c' : XCtx) (p : Option Bytes) (n inp : Bytes) (h : openElement cx p n inp = .ok c') :
    c'.elems.length ≤ LY_MAX_BLOCK_DEPTH := openElement_depth cx c' p n inp h

theorem xml_close_pops (cx c' : XCtx) (p : Option Bytes) (n : Bytes) (e : Bool) (inp : Bytes) (h : closeElement cx p n e inp = .ok c') :
    c'.elems.length ≤ cx.elems.length := closeElement_depth cx c' p n e inp h

/-- **`lyxml_ctx_next`, the whole state machine, moves the read position forward inside the input**: in every state (element,
    attribute, attribute content, element content, after an end tag, end), whatever the input, a successful step leaves as remaining
    input a suffix of what it was given — `in->current` never moves back and never passes the terminating NUL. -/
theorem xml_ctx_next_within_input (cx c' : XCtx) (h : ctxNext cx = .ok c') : c'.inp <:+ cx.inp :=
  ctxNext_suffix cx c' h

/-- consequence: the number of unread bytes never grows -/
theorem xml_ctx_next_progress (cx c' : XCtx) (h : ctxNext cx = .ok c') : c'.inp.length ≤ cx.inp.length :=
  (ctxNext_suffix cx c' h).length_le

/-- **`xml_lexer_terminates`: fuel = length + 1 suffices.**  Every loop of the lexer that the model runs on fuel — the identifier
    loop of `lyxml_parse_identifier`, the comment / PI skipping of `lyxml_skip_until_end_or_after_otag`, the attribute pre-scan of
    `lyxml_open_element` and the namespace skipping of `lyxml_next_attribute` — consumes at least one byte per iteration: with ANY two
    amounts of fuel above the length of the input the result is the same, so the `length + 1` the model passes never cuts a run short
    (an "out of fuel" error is unreachable), and the C loops terminate. -/
theorem xml_lexer_terminates (inp : Bytes) (f g : Nat) (hf : inp.length < f) (hg : inp.length < g) :
    identRest f inp = identRest g inp ∧
    (∀ depth, skipToTag depth f inp = skipToTag depth g inp) ∧
    (∀ count isNs prev ns, openAttrs count f isNs prev ns inp = openAttrs count g isNs prev ns inp) ∧
    nextAttribute f inp = nextAttribute g inp :=
  ⟨identRest_fuel f g inp hf hg, fun d => skipToTag_fuel d f g inp hf hg,
   fun c i p n => openAttrs_fuel c f g i p n inp hf hg, nextAttribute_fuel f g inp hf hg⟩

/-- non-vacuity: a step on ` b="1">x</a>` (behind the element name `a`) reads the attribute name -/
def demoCx : XCtx :=
  ⟨[32, 98, 61, 34, 49, 34, 62, 120, 60, 47, 97, 62], .element, [(none, [97])], [], none, [97], [], false⟩
example : (ctxNext demoCx).toOption.map (·.inp) = some [61, 34, 49, 34, 62, 120, 60, 47, 97, 62] := by decide +kernel

end LyModel.Props.C05XmlLex
