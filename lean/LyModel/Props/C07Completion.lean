import LyModel.Props.C07
import LyModel.Valid.LemmasCompletionFresh
import LyModel.Valid.LemmasCompletionObs
import LyModel.Valid.LemmasCompletionTree
/-!
# C07 `implicit_exact_tree` — the validated tree against the RFC completion of the explicit data, whole trees

`rfcComplete : SchemaX → VOpts → Tree → Tree` (LyModel/Valid/SpecDefaults.lean) is the state-free recursive specification written from
RFC 7950 §7.5.1 / §7.6.1 / §7.7.2 / §7.9.3 and RFC 6243: the explicit part of a tree completed, level by level over the SCHEMA, with the
defaults of leaves and leaf-lists whose ancestors exist or are non-presence containers, the content of default cases when no case
of the choice has data, nothing below absent presence containers or list-less positions.  The law `implicit` of tools/checks/c07.py
evaluates `rfcComplete T = T` on every validated tree `T` of every run.

PROVED here, for whole trees of any depth and every schema of the model (choices and cases in any nesting, every variant of the code):
on freshly built / parsed explicit data a validation only ADDS default-flagged nodes — the explicit part of the result, at every
depth, is the explicit part of the input; so the specification side of the law is a function of the INPUT alone:
`rfcComplete (validate t) = rfcComplete t`, and the law reads `validate t = rfcComplete t`; and for schemas WITHOUT `choice` that
equation itself (`implicit_exact_tree_nochoice`).  Together with `validate_normal_form`
(Props/C07.lean: on every level of the result every schema node in use has an instance, no default node is the leftover of a dead
case, nothing is new) this is the tree-level part of `implicit_exact` that does not depend on the ORDER in which one level gains its
defaults; `insertNode_comm` (LyModel/Valid/LemmasValdiffIns.lean: `lyd_insert_node` of different schema nodes commute on arbitrary
sibling lists) is the lemma that makes that order irrelevant.  With `choice` / `case` the equation stays OPEN (see the end).
-/
namespace LyModel.Props.C07
open LyModel LyModel.Tree LyModel.Valid

/-- **`implicit_exact_tree`, explicit half** — every schema, every variant, every option set, every tree `t` of any depth in which
every node carries `LYD_NEW` and none `LYD_DEFAULT` (`freshExplL`) and every non-presence container has explicit content
(`npFullL`: `lyd_new_inner` flags an empty one default): the validated tree keeps exactly the explicit data of `t`, at every
depth — nothing explicit is removed, changed or re-ordered, and everything a validation adds is flagged default.  Consequently
the RFC completion of the result is the RFC completion of the input.  (Hypothesis `OkBelowL`: table rows = statement records,
decidable `okBelowL_of_B`.)  The proof lifts the exactness of the change log of one `lyd_new_implicit` call (`implL_tr`) through
`lyd_validate_subtree` by induction over the depth (`subtreeNode_explicit`), with `lyd_validate_new` deleting nothing on fresh
siblings (`validateNew_freshLevel`) and `lyd_np_cont_dflt_set` never firing on a container with explicit content (`finalKids_explicit`). -/
theorem implicit_exact_tree_explicit (X : SchemaX) (o : VOpts) (t : List DNode) (hok : OkBelowL X.base X.top)
    (hf : freshExplL t = true) (hnp : npFullL X.base t = true) (hpe : (o.present && t.isEmpty) = false) :
    explicitPart (validate X o t).tree = explicitPart t ∧
    rfcComplete X o (validate X o t).tree = rfcComplete X o t := by
  have h := validate_fresh_explicit X o t hok hf hnp hpe
  exact ⟨h, by unfold rfcComplete; rw [h]⟩

/-- non-vacuity (schema `Sc` of Props/C07.lean): the fresh tree `[x, n { t }]`; the validation adds `u`, `da` (defaults of the selected
case `a`) — the result has 4 top-level nodes, its explicit part the 2 of the input; and here the law holds: the validated tree is
the RFC completion of the input (compared without the `LYD_NEW`-free flags: schema ids, default flags, values) -/
example :
    let t : List DNode := freshL Sc [.term 2 {} [] [49], .inner 11 {} [] [.term 16 {} [] [51]]]
    okBelowB Xc = true ∧ freshExplL t = true ∧ npFullL Xc.base t = true ∧
    (validate Xc {} t).tree.map (·.sid) = [2, 5, 8, 11] ∧ (explicitPart (validate Xc {} t).tree).map (·.sid) = [2, 11] ∧
    (rfcComplete Xc {} t).map (fun n => (n.sid, n.flags.dflt, n.val)) = (validate Xc {} t).tree.map (fun n => (n.sid, n.flags.dflt, n.val)) := by
  refine ⟨by decide +kernel, by decide +kernel, by decide +kernel, by decide +kernel, by decide +kernel, by decide +kernel⟩

/-- the hypothesis `npFullL` is needed: an explicit-flagged EMPTY non-presence container (schema `Sx`: `c`) is flagged default by
`lyd_np_cont_dflt_set` once its defaults are in, and drops out of the explicit part -/
example :
    let t : List DNode := [.inner 0 { new := true } [] []]
    freshExplL t = true ∧ npFullL Sx t = false ∧ (explicitPart (validate Xx {} t).tree).length = 0 ∧ (explicitPart t).length = 1 := by
  refine ⟨by decide +kernel, by decide +kernel, by decide +kernel, by decide +kernel⟩

/-- **`implicit_exact_tree` for schemas without `choice`** — containers (presence and non-presence), lists, leaves and leaf-lists
with defaults in any nesting; every variant of the code; options without `LYD_VALIDATE_NO_STATE`; every tree `t` of ANY depth in
which every node carries `LYD_NEW` and none `LYD_DEFAULT` (`freshExplL`), whose nodes sit below their schema parents (`placedL`)
and whose inner nodes are instances of containers / lists (`cShapedL`): **the validated tree IS the RFC completion of the input**,
`validate t = rfcComplete t` up to `obsL` (no `LYD_NEW`, no metadata, no default flag on non-presence containers) — the same
nodes, the same values, the same default flags on terminal nodes, the same sibling order, at every depth; no hypothesis that the
validation succeeds (the model continues after errors).  Schema hypotheses, decidable (`dataSchema_of_B`): every level is a list of data
nodes with different ids whose table rows are their statement records, every node is found under its id (`DataSchema`); the fuel
of the walk covers the schema height.  The proof: `rfcL_eq_level` (the completion of one level = the level of `lyd_new_implicit`, then
every container / list entry completed in place — the level does not look at the children of the siblings and commutes with that
completion, `lvl_map`), `subtreeNode_rfc` (induction over the depth: `lyd_validate_subtree` completes the children of every node the
same way), `rfcL_obs` (the completion respects the observation, all schemas). -/
theorem implicit_exact_tree_nochoice (X : SchemaX) (o : VOpts) (t : List DNode) (hno : o.noState = false) (hD : DataSchema X)
    (hf : freshExplL t = true) (hp : placedL X X.top t = true) (hs : cShapedL X.base t = true)
    (hh : sheightL X.top ≤ walkFuel X t) (hpe : (o.present && t.isEmpty) = false) :
    obsL X.base (validate X o t).tree = obsL X.base (rfcComplete X o t) :=
  validate_rfcComplete_nochoice X o t hno hD hf hp hs hh hpe

/-- non-vacuity (schema `Sx` of Props/C07.lean: `container c { leaf d {default}; leaf-list ll {2 defaults}; container n { leaf e {default} };
list l { key k; leaf v {default} } }`): the fresh tree `c { l[k=1] }` — the hypotheses hold; the validation adds `d`, `ll` twice, `n { e }` and
`l/v`: 5 nodes below `c`, the list entry has 2 -/
example :
    let t : List DNode := freshL Sx [.inner 0 {} [] [.inner 5 {} [] [.term 6 {} [] [49]]]]
    dataSchemaB Xx = true ∧ freshExplL t = true ∧ placedL Xx Xx.top t = true ∧ cShapedL Sx t = true ∧ sheightL Xx.top ≤ walkFuel Xx t ∧
    (validate Xx {} t).tree.map (fun n => n.kids.map fun k => (k.sid, k.kids.length)) = [[(1, 0), (2, 0), (2, 0), (3, 1), (5, 2)]] := by
  refine ⟨by decide +kernel, by decide +kernel, by decide +kernel, by decide +kernel, by decide +kernel, by decide +kernel⟩

/-- **`implicit_exact_tree`** — the validated tree is the RFC completion of the explicit data, for EVERY schema of the model: `choice` /
`case` in any nesting (default cases, choices inside cases, cases holding containers and lists), containers, lists, leaves and
leaf-lists with defaults; the repaired variant of F180 (`lyd_new_implicit` completes the case of THIS choice); options without
`LYD_VALIDATE_NO_STATE`; every tree `t` of ANY depth in which every node carries `LYD_NEW` and none `LYD_DEFAULT` (`freshExplL`),
whose nodes sit below their schema parents (`placedCL`), whose inner nodes are instances of containers / lists (`cShapedL`), and in
which, on every sibling level, the data of a choice sit in ONE case (`SelOk (hasInst level) schema-children`: true of every instance the
validation accepts; with data in two cases the validation reports DUPCASE and `rfcL` completes only the first):
`validate t = rfcComplete t` up to `obsL` — the same nodes, values, default flags of terminal nodes and SIBLING ORDER at every depth —
although `lyd_new_implicit` does the choices of a level first and the RFC specification `rfcL` goes through the schema in order.
Schema hypotheses, decidable (`choiceSchema_of_B`): on every data level the children of choices are cases, the data ids differ, table
rows are statement records, no leaf-list has two equal defaults (`LvlWf`); every node is found under its id; an empty container reads
well.  The proof: `rfcL_eq_implL` — the completion of one level = the level `lyd_new_implicit` builds, with every container / list
entry completed in place (induction over the selection derivation `SelOk`; the choices of the rest of a level do not see the default
nodes of another schema node: `implL_commT`, `implChoices_fold_insert`, on `insertNode_comm`; `rfcNode` on a choice works on `selCase`:
`rfcNode_choice`) — lifted over the depth by `subtreeNode_rfcC`. -/
theorem implicit_exact_tree (X : SchemaX) (o : VOpts) (t : List DNode) (hno : o.noState = false)
    (hq : X.q.implicitInnerCase = false) (hD : ChoiceSchema X)
    (hf : freshExplL t = true) (hp : placedCL X X.top t = true) (hs : cShapedL X.base t = true)
    (hsel : SelOk (hasInst t) X.top ∧ selOkL X t)
    (hh : sheightL X.top ≤ walkFuel X t) (hpe : (o.present && t.isEmpty) = false) :
    obsL X.base (validate X o t).tree = obsL X.base (rfcComplete X o t) :=
  validate_rfcComplete_choice X o t hno hq hD hf hp hs hsel hh hpe

/-- non-vacuity (schema `Sc` of Props/C07.lean: `choice o { case a { leaf x; choice i { default d; case d { leaf u {default} } case e { leaf v } }
leaf da {default} } case b { leaf w } } container n { choice p { default q; case q { leaf r {default} } case s { leaf t } } }`): the fresh
tree `[x, n { }]`… `n` given with `t` — hypotheses hold; the validation adds `u` (nested default case), `da`; below `n` nothing (case `s`) -/
example :
    let t : List DNode := freshL Sc [.term 2 {} [] [49], .inner 11 {} [] [.term 16 {} [] [51]]]
    choiceSchemaB Xc = true ∧ choiceDataB Xc t = true ∧ (validate Xc {} t).tree.map (·.sid) = [2, 5, 8, 11] := by
  refine ⟨by decide +kernel, by decide +kernel, by decide +kernel⟩

/-- the Boolean hypotheses give the ones of the theorem -/
theorem implicit_exact_tree_of_B (X : SchemaX) (o : VOpts) (t : List DNode) (hno : o.noState = false)
    (hq : X.q.implicitInnerCase = false) (hS : choiceSchemaB X = true) (hT : choiceDataB X t = true)
    (hpe : (o.present && t.isEmpty) = false) :
    obsL X.base (validate X o t).tree = obsL X.base (rfcComplete X o t) := by
  unfold choiceDataB at hT
  simp only [Bool.and_eq_true, decide_eq_true_eq] at hT
  exact implicit_exact_tree X o t hno hq (choiceSchema_of_B X hS) hT.1.1.1.1.1 hT.1.1.1.1.2 hT.1.1.1.2
    ⟨selOk_of_B _ _ _ hT.1.1.2, selOkL_of_B X _ t hT.1.2⟩ hT.2 hpe

/-! ## trees that are not fresh -/

/-- schema of the witness: `leaf-list ll { default "a"; default "b"; }` -/
def Sll : Schema := { modName := "m", nodes := [{ depth := 0, kind := .leaflist, name := "ll", dflts := [[97], [98]] }] }
def Xll : SchemaX := { SchemaX.ofSchema Sll with q := Quirks.fixed }
/-- the default instance `b` alone: what is left when the client removes the default instance `a` with `lyd_free_tree` -/
def tll : List DNode := [.term 0 { dflt := true } [] [98]]

/-- **full strength for NON-fresh trees, false**: "every validated tree is the RFC completion of its own explicit part"
(`rfcComplete T = T` for `T = validate t`, every REACHABLE `t`) does not hold — a history may remove a default-flagged node: build nothing,
validate (`ll` = a, b, both default), free the instance `a`, validate: the tree `[b (default)]` is a fixpoint (the leaf-list has an instance,
nothing is created), but its explicit part is empty and the RFC puts BOTH defaults in use.  (Not a defect of the validation: the client
deleted implicit data.)  So the statement for non-fresh trees needs a hypothesis on the history — the edits touch explicit nodes only — and the
invariant that default-flagged nodes are exactly the completion of the explicit part; the law `implicit` of tools/checks/c07.py evaluates it
on histories whose edits are of that kind. -/
theorem implicit_exact_tree_nonfresh_fails :
    ¬ ∀ (X : SchemaX) (o : VOpts) (t : List DNode), X.q = Quirks.fixed → Reachable X o t →
      obsL X.base (validate X o t).tree = obsL X.base (rfcComplete X o (validate X o t).tree) := by
  intro h
  have hd : (applyDelete Sll [.value 0 [97]] (validate Xll {} (freshL Sll [])).tree).map (beqL tll) = some true := by decide +kernel
  cases ha : applyDelete Sll [.value 0 [97]] (validate Xll {} (freshL Sll [])).tree with
  | none => rw [ha] at hd; cases hd
  | some t2 =>
    rw [ha] at hd
    simp only [Option.map_some, Option.some.injEq] at hd
    have ht : tll = t2 := beqL_eq _ _ hd
    subst ht
    have hr : Reachable Xll {} tll := Reachable.delete (t := (validate Xll {} (freshL Sll [])).tree) [.value 0 [97]]
      (Reachable.validate (Reachable.fresh [])) ha
    have := congrArg List.length (h Xll {} tll rfl hr)
    revert this
    decide +kernel

/-! ## not proved

-- (`implicit_exact_tree` WITH `choice` / `case` on fresh data: proved above.)
-- OPEN: trees that are not fresh (`rfcComplete T = T` on every validated `T`); `LYD_VALIDATE_NO_STATE`; the defective variant F180 (false there:
-- `implicit_exact_choice_F180_fails`).  Older notes on the level lemma:  What is there: the equation without choices, the explicit half for
-- all schemas; per level `implicit_exact_choice` (which schema
-- nodes gain an instance) and `dflt_flag_sound` (what an added node looks like); `implL_tr` (the level is the input with the created
-- nodes linked in event order) and `insertNode_comm` / `foldl_insertNode_sortIns` (any order of linking nodes of different schema nodes
-- gives the same siblings).  Missing: that the created nodes of a level, as a list, are a permutation (same per-schema-node
-- subsequences) of the nodes `rfcL` links in schema order — `implL` does the choices first and threads the siblings, `rfcL` interleaves
-- choices and nodes and recurses into containers on the way — and the commutation of that recursion with the level completion.
-/

end LyModel.Props.C07
