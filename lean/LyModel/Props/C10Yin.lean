import LyModel.Yin.LemmasExt
import LyModel.Yin.Card
/-!
# C10 — printed schemas re-parse to the same module: the YIN route, generic statement layer

Model: `LyModel/Yin/Print.lean` (`ypr_open`, `ypr_close`, `ypr_close_parent`, `ypr_yin_arg`, `yprp_stmt`, `yprp_extension_instance(s)`,
`ypr_substmt` of `printer_yin.c`), `LyModel/Yin/Xml.lean` (`lyxml_ctx_new` / `lyxml_ctx_next` of `xml.c`: start tags, attributes,
`xmlns` declarations with element scope, end tags, empty elements, content, comments / PIs) and `LyModel/Yin/Parse.lean`
(`yin_match_keyword`, `yin_parse_attribute`, `yin_parse_extension_instance_arg`, `yin_parse_element_generic`,
`yin_parse_extension_instance`, `lysp_ext_instance_resolve_argument`).  Tied to the C code by `harness/wb_yin.c` (byte-exact printer
correspondence and tree-exact parser correspondence on every run, malformed documents included) and by `Generated/YinArgs.lean`
(`lys_stmt_str/arg/flags`, the switch of `yin_parse_extension_instance_arg`, `yin_match_argument_name`, the `xml.h` character classes
and `YIN_NS_URI` are regenerated from the source; `XmlEsc`, `YangStr` as before).

`YangText s`: what the XML lexer lets through (any string a parsed module can hold).  `isYangText s`: additionally every character
passes `is_yangutf8char` — what `yin_validate_value` demands of an attribute argument.
-/
namespace LyModel.Props.C10Yin
open LyModel LyModel.Yin LyModel.Utf8 LyModel.Generated LyModel.XmlText LyModel.XmlLex

/-! ## the two per-keyword tables of the C source agree -/

/-- **For every keyword of `lys_stmt_str`/`lysp_match_kw` the YIN parser expects what the YIN printer writes**: the keyword text is
    recognised by `yin_match_keyword` as itself; if the printer writes the argument as attribute `an` (`lys_stmt_arg`), `an` is the one
    attribute name `yin_parse_extension_instance_arg` accepts for that keyword (and it is an identifier other than `xmlns`); if the
    printer nests the argument (`LY_STMT_FLAG_YIN`), the parser reads it from the first child element, whose name — `value` under
    `error-message`, `text` otherwise — is the name the printer uses; `input`/`output` have no argument on either side.
    (An evaluation over the generated tables: it is re-checked whenever either C table changes.) -/
theorem yin_tables_agree : ∀ e ∈ yinStmtTable, entryOk e = true :=
  fun e he => List.all_eq_true.mp tables_ok e he

example : (([117, 110, 105, 116, 115] : Bytes), some ([110, 97, 109, 101] : Bytes), false) ∈ yinStmtTable := by decide   -- units / name

/-! ## the lexer on what `ypr_open` / `ypr_yin_arg` / `ypr_close` write -/

/-- **Attribute argument, any text.**  In a start tag, in front of ` an="…"` as `ypr_open` writes it (`lyxml_dump_text` in attribute
    mode), two calls of `lyxml_ctx_next` return the attribute name `an` and then exactly the string `s` — markup, quotes, line breaks,
    tabs, CR, leading and trailing white space, multi-byte characters included — and stop right behind the closing quote. -/
theorem yin_attr_roundtrip (cx : XCtx) (an s r : Bytes) (ht : InTag cx) (han : isIdent an = true) (hx : an ≠ sXmlns)
    (hs : YangText s) (h : cx.inp = 32 :: (an ++ 61 :: 34 :: (dumpText true s ++ 34 :: r))) :
    ∃ c1 c2, ctxNext cx = .ok c1 ∧ c1.status = .attribute ∧ c1.pfx = none ∧ c1.name = an ∧
      ctxNext c1 = .ok c2 ∧ c2.status = .attrContent ∧ c2.value = s ∧ c2.inp = r ∧ c2.elems = cx.elems ∧ c2.ns = cx.ns := by
  obtain ⟨a, t, rfl, ha⟩ := isIdent_ne_nil han
  have hwa : isWs a = false := (identB_facts a (identStartB_facts a ha).1).2.2.1
  have e1 := next_attrName cx (a :: t) (34 :: (dumpText true s ++ 34 :: r)) ht han hx (by rw [h, ignWs_sp]; simp [ignWs_of_not a _ hwa])
  refine ⟨_, _, e1, rfl, rfl, rfl, next_attrValue _ s r rfl hs rfl, rfl, rfl, rfl, rfl, rfl⟩

/-- non-vacuity: a text with markup, both quotes, a line break, a tab, CR and blanks at both ends is `YangText` -/
example : YangText [32, 60, 38, 62, 34, 39, 10, 9, 13, 0xC3, 0xA9, 32] := isYangText_sound _ (by decide)

/-- **yin-element argument, any text.**  Behind the `>` of `<text>` / `<value>` / `<prefix:argname>`, on what `ypr_yin_arg` writes
    (`lyxml_dump_text` in content mode, then the end tag), one call of `lyxml_ctx_next` returns exactly `s`, `ws_only` exactly when
    `s` consists of literal blanks / tabs / line feeds, and stops in front of the end tag. -/
theorem yin_text_roundtrip (cx : XCtx) (s name r : Bytes) (ht : InTag cx) (hs : YangText s)
    (h : cx.inp = 62 :: (dumpText false s ++ [60, 47] ++ name ++ 62 :: r)) :
    ∃ c, ctxNext cx = .ok c ∧ c.status = .elemContent ∧ c.value = s ∧ c.wsOnly = s.all (wsLit false) ∧
      c.inp = [60, 47] ++ name ++ 62 :: r ∧ c.elems = cx.elems ∧ c.ns = cx.ns := by
  have e := next_content cx s (47 :: (name ++ 62 :: r)) ht hs (by simp [sCdata, stripPrefix])
    (by rw [h]; simp [ignWs_of_not 62 _ (by decide)])
  exact ⟨_, e, rfl, rfl, rfl, by simp, rfl, rfl⟩

/-- **Start tag of a substatement.**  Between two tags, white space and then `<name` (a keyword, or `prefix:name` of an extension)
    followed by `/`, `>` (no attribute) opens the element: it is pushed on the element stack, the namespaces are untouched. -/
theorem yin_open_roundtrip (cx : XCtx) (pfx : Option Bytes) (n : Bytes) (c : UInt8) (r : Bytes) (fmt : Bool) (level : Nat)
    (hb : Between cx) (hq : QualOk pfx n) (hc : c = 62 ∨ c = 47) (hdepth : cx.elems.length + 1 ≤ LY_MAX_BLOCK_DEPTH)
    (h : cx.inp = 10 :: (indentOf fmt level ++ 60 :: (qualName pfx n ++ c :: r))) :
    ∃ c1, ctxNext cx = .ok c1 ∧ c1.status = .element ∧ c1.pfx = pfx ∧ c1.name = n ∧ c1.inp = c :: r ∧
      c1.elems = (pfx, n) :: cx.elems ∧ c1.ns = cx.ns := by
  have hw : isWs c = false := by rcases hc with rfl | rfl <;> decide
  have e := next_open cx pfx n c r hb hq (by rcases hc with rfl | rfl <;> decide) (by rcases hc with rfl | rfl <;> decide) hdepth
    (scanOk_end _ _ c r hc) (by rw [h, ignWs_nl, ignWs_indent]; simp [ignWs_of_not 60 _ (by decide)])
  rw [ignWs_of_not c r hw] at e
  exact ⟨_, e, rfl, rfl, rfl, rfl, rfl, rfl⟩

/-- **End tag.**  `ypr_close` writes `</name>`: it closes the innermost open element (names must match), which leaves the stack. -/
theorem yin_close_roundtrip (cx : XCtx) (pfx : Option Bytes) (n r : Bytes) (E : List (Option Bytes × Bytes)) (fmt : Bool) (level : Nat)
    (hb : Between cx) (hq : QualOk pfx n) (he : cx.elems = (pfx, n) :: E)
    (h : cx.inp = 10 :: (indentOf fmt level ++ 60 :: 47 :: (qualName pfx n ++ 62 :: r))) :
    ∃ c1, ctxNext cx = .ok c1 ∧ c1.status = .elemClose ∧ c1.inp = r ∧ c1.elems = E := by
  have e := next_close cx pfx n r E hb hq he (by rw [h, ignWs_nl, ignWs_indent]; simp [ignWs_of_not 60 _ (by decide)])
  exact ⟨_, e, rfl, rfl, rfl⟩

/-! ## a whole statement through `yprp_stmt` and `yin_parse_element_generic` -/

/-- **`yin_leaf_stmt_roundtrip`.**  For EVERY keyword `k` of the generated table whose argument is an attribute (`an`), every argument
    `s` a parsed module can hold, every indentation level and format: `yprp_stmt` prints the substatement `k s;` of an extension
    instance as `<indent><k ` followed by `body`, and `yin_parse_element_generic`, entered after the start tag `<k` (default namespace
    = YIN namespace), returns on `body ++ rest` the statement `k` with keyword `k`, argument `s` byte for byte, flag
    `LYS_DOUBLEQUOTED`, no children — with the element closed, the namespaces unchanged and `rest` untouched.  Fuel 2 suffices.
    (`value` directly under `error-message` is excluded: see `yin_stmt_roundtrip_fails_errmsg_value`.) -/
theorem yin_leaf_stmt_roundtrip (fmt : Bool) (level flags : Nat) (k an s : Bytes) (hinfo : stmtInfo k = some (some an, false))
    (hs : YangStr.isYangText s = true) :
    ∃ body, printStmt fmt level (.mk k (.kw k) (some s) flags []) = indentOf fmt level ++ 60 :: (k ++ 32 :: body) ∧
      ∀ (cx : XCtx) (E : List (Option Bytes × Bytes)) (parent : YKw) (rest : Bytes) (f : Nat),
        cx.status = .element → cx.pfx = none → cx.name = k → cx.elems = (none, k) :: E →
        nsGet cx.ns none = some yinNsUri → nsRm E.length cx.ns = cx.ns → ¬ (k = sValue ∧ parent = .kw sErrMsg) →
        cx.inp = body ++ rest →
        ∃ c', parseGeneric (f + 2) parent cx = .ok (c', .mk k (.kw k) (some s) LYS_DOUBLEQUOTED []) ∧
          c'.inp = 10 :: rest ∧ c'.status = .elemClose ∧ c'.elems = E ∧ c'.ns = cx.ns := by
  refine ⟨an ++ 61 :: 34 :: (dumpText true s ++ [34, 47, 62, 10]), ?_, ?_⟩
  · simp [printStmt, hinfo, yprOpen, openTail, sEmptyEnd, printStmts]
  · intro cx E parent rest f hst hpfx hname he hns hrm hval hinp
    exact parseGeneric_leaf_attr cx k an s (10 :: rest) E parent f hinfo hst hpfx hname he hns hrm hval hs (by rw [hinp]; simp)

/-- non-vacuity: `units` has the attribute argument `name`, and `a<b & "c"` with a line break is an argument -/
example : stmtInfo [117, 110, 105, 116, 115] = some (some [110, 97, 109, 101], false) := by decide
example : YangStr.isYangText [97, 60, 98, 32, 38, 10, 34, 99, 34] = true := by decide

/-! ## statement trees of any depth

`yinOk ns parent t` (`Yin/Ok.lean`, ONE decidable predicate, evaluated by the check on every generated tree) — for every statement of
the tree: (1) a keyword statement is named by its keyword; (2) it has an argument iff the keyword takes one; (3) it is not a `value`
directly under `error-message`; (4) an extension-keyword statement `prefix:name` carries no argument; (5) there is no YIN-attribute
child; arguments are YANG text and extension prefixes are bound in `ns` to a namespace other than YIN's.  Each conjunct is needed:
(1) `yin_stmt_roundtrip_fails_prefixed_kw`, (2) `yin_stmt_roundtrip_fails_noarg`, (3) `yin_stmt_roundtrip_fails_errmsg_value` (F340),
(4) `yin_stmt_roundtrip_fails_F86`, (5) `yprp_stmt` prints nothing for a `LY_STMT_NONE` statement (`printStmt_attr_child`), and only
the YIN parser creates them.  `norm t` is `t` with the quoting flag the YIN parser sets. -/

def sDescription : Bytes := [100, 101, 115, 99, 114, 105, 112, 116, 105, 111, 110]   -- description
def sUnits : Bytes := [117, 110, 105, 116, 115]   -- units

/-- **`yin_stmt_roundtrip`.**  For EVERY statement tree `t` with `yinOk` — keywords of the generated table with attribute argument,
    argument element (`text` / `value`) or no argument, prefixed extension keywords, children to any depth — at every level and
    format: `yprp_stmt` prints `<indent><name` followed by `body`, and `yin_parse_element_generic`, entered behind the start-tag name
    with the namespaces `ns` in scope (default namespace = YIN, all declared outside: `NsStable`), returns on `body ++ rest` the
    tree `norm t` — names, keywords, arguments byte for byte, order — with the element closed, the element stack and the namespaces
    as before and `rest` untouched.  Fuel: the length of the printed statement suffices; element depth within `LY_MAX_BLOCK_DEPTH`. -/
theorem yin_stmt_roundtrip (ns : List XNs) (hnsY : nsGet ns none = some yinNsUri) (base : Nat) (hstab : NsStable base ns)
    (t : YStmt) (parent : YKw) (fmt : Bool) (level : Nat) (hok : yinOk ns parent t = true) :
    ∃ pfx n body, printStmt fmt level t = indentOf fmt level ++ 60 :: (qualName pfx n ++ body) ∧
      ∀ (cx : XCtx) (E : List (Option Bytes × Bytes)) (rest : Bytes) (f : Nat),
        cx.status = .element → cx.pfx = pfx → cx.name = n → cx.elems = (pfx, n) :: E → cx.ns = ns → base ≤ E.length →
        cx.elems.length + heightG t ≤ LY_MAX_BLOCK_DEPTH → cx.inp = ignWs (body ++ rest) → (printStmt fmt level t).length ≤ f →
        ∃ c', parseGeneric f parent cx = .ok (c', norm t) ∧ c'.inp = 10 :: rest ∧ c'.status = .elemClose ∧ c'.elems = E ∧ c'.ns = ns := by
  obtain ⟨pfx, n, hn, hq, hmk⟩ := yinOk_match ns hnsY parent t hok
  refine ⟨pfx, n, afterName fmt level t, by rw [printStmt_shape ns parent fmt level t hok, hn], ?_⟩
  intro cx E rest f hst hpfx hname he hns hb hh hinp hf
  have hc := costG_le ns fmt t parent level hok
  exact genericOk ns hnsY base hstab t f parent cx pfx n E rest fmt level hst hpfx hname hn hq hmk he hns hinp hok (by omega) hh hb

/-- non-vacuity: `container "c" { description "a<b"; input { g:x; } must "x > 1" { error-message "m"; } }` is `yinOk` under the
    namespaces of a module element (default = YIN, `g` = `urn:ga`) -/
example : yinOk [⟨some [103], [117, 114, 110, 58, 103, 97], 1⟩, ⟨none, yinNsUri, 1⟩] .ext
    (.mk "container".toUTF8.toList (.kw "container".toUTF8.toList) (some [99]) 0
      [.mk sDescription (.kw sDescription) (some [97, 60, 98]) 0 [],
       .mk "input".toUTF8.toList (.kw "input".toUTF8.toList) none 0 [.mk [103, 58, 120] .ext none 0 []],
       .mk "must".toUTF8.toList (.kw "must".toUTF8.toList) (some [120, 32, 62, 32, 49]) 0
         [.mk sErrMsg (.kw sErrMsg) (some [109]) 0 []]]) = true := by decide +kernel

/-- the namespaces of the module element are stable below it -/
example : NsStable 1 [⟨some [103], [117, 114, 110, 58, 103, 97], 1⟩, ⟨none, yinNsUri, 1⟩] := by
  intro m hm; simp [nsRm]; omega

/-- **Corollary: text arguments with markup, quotes, line breaks, leading and trailing white space.**  `description` (argument
    element) and `units` (attribute) with the argument ` <a & "b">\n\t'c' ` come back byte for byte. -/
theorem yin_stmt_roundtrip_text (ns : List XNs) (hnsY : nsGet ns none = some yinNsUri) (base : Nat) (hstab : NsStable base ns)
    (k : Bytes) (hk : k = sDescription ∨ k = sUnits) (parent : YKw) (fmt : Bool) (level : Nat) :
    let s : Bytes := [32, 60, 97, 32, 38, 32, 34, 98, 34, 62, 10, 9, 39, 99, 39, 32]
    ∃ pfx n body, printStmt fmt level (.mk k (.kw k) (some s) 0 []) = indentOf fmt level ++ 60 :: (qualName pfx n ++ body) ∧
      ∀ (cx : XCtx) (E : List (Option Bytes × Bytes)) (rest : Bytes) (f : Nat),
        cx.status = .element → cx.pfx = pfx → cx.name = n → cx.elems = (pfx, n) :: E → cx.ns = ns → base ≤ E.length →
        cx.elems.length + 1 ≤ LY_MAX_BLOCK_DEPTH → cx.inp = ignWs (body ++ rest) → (printStmt fmt level (.mk k (.kw k) (some s) 0 [])).length ≤ f →
        ∃ c', parseGeneric f parent cx = .ok (c', .mk k (.kw k) (some s) LYS_DOUBLEQUOTED []) ∧ c'.inp = 10 :: rest := by
  intro s
  have hok : yinOk ns parent (.mk k (.kw k) (some s) 0 []) = true := by
    rcases hk with rfl | rfl
    · have h1 : stmtInfo sDescription = some (some sText, true) := by decide +kernel
      have h2 : YangStr.isYangText s = true := by decide +kernel
      have h3 : (sDescription == sValue) = false := by decide +kernel
      simp only [yinOk, h1, argTextOk, h2, yinOkList, h3]; simp
    · have h1 : stmtInfo sUnits = some (some [110, 97, 109, 101], false) := by decide +kernel
      have h2 : YangStr.isYangText s = true := by decide +kernel
      have h3 : (sUnits == sValue) = false := by decide +kernel
      simp only [yinOk, h1, argTextOk, h2, yinOkList, h3]; simp
  obtain ⟨pfx, n, body, hp, hall⟩ := yin_stmt_roundtrip ns hnsY base hstab _ parent fmt level hok
  refine ⟨pfx, n, body, hp, ?_⟩
  intro cx E rest f a1 a2 a3 a4 a5 a6 a7 a8 a9
  obtain ⟨c', r1, r2, _⟩ := hall cx E rest f a1 a2 a3 a4 a5 a6 (by simpa [heightG, heightK] using a7) a8 a9
  exact ⟨c', by simpa [norm, normList] using r1, r2⟩

/-- **`yin_ext_roundtrip`.**  For EVERY extension instance with `extOk` (`Yin/Ok.lean`: no nested instance in `ext->exts` — F86;
    an argument iff the definition has one; a yin-element argument not white space only — F36; argument name an identifier other
    than `xmlns`; no child flagged as YIN attribute / argument; every child `yinOk`) — without argument, with attribute argument,
    or with the argument as child element `prefix:argname`; children to any depth — `yprp_extension_instance` prints
    `<indent><prefix:name` followed by `body`, and `yin_parse_extension_instance`, entered behind the start-tag name, followed by
    `lysp_ext_instance_resolve_argument` with the instance's definition, gives back the name, the argument byte for byte and — as
    the substatements that are not YIN attribute / argument — exactly `normList kids`; the element is closed and `rest` untouched.
    The fuel of `parseExtInst` (input length + 2) is shown sufficient inside.  `sameNs`: the verdict of the two `ly_resolve_prefix`
    calls (the same prefix resolves to the same module). -/
theorem yin_ext_roundtrip (ns : List XNs) (hnsY : nsGet ns none = some yinNsUri) (base : Nat) (hstab : NsStable base ns)
    (sameNs : Bytes → Bytes → Bool) (hsame : ∀ p, sameNs p p = true) (fmt : Bool) (level : Nat)
    (name : Bytes) (argname : Option Bytes) (ye : Bool) (argument : Option Bytes) (kids : List YStmt)
    (hok : extOk ns (.mk name argname ye argument [] kids) = true) :
    ∃ p n body, printExt fmt level false (.mk name argname ye argument [] kids) = indentOf fmt level ++ 60 :: (qualName (some p) n ++ body) ∧
      ∀ (cx : XCtx) (E : List (Option Bytes × Bytes)) (rest : Bytes),
        cx.status = .element → cx.pfx = some p → cx.name = n → cx.elems = (some p, n) :: E → cx.ns = ns → base ≤ E.length →
        cx.elems.length + 1 + heightK kids ≤ LY_MAX_BLOCK_DEPTH → cx.inp = ignWs (body ++ rest) →
        ∃ c' kids', parseExtInst cx = .ok (c', name, kids') ∧ c'.inp = 10 :: rest ∧ c'.status = .elemClose ∧ c'.elems = E ∧
          ∃ kids'', resolveArgument sameNs name argname ye kids' = .ok (argument, kids'') ∧
            kids''.filter (fun s => !isYinHidden s.flags) = normList kids := by
  have hok' := hok
  simp only [extOk, Bool.and_eq_true, List.isEmpty_nil, true_and] at hok'
  obtain ⟨⟨⟨⟨⟨⟨hnameOk, _⟩, _⟩, han⟩, _⟩, hvis⟩, _⟩ := hok'
  obtain ⟨p, n, hnm, hq, hbd⟩ := extName_parts ns name hnameOk
  have hye : argname = none → ye = false := by intro h; subst h; simpa using han
  refine ⟨p, n, extAfterName fmt level name argname ye argument kids, by rw [printExt_shape fmt level name argname ye argument kids hvis hye, hnm], ?_⟩
  intro cx E rest hst hpfx hname he hns hb hh hinp
  exact extInstOk ns hnsY base hstab sameNs hsame fmt level name argname ye argument kids hok cx p n E rest hnm hq hbd hst hpfx hname he hns
    hb hh hinp

/-- non-vacuity: `g:e2 "a <" { units "x"; }` with the argument as child element `g:t` is `extOk` -/
example : extOk [⟨some [103], [117, 114, 110, 58, 103, 97], 1⟩, ⟨none, yinNsUri, 1⟩]
    (.mk [103, 58, 101, 50] (some [116]) true (some [97, 32, 60]) [] [.mk sUnits (.kw sUnits) (some [120]) 0 []]) = true := by decide +kernel

/-- conjunct (5): `yprp_stmt` prints nothing for a YIN-attribute child (`LY_STMT_NONE`), so it cannot come back -/
theorem printStmt_attr_child (fmt : Bool) (level : Nat) (name : Bytes) (arg : Option Bytes) (fl : Nat) :
    printStmt fmt level (.mk name .none arg fl []) = [] := by
  simp [printStmt, printStmts]

/-! ## where the round trip is false: the defects that are still in the code (replayed on libyang by the check) -/

/-- the namespace declarations a module element carries, put on the start tag of a printed extension instance -/
def sDecls : Bytes :=
  -- ` xmlns="urn:ietf:params:xml:ns:yang:yin:1" xmlns:g="urn:ga"`
  [32, 120, 109, 108, 110, 115, 61, 34, 117, 114, 110, 58, 105, 101, 116, 102, 58, 112, 97, 114, 97, 109, 115, 58, 120, 109, 108, 58, 110, 115, 58, 121, 97, 110, 103, 58, 121, 105, 110, 58, 49, 34, 32, 120, 109, 108, 110, 115, 58, 103, 61, 34, 117, 114, 110, 58, 103, 97, 34]

/-- print an extension instance, add the declarations to its start tag, parse it as a document and resolve the argument:
    name, argument and the substatements that are not YIN attributes / the argument -/
def roundtripExt (e : ExtInst) : Except YErr (Bytes × Option Bytes × List YStmt) :=
  match e with
  | .mk name an ye _ _ _ =>
    let xml := printExt false 0 false e
    let doc := 60 :: name ++ sDecls ++ xml.drop (1 + name.length)
    match parseExtDoc doc with
    | .error err => .error err
    | .ok (n, kids) =>
      match resolveArgument (fun p q => p == q) n an ye kids with
      | .error err => .error err
      | .ok (a, kids') => .ok (n, a, kids'.filter fun s => !isYinHidden s.flags)

def sE1 : Bytes := [103, 58, 101, 49]   -- g:e1
def sE2 : Bytes := [103, 58, 101, 50]   -- g:e2

/-- observations of a round-trip result that the kernel can evaluate -/
def isErr {α : Type} (r : Except YErr α) (e : YErr) : Bool :=
  match r with
  | .error x => decide (x = e)
  | .ok _ => false
def argOf (r : Except YErr (Bytes × Option Bytes × List YStmt)) : Option (Option Bytes) :=
  match r with
  | .ok (_, a, _) => some a
  | .error _ => none
def firstKidArg (r : Except YErr (Bytes × Option Bytes × List YStmt)) : Option (Option Bytes) :=
  match r with
  | .ok (_, _, s :: _) => some s.arg
  | _ => none

/-- **F36 (still in the code).**  "Every extension instance whose argument is a yin-element comes back with its argument" is false:
    for the empty argument (`g:e2 "";`) the printed `<g:e2><g:t></g:t></g:e2>` is parsed, the content of `<g:t>` is white space only,
    no argument is stored, and the argument resolution reports it missing. -/
theorem yin_ext_roundtrip_fails_F36 :
    ¬ ∀ (a : Bytes), YangText a → roundtripExt (.mk sE2 (some [116]) true (some a) [] []) = .ok (sE2, some a, []) := by
  intro h
  have e := h [] .nil
  have : isErr (roundtripExt (.mk sE2 (some [116]) true (some []) [] [])) .invalid = true := by decide +kernel
  rw [e] at this
  simp [isErr] at this

/-- the same instance with a non-blank argument does come back (the hypothesis that is missing in F36 is "not white space only") -/
example : argOf (roundtripExt (.mk sE2 (some [116]) true (some [97, 32, 60]) [] [])) = some (some [97, 32, 60]) := by decide +kernel

/-- **F86, YIN part (still in the code).**  "Every substatement comes back" is false for an extension instance nested in an
    extension instance (`g:e1 "x" { g:e1 "y"; }`): `yprp_stmt` writes its argument as attribute `value`, the parser keeps the attribute
    as a child statement and returns no argument. -/
theorem yin_stmt_roundtrip_fails_F86 :
    ¬ ∀ (a : Bytes), YangText a →
      roundtripExt (.mk sE1 (some [97]) false (some [120]) [] [.mk sE1 .ext (some a) 0 []]) =
        .ok (sE1, some [120], [.mk sE1 .ext (some a) 0 []]) := by
  intro h
  have e := h [121] (isYangText_sound _ (by decide))
  have : firstKidArg (roundtripExt (.mk sE1 (some [97]) false (some [120]) [] [.mk sE1 .ext (some [121]) 0 []])) = some none := by
    decide +kernel
  rw [e] at this
  simp [firstKidArg, YStmt.arg] at this

/-- **F340.**  A `value` statement directly under `error-message` (`g:e1 "x" { error-message "m" { value "1"; } }` — extension
    substatements are free-form) is printed as `<value value="1"/>` behind the argument element `<value>m</value>`;
    `yin_match_keyword` turns every `value` under `error-message` into the argument element (`LY_STMT_ARG_VALUE`), for which
    `yin_parse_extension_instance_arg` has no case: `LOGINT`, the parse fails with `LY_EINT`.  Stated for the source as it is without
    the repair `fixes/F340.diff` (`Generated.yinArgRemap`, read off `yin_parse_element_generic`, is `false`). -/
theorem yin_stmt_roundtrip_fails_errmsg_value (hsrc : yinArgRemap = false) :
    ¬ ∀ (k : Bytes), stmtInfo k = some (some sValue, false) →
      ∃ r, roundtripExt (.mk sE1 (some [97]) false (some [120]) [] [.mk sErrMsg (.kw sErrMsg) (some [109]) 0 [.mk k (.kw k) (some [49]) 0 []]]) = .ok r := by
  intro h
  obtain ⟨r, e⟩ := h sValue (by decide)
  have : yinArgRemap = false → isErr (roundtripExt (.mk sE1 (some [97]) false (some [120]) [] [.mk sErrMsg (.kw sErrMsg) (some [109]) 0 [.mk sValue (.kw sValue) (some [49]) 0 []]])) .eint = true := by
    decide +kernel
  have := this hsrc
  rw [e] at this
  simp [isErr] at this

/-- the number of children the first substatement came back with -/
def firstKidKids (r : Except YErr (Bytes × Option Bytes × List YStmt)) : Option Nat :=
  match r with
  | .ok (_, _, s :: _) => some s.children.length
  | _ => none

/-- **F340 repaired** (`fixes/F340.diff`: `yin_parse_element_generic` reads an element matched as `LY_STMT_ARG_VALUE` as the `value`
    statement it is — the argument element was consumed with its parent): the witness comes back, `error-message "m"` with its one
    child.  Vacuous on the unrepaired source; re-checked against the source on every run through `Generated.yinArgRemap`. -/
theorem yin_stmt_roundtrip_errmsg_value_fixed (hsrc : yinArgRemap = true) :
    firstKidArg (roundtripExt (.mk sE1 (some [97]) false (some [120]) [] [.mk sErrMsg (.kw sErrMsg) (some [109]) 0 [.mk sValue (.kw sValue) (some [49]) 0 []]])) = some (some [109]) ∧
    firstKidKids (roundtripExt (.mk sE1 (some [97]) false (some [120]) [] [.mk sErrMsg (.kw sErrMsg) (some [109]) 0 [.mk sValue (.kw sValue) (some [49]) 0 []]])) = some 1 := by
  revert hsrc
  decide +kernel

/-- under any other parent the same `value` statement comes back (non-vacuity of the exclusion) -/
example : firstKidArg (roundtripExt (.mk sE1 (some [97]) false (some [120]) [] [.mk [98, 105, 116] (.kw [98, 105, 116]) (some [109]) 0 [.mk sValue (.kw sValue) (some [49]) 0 []]])) =
    some (some [109]) := by decide +kernel

/-- conjunct (2) of `yinOk`: a keyword statement without the argument its keyword takes (`g:e1 "x" { leaf; }`, which the YANG parser
    accepts among extension substatements) is printed as `<leaf name=""/>` and comes back with the EMPTY argument, not without one. -/
theorem yin_stmt_roundtrip_fails_noarg :
    ¬ ∀ (k : Bytes), stmtInfo k = some (some [110, 97, 109, 101], false) →
      firstKidArg (roundtripExt (.mk sE1 (some [97]) false (some [120]) [] [.mk k (.kw k) none 0 []])) = some none := by
  intro h
  have e := h [108, 101, 97, 102] (by decide +kernel)
  have : firstKidArg (roundtripExt (.mk sE1 (some [97]) false (some [120]) [] [.mk [108, 101, 97, 102] (.kw [108, 101, 97, 102]) none 0 []])) =
      some (some []) := by decide +kernel
  rw [this] at e
  simp at e

/-- conjunct (1) of `yinOk`: a keyword statement spelled with a prefix (`y:leaf`, which only the YIN parser produces, from an element
    in the YIN namespace written with a prefix) is printed under that name; unless the enclosing module element happens to declare
    the prefix, the element is in no namespace and the parse fails. -/
theorem yin_stmt_roundtrip_fails_prefixed_kw :
    ¬ ∀ (p : Bytes), isIdent p = true →
      ∃ r, roundtripExt (.mk sE1 (some [97]) false (some [120]) [] [.mk (p ++ 58 :: [108, 101, 97, 102]) (.kw [108, 101, 97, 102]) (some [108]) 0 []]) = .ok r := by
  intro h
  obtain ⟨r, e⟩ := h [121] (by decide)
  have : isErr (roundtripExt (.mk sE1 (some [97]) false (some [120]) [] [.mk ([121] ++ 58 :: [108, 101, 97, 102]) (.kw [108, 101, 97, 102]) (some [108]) 0 []])) .invalid = true := by
    decide +kernel
  rw [e] at this
  simp [isErr] at this

/-! ## module level: the printer's child statements against the parser's `subelems` rules (leaf, typedef, container) -/

/-- **`yin_printer_respects_cardinality`.**  For `leaf`, `typedef` and `container`: whatever parsed statement the YIN printer is given
    — i.e. for EVERY choice of multiplicities of the optional and repeatable children in the emission pattern generated from
    `yprp_leaf` / `yprp_typedef` / `yprp_container` (with `yprp_node_common1/2` expanded) — the sequence of child statements it writes
    satisfies the rules `yin_parse_content` enforces with the `subelems` table generated from `yin_parse_leaf` / `yin_parse_typedef` /
    `yin_parse_container`: every child keyword is in the table, no `YIN_SUBELEM_UNIQUE` child occurs twice, every
    `YIN_SUBELEM_MANDATORY` child occurs.  (General step `Card.realise_cardOk`; per statement an evaluation over the two generated
    tables, re-checked whenever printer or parser change.) -/
theorem yin_printer_respects_cardinality (counts : List Nat) :
    Card.cardOk yinSubelems_leaf (Card.realise yinEmit_leaf counts) = true ∧
    Card.cardOk yinSubelems_typedef (Card.realise yinEmit_typedef counts) = true ∧
    Card.cardOk yinSubelems_container (Card.realise yinEmit_container counts) = true :=
  ⟨Card.realise_cardOk _ _ (by decide +kernel) counts, Card.realise_cardOk _ _ (by decide +kernel) counts,
   Card.realise_cardOk _ _ (by decide +kernel) counts⟩

/-- non-vacuity: a leaf with `when`, two `if-feature`, `type`, `units`, three `must`, `default`, `config`, `description` -/
example : (Card.realise yinEmit_leaf [0, 1, 2, 0, 1, 3, 1, 1, 0, 0, 1, 0]).length = 11 := by decide +kernel

/-- the rules do reject something: a leaf without `type`, and one with two `units` -/
example : Card.cardOk yinSubelems_leaf [[117, 110, 105, 116, 115]] = false := by decide +kernel
example : Card.cardOk yinSubelems_leaf [[116, 121, 112, 101], [117, 110, 105, 116, 115], [117, 110, 105, 116, 115]] = false := by decide +kernel

end LyModel.Props.C10Yin
