import LyModel.Val.LemmasUnion
import LyModel.Props.C03Ident
/-!
# C03 — `union` (RFC 7950 §9.12): acceptance, canonical form, equality, ordering, LYB

Model: `Val/Union.lean` (`union_find_type`, `lyplg_type_store/compare/sort/print_union`, `lys_compile_type_union`), tied to
`src/plugins_types/union.c` by `harness/api_types.c` (descriptor `U(…|…)`) on every run and by the shape extractor
`tools/extractors/valx.py`.  A union is the flattened list `ms` of its member plug-ins (for `MTy`: the types of `Val/Model.lean` and
strings with patterns — `MTy.plug`; identityref — `idrefPlug`); a union value `UVal` is the index of the member that stored it and that member's value.

* a member is a plug-in record `Plug` (store / canonical print / compare / sort / LYB print / LYB store); `MLaws p` — the laws every
  member type satisfies on its stored values (canonical idempotence, compare ⇔ canonical equality, sort a total preorder consistent with
  compare, LYB round trip): proved for all modelled member types (`mlaws`: the types of `Val/Model.lean` by the theorems of
  `Props/C03.lean`, strings with patterns); `MStored m v` — some lexical string is stored as `v` by `m`;
  `UStored ms u` — some lexical string is stored as `u` by the union; `UValid ms u` — `u.idx` names a member and `u.val` is a
  value of that member (text-stored AND LYB-loaded values: LYB can name any member).

The union has one genuine weakness, inherent to first-match selection (finding F412): two values of DIFFERENT members can
have the same canonical string; they are different values, and re-reading the canonical string selects the earlier member.
The statements that fail because of it come as `_fails` (concrete witness, replayed on libyang) + `_partial`.
-/
namespace LyModel.Props.C03Union
open LyModel LyModel.Val

/-! ## the compiled member list -/

theorem flattenList_append : ∀ (a b : List UTy), UTy.flattenList (a ++ b) = UTy.flattenList a ++ UTy.flattenList b
  | [], b => by simp [UTy.flattenList]
  | x :: a, b => by simp [UTy.flattenList, flattenList_append a b, List.append_assoc]

/-- `lys_compile_type_union`: a member that is itself a union is replaced, in place, by its members — `union { A…; union { B… }; C… }`
    compiles to the same member array as `union { A…; B…; C… }`, at every nesting depth. -/
theorem union_nested_is_flat (xs ys zs : List UTy) :
    (UTy.union (xs ++ [UTy.union ys] ++ zs)).flatten = (UTy.union (xs ++ ys ++ zs)).flatten := by
  simp [UTy.flatten, UTy.flattenList, flattenList_append]

example : (UTy.union [.mem (.base (.int .int8 [])), .union [.mem (.base .bool), .union [.mem (.base (.str []))]], .mem (.base (.dec64 2 []))]).flatten.length = 4 := by
  decide

/-! ## acceptance -/

/-- `union_accept_iff` (RFC 7950 §9.12: "validated consecutively against each member type … the first match is chosen"):
    the union stores `s` as value `v` of member `k` ⇔ member `k` stores `s` as `v` AND every member before `k` refuses `s`
    (under the same hints).  Every member list, every hint set, every string. -/
theorem union_accept_iff (ms : List Plug) (hints : Nat) (s : Bytes) (k : Nat) (v : Value) :
    storeU ms hints s = .ok ⟨k, v⟩ ↔
      ∃ m, ms[k]? = some m ∧ m.store hints s = .ok v ∧
        ∀ j, j < k → ∀ mj : Plug, ms[j]? = some mj → ∃ e, mj.store hints s = .error e :=
  storeU_ok_iff ms hints s ⟨k, v⟩

/-- … and it refuses `s` ⇔ every member refuses it; the error is then always "no matching subtype". -/
theorem union_reject_iff (ms : List Plug) (hints : Nat) (s : Bytes) (e : MErr) :
    storeU ms hints s = .error e ↔ e = .NoMember ∧ ∀ m ∈ ms, ∃ e', m.store hints s = .error e' :=
  storeU_error_iff ms hints s e

/-- Hence: accepted by the union ⇔ accepted by some member. -/
theorem union_accepts_iff_some_member (ms : List Plug) (hints : Nat) (s : Bytes) :
    (∃ u, storeU ms hints s = .ok u) ↔ ∃ m ∈ ms, ∃ v, m.store hints s = .ok v := by
  constructor
  · rintro ⟨u, h⟩
    obtain ⟨m, hget, hst, _⟩ := (storeU_ok_iff ms hints s u).mp h
    exact ⟨m, List.mem_of_getElem? hget, u.val, hst⟩
  · rintro ⟨m, hm, v, hst⟩
    cases h : storeU ms hints s with
    | ok u => exact ⟨u, rfl⟩
    | error e =>
      obtain ⟨e', he'⟩ := ((storeU_error_iff ms hints s e).mp h).2 m hm
      rw [hst] at he'; cases he'

/-- the audit union `union { type int8; type enumeration { enum "1" {value 7;} enum a; } type string { length 0..2; } type decimal64 {fd 2} }` -/
def auditM : List MTy :=
  [.base (.int .int8 []), .base (.enum [⟨[49], 7⟩, ⟨[97], 1⟩]), .base (.str [(0, 2)]), .base (.dec64 2 [])]
def auditU : List Plug := auditM.map MTy.plug

-- non-vacuity: "1" is in int8, in the enumeration and in the string: int8 (member 0) stores it; "a" goes to the enumeration;
-- "1x" to the string; "1.50" is refused by the three first members and stored by decimal64; "abc" by nobody
example : storeU auditU Generated.LYD_HINT_DATA [49] = .ok ⟨0, .num 1⟩ ∧
    storeU auditU Generated.LYD_HINT_DATA [97] = .ok ⟨1, .enum ⟨[97], 1⟩⟩ ∧
    storeU auditU Generated.LYD_HINT_DATA [49, 120] = .ok ⟨2, .str [49, 120]⟩ ∧
    storeU auditU Generated.LYD_HINT_DATA [49, 46, 53, 48] = .ok ⟨3, .num 150⟩ ∧
    storeU auditU Generated.LYD_HINT_DATA [97, 98, 99] = .error .NoMember := by decide
-- the theorem used left to right: since the union gave member 3, the members 0, 1, 2 refuse "1.50"
example : ∀ j, j < 3 → ∀ mj, auditU[j]? = some mj → ∃ e, mj.store Generated.LYD_HINT_DATA [49, 46, 53, 48] = .error e := by
  obtain ⟨_, _, _, h⟩ := (union_accept_iff auditU Generated.LYD_HINT_DATA [49, 46, 53, 48] 3 (.num 150)).mp (by decide)
  exact h
-- … and right to left: the enumeration accepts "a", int8 refuses it, so the union stores it with member 1
example : storeU auditU Generated.LYD_HINT_DATA [97] = .ok ⟨1, .enum ⟨[97], 1⟩⟩ :=
  (union_accept_iff auditU Generated.LYD_HINT_DATA [97] 1 (.enum ⟨[97], 1⟩)).mpr
    ⟨(MTy.base (.enum [⟨[49], 7⟩, ⟨[97], 1⟩])).plug, rfl, by decide, fun j hj mj hmj => by
      have : j = 0 := by omega
      subst this
      have : mj = (MTy.base (.int .int8 [])).plug := by simpa [auditU, auditM] using hmj.symm
      subst this
      exact ⟨.val .Invalid, by decide⟩⟩

/-! ## canonical form -/

/-- `union_canonical`: the canonical form of a stored union value is the canonical form, in the member type that stored it, of that
    very string (RFC 7950 §9.12: "the canonical form of a union value is the same as the canonical form of the member type
    of the value"). -/
theorem union_canonical (ms : List Plug) (hints : Nat) (s : Bytes) (u : UVal) (h : storeU ms hints s = .ok u) :
    ∃ m, ms[u.idx]? = some m ∧ m.store hints s = .ok u.val ∧ canonU ms u = m.canon u.val := by
  obtain ⟨m, hget, hst, _⟩ := (storeU_ok_iff ms hints s u).mp h
  exact ⟨m, hget, hst, by simp only [canonU, hget]⟩

example : canonU auditU ⟨3, .num 150⟩ = [49, 46, 53] ∧ canonU auditU ⟨0, .num 1⟩ = [49] := by decide

/-- the witness union of finding F412: `union { type string { length 1; } type int16; }` -/
def f412U : List Plug := [(MTy.base (.str [(1, 1)])).plug, (MTy.base (.int .int16 [])).plug]

theorem f412U_wf : ∀ m ∈ f412U, MLaws m := by
  intro m hm
  simp only [f412U, List.mem_cons, List.mem_nil_iff, or_false] at hm
  rcases hm with rfl | rfl
  · exact mlaws _ trivial
  · exact mlaws _ (by simp only [MTy.WF, Ty.WF, PartsWF])

/-- "+1" is stored by int16 (the string member refuses two characters); its canonical form "1" is stored by the string member -/
theorem f412U_stored : storeU f412U Generated.LYD_HINT_DATA [43, 49] = .ok ⟨1, .num 1⟩ ∧ canonU f412U ⟨1, .num 1⟩ = [49] ∧
    storeU f412U Generated.LYD_HINT_DATA [49] = .ok ⟨0, .str [49]⟩ := by decide

/-- Canonical idempotence — "storing the canonical string of a stored value returns that value" — holds for every member type
    (`canon_idempotent`) but NOT for unions: the canonical string may belong to an earlier member (finding F412). -/
theorem union_canon_idempotent_fails :
    ¬ ∀ (ms : List Plug), (∀ m ∈ ms, MLaws m) → ∀ u, UStored ms u → storeU ms Generated.LYD_HINT_DATA (canonU ms u) = .ok u := by
  intro h
  have := h f412U f412U_wf ⟨1, .num 1⟩ ⟨Generated.LYD_HINT_DATA, [43, 49], f412U_stored.1⟩
  rw [f412U_stored.2.1, f412U_stored.2.2] at this
  exact absurd this (by decide)

/-- What holds: the canonical string of a valid union value is always accepted again, by the same or an EARLIER member, and when
    it is the same member it is the same value … -/
theorem union_canon_idempotent_partial (ms : List Plug) (hwf : ∀ m ∈ ms, MLaws m) (u : UVal) (hu : UValid ms u) :
    ∃ u', storeU ms Generated.LYD_HINT_DATA (canonU ms u) = .ok u' ∧ u'.idx ≤ u.idx ∧ (u'.idx = u.idx → u' = u) := by
  obtain ⟨m, hget, hst⟩ := hu
  have hc : canonU ms u = m.canon u.val := by simp only [canonU, hget]
  have hidem := (hwf m (List.mem_of_getElem? hget)).canon_idem u.val hst
  rw [hc]
  cases h : storeU ms Generated.LYD_HINT_DATA (m.canon u.val) with
  | error e =>
    obtain ⟨e', he'⟩ := ((storeU_error_iff ms _ _ e).mp h).2 m (List.mem_of_getElem? hget)
    rw [hidem] at he'; cases he'
  | ok u' =>
    obtain ⟨m', hget', hst', hrej⟩ := (storeU_ok_iff ms _ _ u').mp h
    refine ⟨u', rfl, ?_, ?_⟩
    · rcases Nat.lt_or_ge u.idx u'.idx with hlt | hge
      · obtain ⟨e, he⟩ := hrej u.idx hlt m hget
        rw [hidem] at he; cases he
      · exact hge
    · intro hi
      rw [hi, hget] at hget'
      injection hget' with hm
      subst hm
      rw [hidem] at hst'
      injection hst' with hv
      cases u; cases u'
      simp only at hi hv
      subst hi; subst hv
      rfl

/-- … in particular it IS idempotent whenever no earlier member accepts the canonical string (e.g. for the first member, or for
    members with disjoint lexical spaces). -/
theorem union_canon_idempotent_of_disjoint (ms : List Plug) (hwf : ∀ m ∈ ms, MLaws m) (u : UVal) (hu : UValid ms u)
    (hdis : ∀ j, j < u.idx → ∀ mj : Plug, ms[j]? = some mj → ∃ e, mj.store Generated.LYD_HINT_DATA (canonU ms u) = .error e) :
    storeU ms Generated.LYD_HINT_DATA (canonU ms u) = .ok u := by
  obtain ⟨m, hget, hst⟩ := hu
  have hc : canonU ms u = m.canon u.val := by simp only [canonU, hget]
  refine (storeU_ok_iff ms _ _ u).mpr ⟨m, hget, ?_, hdis⟩
  rw [hc]
  exact (hwf m (List.mem_of_getElem? hget)).canon_idem u.val hst

-- non-vacuity: decimal64 150 of the audit union: "1.5" is refused by int8, the enumeration and the string
theorem auditU_wf : ∀ m ∈ auditU, MLaws m := by
  intro m hm
  simp only [auditU, auditM, List.map_cons, List.map_nil, List.mem_cons, List.mem_nil_iff, or_false] at hm
  rcases hm with rfl | rfl | rfl | rfl
  · exact mlaws _ (by simp only [MTy.WF, Ty.WF, PartsWF])
  · exact mlaws _ ⟨by decide, by decide, by decide⟩
  · exact mlaws _ trivial
  · exact mlaws _ ⟨by decide, trivial⟩

example : UValid auditU ⟨3, .num 150⟩ ∧ storeU auditU Generated.LYD_HINT_DATA (canonU auditU ⟨3, .num 150⟩) = .ok ⟨3, .num 150⟩ :=
  ⟨ustored_valid ⟨Generated.LYD_HINT_DATA, [49, 46, 53, 48], by decide⟩, by decide⟩
example : ∃ u', storeU f412U Generated.LYD_HINT_DATA (canonU f412U ⟨1, .num 1⟩) = .ok u' ∧ u'.idx ≤ 1 ∧ (u'.idx = 1 → u' = ⟨1, .num 1⟩) :=
  union_canon_idempotent_partial f412U f412U_wf ⟨1, .num 1⟩ (ustored_valid ⟨Generated.LYD_HINT_DATA, [43, 49], f412U_stored.1⟩)

/-! ## equality and ordering -/

/-- `union_equal_iff`: the compare callback (`lyplg_type_compare_union`: same member type AND the member's compare) decides
    equality of (member, value) — for text-stored and LYB-loaded values alike. -/
theorem union_equal_iff (ms : List Plug) (hwf : ∀ m ∈ ms, MLaws m) (a b : UVal) (ha : UValid ms a) (hb : UValid ms b) :
    cmpEqU ms a b = true ↔ a = b :=
  cmpEqU_iff hwf ha hb

/-- Equal values have equal canonical strings … -/
theorem union_eq_implies_canon_eq (ms : List Plug) (hwf : ∀ m ∈ ms, MLaws m) (a b : UVal) (ha : UValid ms a) (hb : UValid ms b)
    (h : cmpEqU ms a b = true) : canonU ms a = canonU ms b := by
  rw [(cmpEqU_iff hwf ha hb).mp h]

/-- … but NOT conversely (finding F412): `"1"` (string member) and `"+1"` (int16 member, canonical `"1"`) are different values with
    one canonical string — so `eq_iff_canon_eq`, true for every member type, is false for unions … -/
theorem union_eq_iff_canon_eq_fails :
    ¬ ∀ (ms : List Plug), (∀ m ∈ ms, MLaws m) → ∀ a b, UStored ms a → UStored ms b → (cmpEqU ms a b = true ↔ canonU ms a = canonU ms b) := by
  intro h
  have := h f412U f412U_wf ⟨0, .str [49]⟩ ⟨1, .num 1⟩ ⟨Generated.LYD_HINT_DATA, [49], f412U_stored.2.2⟩
    ⟨Generated.LYD_HINT_DATA, [43, 49], f412U_stored.1⟩
  exact absurd (this.mpr (by decide)) (by decide)

/-- … it holds between values of the same member. -/
theorem union_eq_iff_canon_eq_partial (ms : List Plug) (hwf : ∀ m ∈ ms, MLaws m) (a b : UVal) (ha : UValid ms a) (hb : UValid ms b)
    (hi : a.idx = b.idx) : cmpEqU ms a b = true ↔ canonU ms a = canonU ms b := by
  obtain ⟨ma, hga, hsa⟩ := ha
  obtain ⟨mb, hgb, hsb⟩ := hb
  have hgb' := hgb
  rw [← hi, hga] at hgb'
  injection hgb' with hm
  subst hm
  have hne : (a.idx != b.idx) = false := by simp [hi]
  simp only [cmpEqU, canonU, hne, hga, hgb, Bool.false_eq_true, if_false]
  exact (hwf ma (List.mem_of_getElem? hga)).eq_iff_canon _ _ hsa hsb

/-- `lyplg_type_sort_union` is a total preorder on valid union values: antisymmetric and transitive (values of different members are
    ordered by member position — the value of the earlier member is the greater one —, values of one member by that member's sort) … -/
theorem union_sort_total_order (ms : List Plug) (hwf : ∀ m ∈ ms, MLaws m) (a b c : UVal) (ha : UValid ms a) (hb : UValid ms b) (hc : UValid ms c) :
    sortU ms a b = -sortU ms b a ∧ (sortU ms a b ≤ 0 → sortU ms b c ≤ 0 → sortU ms a c ≤ 0) :=
  ⟨sortU_antisymm hwf ha hb, sortU_trans hwf ha hb hc⟩

/-- … whose equivalence is exactly equality: sort and compare are consistent (so a system-ordered leaf-list of a union type has one
    order whatever the insertion history — unlike date-and-time, F28, and identityref, F411). -/
theorem union_sort_consistent_with_eq (ms : List Plug) (hwf : ∀ m ∈ ms, MLaws m) (a b : UVal) (ha : UValid ms a) (hb : UValid ms b) :
    (sortU ms a b = 0 ↔ cmpEqU ms a b = true) ∧ (sortU ms a b = 0 ↔ a = b) :=
  ⟨sortU_zero_iff hwf ha hb, (sortU_zero_iff hwf ha hb).trans (cmpEqU_iff hwf ha hb)⟩

-- non-vacuity: three valid values of the audit union, two of one member and one of another
example : UValid auditU ⟨0, .num 1⟩ ∧ UValid auditU ⟨0, .num (-5)⟩ ∧ UValid auditU ⟨2, .str [49, 120]⟩ :=
  ⟨ustored_valid ⟨Generated.LYD_HINT_DATA, [49], by decide⟩, ustored_valid ⟨Generated.LYD_HINT_DATA, [45, 53], by decide⟩,
   ustored_valid ⟨Generated.LYD_HINT_DATA, [49, 120], by decide⟩⟩
example : sortU auditU ⟨0, .num 1⟩ ⟨2, .str [49, 120]⟩ = 1 ∧ sortU auditU ⟨0, .num (-5)⟩ ⟨0, .num 1⟩ = -1 ∧
    cmpEqU auditU ⟨0, .num 1⟩ ⟨2, .str [49, 120]⟩ = false := by decide

/-! ## LYB -/

/-- `union_lyb_roundtrip`: the LYB form (4-byte little-endian member index, then the member's LYB value) read back by
    `lyplg_type_store_union(LY_VALUE_LYB)` is the same value — the member index is kept, no other member is tried, so the round
    trip is exact even for the values whose canonical TEXT would select another member (F412). -/
theorem union_lyb_roundtrip (ms : List Plug) (hwf : ∀ m ∈ ms, MLaws m) (hlen : ms.length ≤ 2 ^ 32) (u : UVal) (hu : UValid ms u) :
    unlybU ms (lybU ms u) = .ok u :=
  unlybU_lybU hwf hlen hu

example : lybU f412U ⟨1, .num 1⟩ = [1, 0, 0, 0, 1, 0] ∧ unlybU f412U [1, 0, 0, 0, 1, 0] = .ok ⟨1, .num 1⟩ ∧
    unlybU f412U [0, 0, 0, 0, 49] = .ok ⟨0, .str [49]⟩ := by decide
example : unlybU f412U (lybU f412U ⟨1, .num 1⟩) = .ok ⟨1, .num 1⟩ :=
  union_lyb_roundtrip f412U f412U_wf (by decide) _ (ustored_valid ⟨Generated.LYD_HINT_DATA, [43, 49], f412U_stored.1⟩)
-- a bad size and a bad index are refused
example : unlybU f412U [1, 0, 0] = .error (.val .LybSize) ∧ unlybU f412U [2, 0, 0, 0, 49] = .error (.val .LybSize) := by decide

/-! ## which members satisfy the laws -/

/-- Every modelled member type — integers, decimal64, boolean, enumeration, bits, string with length, string with patterns — satisfies the
    member laws the theorems above assume (`hwf : ∀ m ∈ ms, MLaws m`); the proofs are the per-type theorems of `Props/C03.lean`. -/
theorem member_laws_hold (m : MTy) (hwf : m.WF) : MLaws m.plug :=
  mlaws m hwf

/-- identityref as a union member (`union { type identityref {…}; type string; }`), in a format whose prefixes are the module names
    (JSON, LYB, canonical), with the REPAIRED sort callback (`fixes/F411.diff`): the laws hold — for either variant of the base
    check —, so every theorem above applies to unions with identityref members. -/
theorem identityref_member_laws (allBases : Bool) (c : Ident.IdCtx) (hwf : c.WF) (bases : List Ident.Ident) (pmJ : Ident.PrefixMap)
    (hj : JsonLike c pmJ) : MLaws (idrefPlugWith allBases true c bases pmJ pmJ) :=
  idref_mlaws allBases c hwf bases pmJ hj

/-- `union { type identityref { base a:top; } type string; }` over the diamond of `Props/C03Ident.lean`, pinned sort callback -/
def idU : List Plug :=
  [idrefPlugWith false false C03Ident.diamond [C03Ident.dTop] C03Ident.dJson C03Ident.dJson, (MTy.base (.str [])).plug]

/-- With the PINNED identityref sort callback (names only, finding F411) the defect propagates into unions: `b:left` and `c:left`, both
    stored by the identityref member, are unequal but sort-equal — `union_sort_consistent_with_eq` is false for this member list. -/
theorem union_sort_consistent_with_eq_idref_fails :
    ¬ ∀ a b : UVal, UValid idU a → UValid idU b → (sortU idU a b = 0 ↔ cmpEqU idU a b = true) := by
  intro h
  have ha : UValid idU ⟨0, .str [98, 58, 108, 101, 102, 116]⟩ :=
    ustored_valid ⟨Generated.LYD_HINT_DATA, [98, 58, 108, 101, 102, 116], by decide⟩
  have hb : UValid idU ⟨0, .str [99, 58, 108, 101, 102, 116]⟩ :=
    ustored_valid ⟨Generated.LYD_HINT_DATA, [99, 58, 108, 101, 102, 116], by decide⟩
  exact absurd ((h _ _ ha hb).mp (by decide)) (by decide)

-- non-vacuity of `identityref_member_laws`: the diamond with its module-name prefix map is JSON-like, and the union stores "b:left" with the
-- identityref member, "b:left " (trailing space) with the string member
example : JsonLike C03Ident.diamond C03Ident.dJson := by
  intro df hdf
  simp only [C03Ident.diamond, List.mem_cons, List.mem_nil_iff, or_false] at hdf
  rcases hdf with rfl | rfl | rfl | rfl | rfl | rfl <;> decide
example : storeU idU Generated.LYD_HINT_DATA [98, 58, 108, 101, 102, 116] = .ok ⟨0, .str [98, 58, 108, 101, 102, 116]⟩ ∧
    storeU idU Generated.LYD_HINT_DATA [98, 58, 108, 101, 102, 116, 32] = .ok ⟨1, .str [98, 58, 108, 101, 102, 116, 32]⟩ ∧
    storeU idU Generated.LYD_HINT_DATA [97, 58, 116, 111, 112] = .ok ⟨1, .str [97, 58, 116, 111, 112]⟩ := by decide

/-! ## leafref members -/

/-- `sortU` is what `lyplg_type_sort_union` computes as long as every member stores its own type as `realtype` (all member types but
    leafref): the loop over the `types` array then meets one of the two values — and for every member list with the repaired loop
    (`fixes/F424.diff`), so all the ordering theorems above then hold for unions with leafref members too. -/
theorem sortUV_eq_sortU (lrefFound : Bool) (ms : List Plug) (hown : lrefFound = true ∨ ∀ m ∈ ms, m.ownRealtype = true) (a b : UVal) :
    sortUVWith lrefFound ms a b = sortU ms a b := by
  have hv : ∀ i : Nat, (lrefFound || (ms[i]?.map Plug.ownRealtype).getD true) = true := by
    intro i
    rcases hown with h | h
    · rw [h]; rfl
    · cases hg : ms[i]? with
      | none => simp
      | some m => simp [h m (List.mem_of_getElem? hg)]
  unfold sortUVWith sortU
  by_cases hi : (a.idx == b.idx) = true
  · rw [if_pos hi, if_pos hi]
  · rw [if_neg hi, if_neg hi]
    simp only [hv a.idx, hv b.idx, if_true]

/-- `union { type leafref { path "../a"; }  type leafref { path "../b"; } }` with `a` an int8 and `b` a string of length 2..3, both
    `require-instance false` -/
def lrefU : List Plug := [lrefPlug (MTy.base (.int .int8 [])).plug, lrefPlug (MTy.base (.str [(2, 3)])).plug]

/-- Finding F424: a leafref member stores the TARGET's type as `realtype`, so `lyplg_type_sort_union` finds neither of two values that were
    stored by two different leafref members: it returns 0 (and trips `assert(rc != 0)` in a build with assertions) although the
    compare callback says the values differ — sort is not consistent with equality for unions with two leafref members. -/
theorem union_sort_consistent_with_eq_leafref_fails :
    ¬ ∀ a b : UVal, UValid lrefU a → UValid lrefU b → (sortUVWith false lrefU a b = 0 ↔ cmpEqU lrefU a b = true) := by
  intro h
  have ha : UValid lrefU ⟨0, .num 1⟩ := ustored_valid ⟨Generated.LYD_HINT_DATA, [49], by decide⟩
  have hb : UValid lrefU ⟨1, .str [120, 121]⟩ := ustored_valid ⟨Generated.LYD_HINT_DATA, [120, 121], by decide⟩
  exact absurd ((h _ _ ha hb).mp (by decide)) (by decide)

/-- What holds with leafref members: a value of a leafref member and a value of any other member are still ordered (the other member is
    found), antisymmetrically; and everything else about the union (acceptance, canonical form, compare, LYB) is untouched, because the
    leafref plug-in IS the target's plug-in for store / compare / print (`lrefPlug`). -/
theorem union_sort_leafref_partial (ms : List Plug) (a b : UVal) (hi : a.idx ≠ b.idx)
    (hown : (ms[a.idx]?.map Plug.ownRealtype).getD true = true ∨ (ms[b.idx]?.map Plug.ownRealtype).getD true = true) :
    sortUVWith false ms a b ≠ 0 ∧ sortUVWith false ms a b = -sortUVWith false ms b a := by
  have h1 : (a.idx == b.idx) = false := by simpa using hi
  have h2 : (b.idx == a.idx) = false := by simpa using (Ne.symm hi)
  unfold sortUVWith
  rw [h1, h2]
  simp only [Bool.false_eq_true, if_false, Bool.false_or]
  rcases Nat.lt_or_gt_of_ne hi with hlt | hgt
  · have hn : ¬ b.idx < a.idx := by omega
    rw [if_pos hlt, if_neg hn]
    rcases hown with h | h
    · rw [h]; simp
    · rw [h]; cases (ms[a.idx]?.map Plug.ownRealtype).getD true <;> simp
  · have hn : ¬ a.idx < b.idx := by omega
    rw [if_neg hn, if_pos hgt]
    rcases hown with h | h
    · rw [h]; cases (ms[b.idx]?.map Plug.ownRealtype).getD true <;> simp
    · rw [h]; simp

example : storeU lrefU Generated.LYD_HINT_DATA [49] = .ok ⟨0, .num 1⟩ ∧ storeU lrefU Generated.LYD_HINT_DATA [120, 121] = .ok ⟨1, .str [120, 121]⟩ ∧
    sortUVWith false lrefU ⟨0, .num 1⟩ ⟨1, .str [120, 121]⟩ = 0 ∧ sortUVWith true lrefU ⟨0, .num 1⟩ ⟨1, .str [120, 121]⟩ = 1 ∧ cmpEqU lrefU ⟨0, .num 1⟩ ⟨1, .str [120, 121]⟩ = false := by decide

/-! ## the `validate` callback: members that need an instance in the data tree -/

/-- `union_validate_iff` (`lyplg_type_validate_union` → `union_find_type(resolve = 1)`): after validation the value is held by member `k`
    as `v` ⇔ member `k` stores the ORIGINAL text as `v` and `v` resolves in the tree (always, unless the member is a leafref with
    `require-instance true`: then a target instance with the same canonical value exists), and every earlier member either refuses the text
    or stores it as a value that does not resolve. -/
theorem union_validate_iff (ms : List Plug) (targets : List Bytes) (hints : Nat) (s : Bytes) (k : Nat) (v : Value) :
    validateU ms targets hints s = .ok ⟨k, v⟩ ↔
      ∃ m, ms[k]? = some m ∧ m.store hints s = .ok v ∧ m.resolves targets v = true ∧
        ∀ j, j < k → ∀ mj : Plug, ms[j]? = some mj →
          (∃ e, mj.store hints s = .error e) ∨ ∃ w, mj.store hints s = .ok w ∧ mj.resolves targets w = false := by
  unfold validateU
  cases hf : findTypeV targets ms 0 hints s with
  | none =>
    simp only
    constructor
    · intro h; cases h
    · rintro ⟨m, hg, h1, h2, h3⟩
      have : findTypeV targets ms 0 hints s = some ⟨k, v⟩ :=
        (findTypeV_some_iff targets ms 0 hints s ⟨k, v⟩).mpr ⟨k, m, by simp, hg, h1, h2, h3⟩
      rw [hf] at this; cases this
  | some w =>
    simp only
    constructor
    · intro h
      injection h with h
      subst h
      obtain ⟨k', m, hk, hg, h1, h2, h3⟩ := (findTypeV_some_iff targets ms 0 hints s _).mp hf
      simp only [Nat.zero_add] at hk
      subst hk
      exact ⟨m, hg, h1, h2, h3⟩
    · rintro ⟨m, hg, h1, h2, h3⟩
      have : findTypeV targets ms 0 hints s = some ⟨k, v⟩ :=
        (findTypeV_some_iff targets ms 0 hints s ⟨k, v⟩).mpr ⟨k, m, by simp, hg, h1, h2, h3⟩
      rw [hf] at this
      injection this with this
      rw [this]

/-- Without `require-instance` members validation changes nothing: the validated value is the stored one. -/
theorem union_validate_eq_store (ms : List Plug) (hno : ∀ m ∈ ms, m.reqInst = false) (targets : List Bytes) (hints : Nat) (s : Bytes) :
    validateU ms targets hints s = storeU ms hints s := by
  unfold validateU storeU
  rw [findTypeV_eq_findType targets ms 0 hints s hno]

/-- `union { type leafref { path "../tg"; } type string { length 0..3; } }`, `tg` a leaf-list of int8 -/
def lrefrU : List Plug := [lrefrPlug (MTy.base (.int .int8 [])).plug, (MTy.base (.str [(0, 3)])).plug]

-- the member that holds a value can CHANGE at validation: "1" is stored by the leafref member (`lyd_new_term`, parsers); validated against a
-- tree whose target leaf-list holds 1 it stays there, against a tree without such an instance it becomes the string "1"; "+1" likewise
-- (it resolves through its canonical value "1"); with neither a target nor a fitting string the value is refused
example : storeU lrefrU Generated.LYD_HINT_DATA [49] = .ok ⟨0, .num 1⟩ ∧
    validateU lrefrU [[49], [55]] Generated.LYD_HINT_DATA [49] = .ok ⟨0, .num 1⟩ ∧
    validateU lrefrU [[55]] Generated.LYD_HINT_DATA [49] = .ok ⟨1, .str [49]⟩ ∧
    validateU lrefrU [[49]] Generated.LYD_HINT_DATA [43, 49] = .ok ⟨0, .num 1⟩ ∧
    validateU lrefrU [] Generated.LYD_HINT_DATA [43, 49] = .ok ⟨1, .str [43, 49]⟩ ∧
    validateU lrefrU [] Generated.LYD_HINT_DATA [45, 49, 50, 56] = .error .NoMember := by decide
example : ∃ m, lrefrU[1]? = some m ∧ m.resolves [[55]] (.str [49]) = true :=
  let h := (union_validate_iff lrefrU [[55]] Generated.LYD_HINT_DATA [49] 1 (.str [49])).mp (by decide)
  ⟨h.choose, h.choose_spec.1, h.choose_spec.2.2.1⟩

/-! ## why F412 has no small repair -/

/-- the obvious repair of F412 — "values of different members with the same canonical string are equal": compare falls back to the
    canonical strings and sort returns 0 for them, everything else as before -/
def sortCanonEq (ms : List Plug) (a b : UVal) : Int :=
  if a.idx != b.idx && canonU ms a == canonU ms b then 0 else sortU ms a b

/-- … makes the order NON-transitive on stored values: in `union { string {length 1}; int16 }` the string "1" is then equal to the integer 1
    (`"+1"`), the integer 1 is below the integer 2 (`"+2"`), but the string "1" is ABOVE the integer 2 (member order).  (libyang's own test
    suite does not notice: it passes 119/119 with this change.)  A consistent order would have to be a function of the canonical string
    alone, i.e. change the order of all union values; see notes/design/c03ext.md. -/
theorem union_repair_by_canonical_equality_not_transitive :
    ¬ ∀ (ms : List Plug), (∀ m ∈ ms, MLaws m) → ∀ a b c, UStored ms a → UStored ms b → UStored ms c →
      sortCanonEq ms a b ≤ 0 → sortCanonEq ms b c ≤ 0 → sortCanonEq ms a c ≤ 0 := by
  intro h
  have := h f412U f412U_wf ⟨0, .str [49]⟩ ⟨1, .num 1⟩ ⟨1, .num 2⟩
    ⟨Generated.LYD_HINT_DATA, [49], by decide⟩ ⟨Generated.LYD_HINT_DATA, [43, 49], by decide⟩ ⟨Generated.LYD_HINT_DATA, [43, 50], by decide⟩
    (by decide) (by decide)
  exact absurd this (by decide)

end LyModel.Props.C03Union
