import LyModel.Props.C07
import LyModel.Valid.ValApply
import LyModel.Valid.LemmasValdiff
import LyModel.Valid.LemmasValdiffFresh
import LyModel.Valid.LemmasValdiffQuiet
/-!
# C07 `valdiff_exact` — the change set a validation returns, applied to the input tree, gives the validated tree

The statement composes three models: `Valid.validate` (src/validation.c, tree_data_new.c), `Valid.judge` (`lyd_val_diff_add`:
`lyd_diff_add` + `lyd_diff_merge_all`, the `diff` out-parameter of `lyd_validate_module` / `lyd_validate_all`) and `Diff.apply`
(`lyd_diff_apply_all`, component `diff`, C06):

  `valdiffExact X o fx t`  :=  `Diff.apply t (validateDiff t) = validate t`   up to `LYD_NEW`, metadata and the default flag of
                               non-presence containers (`obsL`), as a Boolean;  `validateDiff t = none` (a merge failed) counts as false.

Full strength is FALSE in the C code — four shapes, each with a witness replayed on libyang by tools/checks/c07.py (families
`hist`, `case_npcont`, `valdiff_shapes`) — and the decidable exclusion `valdiffExcluded` (LyModel/Valid/ValApply.lean) names them:
a change below a key-less list instance (F177); a default non-presence container with a second instance of its schema node next
to it (F179 a, F194); in the defective variant only: a default non-presence container that is a member of a case (F400 = F179 b,
repaired by fixes/F400.diff).  PROVED here for every schema: the witnesses, the repaired variant on the witness of F400, and the
statement on every input a validation leaves unchanged (so on every validated tree of the class of `validate_idempotent_choice`).
The statement on all inputs outside `valdiffExcluded` is evaluated in the model on every generated input of every run
(`valdiff-model:*` counters; a model failure inside the hypotheses is a VIOLATION) and compared with libyang's own
`lyd_diff_apply_all` result — it is NOT proved in general (OPEN, see the end of the file).
Correspondence with the C: `tools/checks/c07.py` (`law_model`).
-/
namespace LyModel.Props.C07
open LyModel LyModel.Tree LyModel.Valid

/-! ## the statement, and where it is false -/

/-- **`valdiff_exact`, full strength**: for every schema, option set, variant of `lyd_diff_apply_all` and input tree -/
def ValdiffExactFull : Prop :=
  ∀ (X : SchemaX) (o : VOpts) (fx : Diff.Fixes) (t : List DNode), X.q = Quirks.fixed → valdiffExact X o fx t = true

/-- schema of the witness F177: `container c { config false; list l { leaf a { default "1"; } leaf b; } }` (a key-less list) -/
def S177 : Schema := { modName := "m", nodes := [
  { depth := 0, kind := .container, name := "c", config := false },
  { depth := 1, kind := .list, name := "l", config := false },
  { depth := 2, kind := .leaf, name := "a", config := false, dflts := [[49]] },
  { depth := 2, kind := .leaf, name := "b", config := false }] }
def X177 : SchemaX := { SchemaX.ofSchema S177 with q := Quirks.fixed }
/-- `c / l { b = "x" }` built with `lyd_new_*` -/
def t177 : List DNode := freshL S177 [.inner 0 {} [] [.inner 1 {} [] [.term 3 {} [] [120]]]]

/-- **full strength, false (F177)**: the default `a` created below the new key-less list instance is recorded under a copy of the
instance with operation `none`; `lyd_diff_apply_all` compares that partial copy with the full instance and fails (`LY_EINVAL`) -/
theorem valdiff_exact_F177_fails : ¬ ValdiffExactFull := by
  intro h
  have := h X177 {} {} t177 rfl
  revert this
  decide +kernel

/-- schema of the witness F179 (a): `container c { container d { leaf f { default "t"; } leaf g { default "x"; } } }` -/
def S179 : Schema := { modName := "m", nodes := [
  { depth := 0, kind := .container, name := "c" },
  { depth := 1, kind := .container, name := "d" },
  { depth := 2, kind := .leaf, name := "f", dflts := [[116]] },
  { depth := 2, kind := .leaf, name := "g", dflts := [[120]] }] }
def X179 : SchemaX := { SchemaX.ofSchema S179 with q := Quirks.fixed }
/-- the validated default `c/d { f g }` and, next to it, a second `d` with an explicit `f` (`lyd_new_inner` + `lyd_new_term`) -/
def t179 : List DNode := [.inner 0 {} [] [
  .inner 1 { dflt := true } [] [.term 2 { dflt := true } [] [116], .term 3 { dflt := true } [] [120]],
  .inner 1 { new := true } [] [.term 2 { new := true } [] [116]]]]

/-- **full strength, false (F179 a)**: the default `d` goes, recorded through its children only (`f` delete, `g` delete), then `g` is
created again in the explicit `d` — the merged change set is `c/d/f delete`, and `lyd_diff_apply_all` deletes `f` in the FIRST `d` it
finds: two instances remain (`d { g }` and `d { f }`) where the validated tree has one `d { f g }` -/
theorem valdiff_exact_F179_fails : ¬ ValdiffExactFull := by
  intro h
  have := h X179 {} {} t179 rfl
  revert this
  decide +kernel

/-- schema of the witness F194: `container c2 { leaf f16; container c17 { leaf-list ll19 { ordered-by user; default "a"; default "x"; } } }` -/
def S194 : Schema := { modName := "m", nodes := [
  { depth := 0, kind := .container, name := "c2" },
  { depth := 1, kind := .leaf, name := "f16" },
  { depth := 1, kind := .container, name := "c17" },
  { depth := 2, kind := .leaflist, name := "ll19", userord := true, dflts := [[97], [120]] }] }
def X194 : SchemaX := { SchemaX.ofSchema S194 with q := Quirks.fixed }
/-- the validated default `c2 / c17 { ll19 = a, x }` and a second, explicit `c2 { f16 = "1" }` next to it -/
def t194 : List DNode := [
  .inner 0 { dflt := true } [] [.inner 2 { dflt := true } [] [.term 3 { dflt := true } [] [97], .term 3 { dflt := true } [] [120]]],
  .inner 0 { new := true } [] [.term 1 { new := true } [] [49]]]

/-- **full strength, false (F194)**: the same shape one level deeper — `c17` goes into the change set as ONE delete of the subtree,
whose user-ordered instances carry no `yang:orig-value`; when `lyd_new_implicit` creates them again in the explicit `c2`,
`lyd_diff_merge_create` fails (`LY_EINVAL`): the validation itself fails, no change set (`validateDiff = none`) -/
theorem valdiff_exact_F194_fails : ¬ ValdiffExactFull ∧ validateDiff X194 {} t194 = none ∧ (validate X194 {} t194).errs = [] := by
  refine ⟨?_, by decide +kernel, by decide +kernel⟩
  intro h
  have := h X194 {} {} t194 rfl
  revert this
  decide +kernel

/-- schema of the witness F400 (= F179 b): `container top { presence; choice ch { case a { container nc { leaf e; leaf d { default "x"; } } }
case b { leaf w; } } }` — the non-presence container `nc` is a member of case `a` -/
def S400 : Schema := { modName := "m", nodes := [
  { depth := 0, kind := .container, name := "top", presence := true },
  { depth := 1, kind := .choice, name := "ch" },
  { depth := 2, kind := .case, name := "a" },
  { depth := 3, kind := .container, name := "nc" },
  { depth := 4, kind := .leaf, name := "e" },
  { depth := 4, kind := .leaf, name := "d", dflts := [[120]] },
  { depth := 2, kind := .case, name := "b" },
  { depth := 3, kind := .leaf, name := "w" }] }
/-- the two variants of `lyd_validate_autodel_case_dflt`: `np_cont_diff = 0` (defect) / `1` (fixes/F400.diff) -/
def X400 (defect : Bool) : SchemaX := { SchemaX.ofSchema S400 with q := { Quirks.fixed with caseDfltNpViaKids := defect } }
/-- `top / nc { d = x (default) }` flagged default: its explicit `e` was deleted after the previous validation -/
def t400 : List DNode := [.inner 0 {} [] [.inner 3 { dflt := true } [] [.term 5 { dflt := true } [] [120]]]]

/-- **the defective variant F400 (F179 b) is not exact**: `nc` is removed as the leftover of case `a`, the change set holds
`top/nc/d delete` only, applied to the input it leaves `top { nc { } }` where the validated tree is `top { }` -/
theorem valdiff_exact_F400_fails :
    ¬ ∀ (X : SchemaX) (o : VOpts) (fx : Diff.Fixes) (t : List DNode), X.q = { Quirks.fixed with caseDfltNpViaKids := true } →
      keylessChange X o t = false → npAtRiskL X true false t t = false → valdiffExact X o fx t = true := by
  intro h
  have := h (X400 true) {} {} t400 rfl (by decide +kernel) (by decide +kernel)
  revert this
  decide +kernel

/-- **`valdiff_exact_fixed` (F400)**: with the repair (`np_cont_diff = 1`: the container itself is recorded) the same input is exact,
the change set is `top/nc delete`; and the input is no longer in the excluded shapes -/
theorem valdiff_exact_F400_fixed :
    valdiffExact (X400 false) {} {} t400 = true ∧ valdiffExcluded (X400 false) {} t400 = false ∧
    valdiffExcluded (X400 true) {} t400 = true ∧
    (validateDiff (X400 false) {} t400).map (fun d => d.map fun n => n.kids.map fun k => (k.sid, k.kids.length)) = some [[(3, 1)]] := by
  refine ⟨by decide +kernel, by decide +kernel, by decide +kernel, by decide +kernel⟩

/-- every witness above IS in the excluded shapes (the exclusion is not vacuous on them), and a plain input is not: `c` with an
explicit `d/f` of schema `S179`, where the validation creates `d/g` — exact, with a change set of one `create` -/
example : valdiffExcluded X177 {} t177 = true ∧ valdiffExcluded X179 {} t179 = true ∧ valdiffExcluded X194 {} t194 = true ∧
    (let t : List DNode := freshL S179 [.inner 0 {} [] [.inner 1 {} [] [.term 2 {} [] [102]]]]
     valdiffExcluded X179 {} t = false ∧ valdiffExact X179 {} {} t = true ∧ (validate X179 {} t).evs.length = 1) := by
  refine ⟨by decide +kernel, by decide +kernel, by decide +kernel, by decide +kernel, by decide +kernel, by decide +kernel⟩

/-! ## the true part that is proved: inputs a validation leaves unchanged -/

/-- **`valdiff_exact` on unchanged inputs** (every schema, every variant, every option set): when the validation of `t` returns `t`,
records no change and logs no error, the returned change set is EMPTY, `lyd_diff_apply_all` of it is the identity, and that is the
validated tree — "the diff is empty when nothing changed", literally `apply t (validateDiff t) = validate t`. -/
theorem valdiff_exact_unchanged (X : SchemaX) (o : VOpts) (fx : Diff.Fixes) (t : List DNode)
    (ht : (validate X o t).tree = t) (he : (validate X o t).evs = []) (hv : (validate X o t).errs = []) :
    validateDiff X o t = some [] ∧ valdiffApply X o fx t = .ok t ∧ valdiffExact X o fx t = true :=
  valdiffExact_of_unchanged X o fx t ht he hv

/-- **`valdiff_exact_partial` on validated trees** (schemas with `choice` / `case` in any nesting, the class and hypotheses of
`validate_idempotent_choice`): the result `t' = validate t` of ANY validation, validated again without error, gets the empty
change set, and applying it to `t'` gives `validate t'` (= `t'`).  So a second validation never reports a change that did not
happen and never hides one — in the class; outside it F189 / F400 hide one (`validate_idempotent_choice_fails`). -/
theorem valdiff_exact_partial_validated (X : SchemaX) (o : VOpts) (fx : Diff.Fixes) (t : List DNode)
    (hq1 : X.q.implicitInnerCase = false) (hq2 : X.q.autodelDirectCase = false) (hq3 : X.q.casesCountDefault = true)
    (hl : KidsLookupOk X) (hw : CaseWf X) (hnp : NoNpContInCase X ∨ (npInvL X.base t ∧ newExplL t))
    (hp : placedCL X X.top t = true) (hh : sheightL X.top ≤ walkFuel X t)
    (hv : (validate X o (validate X o t).tree).errs = []) :
    validateDiff X o (validate X o t).tree = some [] ∧ valdiffExact X o fx (validate X o t).tree = true := by
  obtain ⟨h1, h2⟩ := validate_idempotent2 X o hq1 hq2 hq3 hl hw t hnp hp hh
  obtain ⟨a, _, c⟩ := valdiffExact_of_unchanged X o fx _ h1 h2 hv
  exact ⟨a, c⟩

/-! ## the true part that is proved: non-empty change sets -/

/-- **`valdiff_exact` for one call of `lyd_new_implicit`** (one sibling level at the top of the tree, every schema — choices, cases,
default cases in any nesting —, every variant of the code, every option set; `sibs` arbitrary): the change set `lyd_val_diff_add`
collects over the call (`valDiff`: every created node copied, tagged `create`, merged with `lyd_diff_merge_all` into the diff so
far) is defined, has one node per created node, and `lyd_diff_apply_all` of it on the siblings the call GOT gives the siblings it
handed BACK (up to `obsL`).  Hypotheses, all decidable: the table rows of the schema nodes below `ks` are their statement records
and no leaf-list has two equal defaults (`OkBelowL`, `okBelowL_of_B`); no created node is user-ordered.
The proof: the change log is exact (`implL_tr`: the result is the input with the recorded nodes linked one by one, and no created
node is what `lyd_diff_find_match` takes for an earlier one, so every merge ADDS a node); the diff is the event list sorted by
schema node; `lyd_insert_node` of different schema nodes commute (`insertNode_comm`), so applying in schema order what happened in
event order gives the same siblings (`foldl_insertNode_sortIns`). -/
theorem implicit_valdiff_exact (X : SchemaX) (o : VOpts) (fx : Diff.Fixes) (cx : Cx) (ks : List STree) (sibs : List DNode)
    (hanc : cx.anc = []) (hok : OkBelowL X.base ks)
    (hno : ∀ e ∈ (implL X o cx ks sibs).2.evs, X.base.isUserOrd e.node.sid = false) :
    ∃ D r, valDiff X.base (implL X o cx ks sibs).2.evs = some D ∧ Diff.apply X.base sibs D fx = .ok r ∧
      obsL X.base r = obsL X.base (implL X o cx ks sibs).1 ∧ D.length = (implL X o cx ks sibs).2.evs.length :=
  implL_valdiff X o fx cx ks sibs sibs hanc hok hno rfl

/-- non-vacuity (schema `Sc` of Props/C07.lean: nested choices with default cases): on the top-level siblings `[x]` the call creates
`u` (nested default case) and `da` of case `a` and the container `n` — three events, none user-ordered -/
example : okBelowB Xc = true ∧ (implL Xc {} {} Xc.top [.term 2 { new := true } [] [49]]).2.evs.map (·.node.sid) = [5, 8, 11] ∧
    (implL Xc {} {} Xc.top [.term 2 { new := true } [] [49]]).1.map (·.sid) = [2, 5, 8, 11] := by
  refine ⟨by decide +kernel, by decide +kernel, by decide +kernel⟩

/-- **`valdiff_exact_partial` on freshly built / parsed explicit data** — every schema of the model (containers, lists, choices and
cases in any nesting), every variant of the code, every option set, every tree `t` of ANY depth in which every node carries
`LYD_NEW` and none `LYD_DEFAULT` (`freshExplL`: what `lyd_new_*` and the parsers leave, as long as no non-presence container is
empty) and is accepted by the validation (`errs = []`), when **every recorded change is made on the top level**, on nodes that are
not user-ordered (`topOnly`; decidable; e.g. a module whose defaults sit in top-level leaves, leaf-lists, choices and cases):
`lyd_diff_apply_all t (validateDiff t) = validate t`, literally (`valdiffExact`), the change set has exactly one node per recorded
change, and — by the lemmas of the proof — below the top level, where nothing is recorded, nothing changed (`subtreeNode_fresh`),
`lyd_validate_new` deleted nothing (`validateNew_freshLevel`) and `lyd_validate_final_r` only set flags (`finalR_obs`).
(Changes BELOW the top level — chains of copied parents merged into one diff tree — are the OPEN part.) -/
theorem valdiff_exact_partial_fresh (X : SchemaX) (o : VOpts) (fx : Diff.Fixes) (t : List DNode)
    (hok : OkBelowL X.base X.top) (hf : freshExplL t = true) (htop : topOnly X o t = true)
    (hv : (validate X o t).errs = []) (hpe : (o.present && t.isEmpty) = false) :
    valdiffExact X o fx t = true ∧ ∃ D, validateDiff X o t = some D ∧ D.length = (validate X o t).evs.length :=
  valdiff_fresh_top X o fx t hok hf htop hv hpe

/-- non-vacuity (schema `Sc`): the fresh tree `[x = "1", n { t = "3" }]` — `x` selects case `a`, whose defaults `u` and `da` are
created on the top level (2 events, change set of 2 nodes); below `n` nothing happens (`t` selects the non-default case `s`) -/
example :
    let t : List DNode := freshL Sc [.term 2 {} [] [49], .inner 11 {} [] [.term 16 {} [] [51]]]
    freshExplL t = true ∧ topOnly Xc {} t = true ∧ (validate Xc {} t).errs = [] ∧ (validate Xc {} t).evs.map (·.node.sid) = [5, 8] := by
  refine ⟨by decide +kernel, by decide +kernel, by decide +kernel, by decide +kernel⟩

/-- **`valdiff_exact_partial` for trees in ANY flag state** (histories: old nodes, default-flagged nodes, new nodes — every schema, every
variant, every option set, any depth) whose validation **only creates nodes, on the top level**, not user-ordered (`topCreates`,
decidable), when no default-flagged non-presence container is at risk of going unrecorded (`npAtRiskL … = false`: no second instance of
its schema node next to it — F179 a / F194 —, not a member of a case — F400 / F189): `lyd_diff_apply_all t (validateDiff t) = validate t`,
and the change set has one node per recorded change.  Generalises `valdiff_exact_partial_fresh` from fresh data to every flag state: a
`lyd_validate_new` that records nothing deletes nothing (`validateNew_quiet`: `newLoop_quiet`, `autodelStep_quiet`, `casesStep_quiet` — every
victim of an auto-deletion yields a change event unless it is an empty non-presence container, and those are excluded by the risk
predicate), its events are deletions (`validateNew_ops`), so below the top level nothing is recorded and nothing changes
(`subtreeNode_quiet`). -/
theorem valdiff_exact_partial_top (X : SchemaX) (o : VOpts) (fx : Diff.Fixes) (t : List DNode)
    (hok : OkBelowL X.base X.top) (hrisk : npAtRiskL X true true t t = false) (htop : topCreates X o t = true)
    (hv : (validate X o t).errs = []) (hpe : (o.present && t.isEmpty) = false) :
    valdiffExact X o fx t = true ∧ ∃ D, validateDiff X o t = some D ∧ D.length = (validate X o t).evs.length :=
  valdiff_top_any X o fx t hok hrisk htop hv hpe

/-- non-vacuity (schema `Sc`): the OLD tree `[x, n { t }]` (no `LYD_NEW`: the state after an earlier validation whose defaults `u`, `da` the
client has freed) — not fresh; the validation creates `u` and `da` again on the top level -/
example :
    let t : List DNode := [.term 2 {} [] [49], .inner 11 {} [] [.term 16 {} [] [51]]]
    freshExplL t = false ∧ npAtRiskL Xc true true t t = false ∧ topCreates Xc {} t = true ∧ (validate Xc {} t).errs = [] ∧
    (validate Xc {} t).evs.map (·.node.sid) = [5, 8] := by
  refine ⟨by decide +kernel, by decide +kernel, by decide +kernel, by decide +kernel, by decide +kernel⟩

/-! ## not proved

-- OPEN: `valdiff_exact_partial` on ALL inputs outside `valdiffExcluded` (∀ X o fx t, X.q = Quirks.fixed → valdiffExcluded X o t = false →
-- validateDiff X o t ≠ none → valdiffExact X o fx t = true).  Proved: creations on the top level of fresh data, one level of
-- `lyd_new_implicit`, unchanged inputs.  Missing: (1) changes BELOW the top level — `lyd_val_diff_add` copies the parents
-- (`none` chains), `lyd_diff_merge_r` merges chain into chain (none/none, none/create) and `lyd_diff_apply_r` walks them; (2)
-- deletions (`lyd_validate_new`) and the pairs delete/create, create/delete of one validation; (3) user-ordered nodes (anchors).  Evaluated in the model on every
-- generated input of every run (`valdiff-model:exact/hyp` must be all of `valdiff-hyp:satisfied`) and compared with libyang.
-/

end LyModel.Props.C07
