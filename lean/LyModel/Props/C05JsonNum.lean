import LyModel.Lex.JsonNumSpec
import LyModel.Lex.JsonNumLemmas
import LyModel.Lex.JsonNumPrep
/-!
# C05 / C01 — `json_number_value`: the decimal string `lyjson_number` hands on denotes the number that was written

DESIGN §5 C01 lists this theorem (`json_number_value`); it lives with the `JsonNum` model of component `lex`.
Full statement `JsonNumberValue`: for every RFC 8259 number text `t` followed by a byte that ends it, whenever
`lyjson_number` succeeds it consumed exactly `t`, and the value it produced is a plain decimal string (no exponent)
denoting the same rational.

The composition branch for a mantissa `0.ddd` with the new point inside the digits is read off the source by the
translator (`Generated.lyjsonExpLeadingZeroFixed`).  Both values of the switch are covered:

* `json_number_value_fixed` — with the branch as rewritten by `fixes/F14.diff` (`= true`, the tree as it is now) the full
  statement HOLDS: all literals without exponent, zero mantissas, zero exponents, and every exponent literal whatever
  the place the shifted point lands (left of the digits, inside them, right of them; with and without a leading `0.`);
* `json_number_value_fails` — with the branch of libyang 3.7.8 (`= false`) it is false (finding F14, witness `0.5e1`,
  whose value is `"."`), and `json_number_value_partial` is the part that holds there: everything but that one branch;
* `json_number_value_iff_fixed` puts the two together: `JsonNumberValue ↔ lyjsonExpLeadingZeroFixed = true`.

`json_number_no_syntax_error`: no number text is rejected as malformed — the only errors are the length / exponent limits.
-/
namespace LyModel.Props.C05
open LyModel LyModel.JsonNum

/-- the full-strength statement -/
def JsonNumberValue : Prop :=
  ∀ (t : NumText) (rest : Bytes), t.wf = true → Stops rest = true →
    ∀ r, number (t.render ++ rest) = .ok r →
      r.consumed = t.render.length ∧ ∃ d, parseDec r.value = some d ∧ SameValue t d

/-- `0.5e1,` on the 3.7.8 source: the composition yields `"."` -/
theorem f14_witness (h : Generated.lyjsonExpLeadingZeroFixed = false) :
    number [48, 46, 53, 101, 49, 44] =
      .ok { value := [46], consumed := 5, dyn := true, exp := some { bufLen := 1, writes := [(0, 46), (1, 53), (1, 0)], lens := [1] } } := by
  have hc : compose [48, 46, 53, 101, 49, 44] (prep [48, 46, 53, 101, 49, 44] 3 (expVal [48, 46, 53, 101, 49, 44] 3)) =
      composeB2orig [48, 46, 53, 101, 49, 44] (prep [48, 46, 53, 101, 49, 44] 3 (expVal [48, 46, 53, 101, 49, 44] 3)) := by
    unfold compose; rw [h]; rfl
  have hn : number [48, 46, 53, 101, 49, 44] = (match expNumber [48, 46, 53, 101, 49, 44] 3 with
      | .error x => .error x
      | .ok r => .ok { value := r.value, consumed := 5, dyn := true, exp := some r }) := by rfl
  rw [hn]
  have he : expNumber [48, 46, 53, 101, 49, 44] 3 = .ok { bufLen := 1, writes := [(0, 46), (1, 53), (1, 0)], lens := [1] } := by
    unfold expNumber
    simp only [hc]
    rfl
  rw [he]
  rfl

/-- **F14.**  As long as the source has the 3.7.8 shape of the leading-zero branch, the full statement is false:
    `0.5e1` is a well-formed number text (value 5), and what `lyjson_number` produces for it, `"."`, is no decimal. -/
theorem json_number_value_fails (h : Generated.lyjsonExpLeadingZeroFixed = false) : ¬ JsonNumberValue := by
  intro hv
  have := hv { neg := false, ip := [48], fp := some [53], exp := some (false, none, [49]) } [44] (by decide) (by decide) _ (f14_witness h)
  obtain ⟨_, d, hd, _⟩ := this
  have : parseDec [46] = none := by decide
  rw [this] at hd
  cases hd

-- AUDIT (resolved): `_fails` is the record of the 3.7.8 branch (vacuous on the fixed tree); the positive statement is proved: `json_number_value_fixed`, `json_number_value_iff_fixed`.

/-- the hypothesis of `f14_witness` / `json_number_value_fails` is false of a source with the fixed branch -/
theorem json_number_value_fails_vacuous_for_fixed_source (h : Generated.lyjsonExpLeadingZeroFixed = true) :
    ¬ (Generated.lyjsonExpLeadingZeroFixed = false) := by simp [h]


/-- `0.5e1,` on the fixed source (`composeB4`: the integer result `5`) -/
theorem f14_witness_fixed (h : Generated.lyjsonExpLeadingZeroFixed = true) :
    number [48, 46, 53, 101, 49, 44] =
      .ok { value := [53], consumed := 5, dyn := true, exp := some { bufLen := 1, writes := [(0, 53), (1, 0)], lens := [1, 0] } } := by
  have hc : compose [48, 46, 53, 101, 49, 44] (prep [48, 46, 53, 101, 49, 44] 3 (expVal [48, 46, 53, 101, 49, 44] 3)) =
      composeB4 [48, 46, 53, 101, 49, 44] (prep [48, 46, 53, 101, 49, 44] 3 (expVal [48, 46, 53, 101, 49, 44] 3)) := by
    unfold compose; rw [h]; rfl
  have hn : number [48, 46, 53, 101, 49, 44] = (match expNumber [48, 46, 53, 101, 49, 44] 3 with
      | .error x => .error x
      | .ok r => .ok { value := r.value, consumed := 5, dyn := true, exp := some r }) := by rfl
  rw [hn]
  have he : expNumber [48, 46, 53, 101, 49, 44] 3 = .ok { bufLen := 1, writes := [(0, 53), (1, 0)], lens := [1, 0] } := by
    have hb : composeB4 [48, 46, 53, 101, 49, 44] (prep [48, 46, 53, 101, 49, 44] 3 (expVal [48, 46, 53, 101, 49, 44] 3))
        = (1, [(0, 53)], [1, 0]) := by decide
    unfold expNumber
    simp only [hc, hb]
    rfl
  rw [he]
  rfl

/-- `0.10203e3,` on the fixed source goes through the rewritten branch (`composeB2fixed`): `102.03` (3.7.8: `10.20`) -/
theorem f14_witness2_fixed (h : Generated.lyjsonExpLeadingZeroFixed = true) :
    number [48, 46, 49, 48, 50, 48, 51, 101, 51, 44] =
      .ok { value := [49, 48, 50, 46, 48, 51], consumed := 9, dyn := true,
            exp := some { bufLen := 6, writes := [(0, 49), (1, 48), (2, 50), (3, 46), (4, 48), (5, 51), (6, 0)], lens := [5] } } := by
  have hc : compose [48, 46, 49, 48, 50, 48, 51, 101, 51, 44] (prep [48, 46, 49, 48, 50, 48, 51, 101, 51, 44] 7 (expVal [48, 46, 49, 48, 50, 48, 51, 101, 51, 44] 7)) =
      composeB2fixed [48, 46, 49, 48, 50, 48, 51, 101, 51, 44] (prep [48, 46, 49, 48, 50, 48, 51, 101, 51, 44] 7 (expVal [48, 46, 49, 48, 50, 48, 51, 101, 51, 44] 7)) := by
    unfold compose; rw [h]; rfl
  have hn : number [48, 46, 49, 48, 50, 48, 51, 101, 51, 44] = (match expNumber [48, 46, 49, 48, 50, 48, 51, 101, 51, 44] 7 with
      | .error x => .error x
      | .ok r => .ok { value := r.value, consumed := 9, dyn := true, exp := some r }) := by rfl
  rw [hn]
  have he : expNumber [48, 46, 49, 48, 50, 48, 51, 101, 51, 44] 7 = .ok { bufLen := 6, writes := [(0, 49), (1, 48), (2, 50), (3, 46), (4, 48), (5, 51), (6, 0)], lens := [5] } := by
    have hb : composeB2fixed [48, 46, 49, 48, 50, 48, 51, 101, 51, 44] (prep [48, 46, 49, 48, 50, 48, 51, 101, 51, 44] 7 (expVal [48, 46, 49, 48, 50, 48, 51, 101, 51, 44] 7))
        = (6, [(0, 49), (1, 48), (2, 50), (3, 46), (4, 48), (5, 51)], [5]) := by decide
    unfold expNumber
    simp only [hc, hb]
    rfl
  rw [he]
  rfl

/-- the conclusion of `JsonNumberValue` at both witnesses on the fixed source: exactly the text is consumed and the value
    is a decimal string denoting the number written (5 and 102.03) -/
theorem json_number_value_at_f14_witnesses_fixed (h : Generated.lyjsonExpLeadingZeroFixed = true) :
    (∀ r, number (NumText.render { neg := false, ip := [48], fp := some [53], exp := some (false, none, [49]) } ++ [44]) = .ok r →
      r.consumed = 5 ∧ ∃ d, parseDec r.value = some d ∧
        SameValue { neg := false, ip := [48], fp := some [53], exp := some (false, none, [49]) } d) ∧
    (∀ r, number (NumText.render { neg := false, ip := [48], fp := some [49, 48, 50, 48, 51], exp := some (false, none, [51]) } ++ [44]) = .ok r →
      r.consumed = 9 ∧ ∃ d, parseDec r.value = some d ∧
        SameValue { neg := false, ip := [48], fp := some [49, 48, 50, 48, 51], exp := some (false, none, [51]) } d) := by
  refine ⟨fun r hr => ?_, fun r hr => ?_⟩
  · have e : NumText.render { neg := false, ip := [48], fp := some [53], exp := some (false, none, [49]) } ++ [44]
        = [48, 46, 53, 101, 49, 44] := by decide
    rw [e, f14_witness_fixed h] at hr
    cases hr
    exact ⟨rfl, (false, 5, 0), by decide, by decide⟩
  · have e : NumText.render { neg := false, ip := [48], fp := some [49, 48, 50, 48, 51], exp := some (false, none, [51]) } ++ [44]
        = [48, 46, 49, 48, 50, 48, 51, 101, 51, 44] := by decide
    rw [e, f14_witness2_fixed h] at hr
    cases hr
    exact ⟨rfl, (false, 10203, 2), by decide, by decide⟩

/-- **The part that holds for either source.**  For every RFC 8259 number text `t` and every terminating rest: if
    `lyjson_number` succeeds it consumed exactly `t` and its value is a plain decimal string denoting the number written —
    provided the source has the fixed branch, or `t` does not go through the branch of F14 (mantissa `0.ddd`, exponent
    `0 < e ≤` number of fraction digits).  Covered: no exponent, zero mantissa (`0`/`-0`), zero exponent (mantissa text
    handed on), and `lyjson_exp_number` in every composition branch: point left of the digits (`0.` zeros digits), inside
    them (with / without a leading `0.`, the old point moved or falling away), right of them (digits padded with zeros);
    trailing zeros cut, `uint16_t` arithmetic and the buffer read-back included. -/
theorem json_number_value_partial (t : NumText) (rest : Bytes) (hwf : t.wf = true) (hs : Stops rest = true)
    (hx : Generated.lyjsonExpLeadingZeroFixed = true ∨
          ¬ (t.ip = [48] ∧ t.fp.isSome = true ∧ 0 < t.expVal ∧ t.expVal ≤ t.fracLen)) :
    ∀ r, number (t.render ++ rest) = .ok r →
      r.consumed = t.render.length ∧ ∃ d, parseDec r.value = some d ∧ SameValue t d :=
  number_value t rest hwf hs hx

/-- **`json_number_value` on the fixed source.**  With the leading-zero branch as rewritten by `fixes/F14.diff` (what
    the translator finds in the tree now) the full statement holds. -/
theorem json_number_value_fixed (h : Generated.lyjsonExpLeadingZeroFixed = true) : JsonNumberValue :=
  fun t rest hwf hs => number_value t rest hwf hs (Or.inl h)

/-- the full statement holds exactly for the fixed source -/
theorem json_number_value_iff_fixed : JsonNumberValue ↔ Generated.lyjsonExpLeadingZeroFixed = true := by
  constructor
  · intro hv
    cases h : Generated.lyjsonExpLeadingZeroFixed with
    | true => rfl
    | false => exact absurd hv (json_number_value_fails h)
  · exact json_number_value_fixed

/-- **No number text is rejected as malformed**: on an RFC 8259 number text `lyjson_number` never reports an invalid
    character or an unexpected end — its only errors are the limits (`TooLong`, `ExpRange`, `MaxLen`).  So the
    success hypothesis of `JsonNumberValue` fails only for texts beyond those limits. -/
theorem json_number_no_syntax_error (t : NumText) (rest : Bytes) (hwf : t.wf = true) (hs : Stops rest = true) :
    number (t.render ++ rest) ≠ .error .invChar ∧ number (t.render ++ rest) ≠ .error .eof := by
  have key := number_error_kind t rest hwf hs
  constructor
  · intro h; have := key _ h; simp at this
  · intro h; have := key _ h; simp at this

/-- non-vacuity of `json_number_value_partial` in each branch, whatever the switch (texts without a leading `0.`):
    no exponent `-12.50`; zero mantissa `-0.00e5`; zero exponent `1.5E+00`; point left of the digits `-12.50e-3` →
    `-0.0125`; inside them `12.50e1` → `125` (the old point falls away) and `1200e-3` → `1.2`; right of them
    `12.5e3` → `12500` — hypotheses met (`number … = .ok _` by evaluation), conclusion delivered by the theorem -/
example : ∀ t ∈ ([
      { neg := true, ip := [49, 50], fp := some [53, 48], exp := none },
      { neg := true, ip := [48], fp := some [48, 48], exp := some (false, none, [53]) },
      { neg := false, ip := [49], fp := some [53], exp := some (true, some false, [48, 48]) },
      { neg := true, ip := [49, 50], fp := some [53, 48], exp := some (false, some true, [51]) },
      { neg := false, ip := [49, 50], fp := some [53, 48], exp := some (false, none, [49]) },
      { neg := false, ip := [49, 50, 48, 48], fp := none, exp := some (false, some true, [51]) },
      { neg := false, ip := [49, 50], fp := some [53], exp := some (false, none, [51]) }] : List NumText),
    t.wf = true ∧ ∃ r, number (t.render ++ [44]) = .ok r ∧
      r.consumed = t.render.length ∧ ∃ d, parseDec r.value = some d ∧ SameValue t d := by
  intro t ht
  simp only [List.mem_cons, List.not_mem_nil, or_false] at ht
  rcases ht with rfl | rfl | rfl | rfl | rfl | rfl | rfl
  all_goals
    refine ⟨by decide, _, rfl, ?_⟩
    exact json_number_value_partial _ [44] (by decide) (by decide) (Or.inr (by decide)) _ rfl

/-- what the values are in those seven cases -/
example : (number [45, 49, 50, 46, 53, 48, 44]).toOption.map (·.value) = some [45, 49, 50, 46, 53, 48] ∧
    (number [45, 48, 46, 48, 48, 101, 53, 44]).toOption.map (·.value) = some [45, 48] ∧
    (number [49, 46, 53, 69, 43, 48, 48, 44]).toOption.map (·.value) = some [49, 46, 53] ∧
    (number [45, 49, 50, 46, 53, 48, 101, 45, 51, 44]).toOption.map (·.value) = some [45, 48, 46, 48, 49, 50, 53] ∧
    (number [49, 50, 46, 53, 48, 101, 49, 44]).toOption.map (·.value) = some [49, 50, 53] ∧
    (number [49, 50, 48, 48, 101, 45, 51, 44]).toOption.map (·.value) = some [49, 46, 50] ∧
    (number [49, 50, 46, 53, 101, 51, 44]).toOption.map (·.value) = some [49, 50, 53, 48, 48] := by
  refine ⟨?_, ?_, ?_, ?_, ?_, ?_, ?_⟩ <;> decide

/-- non-vacuity of `json_number_value_fixed` at the F14 witnesses (mantissa `0.ddd`, point inside / right behind the
    digits): on the fixed source `number` succeeds on `0.5e1,` and `0.10203e3,` and the theorem gives the conclusion -/
example (h : Generated.lyjsonExpLeadingZeroFixed = true) :
    (∃ r, number (NumText.render { neg := false, ip := [48], fp := some [53], exp := some (false, none, [49]) } ++ [44]) = .ok r ∧
      ∃ d, parseDec r.value = some d ∧ SameValue { neg := false, ip := [48], fp := some [53], exp := some (false, none, [49]) } d) ∧
    (∃ r, number (NumText.render { neg := false, ip := [48], fp := some [49, 48, 50, 48, 51], exp := some (false, none, [51]) } ++ [44]) = .ok r ∧
      ∃ d, parseDec r.value = some d ∧
        SameValue { neg := false, ip := [48], fp := some [49, 48, 50, 48, 51], exp := some (false, none, [51]) } d) := by
  constructor
  · have e : NumText.render { neg := false, ip := [48], fp := some [53], exp := some (false, none, [49]) } ++ [44]
        = [48, 46, 53, 101, 49, 44] := by decide
    refine ⟨_, by rw [e]; exact f14_witness_fixed h, ?_⟩
    exact (json_number_value_fixed h _ [44] (by decide) (by decide) _ (by rw [e]; exact f14_witness_fixed h)).2
  · have e : NumText.render { neg := false, ip := [48], fp := some [49, 48, 50, 48, 51], exp := some (false, none, [51]) } ++ [44]
        = [48, 46, 49, 48, 50, 48, 51, 101, 51, 44] := by decide
    refine ⟨_, by rw [e]; exact f14_witness2_fixed h, ?_⟩
    exact (json_number_value_fixed h _ [44] (by decide) (by decide) _ (by rw [e]; exact f14_witness2_fixed h)).2

/-- non-vacuity of `json_number_no_syntax_error`: a text that IS refused — by the exponent limit, not as malformed -/
example : number (NumText.render { neg := false, ip := [49], fp := none, exp := some (false, none, [55, 48, 48, 48, 48]) } ++ [44])
    = .error .expRange := by rfl

/-- non-vacuity of the full statement's hypotheses, and a case where its conclusion does hold: `-12.50e-3,` → `-0.0125` -/
example : ∃ r, number (NumText.render { neg := true, ip := [49, 50], fp := some [53, 48], exp := some (false, some true, [51]) } ++ [44]) = .ok r ∧
    r.consumed = 9 ∧ ∃ d, parseDec r.value = some d ∧
      SameValue { neg := true, ip := [49, 50], fp := some [53, 48], exp := some (false, some true, [51]) } d := by
  refine ⟨_, rfl, rfl, (true, 125, 4), by decide, by decide⟩

end LyModel.Props.C05
