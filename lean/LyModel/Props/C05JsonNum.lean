import LyModel.Lex.JsonNumSpec
import LyModel.Lex.JsonNumLemmas
/-!
# C05 / C01 — `json_number_value`: the decimal string `lyjson_number` hands on denotes the number that was written

DESIGN §5 C01 lists this theorem (`json_number_value`); it lives with the `JsonNum` model of component `lex`.
Full statement `JsonNumberValue`: for every RFC 8259 number text `t` followed by a byte that ends it, whenever
`lyjson_number` succeeds it consumed exactly `t`, and the value it produced is a plain decimal string (no exponent)
denoting the same rational.

It is **false** of libyang 3.7.8 (finding F14): `json_number_value_fails` — stated for the source shape the
translator found (`Generated.lyjsonExpLeadingZeroFixed = false`), with the witness `0.5e1`, whose value is `"."`.
-/
namespace LyModel.Props.C05
open LyModel LyModel.JsonNum

/-- the full-strength statement -/
def JsonNumberValue : Prop :=
  ∀ (t : NumText) (rest : Bytes), t.wf = true → Stops rest = true →
    ∀ r, number (t.render ++ rest) = .ok r →
      r.consumed = t.render.length ∧ ∃ d, parseDec r.value = some d ∧ SameValue t d

/-- `0.5e1,` on the 3.7.8 source: the composition yields `"."` -/
theorem f14_witness (h : Generated.lyjsonExpLeadingZeroFixed = false) :
    number [48, 46, 53, 101, 49, 44] =
      .ok { value := [46], consumed := 5, dyn := true, exp := some { bufLen := 1, writes := [(0, 46), (1, 53), (1, 0)], lens := [1] } } := by
  have hc : compose [48, 46, 53, 101, 49, 44] (prep [48, 46, 53, 101, 49, 44] 3 (expVal [48, 46, 53, 101, 49, 44] 3)) =
      composeB2orig [48, 46, 53, 101, 49, 44] (prep [48, 46, 53, 101, 49, 44] 3 (expVal [48, 46, 53, 101, 49, 44] 3)) := by
    unfold compose; rw [h]; rfl
  have hn : number [48, 46, 53, 101, 49, 44] = (match expNumber [48, 46, 53, 101, 49, 44] 3 with
      | .error x => .error x
      | .ok r => .ok { value := r.value, consumed := 5, dyn := true, exp := some r }) := by rfl
  rw [hn]
  have he : expNumber [48, 46, 53, 101, 49, 44] 3 = .ok { bufLen := 1, writes := [(0, 46), (1, 53), (1, 0)], lens := [1] } := by
    unfold expNumber
    simp only [hc]
    rfl
  rw [he]
  rfl

/-- **F14.**  As long as the source has the 3.7.8 shape of the leading-zero branch, the full statement is false:
    `0.5e1` is a well-formed number text (value 5), and what `lyjson_number` produces for it, `"."`, is no decimal. -/
theorem json_number_value_fails (h : Generated.lyjsonExpLeadingZeroFixed = false) : ¬ JsonNumberValue := by
  intro hv
  have := hv { neg := false, ip := [48], fp := some [53], exp := some (false, none, [49]) } [44] (by decide) (by decide) _ (f14_witness h)
  obtain ⟨_, d, hd, _⟩ := this
  have : parseDec [46] = none := by decide
  rw [this] at hd
  cases hd

-- AUDIT: `f14_witness` and `json_number_value_fails` take `Generated.lyjsonExpLeadingZeroFixed = false` — an equation
-- between a generated constant and a literal.  In the tree as it is generated now (`fixes/F14.diff` applied, F14 is
-- `fixed`) the constant is `true`: both theorems are vacuous for the source that is being checked
-- (`json_number_value_fails_vacuous_for_fixed_source`), and since the positive statement is OPEN (below), this file
-- proves NOTHING about `JsonNumberValue` on the current source; it is carried by the (L) law of the check only.  The
-- same holds for the second `example` under `json_exp_number_in_bounds` in `Props/C05.lean`.
-- Minimal repair of the statement: keep `json_number_value_fails` as the record of 3.7.8 and state the claim for the
-- other value of the switch, `Generated.lyjsonExpLeadingZeroFixed = true → JsonNumberValue` (the OPEN
-- `json_number_value_partial` restricted to its first disjunct), so that for either value of the switch one of the two
-- theorems speaks.  That proof is the OPEN item and not a one-hour job.  Added here instead, as the part that is cheap:
-- on the fixed source the conclusion of `JsonNumberValue` holds at the F14 witnesses `0.5e1` (new integer branch) and
-- `0.10203e3` (rewritten branch) — `json_number_value_at_f14_witnesses_fixed`.  Together with `json_number_value_fails`
-- the pair is non-vacuous whatever the translator finds.

/-- the hypothesis of `f14_witness` / `json_number_value_fails` is false of a source with the fixed branch -/
theorem json_number_value_fails_vacuous_for_fixed_source (h : Generated.lyjsonExpLeadingZeroFixed = true) :
    ¬ (Generated.lyjsonExpLeadingZeroFixed = false) := by simp [h]


/-- `0.5e1,` on the fixed source (`composeB4`: the integer result `5`) -/
theorem f14_witness_fixed (h : Generated.lyjsonExpLeadingZeroFixed = true) :
    number [48, 46, 53, 101, 49, 44] =
      .ok { value := [53], consumed := 5, dyn := true, exp := some { bufLen := 1, writes := [(0, 53), (1, 0)], lens := [1, 0] } } := by
  have hc : compose [48, 46, 53, 101, 49, 44] (prep [48, 46, 53, 101, 49, 44] 3 (expVal [48, 46, 53, 101, 49, 44] 3)) =
      composeB4 [48, 46, 53, 101, 49, 44] (prep [48, 46, 53, 101, 49, 44] 3 (expVal [48, 46, 53, 101, 49, 44] 3)) := by
    unfold compose; rw [h]; rfl
  have hn : number [48, 46, 53, 101, 49, 44] = (match expNumber [48, 46, 53, 101, 49, 44] 3 with
      | .error x => .error x
      | .ok r => .ok { value := r.value, consumed := 5, dyn := true, exp := some r }) := by rfl
  rw [hn]
  have he : expNumber [48, 46, 53, 101, 49, 44] 3 = .ok { bufLen := 1, writes := [(0, 53), (1, 0)], lens := [1, 0] } := by
    have hb : composeB4 [48, 46, 53, 101, 49, 44] (prep [48, 46, 53, 101, 49, 44] 3 (expVal [48, 46, 53, 101, 49, 44] 3))
        = (1, [(0, 53)], [1, 0]) := by decide
    unfold expNumber
    simp only [hc, hb]
    rfl
  rw [he]
  rfl

/-- `0.10203e3,` on the fixed source goes through the rewritten branch (`composeB2fixed`): `102.03` (3.7.8: `10.20`) -/
theorem f14_witness2_fixed (h : Generated.lyjsonExpLeadingZeroFixed = true) :
    number [48, 46, 49, 48, 50, 48, 51, 101, 51, 44] =
      .ok { value := [49, 48, 50, 46, 48, 51], consumed := 9, dyn := true,
            exp := some { bufLen := 6, writes := [(0, 49), (1, 48), (2, 50), (3, 46), (4, 48), (5, 51), (6, 0)], lens := [5] } } := by
  have hc : compose [48, 46, 49, 48, 50, 48, 51, 101, 51, 44] (prep [48, 46, 49, 48, 50, 48, 51, 101, 51, 44] 7 (expVal [48, 46, 49, 48, 50, 48, 51, 101, 51, 44] 7)) =
      composeB2fixed [48, 46, 49, 48, 50, 48, 51, 101, 51, 44] (prep [48, 46, 49, 48, 50, 48, 51, 101, 51, 44] 7 (expVal [48, 46, 49, 48, 50, 48, 51, 101, 51, 44] 7)) := by
    unfold compose; rw [h]; rfl
  have hn : number [48, 46, 49, 48, 50, 48, 51, 101, 51, 44] = (match expNumber [48, 46, 49, 48, 50, 48, 51, 101, 51, 44] 7 with
      | .error x => .error x
      | .ok r => .ok { value := r.value, consumed := 9, dyn := true, exp := some r }) := by rfl
  rw [hn]
  have he : expNumber [48, 46, 49, 48, 50, 48, 51, 101, 51, 44] 7 = .ok { bufLen := 6, writes := [(0, 49), (1, 48), (2, 50), (3, 46), (4, 48), (5, 51), (6, 0)], lens := [5] } := by
    have hb : composeB2fixed [48, 46, 49, 48, 50, 48, 51, 101, 51, 44] (prep [48, 46, 49, 48, 50, 48, 51, 101, 51, 44] 7 (expVal [48, 46, 49, 48, 50, 48, 51, 101, 51, 44] 7))
        = (6, [(0, 49), (1, 48), (2, 50), (3, 46), (4, 48), (5, 51)], [5]) := by decide
    unfold expNumber
    simp only [hc, hb]
    rfl
  rw [he]
  rfl

/-- the conclusion of `JsonNumberValue` at both witnesses on the fixed source: exactly the text is consumed and the value
    is a decimal string denoting the number written (5 and 102.03) -/
theorem json_number_value_at_f14_witnesses_fixed (h : Generated.lyjsonExpLeadingZeroFixed = true) :
    (∀ r, number (NumText.render { neg := false, ip := [48], fp := some [53], exp := some (false, none, [49]) } ++ [44]) = .ok r →
      r.consumed = 5 ∧ ∃ d, parseDec r.value = some d ∧
        SameValue { neg := false, ip := [48], fp := some [53], exp := some (false, none, [49]) } d) ∧
    (∀ r, number (NumText.render { neg := false, ip := [48], fp := some [49, 48, 50, 48, 51], exp := some (false, none, [51]) } ++ [44]) = .ok r →
      r.consumed = 9 ∧ ∃ d, parseDec r.value = some d ∧
        SameValue { neg := false, ip := [48], fp := some [49, 48, 50, 48, 51], exp := some (false, none, [51]) } d) := by
  refine ⟨fun r hr => ?_, fun r hr => ?_⟩
  · have e : NumText.render { neg := false, ip := [48], fp := some [53], exp := some (false, none, [49]) } ++ [44]
        = [48, 46, 53, 101, 49, 44] := by decide
    rw [e, f14_witness_fixed h] at hr
    cases hr
    exact ⟨rfl, (false, 5, 0), by decide, by decide⟩
  · have e : NumText.render { neg := false, ip := [48], fp := some [49, 48, 50, 48, 51], exp := some (false, none, [51]) } ++ [44]
        = [48, 46, 49, 48, 50, 48, 51, 101, 51, 44] := by decide
    rw [e, f14_witness2_fixed h] at hr
    cases hr
    exact ⟨rfl, (false, 10203, 2), by decide, by decide⟩

/-
-- OPEN: `json_number_value_partial` — the true part of `JsonNumberValue`:

  theorem json_number_value_partial (t : NumText) (rest : Bytes) (hwf : t.wf = true) (hs : Stops rest = true)
      (hx : Generated.lyjsonExpLeadingZeroFixed = true ∨
            ¬ (t.ip = [48] ∧ t.fp.isSome ∧ 0 < t.expVal ∧ t.expVal ≤ t.fracLen)) :      -- the branch of F14 excluded
      ∀ r, number (t.render ++ rest) = .ok r →
        r.consumed = t.render.length ∧ ∃ d, parseDec r.value = some d ∧ SameValue t d

-- Not proved in this round.  In place: the scanner helper lemmas (`Lex/JsonNumScan.lean`: `rd_of_drop`,
-- `drop_of_drop_append`, `countDigits_prefix`, the `NoDigitAhead` facts of a rendered text, `wf_ip/fp/exp`) and the
-- rendering lemmas (`Lex/JsonNumRender.lean`: the stores of every branch are consecutive (`copyGo_eq_seqW`,
-- `memsetW_eq_seqW`), the value read back is the byte list written cut at `buf_len` (`value_of_seqW`), and the copy
-- loop writes `insertDot (dp − d) (eraseDec …)` (`copyBytes_eq`)).  Missing: the evaluation of `scan`/`prep` on a
-- rendered text and the per-branch arithmetic `digitsVal`.  Until then the statement is carried by the (L) law of the
-- check: python `fractions` on the exhaustive number micro-grammar and 3 000 / 200 000 random texts per run
-- (35 805 + 719 texts in the quick tier; every failing one is an instance of F14).
-/

/-- non-vacuity of the full statement's hypotheses, and a case where its conclusion does hold: `-12.50e-3,` → `-0.0125` -/
example : ∃ r, number (NumText.render { neg := true, ip := [49, 50], fp := some [53, 48], exp := some (false, some true, [51]) } ++ [44]) = .ok r ∧
    r.consumed = 9 ∧ ∃ d, parseDec r.value = some d ∧
      SameValue { neg := true, ip := [49, 50], fp := some [53, 48], exp := some (false, some true, [51]) } d := by
  refine ⟨_, rfl, rfl, (true, 125, 4), by decide, by decide⟩

end LyModel.Props.C05
