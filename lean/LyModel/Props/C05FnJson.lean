import LyModel.Bridge.JsonU
/-!
# C05 (C01) — the `\uXXXX` digit loop of `lyjson_string` as TRANSLATED from json.c (slice; `tools/c2lean.py`, regenerated on every run)
-/
namespace LyModel.Props.C05FnJson
open LyModel LyModel.Generated

/-- **The translated digit loop is the model's** `JsonText.uValue`: it fails exactly when one of the four characters is the
    terminating NUL, and otherwise yields the model's value modulo 2^32 — for every buffer, whatever (non-hex) bytes it holds. -/
theorem gen_json_u_is_model (inp : Bytes) (v0 : UInt32) :
    Fn.lyjson_string__u inp 0 v0 =
      Bridge.JsonU.uOut v0 (JsonText.uValue 4 [C.rd inp 0, C.rd inp 1, C.rd inp 2, C.rd inp 3] 0) :=
  Bridge.JsonU.u_eq inp v0

example : Fn.lyjson_string__u [0x32, 0x30, 0x41, 0x63] 0 9 = ⟨0, 0x20AC⟩ ∧ Fn.lyjson_string__u [0x32, 0x30] 0 9 = ⟨1, 9⟩ := by
  decide +kernel

/-- **The translated digit loop stops at the NUL.**  Whatever follows the first NUL in memory has no influence on its result: a
    truncated `\u12` at the end of the input is refused without looking behind the terminator. -/
theorem gen_json_u_stops_at_nul (s j j' : Bytes) (v0 : UInt32) :
    Fn.lyjson_string__u (s ++ 0 :: j) 0 v0 = Fn.lyjson_string__u (s ++ 0 :: j') 0 v0 := by
  rw [Bridge.JsonU.u_eq, Bridge.JsonU.u_eq]
  match s with
  | [] => simp [C.rd, JsonText.uValue]
  | [a] => simp [C.rd, JsonText.uValue]
  | [a, b] => simp [C.rd, JsonText.uValue]
  | [a, b, c] => simp [C.rd, JsonText.uValue]
  | a :: b :: c :: d :: t => simp [C.rd]

example : Fn.lyjson_string__u ([0x31, 0x32] ++ 0 :: [0x33, 0x34]) 0 5 = ⟨1, 5⟩ := by decide +kernel

end LyModel.Props.C05FnJson
