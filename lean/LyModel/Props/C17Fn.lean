import LyModel.Bridge.Hash
import LyModel.Bridge.Ht
/-!
# C17 — hash_table.c leaf code as TRANSLATED from the C source (`tools/c2lean.py`, regenerated on every run)

The hash-table and dictionary theorems of C17 are about `LyHt.Ht` with the hash function `LyHt.Jenkins.hash` (UInt32), the size
rounding `LyHt.getFixedSize` and the load-factor tests inside `Ht.insert` / `Ht.remove`.  These theorems say the code as
translated is those definitions.
-/
namespace LyModel.Props.C17Fn
open LyModel LyModel.Generated LyModel.LyHt

/-- **The translated `lyht_hash` / `lyht_hash_multi` are the hash of the hash-table and dictionary models**, for every key
    shorter than 4 GiB, the NULL key part and `len == 0` included. -/
theorem gen_lyht_hash_is_ht_model (h : UInt32) (k : Bytes) (len : UInt64) (hk : k.length < 2 ^ 32) :
    Fn.lyht_hash k (UInt64.ofNat k.length) = Jenkins.hash k ∧
    Fn.lyht_hash_multi h (some k) (UInt64.ofNat k.length) = Jenkins.hashMulti h (some k) ∧
    Fn.lyht_hash_multi h none len = Jenkins.hashMulti h none :=
  ⟨Bridge.Hash.hash_eq k hk, Bridge.Hash.hash_multi_eq h k hk, Bridge.Hash.hash_multi_null h len⟩

example : Fn.lyht_hash [0x61, 0x80] 2 = Jenkins.hash [0x61, 0x80] ∧ Fn.lyht_hash [0x61, 0x80] 2 ≠ Fn.lyht_hash [0x61, 0x00] 2 := by
  decide +kernel

/-- **The translated `lyht_get_fixed_size` is the model's size rounding**, for every `uint32_t`. -/
theorem gen_fixed_size_is_model (n : UInt32) : Fn.lyht_get_fixed_size n = getFixedSize n :=
  Bridge.Ht.fixed_size_eq n

example : Fn.lyht_get_fixed_size 0 = 1 ∧ Fn.lyht_get_fixed_size 5 = 8 ∧ Fn.lyht_get_fixed_size 8 = 8 ∧
    Fn.lyht_get_fixed_size 0x80000001 = 0 := by decide +kernel

/-- **The translated load-factor tests decide as the model does.**  For a table with `used * 100 < 2^32` (below 42.9 million
    records; the C multiplies in `uint32_t`): after an insertion the translated statements leave `armed.resize` in `ht->resize`
    and ask for an enlargement exactly when `Ht.insert` enlarges; after a removal they ask for shrinking exactly when `Ht.remove`
    shrinks. -/
theorem gen_load_factor_tests_are_model {α : Type} (h : Ht α) (used size : UInt32) (rs : UInt16) (hu : h.used = used.toNat)
    (hs : h.size = size.toNat) (hr : h.resize = rs.toNat) (hov : used.toNat * 100 < 2 ^ 32) :
    (Fn.lyht_insert__grow used size rs).resize.toNat = h.armed.resize ∧
    ((Fn.lyht_insert__grow used size rs).ret = 1 ↔ (h.armed.resize = 2 ∧ (h.used * 100) / h.size ≥ LYHT_ENLARGE_PERCENTAGE)) ∧
    ((Fn.lyht_remove__shrink used size = 1) ↔ ((h.used * 100) / h.size < LYHT_SHRINK_PERCENTAGE ∧ h.size > LYHT_MIN_SIZE)) := by
  obtain ⟨a, b⟩ := Bridge.Ht.grow_eq h used size rs hu hs hr hov
  exact ⟨a, b, by rw [hu, hs]; exact Bridge.Ht.shrink_eq used size hov⟩

example : Fn.lyht_insert__grow 6 8 1 = ⟨1, 2⟩ ∧ Fn.lyht_insert__grow 5 8 2 = ⟨0, 2⟩ ∧ Fn.lyht_remove__shrink 3 16 = 1 ∧
    Fn.lyht_remove__shrink 1 8 = 0 := by decide +kernel

end LyModel.Props.C17Fn
