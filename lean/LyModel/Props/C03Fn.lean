import LyModel.Bridge.Utf8Check
import LyModel.Bridge.Utf8Get
import LyModel.Bridge.Utf8Len
import LyModel.Props.C03
/-!
# C03 — `ly_checkutf8` as TRANSLATED from ly_common.c (`tools/c2lean.py`, regenerated on every run)

`ly_checkutf8` (string store, path predicates, LYB) with its variadic helpers `ly_utf8_less` / `ly_utf8_greater` /
`ly_utf8_and_equal`, and `ly_getutf8` (the lexers): statements about the translated code.
-/
namespace LyModel.Props.C03Fn
open LyModel LyModel.Generated

/-- **The translated `ly_checkutf8` is the model** `Utf8.checkUtf8` the C03 theorems are about: return code and `*utf8_len`
    (left alone on `LY_EINVAL`) for every buffer and every `in_len`. -/
theorem gen_checkutf8_is_model (inp : Bytes) (in_len l0 : UInt64) :
    Fn.ly_checkutf8 inp in_len l0 = Bridge.Utf8.checkOut l0 (Utf8.checkUtf8 inp in_len.toNat) :=
  Bridge.Utf8.checkutf8_eq inp in_len l0

example : Fn.ly_checkutf8 [0xE2, 0x82, 0xAC] 3 99 = ⟨0, 3⟩ ∧ Fn.ly_checkutf8 [0xE2, 0x82, 0xAC] 2 99 = ⟨3, 99⟩ := by decide +kernel

/-- **The two translated validators agree** (verdict, and length on acceptance) on every C string whose lead byte is below `0xF0`
    except `EF BF BE` / `EF BF BF` — `utf8_validators_agree_partial` carried over to the code as translated. -/
theorem gen_validators_agree_partial (inp : Bytes) (in_len l0 : UInt64) (c0 : UInt32) (br : Option UInt64)
    (hz : ∀ i, in_len.toNat ≤ i → Utf8.rd inp i = 0) (hne : 0 < in_len.toNat) (hlead : (Utf8.rd inp 0).toNat < 240)
    (hnc : ¬ ((Utf8.rd inp 0).toNat = 0xEF ∧ (Utf8.rd inp 1).toNat = 0xBF ∧ 0xBE ≤ (Utf8.rd inp 2).toNat)) :
    ((Fn.ly_checkutf8 inp in_len l0).ret = 0 ↔ (Fn.ly_getutf8 inp c0 br).ret = 0) ∧
    ((Fn.ly_checkutf8 inp in_len l0).ret = 0 → (Fn.ly_checkutf8 inp in_len l0).utf8_len = UInt64.ofNat (Fn.ly_getutf8 inp c0 br).input_pos) := by
  have h := Props.C03.utf8_validators_agree_partial inp in_len.toNat hz hne hlead hnc
  rw [Bridge.Utf8.checkutf8_eq, Bridge.Utf8.getutf8_eq, h]
  cases hg : Utf8.getUtf8 inp with
  | none => simp [Bridge.Utf8.checkOut, Bridge.Utf8.getOut]
  | some p =>
    obtain ⟨c, n⟩ := p
    simp [Bridge.Utf8.checkOut, Bridge.Utf8.getOut]

/-- **F22 on the translated code**: `EF BF BE` passes the translated `ly_checkutf8` and is refused by the translated `ly_getutf8`. -/
theorem gen_validators_agree_fails :
    (Fn.ly_checkutf8 [0xEF, 0xBF, 0xBE] 3 0).ret = 0 ∧ (Fn.ly_getutf8 [0xEF, 0xBF, 0xBE] 0 none).ret = 3 := by decide +kernel

/-- **The translated `ly_utf8len` is the character count of the string store** (`Val.storeStr` checks the `length` restriction
    against `Val.utf8Len (s.length + 1) s`): for every byte string, with `bytes = strlen`. -/
theorem gen_utf8len_is_model (s : Bytes) (hs : s.length + 6 < 2 ^ 63) :
    Fn.ly_utf8len s (UInt64.ofNat s.length) = UInt64.ofNat (Val.utf8Len (s.length + 1) s) :=
  Bridge.Utf8.utf8len_eq s hs

example : Fn.ly_utf8len [0x61, 0xE2, 0x82, 0xAC, 0xC3, 0xA9] 6 = 3 ∧ Fn.ly_utf8len [0x61, 0x00, 0x62] 3 = 1 := by decide +kernel

end LyModel.Props.C03Fn
