import LyModel.Props.C04
import LyModel.Sib.TreeMkLemmas
import LyModel.Sib.RbRefine
/-!
# C04 — lists with several keys

The key of a list instance in the sibling-list model is the TUPLE of its key-leaf values in schema order (`Key.tup`; one key:
`Key.int` / `Key.str`), compared key by key — each key by its type's `sort` callback, the next key only when the stored
values are equal — as `rb_compare_lists` does.  `Inv`, `inv_reachable`, `find_iff_scan`, `insert_stable_sorted`, `insert_perm`
(Props/C04.lean) are stated for `Key` and rest on nothing but the order axioms below, so they hold for tuple keys as they
stand; the examples instantiate them with two- and three-key instances.  The white-box / API harness runs the same edit
scripts on libyang (`newlist2`, `newpath`, `findkeys` on schema S4: predicates in any order) and compares dumps and search
results with the model after every op.
-/
namespace LyModel.Props.C04Mk
open LyModel LyModel.Sib LyModel.Props.C04

/-- `rb_compare_lists(n1, n2) <= 0`, unfolded: decided by the first key whose stored values differ -/
theorem key_tuple_compare (a b : Atom) (as bs : List Atom) :
    (Key.tup (a :: as)).le (.tup (b :: bs)) = (if a = b then (Key.tup as).le (.tup bs) else a.le b) ∧
    (Key.tup []).le (.tup bs) = true ∧ (Key.tup (a :: as)).le (.tup []) = false := by
  refine ⟨?_, rfl, rfl⟩
  simp only [Key.le, lexAtoms]

/-- the order on keys — tuples included — is a total order: what every C04 theorem about sorted instances rests on -/
theorem key_order_total (a b : Key) : a.le b = true ∨ b.le a = true := Key.le_total a b
theorem key_order_trans (a b c : Key) : a.le b = true → b.le c = true → a.le c = true := Key.le_trans a b c
theorem key_order_antisymm (a b : Key) : a.le b = true → b.le a = true → a = b := Key.le_antisymm a b

/-- non-vacuity: ("b", 5) ≤ ("b", 7) by the second key, ("b", 7) ≤ ("c", -1) by the first, and NOT the other way round -/
example : (Key.tup [.str [98], .int 5]).le (.tup [.str [98], .int 7]) = true ∧
    (Key.tup [.str [98], .int 7]).le (.tup [.str [99], .int (-1)]) = true ∧
    (Key.tup [.str [99], .int (-1)]).le (.tup [.str [98], .int 7]) = false := by decide

/-- `lyd_new_list2` / `lyd_new_path` / `lyd_find_sibling_val` with key predicates: the key tuple (stored values in SCHEMA
    order, or the verdict "a value is invalid" / "not exactly the keys") is the same for every order the predicates
    `[k='v']…` are written in -/
theorem key_predicates_any_order (f : Forest) (e : SEnt) (ps ps' : List (String × Bytes)) (h : ps.Perm ps')
    (hn : (ps.map (·.1)).Nodup) : f.keysOf e ps = f.keysOf e ps' :=
  keysOf_perm f e ps ps' h hn

/-- a forest over one list `m3 { key "p q r"; p uint8, q string, r int32 }` -/
def mkF : Forest :=
  { ents := [⟨0, none, "m", "m3", "ls", "u8"⟩, ⟨1, some 0, "m", "p", "key", "u8"⟩, ⟨2, some 0, "m", "q", "key", "str"⟩,
             ⟨3, some 0, "m", "r", "key", "i32"⟩, ⟨4, some 0, "m", "v", "lf", "str"⟩],
    infos := [], lists := [], nextGid := 0, fixedChange := true }

/-- non-vacuity: predicates written `r, p, q` and `q, r, p` give the tuple (7, "a", -3) -/
example : (match mkF.keysOf ⟨0, none, "m", "m3", "ls", "u8"⟩ [("r", [45, 51]), ("p", [55]), ("q", [97])] with
           | .ok k _ => some k | _ => none) = some (.tup [.int 7, .str [97], .int (-3)]) ∧
    mkF.keysOf ⟨0, none, "m", "m3", "ls", "u8"⟩ [("r", [45, 51]), ("p", [55]), ("q", [97])] =
      mkF.keysOf ⟨0, none, "m", "m3", "ls", "u8"⟩ [("q", [97]), ("r", [45, 51]), ("p", [55])] :=
  ⟨by decide, key_predicates_any_order _ _ _ _ (by decide) (by decide)⟩

/-- under the invariant the instances of a system-ordered list stand in the order of their key tuples -/
theorem instances_sorted_by_key_tuple (S : Schema) (cx : Cx) (s : Sibs) (x : SRef) (hx : (S x).sorted = true)
    (h : Inv S cx s) : (block x s.nodes).Pairwise (fun a b => a.key.le b.key = true) := by
  refine (block_sorted S x hx _ h.sorted).imp ?_
  intro a b hab
  simpa [keyGt] using hab

/-! ## `inv_reachable`, `insert_stable_sorted`, `find_iff_scan` at tuple keys

schema `auS`: `⟨0,0⟩` a system-ordered list — here with the two keys (string, int32). -/

def mkOps : List Op :=
  [.insert ⟨1, some ⟨0, 0⟩, .tup [.str [98], .int 7]⟩, .insert ⟨2, some ⟨0, 2⟩, .str []⟩,
   .insert ⟨3, some ⟨0, 0⟩, .tup [.str [98], .int (-2)]⟩, .insert ⟨4, some ⟨0, 0⟩, .tup [.str [97], .int 100]⟩,
   .insert ⟨5, some ⟨0, 1⟩, .int 4⟩, .insert ⟨6, some ⟨0, 0⟩, .tup [.str [98], .int 5]⟩, .unlink 3,
   .insert ⟨7, some ⟨0, 0⟩, .tup [.str [], .int 0]⟩, .change 4 (.tup [.str [99], .int 0])]

theorem mkOps_ok : HistOk auS auCx true ⟨[], none⟩ mkOps := histOkB_sound (by decide)

def mkS1 : Sibs := runOps auS auCx true ⟨[], none⟩ mkOps

/-- the history — six two-key instances with equal first keys, a re-keyed one, an unlinked one, the hash table created on the
    way — ends canonical, the instances ordered ("", 0) < ("b", 5) < ("b", 7) < ("c", 0) -/
example : Inv auS auCx mkS1 ∧ mkS1.nodes.map (·.id) = [7, 6, 1, 4, 5, 2] ∧ mkS1.ht.map List.length = some 8 :=
  ⟨inv_reachable _ _ _ _ (inv_init _ _ (by decide)) mkOps_ok, by decide, by decide⟩

theorem mkS1_inv : Inv auS auCx mkS1 := inv_reachable _ _ _ _ (inv_init _ _ (by decide)) mkOps_ok

/-- `insert_stable_sorted` with a tuple: ("b", 6) goes between ("b", 5) and ("b", 7) — decided by the SECOND key -/
example : (insertNode auS auCx mkS1 ⟨20, some ⟨0, 0⟩, .tup [.str [98], .int 6]⟩).nodes =
      mkS1.nodes.takeWhile (fun e => nle auS e ⟨20, some ⟨0, 0⟩, .tup [.str [98], .int 6]⟩) ++
        ⟨20, some ⟨0, 0⟩, .tup [.str [98], .int 6]⟩ :: mkS1.nodes.dropWhile (fun e => nle auS e ⟨20, some ⟨0, 0⟩, .tup [.str [98], .int 6]⟩) ∧
    (insertNode auS auCx mkS1 ⟨20, some ⟨0, 0⟩, .tup [.str [98], .int 6]⟩).nodes.map (·.id) = [7, 6, 20, 1, 4, 5, 2] :=
  ⟨insert_stable_sorted _ _ _ _ mkS1_inv (newOkB_sound (by decide)), by decide⟩

/-- `find_iff_scan` with a tuple: through the hash table (record under the hash of ALL keys) = by scan; a tuple that differs
    in the second key only is not found by either -/
example : findFirst auS auCx mkS1 ⟨0, some ⟨0, 0⟩, .tup [.str [98], .int 7]⟩ = findScan auS mkS1.nodes ⟨0, some ⟨0, 0⟩, .tup [.str [98], .int 7]⟩ ∧
    findFirst auS auCx mkS1 ⟨0, some ⟨0, 0⟩, .tup [.str [98], .int 7]⟩ = some 1 ∧
    findFirst auS auCx mkS1 ⟨0, some ⟨0, 0⟩, .tup [.str [98], .int 8]⟩ = findScan auS mkS1.nodes ⟨0, some ⟨0, 0⟩, .tup [.str [98], .int 8]⟩ ∧
    findScan auS mkS1.nodes ⟨0, some ⟨0, 0⟩, .tup [.str [98], .int 8]⟩ = none :=
  ⟨find_iff_scan _ _ _ _ mkS1_inv (uniqMatchB_sound (by decide)), by decide,
   find_iff_scan _ _ _ _ mkS1_inv (uniqMatchB_sound (by decide)), by decide⟩

example : (block ⟨0, 0⟩ mkS1.nodes).Pairwise (fun a b => a.key.le b.key = true) :=
  instances_sorted_by_key_tuple auS auCx mkS1 ⟨0, 0⟩ rfl mkS1_inv

end LyModel.Props.C04Mk
