import LyModel.Props.C15
import LyModel.Path.LemmasTyped
import LyModel.Path.LemmasCreate
/-!
# C15 with typed keys — predicate values are values of the key's type, not text

`ly_path_compile_predicate` stores the Literal / Number of a `[key=…]` / `[.=…]` predicate through the type of the key
leaf / leaf-list and `ly_path_eval_partial` compares stored values; `lyd_path` prints canonical strings; `lyd_new_path`
creates key leaves from the stored values (`LyModel/Path/Typed.lean`).  Statements only; lemmas are in
`LyModel/Path/LemmasTyped.lean`.  A tree given to the typed functions holds *value keys* (canonical string; for a union
value that its canonical string does not identify: canonical string, NUL, member index).
-/
namespace LyModel.Props.C15Typed
open LyModel LyModel.Path LyModel.Props.C15

/-- verdict of a failed call -/
def errOf {α : Type} : Except Err α → Option Err
  | .error e => some e
  | .ok _ => none

theorem toOption_some {ε α : Type} {x : Except ε α} {a : α} (h : x.toOption = some a) : x = .ok a := by
  cases x with
  | error e => cases h
  | ok b => simp [Except.toOption] at h; rw [h]

/-! ## the types -/

/-- **typed_canon_idempotent.** Every modelled non-union type — integers with ranges, decimal64, boolean, enumeration, bits,
    strings with length / patterns, identityref (anything that satisfies the plug-in laws `Val.MLaws`, proved for them in C03) — is
    canonically idempotent as a path type: the value key of a stored value is stored as that value again. -/
theorem typed_canon_idempotent (p : Val.Plug) (h : Val.MLaws p) : (KTy.ofPlug p).Idem :=
  KTy.ofPlug_idem h

/-- int8 with the range `-128..-100 | 5..20`, and `bits { bit b1; bit b2; bit b3; }` -/
def exInt : Val.Ty := .int .int8 []
def exBits : Val.Ty := .bits [⟨[98, 49], 0⟩, ⟨[98, 50], 1⟩, ⟨[98, 51], 2⟩]
def tInt : KTy := KTy.ofPlug (Val.MTy.base exInt).plug
def tBits : KTy := KTy.ofPlug (Val.MTy.base exBits).plug

theorem tInt_idem : tInt.Idem :=
  typed_canon_idempotent _ (Val.mlaws (.base exInt) (by simp only [Val.MTy.WF, exInt, Val.Ty.WF, Val.PartsWF]))
theorem tBits_idem : tBits.Idem :=
  typed_canon_idempotent _ (Val.mlaws (.base exBits) ⟨by decide, by decide, by decide⟩)

/-- non-vacuity: `007` and `+7` are stored as `7`, which is stored as itself; `b3  b1` as `b1 b3` -/
example : tInt.store [48, 48, 55] = some [55] ∧ tInt.store [43, 55] = some [55] ∧ tInt.store [55] = some [55] ∧
    tBits.store [98, 51, 32, 32, 98, 49] = some [98, 49, 32, 98, 51] ∧ tBits.store [98, 49, 32, 98, 51] = some [98, 49, 32, 98, 51] := by
  decide +kernel

/-- the union of finding F412: `union { type string { length 1; } type int16; }` -/
def f412U : List Val.Plug := [(Val.MTy.base (.str [(1, 1)])).plug, (Val.MTy.base (.int .int16 [])).plug]
def tF412 : KTy := KTy.ofUnion f412U

/-- `+1` is stored by int16 (member 1) with the canonical string `1`, which the string member stores as ANOTHER value: the value key
    is `1`, NUL, `1`.  `1` itself is the string member's value with the plain key `1`. -/
theorem tF412_keys : tF412.store [43, 49] = some [49, 0, 49] ∧ tF412.store [49] = some [49] ∧ canonOfKey [49, 0, 49] = [49] := by
  decide +kernel

/-- **union_canon_idem_fails** (path form of F412): for unions the canonical string of a stored value (what `lyd_path` prints) is NOT
    always stored as that value again, although it is for every member. -/
theorem union_canon_idem_fails : ¬ ∀ ms : List Val.Plug, (∀ m ∈ ms, Val.MLaws m) →
    ∀ s k, (KTy.ofUnion ms).store s = some k → (KTy.ofUnion ms).store (canonOfKey k) = some k := by
  intro h
  have hw : ∀ m ∈ f412U, Val.MLaws m := by
    intro m hm
    simp only [f412U, List.mem_cons, List.mem_nil_iff, or_false] at hm
    rcases hm with rfl | rfl
    · exact Val.mlaws _ trivial
    · exact Val.mlaws _ (by simp only [Val.MTy.WF, Val.Ty.WF, Val.PartsWF])
  have := h f412U hw [43, 49] [49, 0, 49] tF412_keys.1
  rw [tF412_keys.2.2, show (KTy.ofUnion f412U).store [49] = some [49] from tF412_keys.2.1] at this
  exact absurd this (by decide)

/-! ## a node's path identifies the node -/

/-- **path_identifies_typed** (full statement): for every node of a tree of stored values — chain addressable, names identifiers,
    canonical strings with a literal form (`ChainOK` of the tree as `lyd_get_value` shows it), every predicate value a stored value
    of its type — `lyd_find_path` applied to the node's `lyd_path` returns that node.  FALSE for the code: finding F460 (F412). -/
def PathIdentifiesTyped : Prop :=
  ∀ (sch : List TSNode) (f : Forest) (a : Addr) (ls ls' : List Level),
    ChainOK (TSNode.eraseList sch) (DNode.canonForest f) a ls' → levels f a = some ls →
    ValuesOK (fun t v => ∃ s, t.store s = some v) sch ls →
    ∃ p, pathOfT f a = some p ∧ findPathT sch f p = .ok a

/-- F460 witness: `list l { key k; leaf k { type union { type string { length 1; } type int16; } } }` with the one entry `k = +1` -/
def f460SK : TSNode := .mk [109, 97] [107] (.leaf true) (some tF412) []
def f460SL : TSNode := .mk [109, 97] [108] (.list true) none [f460SK]
def f460Schema : List TSNode := [f460SL]
def f460K : DNode := .mk [109, 97] [107] (.leaf true) [49, 0, 49] []
def f460L : DNode := .mk [109, 97] [108] (.list true) [] [f460K]
def f460Tree : Forest := [f460L]
def f460Levels : List Level := [⟨f460Tree, 0, f460L, none⟩]
def f460CLevels : List Level := [⟨DNode.canonForest f460Tree, 0, (DNode.canonForest f460Tree)[0]!, none⟩]

/-- the printed path is `/ma:l[k='1']`; the literal `1` is stored by the string member, the entry holds the int16 value: not found -/
theorem f460_run : pathOfT f460Tree [0] = some [47, 109, 97, 58, 108, 91, 107, 61, 39, 49, 39, 93] ∧
    errOf (findPathT f460Schema f460Tree [47, 109, 97, 58, 108, 91, 107, 61, 39, 49, 39, 93]) = some .notFound := by
  decide +kernel

theorem f460_chainOK : ChainOK (TSNode.eraseList f460Schema) (DNode.canonForest f460Tree) [0] f460CLevels :=
  ⟨rfl, by decide, by decide +kernel,
    fun l hl => Level.addressable_of_check l (List.all_eq_true.mp (by decide +kernel) l hl),
    conforms_of_check _ _ (by decide +kernel)⟩

theorem path_identifies_typed_fails : ¬ PathIdentifiesTyped := by
  intro h
  obtain ⟨p, hp, hf⟩ := h f460Schema f460Tree [0] f460Levels f460CLevels f460_chainOK rfl
    ⟨f460SL, rfl,
      fun c _ k hk => by
        have e : keyLeaves f460L.children = [f460K] := rfl
        rw [e] at hk
        simp only [List.mem_cons, List.not_mem_nil, or_false] at hk
        subst hk
        exact ⟨f460SK, tF412, rfl, rfl, [43, 49], tF412_keys.1⟩,
      fun hk => by simp [f460L, DNode.kind] at hk,
      trivial⟩
  rw [f460_run.1] at hp
  cases hp
  have := f460_run.2
  rw [hf] at this
  cases this

/-- **path_identifies_typed_partial.** For every node of a tree without tagged union values (`canonForest f = f`: every value is
    identified by its canonical string) whose chain is `ChainOK` and whose predicate values are stored values of canonically
    idempotent types (`typed_canon_idempotent`: every modelled type but union): `lyd_find_path(lyd_path(node))` returns the node,
    and `lyd_new_path` with that path and ANY value reports `LY_EEXIST`. -/
theorem path_identifies_typed_partial (sch : List TSNode) (f : Forest) (a : Addr) (ls : List Level)
    (hplain : DNode.canonForest f = f) (h : ChainOK (TSNode.eraseList sch) f a ls) (hv : ValuesOK IdemStored sch ls) :
    ∃ p, pathOfT f a = some p ∧ findPathT sch f p = .ok a ∧ ∀ v, newPathT sch f p v = .error .exists := by
  obtain ⟨p, hp, hhead, hc⟩ := h.compiled true
  obtain ⟨_, hp', _, hc'⟩ := h.compiled false
  rw [hp] at hp'
  cases hp'
  have hself : ValuesOK SelfStored sch ls := ValuesOK.mono (fun _ _ h => h.self) ls sch hv
  have hs := storeSteps_levels ls sch hself
  have he := evalSteps_levels a f none ls h.levels h.addressable
  have hlen : 0 < ls.length := by
    cases hls : ls with
    | nil => exact absurd hls h.ne
    | cons _ _ => simp
  refine ⟨p, by simp only [pathOfT, hplain, hp], ?_, ?_⟩
  · simp [findPathT, compilePathT, hc, hs, evalPath, he, hlen]
  · intro v
    have hcf : ∀ w, checkFind w 0 (ls.map cstepOf) = .ok (ls.map cstepOf, none) :=
      fun w => checkFind_levels w ls 0 (conforms_hasKey ls _ h.conforms)
    have hex : ∀ w, newPathC f (ls.map cstepOf) w = .error .exists := by
      intro w
      simp [newPathC, hcf w, he, hlen]
    have hlu := lastUse_levels ls sch hself
    simp only [newPathT, hhead, compilePathT, hc', hs]
    cases hl : lastUse sch (ls.map cstepOf) with
    | ignored => simp [hex]
    | atCheck s => rw [hl] at hlu; exact absurd hlu id
    | atCreate s =>
      simp only
      cases storeVia s v with
      | ok key => simp [hex]
      | error e => simp [hex]

/-- a list with the keys `address-family` (int8) and `address` (bits) — one key name a prefix of the other — below a container -/
def afSK1 : TSNode := .mk [109, 97] [97, 100, 100, 114, 101, 115, 115, 45, 102, 97, 109, 105, 108, 121] (.leaf true) (some tInt) []
def afSK2 : TSNode := .mk [109, 97] [97, 100, 100, 114, 101, 115, 115] (.leaf true) (some tBits) []
def afSV : TSNode := .mk [109, 97] [118] (.leaf false) (some tInt) []
def afSM : TSNode := .mk [109, 97] [109] (.list true) none [afSK1, afSK2, afSV]
def afSC : TSNode := .mk [109, 97] [99] .inner none [afSM]
def afSchema : List TSNode := [afSC]
/-- two entries: (7, `b1 b3`) and (7, `b1`), the first with a leaf `v = 42` -/
def afK1 : DNode := .mk [109, 97] [97, 100, 100, 114, 101, 115, 115, 45, 102, 97, 109, 105, 108, 121] (.leaf true) [55] []
def afK2 : DNode := .mk [109, 97] [97, 100, 100, 114, 101, 115, 115] (.leaf true) [98, 49, 32, 98, 51] []
def afV : DNode := .mk [109, 97] [118] (.leaf false) [52, 50] []
def afE1 : DNode := .mk [109, 97] [109] (.list true) [] [afK1, .mk [109, 97] [97, 100, 100, 114, 101, 115, 115] (.leaf true) [98, 49] []]
def afE2 : DNode := .mk [109, 97] [109] (.list true) [] [afK1, afK2, afV]
def afC : DNode := .mk [109, 97] [99] .inner [] [afE1, afE2]
def afTree : Forest := [afC]
def afLevels : List Level := [⟨afTree, 0, afC, none⟩, ⟨[afE1, afE2], 1, afE2, some [109, 97]⟩, ⟨[afK1, afK2, afV], 2, afV, some [109, 97]⟩]

/-- `/ma:c/m[address-family='7'][address='b1 b3']/v` -/
def afPath : Bytes :=
  [47, 109, 97, 58, 99, 47, 109, 91, 97, 100, 100, 114, 101, 115, 115, 45, 102, 97, 109, 105, 108, 121, 61, 39, 55, 39, 93,
   91, 97, 100, 100, 114, 101, 115, 115, 61, 39, 98, 49, 32, 98, 51, 39, 93, 47, 118]

theorem af_chainOK : ChainOK (TSNode.eraseList afSchema) afTree [0, 1, 2] afLevels :=
  ⟨rfl, by decide, by decide +kernel,
    fun l hl => Level.addressable_of_check l (List.all_eq_true.mp (by decide +kernel) l hl),
    conforms_of_check _ _ (by decide +kernel)⟩

theorem af_valuesOK : ValuesOK IdemStored afSchema afLevels := by
  refine ⟨afSC, rfl, fun c hc => by simp [afC, DNode.kind] at hc, fun hc => by simp [afC, DNode.kind] at hc, ?_⟩
  refine ⟨afSM, rfl, ?_, fun hc => by simp [afE2, DNode.kind] at hc, ?_⟩
  · intro c _ k hk
    have e : keyLeaves afE2.children = [afK1, afK2] := rfl
    rw [e] at hk
    simp only [List.mem_cons, List.not_mem_nil, or_false] at hk
    rcases hk with rfl | rfl
    · exact ⟨afSK1, tInt, rfl, rfl, tInt_idem, [48, 48, 55], by decide +kernel⟩
    · exact ⟨afSK2, tBits, rfl, rfl, tBits_idem, [98, 51, 32, 98, 49], by decide +kernel⟩
  · exact ⟨afSV, rfl, fun c hc => by simp [afV, DNode.kind] at hc, fun hc => by simp [afV, DNode.kind] at hc, trivial⟩

/-- non-vacuity: the leaf `v` below the second entry of `afTree` -/
example : pathOfT afTree [0, 1, 2] = some afPath ∧ findPathT afSchema afTree afPath = .ok [0, 1, 2] ∧
    ∀ v, newPathT afSchema afTree afPath v = .error .exists := by
  obtain ⟨p, hp, hf, hn⟩ := path_identifies_typed_partial afSchema afTree [0, 1, 2] afLevels rfl af_chainOK af_valuesOK
  have : pathOfT afTree [0, 1, 2] = some afPath := by decide +kernel
  rw [this] at hp
  cases hp
  exact ⟨rfl, hf, hn⟩

/-! ## non-canonical literals -/

/-- **new_path_typed_canonical.** Let `q` be ANY path with the structure of the printed path of an existing node (it compiles, against
    the schema without types, to segments `cs`) whose predicate literals — however they are spelled: `007`, `+7`, `b3  b1`, a Number
    token — are stored by the types of their keys as the values of that node's chain.  Then `lyd_find_path(q)` returns the node and
    `lyd_new_path(q, any value)` reports `LY_EEXIST` instead of creating a second instance under a different spelling. -/
theorem new_path_typed_canonical (sch : List TSNode) (f : Forest) (a : Addr) (ls : List Level)
    (h : ChainOK (TSNode.eraseList sch) f a ls) (hv : ValuesOK SelfStored sch ls) (q : Bytes) (cs : List CStep)
    (hq : ∀ single, compilePath (TSNode.eraseList sch) single q = .ok cs) (hs : storeSteps sch cs = .ok (ls.map cstepOf)) :
    findPathT sch f q = .ok a ∧ (q.head? = some 47 → ∀ v, newPathT sch f q v = .error .exists) := by
  have he := evalSteps_levels a f none ls h.levels h.addressable
  have hlen : 0 < ls.length := by
    cases hls : ls with
    | nil => exact absurd hls h.ne
    | cons _ _ => simp
  refine ⟨by simp [findPathT, compilePathT, hq true, hs, evalPath, he, hlen], ?_⟩
  intro hhead v
  have hcf : ∀ w, checkFind w 0 (ls.map cstepOf) = .ok (ls.map cstepOf, none) :=
    fun w => checkFind_levels w ls 0 (conforms_hasKey ls _ h.conforms)
  have hex : ∀ w, newPathC f (ls.map cstepOf) w = .error .exists := by
    intro w
    simp [newPathC, hcf w, he, hlen]
  have hlu := lastUse_levels ls sch hv
  simp only [newPathT, hhead, compilePathT, hq false, hs]
  cases hl : lastUse sch (ls.map cstepOf) with
  | ignored => simp [hex]
  | atCheck s => rw [hl] at hlu; exact absurd hlu id
  | atCreate s =>
    simp only
    cases storeVia s v with
    | ok key => simp [hex]
    | error e => simp [hex]

/-- `/ma:c/m[address="b3  b1"][address-family=007]/v`: the keys in the other order, the bits in the other order with two blanks
    and the other quote, the integer as a Number token with leading zeros -/
def afPathAlt : Bytes :=
  [47, 109, 97, 58, 99, 47, 109, 91, 97, 100, 100, 114, 101, 115, 115, 61, 34, 98, 51, 32, 32, 98, 49, 34, 93,
   91, 97, 100, 100, 114, 101, 115, 115, 45, 102, 97, 109, 105, 108, 121, 61, 48, 48, 55, 93, 47, 118]

/-- non-vacuity: the respelled, reordered path finds the same leaf and cannot create it again; in an empty tree it creates the entry
    with the CANONICAL key values, in schema order -/
example : findPathT afSchema afTree afPathAlt = .ok [0, 1, 2] ∧ errOf (newPathT afSchema afTree afPathAlt [52, 50]) = some .exists ∧
    (newPathT afSchema [] afPathAlt [43, 52, 50]).toOption.map (fun c => (c.parent, c.chain.flat 0)) =
      some ([], [⟨[109, 97], [99], .inner, [], 0⟩, ⟨[109, 97], [109], .list true, [], 1⟩,
        ⟨[109, 97], [97, 100, 100, 114, 101, 115, 115, 45, 102, 97, 109, 105, 108, 121], .leaf true, [55], 2⟩,
        ⟨[109, 97], [97, 100, 100, 114, 101, 115, 115], .leaf true, [98, 49, 32, 98, 51], 2⟩,
        ⟨[109, 97], [118], .leaf false, [52, 50], 2⟩]) := by
  decide +kernel

/-- the segments `afPathAlt` compiles to against the schema without types: predicate values still as written -/
def afAltSteps : List CStep :=
  [⟨[109, 97], [99], .inner, [], .none⟩,
   ⟨[109, 97], [109], .list true, [[97, 100, 100, 114, 101, 115, 115, 45, 102, 97, 109, 105, 108, 121], [97, 100, 100, 114, 101, 115, 115]],
     .keys [([97, 100, 100, 114, 101, 115, 115], [98, 51, 32, 32, 98, 49]),
            ([97, 100, 100, 114, 101, 115, 115, 45, 102, 97, 109, 105, 108, 121], [48, 48, 55])]⟩,
   ⟨[109, 97], [118], .leaf false, [], .none⟩]

/-- non-vacuity: the hypotheses of `new_path_typed_canonical` at `afPathAlt` … -/
theorem afAlt_hyps : (∀ single, (compilePath (TSNode.eraseList afSchema) single afPathAlt).toOption = some afAltSteps) ∧
    (storeSteps afSchema afAltSteps).toOption = some
      [⟨[109, 97], [99], .inner, [], .none⟩,
       ⟨[109, 97], [109], .list true, [[97, 100, 100, 114, 101, 115, 115, 45, 102, 97, 109, 105, 108, 121], [97, 100, 100, 114, 101, 115, 115]],
         .keys [([97, 100, 100, 114, 101, 115, 115], [98, 49, 32, 98, 51]),
                ([97, 100, 100, 114, 101, 115, 115, 45, 102, 97, 109, 105, 108, 121], [55])]⟩,
       ⟨[109, 97], [118], .leaf false, [], .none⟩] := by
  refine ⟨fun single => ?_, ?_⟩
  · cases single <;> decide +kernel
  · decide +kernel

/-- `/ma:c/m[address-family=007][address="b3  b1"]/v`: the printed key order, both values respelled -/
def afPathAlt2 : Bytes :=
  [47, 109, 97, 58, 99, 47, 109, 91, 97, 100, 100, 114, 101, 115, 115, 45, 102, 97, 109, 105, 108, 121, 61, 48, 48, 55, 93,
   91, 97, 100, 100, 114, 101, 115, 115, 61, 34, 98, 51, 32, 32, 98, 49, 34, 93, 47, 118]
def afAlt2Steps : List CStep :=
  [⟨[109, 97], [99], .inner, [], .none⟩,
   ⟨[109, 97], [109], .list true, [[97, 100, 100, 114, 101, 115, 115, 45, 102, 97, 109, 105, 108, 121], [97, 100, 100, 114, 101, 115, 115]],
     .keys [([97, 100, 100, 114, 101, 115, 115, 45, 102, 97, 109, 105, 108, 121], [48, 48, 55]),
            ([97, 100, 100, 114, 101, 115, 115], [98, 51, 32, 32, 98, 49])]⟩,
   ⟨[109, 97], [118], .leaf false, [], .none⟩]

/-- non-vacuity: `new_path_typed_canonical` instantiated at the respelled path — it finds `v` and cannot create it again -/
example : findPathT afSchema afTree afPathAlt2 = .ok [0, 1, 2] ∧ ∀ v, newPathT afSchema afTree afPathAlt2 v = .error .exists := by
  have h := new_path_typed_canonical afSchema afTree [0, 1, 2] afLevels af_chainOK
    (ValuesOK.mono (fun _ _ h => h.self) _ _ af_valuesOK) afPathAlt2 afAlt2Steps
    (fun single => toOption_some (by cases single <;> decide +kernel)) (toOption_some (by decide +kernel))
  exact ⟨h.1, h.2 (by decide)⟩

/-! ## create, then find -/

/-- **new_path_then_find.** For EVERY path `q` that compiles (with typed predicates) to well-formed segments `cs` — no duplicate-instance
    nodes, every keyed list with key predicates whose names are distinct keys of the list (`stepWF`: the lemma about compiled key lists),
    every leaf-list with its value predicate, a key leaf only below the list that has it as a predicate (`chainWF`) — however the values
    are spelled: if `lyd_new_path2(NULL, ctx, q, v)` succeeds, it creates the whole chain at the top level, `lyd_find_path` with the same
    path on the created tree finds a node, and a second `lyd_new_path(created, q, v)` reports `LY_EEXIST`. -/
theorem new_path_then_find (sch : List TSNode) (q v : Bytes) (cs : List CStep) (hc : ∀ single, compilePathT sch single q = .ok cs)
    (hwf : chainWF cs = true) (c : Created) (h : newPathT sch [] q v = .ok c) :
    c.parent = [] ∧ (∃ a, findPathT sch [c.chain] q = .ok a) ∧ newPathT sch [c.chain] q v = .error .exists := by
  have hall := chainWF_all cs hwf
  -- what the first call did: `newPathC [] cs k` for the key `k` of the stored value (or no value)
  have hk : ∃ k, newPathC [] cs k = .ok c ∧ newPathT sch [c.chain] q v = newPathC [c.chain] cs k := by
    simp only [newPathT, hc false] at h ⊢
    split at h
    · cases h
    · simp only [List.isEmpty_cons, Bool.false_and, Bool.false_eq_true, if_false]
      cases hl : lastUse sch cs with
      | ignored => rw [hl] at h; exact ⟨[], h, rfl⟩
      | atCheck s =>
        rw [hl] at h
        simp only [checkFind_chainWF [] cs 0 hall] at h ⊢
        cases hs : storeVia s v with
        | error e => rw [hs] at h; cases h
        | ok key => rw [hs] at h; exact ⟨key, h, rfl⟩
      | atCreate s =>
        rw [hl] at h
        simp only at h ⊢
        cases hs : storeVia s v with
        | ok key => rw [hs] at h; exact ⟨key, h, rfl⟩
        | error e =>
          rw [hs] at h
          simp only at h
          split at h <;> cases h
  obtain ⟨k, hk1, hk2⟩ := hk
  rw [newPathC_empty k cs hwf] at hk1
  cases hn : createChain k cs with
  | none => rw [hn] at hk1; cases hk1
  | some n =>
    rw [hn] at hk1
    cases hk1
    obtain ⟨hex, a, ha⟩ := newPathC_created k cs n hwf hn
    exact ⟨rfl, ⟨a, by simp only [findPathT, hc true, ha]⟩, by rw [hk2]; exact hex⟩

/-- non-vacuity: the respelled, reordered path `afPathAlt` in an empty tree, then on what it created — and the same for the key leaf
    `/ma:c/m[address-family='+7'][address='b1']/address` -/
example : ∃ c, newPathT afSchema [] afPathAlt [43, 52, 50] = .ok c ∧ c.parent = [] ∧
    (∃ a, findPathT afSchema [c.chain] afPathAlt = .ok a) ∧ newPathT afSchema [c.chain] afPathAlt [43, 52, 50] = .error .exists := by
  cases hn : newPathT afSchema [] afPathAlt [43, 52, 50] with
  | error e =>
    have : (newPathT afSchema [] afPathAlt [43, 52, 50]).toOption.isSome = true := by decide +kernel
    rw [hn] at this; cases this
  | ok c =>
    have hcs : ∀ single, ∃ cs, compilePathT afSchema single afPathAlt = .ok cs ∧ chainWF cs = true ∧
        compilePathT afSchema true afPathAlt = .ok cs ∧ compilePathT afSchema false afPathAlt = .ok cs := by
      intro single
      cases hcp : compilePathT afSchema true afPathAlt with
      | error e =>
        have : (compilePathT afSchema true afPathAlt).toOption.isSome = true := by decide +kernel
        rw [hcp] at this; cases this
      | ok cs =>
        have h1 : (compilePathT afSchema true afPathAlt).toOption.map chainWF = some true := by decide +kernel
        have h2 : (compilePathT afSchema false afPathAlt).toOption = (compilePathT afSchema true afPathAlt).toOption := by decide +kernel
        rw [hcp] at h1 h2
        have hf : compilePathT afSchema false afPathAlt = .ok cs := toOption_some (by simpa [Except.toOption] using h2)
        refine ⟨cs, by cases single <;> assumption, by simpa [Except.toOption] using h1, rfl, hf⟩
    obtain ⟨cs, _, hwf, ht, hf⟩ := hcs true
    exact ⟨c, rfl, new_path_then_find afSchema afPathAlt [43, 52, 50] cs (fun single => by cases single <;> assumption) hwf c hn⟩

/-! ## key names are whole names; key order is free -/

/-- **predicate_key_names_exact.** The duplicate-key test of `ly_path_check_predicate` (`strncmp` over the length of the new name,
    then "the earlier name ends here") reports a duplicate exactly when the two names are EQUAL: key names that are prefixes of one
    another (`address` / `address-family`) are different keys, in either order; and `ly_path_compile_predicate` resolves a key
    NameTest to the child with exactly that local name. -/
theorem predicate_key_names_exact (earlier name : Bytes) (he : ∀ c ∈ earlier, isIdentByte c = true) :
    (dupKey earlier name = true ↔ earlier = name) ∧
    ∀ (s : SNode) (v : PVal) (ln b : Bytes), compileKey s name v = .ok (ln, b) →
      ln = localName name ∧ ∃ ks ∈ s.children, ks.name = ln ∧ ks.kind = .leaf true :=
  ⟨dupKey_iff_eq earlier name he, fun _ _ _ _ h => compileKey_exact h⟩

/-- non-vacuity: `address-family` then `address`, and the other way round, are accepted; `address` twice is a duplicate; the parser
    takes `[address-family='7'][address='b1']` -/
example :
    dupKey [97, 100, 100, 114, 101, 115, 115, 45, 102, 97, 109, 105, 108, 121] [97, 100, 100, 114, 101, 115, 115] = false ∧
    dupKey [97, 100, 100, 114, 101, 115, 115] [97, 100, 100, 114, 101, 115, 115, 45, 102, 97, 109, 105, 108, 121] = false ∧
    dupKey [97, 100, 100, 114, 101, 115, 115] [97, 100, 100, 114, 101, 115, 115] = true ∧
    ((tokenize [91, 97, 100, 100, 114, 101, 115, 115, 45, 102, 97, 109, 105, 108, 121, 61, 39, 55, 39, 93,
        91, 97, 100, 100, 114, 101, 115, 115, 61, 39, 98, 49, 39, 93]).bind parsePred).isSome = true := by
  decide +kernel

/-- **key_order_free.** `ly_path` wants every key once and leaves the order to the caller: two compiled paths that differ in the
    order of the key predicates of one list segment select the same node (`ly_path_eval_partial`), and — key names being distinct —
    `lyd_create_list` creates the same entry, its key leaves in schema order. -/
theorem key_order_free (c : CStep) (kv kv' : List (Bytes × Bytes)) (hp : kv.Perm kv') (pre post : List CStep) (f : Forest) :
    evalSteps f (pre ++ { c with pred := .keys kv } :: post) = evalSteps f (pre ++ { c with pred := .keys kv' } :: post) ∧
    ((kv.map (·.1)).Nodup → ∀ v sub, createNode v { c with pred := .keys kv } sub = createNode v { c with pred := .keys kv' } sub) :=
  ⟨evalSteps_keys_perm c kv kv' hp post pre f, fun hnd v sub => createNode_keys_perm v c kv kv' hp hnd sub⟩

/-- non-vacuity: the two orders of the keys of `m` in `afTree` -/
example : ∀ single, (compilePathT afSchema single afPath).toOption.map (evalSteps afTree) = some ([0, 1, 2], 3) ∧
    (compilePathT afSchema single afPathAlt).toOption.map (evalSteps afTree) = some ([0, 1, 2], 3) := by
  intro single
  cases single <;> decide +kernel

end LyModel.Props.C15Typed
