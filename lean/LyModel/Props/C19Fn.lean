import LyModel.Bridge.HashBv
import LyModel.Ctx.JenkinsLemmas
/-!
# C19 (and C17) — the hash function as TRANSLATED from hash_table.c

`Generated.Fn.lyht_hash_multi` / `Generated.Fn.lyht_hash` are rewritten from the C source of libyang on every run by
`tools/c2lean.py`; the theorems below are re-checked against them.  They say that the code as translated IS the hash
function the C19 theorems (context hash `Ctx.Jenkins`) and the C17 hash-table model (`LyHt.Jenkins`) are proved about.
-/
namespace LyModel.Props.C19Fn
open LyModel LyModel.Generated

/-- **The translated `lyht_hash` is the C19 model.**  For every key (shorter than 4 GiB) `lyht_hash(key, len)` as
    translated from the C source computes `Ctx.Jenkins.hash key`. -/
theorem gen_lyht_hash_is_model (k : Bytes) (hk : k.length < 2 ^ 32) :
    (Fn.lyht_hash k (UInt64.ofNat k.length)).toBitVec = Ctx.Jenkins.hash k := by
  rw [Bridge.Hash.hash_eq k hk, Bridge.Hash.hash_bv]

/-- non-vacuity: the key `"yang"` -/
example : (Fn.lyht_hash [0x79, 0x61, 0x6e, 0x67] 4).toBitVec = Ctx.Jenkins.hash [0x79, 0x61, 0x6e, 0x67] ∧
    Fn.lyht_hash [0x79, 0x61, 0x6e, 0x67] 4 ≠ Fn.lyht_hash [0x79, 0x61, 0x6e, 0xe7] 4 := by decide +kernel

/-- **One `lyht_hash_multi` call on a key part** is `Ctx.Jenkins.multi`: absorbing the bytes (sign-extended `char`s),
    or the final avalanche when the part is empty — the quirk that makes `lyht_hash("", 0)` finish twice. -/
theorem gen_lyht_hash_multi_is_model (h : UInt32) (k : Bytes) (hk : k.length < 2 ^ 32) :
    (Fn.lyht_hash_multi h (some k) (UInt64.ofNat k.length)).toBitVec = Ctx.Jenkins.multi h.toBitVec k := by
  rw [Bridge.Hash.hash_multi_eq h k hk, Bridge.Hash.multi_bv]

example : Fn.lyht_hash_multi 7 (some [0x80]) 1 ≠ Fn.lyht_hash_multi 7 (some [0x00]) 1 := by decide +kernel

/-- **NULL key part**: the translated code runs the final avalanche whatever `len` is. -/
theorem gen_lyht_hash_multi_null (h : UInt32) (len : UInt64) :
    (Fn.lyht_hash_multi h none len).toBitVec = Ctx.Jenkins.finish h.toBitVec := by
  rw [Bridge.Hash.hash_multi_null]
  simp [LyHt.Jenkins.hashMulti, Bridge.Hash.fin_bv]

example : Fn.lyht_hash_multi 1 none 0 ≠ 1 := by decide +kernel

end LyModel.Props.C19Fn
