import LyModel.Props.C02Full
import LyModel.Valid.XpLemmas
import LyModel.Valid.XpWitness
import LyModel.Valid.XpTag
import LyModel.Valid.XpCfg
import LyModel.Valid.XpWhenSimple
import LyModel.Valid.XpWhenIff
import LyModel.Valid.XpLemmasW
import LyModel.Valid.XpWhenDec
import LyModel.Valid.XpTagW
/-!
# C02 — the XPath-dependent constraints: `must`, leafref `require-instance` (and `when`, modelled, see the end)

The validation model `validateX` (LyModel/Valid/XpValid.lean) is `validate` with the XPath-dependent phases of `lyd_validate` in
libyang's order — `lyd_validate_unres` (`when` resolution: LyModel/Valid/XpWhen.lean; leafref `require-instance` of the incompletely
validated terminal values, reverse DFS order) between the subtree walk and `lyd_validate_final_r`, and `lyd_validate_must` inside
`lyd_validate_final_r` (per node, after the state check, every `must` in order) — with every expression evaluated by the Lean XPath
1.0 engine (LyModel/XPath: `Parse.parse`, the model of `lyxp_expr_parse`, then `Eval.eval`) on the data tree through the bridge
`docOf` (the forest in document order as the engine's XML view; element i = i-th node in preorder).  As `lyxp_eval` with
`LYXP_SCHEMA` does (RFC 7950 §6.4.1), a `must` of a configuration node sees the configuration data only; leafref paths and the musts
of state nodes see the whole tree; default nodes in use are part of the tree.

The specification (`LyModel/Valid/XpSpec.lean`): `ValidX X C o t` = `Valid X o t` and on the ACCESSIBLE TREE `rfcComplete X o t` (the
explicit data plus the defaults RFC 7950 / RFC 6243 put in use, LyModel/Valid/SpecDefaults.lean, independent of `lyd_new_implicit`):
every `must` of every node is true with that node as context (§7.5.3), every leafref instance has a node with the same value among
the nodes its path selects (§9.9.3, `require-instance true`).  An expression that does not parse or evaluate counts as violated on
both sides, so no "fragment" hypothesis is needed: the theorem holds for every expression text (the tie in tools/checks/c02.py
generates the expressions on which the engine and libyang's evaluator agree: C08).

Correspondence with the C: op `valx` of the driver against `api_val`, family `fam_xpath` of tools/checks/validgen.py.
-/
namespace LyModel.Props.C02
open LyModel LyModel.Tree LyModel.Valid

/-- **`validate_ok_iff_valid_xpath`** — schemas of the full language of `validate_ok_iff_valid_full` with `must` statements on any
data node and leafref types (`require-instance true`), no `when` (`C.whens = []`): the instance can be built and `lyd_validate`
logs no error **iff** it satisfies the structural specification AND every `must` / leafref constraint on the accessible tree
(`ValidX`).  Hypotheses beyond those of `validate_ok_iff_valid_full`: `hacc` — the validated tree is the accessible tree of the
specification up to flags (the law `implicit` of the C07 check on every run; a theorem for schemas without `choice`:
`validate_ok_iff_valid_xpath_nochoice` below).  (That `config false` is inherited in the data, which the configuration-only tree of
a `must` needs, follows from the hypotheses: `cfgClosed_rfcComplete`, LyModel/Valid/XpCfg.lean.) -/
theorem validate_ok_iff_valid_xpath (X : SchemaX) (C : XCons) (o : VOpts) (hop : o.operational = false)
    (hq : X.q.implicitInnerCase = false) (hqu : X.q.uniqueDefaultAlways = false) (hl : KidsLookupOk X) (hnl : NodeLookupOk X)
    (hio : InfoOk X) (hs : FullSane X o) (hup : UniqPathsOk X) (hw : C.whens = []) (t : List DNode)
    (hg : goodL X X.top t = true) (hlen0 : t.length ≤ uint32Max) (hh : sheightL X.top ≤ walkFuel X t)
    (hacc : obsL X.base (validate X o t).tree = obsL X.base (rfcComplete X o t)) :
    (buildL X.base t = none ∧ (validateX X C o t).errs = []) ↔ ValidX X C o t := by
  have hfull := validate_ok_iff_valid_full X o hop hq hqu hl hnl hio hs hup t hg hlen0 hh
  unfold ValidX violationsX
  by_cases hpe : (o.present && t.isEmpty) = true
  · have hx : (validateX X C o t).errs = [] := by
      unfold validateX; simp only [hpe, if_true]; rfl
    have hv : (validate X o t).errs = [] := by
      unfold validate; simp only [hpe, if_true]; rfl
    simp only [hpe, if_true, List.append_nil, hx, and_true]
    have := hfull
    unfold Valid at this
    rw [← this]
    simp [hv]
  · have hpe' : (o.present && t.isEmpty) = false := by simpa using hpe
    simp only [hpe', Bool.false_eq_true, if_false, List.append_eq_nil_iff]
    have := hfull
    unfold Valid at this
    rw [validateX_ok_iff X C o t hop (whenPhase_nil X C o hw) hpe' hacc (cfgClosed_rfcComplete X o hl hio hs t hg), ← and_assoc, this]

/-- **the same for schemas without `choice`, unconditionally**: there the completion equation is a theorem
(`implicit_exact_tree_nochoice`, Props/C07Completion.lean), for options without `LYD_VALIDATE_NO_STATE` -/
theorem validate_ok_iff_valid_xpath_nochoice (X : SchemaX) (C : XCons) (o : VOpts) (hop : o.operational = false)
    (hno : o.noState = false) (hq : X.q.implicitInnerCase = false) (hqu : X.q.uniqueDefaultAlways = false) (hl : KidsLookupOk X)
    (hnl : NodeLookupOk X) (hio : InfoOk X) (hs : FullSane X o) (hup : UniqPathsOk X) (hD : DataSchema X) (hw : C.whens = [])
    (t : List DNode) (hne : t ≠ [])
    (hg : goodL X X.top t = true) (hlen0 : t.length ≤ uint32Max) (hh : sheightL X.top ≤ walkFuel X t)
    (hf : freshExplL t = true) (hp : placedL X X.top t = true) (hsh : cShapedL X.base t = true) :
    (buildL X.base t = none ∧ (validateX X C o t).errs = []) ↔ ValidX X C o t := by
  have hpe : (o.present && t.isEmpty) = false := by
    cases t with
    | nil => exact absurd rfl hne
    | cons _ _ => simp
  exact validate_ok_iff_valid_xpath X C o hop hq hqu hl hnl hio hs hup hw t hg hlen0 hh
    (validate_rfcComplete_nochoice X o t hno hD hf hp hsh hh hpe)

/-- **without XPath-dependent statements `validateX` is `validate`** (so every C02 theorem about `validate` is one about the model the
check drives through `valx`) -/
theorem validateX_conservative (X : SchemaX) (C : XCons) (hm : C.musts = []) (hl : C.leafrefs = []) (hw : C.whens = []) (o : VOpts)
    (t : List DNode) : validateX X C o t = validate X o t :=
  validateX_nil X C hm hl hw o t

/-- non-vacuity (witness `Sxp`, LyModel/Valid/XpWitness.lean: `container c { presence; leaf a; leaf b { must "../a = 'x'"; must "../d = '1'"; }
leaf d { default "1"; } leaf r { type leafref { path "../a"; } } list l { key k; leaf k; leaf v { must "count(../../l) < 3"; } } } leaf s
{ config false; }`): the theorem instantiated on the valid tree and on three invalid ones — a false `must` (`a = y`), a dangling
leafref (`r = z`), three list entries (the numeric `must` of every `v` is false); the second `must` of `b` is true only through the
DEFAULT of `d`: on the explicit data alone the specification would be violated, on the accessible tree it is not -/
example : ((buildL Xxp.base tXpOk = none ∧ (validateX Xxp Cxp {} tXpOk).errs = []) ↔ ValidX Xxp Cxp {} tXpOk) ∧
    ValidX Xxp Cxp {} tXpOk ∧ (validateX Xxp Cxp {} tXpOk).errs = [] ∧
    violationsX Xxp Cxp {} tXpBadMust = [.noMust] ∧ ((validateX Xxp Cxp {} tXpBadMust).errs.map (·.kind)) = [.noMust] ∧
    violationsX Xxp Cxp {} tXpBadRef = [.noReqInst] ∧ ((validateX Xxp Cxp {} tXpBadRef).errs.map (·.kind)) = [.noReqInst] ∧
    violationsX Xxp Cxp {} tXpBadCount = [.noMust, .noMust, .noMust] ∧
    xpViolations Sxp CxpS (explicitL tXpOk) = [.noMust] ∧ xpViolations Sxp CxpS (rfcComplete Xxp {} tXpOk) = [] := by
  refine ⟨?_, by decide +kernel, by decide +kernel, by decide +kernel, by decide +kernel, by decide +kernel, by decide +kernel,
    by decide +kernel, by decide +kernel, by decide +kernel⟩
  exact validate_ok_iff_valid_xpath_nochoice Xxp Cxp {} rfl rfl rfl rfl (lookupOk_of_B _ (by decide +kernel))
    (nodeLookupOk_of_B _ (by decide +kernel)) (infoOk_of_B _ (by decide +kernel)) (fullSane_of_B _ _ (by decide +kernel))
    (uniqPathsOk_of_B _ (by decide +kernel)) (dataSchema_of_B _ (by decide +kernel)) rfl tXpOk (by decide +kernel) (by decide +kernel)
    (by decide +kernel) (by decide +kernel) (by decide +kernel) (by decide +kernel) (by decide +kernel)

/-- **`validate_error_tag_xpath`** (same hypotheses, `LYD_VALIDATE_OPERATIONAL` allowed for the XPath part): every error `validateX` logs
is an error `validate` logs — hence of a structural family the instance violates (`validate_error_tag_full`) — or a `NoMust`
(app-tag `must-violation`) / an unevaluable `must` (`Other`) where some `must` is violated on the accessible tree, or a `NoReqInst`
(app-tag `instance-required`) where some leafref has no target instance with its value -/
theorem validate_error_tag_xpath (X : SchemaX) (C : XCons) (o : VOpts) (hop : o.operational = false)
    (hq : X.q.implicitInnerCase = false) (hqu : X.q.uniqueDefaultAlways = false) (hl : KidsLookupOk X) (hnl : NodeLookupOk X)
    (hio : InfoOk X) (hs : FullSane X o) (hup : UniqPathsOk X) (hw : C.whens = []) (t : List DNode)
    (hg : goodL X X.top t = true) (hlen0 : t.length ≤ uint32Max) (hh : sheightL X.top ≤ walkFuel X t)
    (hpe : (o.present && t.isEmpty) = false)
    (hacc : obsL X.base (validate X o t).tree = obsL X.base (rfcComplete X o t)) :
    ∀ e ∈ (validateX X C o t).errs, e.kind ∈ violationsX X C o t ∨ (e.kind = .xpErr ∧ EKind.noMust ∈ violationsX X C o t) := by
  intro e he
  have hmem : ∀ K, K ∈ xpViolations X.base C (rfcComplete X o t) → K ∈ violationsX X C o t := by
    intro K hK
    unfold violationsX
    simp only [hpe, Bool.false_eq_true, if_false, List.mem_append]
    exact Or.inr hK
  rcases validateX_error_tag X C o t (whenPhase_nil X C o hw) hpe hacc (cfgClosed_rfcComplete X o hl hio hs t hg) e he with h | ⟨hk, h⟩ | ⟨hk, h⟩ | ⟨hk, h⟩
  · left
    unfold violationsX
    rw [List.mem_append]
    exact Or.inl (validate_error_tag_full X o hop hq hqu hl hnl hio hs hup t hg hlen0 hh e h)
  · left; rw [hk]; exact hmem _ h
  · right; exact ⟨hk, hmem _ h⟩
  · left; rw [hk]; exact hmem _ h

/-- non-vacuity: the errors logged on the three invalid witness trees are of the families the specification lists -/
example : (∀ e ∈ (validateX Xxp Cxp {} tXpBadMust).errs, e.kind ∈ violationsX Xxp Cxp {} tXpBadMust) ∧
    (validateX Xxp Cxp {} tXpBadMust).errs ≠ [] := by
  refine ⟨?_, by decide +kernel⟩
  intro e he
  have := validate_error_tag_xpath Xxp Cxp {} rfl rfl rfl (lookupOk_of_B _ (by decide +kernel)) (nodeLookupOk_of_B _ (by decide +kernel))
    (infoOk_of_B _ (by decide +kernel)) (fullSane_of_B _ _ (by decide +kernel)) (uniqPathsOk_of_B _ (by decide +kernel)) rfl tXpBadMust
    (by decide +kernel) (by decide +kernel) (by decide +kernel) rfl
    (validate_rfcComplete_nochoice Xxp {} tXpBadMust rfl (dataSchema_of_B _ (by decide +kernel)) (by decide +kernel) (by decide +kernel)
      (by decide +kernel) (by decide +kernel) rfl) e he
  rcases this with h | ⟨hk, _⟩
  · exact h
  · exfalso
    have hall : ∀ e ∈ (validateX Xxp Cxp {} tXpBadMust).errs, e.kind ≠ .xpErr := by decide +kernel
    exact hall e he hk

/-!
## `when`

`when` resolution is MODELLED (LyModel/Valid/XpWhen.lean: `whenPhase` — the `do … while` loop of `lyd_validate_unres` over
`lyd_validate_unres_when`, set processed from the end, `LYD_WHEN_TRUE`, implicit nodes with a false `when` auto-deleted, explicit ones
`NoWhen`, `LY_EINCOMPLETE` deferral; termination: `rounds_fuel`) and compared with libyang by the check (family `fam_xpath`, mutation
`flip-when`, directed instances `when-implicit`, law `when-iff` through the model op `specw`).  Proved about it: what it can log and what
it can change (below), and the iff / error-tag theorems on the class without deferral for runs that remove no implicit node
(`validate_ok_iff_valid_when_partial`, `validate_ok_iff_valid_when_decidable`, `validate_error_tag_when_partial`).
-- OPEN: the iff for instances on which an implicit node with a false `when` is removed (RFC 7950 §7.21.5 / §8.3.2: its default is not in
-- use and the accessible tree of every other expression does not contain it: a specification-side fixpoint, and a frame lemma for the
-- XPath engine), and for `when` expressions that reach other `when`-carrying nodes (the deferral order of the loop).
-/

/-- **`when_errors_kind`** (every schema, `when` table, option set and tree): the `when` phase logs only `NoWhen` errors ("When
condition … not satisfied", on explicit nodes) and `Other` (a condition that cannot be evaluated) -/
theorem when_errors_kind (X : SchemaX) (C : XCons) (o : VOpts) (T : List DNode) :
    ∀ e ∈ (whenPhase X C o T).2.errs, e.kind = .noWhen ∨ e.kind = .xpErr :=
  whenPhase_kinds X C o T

/-- **`when_keeps_shape`**: unless it records a deletion in the change set (the auto-deletion of an implicit node whose `when` is
false), the `when` phase changes nothing but flags (`LYD_WHEN_TRUE`): the tree keeps its nodes, values and order, so the document the
leafref and `must` phases evaluate on is the one before the phase -/
theorem when_keeps_shape (X : SchemaX) (C : XCons) (o : VOpts) (T : List DNode) (h : (whenPhase X C o T).2.evs = []) :
    shapeL (whenPhase X C o T).1 = shapeL T :=
  whenPhase_shape X C o T h


/-! ### the iff with `when`, on the class where nothing is deferred and no implicit node is removed -/

/-- the accessible tree of the model (after the subtree walk) has the shape of the accessible tree of the specification -/
theorem preFinal_shape (X : SchemaX) (o : VOpts) (t : List DNode) (hpe : (o.present && t.isEmpty) = false)
    (hacc : obsL X.base (validate X o t).tree = obsL X.base (rfcComplete X o t)) :
    shapeL (preFinal X o t) = shapeL (rfcComplete X o t) := by
  rw [← shapeL_finalR X o {} (preFinal X o t), ← validate_tree_preFinal X o t hpe]
  exact shape_of_obs X.base hacc

/-- **`validate_ok_iff_valid_when_partial`** — schemas of the full language with `must`, leafref AND `when` statements (on data nodes:
context = the node; on `choice` / `case`: inherited by the data nodes of the case, context = the data parent), on the class where the
deferral loop of `lyd_validate_unres_when` has nothing to defer (`wi_NoTouch`: no `when` expression reaches a node that itself
carries a `when` — decidable form `whenNoTouchB`, evaluated by the model's own `mayTouch`, which is exact for predicate-free child /
parent paths): the instance can be built, `lyd_validate` logs no error and removes no implicit node because of a `when` **iff** the
instance is `ValidX` (structure, `must`, leafref on the accessible tree) and EVERY `when` of every node of the accessible tree —
explicit data and defaults in use — is true, evaluated on that tree with libyang's context node (RFC 7950 §7.21.5).
What is NOT covered (OPEN): instances on which validation removes an implicit node whose `when` is false (RFC 7950 §7.21.5 / §8.3.2: the
default is then not in use; the model does it and the check compares it, but the accessible tree of the specification would have to
be the fixpoint without those nodes), and `when` expressions that look at other `when` nodes (deferral). -/
theorem validate_ok_iff_valid_when_partial (X : SchemaX) (C : XCons) (o : VOpts) (hop : o.operational = false)
    (hq : X.q.implicitInnerCase = false) (hqu : X.q.uniqueDefaultAlways = false) (hl : KidsLookupOk X) (hnl : NodeLookupOk X)
    (hio : InfoOk X) (hs : FullSane X o) (hup : UniqPathsOk X) (t : List DNode)
    (hg : goodL X X.top t = true) (hlen0 : t.length ≤ uint32Max) (hh : sheightL X.top ≤ walkFuel X t)
    (hpe : (o.present && t.isEmpty) = false)
    (hacc : obsL X.base (validate X o t).tree = obsL X.base (rfcComplete X o t))
    (hnt : wi_NoTouch X C.whens (markImpl X.base C.whens (preFinal X o t))) :
    (buildL X.base t = none ∧ (validateX X C o t).errs = [] ∧ (whenPhase X C o (preFinal X o t)).2.evs = []) ↔
      (ValidX X C o t ∧ wi_AllTrue (xpBool C.mask X.base) X C.whens (rfcComplete X o t)) := by
  have hfull := validate_ok_iff_valid_full X o hop hq hqu hl hnl hio hs hup t hg hlen0 hh
  have hcc := cfgClosed_rfcComplete X o hl hio hs t hg
  have hsh := preFinal_shape X o t hpe hacc
  have hwhen := whenPhase_nodel_iff X C o hop (preFinal X o t) hnt
  have htr := wi_AllTrue_shape_iff (ev := xpBool C.mask X.base) (X := X) (W := C.whens) (wi_xpBool_shape C.mask X.base) hsh
  have hvx : ValidX X C o t ↔ (Valid X o t ∧ xpViolations X.base C (rfcComplete X o t) = []) := by
    unfold ValidX violationsX Valid
    simp only [hpe, Bool.false_eq_true, if_false, List.append_eq_nil_iff]
  rw [hvx]
  constructor
  · rintro ⟨hb, he, hev⟩
    have h3 := (validateX_ok_iff_w X C o t hop hpe hacc hcc hev).1 he
    exact ⟨⟨hfull.1 ⟨hb, h3.1⟩, h3.2.2⟩, htr.1 (hwhen.1 ⟨h3.2.1, hev⟩)⟩
  · rintro ⟨⟨hv, hx⟩, hall⟩
    have hw := hwhen.2 (htr.2 hall)
    have hb := hfull.2 hv
    exact ⟨hb.1, (validateX_ok_iff_w X C o t hop hpe hacc hcc hw.2).2 ⟨hb.2, hw.1, hx⟩, hw.2⟩

/-- **`validate_ok_iff_valid_when_decidable`** — `validate_ok_iff_valid_when_partial` with both `when` conditions in their decidable
form, evaluated on the accessible tree of the SPECIFICATION (`rfcComplete`): `whenNoTouchB` (no `when` expression of a node reaches —
by its steps for the `..` / `.` / child shape, where `mayTouch` is exact; by name or wildcard otherwise — another node whose schema node
carries a `when`, all nodes counted as unresolved: a class STRONGER than libyang's "nothing deferred", shape-only) and `whenAllHold`
(every `when` of every node of the accessible tree evaluates to true there). -/
theorem validate_ok_iff_valid_when_decidable (X : SchemaX) (C : XCons) (o : VOpts) (hop : o.operational = false)
    (hq : X.q.implicitInnerCase = false) (hqu : X.q.uniqueDefaultAlways = false) (hl : KidsLookupOk X) (hnl : NodeLookupOk X)
    (hio : InfoOk X) (hs : FullSane X o) (hup : UniqPathsOk X) (t : List DNode)
    (hg : goodL X X.top t = true) (hlen0 : t.length ≤ uint32Max) (hh : sheightL X.top ≤ walkFuel X t)
    (hpe : (o.present && t.isEmpty) = false)
    (hacc : obsL X.base (validate X o t).tree = obsL X.base (rfcComplete X o t))
    (hnt : whenNoTouchB X C.whens (rfcComplete X o t) = true) :
    (buildL X.base t = none ∧ (validateX X C o t).errs = [] ∧ (whenPhase X C o (preFinal X o t)).2.evs = []) ↔
      (ValidX X C o t ∧ whenAllHold (xpBool C.mask X.base) X C.whens (rfcComplete X o t) = true) := by
  rw [whenAllHold_iff]
  have hsh := preFinal_shape X o t hpe hacc
  rw [← whenNoTouchB_of_shape X C.whens hsh] at hnt
  exact validate_ok_iff_valid_when_partial X C o hop hq hqu hl hnl hio hs hup t hg hlen0 hh hpe hacc
    (wi_NoTouch_markImpl_of_B X C.whens _ hnt)

/-- **`validate_error_tag_when_partial`** — the error-tag companion on the same class, for runs that remove no implicit node: every error
`validateX` logs is of a family the specification lists for the instance (structure, `NoMust` / `must-violation`, `NoReqInst` /
`instance-required`), or an unevaluable `must` where a `must` is violated, or a `NoWhen` / unevaluable `when` error — and then some `when`
of the accessible tree is NOT true (`whenAllHold … = false`). -/
theorem validate_error_tag_when_partial (X : SchemaX) (C : XCons) (o : VOpts) (hop : o.operational = false)
    (hq : X.q.implicitInnerCase = false) (hqu : X.q.uniqueDefaultAlways = false) (hl : KidsLookupOk X) (hnl : NodeLookupOk X)
    (hio : InfoOk X) (hs : FullSane X o) (hup : UniqPathsOk X) (t : List DNode)
    (hg : goodL X X.top t = true) (hlen0 : t.length ≤ uint32Max) (hh : sheightL X.top ≤ walkFuel X t)
    (hpe : (o.present && t.isEmpty) = false)
    (hacc : obsL X.base (validate X o t).tree = obsL X.base (rfcComplete X o t))
    (hnt : whenNoTouchB X C.whens (rfcComplete X o t) = true)
    (hev : (whenPhase X C o (preFinal X o t)).2.evs = []) :
    ∀ e ∈ (validateX X C o t).errs, e.kind ∈ violationsX X C o t ∨ (e.kind = .xpErr ∧ EKind.noMust ∈ violationsX X C o t) ∨
      ((e.kind = .noWhen ∨ e.kind = .xpErr) ∧ whenAllHold (xpBool C.mask X.base) X C.whens (rfcComplete X o t) = false) := by
  intro e he
  have hsh := preFinal_shape X o t hpe hacc
  have hnt' := hnt
  rw [← whenNoTouchB_of_shape X C.whens hsh] at hnt'
  have hwhen := whenPhase_nodel_iff X C o hop (preFinal X o t) (wi_NoTouch_markImpl_of_B X C.whens _ hnt')
  have htr := wi_AllTrue_shape_iff (ev := xpBool C.mask X.base) (X := X) (W := C.whens) (wi_xpBool_shape C.mask X.base) hsh
  have hfalse : e ∈ (whenPhase X C o (preFinal X o t)).2.errs →
      whenAllHold (xpBool C.mask X.base) X C.whens (rfcComplete X o t) = false := by
    intro hm
    cases hb : whenAllHold (xpBool C.mask X.base) X C.whens (rfcComplete X o t) with
    | false => rfl
    | true =>
      have h1 := (hwhen.2 (htr.2 ((whenAllHold_iff _ X C.whens _).1 hb))).1
      rw [h1] at hm
      cases hm
  have hmem : ∀ K, K ∈ xpViolations X.base C (rfcComplete X o t) → K ∈ violationsX X C o t := by
    intro K hK
    unfold violationsX
    simp only [hpe, Bool.false_eq_true, if_false, List.mem_append]
    exact Or.inr hK
  rcases validateX_error_tag_w X C o t hpe hacc (cfgClosed_rfcComplete X o hl hio hs t hg) hev e he with
    h | ⟨hk, h⟩ | ⟨hk, h | h⟩ | ⟨hk, h⟩ | ⟨hk, h⟩
  · left
    obtain ⟨e', h', hk'⟩ := h
    unfold violationsX
    rw [List.mem_append, ← hk']
    exact Or.inl (validate_error_tag_full X o hop hq hqu hl hnl hio hs hup t hg hlen0 hh e' h')
  · left; rw [hk]; exact hmem _ h
  · right; left; exact ⟨hk, hmem _ h⟩
  · right; right; exact ⟨Or.inr hk, hfalse h⟩
  · left; rw [hk]; exact hmem _ h
  · right; right; exact ⟨Or.inl hk, hfalse h⟩

/-- the witness constraints with a `when` on `b` (`when "../a = 'x'"`) and on the default-bearing leaf `d` -/
def CxpW : XCons := { whens := [(2, bytesOfString "../a = 'x'"), (3, bytesOfString "../a = 'x'")] }

/-- non-vacuity: `a = y` with an explicit `b`: `NoWhen` on `b`, and the implicit `d` is auto-deleted (one delete event: the hypothesis of
`when_keeps_shape` fails and the tree loses a node); `a = x`: nothing logged, no event, same shape -/
example : ((validateX Xxp CxpW {} tXpBadMust).errs.map (·.kind)) = [.noWhen] ∧
    (whenPhase Xxp CxpW {} (preFinal Xxp {} tXpBadMust)).2.evs.length = 1 ∧
    (validateX Xxp CxpW {} tXpOk).errs = [] ∧ (whenPhase Xxp CxpW {} (preFinal Xxp {} tXpOk)).2.evs = [] ∧
    shapeL (whenPhase Xxp CxpW {} (preFinal Xxp {} tXpOk)).1 = shapeL (preFinal Xxp {} tXpOk) := by
  refine ⟨by decide +kernel, by decide +kernel, by decide +kernel, by decide +kernel, ?_⟩
  exact when_keeps_shape Xxp CxpW {} _ (by decide +kernel)

/-- non-vacuity of `validate_ok_iff_valid_when_decidable` / `validate_error_tag_when_partial`: on the witness schema with the two `when`
statements every hypothesis holds for `a = x` (both sides of the iff true: accepted, nothing removed, all `when`s hold) and for the
tree with `a = y` and an explicit `b` the class condition holds while `whenAllHold` is false (and a `NoWhen` is logged) -/
example : ((buildL Xxp.base tXpOk = none ∧ (validateX Xxp CxpW {} tXpOk).errs = [] ∧
      (whenPhase Xxp CxpW {} (preFinal Xxp {} tXpOk)).2.evs = []) ↔
      (ValidX Xxp CxpW {} tXpOk ∧ whenAllHold (xpBool CxpW.mask Xxp.base) Xxp CxpW.whens (rfcComplete Xxp {} tXpOk) = true)) ∧
    whenAllHold (xpBool CxpW.mask Xxp.base) Xxp CxpW.whens (rfcComplete Xxp {} tXpOk) = true ∧
    (validateX Xxp CxpW {} tXpOk).errs = [] ∧
    whenNoTouchB Xxp CxpW.whens (rfcComplete Xxp {} tXpBadMust) = true ∧
    whenAllHold (xpBool CxpW.mask Xxp.base) Xxp CxpW.whens (rfcComplete Xxp {} tXpBadMust) = false := by
  refine ⟨?_, by decide +kernel, by decide +kernel, by decide +kernel, by decide +kernel⟩
  exact validate_ok_iff_valid_when_decidable Xxp CxpW {} rfl rfl rfl (lookupOk_of_B _ (by decide +kernel))
    (nodeLookupOk_of_B _ (by decide +kernel)) (infoOk_of_B _ (by decide +kernel)) (fullSane_of_B _ _ (by decide +kernel))
    (uniqPathsOk_of_B _ (by decide +kernel)) tXpOk (by decide +kernel) (by decide +kernel) (by decide +kernel) rfl
    (validate_rfcComplete_nochoice Xxp {} tXpOk rfl (dataSchema_of_B _ (by decide +kernel)) (by decide +kernel) (by decide +kernel)
      (by decide +kernel) (by decide +kernel) rfl)
    (by decide +kernel)

/-- the witness constraints with TWO whens of different origin on `b`: its own (`when "../a = 'x'"`, context node = `b`) and one inherited from
a `uses` / `augment` statement (`when "a = 'x'"`, context node = the data parent of `b`; table key `sid + #nodes`, `inhWhens`) -/
def CxpW2 : XCons := { whens := [(2, bytesOfString "../a = 'x'"), (2 + Xxp.base.nodes.length, bytesOfString "a = 'x'")] }

/-- non-vacuity of the per-`when` context node (`lyd_validate_node_when` takes it from `when->context` of EACH `when`): the node `b` has one
`when` of each origin, both hold for `a = x` and the instance is accepted; with `a = y` a `NoWhen` is logged; and the same inherited
expression evaluated with the node itself as context (the table entry under the node's own key — one level too deep) rejects the
valid instance -/
example : whensOf Xxp.base CxpW2.whens 2 = [(true, bytesOfString "../a = 'x'"), (false, bytesOfString "a = 'x'")] ∧
    (validateX Xxp CxpW2 {} tXpOk).errs = [] ∧
    whenAllHold (xpBool CxpW2.mask Xxp.base) Xxp CxpW2.whens (rfcComplete Xxp {} tXpOk) = true ∧
    (validateX Xxp CxpW2 {} tXpBadMust).errs.map (·.kind) = [.noWhen] ∧
    (validateX Xxp { whens := [(2, bytesOfString "../a = 'x'"), (2, bytesOfString "a = 'x'")] } {} tXpOk).errs.map (·.kind) = [.noWhen] := by
  refine ⟨by decide +kernel, by decide +kernel, by decide +kernel, by decide +kernel, by decide +kernel⟩

end LyModel.Props.C02
