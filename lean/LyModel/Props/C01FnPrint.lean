import LyModel.Bridge.Print
import LyModel.Props.C01
/-!
# C01 / C12 — the string printers as TRANSLATED WHOLE from xml.c / printer_json.c (`tools/c2lean.py`, regenerated on every run)

`Generated.Fn.lyxml_dump_text` / `Generated.Fn.json_print_string`: loop, switch with fall-through, `ly_print_` / `ly_write_` on the
output stream (the bytes written so far).  The round-trip theorems of C01, which are about `XmlText.dumpText` /
`JsonText.printString` (a map of the switch-body table over the string), are restated here about the translated functions.
-/
namespace LyModel.Props.C01FnPrint
open LyModel LyModel.Generated LyModel.Utf8

/-- a `YangText` string has no NUL byte (so as a C string it is all of itself) -/
theorem yangText_no_nul {s : Bytes} (h : YangText s) : ∀ b ∈ s, b ≠ 0 := by
  induction h with
  | nil => intro b hb; cases hb
  | @cons s cp n hg _ ih =>
    intro b hb
    rw [← List.take_append_drop n s, List.mem_append] at hb
    rcases hb with hb | hb
    · obtain ⟨b0, r, hs, hb0, hc⟩ := getUtf8_shape hg
      rcases hc with ⟨hn, _⟩ | ⟨_, hall⟩
      · subst hs; subst hn
        simp at hb; subst hb; exact hb0
      · have := hall b hb
        intro hz; subst hz; simp at this
    · exact ih b hb

/-- **The translated printers are the models** (on every NUL-free C string and on NULL; any previous content of the stream is kept). -/
theorem gen_printers_are_model (out s : Bytes) (attr : UInt8) (h0 : ∀ b ∈ s, b ≠ 0) (hl : s.length < 2 ^ 64) :
    Fn.lyxml_dump_text out (some s) attr = ⟨0, out ++ XmlText.dumpText (attr != 0) s⟩ ∧
    Fn.json_print_string out (some s) = ⟨0, out ++ JsonText.printString s⟩ ∧
    Fn.lyxml_dump_text out none attr = ⟨0, out⟩ ∧ Fn.json_print_string out none = ⟨0, out⟩ :=
  ⟨(Bridge.Print.xml_dump_text_eq out s attr h0 hl).1, (Bridge.Print.json_print_string_eq out s h0 hl).1,
   (Bridge.Print.xml_dump_text_eq out s attr h0 hl).2, (Bridge.Print.json_print_string_eq out s h0 hl).2⟩

example : (Fn.lyxml_dump_text [] (some [0x61, 0x3c, 0x22, 0x09]) 1).out = "a&lt;&quot;&#x9;".toUTF8.toList ∧
    (Fn.json_print_string [] (some [0x61, 0x22, 0x01, 0xc3, 0xa9])).out = "\"a\\\"\\u0001".toUTF8.toList ++ [0xc3, 0xa9, 0x22] := by
  decide +kernel

/-- **XML round trip on the translated printer.**  What the translated `lyxml_dump_text` writes for element content (`attr = 0`) or
    an attribute value (`attr ≠ 0`) of a `YangText` string is read back by the lexer model as that string. -/
theorem gen_xml_roundtrip (s rest : Bytes) (hs : YangText s) (hl : s.length < 2 ^ 64) :
    XmlText.parse 60 ((Fn.lyxml_dump_text [] (some s) 0).out ++ 60 :: 47 :: rest) = .ok (s, s.all (XmlText.wsLit false), 60 :: 47 :: rest) ∧
    XmlText.parse 34 ((Fn.lyxml_dump_text [] (some s) 1).out ++ 34 :: rest) = .ok (s, s.all (XmlText.wsLit true), 34 :: rest) := by
  have h0 := yangText_no_nul hs
  rw [(Bridge.Print.xml_dump_text_eq [] s 0 h0 hl).1, (Bridge.Print.xml_dump_text_eq [] s 1 h0 hl).1]
  exact ⟨Props.C01.xml_content_roundtrip s rest hs, Props.C01.xml_attr_roundtrip s rest hs⟩

/-- **JSON round trip on the translated printer.** -/
theorem gen_json_roundtrip (s rest : Bytes) (hs : YangText s) (hl : s.length < 2 ^ 64) :
    JsonText.parse ((Fn.json_print_string [] (some s)).out.tail ++ rest) = .ok (s, rest) := by
  rw [(Bridge.Print.json_print_string_eq [] s (yangText_no_nul hs) hl).1]
  exact Props.C01.json_string_roundtrip s rest hs

end LyModel.Props.C01FnPrint
