import LyModel.Lyb.TreeLemmasD
import LyModel.Lyb.TreeLemmasF
/-!
# C01 (LYB, tree level) — property theorems

`parse (print t) = t` for the node walk of `printer_lyb.c` / `parser_lyb.c` (model: `LyModel/Lyb/Tree.lean`), composed from
the chunk layer (`lyb_chunk_roundtrip`'s lemma base through the stepwise interface `Lyb.At`), the hash first-match
theorem `lyb_hash_lookup_correct`, the revision packing and the value theorem `Val.unlyb_lyb` (`lyb_value_roundtrip`).
Statement file; lemmas in `LyModel/Lyb/TreeLemmas{A,B,C,D}.lean`.
-/
namespace LyModel.Props.C01LybTree
open LyModel LyModel.Lyb LyModel.Tree LyModel.LybTree LyModel.Generated

/-- the with-defaults modes under which the LYB printer adds nothing to a node (`explicit`, `trim`, `all`: the three
print the same bytes; the node flags, `LYD_DEFAULT` among them, are always written) -/
def Untagged (o : POpts) : Prop := o.tagAll = false ∧ o.tagImpl = false

/-- `LYD_PRINT_WITHSIBLINGS` (`lyd_print_all`) -/
def WithSiblings (o : POpts) : Prop := o.withSiblings = true


/-- **LYB tree round trip, every with-defaults mode, the code as it is** (the true part of the full statement, which
`lyb_tree_roundtrip_tagged_fails` refutes).  For every chunk-size parameter set `P` (side conditions `P.Ok`), every schema
view `S` (any sibling sets, any names — the hash collisions are whatever the real `lyb_generate_hash` gives), every forest
`t` whose nodes fit the schema (`WfForest`: leaf / leaf-list nodes carry the canonical form of a value of their type — any
of the `Val` types or `empty` —, every node may carry metadata instances of the annotations of `S` (`AnnotsOk`: the table is
unambiguous; values canonical for the annotation's type), inner nodes are containers or list instances, keyed or key-less, in any number and order)
and EVERY print option (with or without `LYD_PRINT_WITHSIBLINGS`: `printedForest` is the whole forest or its first tree):
**if the printer succeeds** (`printLyb … = some img`: `lyb_hash_siblings` resolves every sibling
set that occurs — finding F27 is its failure — and no inner-chunk counter overflows), the parser run on the image returns
`t` with the same nodes, order, canonical values and flags, where exactly the nodes the printer tagged (`wdTagged`:
`LYD_DEFAULT` under ALL_TAG / IMPL_TAG, or a default-valued term node under ALL_TAG) carry the
`ietf-netconf-with-defaults:default` annotation as a metadata instance (`viewNode`).  `parseLyb` is the parser with the fuel the driver gives it (`8·|img| + 16`); that it suffices is part of
the theorem (`cost_le_image`: every node costs the printer at least five payload bytes, and the image holds the payload). -/
theorem lyb_tree_roundtrip_tagged_partial (P : Params) (hP : P.Ok) (o : POpts) (S : LSchema) (hann : AnnotsOk S)
    (hname : S.modName ≠ []) (hrev : unpackRev (packRev S.rev) = S.rev)
    (t : List DNode) (hwf : WfForest S t) (img : Bytes) (hp : printLyb P o S t = some img) :
    parseLyb P S img = some ((printedForest o t).map (viewNode o S)) := by
  rw [printLyb_eq] at hp
  have hwf' : WfForest S (printedForest o t) := by
    simp only [printedForest]; split
    · exact hwf
    · exact wfForest_take S t hwf
  exact doc_rt P hP o S hann hname hrev _ hwf' img hp _ (by have := cost_le_image P hP o S _ img hp; omega)

/-- **LYB tree round trip** (untagged modes: explicit / trim / all): `parse (print t) = t`. -/
theorem lyb_tree_roundtrip (P : Params) (hP : P.Ok) (o : POpts) (ho : Untagged o) (hs : WithSiblings o) (S : LSchema) (hann : AnnotsOk S)
    (hname : S.modName ≠ []) (hrev : unpackRev (packRev S.rev) = S.rev)
    (t : List DNode) (hwf : WfForest S t) (img : Bytes) (hp : printLyb P o S t = some img) :
    parseLyb P S img = some t := by
  have := lyb_tree_roundtrip_tagged_partial P hP o S hann hname hrev t hwf img hp
  rwa [viewL_id o S (fun n => untagged o S n (Or.inl ho)), printedForest, if_pos (show o.withSiblings = true from hs)] at this

/-- **LYB tree round trip, single-tree mode** (`lyd_print_tree`, no `LYD_PRINT_WITHSIBLINGS`; untagged with-defaults modes):
the image holds exactly the first top-level node of the forest with its whole subtree — and of a top-level list / leaf-list
exactly that one instance, the `break`s in `lyb_print_node_list` / `lyb_print_node_leaflist` (finding F470 was their absence) —
and parsing it gives that tree back. -/
theorem lyb_tree_roundtrip_single (P : Params) (hP : P.Ok) (o : POpts) (ho : Untagged o) (hs : o.withSiblings = false)
    (S : LSchema) (hann : AnnotsOk S) (hname : S.modName ≠ []) (hrev : unpackRev (packRev S.rev) = S.rev)
    (t : List DNode) (hwf : WfForest S t) (img : Bytes) (hp : printLyb P o S t = some img) :
    parseLyb P S img = some (t.take 1) := by
  have := lyb_tree_roundtrip_tagged_partial P hP o S hann hname hrev t hwf img hp
  rw [viewL_id o S (fun n => untagged o S n (Or.inl ho)), printedForest] at this
  simpa [hs] using this

/-- **… with the repair of finding F330** (`fixes/F330.diff`: `lyb_print_metadata` without the with-defaults block — the
extractor then sets `lybWdAnnot = false`, the default of `POpts.wdAnnot`): `parse (print t) = t` under EVERY
with-defaults mode, the tagged ones included: the flags carry the default-ness exactly. -/
theorem lyb_tree_roundtrip_tagged_fixed (P : Params) (hP : P.Ok) (o : POpts) (hfix : o.wdAnnot = false) (hs : WithSiblings o) (S : LSchema)
    (hann : AnnotsOk S) (hname : S.modName ≠ []) (hrev : unpackRev (packRev S.rev) = S.rev)
    (t : List DNode) (hwf : WfForest S t) (img : Bytes) (hp : printLyb P o S t = some img) :
    parseLyb P S img = some t := by
  have := lyb_tree_roundtrip_tagged_partial P hP o S hann hname hrev t hwf img hp
  rwa [viewL_id o S (fun n => untagged o S n (Or.inr hfix)), printedForest, if_pos (show o.withSiblings = true from hs)] at this

/-- the same at the constants of the source tree -/
theorem lyb_tree_roundtrip_gen (o : POpts) (ho : Untagged o) (hs : WithSiblings o) (S : LSchema) (hann : AnnotsOk S) (hname : S.modName ≠ [])
    (hrev : unpackRev (packRev S.rev) = S.rev) (t : List DNode) (hwf : WfForest S t) (img : Bytes)
    (hp : printLyb Params.gen o S t = some img) :
    parseLyb Params.gen S img = some t :=
  lyb_tree_roundtrip Params.gen C01Lyb.params_gen_ok o ho hs S hann hname hrev t hwf img hp

/-- the revision hypothesis holds for a module without revision and (by `lyb_revision_pack_roundtrip`) for every date
2000-01-01 … 2127-12-31; outside that range the format cannot hold the year (finding F70) -/
theorem rev_ok (rev : Option Bytes)
    (h : rev = none ∨ ∃ y m d, (2000 ≤ y ∧ y ≤ 2127) ∧ (1 ≤ m ∧ m ≤ 12) ∧ (1 ≤ d ∧ d ≤ 31) ∧ rev = some (dateStr y m d)) :
    unpackRev (packRev rev) = rev := by
  rcases h with rfl | ⟨y, m, d, hy, hm, hd, rfl⟩
  · decide
  · exact C01Lyb.lyb_revision_pack_roundtrip y m d hy hm hd

/-- the single steps the theorem is composed of, over the chunk layer: a node head (type byte, module record of a top-level
node, hash sequence of any length) is read back as the schema node it was printed for — the composition of
`lyb_hash_lookup_correct` with the chunk reader -/
theorem lyb_node_head_roundtrip (P : Params) (hP : P.Ok) (d : Nat) (S : LSchema) (hname : S.modName ≠ [])
    (hrev : unpackRev (packRev S.rev) = S.rev) (par : Option Nat) (sid : Nat) (ops : List Op)
    (ho : nodeHeadOps S par (S.frame par) sid = some ops) (K : List Op) (r : R) (h : At P d (ops ++ K) r) :
    ∃ r', pNodeHead P S true par (S.frame par) r = some (sid, r') ∧ At P d K r' :=
  nodeHead_at P hP d S hname hrev par sid ops ho K r h

/-- … and a term value, fixed-size or length-prefixed as the type's plug-in says (`lyb_data_len`) -/
theorem lyb_term_value_roundtrip (P : Params) (hP : P.Ok) (d : Nat) (ty : LTy) (v : Bytes) (ops : List Op)
    (ho : valueOps ty v = some ops) (hc : CanonVal ty v) (K : List Op) (r : R) (h : At P d (ops ++ K) r) :
    ∃ r', pValue P ty r = some (r', v) ∧ At P d K r' :=
  value_at P hP d ty v ops ho hc K r h

/-! ## annotations of a module the parsing context does not have (finding F331) -/

/-- **Skip branch of `lyb_parse_metadata`, repaired** (`fixes/F331.diff`): when the length fields are read with the widths
the printer used (`R_METASKIPNAME = P_METANAME`, `R_METASKIPVAL = P_METAVAL` — the hypotheses are facts about the
generated constants, closed by `rfl` on the repaired tree), skipping the name and the value of an annotation leaves the
reader exactly behind it, whatever follows and wherever chunk boundaries fall. -/
theorem lyb_meta_skip_fixed (hn : LybTree.R_METASKIPNAME = LybTree.P_METANAME) (hv : LybTree.R_METASKIPVAL = LybTree.P_METAVAL)
    (P : Params) (hP : P.Ok) (d : Nat) (name val : Bytes) (x y : List Op)
    (hx : strOps LybTree.P_METANAME name = some x) (hy : strOps LybTree.P_METAVAL val = some y) (K : List Op) (r : R)
    (h : At P d (x ++ (y ++ K)) r) : At P d K (pMetaSkip P r) := by
  simp only [pMetaSkip, hn, hv]
  exact metaSkip_at P hP d name val x y hx hy K r h

/-- "the skip branch lands behind the annotation" is **false** for the widths of the pinned tree (value length read on 2
bytes, printed on 8 — finding F331, replayed on libyang: heap overflow in `ly_in_read`): after the annotation
`hint = "hello"` followed by the flags word `7` the reader stands inside the value length field; the next four bytes it
takes for the flags are `0 0 0 0`, then `0 0 104 101` … -/
theorem lyb_meta_skip_fails :
    ¬ ∀ (name val : Bytes) (tail : Bytes),
        (pMetaSkipW Params.gen 2 2 { inp := leBytes 2 name.length ++ name ++ leBytes 8 val.length ++ val ++ tail }).inp = tail := by
  intro H
  have := H [104, 105, 110, 116] [104, 101, 108, 108, 111] [7, 0, 0, 0]
  revert this
  decide

/-- … while with the printed widths the same input is passed exactly -/
example : (pMetaSkipW Params.gen 2 8 { inp := leBytes 2 4 ++ [104, 105, 110, 116] ++ leBytes 8 5 ++ [104, 101, 108, 108, 111] ++ [7, 0, 0, 0] }).inp
    = [7, 0, 0, 0] := by decide

/-! ## non-vacuity -/

/-- module `mod`: `container c { leaf b {type boolean;} leaf-list l {type uint8;} }`, `leaf e {type empty;}` -/
def exS : LSchema :=
  { modName := [109, 111, 100], rev := none
    kind := fun sid => match sid with | 0 => some .container | 1 => some .leaf | 2 => some .leaflist | 3 => some .leaf | _ => none
    name := fun sid => match sid with | 0 => [99] | 1 => [98] | 2 => [108] | 3 => [101] | _ => []
    ty := fun sid => match sid with | 1 => .val .bool | 2 => .val (.int .uint8 []) | _ => .empty
    dflts := fun _ => []
    sibs := fun par => match par with | none => [0, 3] | some 0 => [1, 2] | _ => []
    wd := none }

def exT : List DNode :=
  [.inner 0 {} [] [.term 1 { dflt := true } [] [116, 114, 117, 101], .term 2 {} [] [55], .term 2 { new := true } [] [50, 53, 53]],
   .term 3 {} [] []]

example : WfForest exS exT := by
  refine ⟨⟨rfl, rfl, ⟨⟨rfl, ⟨trivial, .bool true, rfl, rfl⟩, (by intro m h; cases h)⟩, ⟨rfl, ⟨by simp [Val.Ty.WF, Val.PartsWF], .num 7, rfl, rfl⟩, (by intro m h; cases h)⟩, ⟨rfl, ⟨by simp [Val.Ty.WF, Val.PartsWF], .num 255, rfl, rfl⟩, (by intro m h; cases h)⟩, trivial⟩, (by intro m h; cases h)⟩,
    ⟨rfl, rfl, (by intro m h; cases h)⟩, trivial⟩

def exImg : Bytes :=
  [108, 121, 98, 5, 1, 0, 3, 0, 109, 111, 100, 0, 0, 0, 0, 50, 0, 2, 0, 0, 3, 0, 109, 111, 100, 0, 0, 200, 0, 0, 0,
   0, 0, 22, 0, 1, 0, 1, 195, 0, 1, 0, 0, 0, 1, 1, 209, 12, 0, 0, 0, 0, 0, 0, 0, 0, 7, 0, 4, 0, 0, 0, 255, 0, 3, 0, 109,
   111, 100, 0, 0, 131, 0, 0, 0, 0, 0, 0]

set_option maxRecDepth 100000 in
/-- non-vacuity (audit): the printer succeeds on that tree (magic `lyb`, version, one module record, the top-level frame
with the container — whose frame holds the leaf and the leaf-list frame — and the `empty` leaf), and the theorem gives
the parse of the image -/
theorem exPrint : printLyb Params.gen {} exS exT = some exImg := by decide

example : parseLyb Params.gen exS exImg = some exT :=
  lyb_tree_roundtrip_gen {} ⟨rfl, rfl⟩ rfl exS (by intro a h; cases h) (by decide) (by decide) exT
    (by
      refine ⟨⟨rfl, rfl, ⟨⟨rfl, ⟨trivial, .bool true, rfl, rfl⟩, (by intro m h; cases h)⟩, ⟨rfl, ⟨by simp [Val.Ty.WF, Val.PartsWF], .num 7, rfl, rfl⟩, (by intro m h; cases h)⟩, ⟨rfl, ⟨by simp [Val.Ty.WF, Val.PartsWF], .num 255, rfl, rfl⟩, (by intro m h; cases h)⟩, trivial⟩, (by intro m h; cases h)⟩,
    ⟨rfl, rfl, (by intro m h; cases h)⟩, trivial⟩)
    exImg exPrint

/-- `exS` with an annotation `mod:hint` (string) -/
def exAnnot : Annot := { modName := [109, 111, 100], rev := none, name := [104, 105, 110, 116], ty := .val (.str []) }
def exSm : LSchema := { exS with annots := [exAnnot] }
/-- the container carries `hint = "hi"`, its leaf two instances `hint = ""` and `hint = "x"` -/
def exTm : List DNode :=
  [.inner 0 {} [(exAnnot.key, [104, 105])] [.term 1 {} [(exAnnot.key, []), (exAnnot.key, [120])] [116, 114, 117, 101]]]

theorem exSm_ok : AnnotsOk exSm := by
  intro a ha
  simp only [exSm, LSchema.annotsEff, exS, List.mem_singleton] at ha
  subst ha
  refine ⟨by decide, ?_, ?_⟩
  · simp [exSm, LSchema.annotsEff, exS]
  · simp only [exSm, LSchema.annotsEff, exS, List.find?_cons, List.find?_nil]
    have : modMatches exAnnot.modName (unpackRev (packRev exAnnot.rev)) exAnnot.modName exAnnot.rev = true := by decide
    simp [this]

set_option maxRecDepth 100000 in
/-- non-vacuity (audit), metadata: the printer succeeds on that tree and the theorem gives the parse of its image -/
example : ∃ img, printLyb Params.gen {} exSm exTm = some img ∧ parseLyb Params.gen exSm img = some exTm := by
  have h : (printLyb Params.gen {} exSm exTm).isSome = true := by decide
  obtain ⟨img, himg⟩ := Option.isSome_iff_exists.mp h
  have hmem : exAnnot ∈ exSm.annotsEff := by simp [exSm, LSchema.annotsEff, exS]
  refine ⟨img, himg, lyb_tree_roundtrip_gen {} ⟨rfl, rfl⟩ rfl exSm exSm_ok (by decide) (by decide) exTm ?_ img himg⟩
  refine ⟨⟨rfl, rfl, ⟨⟨rfl, ⟨trivial, .bool true, rfl, rfl⟩, ?_⟩, trivial⟩, ?_⟩, trivial⟩
  · intro m hm
    simp only [List.mem_cons, List.not_mem_nil, or_false] at hm
    rcases hm with rfl | rfl <;> exact ⟨exAnnot, hmem, rfl, rfl⟩
  · intro m hm
    simp only [List.mem_singleton] at hm
    subst hm
    exact ⟨exAnnot, hmem, rfl, rfl⟩

set_option maxRecDepth 100000 in
/-- non-vacuity (audit), single-tree mode: of `exT` (container `c`, leaf `e`) only the container tree is in the image -/
example : ∃ img, printLyb Params.gen { withSiblings := false } exS exT = some img ∧
    parseLyb Params.gen exS img = some (exT.take 1) ∧ (exT.take 1).length = 1 ∧ exT.length = 2 := by
  have h : (printLyb Params.gen { withSiblings := false } exS exT).isSome = true := by decide
  obtain ⟨img, himg⟩ := Option.isSome_iff_exists.mp h
  refine ⟨img, himg, lyb_tree_roundtrip_single Params.gen C01Lyb.params_gen_ok _ ⟨rfl, rfl⟩ rfl exS (by intro a h; cases h)
    (by decide) (by decide) exT ?_ img himg, rfl, rfl⟩
  exact ⟨⟨rfl, rfl, ⟨⟨rfl, ⟨trivial, .bool true, rfl, rfl⟩, (by intro m h; cases h)⟩, ⟨rfl, ⟨by simp [Val.Ty.WF, Val.PartsWF], .num 7, rfl, rfl⟩, (by intro m h; cases h)⟩, ⟨rfl, ⟨by simp [Val.Ty.WF, Val.PartsWF], .num 255, rfl, rfl⟩, (by intro m h; cases h)⟩, trivial⟩, (by intro m h; cases h)⟩,
    ⟨rfl, rfl, (by intro m h; cases h)⟩, trivial⟩

/-! ## outside the hypotheses -/

/-- module `y`: `container c { leaf en; leaf d64; }` — the F27 sibling pair under a one-character module name -/
def f27S : LSchema :=
  { modName := [121], rev := none
    kind := fun sid => match sid with | 0 => some .container | 1 => some .leaf | 2 => some .leaf | _ => none
    name := fun sid => match sid with | 0 => [99] | 1 => [101, 110] | 2 => [100, 54, 52] | _ => []
    ty := fun _ => .val (.str [])
    dflts := fun _ => []
    sibs := fun par => match par with | none => [0] | some 0 => [1, 2] | _ => []
    wd := none }

set_option maxRecDepth 100000 in
/-- "every well-formed forest can be printed" is **false** (finding F27, replayed on libyang by the check: `err PrintEint`):
`lyb_hash_siblings` fails for the children of `c`, so the valid tree `c { en = "v" }` has no LYB image -/
theorem lyb_tree_print_total_fails :
    ¬ ∀ (S : LSchema) (t : List DNode), S.modName ≠ [] → WfForest S t → (printLyb Params.gen {} S t).isSome = true := by
  intro H
  have := H f27S [.inner 0 {} [] [.term 1 {} [] [118]]] (by decide)
    ⟨⟨rfl, rfl, ⟨⟨rfl, ⟨trivial, .str [118], rfl, rfl⟩, (by intro m h; cases h)⟩, trivial⟩, (by intro m h; cases h)⟩, trivial⟩
  revert this
  decide

/-- `exS` in a context that has `ietf-netconf-with-defaults@2011-06-01` -/
def exSwd : LSchema := { exS with wd := some (some (dateStr 2011 6 1)) }

set_option maxRecDepth 100000 in
/-- under the tagged with-defaults modes `parse (print t) = t` is **false**: the printer writes the `default` annotation
for the node flagged `LYD_DEFAULT` (it also writes the flag), the LYB parser keeps it as ordinary metadata — the XML and
JSON parsers turn it into the flag and drop it — so the parsed tree is `viewNode` of the printed one, not the tree itself
(finding F330; same on libyang, replayed by the check) -/
theorem lyb_tree_roundtrip_tagged_fails :
    ¬ ∀ (o : POpts) (S : LSchema) (t : List DNode) (img : Bytes), printLyb Params.gen o S t = some img →
        (match parseLybF Params.gen S 40 img with | some t' => beqL t' t | none => false) = true := by
  intro H
  have := H { tagImpl := true, wdAnnot := true } exSwd exT ((printLyb Params.gen { tagImpl := true, wdAnnot := true } exSwd exT).getD []) (by decide)
  revert this
  decide

end LyModel.Props.C01LybTree
