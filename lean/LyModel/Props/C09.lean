import LyModel.Ctx.LemmasFinal
/-!
# C09 — a failed schema operation leaves the context as it was

Model: `LyModel.Ctx` (`Ctx/Model.lean`), tied to libyang on every run by `harness/api_ctx.c` (`tools/checks/c09.py`).
`run s op` is one API call (`lys_parse`, `ly_ctx_load_module`, `lys_set_implemented`, `ly_ctx_compile`,
`ly_ctx_set_options`) including `lys_unres_glob_revert` + `lys_unres_glob_erase` on failure.  Failures inside module
contents are injected through `ModSrc.faults` / `ModSrc.badAmend`, so "for every source" means "for a failure at any stage".
-/
namespace LyModel.Props.C09
open LyModel LyModel.Ctx

/-- the parsed level of the context as the API shows it: (name, revision), implemented, every feature with its value -/
def ObsCore (s : Ctx) : List (MKey × Bool × List Feat) := s.mods.map fun m => (m.key, m.implemented, m.allFeats)

/-- the same, not looking at the features of module `k` -/
def ObsExcept (k : MKey) (s : Ctx) : List (MKey × Bool × List Feat) :=
  s.mods.map fun m => (m.key, m.implemented, if m.key = k then [] else m.allFeats)

/-- a context between two API calls: nothing pending (not inside an explicit-compile batch), module keys distinct,
    only implemented modules flagged for compilation, leafref targets of implemented modules implemented -/
structure Quiescent (s : Ctx) : Prop where
  noCreating : s.creating = []
  noImplementing : s.implementing = []
  keys : (s.mods.map (·.key)).Nodup
  flags : ∀ m ∈ s.mods, m.toCompile = true → m.implemented = true
  lrefs : s.LrefClosed

/-- the operation's `features` argument -/
abbrev featArg := Op.featArg

private theorem obs_of_cores {s s' : Ctx} (h : s'.mods.map Mod.core = s.mods.map Mod.core) : ObsCore s' = ObsCore s := by
  have : ∀ t : Ctx, ObsCore t = (t.mods.map Mod.core).map (fun c => (c.key, c.implemented, c.feats ++ c.subFeats.flatten)) := by
    intro t; simp [ObsCore, List.map_map, Function.comp, Mod.core, Core.key, Mod.key, Mod.allFeats]
  rw [this, this, h]

private theorem obsExcept_of_cores {k : MKey} {s s' : Ctx} (h : s'.mods.map (coreM (some k)) = s.mods.map (coreM (some k))) :
    ObsExcept k s' = ObsExcept k s := by
  have : ∀ t : Ctx, ObsExcept k t =
      (t.mods.map (coreM (some k))).map (fun c => (c.key, c.implemented, c.feats ++ c.subFeats.flatten)) := by
    intro t
    simp only [ObsExcept, List.map_map]
    apply List.map_congr_left
    intro m _
    simp only [Function.comp, coreM, Mod.restoredCore, Core.key, Mod.key, List.contains_nil, Bool.not_false, Bool.and_true,
      Option.some.injEq, Mod.allFeats]
    by_cases hk : (m.src.name, m.src.rev) = k
    · simp [hk]
    · have : ¬ k = (m.src.name, m.src.rev) := fun h => hk h.symm
      simp [hk, this]
  rw [this, this, h]

private theorem hashParts_of_cores : ∀ (l l' : List Mod) (fi : Nat), l'.map Mod.core = l.map Mod.core →
    hashParts l' fi = hashParts l fi := by
  intro l
  induction l with
  | nil => intro l' fi h; cases l' with
    | nil => rfl
    | cons a r => simp at h
  | cons m r ih =>
    intro l' fi h
    cases l' with
    | nil => simp at h
    | cons m' r' =>
      simp only [List.map_cons, List.cons.injEq] at h
      obtain ⟨hc, hr⟩ := h
      simp only [Mod.core, Core.mk.injEq] at hc
      obtain ⟨h1, h2, h3, h4, _⟩ := hc
      have hf : ∀ fi, hashFeats m' fi = hashFeats m fi := by
        intro fi; simp [hashFeats, Mod.allFeats, h3, h4]
      simp only [hashParts, hf, h1, h2]
      rw [ih r' _ hr]

/-- where a failed call ends: nothing was attempted, or forward part + `lys_unres_glob_revert` + `lys_unres_glob_erase` -/
private theorem run_error {s : Ctx} {op : Op} {e : Nat} {s' : Ctx} (h : run s op = (.error e, s')) :
    s'.mods = s.mods ∨ s'.mods = (revert (forward op s).2).mods := by
  unfold run at h
  split at h
  · simp only [Prod.mk.injEq] at h; exact Or.inl (h.2 ▸ rfl)
  · split at h
    · next s1 hf =>
      -- success of the forward part: `run` does not report an error
      exfalso
      cases op <;> simp at h <;> (try split at h) <;> simp at h
    · next e1 s1 hf =>
      right
      rw [hf]
      cases op <;> simp only [Prod.mk.injEq] at h <;> (try (rw [← h.2]; rfl))
      -- `ly_ctx_unset_options` cannot fail
      simp [forward, modS] at hf

/-- **C09, the part that holds.**  For every context between two calls, every operation and every failure point:
    after a failed call the context shows the same modules and revisions in the same order, the same implemented flags and
    the same value of every feature — except possibly the features of the ONE module the call's `features` argument was
    applied to (F4) — and, when the call had no `features` argument (NULL), also the same module-set hash. -/
theorem failed_op_restores_partial (s : Ctx) (op : Op) (e : Nat) (s' : Ctx) (hq : Quiescent s)
    (hrun : run s op = (.error e, s')) :
    (featArg op = none → ObsCore s' = ObsCore s ∧ s'.modulesHash = s.modulesHash) ∧
    ∃ k, ObsExcept k s' = ObsExcept k s := by
  have hinv : ∀ mk, Inv mk (restore mk s) s := fun mk => ⟨rfl, hq.keys, hq.flags⟩
  rcases run_error hrun with hm | hm
  · -- nothing was attempted
    refine ⟨fun _ => ⟨by simp [ObsCore, hm], by simp [Ctx.modulesHash, hm]⟩, ⟨default, by simp [ObsExcept, hm]⟩⟩
  · constructor
    · intro hf
      have h1 := pres_forward_none op hf s (hinv none)
      have h2 := revert_cores hq.noCreating hq.noImplementing hq.lrefs h1
      have h3 : s'.mods.map Mod.core = s.mods.map Mod.core := by
        rw [hm]
        have : ∀ l : List Mod, l.map (coreM none) = l.map Mod.core := fun l =>
          List.map_congr_left (fun m _ => coreM_none m)
        rw [← this, ← this]; exact h2
      exact ⟨obs_of_cores h3, by simp only [Ctx.modulesHash]; rw [hashParts_of_cores _ _ _ h3]⟩
    · obtain ⟨k, hk⟩ := forward_masked op s (hinv none)
      refine ⟨k, obsExcept_of_cores ?_⟩
      rw [hm]
      have hk' : Inv (some k) (restore (some k) s) (forward op s).2 := by
        have : (restore none s).map (maskCore k) = restore (some k) s := by
          simp only [restore, List.map_map]
          apply List.map_congr_left
          intro m _
          exact (restoredCore_mask _ k m).symm
        rw [← this]; exact hk
      exact revert_cores hq.noCreating hq.noImplementing hq.lrefs hk'

end LyModel.Props.C09
