import LyModel.Ctx.LemmasFinal
import LyModel.Ctx.LemmasUsable
import LyModel.Ctx.LemmasLatest
import LyModel.Ctx.LemmasAmend
import LyModel.Ctx.LemmasRestore
import LyModel.Ctx.LemmasImplStage
import LyModel.Ctx.Examples
/-!
# C09 — a failed schema operation leaves the context as it was

Model: `LyModel.Ctx` (`Ctx/Model.lean`), tied to libyang on every run by `harness/api_ctx.c` (`tools/checks/c09.py`).
`run s op` is one API call (`lys_parse`, `ly_ctx_load_module`, `lys_set_implemented`, `ly_ctx_compile`,
`ly_ctx_set_options`) including `lys_unres_glob_revert` + `lys_unres_glob_erase` on failure.  Failures inside module
contents are injected through `ModSrc.faults` / `ModSrc.badAmend`, so "for every source" means "for a failure at any stage".
-/
namespace LyModel.Props.C09
open LyModel LyModel.Ctx

/-- the parsed level of the context as the API shows it: (name, revision), implemented, every feature with its value -/
def ObsCore (s : Ctx) : List (MKey × Bool × List Feat) := s.mods.map fun m => (m.key, m.implemented, m.allFeats)

/-- the same, not looking at the features of module `k` -/
def ObsExcept (k : MKey) (s : Ctx) : List (MKey × Bool × List Feat) :=
  s.mods.map fun m => (m.key, m.implemented, if m.key = k then [] else m.allFeats)

/-- a context between two API calls: nothing pending (not inside an explicit-compile batch), module keys distinct,
    only implemented modules flagged for compilation, leafref targets of implemented modules implemented -/
structure Quiescent (s : Ctx) : Prop where
  noCreating : s.creating = []
  noImplementing : s.implementing = []
  keys : (s.mods.map (·.key)).Nodup
  flags : ∀ m ∈ s.mods, m.toCompile = true → m.implemented = true
  lrefs : s.LrefClosed

/-- executable form of `Quiescent`, for concrete contexts -/
def quiescentB (s : Ctx) : Bool :=
  s.creating.isEmpty && s.implementing.isEmpty && decide ((s.mods.map (·.key)).Nodup) &&
  s.mods.all (fun m => !m.toCompile || m.implemented) && lrefClosedB (s.mods.map Mod.core)

theorem Quiescent.ofB {s : Ctx} (h : quiescentB s = true) : Quiescent s := by
  simp only [quiescentB, Bool.and_eq_true, List.isEmpty_iff, decide_eq_true_eq, List.all_eq_true, Bool.or_eq_true,
    Bool.not_eq_true'] at h
  obtain ⟨⟨⟨⟨h1, h2⟩, h3⟩, h4⟩, h5⟩ := h
  refine ⟨h1, h2, h3, ?_, lrefClosed_of_B h5⟩
  intro m hm ht
  rcases h4 m hm with h | h
  · rw [ht] at h; cases h
  · exact h

/-- the operation's `features` argument -/
abbrev featArg := Op.featArg

private theorem obs_of_cores {s s' : Ctx} (h : s'.mods.map Mod.core = s.mods.map Mod.core) : ObsCore s' = ObsCore s := by
  have : ∀ t : Ctx, ObsCore t = (t.mods.map Mod.core).map (fun c => (c.key, c.implemented, c.feats ++ c.subFeats.flatten)) := by
    intro t; simp [ObsCore, List.map_map, Function.comp, Mod.core, Core.key, Mod.key, Mod.allFeats]
  rw [this, this, h]

private theorem obsExcept_of_cores {k : MKey} {s s' : Ctx} (h : s'.mods.map (coreM (some k)) = s.mods.map (coreM (some k))) :
    ObsExcept k s' = ObsExcept k s := by
  have : ∀ t : Ctx, ObsExcept k t =
      (t.mods.map (coreM (some k))).map (fun c => (c.key, c.implemented, c.feats ++ c.subFeats.flatten)) := by
    intro t
    simp only [ObsExcept, List.map_map]
    apply List.map_congr_left
    intro m _
    simp only [Function.comp, coreM, Mod.restoredCore, Core.key, Mod.key, List.contains_nil, Bool.not_false, Bool.and_true,
      Option.some.injEq, Mod.allFeats]
    by_cases hk : (m.src.name, m.src.rev) = k
    · simp [hk]
    · have : ¬ k = (m.src.name, m.src.rev) := fun h => hk h.symm
      simp [hk, this]
  rw [this, this, h]

private theorem hashParts_of_cores (rs : Bool) : ∀ (l l' : List Mod) (fi : Nat), l'.map Mod.core = l.map Mod.core →
    hashPartsG rs l' fi = hashPartsG rs l fi := by
  intro l
  induction l with
  | nil => intro l' fi h; cases l' with
    | nil => rfl
    | cons a r => simp at h
  | cons m r ih =>
    intro l' fi h
    cases l' with
    | nil => simp at h
    | cons m' r' =>
      simp only [List.map_cons, List.cons.injEq] at h
      obtain ⟨hc, hr⟩ := h
      simp only [Mod.core, Core.mk.injEq] at hc
      obtain ⟨h1, h2, h3, h4, _⟩ := hc
      have hf : ∀ fi, hashFeats m' fi = hashFeats m fi := by
        intro fi; simp [hashFeats, Mod.allFeats, h3, h4]
      simp only [hashPartsG, hf, h1, h2]
      rw [ih r' _ hr]

private theorem hash_of_cores {s s' : Ctx} (h : s'.mods.map Mod.core = s.mods.map Mod.core) : s'.modulesHash = s.modulesHash := by
  simp only [Ctx.modulesHash, Ctx.modulesHashG]
  rw [hashParts_of_cores _ (hashedMods Generated.CtxFacts.hashSkipsInternal s) (hashedMods Generated.CtxFacts.hashSkipsInternal s') 0
    (by simp only [hashedMods, List.map_append, h])]

/-- where a failed call ends: nothing was attempted, or forward part + `lys_unres_glob_revert` + `lys_unres_glob_erase` -/
private theorem run_error {s : Ctx} {op : Op} {e : Nat} {s' : Ctx} (h : run s op = (.error e, s')) :
    s'.mods = s.mods ∨ s'.mods = (revert (restoreFeats s op (forward op s).2)).mods := by
  unfold run at h
  split at h
  · simp only [Prod.mk.injEq] at h; exact Or.inl (h.2 ▸ rfl)
  · split at h
    · next s1 hf =>
      -- success of the forward part: `run` does not report an error
      exfalso
      cases op <;> simp at h <;> (try split at h) <;> simp at h
    · next e1 s1 hf =>
      right
      rw [hf]
      cases op <;> simp only [Prod.mk.injEq] at h <;> (try (rw [← h.2]; rfl))
      -- `ly_ctx_set_options` is not a call with a `features` argument
      · rw [← h.2]
        have : ∀ ex pp, restoreFeats s (.setOpt ex pp) s1 = s1 := by
          intro ex pp; unfold restoreFeats targetKey; split <;> rfl
        rw [this]; rfl
      -- `ly_ctx_unset_options` cannot fail
      · simp [forward, modS] at hf

/-- **C09, the part that holds.**  For every context between two calls, every operation and every failure point:
    after a failed call the context shows the same modules and revisions in the same order, the same implemented flags and
    the same value of every feature — except possibly the features of the ONE module the call's `features` argument was
    applied to (F4) — and, when the call had no `features` argument (NULL), also the same module-set hash. -/
theorem failed_op_restores_partial (s : Ctx) (op : Op) (e : Nat) (s' : Ctx) (hq : Quiescent s)
    (hrun : run s op = (.error e, s')) :
    (featArg op = none → ObsCore s' = ObsCore s ∧ s'.modulesHash = s.modulesHash) ∧
    ∃ k, ObsExcept k s' = ObsExcept k s := by
  have hinv : ∀ mk, Inv mk (restore mk s) s := fun mk => ⟨rfl, hq.keys, hq.flags⟩
  rcases run_error hrun with hm | hm
  · -- nothing was attempted
    refine ⟨fun _ => ⟨by simp [ObsCore, hm], hash_of_cores (by rw [hm])⟩, ⟨default, by simp [ObsExcept, hm]⟩⟩
  · constructor
    · intro hf
      have h1 := inv_restoreFeats (op := op) hq.noCreating hq.noImplementing hq.keys (pres_forward_none op hf s (hinv none))
      have h2 := revert_cores hq.noCreating hq.noImplementing hq.lrefs h1
      have h3 : s'.mods.map Mod.core = s.mods.map Mod.core := by
        rw [hm]
        have : ∀ l : List Mod, l.map (coreM none) = l.map Mod.core := fun l =>
          List.map_congr_left (fun m _ => coreM_none m)
        rw [← this, ← this]; exact h2
      exact ⟨obs_of_cores h3, hash_of_cores h3⟩
    · obtain ⟨k, hk⟩ := forward_masked op s (hinv none)
      refine ⟨k, obsExcept_of_cores ?_⟩
      rw [hm]
      have hk' : Inv (some k) (restore (some k) s) (forward op s).2 := by
        have : (restore none s).map (maskCore k) = restore (some k) s := by
          simp only [restore, List.map_map]
          apply List.map_congr_left
          intro m _
          exact (restoredCore_mask _ k m).symm
        rw [← this]; exact hk
      exact revert_cores hq.noCreating hq.noImplementing hq.lrefs
        (inv_restoreFeats (op := op) hq.noCreating hq.noImplementing hq.keys hk')

/-- **C09 with F4 repaired (fixes/F4.diff), the statement without exception.**  When `lys_set_implemented`, `lys_parse` and
    `ly_ctx_load_module` restore the feature state of their module on the error path (`Cfg2.restoreFeats`, read off the source on
    every run), then for every context between two calls, every operation, EVERY `features` argument and every failure point:
    the failed call leaves the same modules and revisions in the same order, the same implemented flags, the same value of
    every feature of every module, and the same module-set hash. -/
theorem failed_op_restores_fixed (s : Ctx) (op : Op) (e : Nat) (s' : Ctx) (hq : Quiescent s)
    (hfix : s.cfg2.restoreFeats = true) (hrun : run s op = (.error e, s')) :
    ObsCore s' = ObsCore s ∧ s'.modulesHash = s.modulesHash := by
  rcases run_error hrun with hm | hm
  · exact ⟨by simp [ObsCore, hm], hash_of_cores (by rw [hm])⟩
  · have h1 := inv_restored op hq.noCreating hq.noImplementing hq.keys hq.flags hfix
    have h2 := revert_cores hq.noCreating hq.noImplementing hq.lrefs h1
    have h3 : s'.mods.map Mod.core = s.mods.map Mod.core := by
      rw [hm]
      have : ∀ l : List Mod, l.map (coreM none) = l.map Mod.core := fun l =>
        List.map_congr_left (fun m _ => coreM_none m)
      rw [← this, ← this]; exact h2
    exact ⟨obs_of_cores h3, hash_of_cores h3⟩

/-- what both variants give back in full: source, implemented flag, features, resolved imports of every module — with a NULL
    `features` argument, or with any argument for the code with fixes/F4.diff -/
theorem failed_op_restores_cores (s : Ctx) (op : Op) (e : Nat) (s' : Ctx) (hq : Quiescent s)
    (hf : featArg op = none ∨ s.cfg2.restoreFeats = true) (hrun : run s op = (.error e, s')) :
    s'.mods.map Mod.core = s.mods.map Mod.core := by
  have hcm : ∀ l : List Mod, l.map (coreM none) = l.map Mod.core := fun l =>
    List.map_congr_left (fun m _ => coreM_none m)
  rcases run_error hrun with hm | hm
  · rw [hm]
  · rw [hm, ← hcm, ← hcm]
    rcases hf with h | h
    · exact revert_cores hq.noCreating hq.noImplementing hq.lrefs
        (inv_restoreFeats (op := op) hq.noCreating hq.noImplementing hq.keys (pres_forward_none op h s ⟨rfl, hq.keys, hq.flags⟩))
    · exact revert_cores hq.noCreating hq.noImplementing hq.lrefs
        (inv_restored op hq.noCreating hq.noImplementing hq.keys hq.flags h)

private theorem untouched_init {s : Ctx} (hq : Quiescent s) :
    Untouched (s.mods.map fun m => (m.key, m.compiled)) [] s := by
  refine ⟨?_, hq.noImplementing, hq.keys⟩
  have : (List.filter (fun _ : Mod => true) s.mods) = s.mods := List.filter_eq_self.mpr (fun _ _ => rfl)
  simp only [hq.noCreating, List.contains_nil, Bool.not_false, this]

/-- **`data_stays_usable`, the part that holds.**  A `lys_parse` that fails in ANY stage of `lys_parse_in` — syntax,
    namespace clash, unresolved import or include (at any depth of the import chain), name collisions, if-features of
    features, identity bases — leaves every module with exactly the compiled nodes it had: data trees created before the
    call stay usable.  (From the implement stage on this is false, see `data_stays_usable_fails`.) -/
theorem data_stays_usable_partial (s : Ctx) (src : ModSrc) (feats : FeatArg) (e : Nat) (s1 : Ctx) (hq : Quiescent s)
    (hparse : parseIn (parseFuel s) src none s = (.error e, s1)) :
    (run s (.parse src feats)).2.mods.map (fun m => (m.key, m.compiled)) = s.mods.map (fun m => (m.key, m.compiled)) := by
  have h1 := (presU_parse (parseFuel s)).1 src none s (untouched_init hq)
  rw [hparse] at h1
  have hf : forward (.parse src feats) s = (.error e, s1) := by
    simp only [forward, bind_run, getS_run, hparse]
  have hno : restoreFeats s (.parse src feats) s1 = s1 := by
    simp only [restoreFeats, targetKey, hparse]; split <;> rfl
  have hr : run s (.parse src feats) = (.error e, erase (revert s1)) := by
    simp only [run, hf, hno]
  rw [hr]
  exact untouched_revert h1

/-- the same for `ly_ctx_load_module` failing inside `lys_parse_load` -/
theorem data_stays_usable_partial_load (s : Ctx) (name : Bytes) (rev : Option Bytes) (feats : FeatArg) (e : Nat) (s1 : Ctx)
    (hq : Quiescent s) (hparse : parseLoad (parseFuel s) name rev s = (.error e, s1)) :
    (run s (.load name rev feats)).2.mods.map (fun m => (m.key, m.compiled)) = s.mods.map (fun m => (m.key, m.compiled)) := by
  have h1 := (presU_parse (parseFuel s)).2 name rev s (untouched_init hq)
  rw [hparse] at h1
  have hf : forward (.load name rev feats) s = (.error e, s1) := by
    simp only [forward, bind_run, getS_run, hparse]
  have hno : restoreFeats s (.load name rev feats) s1 = s1 := by
    simp only [restoreFeats, targetKey, hparse]; split <;> rfl
  have hr : run s (.load name rev feats) = (.error e, erase (revert s1)) := by
    simp only [run, hf, hno]
  rw [hr]
  exact untouched_revert h1

/-- the part of a call before the compilation stage: `lys_parse_in` / `lys_parse_load`, then `_lys_set_implemented` -/
def preForward : Op → M Unit
  | .parse src feats => do
    let s ← getS
    let k ← parseIn (parseFuel s) src none
    setImplementedInner k feats
  | .load name rev feats => do
    let s ← getS
    let k ← parseLoad (parseFuel s) name rev
    setImplementedInner k feats
  | .setImpl k feats => setImplementedInner k feats
  | _ => pure ()

private theorem forward_of_pre {op : Op} {s : Ctx} {e : Nat} {s1 : Ctx} (h : preForward op s = (.error e, s1)) :
    forward op s = (.error e, s1) := by
  cases op with
  | parse src f =>
    simp only [preForward, forward, bind_run, getS_run] at h ⊢
    cases hp : parseIn (parseFuel s) src none s with
    | mk r t =>
      rw [hp] at h
      cases r with
      | error e' => exact h
      | ok k => simp only [implementAndCompile, bind_run] at h ⊢; rw [h]
  | load name rev f =>
    simp only [preForward, forward, bind_run, getS_run] at h ⊢
    cases hp : parseLoad (parseFuel s) name rev s with
    | mk r t =>
      rw [hp] at h
      cases r with
      | error e' => exact h
      | ok k => simp only [implementAndCompile, bind_run] at h ⊢; rw [h]
  | setImpl k f =>
    simp only [preForward, forward, implementAndCompile, bind_run] at h ⊢; rw [h]
  | compile => simp [preForward, pure_run] at h
  | setOpt ex pp => simp [preForward, pure_run] at h
  | unsetOpt ex pp => simp [preForward, pure_run] at h

private theorem presUC_preForward {c : List KC} (op : Op) : Pres (UC c) (preForward op) := by
  cases op with
  | parse src f =>
    unfold preForward
    exact pres_getBind' fun s => pres_bind ((presUC_parse _).1 _ _) (fun k => presUC_setImplementedInner k f)
  | load name rev f =>
    unfold preForward
    exact pres_getBind' fun s => pres_bind ((presUC_parse _).2 _ _) (fun k => presUC_setImplementedInner k f)
  | setImpl k f => unfold preForward; exact presUC_setImplementedInner k f
  | compile => exact pres_pure _
  | setOpt ex pp => exact pres_pure _
  | unsetOpt ex pp => exact pres_pure _

/-- **`data_stays_usable` and the compiled schema, for every failure before the compilation stage.**  In a context between two
    calls (no dependency set pending, modules that are not implemented have no compiled module), a `lys_parse`,
    `ly_ctx_load_module` or `lys_set_implemented` that fails ANYWHERE before compilation starts — syntax, imports and includes at
    any depth, name collisions, identity bases, an unknown feature, a second implemented revision, an augment / deviation target
    module that cannot be implemented, … — leaves every module with exactly the compiled module it had (the same compiled nodes,
    hence the same content): nothing is freed, nothing is recompiled.  In a LY_CTX_EXPLICIT_COMPILE context (outside a batch) that
    is every failing call of these three functions. -/
theorem compiled_untouched_before_compile (s : Ctx) (op : Op) (e : Nat) (s1 : Ctx) (hq : Quiescent s) (hd : s.depSets = [])
    (hn : ∀ m ∈ s.mods, m.implemented = false → m.compiled = none) (hpre : preForward op s = (.error e, s1)) :
    (run s op).2.mods.map (fun m => (m.key, m.compiled)) = s.mods.map (fun m => (m.key, m.compiled)) := by
  have hf := forward_of_pre hpre
  have hinv : Inv none (restore none s) s := ⟨rfl, hq.keys, hq.flags⟩
  obtain ⟨k0, hk⟩ := forward_masked op s hinv
  have hk' : Inv (some k0) (restore (some k0) s) (restoreFeats s op s1) := by
    have : (restore none s).map (maskCore k0) = restore (some k0) s := by
      simp only [restore, List.map_map]
      apply List.map_congr_left
      intro m _
      exact (restoredCore_mask _ k0 m).symm
    rw [this, hf] at hk
    exact inv_restoreFeats (op := op) hq.noCreating hq.noImplementing hq.keys hk
  have hu0 : UC (s.mods.map Mod.kc) s := ⟨hd, fun m hm _ => List.mem_map_of_mem hm⟩
  have hu1 : UC (s.mods.map Mod.kc) s1 := by
    have := presUC_preForward op s hu0
    rw [hpre] at this; exact this
  have hu : UC (s.mods.map Mod.kc) (restoreFeats s op s1) := by
    rcases restoreFeats_cases s op s1 with e1 | ⟨k1, m1, _, _, e1⟩ <;> rw [e1]
    · exact hu1
    · exact hu1.upd k1 _ (fun _ => rfl)
  have hnone : ∀ x ∈ s.mods.map Mod.kc, (restoreFeats s op s1).implementing.contains x.1 = true → x.2 = none := by
    intro x hx hin
    obtain ⟨m, hm, rfl⟩ := List.mem_map.mp hx
    apply hn m hm
    cases hmi : m.implemented with
    | false => rfl
    | true =>
      exfalso
      have hres := hk'.restore
      rw [restore_quiescent s hq.noCreating hq.noImplementing] at hres
      have hmem : coreM (some k0) m ∈ restore (some k0) (restoreFeats s op s1) := by
        rw [hres]; exact List.mem_map_of_mem hm
      unfold restore at hmem
      obtain ⟨m1, _, he⟩ := List.mem_map.mp hmem
      have h1 := congrArg Core.implemented he
      have h2 := congrArg Core.key he
      rw [coreM_implemented, hmi] at h1
      rw [coreM_key] at h2
      have h3 : (Mod.restoredCore (restoreFeats s op s1).implementing (some k0) m1).key = m1.key := rfl
      rw [h3] at h2
      have hc : (restoreFeats s op s1).implementing.contains m1.key = true := by rw [h2]; exact hin
      simp only [Mod.restoredCore, Bool.and_eq_true, Bool.not_eq_true'] at h1
      rw [hc] at h1
      exact absurd h1.2 (by simp)
  have hrev := revert_kc hq.noCreating hq.noImplementing hq.keys hk' hu hnone
  have hgoal : ∀ t : Ctx, t.mods = (revert (restoreFeats s op s1)).mods →
      t.mods.map (fun m => (m.key, m.compiled)) = s.mods.map (fun m => (m.key, m.compiled)) := fun t ht => by rw [ht]; exact hrev
  unfold run
  split
  · rfl
  · rw [hf]
    cases op with
    | parse src f => exact hgoal _ rfl
    | load name rev f => exact hgoal _ rfl
    | setImpl k f => exact hgoal _ rfl
    | compile => simp [preForward, pure_run] at hpre
    | setOpt ex pp => simp [preForward, pure_run] at hpre
    | unsetOpt ex pp => simp [preForward, pure_run] at hpre

open LyModel.Ctx.Ex in
/-- non-vacuity: `aaa@2019-01-01` implemented and compiled; `lys_parse` of `aaa@2020-01-01` gets through `lys_parse_in` (the module
    is in the context, the old revision has lost its latest flag) and is refused by `lys_implement` — a second implemented
    revision, LY_EDENIED — before anything is compiled -/
example : let s := (run (ctx0 [A19, A20]) (.parse A19 none)).2
    Quiescent s ∧ s.depSets = [] ∧ (∀ m ∈ s.mods, m.implemented = false → m.compiled = none) ∧
      (s.mods.any fun m => m.compiled.isSome) = true ∧
      ∃ e s1, preForward (.parse A20 none) s = (.error e, s1) ∧ s1.mods.length = 2 := by
  refine ⟨Quiescent.ofB (by decide +kernel), by decide +kernel, ?_, by decide +kernel, ?_⟩
  · have h : ((run (ctx0 [A19, A20]) (.parse A19 none)).2.mods.all fun m => m.implemented || m.compiled.isNone) = true := by
      decide +kernel
    intro m hm hi
    have := (List.all_eq_true.mp h) m hm
    rw [hi] at this
    simpa using this
  · refine ⟨8, (preForward (.parse A20 none) (run (ctx0 [A19, A20]) (.parse A19 none)).2).2, ?_, by decide +kernel⟩
    have h : rc (preForward (.parse A20 none) (run (ctx0 [A19, A20]) (.parse A19 none)).2).1 = 8 := by decide +kernel
    cases hp : preForward (.parse A20 none) (run (ctx0 [A19, A20]) (.parse A19 none)).2 with
    | mk r t =>
      rw [hp] at h
      cases r with
      | ok u => simp [rc] at h
      | error e' => simp only [rc] at h; rw [h]

/-! ### non-vacuity, and where the full statement fails -/

open LyModel.Ctx.Ex

private theorem run_eq_error {s : Ctx} {op : Op} {e : Nat} (h : rc (run s op).1 = e + 1) :
    run s op = (.error (e + 1), (run s op).2) := by
  cases hr : run s op with
  | mk r t =>
    rw [hr] at h
    cases r with
    | ok u => simp [rc] at h
    | error e' => simp only [rc] at h; rw [h]

def isOk (r : Except Nat Unit) : Bool := match r with
  | .ok _ => true
  | .error _ => false

private theorem run_eq_ok {s : Ctx} {op : Op} (h : isOk (run s op).1 = true) : run s op = (.ok (), (run s op).2) := by
  cases hr : run s op with
  | mk r t =>
    rw [hr] at h
    cases r with
    | ok u => rfl
    | error e' => simp [isOk] at h

/-- `aaa` implemented and compiled -/
def sA : Ctx := (run (ctx0 [A]) (.parse A none)).2

/-- a failing call in a quiescent context with a NULL features argument exists (a module whose default value is refused,
    importing and augmenting `aaa`): the hypotheses of the theorem are satisfiable, its conclusion is not trivial (the
    call had added `bbb` to the context and recompiled `aaa`) -/
example : Quiescent sA ∧ rc (run sA (.parse Bbad none)).1 = 7 ∧ featArg (.parse Bbad none) = none ∧
    (forward (.parse Bbad none) sA).2.mods.length = 2 := by
  refine ⟨Quiescent.ofB (by decide +kernel), by decide +kernel, rfl, by decide +kernel⟩

/-- **The statement as given is false (F4).**  `lys_set_implemented(aaa, {"f2"})` on the implemented module `aaa`
    (`f2` depends on `f1`) fails with LY_EDENIED and leaves `f2` enabled: `lys_set_features` flips the flags in place
    before anything can fail, and the module is in neither `creating` nor `implementing`. -/
theorem failed_op_restores_fails :
    ¬ ∀ (s : Ctx) (op : Op) (e : Nat) (s' : Ctx), Quiescent s → run s op = (.error e, s') →
        ObsCore s' = ObsCore s ∧ s'.modulesHash = s.modulesHash := by
  intro h
  have hq : Quiescent sA := Quiescent.ofB (by decide +kernel)
  have hr := run_eq_error (s := sA) (op := .setImpl (bs "aaa", []) (some [bs "f2"])) (e := 7) (by decide +kernel)
  have := (h _ _ _ _ hq hr).1
  revert this
  decide +kernel

/-- non-vacuity of `failed_op_restores_fixed`: the F4 witness in a context with the repair — the call fails with LY_EDENIED after
    `lys_set_features` had enabled `f2` (the forward part ends with `f2` on), and the theorem applies -/
example : let s := (run (ctx0 [A] false {} { restoreFeats := true }) (.parse A none)).2
    Quiescent s ∧ s.cfg2.restoreFeats = true ∧ rc (run s (.setImpl (bs "aaa", []) (some [bs "f2"]))).1 = 8 ∧
      ((forward (.setImpl (bs "aaa", []) (some [bs "f2"])) s).2.mods.any fun m => m.featOn (bs "f2") == some true) = true ∧
      ObsCore (run s (.setImpl (bs "aaa", []) (some [bs "f2"]))).2 = ObsCore s :=
  ⟨Quiescent.ofB (by decide +kernel), by decide +kernel, by decide +kernel, by decide +kernel, by decide +kernel⟩

/-- the same through `lys_implement`: a module that is only imported keeps the flipped feature although it is made
    non-implemented again (F4, second form) -/
theorem failed_implement_keeps_features :
    ∃ (s : Ctx) (op : Op) (e : Nat) (s' : Ctx), Quiescent s ∧ run s op = (.error e, s') ∧ ObsCore s' ≠ ObsCore s ∧
      s'.mods.map (·.implemented) = s.mods.map (·.implemented) :=
  let s := (run (ctx0 [A, Top]) (.parse Top none)).2
  let op : Op := .setImpl (bs "aaa", []) (some [bs "f2"])
  ⟨s, op, 8, (run s op).2, Quiescent.ofB (by decide +kernel), run_eq_error (e := 7) (by decide +kernel),
    by decide +kernel, by decide +kernel⟩

/-- non-vacuity of `data_stays_usable_partial`: `aaa@2020-01-01` with an identity whose base does not resolve fails in
    `lys_parse_in` after the module and nothing else was added to a context holding the compiled `aaa@2019-01-01` -/
example : ∃ e s1, Quiescent (run (ctx0 [A19]) (.parse A19 none)).2 ∧
    parseIn (parseFuel (run (ctx0 [A19]) (.parse A19 none)).2) A20late none (run (ctx0 [A19]) (.parse A19 none)).2 = (.error e, s1) ∧
    s1.mods.length = 2 := by
  refine ⟨7, (parseIn (parseFuel (run (ctx0 [A19]) (.parse A19 none)).2) A20late none (run (ctx0 [A19]) (.parse A19 none)).2).2,
    Quiescent.ofB (by decide +kernel), ?_, by decide +kernel⟩
  have h : rc ((parseIn (parseFuel (run (ctx0 [A19]) (.parse A19 none)).2) A20late none (run (ctx0 [A19]) (.parse A19 none)).2).1.map fun _ => ()) = 7 := by
    decide +kernel
  cases hp : parseIn (parseFuel (run (ctx0 [A19]) (.parse A19 none)).2) A20late none (run (ctx0 [A19]) (.parse A19 none)).2 with
  | mk r t =>
    rw [hp] at h
    cases r with
    | ok k => simp [rc, Except.map] at h
    | error e' => simp only [rc, Except.map] at h; rw [h]

/-- **F131.**  Without `Quiescent`: in an explicit-compile context a failed `lys_parse` also removes the modules that
    earlier, successful calls added since the last `ly_ctx_compile` (they are all in `unres.creating`). -/
theorem pending_batch_dropped :
    ∃ (s : Ctx) (op : Op) (e : Nat) (s' : Ctx), (s.mods.map (·.key)).Nodup ∧ run s op = (.error e, s') ∧
      s.mods.length = 1 ∧ s'.mods.length = 0 :=
  let s := (run (ctx0 [A] true) (.parse A none)).2
  let op : Op := .parse Bsyntax none
  ⟨s, op, 7, (run s op).2, by decide +kernel, run_eq_error (e := 6) (by decide +kernel),
    by decide +kernel, by decide +kernel⟩

/-! ### findings that were repaired: the statement for the code before the repair (`…` with the `Cfg` field `false`) and for
the code after it (`true`).  `Cfg.code` — read from the sources on every run — says which of the two is about the code as it is. -/

/-- the history of the F130 witness in a context with parameters `c`: `aaa@2019-01-01` loaded, then `aaa@2020-01-01` whose
    identity base does not resolve -/
def w130 (c : Cfg) : Ctx × Op := ((run (ctx0 [A19] false c) (.parse A19 none)).2, .parse A20late none)

/-- **F130, before the repair.**  `latest_revision` is outside `ObsCore` for a reason: a newer revision that fails after it was
    added to the context takes LYS_MOD_LATEST_REV away from the previous latest revision for good
    (`ly_ctx_get_module_latest` = NULL). -/
theorem latest_flag_not_restored (c : Cfg) (hc : c.restoreLatest = false) :
    ∃ (s : Ctx) (op : Op) (e : Nat) (s' : Ctx), s.cfg = c ∧ Quiescent s ∧ run s op = (.error e, s') ∧
      (s.getLatest (bs "aaa")).isSome = true ∧ (s'.getLatest (bs "aaa")).isSome = false := by
  have h : ∀ c : Cfg, c.restoreLatest = false → (w130 c).1.cfg = c ∧ quiescentB (w130 c).1 = true ∧
      rc (run (w130 c).1 (w130 c).2).1 = 6 + 1 ∧ ((w130 c).1.getLatest (bs "aaa")).isSome = true ∧
      ((run (w130 c).1 (w130 c).2).2.getLatest (bs "aaa")).isSome = false := forall_cfg (by decide +kernel)
  obtain ⟨h1, h2, h3, h4, h5⟩ := h c hc
  exact ⟨(w130 c).1, (w130 c).2, 7, (run (w130 c).1 (w130 c).2).2, h1, Quiescent.ofB h2, run_eq_error h3, h4, h5⟩

/-- **F130, after the repair** (`lys_unres_glob_revert` hands LYS_MOD_LATEST_REV to the newest remaining revision): the same
    failed call leaves `aaa@2019-01-01` the latest revision, with the very flags it had. -/
theorem latest_flag_restored (c : Cfg) (hc : c.restoreLatest = true) :
    let s := (w130 c).1
    let s' := (run s (w130 c).2).2
    Quiescent s ∧ rc (run s (w130 c).2).1 = 7 ∧ (s'.getLatest (bs "aaa")).isSome = true ∧
      s'.mods.map (fun m => (m.key, m.latest.rev)) = s.mods.map (fun m => (m.key, m.latest.rev)) := by
  have h : ∀ c : Cfg, c.restoreLatest = true → quiescentB (w130 c).1 = true ∧ rc (run (w130 c).1 (w130 c).2).1 = 7 ∧
      ((run (w130 c).1 (w130 c).2).2.getLatest (bs "aaa")).isSome = true ∧
      (run (w130 c).1 (w130 c).2).2.mods.map (fun m => (m.key, m.latest.rev)) = (w130 c).1.mods.map (fun m => (m.key, m.latest.rev)) :=
    forall_cfg (by decide +kernel)
  obtain ⟨h1, h2, h3, h4⟩ := h c hc
  exact ⟨Quiescent.ofB h1, h2, h3, h4⟩

/-- **F24.**  `data_stays_usable` is false: the failed load of a module that augments the implemented module `aaa`
    recompiles `aaa` twice (with the augment, then without it); the compiled nodes live data points to are gone. -/
theorem data_stays_usable_fails :
    ¬ ∀ (s : Ctx) (op : Op) (e : Nat) (s' : Ctx), Quiescent s → run s op = (.error e, s') →
        s'.mods.map (fun m => m.compiled.map (·.1)) = s.mods.map (fun m => m.compiled.map (·.1)) := by
  intro h
  have hq : Quiescent sA := Quiescent.ofB (by decide +kernel)
  have hr := run_eq_error (s := sA) (op := .parse Bbad none) (e := 6) (by decide +kernel)
  have := h _ _ _ _ hq hr
  revert this
  decide +kernel

/-- the context of the F137 witness: `mdd` parsed from sources `maa`, `mbb`, `mcc`, `mdd`, `mzz` -/
def w137 (c : Cfg) : Ctx := (run (ctx0 [Ma, Mb, Mc, Md, Mz] false c) (.parse Md none)).2

/-- **F137, before the repair.**  "Same compiled schema for every module" is false even between two calls of a context without explicit
    compilation: the successful `lys_parse(mdd)` implements `maa` (augment target of `mbb`, which is implemented for a leafref
    of `mcc`, which is implemented for a leafref of `mdd`) without ever compiling it; the failed `lys_parse(mzz)` — a module
    that does not compile — gives `maa` its compiled module through the recompilation in `lys_unres_glob_revert`. -/
theorem compiled_schema_not_restored (c : Cfg) (hc : c.compilesTargets = false) :
    ∃ (s : Ctx) (op : Op) (e : Nat) (s' : Ctx), s.cfg = c ∧ Quiescent s ∧ s.explicit = false ∧ run s op = (.error e, s') ∧
      ObsCore s' = ObsCore s ∧
      s.mods.map (fun m => (m.key, m.implemented, m.compiled.isSome)) ≠ s'.mods.map (fun m => (m.key, m.implemented, m.compiled.isSome)) := by
  have h : ∀ c : Cfg, c.compilesTargets = false → (w137 c).cfg = c ∧ quiescentB (w137 c) = true ∧ (w137 c).explicit = false ∧
      rc (run (w137 c) (.parse Mz none)).1 = 6 + 1 ∧ ObsCore (run (w137 c) (.parse Mz none)).2 = ObsCore (w137 c) ∧
      (w137 c).mods.map (fun m => (m.key, m.implemented, m.compiled.isSome)) ≠
        (run (w137 c) (.parse Mz none)).2.mods.map (fun m => (m.key, m.implemented, m.compiled.isSome)) := forall_cfg (by decide +kernel)
  obtain ⟨h1, h2, h3, h4, h5, h6⟩ := h c hc
  exact ⟨w137 c, .parse Mz none, 7, (run (w137 c) (.parse Mz none)).2, h1, Quiescent.ofB h2, h3, run_eq_error h4, h5, h6⟩

/-- **F137, after the repair** (`lys_compile_expr_implement` compiles every module implemented together with the referenced
    one): after the successful `lys_parse(mdd)` every implemented module is compiled, and the failed `lys_parse(mzz)` leaves
    the same modules compiled. -/
theorem implemented_targets_compiled (c : Cfg) (hc : c.compilesTargets = true) :
    let s := w137 c
    let s' := (run s (.parse Mz none)).2
    Quiescent s ∧ (s.mods.all fun m => !m.implemented || m.compiled.isSome) = true ∧ rc (run s (.parse Mz none)).1 = 7 ∧
      s.mods.map (fun m => (m.key, m.implemented, m.compiled.isSome)) = s'.mods.map (fun m => (m.key, m.implemented, m.compiled.isSome)) := by
  have h : ∀ c : Cfg, c.compilesTargets = true → quiescentB (w137 c) = true ∧
      ((w137 c).mods.all fun m => !m.implemented || m.compiled.isSome) = true ∧ rc (run (w137 c) (.parse Mz none)).1 = 7 ∧
      (w137 c).mods.map (fun m => (m.key, m.implemented, m.compiled.isSome)) =
        (run (w137 c) (.parse Mz none)).2.mods.map (fun m => (m.key, m.implemented, m.compiled.isSome)) := forall_cfg (by decide +kernel)
  obtain ⟨h1, h2, h3, h4⟩ := h c hc
  exact ⟨Quiescent.ofB h1, h2, h3, h4⟩

/-! ### `augmented_by` / `deviated_by` and the compiled content -/

/-- the two arrays of `struct lys_module` of every module, in context order and array order -/
def Amend (s : Ctx) : List (MKey × List MKey × List MKey) := s.mods.map fun m => (m.key, m.augBy, m.devBy)

/-- between two calls: a reference in `augmented_by` / `deviated_by` names an implemented module of the context, and no module
    is referenced twice in one array (`lys_array_add_mod_ref`) -/
structure AmendOk (s : Ctx) : Prop where
  refs : ∀ m ∈ s.mods, ∀ k ∈ m.augBy ++ m.devBy, ∃ x ∈ s.mods, x.key = k ∧ x.implemented = true
  nodup : ∀ m ∈ s.mods, m.augBy.Nodup ∧ m.devBy.Nodup

def amendOkB (s : Ctx) : Bool :=
  s.mods.all fun m => (m.augBy ++ m.devBy).all (fun k => s.mods.any fun x => x.key == k && x.implemented) &&
    decide m.augBy.Nodup && decide m.devBy.Nodup

theorem AmendOk.ofB {s : Ctx} (h : amendOkB s = true) : AmendOk s := by
  simp only [amendOkB, List.all_eq_true, Bool.and_eq_true, List.any_eq_true, beq_iff_eq, decide_eq_true_eq] at h
  exact ⟨fun m hm k hk => (h m hm).1.1 k hk, fun m hm => ⟨(h m hm).1.2, (h m hm).2⟩⟩

/-- **`augmented_by` / `deviated_by` are restored.**  For every context between two calls, every operation (with or without a
    `features` argument) and every failure point — parsing, imports at any depth, `lys_implement` of the module or of an augment /
    deviation / leafref target, compilation, the unres checks —: after the failed call EVERY module of the context, implemented
    or import-only, has exactly the `augmented_by` and `deviated_by` arrays it had, in the same order. -/
theorem amend_arrays_restored (s : Ctx) (op : Op) (e : Nat) (s' : Ctx) (hq : Quiescent s) (ha : AmendOk s)
    (hrun : run s op = (.error e, s')) : Amend s' = Amend s := by
  rcases run_error hrun with hm | hm
  · simp [Amend, hm]
  · have hinv : Inv none (restore none s) s := ⟨rfl, hq.keys, hq.flags⟩
    obtain ⟨k0, hk⟩ := forward_masked op s hinv
    have hk' : Inv (some k0) (restore (some k0) s) (forward op s).2 := by
      have : (restore none s).map (maskCore k0) = restore (some k0) s := by
        simp only [restore, List.map_map]
        apply List.map_congr_left
        intro m _
        exact (restoredCore_mask _ k0 m).symm
      rw [← this]; exact hk
    have hab0 : AB (s.mods.map Mod.av) s := by
      refine ⟨fun m hm _ => ⟨m.av, List.mem_map_of_mem hm, rfl, [], by simp [Mod.av], nofun⟩,
        fun m hm _ => ⟨m.av, List.mem_map_of_mem hm, rfl, [], by simp [Mod.av], nofun⟩, ha.nodup⟩
    have hk'' := inv_restoreFeats (op := op) hq.noCreating hq.noImplementing hq.keys hk'
    have hab : AB (s.mods.map Mod.av) (restoreFeats s op (forward op s).2) := by
      have h0 := presAB_forward op s hab0
      rcases restoreFeats_cases s op (forward op s).2 with e1 | ⟨k1, m1, _, _, e1⟩ <;> rw [e1]
      · exact h0
      · exact h0.upd k1 _ (fun _ => rfl)
    have hdis : ∀ x ∈ s.mods.map Mod.av, ∀ k ∈ x.2.1 ++ x.2.2, k ∉ (restoreFeats s op (forward op s).2).implementing := by
      intro x hx k hkx hki
      obtain ⟨m, hm0, rfl⟩ := List.mem_map.mp hx
      obtain ⟨x0, hx0, hx0k, hx0i⟩ := ha.refs m hm0 k hkx
      -- `x0` is implemented in `s`; a module in `implementing` shows as not implemented in `restore`
      have hres := hk''.restore
      rw [restore_quiescent s hq.noCreating hq.noImplementing] at hres
      have hmem : coreM (some k0) x0 ∈ restore (some k0) (restoreFeats s op (forward op s).2) := by
        rw [hres]; exact List.mem_map_of_mem hx0
      unfold restore at hmem
      obtain ⟨m1, hm1, he⟩ := List.mem_map.mp hmem
      have h1 := congrArg Core.implemented he
      have h2 := congrArg Core.key he
      rw [coreM_implemented, hx0i] at h1
      rw [coreM_key, hx0k] at h2
      have h3 : (Mod.restoredCore (restoreFeats s op (forward op s).2).implementing (some k0) m1).key = m1.key := rfl
      rw [h3] at h2
      have hc : (restoreFeats s op (forward op s).2).implementing.contains m1.key = true := by rw [h2]; simpa using hki
      simp only [Mod.restoredCore, Bool.and_eq_true, Bool.not_eq_true'] at h1
      rw [hc] at h1
      exact absurd h1.2 (by simp)
    have := revert_av hq.noCreating hq.noImplementing hq.lrefs hq.keys hk'' hab hdis
    simp only [Amend, hm]
    exact this

/-- non-vacuity: `aaa` augmented by the implemented `ccc`; the module `bbb` that also augments `aaa` fails after it was added to
    `augmented_by` of `aaa` (the unres stage refuses its default value) -/
example : let s := (run sA (.parse C none)).2
    Quiescent s ∧ AmendOk s ∧ rc (run s (.parse Bbad none)).1 = 7 ∧ (Amend s).any (fun x => !x.2.1.isEmpty) = true ∧
      ((forward (.parse Bbad none) s).2.mods.any fun m => m.augBy.length == 2) = true :=
  ⟨Quiescent.ofB (by decide +kernel), AmendOk.ofB (by decide +kernel), by decide +kernel, by decide +kernel, by decide +kernel⟩

/-- a module that is refused by the checks of the unres stage (a default value out of range), on its own -/
def Bunres : ModSrc := { src "bbb" "" with faults := [(.unres, 7)] }

/-- **F380.**  Without `Quiescent` (a pending explicit-compile batch) the compiled content is NOT restored, and not only because the
    batch is dropped (F131): `aaa` was compiled by an earlier `ly_ctx_compile`; `bbb` and `ccc` (which augments `aaa`) are parsed;
    the next `ly_ctx_compile` compiles the dependency set of `aaa` — with the augment of `ccc` — successfully, clears its
    `to_compile` flags, and fails in the dependency set of `bbb`.  `lys_unres_glob_revert` removes `ccc` (its reference disappears
    from `augmented_by` of `aaa`) but recompiles only flagged modules: `aaa` stays implemented with a compiled tree that contains
    the nodes of the module that was freed (`lysc_node.module` dangles: heap-use-after-free for every reader). -/
theorem stale_compiled_after_failed_compile :
    ∃ (s : Ctx) (e : Nat) (s' : Ctx), run s .compile = (.error e, s') ∧
      (s'.mods.all fun m => m.src.name != bs "ccc") = true ∧
      (s'.mods.any fun m => m.implemented && m.augBy.isEmpty && (match m.compiled with
        | some (_, d) => d.augBy == [bs "ccc"]
        | none => false)) = true :=
  let s := runs (ctx0 [A, Bunres, C] true) [.parse A none, .compile, .parse Bunres none, .parse C none]
  ⟨s, 7, (run s .compile).2, run_eq_error (e := 6) (by decide +kernel), by decide +kernel, by decide +kernel⟩

/-- executable form of "the compiled content of every module is what compiling it now gives, and every implemented module is
    compiled" -/
def freshB (s : Ctx) : Bool :=
  s.mods.all fun m => match m.compiled with
    | some (_, d) => d == s.descOf m
    | none => !m.implemented

/-- **F380, after the repair** (fixes/F380.diff: `lys_unres_glob_revert` marks every implemented module of the dependency set of a
    module it makes non-implemented): the same failed `ly_ctx_compile` recompiles `aaa` without the augment of the removed `ccc`;
    the compiled content of every remaining module is up to date, and that of `aaa` is the one from before the batch. -/
theorem compiled_restored_after_failed_compile_fixed :
    let s0 := runs (ctx0 [A, Bunres, C] true {} { revertMarks := true }) [.parse A none, .compile]
    let s := runs s0 [.parse Bunres none, .parse C none]
    let s' := (run s .compile).2
    rc (run s .compile).1 = 7 ∧ freshB s' = true ∧
      s'.mods.map (fun m => (m.key, m.compiled.map (·.2))) = s0.mods.map (fun m => (m.key, m.compiled.map (·.2))) ∧
      -- … while in between `aaa` WAS compiled with the augment of `ccc` and its flag unset
      ((forward .compile s).2.mods.any fun m => m.src.name == bs "aaa" && !m.toCompile && (match m.compiled with
        | some (_, d) => d.augBy == [bs "ccc"]
        | none => false)) = true := by
  refine ⟨by decide +kernel, by decide +kernel, by decide +kernel, by decide +kernel⟩

/-- the compiled content of every module is what compiling it now gives (top-level nodes with their augmenting / deviating
    modules, enabled features, features of used groupings): the state `lys_compile_depset_all` is to establish -/
def Fresh (s : Ctx) : Prop := ∀ m ∈ s.mods, ∀ i d, m.compiled = some (i, d) → d = s.descOf m

-- OPEN: compiled_schema_restored_partial —
--   ∀ s op e s', Quiescent s → AmendOk s → Fresh s → (every implemented module of s is compiled) → run s op = (.error e, s') →
--     featArg op = none → s'.mods.map (fun m => (m.key, m.compiled.map (·.2))) = s.mods.map (fun m => (m.key, m.compiled.map (·.2)))
--   Proved here: the INPUTS of the compiled content are restored — cores (`failed_op_restores_partial`: features, imports) and
--   the two arrays (`amend_arrays_restored`) —, and for failures inside `lys_parse_in` / `lys_parse_load` the compiled modules
--   themselves are untouched (`data_stays_usable_partial`).  What remains is `Fresh s'`: "every module whose compiled module
--   was built with a reference that the revert removed is flagged `to_compile` and is in a dependency set when
--   `lys_unres_glob_revert` recompiles" (`lys_unres_dep_sets_create`); the correspondence compares the structured value
--   (`:N` field: top-level nodes with augmenting / deviating modules) after every call instead.

/-- what a caller does later: `aaa@2020-01-01` appears in the repository and is loaded, then the correct module `ccc`
    (dateless import + augment of `aaa`) is parsed -/
def laterLoad (t : Ctx) : Except Nat Unit × Ctx :=
  run (run { t with repo := t.repo ++ [A20] } (.load (bs "aaa") (some (bs "2020-01-01")) none)).2 (.parse C none)

/-- the context of the F132 witness: `xxx` (imports `aaa` by revision-date 2019-01-01) parsed -/
def w132 (c : Cfg) : Ctx := (run (ctx0 [A19, X] false c) (.parse X none)).2

/-- **F132, before the repair.**  "A later load of a correct module behaves as if the failed attempt never happened" is false: the failed
    call leaves LYS_MOD_IMPORTED_REV on `aaa@2019-01-01`; after `aaa@2020-01-01` has been loaded and implemented, the
    correct module `ccc` loads from the untouched context and is refused (LY_EDENIED) from the one that saw the failed
    attempt — although both show the same modules, flags and features. -/
theorem later_load_differs (c : Cfg) (hc : c.recomputeImported = false) :
    ∃ (s : Ctx) (op : Op) (e : Nat) (s' : Ctx), s.cfg = c ∧ Quiescent s ∧ run s op = (.error e, s') ∧ ObsCore s' = ObsCore s ∧
      rc (laterLoad s).1 = 0 ∧ rc (laterLoad s').1 = 8 := by
  have h : ∀ c : Cfg, c.recomputeImported = false → (w132 c).cfg = c ∧ quiescentB (w132 c) = true ∧
      rc (run (w132 c) (.parse Bbad none)).1 = 6 + 1 ∧ ObsCore (run (w132 c) (.parse Bbad none)).2 = ObsCore (w132 c) ∧
      rc (laterLoad (w132 c)).1 = 0 ∧ rc (laterLoad (run (w132 c) (.parse Bbad none)).2).1 = 8 := forall_cfg (by decide +kernel)
  obtain ⟨h1, h2, h3, h4, h5, h6⟩ := h c hc
  exact ⟨w132 c, .parse Bbad none, 7, (run (w132 c) (.parse Bbad none)).2, h1, Quiescent.ofB h2, run_eq_error h3, h4, h5, h6⟩

/-- **F132, after the repair** (`lys_unres_glob_revert` recomputes LYS_MOD_IMPORTED_REV from the imports that remain): the
    failed call leaves LYS_MOD_LATEST_REV and LYS_MOD_IMPORTED_REV of every module as they were (LYS_MOD_LATEST_SEARCHDIRS, set on
    `aaa@2019-01-01` because the callback had nothing newer, stays) and the later load of `ccc` succeeds, ending in the same observable
    context as without the failed attempt. -/
theorem later_load_same (c : Cfg) (hc : c.recomputeImported = true) :
    let s := w132 c
    let s' := (run s (.parse Bbad none)).2
    Quiescent s ∧ rc (run s (.parse Bbad none)).1 = 7 ∧ s'.mods.map (fun m => (m.key, m.latest.rev, m.latest.imp)) = s.mods.map (fun m => (m.key, m.latest.rev, m.latest.imp)) ∧
      rc (laterLoad s').1 = 0 ∧ ObsCore (laterLoad s').2 = ObsCore (laterLoad s).2 := by
  have h : ∀ c : Cfg, c.recomputeImported = true → quiescentB (w132 c) = true ∧ rc (run (w132 c) (.parse Bbad none)).1 = 7 ∧
      (run (w132 c) (.parse Bbad none)).2.mods.map (fun m => (m.key, m.latest.rev, m.latest.imp)) =
        (w132 c).mods.map (fun m => (m.key, m.latest.rev, m.latest.imp)) ∧
      rc (laterLoad (run (w132 c) (.parse Bbad none)).2).1 = 0 ∧
      ObsCore (laterLoad (run (w132 c) (.parse Bbad none)).2).2 = ObsCore (laterLoad (w132 c)).2 := forall_cfg (by decide +kernel)
  obtain ⟨h1, h2, h3, h4, h5⟩ := h c hc
  exact ⟨Quiescent.ofB h1, h2, h3, h4, h5⟩

/-- the context of the F134 witness: `xxx` parsed; the sources also hold `aaa@2020-01-01` (fails late) and `top` -/
def w134 (c : Cfg) : Ctx := (run (ctx0 [A19, X, A20late, Top] false c) (.parse X none)).2

/-- **F132, after the repair, in general.**  In a context in which LYS_MOD_IMPORTED_REV marks exactly the modules that are
    imported without revision-date (`ImpOk`; the code sets the flag nowhere else — the contexts of the witnesses are such contexts),
    EVERY failed call — any operation, any failure point, with or without a `features` argument — leaves the flag of every
    module as it was: the failed attempt cannot redirect later dateless imports. -/
theorem imported_rev_restored (s : Ctx) (op : Op) (e : Nat) (s' : Ctx) (hq : Quiescent s)
    (hcfg : s.cfg.recomputeImported = true) (himp : s.ImpOk) (hrun : run s op = (.error e, s')) :
    s'.mods.map (fun m => (m.key, m.latest.imp)) = s.mods.map (fun m => (m.key, m.latest.imp)) := by
  rcases run_error hrun with hm | hm
  · rw [hm]
  · have hinv : Inv none (restore none s) s := ⟨rfl, hq.keys, hq.flags⟩
    obtain ⟨k, hk⟩ := forward_masked op s hinv
    have hk' : Inv (some k) (restore (some k) s) (forward op s).2 := by
      have : (restore none s).map (maskCore k) = restore (some k) s := by
        simp only [restore, List.map_map]
        apply List.map_congr_left
        intro m _
        exact (restoredCore_mask _ k m).symm
      rw [← this]; exact hk
    have hc := revert_cores hq.noCreating hq.noImplementing hq.lrefs
      (inv_restoreFeats (op := op) hq.noCreating hq.noImplementing hq.keys hk')
    rw [← hm] at hc
    have hok : ImpOkL (s'.mods.map Mod.lview) := by
      rw [hm]
      exact revert_impOk _ (by rw [restoreFeats_cfg, (cfg_constant s op).2]; exact hcfg)
    exact impOk_determined (dateless_of_coreM hc) hok himp

/-- non-vacuity: the context of the F132 witness is such a context, and the call fails in it -/
example : (w132 ⟨true, true, true, true, true⟩).ImpOk ∧ Quiescent (w132 ⟨true, true, true, true, true⟩) ∧
    rc (run (w132 ⟨true, true, true, true, true⟩) (.parse Bbad none)).1 = 7 :=
  ⟨Ctx.ImpOk.ofB (by decide +kernel), Quiescent.ofB (by decide +kernel), by decide +kernel⟩

/-- **F134, before the repair.**  A *successful* call can leave a half-parsed module behind: looking for a newer revision for a dateless
    import, `lys_parse_load_from_clb_or_file` ignores the failure of `lys_parse_in`, but the module had already been
    added to the context (and nothing reverts, because the call as a whole succeeds). -/
theorem nested_failure_leaves_debris (c : Cfg) (hc : c.loadPropagates = false) :
    ∃ (s : Ctx) (op : Op) (s' : Ctx), s.cfg = c ∧ Quiescent s ∧ run s op = (.ok (), s') ∧ (s.mods.all fun m => !m.broken) = true ∧
      (s'.mods.any fun m => m.broken) = true := by
  have h : ∀ c : Cfg, c.loadPropagates = false → (w134 c).cfg = c ∧ quiescentB (w134 c) = true ∧
      isOk (run (w134 c) (.parse Top none)).1 = true ∧ ((w134 c).mods.all fun m => !m.broken) = true ∧
      ((run (w134 c) (.parse Top none)).2.mods.any fun m => m.broken) = true := forall_cfg (by decide +kernel)
  obtain ⟨h1, h2, h3, h4, h5⟩ := h c hc
  exact ⟨w134 c, .parse Top none, (run (w134 c) (.parse Top none)).2, h1, Quiescent.ofB h2, run_eq_ok h3, h4, h5⟩

/-- **F134, after the repair** (`lys_parse_load_from_clb_or_file` returns the error of a module that failed after it was added
    to the context when another module would be used instead): the same call fails, everything is reverted — the modules,
    their flags and (when F130 is repaired as well) LYS_MOD_LATEST_REV are those from before, no half-parsed module stays. -/
theorem nested_failure_reverted (c : Cfg) (hc : c.loadPropagates = true) :
    let s := w134 c
    let s' := (run s (.parse Top none)).2
    Quiescent s ∧ rc (run s (.parse Top none)).1 = 7 ∧ (s'.mods.all fun m => !m.broken) = true ∧ ObsCore s' = ObsCore s ∧
      (!c.restoreLatest || s'.mods.map (fun m => (m.key, m.latest.rev)) == s.mods.map (fun m => (m.key, m.latest.rev))) = true := by
  have h : ∀ c : Cfg, c.loadPropagates = true → quiescentB (w134 c) = true ∧ rc (run (w134 c) (.parse Top none)).1 = 7 ∧
      ((run (w134 c) (.parse Top none)).2.mods.all fun m => !m.broken) = true ∧
      ObsCore (run (w134 c) (.parse Top none)).2 = ObsCore (w134 c) ∧
      (!c.restoreLatest || (run (w134 c) (.parse Top none)).2.mods.map (fun m => (m.key, m.latest.rev)) ==
        (w134 c).mods.map (fun m => (m.key, m.latest.rev))) = true := forall_cfg (by decide +kernel)
  obtain ⟨h1, h2, h3, h4, h5⟩ := h c hc
  exact ⟨Quiescent.ofB h1, h2, h3, h4, h5⟩

end LyModel.Props.C09
