import LyModel.Diff.Lemmas13Merge
import LyModel.Diff.LemmasRevLit
import LyModel.Diff.LemmasCancel
import LyModel.Diff.LemmasMergeEmpty
import LyModel.Diff.K13Canon
/-!
# C13 — the 4 × 4 operation table of `lyd_diff_merge_*`, cell by cell, against the composition of the two applications

For a leaf `s` and the diff nodes exactly as `lyd_diff_add` writes them (`nCreate`, `nDelete`, `nReplace`, `nNone`: metadata
`operation`, `orig-default`, `orig-value` in that order), with the values and flags two diffs that apply one after the other
must have (the second node describes what the first one left):
`cellEff` — the effect of the node `mergeCell` produces on the instance, or no effect when `lyd_diff_is_redundant` drops it — equals
`seqEff` — the effect of the first node followed by the effect of the second one — up to `normN` (= `lyd_compare_siblings`
with `LYD_COMPARE_DEFAULTS`).  `merge_cell_apply` carries such an equation over to `applyNode` on a good sibling list.
The six cells the C rejects cannot be reached by such pairs (`merge_rejected_unreachable`); without `LYD_DIFF_DEFAULTS` the
second diff does not describe what the first one left as soon as default nodes are involved, and they are reached (F18(a)).
-/
set_option linter.unusedSimpArgs false
namespace LyModel.Props.C13
open LyModel LyModel.Tree LyModel.Diff

section cells
variable {S : Schema} {o : MergeOpts} {s : Nat} (hleaf : S.isKind s .leaf = true)
include hleaf

/-- `create` then `delete`: nothing is left (the node is redundant) -/
theorem merge_cell_create_delete (f f2 : Flags) (v : Bytes) (hf : f2.dflt = f.dflt) :
    cellEff S o .delete (nCreate s f v) .create (nDelete s f2 v) none = seqEff S (nCreate s f v) (nDelete s f2 v) none ∧
      cellEff S o .delete (nCreate s f v) .create (nDelete s f2 v) none = some none := by
  have h1 := isUserOrd_of_leaf hleaf
  have h2 := isDupInst_of_leaf hleaf
  have h3 := isTerm_of_leaf hleaf
  have h4 := isKind_iff.mp hleaf
  constructor <;> cell_simp h1 h2 h3 h4 [hf] <;> (cases hq : f.dflt <;> simp_all)

/-- `create` then `replace`: created with the new value and flag -/
theorem merge_cell_create_replace (f f2 : Flags) (v v2 : Bytes) (hv : v2 ≠ v) :
    cellEff S o .replace (nCreate s f v) .create (nReplace s f2 v2 f.dflt v) none =
      seqEff S (nCreate s f v) (nReplace s f2 v2 f.dflt v) none := by
  have h1 := isUserOrd_of_leaf hleaf
  have h2 := isDupInst_of_leaf hleaf
  have h3 := isTerm_of_leaf hleaf
  have h4 := isKind_iff.mp hleaf
  have hv' : ¬ v = v2 := fun h => hv h.symm
  cell_simp h1 h2 h3 h4 [hv, hv', hleaf]

/-- `create` then `none` (default flag change): created with the new flag -/
theorem merge_cell_create_none (f f2 : Flags) (v : Bytes) :
    cellEff S o .none (nCreate s f v) .create (nNone s f2 v f.dflt) none = seqEff S (nCreate s f v) (nNone s f2 v f.dflt) none := by
  have h1 := isUserOrd_of_leaf hleaf
  have h2 := isDupInst_of_leaf hleaf
  have h3 := isTerm_of_leaf hleaf
  have h4 := isKind_iff.mp hleaf
  cell_simp h1 h2 h3 h4 [hleaf]

/-- `delete` then `create`: `none` (same value; dropped if the flag is the same too) or `replace`.  Under
`LYD_DIFF_MERGE_DEFAULTS` this needs the repaired condition of `lyd_diff_merge_create` (finding F18(b)). -/
theorem merge_cell_delete_create (f f2 fx : Flags) (mx : List Meta) (v v2 : Bytes) (hfx : fx.dflt = f.dflt)
    (hq : o.defaults = true → Generated.Diff13.mergeDfltNeedsDeletedDflt = true) :
    cellEff S o .create (nDelete s f v) .delete (nCreate s f2 v2) (some (.term s fx mx v)) =
      seqEff S (nDelete s f v) (nCreate s f2 v2) (some (.term s fx mx v)) := by
  have h1 := isUserOrd_of_leaf hleaf
  have h2 := isDupInst_of_leaf hleaf
  have h3 := isTerm_of_leaf hleaf
  have h4 := isKind_iff.mp hleaf
  by_cases hv : v = v2
  · subst hv
    cases hd1 : f.dflt <;> cases hd2 : f2.dflt <;> cases ho : o.defaults <;>
      cell_simp h1 h2 h3 h4 [hleaf, hfx, hd1, hd2, ho] <;> simp_all
  · have hv' : ¬ v2 = v := fun h => hv h.symm
    cases ho : o.defaults
    · cell_simp h1 h2 h3 h4 [hleaf, hfx, hv, hv', ho]
    · have hq' := hq ho
      cases hsd : ((S.get? s).bind fun n => n.dflts.head?) with
      | none => cell_simp h1 h2 h3 h4 [hleaf, hfx, hv, hv', ho, hq', hsd]
      | some dv =>
        by_cases h5 : dv = v2
        · subst h5
          cell_simp h1 h2 h3 h4 [hleaf, hfx, hv, hv', ho, hq', hsd]
        · cell_simp h1 h2 h3 h4 [hleaf, hfx, hv, hv', ho, hq', hsd, h5]

/-- `replace` then `replace`: `replace` from the first value to the last one — or `none` when it is the first value again
(dropped if the flag is back as well) -/
theorem merge_cell_replace_replace (f f2 fx : Flags) (mx : List Meta) (v v2 ov : Bytes) (hv : v ≠ ov) (hv2 : v2 ≠ v) :
    cellEff S o .replace (nReplace s f v fx.dflt ov) .replace (nReplace s f2 v2 f.dflt v) (some (.term s fx mx ov)) =
      seqEff S (nReplace s f v fx.dflt ov) (nReplace s f2 v2 f.dflt v) (some (.term s fx mx ov)) := by
  have h1 := isUserOrd_of_leaf hleaf
  have h2 := isDupInst_of_leaf hleaf
  have h3 := isTerm_of_leaf hleaf
  have h4 := isKind_iff.mp hleaf
  have hv' : ¬ ov = v := fun h => hv h.symm
  have hv2' : ¬ v = v2 := fun h => hv2 h.symm
  by_cases hb : ov = v2
  · subst hb
    cases hd1 : fx.dflt <;> cases hd2 : f2.dflt <;> cell_simp h1 h2 h3 h4 [hleaf, hv, hv', hv2, hv2', hd1, hd2]
  · have hb' : ¬ v2 = ov := fun h => hb h.symm
    cell_simp h1 h2 h3 h4 [hleaf, hv, hv', hv2, hv2', hb, hb']

/-- `replace` then `delete`: `delete` (of the original value) -/
theorem merge_cell_replace_delete (f f2 fx : Flags) (mx : List Meta) (v ov : Bytes) (hv : v ≠ ov) :
    cellEff S o .delete (nReplace s f v fx.dflt ov) .replace (nDelete s f2 v) (some (.term s fx mx ov)) =
      seqEff S (nReplace s f v fx.dflt ov) (nDelete s f2 v) (some (.term s fx mx ov)) := by
  have h1 := isUserOrd_of_leaf hleaf
  have h2 := isDupInst_of_leaf hleaf
  have h3 := isTerm_of_leaf hleaf
  have h4 := isKind_iff.mp hleaf
  have hv' : ¬ ov = v := fun h => hv h.symm
  cell_simp h1 h2 h3 h4 [hleaf, hv, hv']

/-- `replace` then `none`: `replace` with the new flag -/
theorem merge_cell_replace_none (f f2 fx : Flags) (mx : List Meta) (v ov : Bytes) (hv : v ≠ ov) :
    cellEff S o .none (nReplace s f v fx.dflt ov) .replace (nNone s f2 v f.dflt) (some (.term s fx mx ov)) =
      seqEff S (nReplace s f v fx.dflt ov) (nNone s f2 v f.dflt) (some (.term s fx mx ov)) := by
  have h1 := isUserOrd_of_leaf hleaf
  have h2 := isDupInst_of_leaf hleaf
  have h3 := isTerm_of_leaf hleaf
  have h4 := isKind_iff.mp hleaf
  have hv' : ¬ ov = v := fun h => hv h.symm
  cell_simp h1 h2 h3 h4 [hleaf, hv, hv']

/-- `none` (flag change) then `replace`: `replace` — the C sets no `orig-value` and clears the default flag instead of taking
the one of the second diff; a leaf whose flag changed has its default value, so the new value is not the default one and its
flag is clear (`hnd`) -/
theorem merge_cell_none_replace (f f2 fx : Flags) (mx : List Meta) (v v2 : Bytes) (hv2 : v2 ≠ v) (hnd : f2.dflt = false) :
    cellEff S o .replace (nNone s f v fx.dflt) .none (nReplace s f2 v2 f.dflt v) (some (.term s fx mx v)) =
      seqEff S (nNone s f v fx.dflt) (nReplace s f2 v2 f.dflt v) (some (.term s fx mx v)) := by
  have h1 := isUserOrd_of_leaf hleaf
  have h2 := isDupInst_of_leaf hleaf
  have h3 := isTerm_of_leaf hleaf
  have h4 := isKind_iff.mp hleaf
  have hv2' : ¬ v = v2 := fun h => hv2 h.symm
  cell_simp h1 h2 h3 h4 [hleaf, hv2, hv2', hnd]

/-- `none` then `delete`: `delete` -/
theorem merge_cell_none_delete (f f2 fx : Flags) (mx : List Meta) (v : Bytes) :
    cellEff S o .delete (nNone s f v fx.dflt) .none (nDelete s f2 v) (some (.term s fx mx v)) =
      seqEff S (nNone s f v fx.dflt) (nDelete s f2 v) (some (.term s fx mx v)) := by
  have h1 := isUserOrd_of_leaf hleaf
  have h2 := isDupInst_of_leaf hleaf
  have h3 := isTerm_of_leaf hleaf
  have h4 := isKind_iff.mp hleaf
  cell_simp h1 h2 h3 h4 [hleaf]

/-- `none` then `none`: `none` with the last flag (dropped if it is the first one again) -/
theorem merge_cell_none_none (f f2 fx : Flags) (mx : List Meta) (v : Bytes) :
    cellEff S o .none (nNone s f v fx.dflt) .none (nNone s f2 v f.dflt) (some (.term s fx mx v)) =
      seqEff S (nNone s f v fx.dflt) (nNone s f2 v f.dflt) (some (.term s fx mx v)) := by
  have h1 := isUserOrd_of_leaf hleaf
  have h2 := isDupInst_of_leaf hleaf
  have h3 := isTerm_of_leaf hleaf
  have h4 := isKind_iff.mp hleaf
  cases hd1 : fx.dflt <;> cases hd2 : f2.dflt <;> cell_simp h1 h2 h3 h4 [hleaf, hd1, hd2]

end cells

/-! ## the cells for a leaf-list instance (system-ordered: no `replace`; the instance is identified by its value) -/

theorem isTerm_of_leaflist {S : Schema} {s : Nat} (hll : S.isKind s .leaflist = true) : S.isTerm s = true := by
  have := isKind_iff.mp hll
  simp [Schema.isTerm, Schema.isKind, this]

theorem isLeaf_of_leaflist {S : Schema} {s : Nat} (hll : S.isKind s .leaflist = true) : S.isKind s .leaf = false := by
  have := isKind_iff.mp hll
  simp [Schema.isKind, this]

section cellsLL
variable {S : Schema} {o : MergeOpts} {s : Nat} (hll : S.isKind s .leaflist = true) (h1 : S.isUserOrd s = false)
  (h2 : S.isDupInst s = false)
include hll h1 h2

/-- leaf-list instance: `create` then `delete` -/
theorem merge_cell_ll_create_delete (f f2 : Flags) (v : Bytes) (hf : f2.dflt = f.dflt) :
    cellEff S o .delete (nCreate s f v) .create (nDelete s f2 v) none = seqEff S (nCreate s f v) (nDelete s f2 v) none := by
  have h3 := isTerm_of_leaflist hll
  have h4 := isKind_iff.mp hll
  have h5 := isLeaf_of_leaflist hll
  cell_simp h1 h2 h3 h4 [hf, h5] <;> (cases hq : f.dflt <;> simp_all)

theorem merge_cell_ll_create_none (f f2 : Flags) (v : Bytes) :
    cellEff S o .none (nCreate s f v) .create (nNone s f2 v f.dflt) none = seqEff S (nCreate s f v) (nNone s f2 v f.dflt) none := by
  have h3 := isTerm_of_leaflist hll
  have h4 := isKind_iff.mp hll
  have h5 := isLeaf_of_leaflist hll
  cell_simp h1 h2 h3 h4 [h5]

theorem merge_cell_ll_delete_create (f f2 fx : Flags) (mx : List Meta) (v : Bytes) (hfx : fx.dflt = f.dflt) :
    cellEff S o .create (nDelete s f v) .delete (nCreate s f2 v) (some (.term s fx mx v)) =
      seqEff S (nDelete s f v) (nCreate s f2 v) (some (.term s fx mx v)) := by
  have h3 := isTerm_of_leaflist hll
  have h4 := isKind_iff.mp hll
  have h5 := isLeaf_of_leaflist hll
  cases hd1 : f.dflt <;> cases hd2 : f2.dflt <;> cell_simp h1 h2 h3 h4 [h5, hfx, hd1, hd2] <;> simp_all

theorem merge_cell_ll_none_delete (f f2 fx : Flags) (mx : List Meta) (v : Bytes) :
    cellEff S o .delete (nNone s f v fx.dflt) .none (nDelete s f2 v) (some (.term s fx mx v)) =
      seqEff S (nNone s f v fx.dflt) (nDelete s f2 v) (some (.term s fx mx v)) := by
  have h3 := isTerm_of_leaflist hll
  have h4 := isKind_iff.mp hll
  have h5 := isLeaf_of_leaflist hll
  cell_simp h1 h2 h3 h4 [h5]

theorem merge_cell_ll_none_none (f f2 fx : Flags) (mx : List Meta) (v : Bytes) :
    cellEff S o .none (nNone s f v fx.dflt) .none (nNone s f2 v f.dflt) (some (.term s fx mx v)) =
      seqEff S (nNone s f v fx.dflt) (nNone s f2 v f.dflt) (some (.term s fx mx v)) := by
  have h3 := isTerm_of_leaflist hll
  have h4 := isKind_iff.mp hll
  have h5 := isLeaf_of_leaflist hll
  cases hd1 : fx.dflt <;> cases hd2 : f2.dflt <;> cell_simp h1 h2 h3 h4 [h5, hd1, hd2]
end cellsLL

/-! ## a change undone by the second diff disappears (`lyd_diff_is_redundant`) -/

theorem merge_cancel_leaf {S : Schema} {o : MergeOpts} {s : Nat} (hleaf : S.isKind s .leaf = true) (f f2 : Flags)
    (v ov : Bytes) (od : Bool) (hv : v ≠ ov) :
    -- created, then deleted
    cellDropped S o .delete (nCreate s f v) .create (nDelete s { f2 with dflt := f.dflt } v) = true ∧
    -- deleted, then created again with the same value and flag
    (o.defaults = false → cellDropped S o .create (nDelete s f v) .delete (nCreate s { f2 with dflt := f.dflt } v) = true) ∧
    -- value changed, then changed back (flag as before)
    cellDropped S o .replace (nReplace s f v od ov) .replace (nReplace s { f2 with dflt := od } ov f.dflt v) = true ∧
    -- flag changed, then changed back
    cellDropped S o .none (nNone s f v od) .none (nNone s { f2 with dflt := od } v f.dflt) = true := by
  have h1 := isUserOrd_of_leaf hleaf
  have h2 := isDupInst_of_leaf hleaf
  have h3 := isTerm_of_leaf hleaf
  have h4 := isKind_iff.mp hleaf
  have hv' : ¬ ov = v := fun h => hv h.symm
  refine ⟨?_, ?_, ?_, ?_⟩
  · cases hd : f.dflt <;>
      simp [cellDropped, mergeCell, mergeDelete, sameInst, nCreate, nDelete, h1, h2, h3, h4, Except.map, changeOp, eraseMeta,
        addMeta, DNode.setMetas, DNode.setKids, DNode.kids, keysOf, noKeys, isRedundant, effOp, ownOp, getMeta, DNode.metas,
        ofBytes_none, Op.str, DNode.sid, DNode.val, DNode.flags, DNode.isTerm, boolBytes_eq_true, boolBytes_eq_false, op_beq, hd]
  · intro ho
    cases hd : f.dflt <;>
      simp [cellDropped, mergeCell, mergeCreate, sameInst, nCreate, nDelete, h1, h2, h3, h4, hleaf, Except.map, changeOp,
        eraseMeta, addMeta, DNode.setMetas, DNode.setKids, DNode.setDflt, DNode.setFlags, DNode.kids, keysOf, noKeys, isRedundant,
        effOp, ownOp, getMeta, DNode.metas, ofBytes_none, Op.str, DNode.sid, DNode.val, DNode.flags, DNode.isTerm,
        boolBytes_eq_true, boolBytes_eq_false, op_beq, hd, ho]
  · cases hd : od <;>
      simp [cellDropped, mergeCell, mergeReplace, sameInst, nReplace, h1, h2, h3, h4, hleaf, Except.map, changeOp, changeTerm,
        eraseMeta, addMeta, DNode.setMetas, DNode.setKids, DNode.setDflt, DNode.setFlags, DNode.setVal, DNode.kids, keysOf, noKeys,
        isRedundant, effOp, ownOp, getMeta, DNode.metas, ofBytes_none, Op.str, DNode.sid, DNode.val, DNode.flags, DNode.isTerm,
        boolBytes_eq_true, boolBytes_eq_false, op_beq, hd, hv, hv']
  · cases hd : od <;>
      simp [cellDropped, mergeCell, mergeNone, nNone, h1, h2, h3, h4, hleaf, Except.map, DNode.setDflt, DNode.setFlags,
        isRedundant, effOp, ownOp, getMeta, DNode.metas, ofBytes_none, Op.str, DNode.sid, DNode.val, DNode.flags, DNode.isTerm,
        boolBytes_eq_true, boolBytes_eq_false, op_beq, hd]

/-! ## the cells the C rejects cannot be reached by two diffs that apply one after the other -/

/-- If the first node has taken the instance `e` to `e1`, and the second node's operation fits `e1` (`create`: there is no
instance; any other operation: there is one), the pair of operations is an accepted cell of the table. -/
theorem merge_rejected_unreachable {S : Schema} {t src : DNode} {e e1 : Option DNode} {cop sop : Op}
    (hcop : effOp t none = some cop) (hsop : effOp src none = some sop) (hT : termEff S none t e = some e1)
    (hS : if sop = .create then e1 = none else e1.isSome = true) :
    (opCode sop, opCode cop) ∈ Generated.Diff13.mergeAccepted := by
  unfold termEff at hT
  rw [hcop] at hT
  cases cop <;> cases e <;> simp at hT
  all_goals (try split at hT) <;> try (simp at hT)
  all_goals (try subst hT) <;> cases sop <;> simp_all [opCode] <;> decide


/-! ## from the effect on the instance to `applyNode` on a sibling list -/

/-- A cell equation `cellEff … = seqEff …` at the instance the nodes address means: applying the node the merge produced (or
nothing, when it was dropped) to a good sibling list gives the same list (up to `normN`) as applying the two nodes one after
the other.  SUPERSEDED by `merge_cell_apply_on` (`KeyOrder S` cannot hold when `S` has a keyed list: Props/C13
`keyOrder_no_keyed_list`; the sibling list `L` may well contain list instances). -/
theorem merge_cell_apply {S : Schema} {fx : Fixes} (K : KeyOrder S) {o : MergeOpts} {L : List DNode} {t src m : DNode} {mv : Bool}
    {sop cop : Op} {n : Nat} {hp : Bool} (hn : 0 < n) (hgL : goodT S L = true)
    (hleaf : S.isKind t.sid .leaf = true) (htt : t.isTerm = true) (hst : src.isTerm = true) (hss : src.sid = t.sid)
    (hk : S.isKey t.sid = false) (hkb : KeysBelow S t L)
    (hm : mergeCell S o sop t cop src = .ok (m, mv))
    (hmt : (isRedundant S none m).1.isTerm = true) (hms : (isRedundant S none m).1.sid = t.sid)
    (hcell : cellEff S o sop t cop src (look S L t) = seqEff S t src (look S L t))
    (hseq : (seqEff S t src (look S L t)).isSome = true) :
    ∃ L1 L2 L2', applyNode S fx n L hp none t = .ok L1 ∧ applyNode S fx n L1 hp none src = .ok L2 ∧
      (if (isRedundant S none m).2 then Except.ok L else applyNode S fx n L hp none (isRedundant S none m).1) = .ok L2' ∧
      normL13 L2' = normL13 L2 := by
  have hdom : ∀ d : DNode, d.isTerm = true → d.sid = t.sid → Dom S d := fun d hd hs =>
    ⟨by rw [hs]; exact isUserOrd_of_leaf hleaf, by rw [hs]; exact isDupInst_of_leaf hleaf,
      by rw [hd, hs, isTerm_of_leaf hleaf]⟩
  have hmatch : ∀ d : DNode, d.sid = t.sid → ∀ x, matchP S d x = matchP S t x := fun d hs x => by
    rw [matchP_leaf_eq (by rw [hs]; exact hleaf), matchP_leaf_eq hleaf, hs]
  have htd := hdom t htt rfl
  have hsd := hdom src hst hss
  -- the two applications
  unfold seqEff at hseq hcell
  cases hT : termEff S none t (look S L t) with
  | none => simp [hT] at hseq
  | some e1 =>
    cases hS : termEff S none src e1 with
    | none => simp [hT, hS] at hseq
    | some e2 =>
      simp only [hT, hS, Option.bind_some, Option.map_some] at hcell
      obtain ⟨L1, ha1, hg1, hk1, hloc1, hl1⟩ := apply_term_eff (n := n) (hp := hp) K hgL htd htt hk hkb hn hT
      have hl1s : look S L1 src = e1 := by rw [look_congr_fun (hmatch src hss)]; exact hl1
      have hkb1 : KeysBelow S src L1 := by
        intro k hkm
        rw [hk1] at hkm
        rw [hss]
        exact hkb k hkm
      obtain ⟨L2, ha2, hg2, _, hloc2, hl2⟩ := apply_term_eff (n := n) (hp := hp) K hg1 hsd hst (by rw [hss]; exact hk) hkb1 hn
        (by rw [hl1s]; exact hS)
      have hl2t : look S L2 t = e2 := by rw [← look_congr_fun (hmatch src hss)]; exact hl2
      have hother : ∀ q, Dom S q → matchP S t q = false → look S L2 q = look S L q := by
        intro q hq hcq
        rw [hloc2 q hq (by rw [hmatch src hss]; exact hcq), hloc1 q hq hcq]
      -- lists that agree with `L2` everywhere else and (up to normN) at the place of `t`
      have hfin : ∀ L2', goodT S L2' = true → (∀ q, Dom S q → matchP S t q = false → look S L2' q = look S L q) →
          (look S L2' t).map normN = e2.map normN → normL13 L2' = normL13 L2 := by
        intro L2' hg' hoth hat
        apply normL_eq_of_look K (goodT_goodL hg') (goodT_goodL hg2)
        intro q hq
        by_cases hcq : matchP S t q = true
        · rw [← look_congr K (goodT_goodL hg') htd hq hcq, ← look_congr K (goodT_goodL hg2) htd hq hcq, hat, hl2t]
        · have hcq' : matchP S t q = false := by simpa using hcq
          rw [hoth q hq hcq', hother q hq hcq']
      refine ⟨L1, L2, ?_⟩
      unfold cellEff at hcell
      rw [hm] at hcell
      simp only at hcell
      cases hred : (isRedundant S none m).2
      · -- the merged node is kept
        simp only [hred, Bool.false_eq_true, ↓reduceIte] at hcell ⊢
        cases hM : termEff S none (isRedundant S none m).1 (look S L t) with
        | none => simp [hM] at hcell
        | some e3 =>
          simp only [hM, Option.map_some, Option.some.injEq] at hcell
          have hmd := hdom _ hmt hms
          have hlm : look S L (isRedundant S none m).1 = look S L t := look_congr_fun (hmatch _ hms)
          obtain ⟨L2', ha3, hg3, _, hloc3, hl3⟩ := apply_term_eff (n := n) (hp := hp) K hgL hmd hmt (by rw [hms]; exact hk)
            (by intro k hkm; rw [hms]; exact hkb k hkm) hn (by rw [hlm]; exact hM)
          refine ⟨L2', ha1, ha2, ha3, hfin L2' hg3 ?_ ?_⟩
          · intro q hq hcq
            exact hloc3 q hq (by rw [hmatch _ hms]; exact hcq)
          · rw [← look_congr_fun (hmatch _ hms), hl3]
            exact hcell
      · -- the merged node was dropped
        simp only [hred, ↓reduceIte, Option.some.injEq] at hcell ⊢
        exact ⟨L, ha1, ha2, rfl, hfin L hgL (fun _ _ _ => rfl) hcell⟩

/-- `merge_cell_apply` under `K13.KeyOrderOn S P` (Diff/K13Ord.lean: the order axioms asked only of nodes satisfying `P`; proved for
`P = K13.keyedOK S`, Props/C13 `keyOrderOn_keyed`): the sibling list `L` is a good list all of whose nodes satisfy `P` — it may
contain instances of keyed lists next to the leaf the two diff nodes address. -/
theorem merge_cell_apply_on {S : Schema} {fx : Fixes} {P : DNode → Bool} (K : K13.KeyOrderOn S P) {o : MergeOpts} {L : List DNode}
    {t src m : DNode} {mv : Bool} {sop cop : Op} {n : Nat} {hp : Bool} (hn : 0 < n) (hgL : K13.goodT S P L = true)
    (hleaf : S.isKind t.sid .leaf = true) (htt : t.isTerm = true) (hst : src.isTerm = true) (hss : src.sid = t.sid)
    (hk : S.isKey t.sid = false) (hkb : KeysBelow S t L)
    (hm : mergeCell S o sop t cop src = .ok (m, mv))
    (hmt : (isRedundant S none m).1.isTerm = true) (hms : (isRedundant S none m).1.sid = t.sid)
    (hcell : cellEff S o sop t cop src (look S L t) = seqEff S t src (look S L t))
    (hseq : (seqEff S t src (look S L t)).isSome = true) :
    ∃ L1 L2 L2', applyNode S fx n L hp none t = .ok L1 ∧ applyNode S fx n L1 hp none src = .ok L2 ∧
      (if (isRedundant S none m).2 then Except.ok L else applyNode S fx n L hp none (isRedundant S none m).1) = .ok L2' ∧
      normL13 L2' = normL13 L2 :=
  K13.merge_cell_apply K hn hgL hleaf htt hst hss hk hkb hm hmt hms hcell hseq

/-! ## computed diffs satisfy the hypotheses of the tree-level law -/

/-- The two diffs `lyd_diff_siblings` computes for well-formed `A`, `B`, `C` chain exactly: `D1 = diff(A, B)` is an exact diff
for `A` (Props/C13 `diff_exact`), applying it gives a good tree `B'` with the observation of `B`, and `D2 = diff(B, C)` is an
exact diff for that `B'` (exactness does not look at what `LYD_NEW` / metadata / container flags: `exactDiff_congr_norm`).
These are the hypotheses under which `merge_apply_partial` (OPEN, below) is stated. -/
theorem diff_chain_exact (S : Schema) (fx : Fixes) (A B C : List DNode) (hA : wfForest S A = true) (hB : wfForest S B = true)
    (hC : wfForest S C = true) (hk : KeysDistinguished S (A ++ B)) :
    exactDiff S A (diff S true A B) = true ∧
    ∃ B', apply S A (diff S true A B) fx = .ok B' ∧ goodT S B' = true ∧ dataEqL true B' B = true ∧
      exactDiff S B' (diff S true B C) = true := by
  obtain ⟨B', h1, h2, h3, h4⟩ := Diff.diff_chain_exact S fx A B C hA hB hC hk
  exact ⟨exactDiff_diff S A B hA hB, B', h1, h2, (dataEqL_iff_norm B' B).mpr h3, h4⟩

/-! ## merge_cancel at tree level -/

/-- **merge_cancel**: merging the reversed diff of an exact diff `D` (in the metadata layout `lyd_diff_add` writes, `stdL`) into
`D` leaves the empty diff — `lyd_diff_merge_all(D, lyd_diff_reverse_all(D)) = {}` — for trees of any depth: every reversed node
finds its original, the cell of the table turns it into `none`, the recursion (created / deleted subtrees with inherited
operations included) empties its children, `lyd_diff_is_redundant` drops it.  Both settings of `LYD_DIFF_MERGE_DEFAULTS`; no
hypothesis on the `sort` callbacks (`KeyOrder` is not used): keyed lists are covered. -/
theorem merge_cancel {S : Schema} {o : MergeOpts} {A D : List DNode} (hD : exactDiff S A D = true) (hstd : stdL D = true) :
    ∃ R, reverse S D = .ok R ∧ mergeDiff o S D R = .ok [] :=
  merge_reverse_empty hD hstd

/-- … unconditionally for every computed diff of well-formed trees -/
theorem merge_cancel_diff {S : Schema} {o : MergeOpts} {A B : List DNode} (hA : wfForest S A = true) (hB : wfForest S B = true) :
    ∃ R, reverse S (diff S true A B) = .ok R ∧ mergeDiff o S (diff S true A B) R = .ok [] :=
  merge_reverse_empty (exactDiff_diff S A B hA hB) (stdL_diff S A B hA hB)

/-- a keyed list with nested content, a leaf-list and leaves: `l[1]` changed inside, `l[2]` deleted, `l[3]` created -/
def mcS : Schema := { modName := "mc", nodes := [
  { depth := 0, kind := .list, name := "l", nkeys := 1 },
  { depth := 1, kind := .leaf, name := "k", iskey := true },
  { depth := 1, kind := .leaf, name := "v", dflts := [bs "d"] },
  { depth := 1, kind := .leaflist, name := "ll" },
  { depth := 0, kind := .leaf, name := "top" } ] }
def mcL (k : String) (ks : List DNode) : DNode := .inner 0 {} [] (.term 1 {} [] (bs k) :: ks)
def mcA : List DNode := [ mcL "1" [.term 2 { dflt := true } [] (bs "d"), .term 3 {} [] (bs "a")], mcL "2" [.term 2 {} [] (bs "x")],
  .term 4 {} [] (bs "t") ]
def mcB : List DNode := [ mcL "1" [.term 2 {} [] (bs "e"), .term 3 {} [] (bs "b")], mcL "3" [.term 3 {} [] (bs "c")] ]

example : wfForest mcS mcA = true ∧ wfForest mcS mcB = true ∧ (diff mcS true mcA mcB).length = 4 := by decide +kernel
example : ∃ R, reverse mcS (diff mcS true mcA mcB) = .ok R ∧
    mergeDiff { defaults := true } mcS (diff mcS true mcA mcB) R = .ok [] :=
  merge_cancel_diff (by decide +kernel) (by decide +kernel)

/-! ## three families of triples for which the tree-level law `merge_apply` is proved -/

/-- `A → A → C` (the first diff is empty — how a caller starts accumulating diffs, `lyd_diff_merge_all(&diff, D)` with
`diff == NULL`): the merged diff is `D = diff(A, C)` with every top-level `yang:operation` re-written at the end of the
metadata (`cop`), in the same order (the diff is ordered by schema node: `Diff.diff_sorted`; nothing is redundant:
`Diff.diff_top_nonredundant`), and `mergeApply` gives `C`.  No hypothesis on the `sort` callbacks beyond C06's. -/
theorem merge_apply_first_empty (S : Schema) (o : MergeOpts) (fx : Fixes) (A C : List DNode) (hA : wfForest S A = true)
    (hC : wfForest S C = true) (hk : KeysDistinguished S (A ++ C)) :
    mergeDiff o S (diff S true A A) (diff S true A C) = .ok ((diff S true A C).map cop) ∧
      ∃ C', mergeApply S true o A A C fx = .ok C' ∧ dataEqL true C' C = true := by
  obtain ⟨C', h1, _, h3, _⟩ := Diff.diff_chain_exact S fx A C C hA hC hC hk
  have hself : diff S true A A = [] := by
    have := diffFull_self S true A hA
    simp [diff, this]
  obtain ⟨hm, ha⟩ := merge_into_empty S o fx A C hA hC
  rw [hself]
  refine ⟨hm, C', ?_, (dataEqL_iff_norm C' C).mpr h3⟩
  simp [mergeApply, hself, hm, Except.bind, applyD, ha, h1]


/-- `A → B → B` (the second diff is empty): `mergeApply` gives `B` -/
theorem merge_apply_second_empty (S : Schema) (o : MergeOpts) (fx : Fixes) (A B : List DNode) (hA : wfForest S A = true)
    (hB : wfForest S B = true) (hk : KeysDistinguished S (A ++ B)) :
    ∃ C', mergeApply S true o A B B fx = .ok C' ∧ dataEqL true C' B = true := by
  obtain ⟨B', h1, _, h3, _⟩ := Diff.diff_chain_exact S fx A B B hA hB hB hk
  have hself : diff S true B B = [] := by
    have := diffFull_self S true B hB
    simp [diff, this]
  refine ⟨B', ?_, (dataEqL_iff_norm B' B).mpr h3⟩
  simp [mergeApply, hself, mergeDiff, mergeKids_nil, Except.bind, applyD, h1]

/-- `A → B → A` with the reversed diff as the second one: the merged diff is empty (`merge_cancel`) and applying it to `A`
gives what the two diffs give one after the other (`reverse_apply_diff`).  SUPERSEDED by `merge_apply_reverse_on` and the
hypothesis-free `merge_apply_reverse_keyed` (`KeyOrder S` cannot hold when `S` has a keyed list). -/
theorem merge_apply_reverse {S : Schema} {o : MergeOpts} {fx : Fixes} (K : KeyOrder S) {A B : List DNode}
    (hA : wfForest S A = true) (hB : wfForest S B = true) :
    ∃ B' R M C' A', apply S A (diff S true A B) fx = .ok B' ∧ reverse S (diff S true A B) = .ok R ∧
      apply S B' R fx = .ok A' ∧ mergeDiff o S (diff S true A B) R = .ok M ∧ apply S A M fx = .ok C' ∧
      dataEqL true C' A' = true := by
  obtain ⟨B', R, A', h1, _, h2, _, h3, h4⟩ :=
    reverse_roundtrip (fx := fx) K (goodT_of_wfForest S A hA) (exactDiff_diff S A B hA hB)
  obtain ⟨R', hR', hM⟩ := merge_cancel_diff (o := o) hA hB
  rw [h2] at hR'
  have : R' = R := (Except.ok.inj hR').symm
  subst this
  refine ⟨B', R', [], A, A', h1, h2, h3, hM, rfl, ?_⟩
  rw [dataEqL_iff_norm]
  exact h4.symm

/-- `merge_apply_reverse` under `K13.KeyOrderOn S P` -/
theorem merge_apply_reverse_on {S : Schema} {o : MergeOpts} {fx : Fixes} {P : DNode → Bool} (K : K13.KeyOrderOn S P)
    {A B : List DNode} (hA : wfForest S A = true) (hB : wfForest S B = true) (hpA : K13.allPL P A = true)
    (hpB : K13.allPL P B = true) :
    ∃ B' R M C' A', apply S A (diff S true A B) fx = .ok B' ∧ reverse S (diff S true A B) = .ok R ∧
      apply S B' R fx = .ok A' ∧ mergeDiff o S (diff S true A B) R = .ok M ∧ apply S A M fx = .ok C' ∧
      dataEqL true C' A' = true := by
  obtain ⟨B', R, A', h1, _, h2, _, h3, h4⟩ :=
    K13.reverse_roundtrip (fx := fx) K (K13.goodT_of_wfForest A hA hpA) (K13.exactDiff_diff K.pinv A B hA hB hpA hpB)
  obtain ⟨R', hR', hM⟩ := merge_cancel_diff (o := o) hA hB
  rw [h2] at hR'
  have : R' = R := (Except.ok.inj hR').symm
  subst this
  refine ⟨B', R', [], A, A', h1, h2, h3, hM, rfl, ?_⟩
  rw [dataEqL_iff_norm]
  exact h4.symm

/-- **`merge_apply_reverse` with no order hypothesis**, keyed lists included: every schema whose keys are leaves and whose enum
values are distinct (`K13.schemaOK`), all well-formed `A`, `B` with canonical key / leaf-list values (`K13.canonT`) -/
theorem merge_apply_reverse_keyed {S : Schema} {o : MergeOpts} {fx : Fixes} (hS : K13.schemaOK S = true) {A B : List DNode}
    (hA : wfForest S A = true) (hB : wfForest S B = true) (hcA : K13.canonT S A = true) (hcB : K13.canonT S B = true) :
    ∃ B' R M C' A', apply S A (diff S true A B) fx = .ok B' ∧ reverse S (diff S true A B) = .ok R ∧
      apply S B' R fx = .ok A' ∧ mergeDiff o S (diff S true A B) R = .ok M ∧ apply S A M fx = .ok C' ∧
      dataEqL true C' A' = true :=
  merge_apply_reverse_on (K13.keyOrderOn_keyed hS) hA hB (K13.keyedT_of_wf hA hcA) (K13.keyedT_of_wf hB hcB)

/-- the hypothesis `KeysDistinguished` of `merge_apply_first_empty` / `merge_apply_second_empty` / `diff_chain_exact` (C06's) holds
for well-formed trees with canonical values, for every `schemaOK` schema -/
theorem keysDistinguished_keyed {S : Schema} (hS : K13.schemaOK S = true) {A B : List DNode} (hA : wfForest S A = true)
    (hB : wfForest S B = true) (hcA : K13.canonT S A = true) (hcB : K13.canonT S B = true) : KeysDistinguished S (A ++ B) :=
  K13.keysDistinguished_of_keyOrderOn (K13.keyOrderOn_keyed hS) (A ++ B) (K13.wfL_append hA hB)
    (by rw [K13.allPL_append, K13.keyedT_of_wf hA hcA, K13.keyedT_of_wf hB hcB]; rfl)

/-- `merge_apply_first_empty` with no hypothesis on the `sort` callbacks -/
theorem merge_apply_first_empty_keyed {S : Schema} (hS : K13.schemaOK S = true) (o : MergeOpts) (fx : Fixes) (A C : List DNode)
    (hA : wfForest S A = true) (hC : wfForest S C = true) (hcA : K13.canonT S A = true) (hcC : K13.canonT S C = true) :
    mergeDiff o S (diff S true A A) (diff S true A C) = .ok ((diff S true A C).map cop) ∧
      ∃ C', mergeApply S true o A A C fx = .ok C' ∧ dataEqL true C' C = true :=
  merge_apply_first_empty S o fx A C hA hC (keysDistinguished_keyed hS hA hC hcA hcC)

/-- `merge_apply_second_empty` with no hypothesis on the `sort` callbacks -/
theorem merge_apply_second_empty_keyed {S : Schema} (hS : K13.schemaOK S = true) (o : MergeOpts) (fx : Fixes) (A B : List DNode)
    (hA : wfForest S A = true) (hB : wfForest S B = true) (hcA : K13.canonT S A = true) (hcB : K13.canonT S B = true) :
    ∃ C', mergeApply S true o A B B fx = .ok C' ∧ dataEqL true C' B = true :=
  merge_apply_second_empty S o fx A B hA hB (keysDistinguished_keyed hS hA hB hcA hcB)

/-- computed diffs chain exactly, relative to `keyedOK` — the hypotheses under which a tree-level `merge_apply_partial` can use
`merge_cell_apply_on` -/
theorem diff_chain_exact_keyed {S : Schema} (hS : K13.schemaOK S = true) (fx : Fixes) (A B C : List DNode)
    (hA : wfForest S A = true) (hB : wfForest S B = true) (hC : wfForest S C = true) (hcA : K13.canonT S A = true)
    (hcB : K13.canonT S B = true) (hcC : K13.canonT S C = true) :
    K13.exactDiff S (K13.keyedOK S) A (diff S true A B) = true ∧
    ∃ B', apply S A (diff S true A B) fx = .ok B' ∧ K13.goodT S (K13.keyedOK S) B' = true ∧ dataEqL true B' B = true ∧
      K13.exactDiff S (K13.keyedOK S) B' (diff S true B C) = true := by
  have K := K13.keyOrderOn_keyed hS
  have hpA := K13.keyedT_of_wf hA hcA
  have hpB := K13.keyedT_of_wf hB hcB
  have hpC := K13.keyedT_of_wf hC hcC
  obtain ⟨B', h1, h2, h3, h4⟩ := K13.diff_chain_exact K fx A B C hA hB hC hpA hpB hpC
  exact ⟨K13.exactDiff_diff K.pinv A B hA hB hpA hpB, B', h1, h2, (dataEqL_iff_norm B' B).mpr h3, h4⟩

/-- the keyed list of `merge_cancel_diff` above (string key), two instances differing in the key, nested changes: the old
hypothesis `KeyOrder mcS` is unsatisfiable, the new statement applies -/
example : K13.schemaOK mcS = true ∧ K13.canonT mcS mcA = true ∧ K13.canonT mcS mcB = true := by decide +kernel
example : ∃ B' R M C' A', apply mcS mcA (diff mcS true mcA mcB) = .ok B' ∧ reverse mcS (diff mcS true mcA mcB) = .ok R ∧
    apply mcS B' R = .ok A' ∧ mergeDiff { defaults := true } mcS (diff mcS true mcA mcB) R = .ok M ∧ apply mcS mcA M = .ok C' ∧
    dataEqL true C' A' = true :=
  merge_apply_reverse_keyed (by decide +kernel) (by decide +kernel) (by decide +kernel) (by decide +kernel) (by decide +kernel)
example : KeysDistinguished mcS (mcA ++ mcB) :=
  keysDistinguished_keyed (by decide +kernel) (by decide +kernel) (by decide +kernel) (by decide +kernel) (by decide +kernel)

/-! non-vacuity of `merge_cell_apply_on`: the leaf `top` next to the instances of the keyed list `l` (the sibling list `mcA`),
`t -> u` merged with `u -> w` -/
def mcT : DNode := nReplace 4 {} (bs "u") false (bs "t")
def mcSrc : DNode := nReplace 4 {} (bs "w") false (bs "u")
/-- the node the cell (replace, replace) produces for them -/
def mcM : DNode × Bool := match mergeCell mcS {} .replace mcT .replace mcSrc with | .ok p => p | .error _ => (mcT, false)

theorem mcM_spec : mergeCell mcS {} .replace mcT .replace mcSrc = .ok (mcM.1, mcM.2) := by
  have h : (mergeCell mcS {} .replace mcT .replace mcSrc).toBool = true := by decide +kernel
  unfold mcM
  cases hm : mergeCell mcS {} .replace mcT .replace mcSrc with
  | ok p => rfl
  | error e => rw [hm] at h; exact absurd h (by simp [Except.toBool])

theorem mc_look_top : look mcS mcA mcT = some (.term 4 {} [] (bs "t")) := by
  have h1 : ∀ k ks, matchP mcS mcT (mcL k ks) = false := by
    intro k ks
    simp [matchP, mcT, nReplace, mcL, DNode.sid]
  have h2 : matchP mcS mcT (.term 4 {} [] (bs "t")) = true := matchP_leaf (by decide +kernel) rfl
  simp [look, mcA, List.find?, h1, h2]

example : ∃ L1 L2 L2', applyNode mcS {} 1 mcA false none mcT = .ok L1 ∧ applyNode mcS {} 1 L1 false none mcSrc = .ok L2 ∧
    (if (isRedundant mcS none mcM.1).2 then Except.ok mcA
      else applyNode mcS {} 1 mcA false none (isRedundant mcS none mcM.1).1) = .ok L2' ∧
    normL13 L2' = normL13 L2 := by
  have hleaf : mcS.isKind 4 .leaf = true := by decide +kernel
  refine merge_cell_apply_on (K13.keyOrderOn_keyed (by decide +kernel)) (by decide) (by decide +kernel) hleaf rfl rfl rfl
    (by decide +kernel) ?_ mcM_spec (by decide +kernel) (by decide +kernel) ?_ ?_
  · intro k hk
    have : keysOf mcS mcA = [] := by decide +kernel
    rw [this] at hk; cases hk
  · rw [mc_look_top]
    exact merge_cell_replace_replace (o := {}) hleaf {} {} {} [] (bs "u") (bs "w") (bs "t") (by decide +kernel) (by decide +kernel)
  · rw [mc_look_top]
    decide +kernel

example : ∃ C', mergeApply mcS true {} mcA mcA mcB = .ok C' ∧ dataEqL true C' mcB = true :=
  (merge_apply_first_empty_keyed (by decide +kernel) {} {} mcA mcB (by decide +kernel) (by decide +kernel) (by decide +kernel)
    (by decide +kernel)).2
example : ∃ C', mergeApply mcS true {} mcA mcB mcB = .ok C' ∧ dataEqL true C' mcB = true :=
  merge_apply_second_empty_keyed (by decide +kernel) {} {} mcA mcB (by decide +kernel) (by decide +kernel) (by decide +kernel)
    (by decide +kernel)
example : K13.exactDiff mcS (K13.keyedOK mcS) mcA (diff mcS true mcA mcB) = true :=
  (diff_chain_exact_keyed (by decide +kernel) {} mcA mcB mcB (by decide +kernel) (by decide +kernel) (by decide +kernel)
    (by decide +kernel) (by decide +kernel) (by decide +kernel)).1

example : ∃ C', mergeApply mcS true { defaults := true } mcA mcA mcB = .ok C' ∧ dataEqL true C' mcB = true :=
  (merge_apply_first_empty mcS _ {} mcA mcB (by decide +kernel) (by decide +kernel)
    (keysDistinguished_of_check _ _ (by decide +kernel))).2

example : ∃ C', mergeApply mcS true {} mcA mcB mcB = .ok C' ∧ dataEqL true C' mcB = true :=
  merge_apply_second_empty mcS {} {} mcA mcB (by decide +kernel) (by decide +kernel)
    (keysDistinguished_of_check _ _ (by decide +kernel))

-- The tree-level law `merge_apply_partial` is PROVED in Props/C13Tree.lean (`merge_apply_partial_tree`): the recursion of `mergeR`
--   through the sibling lists and through inner nodes (Diff/K13Merge.lean, K13MergeTree.lean), on top of (i) a forward specification
--   of `apply` for exact diffs (Diff/K13Fwd.lean: the result instance by instance, so that the order of the diff nodes and
--   `insertBySchema` / `placeBack` do not matter), (ii) the cells for nodes whose operation is INHERITED (children of created /
--   deleted subtrees), (iii) the leaf-list cells above and all five accepted cells for container / list-instance nodes.  The
--   hypotheses read off the leaf-cell theorems are the ones of that theorem: (delete, create) — `o.defaults = true →
--   Generated.Diff13.mergeDfltNeedsDeletedDflt = true` (finding F18(b)); (none, replace) — the value the second diff sets is not
--   default-flagged (part of the decidable side condition `mergeSafe`).

/-! ### the hypotheses of the cell theorems are satisfiable and the effects are not trivial -/

def cS : Schema := { modName := "cell", nodes := [ { depth := 0, kind := .leaf, name := "f", dflts := [bs "d"] } ] }

example : cS.isKind 0 .leaf = true := by decide +kernel
example : ∃ B' R M C' A', apply cS [.term 0 {} [] (bs "x")] (diff cS true [.term 0 {} [] (bs "x")] [.term 0 {} [] (bs "y")]) = .ok B' ∧
    reverse cS (diff cS true [.term 0 {} [] (bs "x")] [.term 0 {} [] (bs "y")]) = .ok R ∧ apply cS B' R = .ok A' ∧
    mergeDiff {} cS (diff cS true [.term 0 {} [] (bs "x")] [.term 0 {} [] (bs "y")]) R = .ok M ∧
    apply cS [.term 0 {} [] (bs "x")] M = .ok C' ∧ dataEqL true C' A' = true :=
  merge_apply_reverse (keyOrder_of_stringLL (by decide +kernel)) (by decide +kernel) (by decide +kernel)
-- x -> y -> z is one replace x -> z; x -> y -> x leaves nothing
example : (cellEff cS {} .replace (nReplace 0 {} (bs "y") false (bs "x")) .replace (nReplace 0 {} (bs "z") false (bs "y"))
    (some (.term 0 {} [] (bs "x")))).isSome = true := by decide +kernel
example : cellDropped cS {} .replace (nReplace 0 {} (bs "y") false (bs "x")) .replace (nReplace 0 {} (bs "x") false (bs "y"))
    = true := by decide +kernel
example : (cellEff cS {} .create (nDelete 0 {} (bs "x")) .delete (nCreate 0 {} (bs "y")) (some (.term 0 {} [] (bs "x")))).isSome
    = true := by decide +kernel
example : cellDropped cS {} .delete (nCreate 0 {} (bs "x")) .create (nDelete 0 {} (bs "x")) = true := by decide +kernel

end LyModel.Props.C13
