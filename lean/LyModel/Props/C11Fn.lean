import LyModel.Bridge.Iff
import LyModel.Props.C11
/-!
# C11 — the if-feature record packing as TRANSLATED from schema_features.c

`Generated.Fn.lysc_iff_getop` / `Generated.Fn.iff_setop` are rewritten from the C source on every run by
`tools/c2lean.py`; these theorems are re-checked against them.
-/
namespace LyModel.Props.C11Fn
open LyModel LyModel.Generated

/-- **The translated accessors are the model's.**  `lysc_iff_getop` on every list and position; `iff_setop` for an
    operator `≤ 3` (the C asserts it) at a position inside the array. -/
theorem gen_iff_ops_are_model (l : Bytes) (op : UInt8) (pos : UInt64) :
    Fn.lysc_iff_getop l pos = Iff.getop l pos.toNat ∧
    (op ≤ 3 → pos.toNat / 4 < l.length → (Fn.iff_setop l op pos).list = Iff.setop l op pos.toNat) :=
  ⟨Bridge.Iff.getop_eq l pos, fun h1 h2 => Bridge.Iff.setop_eq l op pos h1 h2⟩

/-- **Read-after-write on the translated code.**  After the translated `iff_setop(list, op, pos)` (position inside the
    array, 2-bit operator) the translated `lysc_iff_getop` returns `op` at `pos` and the old record at every other
    position, and the store stayed inside the array (its length is unchanged). -/
theorem gen_iff_getop_setop (l : Bytes) (op : UInt8) (pos : UInt64) (hpos : pos.toNat / 4 < l.length) (hop : op ≤ 3) :
    Fn.lysc_iff_getop (Fn.iff_setop l op pos).list pos = op ∧
    (∀ pos' : UInt64, pos' ≠ pos → Fn.lysc_iff_getop (Fn.iff_setop l op pos).list pos' = Fn.lysc_iff_getop l pos') ∧
    (Fn.iff_setop l op pos).list.length = l.length := by
  have h := Props.C11.iff_getop_setop l op pos.toNat hpos hop
  rw [Bridge.Iff.setop_eq l op pos hop hpos]
  refine ⟨by rw [Bridge.Iff.getop_eq]; exact h.1, ?_, Iff.length_setop l op pos.toNat⟩
  intro pos' hne
  rw [Bridge.Iff.getop_eq, Bridge.Iff.getop_eq]
  exact h.2 pos'.toNat (fun e => hne (UInt64.toNat_inj.mp e))

example : Fn.lysc_iff_getop (Fn.iff_setop [0xff, 0x1b] 1 5).list 5 = 1 ∧ (Fn.iff_setop [0xff, 0x1b] 1 5).list = [0xff, 0x17] := by decide

end LyModel.Props.C11Fn
