import LyModel.Iff.LemmasCompile
import LyModel.Iff.LemmasOob
import LyModel.Iff.LemmasReject
/-!
# C11 — compilation gives schema constructs their RFC 7950 meaning: if-feature

Model: `LyModel.Iff.compile` (= `lys_compile_iffeature`, both passes), `evalIff` (= `lysc_iffeature_value`),
`getop`/`setop`.  Specification: `LyModel.Iff.Expr` (the RFC 7950 `if-feature-expr` grammar with the white space of
every `sep`/`optsep` recorded), `Expr.render` (the byte string), `Expr.den` (boolean value under a feature assignment).
`lookup` abstracts `lysp_feature_find` (prefix resolution and search by name).  All statements are about YANG 1.1
modules (`ver11 = true`).  `fx : Fix` says which of the candidate repairs fixes/F3.diff, fixes/F13.diff the modelled
source contains (`{}` = the pinned tree); the translator reads the flags off the C source for the driver, the theorems
cover every value.
-/
namespace LyModel.Props.C11
open LyModel LyModel.Iff

/-! ## if-feature compilation -/

/-- Full-strength statement: EVERY grammatical if-feature expression whose features exist compiles, and the compiled
prefix code evaluates to the value of the expression under EVERY feature assignment. -/
def IffCompileCorrect (fx : Fix) : Prop :=
  ∀ (lookup : Bytes → Option Nat) (e : Expr), e.Resolves lookup →
    ∃ c, compile fx lookup true e.render = .ok c ∧ ∀ env : Nat → Bool, evalIff c env = e.den lookup env

def identA : Ident := ⟨[0x61], by decide, by decide, by decide⟩
def identB : Ident := ⟨[0x62], by decide, by decide, by decide⟩
def identC : Ident := ⟨[0x63], by decide, by decide, by decide⟩
def sp1 : Sep := ⟨[0x20], by decide, by decide⟩
def tabnl : Sep := ⟨[0x09, 0x0a], by decide, by decide⟩
def osp0 : OptSep := ⟨[], by decide⟩
def osp1 : OptSep := ⟨[0x20], by decide⟩

/-- `not (not a)` — finding F13 -/
def f13Witness : Expr :=
  .one (.one (.not sp1 (.paren osp0 (.one (.one (.not sp1 (.ident identA)))) osp0)))

/-- the bytes of `not (not a)` -/
example : f13Witness.render = [0x6e, 0x6f, 0x74, 0x20, 0x28, 0x6e, 0x6f, 0x74, 0x20, 0x61, 0x29] := rfl

/-- **F13.** The full statement is false for the pinned tree: on the valid YANG 1.1 expression `not (not a)` the sizing pre-scan cancels the
two `not`s across the parenthesis (array of 1 record) while the emitting pass writes 3 records: the third write is at
index 2^64-1 (`Err.oobWrite`; the real code dies with SIGSEGV in `iff_setop`). -/
theorem iff_compile_correct_fails : ¬ IffCompileCorrect {} := by
  intro h
  obtain ⟨c, hc, _⟩ := h (fun _ => some 0) f13Witness
    (by simp [f13Witness, Expr.Resolves, Term.Resolves, Factor.Resolves])
  have : compile {} (fun _ => some 0) true f13Witness.render = .error .oobWrite := by rfl
  rw [this] at hc
  exact absurd hc (by simp)

/-- **Flagship.** Every grammatical expression — any depth, any mix of `not`/`and`/`or`/parentheses, any (prefixed)
feature names other than the three keywords, any white space where the RFC allows it — that has no `not` applied to a
parenthesis starting with `not` (the F13 shape) compiles, and evaluating the compiled 2-bit prefix code gives the value
of the expression under every feature assignment. -/
theorem iff_compile_correct_partial (fx : Fix) (lookup : Bytes → Option Nat) (e : Expr) (hres : e.Resolves lookup)
    (hshape : e.NoNotParenNot) :
    ∃ c, compile fx lookup true e.render = .ok c ∧ ∀ env : Nat → Bool, evalIff c env = e.den lookup env :=
  ⟨e.compiled lookup, by rw [compile_render, compileToks_correct fx lookup e hres (fun _ => hshape)],
    fun env => evalIff_compiled lookup e hres env⟩

/-- **With fixes/F13.diff** (the pre-scan forgets a pending `not` at a parenthesis, as the emitting pass does) the
full-strength statement holds: every grammatical expression compiles to a code with its meaning. -/
theorem iff_compile_correct_fixed (fx : Fix) (hfix : fx.f13 = true) : IffCompileCorrect fx :=
  fun lookup e hres =>
    ⟨e.compiled lookup, by rw [compile_render, compileToks_correct fx lookup e hres (fun h => by simp [hfix] at h)],
      fun env => evalIff_compiled lookup e hres env⟩

example : (compile { f13 := true } (fun _ => some 0) true f13Witness.render).toOption.map (fun c => (c.size, c.feats)) =
    some (3, [0]) := rfl

/-- non-vacuity (audit): `fx.f13 = true` is met by `{ f13 := true }`, and the repaired statement then covers the F13
witness `not (not a)` itself (which `_partial` excludes): it compiles and the code means `a` -/
example : ∃ c, compile { f13 := true } (fun _ => some 0) true f13Witness.render = .ok c ∧
    ∀ env : Nat → Bool, evalIff c env = f13Witness.den (fun _ => some 0) env :=
  iff_compile_correct_fixed { f13 := true } rfl (fun _ => some 0) f13Witness
    (by simp [f13Witness, Expr.Resolves, Term.Resolves, Factor.Resolves])
example : f13Witness.den (fun _ => some 0) (fun _ => true) = true ∧ f13Witness.den (fun _ => some 0) (fun _ => false) = false := by
  simp [f13Witness, Expr.den, Term.den, Factor.den]

/-- `a and\t\n( not b or c )`: hypotheses of the flagship are satisfiable by a non-trivial expression -/
def sample : Expr :=
  .one (.and (.ident identA) sp1 tabnl
    (.one (.paren osp1 (.or (.one (.not sp1 (.ident identB))) sp1 sp1 (.one (.one (.ident identC)))) osp1)))

/-- the bytes of `a and\t\n( not b or c )` -/
example : sample.render = [0x61, 0x20, 0x61, 0x6e, 0x64, 0x09, 0x0a, 0x28, 0x20, 0x6e, 0x6f, 0x74, 0x20, 0x62, 0x20, 0x6f, 0x72, 0x20, 0x63, 0x20, 0x29] := rfl
example : sample.Resolves (fun n => if n == [0x61] then some 0 else if n == [0x62] then some 1 else some 2) ∧
    sample.NoNotParenNot := by
  simp [sample, Expr.Resolves, Term.Resolves, Factor.Resolves, Expr.NoNotParenNot, Term.NoNotParenNot,
    Factor.NoNotParenNot, Factor.parenNot, identA, identB, identC]
example : (compile {} (fun n => if n == [0x61] then some 0 else if n == [0x62] then some 1 else some 2) true
    sample.render).toOption.map (fun c => (c.size, c.feats)) = some (6, [0, 1, 2]) := by rfl

/-- `not (p:f or not not\t\nb) and c or ( ((a)))`: a `not` applied to a parenthesis (that does not start with `not`), an
adjacent double `not`, nested parentheses, `and` and `or` at two levels, a prefixed name resolved by `lookupIn` in a
second module -/
def sample2 : Expr :=
  .or (.and (.not sp1 (.paren osp0
        (.or (.one (.ident ⟨[0x70, 0x3a, 0x66], by decide, by decide, by decide⟩)) sp1 sp1
          (.one (.one (.not sp1 (.not tabnl (.ident identB)))))) osp0)) sp1 sp1 (.one (.ident identC)))
    sp1 sp1
    (.one (.one (.paren osp1 (.one (.one (.paren osp0 (.one (.one (.paren osp0 (.one (.one (.ident identA))) osp0))) osp0))) osp0)))

/-- modules `m` (local; features a, b, c) and `p` (feature f): `p:f` is feature 3 -/
def lookup2 : Bytes → Option Nat := lookupIn [([0x6d], [[0x61], [0x62], [0x63]]), ([0x70], [[0x66]])]

/-- the bytes of `not (p:f or not not\t\nb) and c or ( ((a)))` -/
example : sample2.render = [110, 111, 116, 32, 40, 112, 58, 102, 32, 111, 114, 32, 110, 111, 116, 32, 110, 111, 116, 9, 10, 98, 41,
    32, 97, 110, 100, 32, 99, 32, 111, 114, 32, 40, 32, 40, 40, 97, 41, 41, 41] := rfl

/-- non-vacuity (audit): the flagship instantiated at `sample2` under `lookupIn` with a prefixed name; its conclusion is
not a triviality there — the compiled code has 8 records over 4 distinct features and the denotation is not constant -/
example : ∃ c, compile {} lookup2 true sample2.render = .ok c ∧ ∀ env : Nat → Bool, evalIff c env = sample2.den lookup2 env :=
  iff_compile_correct_partial {} lookup2 sample2
    (by simp [sample2, lookup2, Expr.Resolves, Term.Resolves, Factor.Resolves, identA, identB, identC]; decide)
    (by simp [sample2, Expr.NoNotParenNot, Term.NoNotParenNot, Factor.NoNotParenNot, Factor.parenNot, Expr.leftNot,
      Term.leftNot, Factor.leftNot])
example : (compile {} lookup2 true sample2.render).toOption.map (fun c => (c.size, c.feats)) = some (8, [3, 1, 2, 0]) := by rfl
example : sample2.den lookup2 (fun _ => true) = true ∧ sample2.den lookup2 (fun _ => false) = false ∧
    sample2.den lookup2 (fun k => k == 2) = true ∧ sample2.den lookup2 (fun k => k == 3 || k == 2) = false := by
  simp [sample2, lookup2, Expr.den, Term.den, Factor.den, identA, identB, identC]; decide

-- AUDIT (resolved): the docstring's last sentence (the only failure on a valid expression is the F13 out-of-bounds write) is now proved for every `fx` as `iff_compile_fails_only_by_oob` below and cited; `iff_compile_sound` itself is unchanged.
/-- **Soundness without the shape hypothesis.** For EVERY grammatical expression: if the compiler returns at all
(no crash, no error), the compiled code evaluates to the value of the expression under every assignment. This theorem
alone says "a wrong code is never RETURNED"; that the only way `lys_compile_iffeature` does not return a code for a
valid expression is the out-of-bounds write of F13 (and no other error) is `iff_compile_fails_only_by_oob` below, and
that this does happen on the pinned tree is `iff_compile_correct_fails`. -/
theorem iff_compile_sound (fx : Fix) (lookup : Bytes → Option Nat) (e : Expr) (hres : e.Resolves lookup) (c : Compiled)
    (h : compile fx lookup true e.render = .ok c) (env : Nat → Bool) : evalIff c env = e.den lookup env := by
  unfold compile at h
  rw [lex2_render] at h
  rw [compileToks_sound fx lookup e hres _ c h]
  exact evalIff_compiled lookup e hres env

/-- **The only failure is the out-of-bounds write.** For EVERY grammatical expression whose features exist, with or
without the repairs (`fx` arbitrary), no shape hypothesis: `lys_compile_iffeature` either returns a code that evaluates
to the value of the expression under every assignment, or it does the out-of-bounds write of F13 (`Err.oobWrite`) — no
syntax error, no "internal error", no other crash is possible on a valid YANG 1.1 expression. (Pass 1 gets the
parenthesis balance and the feature/operand counts exactly right for every expression and can only UNDER-count the
records; pass 2 in a record array that is too small fails by the wild store and by nothing else, and an array it got
through is exactly full.) With fixes/F13.diff the second alternative does not occur (`iff_compile_correct_fixed`). -/
theorem iff_compile_fails_only_by_oob (fx : Fix) (lookup : Bytes → Option Nat) (e : Expr) (hres : e.Resolves lookup) :
    (∃ c, compile fx lookup true e.render = .ok c ∧ ∀ env : Nat → Bool, evalIff c env = e.den lookup env) ∨
    compile fx lookup true e.render = .error .oobWrite := by
  rw [compile_render]
  rcases compileToks_ok_or_oob fx lookup e hres with h | h
  · exact .inl ⟨e.compiled lookup, h, fun env => evalIff_compiled lookup e hres env⟩
  · exact .inr h

/-- non-vacuity (audit): both alternatives occur on the pinned tree — the F13 witness `not (not a)` takes the second
(so the disjunction cannot be strengthened to its first half), `sample2` (and/or/not, parentheses, prefixed name) the
first; the theorem is instantiated at both -/
example : compile {} (fun _ => some 0) true f13Witness.render = .error .oobWrite ∧
    ∃ c, compile {} lookup2 true sample2.render = .ok c := ⟨rfl, _, rfl⟩
example : (∃ c, compile {} (fun _ => some 0) true f13Witness.render = .ok c ∧
      ∀ env : Nat → Bool, evalIff c env = f13Witness.den (fun _ => some 0) env) ∨
    compile {} (fun _ => some 0) true f13Witness.render = .error .oobWrite :=
  iff_compile_fails_only_by_oob {} (fun _ => some 0) f13Witness
    (by simp [f13Witness, Expr.Resolves, Term.Resolves, Factor.Resolves])
example : (∃ c, compile {} lookup2 true sample2.render = .ok c ∧
      ∀ env : Nat → Bool, evalIff c env = sample2.den lookup2 env) ∨
    compile {} lookup2 true sample2.render = .error .oobWrite :=
  iff_compile_fails_only_by_oob {} lookup2 sample2
    (by simp [sample2, lookup2, Expr.Resolves, Term.Resolves, Factor.Resolves, identA, identB, identC]; decide)
/-- the hypothesis `Resolves` is needed: an unknown feature is reported as such (neither alternative) -/
example : compile {} (fun _ => none) true f13Witness.render = .error .noFeature := rfl

example : ∃ c, compile {} (fun _ => some 0) true
    (Expr.one (.one (.not sp1 (.not sp1 (.not sp1 (.paren osp0 (.one (.one (.ident identA))) osp0)))))).render = .ok c := by
  exact ⟨_, rfl⟩

/-- `not not (not a)` -/
def notNotParenNot : Expr :=
  .one (.one (.not sp1 (.not sp1 (.paren osp0 (.one (.one (.not sp1 (.ident identA)))) osp0))))

/-- non-vacuity (audit): beyond the flagship — `not not (not a)` has the excluded shape (`iff_compile_correct_partial` does
not apply), the pinned tree compiles it all the same, and the theorem gives the value of the code: `not a` -/
example : ¬ notNotParenNot.NoNotParenNot ∧
    ∃ c, compile {} (fun _ => some 7) true notNotParenNot.render = .ok c ∧ c.size = 2 ∧
      evalIff c (fun _ => true) = false ∧ evalIff c (fun _ => false) = true := by
  have hres : notNotParenNot.Resolves (fun _ => some 7) := by
    simp [notNotParenNot, Expr.Resolves, Term.Resolves, Factor.Resolves]
  refine ⟨by simp [notNotParenNot, Expr.NoNotParenNot, Term.NoNotParenNot, Factor.NoNotParenNot, Factor.parenNot,
    Expr.leftNot, Term.leftNot, Factor.leftNot], _, rfl, rfl, ?_, ?_⟩
  · rw [iff_compile_sound {} _ notNotParenNot hres _ rfl]
    simp [notNotParenNot, Expr.den, Term.den, Factor.den]
  · rw [iff_compile_sound {} _ notNotParenNot hres _ rfl]
    simp [notNotParenNot, Expr.den, Term.den, Factor.den]

/-- non-vacuity (audit): the hypothesis `compile … = .ok c` is met at `sample2` (and/or/not, parentheses, prefixed name),
and the theorem then fixes the value of the compiled code under concrete assignments: true when only `c` (id 2) is on,
false when `p:f` (id 3) is on as well -/
example : ∃ c, compile {} lookup2 true sample2.render = .ok c ∧ evalIff c (fun k => k == 2) = true ∧
    evalIff c (fun k => k == 3 || k == 2) = false := by
  have hres : sample2.Resolves lookup2 := by
    simp [sample2, lookup2, Expr.Resolves, Term.Resolves, Factor.Resolves, identA, identB, identC]; decide
  refine ⟨_, rfl, ?_, ?_⟩
  · rw [iff_compile_sound {} lookup2 sample2 hres _ rfl]
    simp [sample2, lookup2, Expr.den, Term.den, Factor.den, identA, identB, identC]; decide
  · rw [iff_compile_sound {} lookup2 sample2 hres _ rfl]
    simp [sample2, lookup2, Expr.den, Term.den, Factor.den, identA, identB, identC]; decide

/-! ## rejection of ungrammatical arguments -/

/-- a crash (memory error in the real code) as opposed to a reported error -/
def Err.isCrash (e : Err) : Prop := e = .underflow ∨ e = .oobWrite ∨ e = .oobFeat

/-- Full-strength statement: every byte string that is NOT generated by the grammar is rejected with an error. -/
def IffRejectsUngrammatical (fx : Fix) : Prop :=
  ∀ (lookup : Bytes → Option Nat) (c : Bytes), (¬ ∃ e : Expr, e.render = c) →
    ∃ er, compile fx lookup true c = .error er ∧ ¬ Err.isCrash er

/-- **F3.** False: `)a(` passes the balanced-COUNT check of the pre-scan and pass 2 pops the empty operator stack. -/
theorem iff_rejects_ungrammatical_fails : ¬ IffRejectsUngrammatical {} := by
  intro h
  have hno : ¬ ∃ e : Expr, e.render = [0x29, 0x61, 0x28] := by
    rintro ⟨e, he⟩
    obtain ⟨d, tl, hd, hne⟩ := Expr.render_head_ne_rp e
    rw [he] at hd
    simp only [List.cons.injEq] at hd
    exact hne hd.1.symm
  obtain ⟨er, her, hcr⟩ := h (fun _ => some 0) [0x29, 0x61, 0x28] hno
  have : compile {} (fun _ => some 0) true [0x29, 0x61, 0x28] = .error .underflow := by rfl
  rw [this] at her
  simp only [Except.error.injEq] at her
  exact hcr (Or.inl her.symm)

/-- The part that holds: an argument whose parentheses do not balance in number is always rejected cleanly (with one of
the three syntax errors of the pre-scan), whatever else it contains — for every byte string and both YANG versions. -/
theorem iff_rejects_ungrammatical_partial (fx : Fix) (lookup : Bytes → Option Nat) (ver11 : Bool) (c : Bytes)
    (h : c.count chLP ≠ c.count chRP) :
    ∃ er, compile fx lookup ver11 c = .error er ∧ (er = .unexpEnd ∨ er = .missingBefore ∨ er = .parens) :=
  compile_unbalanced fx lookup ver11 c h

/-- with fixes/F3.diff the witness is rejected by the pre-scan ("non-matching parentheses") -/
example : compile { f3 := true } (fun _ => some 0) true [0x29, 0x61, 0x28] = .error .parens := rfl

/-- `((a) or b` -/
example : ([0x28, 0x28, 0x61, 0x29, 0x20, 0x6f, 0x72, 0x20, 0x62] : Bytes).count chLP ≠ ([0x28, 0x28, 0x61, 0x29, 0x20, 0x6f, 0x72, 0x20, 0x62] : Bytes).count chRP := by decide

/-- non-vacuity (audit): the theorem at `((a) or b` (two `(`, one `)`, an operator and two names), YANG 1.1, pinned tree;
the error is "non-matching parentheses" -/
example : ∃ er, compile {} (fun _ => some 0) true [0x28, 0x28, 0x61, 0x29, 0x20, 0x6f, 0x72, 0x20, 0x62] = .error er ∧
    (er = .unexpEnd ∨ er = .missingBefore ∨ er = .parens) :=
  iff_rejects_ungrammatical_partial {} (fun _ => some 0) true _ (by decide)
example : compile {} (fun _ => some 0) true [0x28, 0x28, 0x61, 0x29, 0x20, 0x6f, 0x72, 0x20, 0x62] = .error .parens := rfl
/-- non-vacuity (audit): … and at `a) and` (YANG 1.0), where the pre-scan stops earlier with "unexpected end" -/
example : ([0x61, 0x29, 0x20, 0x61, 0x6e, 0x64] : Bytes).count chLP ≠ ([0x61, 0x29, 0x20, 0x61, 0x6e, 0x64] : Bytes).count chRP ∧
    compile {} (fun _ => none) false [0x61, 0x29, 0x20, 0x61, 0x6e, 0x64] = .error .unexpEnd := ⟨by decide, rfl⟩

/-! ## 2-bit packing -/

/-- `lysc_iff_getop(iff_setop(list, op, pos), pos) = op` for every position inside the array and every 2-bit value, and
every other position keeps its value. -/
theorem iff_getop_setop (l : Bytes) (op : UInt8) (pos : Nat) (hpos : pos / 4 < l.length) (hop : op ≤ 3) :
    getop (setop l op pos) pos = op ∧ ∀ pos', pos' ≠ pos → getop (setop l op pos) pos' = getop l pos' :=
  ⟨getop_setop_same l op pos hpos hop, fun pos' h => getop_setop_other l op pos pos' (Ne.symm h) hop⟩

example : getop (setop [0xff, 0x00] 2 5) 5 = 2 := by decide

/-- non-vacuity (audit): the theorem at a 2-byte array, record 5 (second byte, second slot, holding 2), `op = 1`: both
hypotheses hold, the record changes and the frame part is about 7 other real records with all four codes -/
example : getop (setop [0xff, 0x1b] 1 5) 5 = 1 ∧ ∀ pos', pos' ≠ 5 → getop (setop [0xff, 0x1b] 1 5) pos' = getop [0xff, 0x1b] pos' :=
  iff_getop_setop [0xff, 0x1b] 1 5 (by decide) (by decide)
example : (List.range 8).map (getop [0xff, 0x1b]) = [3, 3, 3, 3, 3, 2, 1, 0] ∧
    (List.range 8).map (getop (setop [0xff, 0x1b] 1 5)) = [3, 3, 3, 3, 3, 1, 1, 0] := by decide

/-- the whole record array written by pass 2 (descending positions, as the C code writes it) reads back as the records -/
theorem iff_pack_readback (ops : List UInt8) (hops : ∀ x ∈ ops, x ≤ 3) (i : Nat) :
    getop (packFrom 0 ops (List.replicate (nbytes ops.length) 0)) i = ops.getD i 0 :=
  getop_pack ops hops i

/-- non-vacuity (audit): six records using all four 2-bit codes, spanning two bytes -/
example : getop (packFrom 0 [2, 1, 3, 0, 3, 1] (List.replicate (nbytes 6) 0)) 4 = 3 :=
  iff_pack_readback [2, 1, 3, 0, 3, 1] (by decide) 4
example : packFrom 0 [2, 1, 3, 0, 3, 1] (List.replicate (nbytes 6) 0) = [0x36, 0x07] := by decide

end LyModel.Props.C11
