import LyModel.Iff.Model
import LyModel.Iff.Range
namespace LyModel.Props.C11
theorem placeholder : True := trivial
end LyModel.Props.C11
