import LyModel.XsdRe.Lemmas
namespace LyModel.Props.C18
theorem placeholder : True := trivial
end LyModel.Props.C18
