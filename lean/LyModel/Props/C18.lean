import LyModel.XsdRe.Lemmas
import LyModel.XsdRe.RewriteLemmas
import LyModel.XsdRe.BlockLemmas
import LyModel.XsdRe.DepthLemmas
import LyModel.XsdRe.FuelLemmas
import LyModel.XsdRe.Drv
/-!
# C18 — `pattern` restrictions implement XML Schema regular expressions

Part A: the spec (`Regex.L`) and its executable form (`Regex.matches`) coincide for every regular expression over every
symbol predicate and every string; `invert-match` negates; the pattern list of a type is the conjunction.  This is what
makes the matcher an oracle: the correspondence (tools/checks/c18.py) compares libyang's four routes with it.

Part B: the textual rewrite XSD → PCRE2 of `lys_compile_type_pattern_check`, pass 1 (`escapeLoop`).  The byte state
machine with its `escaped` flag and unsigned depth counter is characterised declaratively over *escape tokens*: it fails
exactly when some prefix closes more unescaped brackets than it opened, and otherwise inserts a backslash in front of
`^`/`$` tokens at depth 0.  The full-strength statement (only *unescaped* `^`/`$` are touched) is false of the code
(DESIGN §6 F25) — proved false with the witness `\^`, true under the hypothesis "no `\^`, `\$` tokens", and true of the
repaired loop (`Fixes.f25`, fixes/F25.diff).

Part C: pass 2 (`chblocksStep`, one round of `lys_compile_pattern_chblocks_xmlschema2perl`) on the table
`Generated.UBlocks` *as extracted from the source now*.  Full strength: `\p{IsX}` becomes the range text the table gives for
X, with its brackets outside a character class and without them inside one, where *inside a class* is the bracket depth of
the escape tokens (the depth of pass 1).  False of the code as it was (F1: the row index is overwritten by the
bracket-depth counter; F186: X is matched by prefix; F190: the depth loop of pass 2 looks only at the previous byte, `\\[`;
F187: every row is copied in 19 bytes, `Specials` is longer) — each proved false with a witness; what the unrepaired code
does instead is `block_subst_as_is`; the repaired step (all four repairs are in the source now) satisfies the full
statement, the repaired depth loop is proved to compute the token depth, and with F1 repaired the table index is always
in range (it was not: witness `\\[a]\p{IsGreek}`, a crash).  The rows themselves — all of them, `Specials` included — are
checked against the block table of the Recommendation.
-/
namespace LyModel.Props.C18
open LyModel LyModel.XsdRe LyModel.XsdRe.Regex

/-! ## A. matcher = denotation -/

/-- The derivative matcher decides the denotation: for every regular expression (alternation, concatenation, `{lo,hi}`
    repetition incl. `* + ?`, any symbol predicate) and every string. -/
theorem matches_iff {α : Type} (r : Regex α) (s : List α) : r.matches s = true ↔ L r s :=
  matches_iff_L s r

-- non-vacuity: `(a|b){1,2}c*` accepts "abcc" and, by the theorem, "abcc" is in the language; "c" is not
example : (cat (rep (alt (sym (· == 'a')) (sym (· == 'b'))) 1 (some 2)) (star (sym (· == 'c')))).matches "abcc".toList = true := by decide
example : ¬ L (cat (rep (alt (sym (· == 'a')) (sym (· == 'b'))) 1 (some 2)) (star (sym (· == 'c')))) "c".toList := by
  rw [← matches_iff]; decide

/-- `[a-c-[b]]+|\s{2}x?` as the parser builds it: a class with a range and a subtraction, a multi-character escape, an
alternation, a concatenation and the quantifiers `+`, `{2}`, `?` -/
def samplePat : Pat :=
  .alt (.rep (.cls [⟨false, [.range 'a' 'c']⟩, ⟨false, [.ch 'b']⟩]) 1 none)
    (.cat (.rep (.esc false .space) 2 (some 2)) (.rep (.chr 'x') 0 (some 1)))

/-- non-vacuity (audit): the theorem at `[a-c-[b]]+|\s{2}x?` (class, subtraction, escape, alternation, three quantifiers),
in both directions and with both verdicts: "ca" and " \tx" are in the language, "cb" and " x" are not -/
example : L samplePat.toRegex "ca".toList ∧ L samplePat.toRegex " \tx".toList ∧
    ¬ L samplePat.toRegex "cb".toList ∧ ¬ L samplePat.toRegex " x".toList :=
  ⟨(matches_iff _ _).mp (by decide), (matches_iff _ _).mp (by decide),
   fun h => absurd ((matches_iff _ _).mpr h) (by decide), fun h => absurd ((matches_iff _ _).mpr h) (by decide)⟩

/-- a restriction is satisfied iff (the string is in the language) ≠ (the restriction is inverted) -/
theorem satisfies_iff {α : Type} (inv : Bool) (r : Regex α) (s : List α) :
    satisfies inv r s = true ↔ (L r s ↔ inv = false) := by
  rw [← matches_iff]
  unfold satisfies
  cases r.matches s <;> cases inv <;> simp

/-- non-vacuity (audit): an inverted restriction that is satisfied ("cb" against `invert-match` `[a-c-[b]]+|\s{2}x?`) and a
plain one that is violated; the right-hand sides are then `L … ↔ False` and its negation -/
example : (L samplePat.toRegex "cb".toList ↔ true = false) ∧ ¬ (L samplePat.toRegex "cb".toList ↔ false = false) :=
  ⟨(satisfies_iff true _ _).mp (by decide), fun h => absurd ((satisfies_iff false _ _).mpr h) (by decide)⟩

/-- `invert-match` negates the verdict -/
theorem invert_match_negates {α : Type} (r : Regex α) (s : List α) :
    satisfies true r s = !satisfies false r s := by
  unfold satisfies
  cases r.matches s <;> rfl

example : satisfies true (star (sym (· == 'a'))) "ab".toList = true ∧ satisfies false (star (sym (· == 'a'))) "ab".toList = false := by decide

/-- the pattern list of a type (`lyplg_type_validate_patterns`): every restriction, with its modifier -/
theorem validatePatterns_iff {α : Type} (ps : List (Regex α × Bool)) (s : List α) :
    validatePatterns ps s = true ↔ ∀ p ∈ ps, (L p.1 s ↔ p.2 = false) := by
  unfold validatePatterns
  simp only [List.all_eq_true, satisfies_iff]

example : validatePatterns [(star (sym (· == 'a')), false), (sym (· == 'a'), true)] "aa".toList = true := by decide

/-- non-vacuity (audit): three restrictions, the middle one inverted: "ca" passes all of them (theorem left to right), "cb"
does not -/
example : ∀ p ∈ [(samplePat.toRegex, false), (star (sym (· == 'c')), true), (plus (sym dotMem), false)],
    (L p.1 "ca".toList ↔ p.2 = false) :=
  (validatePatterns_iff _ _).mp (by decide)
example : validatePatterns [(samplePat.toRegex, false), (star (sym (· == 'c')), true), (plus (sym dotMem), false)] "cb".toList = false := by
  decide

/-- the grid op of the driver (shared derivatives) is the matcher applied to every string of the grid -/
theorem gridLevel_eq (A : List Char) : ∀ (n : Nat) (r : Regex Char),
    Drv.gridLevel A r n = (Drv.strsOfLen A n).map r.matches
  | 0, r => by simp [Drv.gridLevel, Drv.strsOfLen, Regex.matches]
  | n + 1, r => by
    simp only [Drv.gridLevel, Drv.strsOfLen, List.map_flatMap, List.map_map]
    congr 1
    funext c
    rw [gridLevel_eq A n (r.deriv c)]
    apply List.map_congr_left
    intro s _
    simp [Regex.matches]

/-- non-vacuity (audit): level 2 of the grid over `{a, b, c}` for `[a-c-[b]]+|\s{2}x?`: nine strings, mixed verdicts -/
example : Drv.gridLevel ['a', 'b', 'c'] samplePat.toRegex 2 = [true, false, true, false, false, false, true, false, true] ∧
    (Drv.strsOfLen ['a', 'b', 'c'] 2).map samplePat.toRegex.matches = [true, false, true, false, false, false, true, false, true] :=
  ⟨by decide, gridLevel_eq _ _ _ ▸ by decide⟩

/-- XSD `.` is `[^\n\r]` in the spec (the statement F10 is measured against) -/
theorem dot_excludes_lf_cr (c : Char) : L (Pat.toRegex .dot) [c] ↔ (c ≠ '\n' ∧ c ≠ '\r') := by
  simp [Pat.toRegex, L, dotMem]

/-- non-vacuity (audit): both sides true for 'a', both false for CR (the F10 character) -/
example : L (Pat.toRegex .dot) ['a'] ∧ ¬ L (Pat.toRegex .dot) ['\r'] :=
  ⟨(dot_excludes_lf_cr 'a').mpr (by decide), fun h => ((dot_excludes_lf_cr '\r').mp h).2 rfl⟩

/-! ## B. pass 1: escaping of `^` and `$` -/

/-- no prefix of the escape tokens closes more unescaped brackets than it opened -/
def WellBracketed (p : Bytes) : Prop := ∀ k, 0 ≤ balance ((tokens p).take k)

theorem exists_neg_of_not_wellBracketed {p : Bytes} (h : ¬ WellBracketed p) : ∃ k, balance ((tokens p).take k) < 0 := by
  obtain ⟨k, hk⟩ := Classical.not_forall.mp h
  exact ⟨k, Int.not_le.mp hk⟩

/-- ideal output of pass 1: a backslash before each *unescaped* `^`/`$` at bracket depth 0, everything else verbatim -/
def specEscape : Int → List Tok → Bytes
  | _, [] => []
  | d, t :: r =>
    (if d = 0 ∧ (t = .lit bCaret ∨ t = .lit bDollar) then [bBackslash] else []) ++ t.bytes ++ specEscape (d + t.delta) r

/-- Pass 1 rejects a pattern exactly when a `]` closes nothing — with the depth tracked through escapes (`\[`, `\]` and
    `\\` do not count) — and then with "character group doesn't begin with '['"; it has no other error. -/
theorem rewrite_rejects_stray_bracket (fx : Fixes) (p : Bytes) :
    (escapeLoop fx 0 false p = .error .strayBracket ↔ ¬ WellBracketed p) ∧
    (∀ e, escapeLoop fx 0 false p = .error e → e = .strayBracket) := by
  by_cases h : WellBracketed p
  · have := escapeLoop_ok fx p h
    simp [this, h]
  · have hex := exists_neg_of_not_wellBracketed h
    have := escapeLoop_err fx p hex
    simp only [this, h, not_false_eq_true, true_and]
    intro e he
    cases he
    rfl

-- non-vacuity: `[\]]` is well bracketed (accepted), `\[a]` is not (rejected)
example : escapeLoop Fixes.none 0 false [91, 92, 93, 93] = .ok [91, 92, 93, 93] := by decide
example : escapeLoop Fixes.none 0 false [92, 91, 97, 93] = .error .strayBracket := by decide

/-- non-vacuity (audit): the iff in both directions. `a[\]^]\[$` (an escaped `]` inside a class, an escaped `[` outside) is
well bracketed because pass 1 accepts it; `[a]\\]` (an escaped backslash, then a `]` that closes nothing) is not because
pass 1 rejects it — and it is rejected with the repairs on as well -/
example : WellBracketed [97, 91, 92, 93, 94, 93, 92, 91, 36] :=
  Classical.byContradiction fun h =>
    absurd ((rewrite_rejects_stray_bracket Fixes.none [97, 91, 92, 93, 94, 93, 92, 91, 36]).1.mpr h) (by decide)
example : ¬ WellBracketed [91, 97, 93, 92, 92, 93] :=
  (rewrite_rejects_stray_bracket Fixes.none [91, 97, 93, 92, 92, 93]).1.mp (by decide)
example : escapeLoop Fixes.all 0 false [91, 97, 93, 92, 92, 93] = .error .strayBracket :=
  (rewrite_rejects_stray_bracket Fixes.all _).1.mpr ((rewrite_rejects_stray_bracket Fixes.none [91, 97, 93, 92, 92, 93]).1.mp (by decide))

theorem render_eq_specEscape (fx : Fixes) (hf : fx.f25 = true) : ∀ (ts : List Tok) (d : Int), render fx d ts = specEscape d ts
  | [], _ => rfl
  | t :: r, d => by
    simp only [render, specEscape, render_eq_specEscape fx hf r]
    congr 2
    cases t with
    | esc c => simp [insertion, hf]
    | lit c =>
      simp only [insertion, decide_eq_true_eq, Tok.lit.injEq]
      by_cases h0 : d = 0 <;> by_cases h1 : c = bDollar <;> by_cases h2 : c = bCaret <;> simp [h0, h1, h2]

theorem render_eq_specEscape_of_no_escaped_anchor : ∀ (ts : List Tok) (d : Int),
    (∀ t ∈ ts, t ≠ .esc bCaret ∧ t ≠ .esc bDollar) → render Fixes.none d ts = specEscape d ts
  | [], _, _ => rfl
  | t :: r, d, h => by
    have hr : ∀ t ∈ r, t ≠ .esc bCaret ∧ t ≠ .esc bDollar := fun t ht => h t (by simp [ht])
    simp only [render, specEscape, render_eq_specEscape_of_no_escaped_anchor r _ hr]
    congr 2
    have ht := h t (by simp)
    cases t with
    | esc c =>
      have h1 : c ≠ bCaret := fun e => ht.1 (by rw [e])
      have h2 : c ≠ bDollar := fun e => ht.2 (by rw [e])
      simp [insertion, h1, h2]
    | lit c =>
      simp only [insertion, decide_eq_true_eq, Tok.lit.injEq]
      by_cases h0 : d = 0 <;> by_cases h1 : c = bDollar <;> by_cases h2 : c = bCaret <;> simp [h0, h1, h2]

/-- **Full strength, repaired loop** (fixes/F25.diff): every `^`/`$` outside a character class gets a backslash, none
    inside, an already escaped one is left alone, nothing else changes. -/
theorem rewrite_escapes_exactly (fx : Fixes) (hf : fx.f25 = true) (p out : Bytes)
    (h : escapeLoop fx 0 false p = .ok out) : out = specEscape 0 (tokens p) := by
  by_cases hw : WellBracketed p
  · rw [escapeLoop_ok fx p hw] at h
    cases h
    exact render_eq_specEscape fx hf _ _
  · have hex := exists_neg_of_not_wellBracketed hw
    rw [escapeLoop_err fx p hex] at h
    cases h

-- non-vacuity: `^[$^]\^` ↦ `\^[$^]\^`
example : escapeLoop { f25 := true } 0 false [94, 91, 36, 94, 93, 92, 94] = .ok [92, 94, 91, 36, 94, 93, 92, 94] := by decide

/-- non-vacuity (audit): the theorem at `^a[$^\]]\^\\$` ↦ `\^a[$^\]]\^\\\$`: anchors at depth 0 (escaped by the loop), inside a
class (left alone), an escaped `]` inside the class, an already escaped `^` (left alone), and a `$` after an escaped
backslash (escaped) — the output is the spec's -/
example : [92, 94, 97, 91, 36, 94, 92, 93, 93, 92, 94, 92, 92, 92, 36] =
    specEscape 0 (tokens [94, 97, 91, 36, 94, 92, 93, 93, 92, 94, 92, 92, 36]) :=
  rewrite_escapes_exactly { f25 := true } rfl [94, 97, 91, 36, 94, 92, 93, 93, 92, 94, 92, 92, 36] _ (by decide)

/-- **The full-strength statement is false of the code as it is** (F25): the `^`/`$` case ignores `escaped`, the XSD
    escape `\^` becomes `\\^` — a literal backslash followed by an anchor. -/
theorem rewrite_escapes_exactly_fails :
    ¬ ∀ (p out : Bytes), escapeLoop Fixes.none 0 false p = .ok out → out = specEscape 0 (tokens p) := by
  intro h
  have := h [92, 94] [92, 92, 94] (by decide)
  revert this
  decide

/-- the true part: on patterns without the tokens `\^` and `\$` the code does escape exactly -/
theorem rewrite_escapes_exactly_partial (p out : Bytes) (hno : ∀ t ∈ tokens p, t ≠ .esc bCaret ∧ t ≠ .esc bDollar)
    (h : escapeLoop Fixes.none 0 false p = .ok out) : out = specEscape 0 (tokens p) := by
  by_cases hw : WellBracketed p
  · rw [escapeLoop_ok Fixes.none p hw] at h
    cases h
    exact render_eq_specEscape_of_no_escaped_anchor _ _ hno
  · have hex := exists_neg_of_not_wellBracketed hw
    rw [escapeLoop_err Fixes.none p hex] at h
    cases h

-- non-vacuity: `a$[^b]\[^` has no `\^`/`\$` token and is rewritten to `a\$[^b]\[\^`
example : (∀ t ∈ tokens [97, 36, 91, 94, 98, 93, 92, 91, 94], t ≠ .esc bCaret ∧ t ≠ .esc bDollar) ∧
    escapeLoop Fixes.none 0 false [97, 36, 91, 94, 98, 93, 92, 91, 94] = .ok [97, 92, 36, 91, 94, 98, 93, 92, 91, 92, 94] := by decide

/-- non-vacuity (audit): the theorem itself at that witness (anchor at depth 0, negated class, escaped `[`, trailing `^`) -/
example : [97, 92, 36, 91, 94, 98, 93, 92, 91, 92, 94] = specEscape 0 (tokens [97, 36, 91, 94, 98, 93, 92, 91, 94]) :=
  rewrite_escapes_exactly_partial [97, 36, 91, 94, 98, 93, 92, 91, 94] _ (by decide) (by decide)

/-! ## C. pass 2: `\p{IsBlock}` substitution -/

/-- `pre ++ "\p{Is" ++ name ++ "}" ++ post` with the needle `\p{Is` occurring nowhere before `pre.length` -/
def FirstAt (pre name post : Bytes) : Prop :=
  ∀ j, j < pre.length → needle.isPrefixOf ((pre ++ (needle ++ (name ++ bRBrace :: post))).drop j) = false

/-- every repair but F190: the pass-2 depth loop still looks at the previous byte only -/
def fxNo190 : Fixes := { f1 := true, f25 := true, f186 := true, f187 := true }
/-- every repair but F187: every row is still copied in the constant length `URANGE_LEN` -/
def fxNo187 : Fixes := { f1 := true, f25 := true, f186 := true, f190 := true }

/-- **The repaired pass-2 depth loop computes the token depth** (fixes/F190.diff): the loop with the `escaped` state —
    a backslash escapes exactly the next byte — ends at the bracket balance of the escape tokens of the text before the
    block escape, i.e. at the depth pass 1 (`escapeLoop`, part B) works with. -/
theorem pass2_depth_is_token_depth (fx : Fixes) (h190 : fx.f190 = true) (pre : Bytes) :
    depthWith fx pre = balance (tokens pre) :=
  depthWith_repaired fx h190 pre

/-- non-vacuity: `\\[a]` (escaped backslash, complete class): 0; `\\[a` (class still open): 1; `[\]` (escaped `]` in an open
class): 1; `\[a` (escaped `[`): 0 -/
example : depthWith Fixes.all [92, 92, 91, 97, 93] = 0 ∧ depthWith Fixes.all [92, 92, 91, 97] = 1 ∧
    depthWith Fixes.all [91, 92, 93] = 1 ∧ depthWith Fixes.all [92, 91, 97] = 0 := by decide
example : balance (tokens [92, 92, 91, 97, 93]) = 0 := (pass2_depth_is_token_depth Fixes.all rfl _).symm.trans (by decide)

/-- **False of the loop as it was** (F190): it looks only at the previous byte, so in `\\[` — an escaped backslash, then an
    opening bracket — the bracket is taken for an escaped one: depth 0 instead of 1 (and -1 instead of 0 after `\\[a]`). -/
theorem pass2_depth_is_token_depth_fails : ¬ ∀ pre : Bytes, depthWith Fixes.none pre = balance (tokens pre) := by
  intro h
  have := h [92, 92, 91]
  revert this
  decide

/-- **The true part for the loop as it was** (the `_partial`): on a text without an *escaped backslash* (no token `\\`) the
    previous-byte loop computes the token depth as well — every backslash byte then starts an escape token, so "the byte
    before is a backslash" does mean "escaped".  Hence either loop, whatever the state of the repair. -/
theorem pass2_depth_is_token_depth_partial (fx : Fixes) (pre : Bytes) (hno : ∀ t ∈ tokens pre, t ≠ .esc bBackslash) :
    depthWith fx pre = balance (tokens pre) := by
  by_cases h : fx.f190 = true
  · exact depthWith_repaired fx h pre
  · rw [depthWith_as_was fx (by simpa using h), depthOf_eq_balance pre hno]

/-- non-vacuity: `\[a[\]\^b` (escaped `[`, a class left open that holds an escaped `]`, an escaped `^`) has no escaped backslash; the
old loop arrives at the token depth 1 -/
example : (∀ t ∈ tokens [92, 91, 97, 91, 92, 93, 92, 94, 98], t ≠ .esc bBackslash) ∧ depthWith Fixes.none [92, 91, 97, 91, 92, 93, 92, 94, 98] = 1 := by decide
example : balance (tokens [92, 91, 97, 91, 92, 93, 92, 94, 98]) = 1 :=
  (pass2_depth_is_token_depth_partial Fixes.none _ (by decide)).symm.trans (by decide)

/-- **Full strength, repaired step** (fixes/F1.diff + F186.diff + F190.diff + F187.diff): `\p{IsX}` is replaced by the range
    text of the row named exactly X — the whole text, with its brackets, when the escape stands outside every character
    class, the text without its first and last byte inside a class, *inside a class* meaning that the unescaped brackets of
    the escape tokens before it do not balance (the depth of pass 1, which lets through only texts where no prefix closes
    more than it opened: more opened than closed) — and an X that is not a row name is rejected.
    (Any table, any `URANGE_LEN`.) -/
theorem block_subst_correct (fx : Fixes) (h1 : fx.f1 = true) (h186 : fx.f186 = true) (h190 : fx.f190 = true)
    (h187 : fx.f187 = true) (tbl : List (Bytes × Bytes)) (ulen : Nat) (pre name post : Bytes)
    (hfirst : FirstAt pre name post) (hname : bRBrace ∉ name) :
    (∀ i, findBlockExact tbl name = some i →
      (tbl.getD i ([], [])).1 = name ∧
      chblocksStep fx tbl ulen (pre ++ (needle ++ (name ++ bRBrace :: post))) =
        .next (pre ++ (if balance (tokens pre) = 0 then (tbl.getD i ([], [])).2
                       else ((tbl.getD i ([], [])).2.drop 1).dropLast) ++ post)) ∧
    (findBlockExact tbl name = Option.none →
      chblocksStep fx tbl ulen (pre ++ (needle ++ (name ++ bRBrace :: post))) = .fail .unknownBlock) := by
  have h := chblocksStep_found fx h1 h186 tbl ulen pre name post hfirst hname
  rw [depthWith_repaired fx h190, h187] at h
  refine ⟨fun i hi => ?_, h.2⟩
  have hc := copyLen_row ulen (tbl.getD i ([], [])).2
  have hi' := h.1 i hi
  rw [hc.1, hc.2] at hi'
  exact hi'

/-- non-vacuity (audit): the theorem on the table of the source at `a\p{IsGreek}+` (depth 0: row 7 with its brackets) -/
example : (ublocks.getD 7 ([], [])).1 = [71, 114, 101, 101, 107] ∧
    chblocksStep Fixes.all ublocks 19 ([97] ++ (needle ++ ([71, 114, 101, 101, 107] ++ bRBrace :: [43]))) =
      .next ([97] ++ (if balance (tokens [97]) = 0 then (ublocks.getD 7 ([], [])).2
                      else ((ublocks.getD 7 ([], [])).2.drop 1).dropLast) ++ [43]) :=
  (block_subst_correct Fixes.all rfl rfl rfl rfl ublocks 19 [97] [71, 114, 101, 101, 107] [43] (by unfold FirstAt; decide) (by decide)).1 7 (by decide)
/-- … which is `a[\x{0370}-\x{03FF}]+` -/
example : chblocksStep Fixes.all ublocks 19 ([97] ++ (needle ++ ([71, 114, 101, 101, 107] ++ bRBrace :: [43]))) =
    .next [97, 91, 92, 120, 123, 48, 51, 55, 48, 125, 45, 92, 120, 123, 48, 51, 70, 70, 125, 93, 43] := by decide
/-- non-vacuity (audit): inside a class, and a name that has another row name as a proper prefix (F186):
`[a\p{IsGreekExtended}]` ↦ `[a\x{1F00}-\x{1FFF}]` (row 38 without its brackets, not row 7) -/
example : chblocksStep Fixes.all ublocks 19 ([91, 97] ++ (needle ++ ([71, 114, 101, 101, 107, 69, 120, 116, 101, 110, 100, 101, 100] ++ bRBrace :: [93]))) =
    .next [91, 97, 92, 120, 123, 49, 70, 48, 48, 125, 45, 92, 120, 123, 49, 70, 70, 70, 125, 93] :=
  ((block_subst_correct Fixes.all rfl rfl rfl rfl ublocks 19 [91, 97] [71, 114, 101, 101, 107, 69, 120, 116, 101, 110, 100, 101, 100] [93] (by unfold FirstAt; decide) (by decide)).1 38
    (by decide)).2
/-- non-vacuity (audit): the second conjunct — `\p{IsGrek}` is no row name -/
example : chblocksStep Fixes.all ublocks 19 ([97] ++ (needle ++ ([71, 114, 101, 107] ++ bRBrace :: [43]))) = .fail .unknownBlock :=
  (block_subst_correct Fixes.all rfl rfl rfl rfl ublocks 19 [97] [71, 114, 101, 107] [43] (by unfold FirstAt; decide) (by decide)).2 (by decide)
/-- non-vacuity (F190): `\\[a]\p{IsGreek}` — an escaped backslash and the complete class `[a]` before the escape, token depth 0:
the range keeps its brackets, `\\[a][\x{0370}-\x{03FF}]` (backslash, `a`, a Greek letter); and `[\\\p{IsGreek}]` — an escaped
backslash inside an open class, depth 1: without brackets, `[\\\x{0370}-\x{03FF}]` -/
example : chblocksStep Fixes.all ublocks 19 ([92, 92, 91, 97, 93] ++ (needle ++ ([71, 114, 101, 101, 107] ++ bRBrace :: []))) =
    .next [92, 92, 91, 97, 93, 91, 92, 120, 123, 48, 51, 55, 48, 125, 45, 92, 120, 123, 48, 51, 70, 70, 125, 93] :=
  ((block_subst_correct Fixes.all rfl rfl rfl rfl ublocks 19 [92, 92, 91, 97, 93] [71, 114, 101, 101, 107] [] (by unfold FirstAt; decide) (by decide)).1 7
    (by decide)).2
example : chblocksStep Fixes.all ublocks 19 ([91, 92, 92] ++ (needle ++ ([71, 114, 101, 101, 107] ++ bRBrace :: [93]))) =
    .next [91, 92, 92, 92, 120, 123, 48, 51, 55, 48, 125, 45, 92, 120, 123, 48, 51, 70, 70, 125, 93] :=
  ((block_subst_correct Fixes.all rfl rfl rfl rfl ublocks 19 [91, 92, 92] [71, 114, 101, 101, 107] [93] (by unfold FirstAt; decide) (by decide)).1 7
    (by decide)).2
/-- … and through the whole rewrite (both passes, `URANGE_LEN` of the source now) -/
example : rewriteWith Fixes.all [92, 92, 91, 97, 93, 92, 112, 123, 73, 115, 71, 114, 101, 101, 107, 125] = .ok [92, 92, 91, 97, 93, 91, 92, 120, 123, 48, 51, 55, 48, 125, 45, 92, 120, 123, 48, 51, 70, 70, 125, 93] := by decide
/-- non-vacuity (F187): the `Specials` block (row 83, two ranges, longer than every other row) outside and inside a class:
`\p{IsSpecials}` ↦ `[\x{FEFF}\x{FFF0}-\x{FFFD}]`, `[a\p{IsSpecials}]` ↦ `[a\x{FEFF}\x{FFF0}-\x{FFFD}]` -/
example : chblocksStep Fixes.all ublocks 19 ([] ++ (needle ++ ([83, 112, 101, 99, 105, 97, 108, 115] ++ bRBrace :: []))) =
    .next [91, 92, 120, 123, 70, 69, 70, 70, 125, 92, 120, 123, 70, 70, 70, 48, 125, 45, 92, 120, 123, 70, 70, 70, 68, 125, 93] :=
  ((block_subst_correct Fixes.all rfl rfl rfl rfl ublocks 19 [] [83, 112, 101, 99, 105, 97, 108, 115] [] (by unfold FirstAt; decide) (by decide)).1 83
    (by decide)).2
example : chblocksStep Fixes.all ublocks 19 ([91, 97] ++ (needle ++ ([83, 112, 101, 99, 105, 97, 108, 115] ++ bRBrace :: [93]))) =
    .next [91, 97, 92, 120, 123, 70, 69, 70, 70, 125, 92, 120, 123, 70, 70, 70, 48, 125, 45, 92, 120, 123, 70, 70, 70, 68, 125, 93] :=
  ((block_subst_correct Fixes.all rfl rfl rfl rfl ublocks 19 [91, 97] [83, 112, 101, 99, 105, 97, 108, 115] [93] (by unfold FirstAt; decide) (by decide)).1 83
    (by decide)).2
example : rewriteWith Fixes.all [91, 94, 92, 112, 123, 73, 115, 83, 112, 101, 99, 105, 97, 108, 115, 125, 93, 92, 112, 123, 73, 115, 83, 112, 101, 99, 105, 97, 108, 115, 125] =
    .ok [91, 94, 92, 120, 123, 70, 69, 70, 70, 125, 92, 120, 123, 70, 70, 70, 48, 125, 45, 92, 120, 123, 70, 70, 70, 68, 125, 93, 91, 92, 120, 123, 70, 69, 70, 70, 125, 92, 120, 123, 70, 70, 70, 48, 125, 45, 92, 120, 123, 70, 70, 70, 68, 125, 93] := by decide

-- AUDIT (resolved): until F190 was recorded and repaired, `block_subst_correct` was stated with `depthOf pre`, the C code's
-- OWN pass-2 depth loop, which looks only at the previous byte and takes the `[` of `\\[` (an escaped backslash followed by
-- an opening bracket) for an escaped bracket; where that differs from the token depth `balance (tokens pre)` of pass 1 the
-- theorem endorsed a wrong output (`\\[a]\p{IsGreek}` ↦ `\\[a]\x{0370}-\x{03FF}`).  The defect is finding F190, the source
-- has the escape-aware loop (fixes/F190.diff), the model has the switch `Fixes.f190`, `pass2_depth_is_token_depth` proves that
-- the repaired loop computes the token depth, and `block_subst_correct` is now the token-depth statement.  The statement
-- with the code's own depth is kept as `block_subst_correct_partial` for the variant without the repair, with the witnesses
-- that it is strictly weaker (`block_subst_correct_weak_for_escaped_backslash`, `block_subst_tokdepth_fails`) and the
-- condition under which it coincides (`block_subst_correct_tokdepth`).

/-- **What holds without the F190 / F187 repairs** (the `_partial` of `block_subst_correct`; F1 and F186 repaired): the row
    named exactly X is used, but *depth 0* / *inside a class* is decided by the depth loop of the code as it was
    (`depthOf pre`: a bracket counts unless the byte before it is a backslash), and the text is copied in the length the
    code copies (`copyLen`: `ulen` whatever the row while F187 is unrepaired). -/
theorem block_subst_correct_partial (fx : Fixes) (h1 : fx.f1 = true) (h186 : fx.f186 = true) (h190 : fx.f190 = false)
    (tbl : List (Bytes × Bytes)) (ulen : Nat) (pre name post : Bytes)
    (hfirst : FirstAt pre name post) (hname : bRBrace ∉ name) :
    (∀ i, findBlockExact tbl name = some i →
      (tbl.getD i ([], [])).1 = name ∧
      chblocksStep fx tbl ulen (pre ++ (needle ++ (name ++ bRBrace :: post))) =
        .next (pre ++ (if depthOf pre = 0 then (tbl.getD i ([], [])).2.take (copyLen fx.f187 ulen (tbl.getD i ([], [])).2)
                       else ((tbl.getD i ([], [])).2.drop 1).take (copyLen fx.f187 ulen (tbl.getD i ([], [])).2 - 2)) ++ post)) ∧
    (findBlockExact tbl name = Option.none →
      chblocksStep fx tbl ulen (pre ++ (needle ++ (name ++ bRBrace :: post))) = .fail .unknownBlock) := by
  have h := chblocksStep_found fx h1 h186 tbl ulen pre name post hfirst hname
  rw [depthWith_as_was fx h190] at h
  exact h

/-- non-vacuity: the code with F1, F25, F186 repaired only (`URANGE_LEN` 19) at `[a\p{IsGreek}]`: row 7 without its brackets -/
example : chblocksStep { f1 := true, f25 := true, f186 := true } ublocks 19 ([91, 97] ++ (needle ++ ([71, 114, 101, 101, 107] ++ bRBrace :: [93]))) =
    .next [91, 97, 92, 120, 123, 48, 51, 55, 48, 125, 45, 92, 120, 123, 48, 51, 70, 70, 125, 93] :=
  ((block_subst_correct_partial { f1 := true, f25 := true, f186 := true } rfl rfl rfl ublocks 19 [91, 97] [71, 114, 101, 101, 107] [93]
    (by unfold FirstAt; decide) (by decide)).1 7 (by decide)).2

/-- **The depth of `block_subst_correct_partial` is the old code's, not the pattern's.** `\\[a]\p{IsGreek}`: the text before the
escape is an escaped backslash and the complete class `[a]` — token depth 0, the escape stands outside every class —
but the pass-2 depth loop that only looks at the previous byte arrives at -1, and the step with every repair BUT F190
drops the brackets of the range: `\\[a]\x{0370}-\x{03FF}`. -/
theorem block_subst_correct_weak_for_escaped_backslash :
    balance (tokens [92, 92, 91, 97, 93]) = 0 ∧ WellBracketed [92, 92, 91, 97, 93] ∧ depthOf [92, 92, 91, 97, 93] = -1 ∧
    FirstAt [92, 92, 91, 97, 93] [71, 114, 101, 101, 107] [] ∧
    chblocksStep fxNo190 ublocks 19 ([92, 92, 91, 97, 93] ++ (needle ++ ([71, 114, 101, 101, 107] ++ bRBrace :: []))) =
      .next ([92, 92, 91, 97, 93] ++ [92, 120, 123, 48, 51, 55, 48, 125, 45, 92, 120, 123, 48, 51, 70, 70, 125]) := by
  refine ⟨by decide, ?_, by decide, by unfold FirstAt; decide, by decide⟩
  exact Classical.byContradiction fun h =>
    absurd ((rewrite_rejects_stray_bracket Fixes.none [92, 92, 91, 97, 93]).1.mpr h) (by decide)

/-- **The full-strength statement is false of the code without the F190 repair** (every other repair on). -/
theorem block_subst_tokdepth_fails :
    ¬ ∀ (pre name post : Bytes) (i : Nat), FirstAt pre name post → bRBrace ∉ name → findBlockExact ublocks name = some i →
      chblocksStep fxNo190 ublocks 19 (pre ++ (needle ++ (name ++ bRBrace :: post))) =
        .next (pre ++ (if balance (tokens pre) = 0 then (ublocks.getD i ([], [])).2
                       else ((ublocks.getD i ([], [])).2.drop 1).dropLast) ++ post) := by
  intro h
  have := h [92, 92, 91, 97, 93] [71, 114, 101, 101, 107] [] 7 block_subst_correct_weak_for_escaped_backslash.2.2.2.1 (by decide) (by decide)
  revert this
  decide

/-- **`block_subst_correct_partial` with the depth of the pattern**: the statement with the token depth of pass 1 holds
of the step without the F190 repair wherever the old depth loop agrees with it — in particular when no escaped backslash
stands before the escape (`pass2_depth_is_token_depth_partial`). -/
theorem block_subst_correct_tokdepth (fx : Fixes) (h1 : fx.f1 = true) (h186 : fx.f186 = true) (h190 : fx.f190 = false)
    (tbl : List (Bytes × Bytes)) (ulen : Nat) (pre name post : Bytes)
    (hfirst : FirstAt pre name post) (hname : bRBrace ∉ name) (hdepth : depthOf pre = balance (tokens pre)) :
    (∀ i, findBlockExact tbl name = some i →
      (tbl.getD i ([], [])).1 = name ∧
      chblocksStep fx tbl ulen (pre ++ (needle ++ (name ++ bRBrace :: post))) =
        .next (pre ++ (if balance (tokens pre) = 0 then (tbl.getD i ([], [])).2.take (copyLen fx.f187 ulen (tbl.getD i ([], [])).2)
                       else ((tbl.getD i ([], [])).2.drop 1).take (copyLen fx.f187 ulen (tbl.getD i ([], [])).2 - 2)) ++ post)) ∧
    (findBlockExact tbl name = Option.none →
      chblocksStep fx tbl ulen (pre ++ (needle ++ (name ++ bRBrace :: post))) = .fail .unknownBlock) := by
  rw [← hdepth]
  exact block_subst_correct_partial fx h1 h186 h190 tbl ulen pre name post hfirst hname

/-- non-vacuity (audit): the depth hypothesis holds at `[\]a` (an escaped `]` inside an open class: both depths are 1) -/
example : depthOf [91, 92, 93, 97] = balance (tokens [91, 92, 93, 97]) ∧ balance (tokens [91, 92, 93, 97]) = 1 ∧
    FirstAt [91, 92, 93, 97] [71, 114, 101, 101, 107] [93] := ⟨by decide, by decide, by unfold FirstAt; decide⟩
/-- … obtained from the syntactic condition, and the theorem applied: `[\]a\p{IsGreek}]` ↦ `[\]a\x{0370}-\x{03FF}]` by the code
with F1, F25, F186 repaired only (`URANGE_LEN` 19) -/
example : chblocksStep { f1 := true, f25 := true, f186 := true } ublocks 19 ([91, 92, 93, 97] ++ (needle ++ ([71, 114, 101, 101, 107] ++ bRBrace :: [93]))) =
    .next [91, 92, 93, 97, 92, 120, 123, 48, 51, 55, 48, 125, 45, 92, 120, 123, 48, 51, 70, 70, 125, 93] :=
  ((block_subst_correct_tokdepth { f1 := true, f25 := true, f186 := true } rfl rfl rfl ublocks 19 [91, 92, 93, 97] [71, 114, 101, 101, 107] [93]
    (by unfold FirstAt; decide) (by decide)
    ((pass2_depth_is_token_depth_partial { f1 := true, f25 := true, f186 := true } [91, 92, 93, 97] (by decide)))).1 7 (by decide)).2

/-- the `Specials` row of `ublock2urange` as it was before fixes/F187.diff: `[\x{FEFF}|\x{FFF0}-\x{FFFD}]`, 28 bytes -/
def specialsRowWas : Bytes × Bytes := ([83, 112, 101, 99, 105, 97, 108, 115], [91, 92, 120, 123, 70, 69, 70, 70, 125, 124, 92, 120, 123, 70, 70, 70, 48, 125, 45, 92, 120, 123, 70, 70, 70, 68, 125, 93])

/-- **The full-strength statement is false of the code without the F187 repair** (every other repair on): with the row as
    it was and `URANGE_LEN` 19, `\p{IsSpecials}` becomes the cut text `[\x{FEFF}|\x{FFF0}-` (an unterminated class: the
    pattern is refused), and inside a class `\x{FEFF}|\x{FFF0}` (the range is lost and `|` is a member). -/
theorem block_subst_row_length_fails :
    (¬ ∀ (tbl : List (Bytes × Bytes)) (ulen : Nat) (pre name post : Bytes) (i : Nat), FirstAt pre name post → bRBrace ∉ name →
      findBlockExact tbl name = some i →
      chblocksStep fxNo187 tbl ulen (pre ++ (needle ++ (name ++ bRBrace :: post))) =
        .next (pre ++ (if balance (tokens pre) = 0 then (tbl.getD i ([], [])).2
                       else ((tbl.getD i ([], [])).2.drop 1).dropLast) ++ post)) ∧
    chblocksStep fxNo187 [specialsRowWas] 19 ([] ++ (needle ++ ([83, 112, 101, 99, 105, 97, 108, 115] ++ bRBrace :: []))) =
      .next [91, 92, 120, 123, 70, 69, 70, 70, 125, 124, 92, 120, 123, 70, 70, 70, 48, 125, 45] ∧
    chblocksStep fxNo187 [specialsRowWas] 19 ([91] ++ (needle ++ ([83, 112, 101, 99, 105, 97, 108, 115] ++ bRBrace :: [93]))) =
      .next [91, 92, 120, 123, 70, 69, 70, 70, 125, 124, 92, 120, 123, 70, 70, 70, 48, 125, 93] := by
  refine ⟨fun h => ?_, by decide, by decide⟩
  have := h [specialsRowWas] 19 [] [83, 112, 101, 99, 105, 97, 108, 115] [] 0 (fun j hj => by simp at hj) (by decide) (by decide)
  revert this
  decide

/-- **What holds without the F187 repair** (the `_partial` for the copy length): the constant length is right for every
    row that happens to be `ulen` bytes long (all rows of the source but `Specials`). -/
theorem block_subst_row_length_partial (fx : Fixes) (h1 : fx.f1 = true) (h186 : fx.f186 = true) (h190 : fx.f190 = true)
    (h187 : fx.f187 = false) (tbl : List (Bytes × Bytes)) (ulen : Nat) (pre name post : Bytes)
    (hfirst : FirstAt pre name post) (hname : bRBrace ∉ name) (i : Nat) (hi : findBlockExact tbl name = some i)
    (hlen : (tbl.getD i ([], [])).2.length = ulen) :
    chblocksStep fx tbl ulen (pre ++ (needle ++ (name ++ bRBrace :: post))) =
      .next (pre ++ (if balance (tokens pre) = 0 then (tbl.getD i ([], [])).2
                     else ((tbl.getD i ([], [])).2.drop 1).dropLast) ++ post) := by
  have h := ((chblocksStep_found fx h1 h186 tbl ulen pre name post hfirst hname).1 i hi).2
  rw [depthWith_repaired fx h190, h187] at h
  have hc := copyLen_row ulen (tbl.getD i ([], [])).2
  have he : copyLen false ulen (tbl.getD i ([], [])).2 = copyLen true ulen (tbl.getD i ([], [])).2 := by
    simp only [copyLen, Bool.false_eq_true, if_false, if_true]
    exact hlen.symm
  rw [he, hc.1, hc.2] at h
  exact h

/-- non-vacuity: the Greek row is 19 bytes; `\\[a]\p{IsGreek}` with every repair but F187 and `URANGE_LEN` 19 -/
example : chblocksStep fxNo187 ublocks 19 ([92, 92, 91, 97, 93] ++ (needle ++ ([71, 114, 101, 101, 107] ++ bRBrace :: []))) =
    .next [92, 92, 91, 97, 93, 91, 92, 120, 123, 48, 51, 55, 48, 125, 45, 92, 120, 123, 48, 51, 70, 70, 125, 93] :=
  block_subst_row_length_partial fxNo187 rfl rfl rfl rfl ublocks 19 [92, 92, 91, 97, 93] [71, 114, 101, 101, 107] [] (by unfold FirstAt; decide) (by decide) 7
    (by decide) (by decide)

/-- **Even the partial statement is false of the code as it was** (F1; `URANGE_LEN` was 19): at depth 0 `\p{IsGreek}` becomes
    the *first* row (BasicLatin), not the Greek row. -/
theorem block_subst_correct_fails :
    ¬ ∀ (pre name post : Bytes) (i : Nat), FirstAt pre name post → bRBrace ∉ name → findBlockExact ublocks name = some i →
      chblocksStep Fixes.none ublocks 19 (pre ++ (needle ++ (name ++ bRBrace :: post))) =
        .next (pre ++ (if depthOf pre = 0 then (ublocks.getD i ([], [])).2.take 19
                       else ((ublocks.getD i ([], [])).2.drop 1).take (19 - 2)) ++ post) := by
  intro h
  have := h [] [71, 114, 101, 101, 107] [] 7 (fun j hj => by simp at hj) (by decide) (by decide)
  revert this
  decide

/-- **What the code as it was does instead** (no repair at all): the block only has to *start with* a row name (F186); the
    row that is used is selected by the bracket depth of the text before the escape — the depth of the previous-byte loop
    (F190) — whatever the name (F1), the first row at depth 0, and is copied in the constant length (F187); a depth outside
    the table is a read outside `ublock2urange` (crash). -/
theorem block_subst_as_is (tbl : List (Bytes × Bytes)) (ulen : Nat) (pre name post : Bytes)
    (hfirst : FirstAt pre name post) (hname : bRBrace ∉ name) :
    chblocksStep Fixes.none tbl ulen (pre ++ (needle ++ (name ++ bRBrace :: post))) =
      if (findBlock tbl (name ++ bRBrace :: post)).isNone then .fail .unknownBlock
      else if depthOf pre < 0 ∨ depthOf pre ≥ (tbl.length : Int) then .fail .crash
      else if depthOf pre = 0 then .next (pre ++ (tbl.getD 0 ([], [])).2.take ulen ++ post)
      else .next (pre ++ ((tbl.getD (depthOf pre).toNat ([], [])).2.drop 1).take (ulen - 2) ++ post) := by
  rw [chblocksStep_at Fixes.none tbl ulen pre name post hfirst hname]
  simp only [Fixes.none, depthWith, copyLen, Bool.false_eq_true, if_false]
  cases findBlock tbl (name ++ bRBrace :: post) with
  | none => simp
  | some found =>
    simp only [Option.isNone_some, Bool.false_eq_true, if_false]
    by_cases hc : depthOf pre < 0 ∨ depthOf pre ≥ (tbl.length : Int)
    · simp [hc]
    · simp only [hc, if_false]
      by_cases hd : depthOf pre = 0
      · simp [hd]
      · simp [hd]

-- non-vacuity: `[\p{IsGreek}]` (depth 1) gets row 1 (Latin-1Supplement) without brackets; `\p{IsGreek}` gets row 0
example : chblocksStep Fixes.none ublocks 19 ([91] ++ (needle ++ ([71, 114, 101, 101, 107] ++ bRBrace :: [93]))) =
    .next ([91] ++ ((ublocks.getD 1 ([], [])).2.drop 1).take 17 ++ [93]) := by decide
example : FirstAt [91] [71, 114, 101, 101, 107] [93] := by
  intro j hj
  have : j = 0 := by simp at hj; omega
  subst this
  decide

/-- non-vacuity (audit): the theorem at that witness, table of the source, `URANGE_LEN` 19 -/
example : chblocksStep Fixes.none ublocks 19 ([91] ++ (needle ++ ([71, 114, 101, 101, 107] ++ bRBrace :: [93]))) =
    if (findBlock ublocks ([71, 114, 101, 101, 107] ++ bRBrace :: [93])).isNone then .fail .unknownBlock
    else if depthOf [91] < 0 ∨ depthOf [91] ≥ (ublocks.length : Int) then .fail .crash
    else if depthOf [91] = 0 then .next ([91] ++ (ublocks.getD 0 ([], [])).2.take 19 ++ [93])
    else .next ([91] ++ ((ublocks.getD (depthOf [91]).toNat ([], [])).2.drop 1).take (19 - 2) ++ [93]) :=
  block_subst_as_is ublocks 19 [91] [71, 114, 101, 101, 107] [93] (by unfold FirstAt; decide) (by decide)

/-- **Memory safety of the table access, repaired code**: with F1 repaired no pattern makes the rewrite index
    `ublock2urange` outside its rows. -/
theorem block_subst_index_in_table (fx : Fixes) (h1 : fx.f1 = true) (p : Bytes) : rewriteWith fx p ≠ .error .crash := by
  unfold rewriteWith
  split
  · rename_i e he
    have := (rewrite_rejects_stray_bracket fx (cstr p)).2 e he
    subst this
    intro h; cases h
  · exact chblocksLoop_no_crash fx h1 _ _ _ _

/-- non-vacuity (audit): `fx.f1 = true` is met by `{ f1 := true, f187 := true }`; on the crash witness `\\[a]\p{IsGreek}` of
`block_subst_index_in_table_fails` the rewrite then returns a text (the one of F190: no brackets) -/
example : rewriteWith { f1 := true, f187 := true } [92, 92, 91, 97, 93, 92, 112, 123, 73, 115, 71, 114, 101, 101, 107, 125] ≠ .error .crash :=
  block_subst_index_in_table { f1 := true, f187 := true } rfl _
example : rewriteWith { f1 := true, f187 := true } [92, 92, 91, 97, 93, 92, 112, 123, 73, 115, 71, 114, 101, 101, 107, 125] =
    .ok [92, 92, 91, 97, 93, 92, 120, 123, 48, 51, 55, 48, 125, 45, 92, 120, 123, 48, 51, 70, 70, 125] := by decide

/-- **False of the code as it was** (F1 with F190): `\\[a]\p{IsGreek}` — an escaped backslash, then a class.  Pass 2 counts the
    `[` as escaped (it only looks at the previous byte) and the `]` not: the counter wraps below zero and is used as the row. -/
theorem block_subst_index_in_table_fails : ¬ ∀ p : Bytes, rewrite p ≠ .error .crash := by
  intro h
  exact h [92, 92, 91, 97, 93, 92, 112, 123, 73, 115, 71, 114, 101, 101, 107, 125] (by decide)

/-! ### the table as extracted from the source now -/

def hexNibble (b : UInt8) : Option Nat :=
  if 48 ≤ b ∧ b ≤ 57 then some (b.toNat - 48)
  else if 65 ≤ b ∧ b ≤ 70 then some (b.toNat - 55)
  else Option.none

def hex4 : Bytes → Option Nat
  | [a, b, c, d] => do
    let a ← hexNibble a
    let b ← hexNibble b
    let c ← hexNibble c
    let d ← hexNibble d
    pure (((a * 16 + b) * 16 + c) * 16 + d)
  | _ => Option.none

/-- `\x{HHHH}` ↦ (code point, rest) -/
def parseCp : Bytes → Option (Nat × Bytes)
  | 92 :: 120 :: 123 :: a :: b :: c :: d :: 125 :: r => (hex4 [a, b, c, d]).map fun v => (v, r)
  | _ => Option.none

/-- the members of a class body: `\x{LO}-\x{HI}` ↦ (lo, hi), a single `\x{CP}` ↦ (cp, cp); nothing else is accepted -/
def parseItems : Nat → Bytes → Option (List (Nat × Nat))
  | _, [] => some []
  | 0, _ :: _ => Option.none
  | f + 1, t =>
    match parseCp t with
    | Option.none => Option.none
    | some (lo, 45 :: r) =>
      match parseCp r with
      | Option.none => Option.none
      | some (hi, r') => (parseItems f r').map ((lo, hi) :: ·)
    | some (lo, r) => (parseItems f r).map ((lo, lo) :: ·)

/-- `[` members `]` ↦ the ranges of the class -/
def parseRow : Bytes → Option (List (Nat × Nat))
  | 91 :: r => if r.getLast? = some 93 then parseItems r.length r.dropLast else Option.none
  | _ => Option.none

def rowName (b : Bytes) : String := String.ofList (b.map fun x => Char.ofNat x.toNat)

/-- Every row of `ublock2urange` is a PCRE2 class `[…]` whose members are exactly the code point ranges XML Schema Part 2
    §F.1.1 gives for the block of that name — one range `\x{LO}-\x{HI}` for most, the single character and the range
    `\x{FEFF}\x{FFF0}-\x{FFFD}` for `Specials` (fixes/F187.diff; the row used to contain a literal `|`) — with one exception:
    of `PrivateUse` the table has the first range only (the planes 15/16 parts are missing).  And the substitution copies a
    row in its own length (`lenFromRow`, read from the memcpy / memmove calls of the source), so the *repaired*
    substitution yields the XSD block. -/
theorem ublock_rows_match_xsd :
    (∀ row ∈ ublocks,
      (parseRow row.2).isSome = true ∧
      (rowName row.1 ≠ "PrivateUse" → parseRow row.2 = Unicode.blockRanges (rowName row.1)) ∧
      (rowName row.1 = "PrivateUse" → parseRow row.2 = (Unicode.blockRanges (rowName row.1)).map (fun rs => rs.take 1))) ∧
    Generated.UBlocks.lenFromRow = true := by
  decide +kernel

/-- non-vacuity (audit): the bounded quantifier ranges over 84 rows; the row exempted from the all-ranges clause is row 74
(`some = some`, not `none = none`), and the two-range row is the last one -/
example : ublocks.length = 84 ∧ (ublocks.getD 74 ([], [])).1 = [80, 114, 105, 118, 97, 116, 101, 85, 115, 101] ∧
    parseRow (ublocks.getD 74 ([], [])).2 = some [(0xE000, 0xF8FF)] ∧
    (ublocks.getLast?.map fun row => (rowName row.1, parseRow row.2)) = some ("Specials", some [(0xFEFF, 0xFEFF), (0xFFF0, 0xFFFD)]) := by
  decide +kernel
example : (Unicode.blockRanges "PrivateUse").map (fun rs => rs.take 1) = some [(0xE000, 0xF8FF)] := by decide +kernel

/-- **False of the table as it was** (F187): the `Specials` row `[\x{FEFF}|\x{FFF0}-\x{FFFD}]` is not a class of `\x{…}` members
    (the `|` is a literal member: the block would match `|`), and it is longer than the 19 bytes that were copied. -/
theorem ublock_rows_match_xsd_fails : parseRow specialsRowWas.2 = Option.none ∧ specialsRowWas.2.length > 19 := by decide

/-- the needle cannot be re-created by a replacement: no range text contains `\p{Is`, starts with `p`, `{`, `I`, `s` or ends
    with `\`, `p`, `{`, `I` (the facts the termination argument of the `while` loop rests on) -/
theorem ublock_rows_do_not_recreate_needle :
    ∀ row ∈ ublocks, findSub needle row.2 = Option.none ∧ row.2.head? ∈ [some bOpen] ∧ row.2.getLast? ∈ [some bClose] := by
  decide +kernel

/-- **Termination of the substitution loop** (`while ((ptr = strstr(perl_regex, "\\p{Is")))`): on the table as it is in the
    source now, copied in the rows' own lengths (the length rule of the source now), the model's fuel is sufficient for every
    input and every state of the other repairs — a round removes the first occurrence of
    the needle and creates none before the unprocessed tail (`no_occ_before_tail`: every text a row can contribute contains no
    needle, does not begin with `p { I s` and does not end with `\ p { I`), so the length of the text from the first
    occurrence on strictly decreases (`mu_decreases`). -/
theorem chblocks_terminates (fx : Fixes) (h187 : fx.f187 = true) (t : Bytes) : chblocks fx t ≠ .error .fuel :=
  chblocks_fuel_sufficient fx h187 t

/-- the same for any table, any `URANGE_LEN` and either length rule, provided the texts the rows can contribute are `good`
    (in particular for the code before fixes/F187.diff: its table with `URANGE_LEN` 19, see the example) -/
theorem chblocks_terminates_any_table (fx : Fixes) (tbl : List (Bytes × Bytes)) (ulen : Nat) (hT : GoodTable tbl ulen fx.f187)
    (t : Bytes) : chblocksLoop fx tbl ulen (t.length + 1) t ≠ .error .fuel :=
  chblocksLoop_fuel fx tbl ulen hT (t.length + 1) t (by have := mu_le_length t; omega)

/-- non-vacuity: the hypothesis holds for the one row that was not 19 bytes long, as it was, with the constant length 19 -/
example : GoodTable [specialsRowWas] 19 false := by unfold GoodTable; decide

/-- non-vacuity (audit): the conclusion is not a triviality of the model — with one round of fuel less than the loop
needs it does report `.fuel`; `\p{IsGreek}[\p{IsThai}]` takes two rounds and a final look -/
example : chblocksLoop Fixes.all ublocks 19 2 [92, 112, 123, 73, 115, 71, 114, 101, 101, 107, 125, 91, 92, 112, 123, 73, 115, 84, 104, 97, 105, 125, 93] =
      .error .fuel ∧
    chblocks Fixes.all [92, 112, 123, 73, 115, 71, 114, 101, 101, 107, 125, 91, 92, 112, 123, 73, 115, 84, 104, 97, 105, 125, 93] =
      .ok [91, 92, 120, 123, 48, 51, 55, 48, 125, 45, 92, 120, 123, 48, 51, 70, 70, 125, 93, 91, 92, 120, 123, 48, 69,
        48, 48, 125, 45, 92, 120, 123, 48, 69, 55, 70, 125, 93] := by decide

/-- the whole rewrite is total: its only outcomes are a text, one of the three diagnostics, or (code as it is) the crash -/
theorem rewrite_never_out_of_fuel (fx : Fixes) (h187 : fx.f187 = true) (p : Bytes) : rewriteWith fx p ≠ .error .fuel := by
  unfold rewriteWith
  split
  · rename_i e he
    have := (rewrite_rejects_stray_bracket fx (cstr p)).2 e he
    subst this
    intro h; cases h
  · exact chblocks_fuel_sufficient fx h187 _

-- non-vacuity: three block escapes, three rounds
example : rewriteWith Fixes.all [92, 112, 123, 73, 115, 71, 114, 101, 101, 107, 125, 91, 92, 112, 123, 73, 115, 71, 114, 101, 101, 107, 125, 93,
    92, 112, 123, 73, 115, 84, 104, 97, 105, 125] ≠ .error .fuel := rewrite_never_out_of_fuel Fixes.all rfl _

/-- Implicit anchoring at both ends, `$` only at the very end, Unicode semantics: the options the source passes to
    `pcre2_compile` / `pcre2_match` now, and none that would change the meaning of `.` `^` `$` or of letters. -/
theorem compile_options_anchor_both_ends :
    (∀ o ∈ ["PCRE2_UTF", "PCRE2_UCP", "PCRE2_ANCHORED", "PCRE2_ENDANCHORED", "PCRE2_DOLLAR_ENDONLY", "PCRE2_NO_AUTO_CAPTURE"],
      o ∈ Generated.UBlocks.compileOpts) ∧
    (∀ o ∈ ["PCRE2_MULTILINE", "PCRE2_DOTALL", "PCRE2_CASELESS", "PCRE2_EXTENDED", "PCRE2_UNGREEDY", "PCRE2_LITERAL"],
      o ∉ Generated.UBlocks.compileOpts) ∧
    (∀ o ∈ ["PCRE2_ANCHORED", "PCRE2_ENDANCHORED"], o ∈ Generated.UBlocks.matchOpts) := by
  decide

end LyModel.Props.C18
