import LyModel.Text.XmlLemmas
import LyModel.Text.JsonLemmas
/-!
# C01 — print → parse identity: property theorems (value text level, XML)

`xml_text_roundtrip`: for EVERY string the lexers can have produced (`YangText`), in element content and in
attribute values, libyang's XML lexer applied to what libyang's XML printer wrote returns the string, the
`ws_only` flag (set iff every byte is white space that was printed literally), and stops exactly at the terminator.  The printer is the function read off the source by the
translator (`Generated.xmlEscExceptions`); `esc_eq_spec` is the obligation that breaks when the switch changes.
-/
namespace LyModel.Props.C01
open LyModel LyModel.Utf8 LyModel.XmlText

/-- Element content (`endc = '<'`, `attr = false`) and attribute values (`endc = '"'`, `attr = true`).
    `hrest`: what follows the terminator is not a CDATA opener (the printer continues with `</name>`). -/
theorem xml_text_roundtrip (attr : Bool) (endc : UInt8) (hend : EndOk attr endc) (s rest : Bytes)
    (hs : YangText s) (hrest : stripPrefix sCdata (endc :: rest) = none) :
    XmlText.parse endc (dumpText attr s ++ endc :: rest) = .ok (s, s.all (wsLit attr), endc :: rest) := by
  have := parseValue_dump attr endc hend rest hrest hs ((dumpText attr s ++ endc :: rest).length + 1) true
    (by simp [List.length_append])
  simpa [XmlText.parse] using this

/-- element content followed by an end tag -/
theorem xml_content_roundtrip (s rest : Bytes) (hs : YangText s) :
    XmlText.parse 60 (dumpText false s ++ 60 :: 47 :: rest) = .ok (s, s.all (wsLit false), 60 :: 47 :: rest) :=
  xml_text_roundtrip false 60 (Or.inl rfl) s (47 :: rest) hs (by simp [sCdata, stripPrefix])

/-- attribute value followed by the closing quote -/
theorem xml_attr_roundtrip (s rest : Bytes) (hs : YangText s) :
    XmlText.parse 34 (dumpText true s ++ 34 :: rest) = .ok (s, s.all (wsLit true), 34 :: rest) :=
  xml_text_roundtrip true 34 (Or.inr ⟨rfl, rfl⟩) s rest hs (by simp [sCdata, stripPrefix])

/-- JSON: `lyjson_string`, started after the opening quote of what `json_print_string` wrote, returns the string and
    stops after the closing quote — for every `YangText` string (control characters travel as `\t`, `\r`, `\u000A`,
    `\u007F`). -/
theorem json_string_roundtrip (s rest : Bytes) (hs : YangText s) :
    JsonText.parse ((JsonText.printString s).tail ++ rest) = .ok (s, rest) := by
  have := JsonText.parseString_print hs rest (((JsonText.printString s).tail ++ rest).length + 1)
    (by simp [JsonText.printString, List.length_append])
  simpa [JsonText.parse, JsonText.printString] using this

/-- non-vacuity: a string with markup, quotes, a control character and 2-, 3- and 4-byte characters is `YangText` -/
example : YangText [97, 60, 38, 62, 34, 39, 9, 0xC3, 0xA9, 0xE2, 0x82, 0xAC, 0xF0, 0x9F, 0x98, 0x80] :=
  isYangText_sound _ (by decide)

/-- non-vacuity (audit): the theorems instantiated at that string — hypotheses met, and the conclusion is not the
    identity on bytes: the printed form differs from the string (`&lt; &amp; &gt;`, in attributes also `&quot;` and
    `&#x9;`; JSON `\"` and `\t`), and the lexers return the string, the flag and the untouched rest -/
def exText : Bytes := [97, 60, 38, 62, 34, 39, 9, 0xC3, 0xA9, 0xE2, 0x82, 0xAC, 0xF0, 0x9F, 0x98, 0x80]

example : dumpText false exText ≠ exText ∧ dumpText true exText ≠ dumpText false exText
    ∧ (JsonText.printString exText).tail ≠ exText ++ [34] := by decide

example : XmlText.parse 60 (dumpText false exText ++ 60 :: 47 :: [97, 62]) = .ok (exText, false, 60 :: 47 :: [97, 62]) :=
  xml_content_roundtrip exText [97, 62] (isYangText_sound _ (by decide))

example : XmlText.parse 34 (dumpText true exText ++ 34 :: [47, 62]) = .ok (exText, false, 34 :: [47, 62]) :=
  xml_attr_roundtrip exText [47, 62] (isYangText_sound _ (by decide))

/-- non-vacuity (audit): the `ws_only` flag takes both values — white space only: literal in content (flag set),
    `&#x9;&#xA;` in an attribute (flag clear) -/
example : XmlText.parse 60 (dumpText false [32, 9, 10] ++ 60 :: 47 :: [62]) = .ok ([32, 9, 10], true, 60 :: 47 :: [62])
    ∧ XmlText.parse 34 (dumpText true [32, 9, 10] ++ 34 :: [62]) = .ok ([32, 9, 10], false, 34 :: [62]) :=
  ⟨xml_content_roundtrip [32, 9, 10] [62] (isYangText_sound _ (by decide)),
   xml_attr_roundtrip [32, 9, 10] [62] (isYangText_sound _ (by decide))⟩

example : JsonText.parse ((JsonText.printString exText).tail ++ [44]) = .ok (exText, [44]) :=
  json_string_roundtrip exText [44] (isYangText_sound _ (by decide))

end LyModel.Props.C01
