import LyModel.Text.XmlText
namespace LyModel.Props.C01
theorem placeholder : True := trivial
end LyModel.Props.C01
