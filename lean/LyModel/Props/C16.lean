import LyModel.Conc.LockLemmas
import LyModel.Conc.DictLemmas
import LyModel.Conc.ErrLemmas
import LyModel.Conc.ErrView
import LyModel.Conc.Lazy
import LyModel.Conc.LybCache
import LyModel.Generated.LockPaths
import LyModel.Generated.Consts
/-!
# C16 — one context can be shared by concurrent readers

(P) part. The runtime half of the property (data races at the memory-model level, allocator state) is carried by the
race detector in `harness/api_threads.c`; see DESIGN §5 C16.
-/
namespace LyModel.Props.C16
open LyModel.Conc LyModel.Generated

/-! ## (a) lock structure of the code, re-extracted on every run -/

/-- On every control-flow path of every function of dict.c / log.c / lyb.c that touches a lock or a shared
    structure: lock and unlock are balanced and nested, mutexes are taken in increasing order only (no self-deadlock,
    no inversion: `dict.lock` before `lyb_hash_lock`, which happens when `lydict_remove` logs under the lock), static
    helpers are only called with the locks they assume, and every access to the dictionary table, a dictionary
    record, the `err_ht` table, and every *write* of the LYB hash cache lies inside the section of its mutex.
    (The `->err` member of a thread's error record is exempt here: see `lock_discipline_full_fails`.)
    The statement is a `List.all` over the GENERATED list `lockFns` (the functions and paths the extractor found), so by itself
    it is true of an empty list; that the list is populated — the named API functions are present, paths contain lock, access
    and call events — is `lock_paths_populated` below, and "every function / path" above means every one in that list. -/
theorem lock_discipline : disciplineOk (guard false) lockFns = true := by decide

/-- The full statement demands in addition that storage *inside the `err_ht` record array* is only touched under the
    lock that protects the array.  `Generated.ERR_REC_INLINE` says whether the thread records live in that array (it is
    read off the `lyht_new` call in context.c).  On a tree where they do — the pinned one — the full discipline fails
    (finding F8); on a tree where the table holds pointers to separately allocated records it holds.
    Like `lock_discipline` a `List.all` over the generated `lockFns` (true of an empty list when `ERR_REC_INLINE = false`);
    guarded by `lock_paths_populated` and, for the failing side, by `err_record_used_after_unlock` (five names must be found). -/
theorem lock_discipline_full_iff : disciplineOk (guard ERR_REC_INLINE) lockFns = !ERR_REC_INLINE := by decide

/-- The functions that break it are exactly those that use the pointer `ly_err_get_rec`/`ly_err_new_rec` returned
    after the unlock.  A filter over the generated `lockFns`: at `ERR_REC_INLINE = false` (the current value) the statement
    reads `[] = []`, which an empty `lockFns` satisfies as well — `lock_paths_populated` excludes that, and
    `err_record_used_after_unlock` is the form with content independent of the flag. -/
theorem lock_discipline_violators :
    violators (guard ERR_REC_INLINE) lockFns =
      if ERR_REC_INLINE then ["ly_err_first", "ly_err_last", "ly_err_move", "ly_err_clean", "log_store"] else [] := by
  decide

/-- (independent of the tree's current design) those five functions dereference the record pointer outside the lock -/
theorem err_record_used_after_unlock :
    violators (guard true) lockFns = ["ly_err_first", "ly_err_last", "ly_err_move", "ly_err_clean", "log_store"] := by
  decide

/-- No other function of the library mentions the two mutexes or the shared fields (except context creation /
    destruction, which run exclusively).  A `List.all` over the GENERATED list `sharedSites` (true of an empty list);
    `lock_paths_populated` (last conjunct) shows the list has sites outside the exclusive phase. -/
theorem shared_sites_covered : sitesCovered lockFns sharedSites = true := by decide

-- AUDIT (resolved): the four `List.all` statements above name `lock_paths_populated` (and `err_record_used_after_unlock`) as their guard against empty generated lists.
/-- (audit) the extracted lists are populated — the API functions of the three lock users are there, paths contain lock,
    access and call events, and there are shared sites outside context creation / destruction; with this the four `List.all`
    statements above cannot become true by an extractor finding nothing -/
theorem lock_paths_populated : (["lydict_insert", "lydict_insert_zc", "lydict_remove", "lydict_dup", "ly_err_get_rec", "ly_err_new_rec", "log_store",
            "ly_err_first", "lyb_cache_module_hash", "lyb_get_hash"].all fun n => lockFns.any (·.name == n)) = true
    ∧ 0 < (lockFns.flatMap fun f => f.paths.flatMap fun p => p.filter fun e => match e with | .lock _ => true | _ => false).length
    ∧ 0 < (lockFns.flatMap fun f => f.paths.flatMap fun p => p.filter fun e => match e with | .access _ _ => true | _ => false).length
    ∧ 0 < (lockFns.flatMap fun f => f.paths.flatMap fun p => p.filter fun e => match e with | .call _ => true | _ => false).length
    ∧ sharedSites.any (fun s => !exclusivePhase.contains s.2) = true := by decide

/-- non-vacuity (audit): the check is live — an accepted path stops being accepted when its unlock is dropped, when the
    access is moved out of the section, or when the two mutexes are taken in the wrong order -/
example : walk (guard false) lockFns ⟨[], []⟩ [.lock 0, .access 0 true, .access 1 true, .unlock 0, .ret] = true
    ∧ walk (guard false) lockFns ⟨[], []⟩ [.lock 0, .access 0 true, .access 1 true, .ret] = false
    ∧ walk (guard false) lockFns ⟨[], []⟩ [.access 0 true, .ret] = false
    ∧ walk (guard false) lockFns ⟨[], []⟩ [.lock 1, .lock 0, .unlock 0, .unlock 1, .ret] = false := by decide

/-- What the discipline buys, for any number of threads and any interleaving: threads that start without locks and
    run (call-free) paths accepted by the check never reach a state in which two of them are about to access fields
    guarded by the same mutex — in particular never the same guarded field. -/
theorem guarded_accesses_exclusive (pol : Policy) (ps : List (List Ev)) (hps : ∀ p ∈ ps, restOk pol [] p = true)
    (ts : List Thread) (hr : Reach (ps.map (fun p => ⟨[], p⟩)) ts)
    (i j : Nat) (hij : i ≠ j) (a b : Thread) (hi : ts[i]? = some a) (hj : ts[j]? = some b)
    (f1 f2 : Nat) (w1 w2 : Bool) (r1 r2 : List Ev)
    (ha : a.todo = .access f1 w1 :: r1) (hb : b.todo = .access f2 w2 :: r2)
    (m : Nat) (h1 : pol f1 w1 = some m) (h2 : pol f2 w2 = some m) : False := by
  have inv := inv_reach (inv_init pol ps hps) hr
  have ra := inv.rest i a hi
  have rb := inv.rest j b hj
  rw [ha] at ra; rw [hb] at rb
  simp only [restOk, h1, h2, Bool.and_eq_true, List.contains_eq_mem, decide_eq_true_eq] at ra rb
  exact inv.excl i j a b hi hj hij m ra.1 rb.1

/-- The flat check used above is implied by the check `lock_discipline` runs (for call-free paths). -/
theorem walk_implies_restOk (pol : Policy) (fns : List Fn) (p : List Ev)
    (hw : walk pol fns ⟨[], []⟩ p = true) (hnc : ∀ e ∈ p, ∀ g, e ≠ .call g) : restOk pol [] p = true :=
  walk_restOk pol fns ⟨[], []⟩ p rfl hw hnc

/-- non-vacuity: the inlined `lydict_insert` path and the `ly_err_get_rec` path are accepted, and two threads running
    them reach a state with one inside its section. -/
example : restOk (guard false) [] [.lock 0, .access 0 true, .access 1 true, .access 1 false, .unlock 0, .ret] = true ∧
    restOk (guard false) [] [.lock 1, .access 2 false, .unlock 1, .ret] = true := by decide

/-- the inlined `lydict_insert` path -/
def pIns : List Ev := [.lock 0, .access 0 true, .access 1 true, .access 1 false, .unlock 0, .ret]

/-- non-vacuity (audit): `walk_implies_restOk` at that path -/
example : restOk (guard false) [] pIns = true :=
  walk_implies_restOk (guard false) lockFns pIns (by decide)
    (by intro e he g; simp [pIns] at he; rcases he with rfl | rfl | rfl | rfl | rfl | rfl <;> simp)

/-- non-vacuity (audit): two threads running it do reach a state with one of them inside its section, about to write the
    table (the other is then still in front of its `lock`) … -/
example : Reach ([pIns, pIns].map fun p => ⟨[], p⟩)
    [⟨[0], [.access 0 true, .access 1 true, .access 1 false, .unlock 0, .ret]⟩, ⟨[], pIns⟩] :=
  .tail (.refl _) (Step.lock _ 0 [] 0 _ rfl (by decide))

/-- … and the theorem at these two threads: in no reachable state is thread 0 about to write the table while thread 1 is
    about to read a record (different fields, same mutex) -/
example (ts : List Thread) (hr : Reach ([pIns, pIns].map fun p => ⟨[], p⟩) ts) (a b : Thread)
    (hi : ts[0]? = some a) (hj : ts[1]? = some b) (r1 r2 : List Ev)
    (ha : a.todo = .access 0 true :: r1) (hb : b.todo = .access 1 false :: r2) : False :=
  guarded_accesses_exclusive (guard false) [pIns, pIns] (by decide) ts hr 0 1 (by decide) a b hi hj 0 1 true false r1 r2 ha hb
    0 rfl rfl

/-- non-vacuity (audit): the conclusion is not a property of the machine alone — for paths the check rejects (no lock around
    the access) every other hypothesis of `guarded_accesses_exclusive` is met by a reachable state (the initial one) -/
example : ∃ (ts : List Thread) (a b : Thread),
    Reach ([[Ev.access 0 true, .ret], [.access 0 false, .ret]].map fun p => ⟨[], p⟩) ts ∧
    ts[0]? = some a ∧ ts[1]? = some b ∧ a.todo = [.access 0 true, .ret] ∧ b.todo = [.access 0 false, .ret] ∧
    guard false 0 true = some 0 ∧ guard false 0 false = some 0 ∧ restOk (guard false) [] [.access 0 true, .ret] = false :=
  ⟨_, _, _, .refl _, rfl, rfl, rfl, rfl, rfl, rfl, by decide⟩

/-! ## (b) the dictionary under any interleaving -/

/-- For every number of threads, every step lists that follow the reference discipline (a thread removes / dups only
    what it holds), every interleaving `sched` and every serial order `σ` of the threads: the final reference counts
    are those of the serial run, every thread sees the return values it sees in the serial run, and these are the
    values it obtains running alone. -/
theorem dict_linearizable (d0 : Dict) (ts : List (List TStep)) (hown : ∀ t ∈ ts, ownedFrom noRefs t = true)
    (sched : List (Nat × TStep)) (h : Interleaving ts sched)
    (σ : List Nat) (hσ : σ.Perm (List.range ts.length)) :
    (∀ s, (exec d0 sched).1 s = (exec d0 (serialSched ts σ)).1 s) ∧
    (∀ i, retsOf i (exec d0 sched).2 = retsOf i (exec d0 (serialSched ts σ)).2) ∧
    (∀ i l, ts[i]? = some l → retsOf i (exec d0 sched).2 = alone d0 l) := by
  have hser := serial_interleaving_perm ts σ hσ
  have hown' : ∀ j l, ts[j]? = some l → ownedFrom ((fun _ => noRefs) j) l = true :=
    fun j l hj => hown l (List.mem_of_getElem? hj)
  have htot : ∀ s, total ts.length (fun _ => noRefs) s ≤ d0 s := fun s => by rw [total_noRefs]; exact Nat.zero_le _
  obtain ⟨o1, c1⟩ := exec_owned h (fun _ => noRefs) d0 hown' htot
  obtain ⟨o2, c2⟩ := exec_owned hser (fun _ => noRefs) d0 hown' htot
  refine ⟨?_, ?_, ?_⟩
  · intro s
    have a1 := adds_interleaving s h; have a2 := adds_interleaving s hser
    have r1 := rems_interleaving s h; have r2 := rems_interleaving s hser
    have := c1 s; have := c2 s
    omega
  · intro i
    simp only [retsOf, o1, o2, proj_okOut, proj_interleaving h, proj_interleaving hser]
  · intro i l hi
    have hl : Interleaving [l] (tagged 0 l) := by
      have := serial_interleaving_perm [l] [0] (by simp [List.range, List.range.loop])
      simpa [serialSched] using this
    have hownl : ∀ (j : Nat) (l' : List TStep), [l][j]? = some l' → ownedFrom ((fun _ => noRefs) j) l' = true := by
      intro j l' hj
      have : l' = l := by
        have := List.mem_of_getElem? hj; simpa using this
      subst this; exact hown l' (List.mem_of_getElem? hi)
    have htotl : ∀ s, total [l].length (fun _ => noRefs) s ≤ d0 s := fun s => by rw [total_noRefs]; exact Nat.zero_le _
    obtain ⟨o3, _⟩ := exec_owned hl (fun _ => noRefs) d0 hownl htotl
    simp only [alone, retsOf, o1, o3, proj_okOut, proj_interleaving h, proj_interleaving hl, hi]
    rfl

/-- non-vacuity: three threads sharing strings, an interleaving and a serial order. -/
example : ∃ (ts : List (List TStep)) (sched : List (Nat × TStep)),
    ts.length = 3 ∧ (∀ t ∈ ts, ownedFrom noRefs t = true) ∧ Interleaving ts sched ∧
    retsOf 1 (exec noRefs sched).2 = [.ptr "a", .ptr "a", .success, .success] :=
  ⟨[[.atomic (.insert "a"), .loc, .atomic (.remove "a")],
    [.atomic (.insert "a"), .atomic (.dup "a"), .atomic (.remove "a"), .atomic (.remove "a")],
    [.atomic (.insert "b")]],
   [(1, .atomic (.insert "a")), (0, .atomic (.insert "a")), (1, .atomic (.dup "a")), (0, .loc), (2, .atomic (.insert "b")),
    (0, .atomic (.remove "a")), (1, .atomic (.remove "a")), (1, .atomic (.remove "a"))],
   rfl, by decide,
   by
     refine .step _ 1 _ _ _ rfl (.step _ 0 _ _ _ rfl (.step _ 1 _ _ _ rfl (.step _ 0 _ _ _ rfl (.step _ 2 _ _ _ rfl
       (.step _ 0 _ _ _ rfl (.step _ 1 _ _ _ rfl (.step _ 1 _ _ _ rfl (.done _ ?_))))))))
     decide,
   by decide⟩

/-- non-vacuity (audit): the theorem instantiated at that witness, serial order `2, 0, 1`; the counts it speaks about are
    not constant (three references to "a" in the middle of the run, none at the end, one to "b") -/
def exTs : List (List TStep) :=
  [[.atomic (.insert "a"), .loc, .atomic (.remove "a")],
   [.atomic (.insert "a"), .atomic (.dup "a"), .atomic (.remove "a"), .atomic (.remove "a")],
   [.atomic (.insert "b")]]

def exSched : List (Nat × TStep) :=
  [(1, .atomic (.insert "a")), (0, .atomic (.insert "a")), (1, .atomic (.dup "a")), (0, .loc), (2, .atomic (.insert "b")),
   (0, .atomic (.remove "a")), (1, .atomic (.remove "a")), (1, .atomic (.remove "a"))]

theorem exSched_interleaving : Interleaving exTs exSched := by
  refine .step _ 1 _ _ _ rfl (.step _ 0 _ _ _ rfl (.step _ 1 _ _ _ rfl (.step _ 0 _ _ _ rfl (.step _ 2 _ _ _ rfl
    (.step _ 0 _ _ _ rfl (.step _ 1 _ _ _ rfl (.step _ 1 _ _ _ rfl (.done _ ?_))))))))
  decide

example : (∀ s, (exec noRefs exSched).1 s = (exec noRefs (serialSched exTs [2, 0, 1])).1 s) ∧
    (∀ i, retsOf i (exec noRefs exSched).2 = retsOf i (exec noRefs (serialSched exTs [2, 0, 1])).2) ∧
    (∀ i l, exTs[i]? = some l → retsOf i (exec noRefs exSched).2 = alone noRefs l) :=
  dict_linearizable noRefs exTs (by decide) exSched exSched_interleaving [2, 0, 1] (by decide)

example : (exec noRefs exSched).1 "a" = 0 ∧ (exec noRefs exSched).1 "b" = 1 ∧ (exec noRefs (exSched.take 5)).1 "a" = 3 := by
  decide

/-- Without the reference discipline the statement is false — not a defect, the boundary of the contract: a thread
    that removes a string it does not hold steals another thread's reference, and what it gets depends on the
    schedule. -/
theorem dict_linearizable_needs_discipline :
    ¬ ∀ (d0 : Dict) (ts : List (List TStep)) (sched : List (Nat × TStep)), Interleaving ts sched →
        ∀ i l, ts[i]? = some l → retsOf i (exec d0 sched).2 = alone d0 l := by
  intro h
  have := h noRefs [[.atomic (.insert "a")], [.atomic (.remove "a")]]
    [(0, .atomic (.insert "a")), (1, .atomic (.remove "a"))]
    (.step _ 0 _ _ _ rfl (.step _ 1 _ _ _ rfl (.done _ (by decide)))) 1 _ rfl
  revert this
  decide

/-! ## (c) per-thread error records in a table whose record array moves

`inl` = the table stores the records themselves (`Generated.ERR_REC_INLINE`, what the driver uses for the
correspondence with the code); `false` = it stores pointers to separately allocated records. -/

/-- Error records of one thread are never observed by another — in every schedule of any number of threads, *as
    long as no pointer into a replaced record array is dereferenced* (the run does not end in `stalePointer`):
    whatever a thread reads through the pointer `ly_err_get_rec`/`ly_err_new_rec` gave it is its own record. -/
theorem err_isolated_partial (inl : Bool) (sched : List (Nat × ErrStep)) (s : ErrState)
    (h : errRun inl errInit sched = .ok s) : ∀ o ∈ s.obs, o.owner = o.thread :=
  (errRun_inv (einv_init inl _ rfl) h).obsOk

/-- "Every thread obtains exactly the error records it would obtain running alone": in every schedule of any number of
    threads that does not dereference a stale pointer, the observations of thread `t` (every `ly_err_first/last`
    result, in order) are those of the run in which only `t`'s own steps are executed. -/
theorem err_view_alone (inl : Bool) (t : Nat) (sched : List (Nat × ErrStep)) (s : ErrState)
    (h : errRun inl errInit sched = .ok s) :
    ∃ a, errRun inl errInit (mine t sched) = .ok a ∧ obsOf t s.obs = a.obs := by
  obtain ⟨a, ha, hsim⟩ := errRun_sim sched errInit errInit s (einv_init inl _ rfl) (einv_init inl _ rfl) (sim_init inl t) h
  exact ⟨a, ha, by rw [hsim.obs, obsOf_mine ha]⟩

/-- With separately allocated records the statement holds in full: every schedule runs through and is isolated. -/
theorem err_isolated_heap (sched : List (Nat × ErrStep)) :
    ∃ s, errRun false errInit sched = .ok s ∧ ∀ o ∈ s.obs, o.owner = o.thread := by
  obtain ⟨s, h⟩ := errRun_heap errInit sched
  exact ⟨s, h, err_isolated_partial false sched s h⟩

/-- The record array is first replaced by the insert of the `staleThreshold`-th record; the number comes from the
    generated `LYHT_MIN_SIZE`, `LYHT_*_PERCENTAGE` and the `lyht_new(1, …, 1)` call in context.c. -/
theorem stale_threshold_value : staleThreshold = 6 := by decide

/-- With fewer than `staleThreshold` threads ever logging on the context no schedule whatsoever can go wrong. -/
theorem err_safe_below_threshold (inl : Bool) (T : List Nat) (hT : T.length < staleThreshold)
    (sched : List (Nat × ErrStep)) (hs : ∀ x ∈ sched, x.1 ∈ T) :
    ∃ s, errRun inl errInit sched = .ok s ∧ ∀ o ∈ s.obs, o.owner = o.thread := by
  obtain ⟨s, h, _⟩ := errRun_small inl hT sched hs (small_init T)
  exact ⟨s, h, err_isolated_partial inl sched s h⟩

def endsStale : Except ConcErr ErrState → Bool
  | .error .stalePointer => true
  | .ok _ => false

/-- The schedule of F8, produced by the model for `staleThreshold` threads that each only call the logger and
    `ly_err_first`: it is an interleaving of their programs and, with the records stored in the array, it ends in a
    dereference of a pointer into the freed array.  `harness/wb_log.c` replays exactly this schedule on the code under
    ASan. -/
theorem err_stale_schedule :
    (stalePrograms staleThreshold).length = staleThreshold ∧
    Interleaving (stalePrograms staleThreshold) (staleSchedule staleThreshold) ∧
    endsStale (errRun true errInit (staleSchedule staleThreshold)) = true := by
  refine ⟨by decide, ?_, by decide⟩
  rw [stale_threshold_value]
  repeat (first | exact .done _ (by decide) | refine .step _ _ _ _ _ (by rfl) ?_)

/-- Hence, for records stored in the array, the full statement — every interleaving of threads that log and read
    their errors runs without touching freed memory — is false (F8). -/
theorem err_stale_pointer_fails :
    ¬ ∀ (progs : List (List ErrStep)) (sched : List (Nat × ErrStep)), Interleaving progs sched →
        ∃ s, errRun true errInit sched = .ok s := by
  intro h
  obtain ⟨s, hs⟩ := h _ _ err_stale_schedule.2.1
  have := err_stale_schedule.2.2
  rw [hs] at this
  cases this

/-- non-vacuity of `err_isolated_partial`: three threads log and read back interleaved; each sees its own list. -/
example : ∃ s, errRun true errInit
      [(0, .getRec), (1, .getRec), (0, .newRecIfNull), (1, .newRecIfNull), (1, .store 11), (0, .store 10),
       (2, .getRec), (2, .newRecIfNull), (2, .store 12), (0, .getRec), (1, .getRec), (1, .read), (0, .read)] = .ok s ∧
    s.obs = [⟨1, 1, [11]⟩, ⟨0, 0, [10]⟩] := ⟨_, rfl, by decide⟩

/-- that schedule -/
def exErr : List (Nat × ErrStep) :=
  [(0, .getRec), (1, .getRec), (0, .newRecIfNull), (1, .newRecIfNull), (1, .store 11), (0, .store 10),
   (2, .getRec), (2, .newRecIfNull), (2, .store 12), (0, .getRec), (1, .getRec), (1, .read), (0, .read)]

/-- non-vacuity (audit) of `err_view_alone`: thread 1 alone observes what it observes in the schedule -/
example : ∃ a, errRun true errInit (mine 1 exErr) = .ok a ∧ a.obs = [⟨1, 1, [11]⟩] := ⟨_, rfl, by decide⟩

/-- non-vacuity (audit): `err_safe_below_threshold` at that schedule (three threads, records stored in the array) -/
example : ∃ s, errRun true errInit exErr = .ok s ∧ ∀ o ∈ s.obs, o.owner = o.thread :=
  err_safe_below_threshold true [0, 1, 2] (by decide) exErr (by decide)

/-! ## (d) lazily cached canonical strings -/

/-- The print callbacks that fill `value->_canonical` on first use, none of them under a lock (finding F9): the list
    is re-extracted on every run; a repair (fill under a lock, or at store time) changes it. -/
theorem lazy_canon_sites :
    lazyCanonSites.map (fun s => (s.2.1, s.2.2)) =
      [("lyplg_type_print_binary", false), ("lyplg_type_print_bits", false), ("lyplg_type_print_date_and_time", false),
       ("lyplg_type_print_ipv4_address", false), ("lyplg_type_print_ipv4_address_no_zone", false),
       ("lyplg_type_print_ipv4_prefix", false), ("lyplg_type_print_ipv6_address", false),
       ("lyplg_type_print_ipv6_address_no_zone", false), ("lyplg_type_print_ipv6_prefix", false),
       ("lyplg_type_print_union", false)] := by decide

/-- For a value whose canonical string is already cached, any number of readers in any schedule leave the
    dictionary alone, all return the cached string, and freeing the value releases its one reference.  (The third conjunct is
    `r0 - 1` in truncated subtraction: it means "one reference is released" for `1 ≤ r0`, the only start states that arise — a
    cached pointer to a string with no reference, `r0 = 0`, cannot; there it reads `0 = 0`.) -/
theorem lazy_canon_partial (c : String) (r0 : Nat) (sched : List (Nat × LStep)) :
    (lrun c (lazyInit (some c) r0) sched).refs = r0 ∧
    (∀ o ∈ (lrun c (lazyInit (some c) r0) sched).out, o.2 = c) ∧
    (lfree (lrun c (lazyInit (some c) r0) sched)).refs = r0 - 1 := by
  obtain ⟨h1, h2, _, h4⟩ := lrun_filled c sched (lazyInit (some c) r0) rfl (fun _ => rfl)
  refine ⟨h2, ?_, ?_⟩
  · intro o ho
    rcases h4 o ho with h | h
    · cases h
    · exact h
  · simp only [lfree, h1, h2]; rfl

/-- The same holds when one reader has completed before the others start (what a caller can do to be safe: print
    or `lyd_get_value` every node once before sharing the tree): exactly one reference is taken and freed. -/
theorem lazy_canon_serial (c : String) (r0 : Nat) (sched : List (Nat × LStep)) :
    (lrun c (lazyInit none r0) (tagged 0 reader ++ sched)).refs = r0 + 1 ∧
    (∀ o ∈ (lrun c (lazyInit none r0) (tagged 0 reader ++ sched)).out, o.2 = c) ∧
    (lfree (lrun c (lazyInit none r0) (tagged 0 reader ++ sched))).refs = r0 := by
  rw [lrun_append]
  obtain ⟨h1, h2, _, h4⟩ := lrun_filled c sched (lrun c (lazyInit none r0) (tagged 0 reader)) rfl
    (by intro t; simp [lrun, lstep, tagged, reader, lazyInit])
  refine ⟨by rw [h2]; rfl, ?_, ?_⟩
  · intro o ho
    rcases h4 o ho with h | h
    · simp [lrun, lstep, tagged, reader, lazyInit] at h
      rw [h]
    · exact h
  · simp only [lfree, h1, h2]; rfl

/-- Two readers of a shared, not yet cached value can both pass the check and both insert: the value ends up holding
    one pointer while the dictionary counts two references, so freeing the value leaves a surplus reference (F9; at
    the memory-model level the same schedule is the data race TSan reports).  The full statement — every interleaving
    of readers leaves the dictionary as the serial run does — is false. -/
theorem lazy_canon_race_fails :
    ¬ ∀ (c : String) (r0 : Nat) (ts : List (List LStep)) (sched : List (Nat × LStep)),
        (∀ t ∈ ts, t = reader) → Interleaving ts sched → (lfree (lrun c (lazyInit none r0) sched)).refs = r0 := by
  intro h
  have := h "x y" 0 [reader, reader] raceSchedule (by decide)
    (by unfold raceSchedule
        repeat (first | exact .done _ (by decide) | refine .step _ _ _ _ _ (by rfl) ?_))
  revert this
  decide

example : (lrun "x y" (lazyInit none 0) raceSchedule).refs = 2 ∧ (lrun "x y" (lazyInit none 0) raceSchedule).canon = some "x y" := by
  decide

/-- non-vacuity (audit) of `lazy_canon_partial` / `lazy_canon_serial`: the schedules they quantify over include ones that
    produce output — three readers racing on a cached value all return it; the race schedule after one completed reader
    takes no further reference (5 = 4 + 1) and freeing the value gives it back -/
example : (lrun "c" (lazyInit (some "c") 1) [(0, .check), (1, .check), (0, .insert), (1, .insert), (0, .set), (2, .check),
      (1, .set), (0, .ret), (1, .ret), (2, .insert), (2, .set), (2, .ret)]).out = [(0, "c"), (1, "c"), (2, "c")]
    ∧ (lrun "x y" (lazyInit none 4) (tagged 0 reader ++ raceSchedule)).refs = 5
    ∧ (lrun "x y" (lazyInit none 4) (tagged 0 reader ++ raceSchedule)).out = [(0, "x y"), (0, "x y"), (1, "x y")]
    ∧ (lfree (lrun "x y" (lazyInit none 4) (tagged 0 reader ++ raceSchedule))).refs = 4 := by decide

-- AUDIT (resolved, minor): docstring of `lazy_canon_partial` says that its third conjunct has content for `1 ≤ r0` only (truncated subtraction).

/-! ## the LYB schema-hash cache: written once under the lock, read without it -/

/-- In every schedule of any number of threads in which each thread's `lyb_get_hash` reads come after a
    `lyb_cache_module_hash` call of that same thread (what printer_lyb.c / parser_lyb.c do), the cache is written at
    most once and every unlocked read returns the cached hash — the reads `lock_discipline` leaves unconstrained. -/
theorem lyb_cache_published (v : Nat) (sched : List (Nat × CStep))
    (h : readsAfterOwnCache (fun _ => false) sched = true) :
    (crun v cacheInit sched).writes ≤ 1 ∧ ∀ r ∈ (crun v cacheInit sched).reads, r.2 = some v := by
  have inv := crun_inv v sched cacheInit
    ⟨Or.inl ⟨rfl, rfl⟩, fun _ hc => (by cases hc), fun _ hr => (by cases hr)⟩ h
  refine ⟨?_, inv.reads⟩
  rcases inv.once with ⟨_, hw⟩ | ⟨_, hw⟩ <;> omega

example : readsAfterOwnCache (fun _ => false) [(0, .cache), (1, .cache), (1, .read), (0, .read), (2, .cache), (2, .read)] = true ∧
    (crun 7 cacheInit [(0, .cache), (1, .cache), (1, .read), (0, .read), (2, .cache), (2, .read)]).reads =
      [(1, some 7), (0, some 7), (2, some 7)] := by decide

/-- non-vacuity (audit): the theorem at that schedule; and its hypothesis does exclude something — a thread that reads
    without having called `lyb_cache_module_hash` itself is rejected, and such a read can see an empty cache -/
example : (crun 7 cacheInit [(0, .cache), (1, .cache), (1, .read), (0, .read), (2, .cache), (2, .read)]).writes ≤ 1 ∧
    ∀ r ∈ (crun 7 cacheInit [(0, .cache), (1, .cache), (1, .read), (0, .read), (2, .cache), (2, .read)]).reads, r.2 = some 7 :=
  lyb_cache_published 7 _ (by decide)

example : readsAfterOwnCache (fun _ => false) [(0, .cache), (1, .read)] = false ∧
    (crun 7 cacheInit [(1, .read), (0, .cache)]).reads = [(1, none)] := by decide

end LyModel.Props.C16
