import LyModel.Lex.Utf8Reads
import LyModel.Lex.JsonNumLemmas
/-!
# C05 — arbitrary input never corrupts memory: the lexers as buffer programs

Property theorems only (helper lemmas live in `LyModel/Lex`).  Every model is a total structurally recursive
function (no fuel), so termination on every input is part of each definition being accepted; "a value or an error,
never both" is the `Except` / `Option` result type.  What is proved here, for ALL byte strings:

* no store of `lyjson_exp_number` lands at or behind the `buf_len + 1` allocated bytes, and no length handed to
  `memset` / the copy loop is negative (`json_exp_number_in_bounds`);
* `ly_getutf8` reads index `i` only when the bytes before it are not NUL (`getutf8_reads_before_nul`).
-/
namespace LyModel.Props.C05
open LyModel LyModel.JsonNum LyModel.Lex.Utf8Reads

/-- **JSON numbers with an exponent.**  For every input on which `lyjson_number` reaches `lyjson_exp_number` and the
    latter succeeds (every RFC 8259 number text, every exponent the C accepts — and every other byte string that gets
    that far): each store `buf[i] = b` of the composition, the `memset`s and the final NUL included, has
    `i < buf_len + 1`, the size of the allocation; every length passed on (`size_t` / `uint32_t` in the C) is `≥ 0`.
    The bound is tight: in the miscounted branch (F14, `0.5e1`) a store does go to index `buf_len`. -/
theorem json_exp_number_in_bounds (inp : Bytes) (r : NumOut) (x : ExpOut)
    (h : number inp = .ok r) (hx : r.exp = some x) :
    (∀ w ∈ x.writes, w.1 < x.alloc) ∧ (∀ l ∈ x.lens, 0 ≤ l) := by
  obtain ⟨e, hlz, he⟩ := number_exp inp r x h hx
  exact expNumber_bounds inp e x hlz he

/-- non-vacuity: `-12.50e-3,` goes through the composition (8 stores into 8 bytes); so does the F14 witness `0.5e1` -/
example : ∃ r x, number [45, 49, 50, 46, 53, 48, 101, 45, 51, 44] = .ok r ∧ r.exp = some x ∧ x.alloc = 8 ∧ x.writes.length = 8 ∧
    r.value = [45, 48, 46, 48, 49, 50, 53] := by
  refine ⟨_, _, rfl, rfl, ?_⟩
  decide

example : ∃ r x, number [48, 46, 53, 101, 49] = .ok r ∧ r.exp = some x ∧ x.alloc = 2 ∧ x.writes = [(0, 46), (1, 53), (1, 0)] := by
  refine ⟨_, _, rfl, rfl, ?_⟩
  decide

/-- **`ly_getutf8` never reads past the terminator.**  The instrumented reader computes exactly `Utf8.getUtf8`, and
    every index it reads is preceded by non-NUL bytes only; so on a NUL-terminated buffer no read index exceeds the
    length of the C string, whatever (malformed, truncated) bytes it holds. -/
theorem getutf8_reads_before_nul (inp : Bytes) :
    (getUtf8I inp).1 = Utf8.getUtf8 inp ∧
    (∀ i ∈ (getUtf8I inp).2, ∀ j, j < i → Utf8.rd inp j ≠ 0) ∧
    (∀ i ∈ (getUtf8I inp).2, i ≤ cstrlen inp) :=
  ⟨getUtf8I_fst inp, getUtf8I_reads inp, getUtf8I_reads_le_cstrlen inp⟩

/-- non-vacuity: a truncated 4-byte sequence `F0 90 80` is read up to index 3 — the NUL — and not further -/
example : getUtf8I [0xF0, 0x90, 0x80] = (none, [0, 1, 2, 3]) ∧ cstrlen [0xF0, 0x90, 0x80] = 3 := by decide

end LyModel.Props.C05
