import LyModel.Lex.Utf8Reads
import LyModel.Lex.JsonNumLemmas
import LyModel.Lex.JsonStrBufLemmas
import LyModel.Lex.XmlBufLemmas
/-!
# C05 — arbitrary input never corrupts memory: the lexers as buffer programs

Property theorems only (helper lemmas live in `LyModel/Lex`).  Every model is a total structurally recursive
function (no fuel), so termination on every input is part of each definition being accepted; "a value or an error,
never both" is the `Except` / `Option` result type.  What is proved here, for ALL byte strings:

* no store of `lyjson_exp_number` lands at or behind the `buf_len + 1` allocated bytes, and no length handed to
  `memset` / the copy loop is negative (`json_exp_number_in_bounds`);
* `ly_getutf8` reads index `i` only when the bytes before it are not NUL (`getutf8_reads_before_nul`);
* `lyjson_string` and `lyxml_parse_value` with `len`, `offset`, the recorded `size` and the really allocated size as
  state never store at or behind the allocation — including the growth step of `lyjson_string` that reallocates to
  `size + increment` but records `size + STEP` — and return exactly what the buffer-free models of C01 return
  (`json_string_buffer_safe`, `xml_value_buffer_safe`).
-/
namespace LyModel.Props.C05
open LyModel LyModel.JsonNum LyModel.Lex.Utf8Reads

/-- **JSON numbers with an exponent.**  For every input on which `lyjson_number` reaches `lyjson_exp_number` and the
    latter succeeds (every RFC 8259 number text, every exponent the C accepts — and every other byte string that gets
    that far): each store `buf[i] = b` of the composition, the `memset`s and the final NUL included, has
    `i < buf_len + 1`, the size of the allocation; every length passed on (`size_t` / `uint32_t` in the C) is `≥ 0`.
    The bound is tight: in the miscounted branch (F14, `0.5e1`) a store does go to index `buf_len`. -/
theorem json_exp_number_in_bounds (inp : Bytes) (r : NumOut) (x : ExpOut)
    (h : number inp = .ok r) (hx : r.exp = some x) :
    (∀ w ∈ x.writes, w.1 < x.alloc) ∧ (∀ l ∈ x.lens, 0 ≤ l) := by
  obtain ⟨e, hlz, he⟩ := number_exp inp r x h hx
  exact expNumber_bounds inp e x hlz he

/-- non-vacuity: `-12.50e-3,` goes through the composition (8 stores into 8 bytes); so does the F14 witness `0.5e1` -/
example : ∃ r x, number [45, 49, 50, 46, 53, 48, 101, 45, 51, 44] = .ok r ∧ r.exp = some x ∧ x.alloc = 8 ∧ x.writes.length = 8 ∧
    r.value = [45, 48, 46, 48, 49, 50, 53] := by
  refine ⟨_, _, rfl, rfl, ?_⟩
  decide

example (h : Generated.lyjsonExpLeadingZeroFixed = false) :
    ∃ r x, number [48, 46, 53, 101, 49] = .ok r ∧ r.exp = some x ∧ x.alloc = 2 ∧ x.writes = [(0, 46), (1, 53), (1, 0)] := by
  have hc : compose [48, 46, 53, 101, 49] (prep [48, 46, 53, 101, 49] 3 (expVal [48, 46, 53, 101, 49] 3)) =
      composeB2orig [48, 46, 53, 101, 49] (prep [48, 46, 53, 101, 49] 3 (expVal [48, 46, 53, 101, 49] 3)) := by
    unfold compose; rw [h]; rfl
  refine ⟨{ value := [46], consumed := 5, dyn := true, exp := some { bufLen := 1, writes := [(0, 46), (1, 53), (1, 0)], lens := [1] } }, _, ?_, rfl, rfl, rfl⟩
  have hn : number [48, 46, 53, 101, 49] = (match expNumber [48, 46, 53, 101, 49] 3 with
      | .error x => .error x
      | .ok r => .ok { value := r.value, consumed := 5, dyn := true, exp := some r }) := by rfl
  rw [hn]
  have he : expNumber [48, 46, 53, 101, 49] 3 = .ok { bufLen := 1, writes := [(0, 46), (1, 53), (1, 0)], lens := [1] } := by
    unfold expNumber
    simp only [hc]
    rfl
  rw [he]
  rfl

-- AUDIT (resolved): example above = 3.7.8 branch only; fixed-source counterpart follows, value statement proved (`json_number_value_fixed`, `Props/C05JsonNum.lean`).

/-- non-vacuity (audit): `json_exp_number_in_bounds` at the F14 witnesses on the fixed source -/
example (h : Generated.lyjsonExpLeadingZeroFixed = true) :
    ∃ r x, number [48, 46, 53, 101, 49] = .ok r ∧ r.exp = some x ∧ x.alloc = 2 ∧ x.writes = [(0, 53), (1, 0)] := by
  have hc : compose [48, 46, 53, 101, 49] (prep [48, 46, 53, 101, 49] 3 (expVal [48, 46, 53, 101, 49] 3)) =
      composeB4 [48, 46, 53, 101, 49] (prep [48, 46, 53, 101, 49] 3 (expVal [48, 46, 53, 101, 49] 3)) := by
    unfold compose; rw [h]; rfl
  have hb : composeB4 [48, 46, 53, 101, 49] (prep [48, 46, 53, 101, 49] 3 (expVal [48, 46, 53, 101, 49] 3))
      = (1, [(0, 53)], [1, 0]) := by decide
  refine ⟨{ value := [53], consumed := 5, dyn := true, exp := some { bufLen := 1, writes := [(0, 53), (1, 0)], lens := [1, 0] } }, _, ?_, rfl, rfl, rfl⟩
  have hn : number [48, 46, 53, 101, 49] = (match expNumber [48, 46, 53, 101, 49] 3 with
      | .error x => .error x
      | .ok r => .ok { value := r.value, consumed := 5, dyn := true, exp := some r }) := by rfl
  rw [hn]
  have he : expNumber [48, 46, 53, 101, 49] 3 = .ok { bufLen := 1, writes := [(0, 53), (1, 0)], lens := [1, 0] } := by
    unfold expNumber
    simp only [hc, hb]
    rfl
  rw [he]
  rfl

/-- non-vacuity (audit): the theorem itself at `-12.50e-3,` (independent of the switch): all 8 stores below 8, both
    lengths non-negative -/
example : ∀ r x, number [45, 49, 50, 46, 53, 48, 101, 45, 51, 44] = .ok r → r.exp = some x →
    (∀ w ∈ x.writes, w.1 < x.alloc) ∧ (∀ l ∈ x.lens, 0 ≤ l) :=
  fun r x h hx => json_exp_number_in_bounds _ r x h hx

/-- **`ly_getutf8` never reads past the terminator.**  The instrumented reader computes exactly `Utf8.getUtf8`, and
    every index it reads is preceded by non-NUL bytes only; so on a NUL-terminated buffer no read index exceeds the
    length of the C string, whatever (malformed, truncated) bytes it holds. -/
theorem getutf8_reads_before_nul (inp : Bytes) :
    (getUtf8I inp).1 = Utf8.getUtf8 inp ∧
    (∀ i ∈ (getUtf8I inp).2, ∀ j, j < i → Utf8.rd inp j ≠ 0) ∧
    (∀ i ∈ (getUtf8I inp).2, i ≤ cstrlen inp) :=
  ⟨getUtf8I_fst inp, getUtf8I_reads inp, getUtf8I_reads_le_cstrlen inp⟩

/-- non-vacuity: a truncated 4-byte sequence `F0 90 80` is read up to index 3 — the NUL — and not further -/
example : getUtf8I [0xF0, 0x90, 0x80] = (none, [0, 1, 2, 3]) ∧ cstrlen [0xF0, 0x90, 0x80] = 3 := by decide

/-- **`lyjson_string`: the output buffer is never overrun.**  The instrumented lexer — every `memcpy`, `ly_pututf8`
    and the final NUL guarded by `index < allocated size` — never trips a guard (`some …`), for any input, and its
    result (value and rest of input, or the error kind) is that of `JsonText.parse`, the model C01's round trip is
    proved about.  The invariant behind it: the recorded `size` never exceeds the real allocation, so the C's
    under-recording (`size += STEP` after `realloc(size + increment)`) is harmless. -/
theorem json_string_buffer_safe (inp : Bytes) :
    Lex.JsonStrBuf.parseI inp = some (JsonText.parse inp) :=
  Lex.JsonStrBuf.parseI_eq inp

/-- non-vacuity: 150 pending bytes and then an escape: the buffer is grown to 280 bytes while 152 is recorded -/
example : ({ Lex.JsonStrBuf.St.init with pending := List.replicate 150 97 } : Lex.JsonStrBuf.St).prepare =
    some { hasBuf := true, out := List.replicate 150 97, size := 152, alloc := 280, pending := [] } := by
  set_option maxRecDepth 8000 in rfl

/-- non-vacuity: a value that needs the buffer (`ab\n"` → `ab␊`) -/
example : Lex.JsonStrBuf.parseI [97, 98, 92, 110, 34, 44] = some (.ok ([97, 98, 10], [44])) := by rfl

set_option maxRecDepth 100000 in
/-- non-vacuity (audit): through the whole lexer with a growth step — 30 bytes, `\n`, 130 bytes, `\t`: the second escape
    finds `len + offset + 4 ≥ size` and reallocates -/
example : Lex.JsonStrBuf.parseI (List.replicate 30 97 ++ [92, 110] ++ List.replicate 130 98 ++ [92, 116, 34, 44])
    = some (.ok (List.replicate 30 97 ++ [10] ++ List.replicate 130 98 ++ [9], [44])) := by rfl

/-- non-vacuity (audit): the guards are live — a store behind the allocation makes the instrumented step `none`, in
    both instrumented lexers (so `parseI … = some …` does say that no such store happens) -/
example : ({ hasBuf := true, out := List.replicate 24 97, size := 152, alloc := 24, pending := [] } : Lex.JsonStrBuf.St).put [10] = none
    ∧ ({ hasBuf := true, out := List.replicate 24 97, size := 24, pending := [] } : Lex.XmlBuf.St).put [10] = none := by decide

/-- **`lyxml_parse_value`: the output buffer is never overrun.**  The same for XML character data and attribute
    values: `lyxml_parse_value_use_buf` (first `BUFSIZE`, then steps of `BUFSIZE_STEP` until
    `len + offset + need_space < size`, with `need_space = 4` for a reference and the CDATA length for a CDATA
    section), the entity / character-reference / CDATA stores and the final NUL all stay inside the allocation, and
    the result is that of `XmlText.parse`. -/
theorem xml_value_buffer_safe (endc : UInt8) (inp : Bytes) :
    Lex.XmlBuf.parseI endc inp = some (XmlText.parse endc inp) :=
  Lex.XmlBuf.parseI_eq endc inp

/-- non-vacuity: `a&lt;<![CDATA[x]]>&#65;<` → `a<xA` -/
example : Lex.XmlBuf.parseI 60 [97, 38, 108, 116, 59, 60, 33, 91, 67, 68, 65, 84, 65, 91, 120, 93, 93, 62, 38, 35, 54, 53, 59, 60] =
    some (.ok ([97, 60, 120, 65], false, [60])) := by rfl

set_option maxRecDepth 100000 in
/-- non-vacuity (audit): with a growth step — 30 bytes, `&lt;`, 130 bytes, `&#65;` -/
example : Lex.XmlBuf.parseI 60 (List.replicate 30 97 ++ [38, 108, 116, 59] ++ List.replicate 130 98 ++ [38, 35, 54, 53, 59, 60])
    = some (.ok (List.replicate 30 97 ++ [60] ++ List.replicate 130 98 ++ [65], false, [60])) := by rfl

end LyModel.Props.C05
