import LyModel.Text.JsonNum
namespace LyModel.Props.C05
theorem placeholder : True := trivial
end LyModel.Props.C05
