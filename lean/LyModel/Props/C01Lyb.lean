import LyModel.Lyb.ChunkWriter2
import LyModel.Lyb.ChunkReader2
import LyModel.Lyb.HashLemmas5
import LyModel.Lyb.RevLemmas
import LyModel.Lyb.JenkLemmas
import LyModel.Lyb.ChunkSkip
import LyModel.Lyb.ChunkCounts8
/-!
# C01 (LYB part) — property theorems

Printing a data tree as LYB and parsing it back is the identity: the parts decided by the chunk framing
(`lyb_write*` / `lyb_read*`), the schema-hash sequences, and the revision packing.  Statement file; models in
`LyModel/Lyb/*.lean`, helper lemmas in `LyModel/Lyb/Chunk*.lean`, `Hash*.lean`.
-/
namespace LyModel.Props.C01Lyb
open LyModel LyModel.Lyb LyModel.Generated

/-- the constants of this source tree (lyb.h via `Generated/Consts.lean`) satisfy the side conditions -/
theorem params_gen_ok : Params.gen.Ok :=
  ⟨by decide, ⟨16, by decide, by decide⟩, ⟨16, by decide, by decide⟩⟩

/-- **Chunk framing round trip.**  For ANY well-nested sequence of `start | write bytes | stop` operations — payloads
of any length (in particular around every multiple of `LYB_SIZE_MAX`), nesting of any depth — if the printer does not
give up with `LY_EINT` (inner-chunk counter exhausted), then the parser's `lyb_read*` functions driven by the same
shape over the produced byte image return exactly the written payloads, every `lyb_read_stop_siblings` finds
`written = 0`, and the image is consumed to its last byte with no frame left open. -/
theorem lyb_chunk_roundtrip (P : Params) (hP : P.Ok) (ops : List Op) (wf : WellNested ops) (img : Bytes)
    (hw : writeAll P ops = some img) :
    readAll P (ops.map Op.shape) img = some ({ inp := [], frames := [] }, payloads ops) := by
  simp only [writeAll] at hw
  split at hw
  · simp at hw
  · rename_i w' hrun
    simp only [Option.some.injEq] at hw
    subst hw
    have hspec := wrun_spec_init P hP.size_pos ops w' hrun wf
    have := rrun_spec P hP ops [] [] w'.out [] (by simp [RelR]) (by simp) wf hspec
    simpa [readAll] using this

/-- the same for the constants of the source tree -/
theorem lyb_chunk_roundtrip_gen (ops : List Op) (wf : WellNested ops) (img : Bytes)
    (hw : writeAll Params.gen ops = some img) :
    readAll Params.gen (ops.map Op.shape) img = some ({ inp := [], frames := [] }, payloads ops) :=
  lyb_chunk_roundtrip Params.gen params_gen_ok ops wf img hw

/-- non-vacuity (small constants so that chunk boundaries are hit inside nested frames): three nested frames,
`sizeMax = 3`; the image contains continuation records of all three frames, two of them simultaneous -/
def exP : Params := { sizeMax := 3, inMax := 255, sizeBytes := 1, inBytes := 1 }
def exOps : List Op :=
  [.start, .write [1, 2], .start, .write [3, 4, 5, 6], .start, .write [7, 8, 9, 10, 11, 12, 13],
   .stop, .write [14], .stop, .write [], .stop, .write [0]]

example : exP.Ok ∧ WellNested exOps ∧ writeAll exP exOps =
    some [3, 1, 1, 2, 3, 0, 3, 3, 1, 4, 5, 3, 1, 6, 3, 3, 3, 0, 7, 8, 3, 1, 9, 3, 0, 3, 2, 10, 11, 3, 1, 12, 1, 0, 2, 1,
          13, 14, 0, 0, 0] :=
  ⟨⟨by decide, ⟨2, by decide, by decide⟩, ⟨8, by decide, by decide⟩⟩, by decide, by decide⟩

theorem exP_ok : exP.Ok := ⟨by decide, ⟨2, by decide, by decide⟩, ⟨8, by decide, by decide⟩⟩

/-- non-vacuity (audit): the theorem instantiated at that witness — the reader returns the six payloads (among them an
empty one and one that spans three chunks) and ends with empty input and no open frame -/
example : readAll exP (exOps.map Op.shape)
      [3, 1, 1, 2, 3, 0, 3, 3, 1, 4, 5, 3, 1, 6, 3, 3, 3, 0, 7, 8, 3, 1, 9, 3, 0, 3, 2, 10, 11, 3, 1, 12, 1, 0, 2, 1,
       13, 14, 0, 0, 0]
    = some ({ inp := [], frames := [] }, [[1, 2], [3, 4, 5, 6], [7, 8, 9, 10, 11, 12, 13], [14], [], [0]]) :=
  lyb_chunk_roundtrip exP exP_ok exOps (by decide) _ (by decide)

/-- non-vacuity (audit): `lyb_chunk_roundtrip_gen` at the constants of the source tree (two-byte size and inner-chunk
fields): three nested frames, an empty write, a second empty top-level frame -/
def genOps : List Op :=
  [.start, .write [1, 2], .start, .write [3, 4, 5], .start, .write [9], .stop, .stop, .write [], .stop, .start, .stop]

example : readAll Params.gen (genOps.map Op.shape) [6, 0, 2, 0, 1, 2, 4, 0, 1, 0, 3, 4, 5, 1, 0, 0, 0, 9, 0, 0, 0, 0]
    = some ({ inp := [], frames := [] }, [[1, 2], [3, 4, 5], [9], []]) :=
  lyb_chunk_roundtrip_gen genOps (by decide) _ (by decide)

/-! ## `lyb_skip_siblings` -/

/-- `lyb_skip_lands_at_end` — "skipping `inner_chunks × LYB_META_BYTES` and then `written` bytes, chunk after chunk,
passes exactly one sibling frame" — is **false** (finding F69).  (a) Top level: a frame whose data ends exactly on a
chunk end and that then only opens an empty child frame has a last chunk `(size 0, inner 1)`; the `do … while
(written)` loop stops before the child's meta record.  Witness with `sizeMax = 3`: `( 3 bytes ( ) )`, skipped
frame 0; nothing else in the image, and one meta record is left unread. -/
theorem lyb_skip_lands_at_end_fails :
    ¬ ∀ (P : Params), P.Ok → ∀ (ops : List Op) (k : Nat) (img : Bytes), WellNested ops → writeAll P ops = some img →
        readSkipping P ops k ({ inp := img }, []) = some ({ inp := [], frames := [] }, payloadsSkipping ops k) := by
  intro H
  have := H exP ⟨by decide, ⟨2, by decide, by decide⟩, ⟨8, by decide, by decide⟩⟩
    [.start, .write [1, 2, 3], .start, .stop, .stop] 0 [3, 0, 1, 2, 3, 0, 1, 0, 0] (by decide) (by decide)
  revert this
  decide

/-- (b) Nested: the enclosing frame's chunk ends inside the skipped frame *before* a nested meta record.  All inner
records are skipped first, so `lyb_read` takes the enclosing frame's continuation record from the wrong offset; its
size counter then wraps (`size_t`) and its `lyb_read_stop_siblings` fails.  `( 1 ( 2 ( ) 1 ) 1 )`, frame 1 skipped. -/
theorem lyb_skip_lands_at_end_nested_fails :
    readSkipping exP [.start, .write [9], .start, .write [1, 2], .start, .stop, .write [3], .stop, .write [4], .stop] 1
      ({ inp := (writeAll exP [.start, .write [9], .start, .write [1, 2], .start, .stop, .write [3], .stop, .write [4],
                               .stop]).getD [] }, []) = none := by
  decide

/-- the neighbouring cases are fine (non-vacuity of the statement, and what makes the witnesses special): the same
frames with one byte less do land at the end -/
example :
    readSkipping exP [.start, .write [1, 2], .start, .stop, .stop] 0
      ({ inp := (writeAll exP [.start, .write [1, 2], .start, .stop, .stop]).getD [] }, [])
      = some ({ inp := [], frames := [] }, [])
    ∧ readSkipping exP [.start, .write [9], .start, .start, .stop, .write [1, 2], .write [3], .stop, .write [4], .stop] 1
      ({ inp := (writeAll exP [.start, .write [9], .start, .start, .stop, .write [1, 2], .write [3], .stop, .write [4],
                               .stop]).getD [] }, []) = some ({ inp := [], frames := [] }, [[9], [4]]) := by
  decide

/-- the true part, reader side: for a **top-level** frame (no enclosing frame) whose chunk records carry the right
counts (`GoodFrame`: every chunk's content is `inner × LYB_META_BYTES + size` bytes long, all chunks but the last are
full) and whose last chunk — if it is not the only one — is not `(size 0, inner > 0)`,
`lyb_read_start_siblings; lyb_skip_siblings; lyb_read_stop_siblings` consumes exactly the frame. -/
theorem lyb_skip_lands_at_end_partial (P : Params) (hP : P.Ok) (cs : List (Nat × Nat × Bytes)) (hg : GoodFrame P cs)
    (tail : Bytes) :
    rstop (rskip P (cs.length + 1) (rstart P { inp := chunkBytes P cs ++ tail, frames := [] }))
      = some { inp := tail, frames := [] } := by
  cases cs with
  | nil => exact absurd hg (by simp [GoodFrame])
  | cons ch cs =>
    obtain ⟨s, i, c⟩ := ch
    cases cs with
    | nil =>
      obtain ⟨hs, hi, hc⟩ := hg
      have hmeta := readMeta_ser P hP s i (Nat.le_of_lt hs) (c ++ tail)
      rw [mod_inMax hi] at hmeta
      simp only [chunkBytes, List.append_nil, List.append_assoc, rstart, hmeta, rskip,
        beq_sizeMax_false hs, rread_last, ↓reduceIte]
      rw [List.drop_drop, List.drop_left' (by omega)]
      simp [rstop]
    | cons ch2 cs2 =>
      have hg' : GoodTail P ((s, i, c) :: ch2 :: cs2) := hg
      obtain ⟨hs, hi, hc, _⟩ := hg
      have hmeta := readMeta_ser P hP s i (Nat.le_of_eq hs) (c ++ chunkBytes P (ch2 :: cs2) ++ tail)
      rw [mod_inMax hi] at hmeta
      obtain ⟨j, hj⟩ := rskip_tail P hP tail (ch2 :: cs2) s i c ((ch2 :: cs2).length + 1 + 1) hg' (by omega)
      have : rstart P { inp := chunkBytes P ((s, i, c) :: ch2 :: cs2) ++ tail, frames := [] }
          = { inp := c ++ chunkBytes P (ch2 :: cs2) ++ tail, frames := [{ written := s, more := s == P.sizeMax, inner := i }] } := by
        simp only [rstart]
        rw [show chunkBytes P ((s, i, c) :: ch2 :: cs2) ++ tail
            = Item.ser P (.hdr s i) ++ (c ++ chunkBytes P (ch2 :: cs2) ++ tail) by simp [chunkBytes, List.append_assoc], hmeta]
      rw [this]
      simp only [List.length_cons] at hj ⊢
      rw [hj]
      simp [rstop]

/-- non-vacuity: a two-chunk frame `(3 bytes | 1 byte + one inner record)` with `sizeMax = 3` -/
example : GoodFrame exP [(3, 0, [1, 2, 3]), (1, 1, [0, 0, 4])] := by
  refine ⟨rfl, by decide, by decide, by decide, by decide, by decide, ?_⟩
  intro h; exact absurd h (by decide)

/-- non-vacuity (audit): the theorem at that frame, followed by two bytes of a next sibling that stay unread -/
example : rstop (rskip exP 3 (rstart exP { inp := chunkBytes exP [(3, 0, [1, 2, 3]), (1, 1, [0, 0, 4])] ++ [5, 6], frames := [] }))
      = some { inp := [5, 6], frames := [] } :=
  lyb_skip_lands_at_end_partial exP exP_ok [(3, 0, [1, 2, 3]), (1, 1, [0, 0, 4])]
    (by refine ⟨rfl, by decide, by decide, by decide, by decide, by decide, ?_⟩; intro h; exact absurd h (by decide)) [5, 6]

/-- … and the writer side, closing the gap for a frame that is the whole stream (`start :: body ++ [stop]`, any
well-nested body: payloads of any size, any nesting): the image the printer produces is a list of counted chunks, and
`lyb_read_start_siblings; lyb_skip_siblings; lyb_read_stop_siblings` consumes it to the last byte — **or** the image
has exactly the shape of F69 (a): more than one chunk and a last record `(size 0, inner > 0)`.  So (a) is the only way
`lyb_skip_siblings` can miss the end of a top-level frame. -/
theorem lyb_skip_top_frame (P : Params) (hP : P.Ok) (body : List Op) (hb : wellNestedFrom 0 body = true) (img : Bytes)
    (hw : writeAll P (.start :: body ++ [.stop]) = some img) :
    ∃ cs : List (Nat × Nat × Bytes), img = chunkBytes P cs ∧
      (rstop (rskip P (cs.length + 1) (rstart P { inp := img, frames := [] })) = some { inp := [], frames := [] }
       ∨ (1 < cs.length ∧ ∃ i c, 0 < i ∧ cs.getLast? = some (0, i, c))) := by
  simp only [writeAll] at hw
  split at hw
  · simp at hw
  · rename_i w' hrun
    simp only [Option.some.injEq] at hw
    subst hw
    obtain ⟨bs, e, s, i, he, hs, hi, hseg, hcnt, hhist, hhead⟩ := writer_top_frame P hP.size_pos body hb w' hrun
    by_cases hbad : bs ≠ [] ∧ s = 0 ∧ i ≠ 0
    · obtain ⟨hne, hs0, hi0⟩ := hbad
      obtain ⟨cs, e1, e2⟩ := hist_image_eq P w'.out e s i he bs hhist
      rw [hhead, List.drop_zero] at e1
      refine ⟨_, e1, Or.inr ⟨?_, i, serialize P (w'.out.drop (e + 1)), by omega, ?_⟩⟩
      · have : 0 < bs.length := List.length_pos_iff.mpr hne
        simp only [List.length_append, List.length_singleton]; omega
      · simp [hs0]
    · obtain ⟨cs, e1, e2, _⟩ := hist_image_frame P w'.out e s i he hs hi hseg hcnt bs hhist (by
        intro hne hs0
        by_cases hi0 : i = 0
        · exact hi0
        · exact absurd ⟨hne, hs0, hi0⟩ hbad)
      rw [hhead, List.drop_zero] at e1
      refine ⟨cs, e1, Or.inl ?_⟩
      have := lyb_skip_lands_at_end_partial P hP cs e2 []
      simpa [e1] using this

/-- non-vacuity: both alternatives occur — a two-chunk frame that is skipped correctly, and the F69 (a) shape -/
example :
    writeAll exP (.start :: [.write [1, 2, 3, 4], .start, .stop] ++ [.stop]) = some [3, 0, 1, 2, 3, 1, 1, 4, 0, 0]
    ∧ rstop (rskip exP 3 (rstart exP { inp := [3, 0, 1, 2, 3, 1, 1, 4, 0, 0], frames := [] })) = some { inp := [], frames := [] }
    ∧ writeAll exP (.start :: [.write [1, 2, 3], .start, .stop] ++ [.stop]) = some [3, 0, 1, 2, 3, 0, 1, 0, 0] := by
  decide

/-! ## schema hashes -/

/-- **Hash lookup.**  For every number of siblings and EVERY hash assignment of the collision shape (`Shape`: the byte
of collision id `i` has `0x80 >> i` as its highest set bit — all collision patterns are covered, not a corpus of
them): if `lyb_hash_siblings` succeeds, then for each sibling `k` the hash sequence `lyb_print_schema_hash` emits is
read back by `lyb_read_hashes` completely (the rest of the input is untouched) and the first-match scan of
`lyb_parse_schema_hash` over the siblings in `lys_getnext` order stops at `k` — no earlier sibling matches. -/
theorem lyb_hash_lookup_correct (h : Nat → Nat → Nat) (sh : Shape h) (n : Nat) (ht : HT)
    (hs : hashSiblings h n = some ht) (k : Nat) (hk : k < n) :
    ∃ seq, printSeq h ht k = some seq ∧
      ∀ rest, parseSchemaHash h n (seq ++ rest) = some (some k, rest) := by
  have inv : TInv h ht n := by
    have := tinv_run sh n 0 [] ht (tinv_nil h) hs
    simpa using this
  obtain ⟨ck, hck, hmem, huniq⟩ := tinv_record inv hk
  refine ⟨seqOf h k ck, printSeq_spec sh hck hmem huniq, ?_⟩
  intro rest
  have hmatch : hashMatch h k ((List.range (ck + 1)).map fun j => h k j) = true :=
    (hashMatch_iff h k k ck).mpr (fun _ _ => rfl)
  have hfind := findSibling_spec h _ k hmatch n 0 (Nat.zero_le _) (by omega) (by
    intro m _ hmk
    obtain ⟨cm, hcm, hmemm, _⟩ := tinv_record inv (show m < n by omega)
    have := tinv_first_match inv hmem hmemm hck hcm hmk
    cases hc : hashMatch h m ((List.range (ck + 1)).map fun j => h k j)
    · rfl
    · exact absurd ((hashMatch_iff h m k ck).mp hc) this)
  have hhead : ((List.range (ck + 1)).map fun j => h k j).head? ≠ some 0 := by
    rw [List.range_succ_eq_map]
    simp only [List.map_cons, List.head?_cons, ne_eq, Option.some.injEq]
    exact (sh k 0 (by decide)).1
  simp only [parseSchemaHash, readHashes_seqOf sh hck rest, hhead, ↓reduceIte, hfind]

/-- the same for the real hash function `lyb_generate_hash` (exact Jenkins model) of any module / sibling names -/
theorem lyb_hash_lookup_correct_real (modName : Bytes) (names : List Bytes) (ht : HT)
    (hs : hashSiblings (realHash modName names) names.length = some ht) (k : Nat) (hk : k < names.length) :
    ∃ seq, printSeq (realHash modName names) ht k = some seq ∧
      ∀ rest, parseSchemaHash (realHash modName names) names.length (seq ++ rest) = some (some k, rest) :=
  lyb_hash_lookup_correct _ (realHash_shape modName names) _ ht hs k hk

/-- non-vacuity: module `mod`, siblings `a q gu gx`: `a`/`q` collide on collision id 0, `gu`/`gx` on ids 0 and 1, so
`q` is printed as a two-byte and `gx` as a three-byte sequence -/
def exHash : Nat → Nat → Nat := realHash [109, 111, 100] [[97], [113], [103, 117], [103, 120]]

set_option maxRecDepth 100000 in
example : hashSiblings exHash 4 = some [(0, 177), (1, 121), (2, 203), (3, 33)]
    ∧ printSeq exHash [(0, 177), (1, 121), (2, 203), (3, 33)] 1 = some [121, 177]
    ∧ printSeq exHash [(0, 177), (1, 121), (2, 203), (3, 33)] 3 = some [33, 85, 203] :=
  ⟨by decide, by decide, by decide⟩

set_option maxRecDepth 100000 in
/-- non-vacuity (audit): the theorem for the real hash at sibling `gx` (three-byte sequence, two earlier siblings
collide with its prefix) -/
example : ∃ seq, printSeq exHash [(0, 177), (1, 121), (2, 203), (3, 33)] 3 = some seq ∧
      ∀ rest, parseSchemaHash exHash 4 (seq ++ rest) = some (some 3, rest) :=
  lyb_hash_lookup_correct_real [109, 111, 100] [[97], [113], [103, 117], [103, 120]] _ (by decide) 3 (by decide)

/-- `lyb_hash_siblings_total` — "the assignment succeeds for every set of fewer than 256 distinct siblings" — is
**false** (finding F27): with the one-character module name `y` the siblings `en` and `d64` have the same hash for
every collision id (for ids ≥ 1 the same bytes are hashed, only more bits are masked away), `lyb_hash_siblings`
reaches its `/* wow */` branch and valid data cannot be printed.  Decided with the exact Jenkins model. -/
theorem lyb_hash_siblings_total_fails :
    ¬ ∀ (modName : Bytes) (names : List Bytes), modName ≠ [] → names.Nodup → names.length < 256 →
        (hashSiblings (realHash modName names) names.length).isSome = true := by
  intro H
  have := H [121] [[101, 110], [100, 54, 52]] (by decide) (by decide) (by decide)
  revert this
  set_option maxRecDepth 100000 in decide

/-- the true part: the assignment fails only on a *total* collision — if every two siblings differ in at least one of
the `LYB_HASH_BITS` hashes, `lyb_hash_siblings` succeeds (any number of siblings, any assignment of the shape) -/
theorem lyb_hash_siblings_total_partial (h : Nat → Nat → Nat) (sh : Shape h) (n : Nat)
    (hd : ∀ p s, p < s → s < n → ∃ j, j < LYB_HASH_BITS ∧ h p j ≠ h s j) :
    (hashSiblings h n).isSome = true :=
  hashSiblingsFrom_some sh n hd n 0 [] (tinv_nil h) (by omega)

set_option maxRecDepth 100000 in
/-- non-vacuity of the hypothesis: the four siblings above differ pairwise -/
example : ∀ s, s < 4 → ∀ p, p < s → ∃ j, j < LYB_HASH_BITS ∧ exHash p j ≠ exHash s j := by decide

set_option maxRecDepth 100000 in
/-- non-vacuity (audit): the theorem itself at the real hash of those four siblings (`a`/`q` collide on collision
id 0, `gu`/`gx` on ids 0 and 1) -/
example : (hashSiblings exHash 4).isSome = true :=
  lyb_hash_siblings_total_partial exHash (realHash_shape _ _) 4
    (fun p s hps hs => (by decide : ∀ s, s < 4 → ∀ p, p < s → ∃ j, j < LYB_HASH_BITS ∧ exHash p j ≠ exHash s j) s hs p hps)

/-! ## module revision -/

/-- **Revision packing.**  For every date 2000-01-01 … 2127-12-31 the 16-bit word `lyb_print_model` writes is turned
back by `lyb_read_model` into the same `YYYY-MM-DD` string (and is non-zero, so it is not mistaken for "no revision"). -/
theorem lyb_revision_pack_roundtrip (y m d : Nat) (hy : 2000 ≤ y ∧ y ≤ 2127) (hm : 1 ≤ m ∧ m ≤ 12)
    (hd : 1 ≤ d ∧ d ≤ 31) :
    unpackRev (packRev (some (dateStr y m d))) = some (dateStr y m d) := by
  obtain ⟨a1, a2, a3⟩ := atoi_date y m d (by omega) (by omega) (by omega)
  have hoff : LYB_REV_YEAR_OFFSET = 2000 := rfl
  obtain ⟨f0, f1, f2, f3⟩ := unpack_fields (y - 2000) m d (by omega) (by omega) (by omega)
  have hs : (2 : Nat) ^ LYB_REV_YEAR_SHIFT = 512 := rfl
  have ha : ((((y : Int) - (LYB_REV_YEAR_OFFSET : Nat)) * ((2 ^ LYB_REV_YEAR_SHIFT : Nat) : Int)) % 65536).toNat
      = (y - 2000) * 2 ^ LYB_REV_YEAR_SHIFT := by
    rw [hs, hoff]; omega
  have hp : packRev (some (dateStr y m d))
      = (((y - 2000) * 2 ^ LYB_REV_YEAR_SHIFT ||| m <<< LYB_REV_MONTH_SHIFT) % 65536 ||| d) % 65536 := by
    simp only [packRev, a1, a2, a3, ha]
  rw [hp]
  generalize (((y - 2000) * 2 ^ LYB_REV_YEAR_SHIFT ||| m <<< LYB_REV_MONTH_SHIFT) % 65536 ||| d) % 65536 = v at *
  have hne : v ≠ 0 := by omega
  have hyy : y - 2000 + 2000 = y := by omega
  rw [unpackRev, if_neg hne, f1, f2, f3, hoff, hyy]

/-- non-vacuity and the shape of the word: 2019-02-28 packs to `19·512 + 2·32 + 28` -/
example : packRev (some (dateStr 2019 2 28)) = 9820 ∧ unpackRev 9820 = some (dateStr 2019 2 28)
    ∧ dateStr 2019 2 28 = [50, 48, 49, 57, 45, 48, 50, 45, 50, 56] := by decide

/-- non-vacuity (audit): the theorem at the upper end of the range -/
example : unpackRev (packRev (some (dateStr 2127 12 31))) = some (dateStr 2127 12 31) :=
  lyb_revision_pack_roundtrip 2127 12 31 (by decide) (by decide) (by decide)

/-- outside 2000 … 2127 the format cannot hold the year (7 bits, offset 2000): 2128-01-01 comes back as 2000-01-01 and
1999-12-31 as 2127-12-31 — a limit of the format, excluded from `lyb_revision_pack_roundtrip` (DESIGN §5 C01) -/
theorem lyb_revision_pack_range_fails :
    ¬ ∀ y m d, 1 ≤ y → y ≤ 9999 → 1 ≤ m → m ≤ 12 → 1 ≤ d → d ≤ 31 →
        unpackRev (packRev (some (dateStr y m d))) = some (dateStr y m d) := by
  intro H
  have := H 2128 1 1 (by decide) (by decide) (by decide) (by decide) (by decide) (by decide)
  revert this
  decide

example : unpackRev (packRev (some (dateStr 1999 12 31))) = some (dateStr 2127 12 31) := by decide

/-! ## Jenkins one-at-a-time -/

/-- **The byte step is injective in the running hash** (`h += b; h += h << 10; h ^= h >> 6`), proved algebraically:
adding a constant is a bijection, `h + (h << 10) = h · 1025` with `1025 · 3222273025 ≡ 1 (mod 2³²)`, and
`h ^ (h >> 6)` is undone by iteration.  The shift amounts are the ones extracted from `hash_table.c`. -/
theorem absorb_byte_injective (b : UInt8) (h1 h2 : H32) (e : jStep h1 b = jStep h2 b) : h1 = h2 :=
  jMix_injective _ _ _ e

/-- consequently a whole `lyht_hash_multi` call (absorbing a key, or the final avalanche for the empty key) never
merges two running hashes: the 32-bit state carries the prefix injectively, collisions arise only from the
truncation to `LYB_HASH_BITS - 1 - collision_id` bits and from different keys -/
theorem hash_multi_state_injective (key : Bytes) (h1 h2 : H32) (e : hashMulti h1 key = hashMulti h2 key) : h1 = h2 := by
  simp only [hashMulti] at e
  split at e
  · exact jFin_injective _ _ e
  · exact foldl_jStep_injective key _ _ e

/-- non-vacuity / known answer: one-at-a-time hash of "hello" -/
example : (lyhtHash [104, 101, 108, 108, 111]).toNat = 3372029979 := by decide

end LyModel.Props.C01Lyb
