import LyModel.Lyb.ChunkWriter2
import LyModel.Lyb.ChunkReader2
/-!
# C01 (LYB part) — property theorems

Printing a data tree as LYB and parsing it back is the identity: the parts decided by the chunk framing
(`lyb_write*` / `lyb_read*`), the schema-hash sequences, and the revision packing.  Statement file; models in
`LyModel/Lyb/*.lean`, helper lemmas in `LyModel/Lyb/Chunk*.lean`, `Hash*.lean`.
-/
namespace LyModel.Props.C01Lyb
open LyModel LyModel.Lyb

/-- the constants of this source tree (lyb.h via `Generated/Consts.lean`) satisfy the side conditions -/
theorem params_gen_ok : Params.gen.Ok :=
  ⟨by decide, ⟨16, by decide, by decide⟩, ⟨16, by decide, by decide⟩⟩

/-- **Chunk framing round trip.**  For ANY well-nested sequence of `start | write bytes | stop` operations — payloads
of any length (in particular around every multiple of `LYB_SIZE_MAX`), nesting of any depth — if the printer does not
give up with `LY_EINT` (inner-chunk counter exhausted), then the parser's `lyb_read*` functions driven by the same
shape over the produced byte image return exactly the written payloads, every `lyb_read_stop_siblings` finds
`written = 0`, and the image is consumed to its last byte with no frame left open. -/
theorem lyb_chunk_roundtrip (P : Params) (hP : P.Ok) (ops : List Op) (wf : WellNested ops) (img : Bytes)
    (hw : writeAll P ops = some img) :
    readAll P (ops.map Op.shape) img = some ({ inp := [], frames := [] }, payloads ops) := by
  simp only [writeAll] at hw
  split at hw
  · simp at hw
  · rename_i w' hrun
    simp only [Option.some.injEq] at hw
    subst hw
    have hspec := wrun_spec_init P hP.size_pos ops w' hrun wf
    have := rrun_spec P hP ops [] [] w'.out [] (by simp [RelR]) (by simp) wf hspec
    simpa [readAll] using this

/-- the same for the constants of the source tree -/
theorem lyb_chunk_roundtrip_gen (ops : List Op) (wf : WellNested ops) (img : Bytes)
    (hw : writeAll Params.gen ops = some img) :
    readAll Params.gen (ops.map Op.shape) img = some ({ inp := [], frames := [] }, payloads ops) :=
  lyb_chunk_roundtrip Params.gen params_gen_ok ops wf img hw

/-- non-vacuity (small constants so that chunk boundaries are hit inside nested frames): three nested frames,
`sizeMax = 3`; the image contains continuation records of all three frames, two of them simultaneous -/
def exP : Params := { sizeMax := 3, inMax := 255, sizeBytes := 1, inBytes := 1 }
def exOps : List Op :=
  [.start, .write [1, 2], .start, .write [3, 4, 5, 6], .start, .write [7, 8, 9, 10, 11, 12, 13],
   .stop, .write [14], .stop, .write [], .stop, .write [0]]

example : exP.Ok ∧ WellNested exOps ∧ writeAll exP exOps =
    some [3, 1, 1, 2, 3, 0, 3, 3, 1, 4, 5, 3, 1, 6, 3, 3, 3, 0, 7, 8, 3, 1, 9, 3, 0, 3, 2, 10, 11, 3, 1, 12, 1, 0, 2, 1,
          13, 14, 0, 0, 0] :=
  ⟨⟨by decide, ⟨2, by decide, by decide⟩, ⟨8, by decide, by decide⟩⟩, by decide, by decide⟩

end LyModel.Props.C01Lyb
