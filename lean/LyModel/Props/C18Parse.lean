import LyModel.XsdRe.RenderLemmas
import LyModel.XsdRe.GrammarLemmas
/-!
# C18 — the parser of XML Schema regular expressions (`XsdRe/Parse.lean`) against its printer and its grammar

1. `parse_render_roundtrip`: the parser reads the canonical text (`Pat.render`, `XsdRe/Render.lean`) of every syntax tree of the
   grammar (`Pat.Canon`) back to that tree, in both dialects (for the PCRE dialect: every tree whose constructs the dialect
   has, `Pat.inDialect`).  So every canonical tree is the parse of some text: the parser is onto the trees of the grammar,
   and the printer is injective on them.
2. `parse_total`: the fuel of the parser is never exhausted, for any input: `.error .fuel` is not a result.  The bound that
   suffices is `2 * length + 2` for `parseSeq` (`parseCharsD` passes `2 * length + 4`); `length + 1` does not suffice (an
   opening parenthesis or bracket costs two units of fuel for one character: `(((` with fuel 4 runs out).
3. `canon_of_parse`: every tree the parser returns is a tree of the grammar (`Pat.Canon`).  With 1: the results of the parser
   are exactly the canonical trees (`parse_range`), and parsing the canonical text of a parse result gives the same tree
   (`render_parse_idempotent`).
4. `parse_iff_derives`: the XSD parser decides the declarative grammar `Derives` (`XsdRe/Grammar.lean`: productions [1]–[27],
   [37] of Appendix F as inductive relations between trees and texts — regExp, branch, piece, quantifier, atom, character
   class expressions with negation, subtraction, ranges and the dash rule, and the escapes): a text parses to `p` exactly
   when it is a spelling of `p` (`parse_sound`, `parse_complete`); hence the grammar is unambiguous (`derives_unique`), and a
   text is rejected exactly when the grammar derives it for no tree (`reject_iff`).
-/
namespace LyModel.Props.C18Parse
open LyModel LyModel.XsdRe

/-! ## 1. parse ∘ render = id -/

/-- Reading the canonical text of a tree of the grammar gives that tree back. -/
theorem parse_render_roundtrip (d : Dialect) (p : Pat) (hc : p.Canon = true) (hd : p.inDialect d = true) :
    parseCharsD d (p.render d) = .ok p :=
  parseCharsD_render d p hc hd

/-- Every construct belongs to the XSD dialect. -/
theorem inDialect_xsd (p : Pat) : p.inDialect .xsd = true := Pat.inDialect_xsd p

/-- XSD: no side condition but `Canon`. -/
theorem parse_renderXsd (p : Pat) (hc : p.Canon = true) : parseChars (renderXsd p) = .ok p :=
  parseCharsD_render .xsd p hc (Pat.inDialect_xsd p)

/-- The printer is injective on the trees of the grammar. -/
theorem render_injective (d : Dialect) (p q : Pat) (hp : p.Canon = true) (hq : q.Canon = true)
    (dp : p.inDialect d = true) (dq : q.inDialect d = true) (h : p.render d = q.render d) : p = q := by
  have h1 := parse_render_roundtrip d p hp dp
  have h2 := parse_render_roundtrip d q hq dq
  rw [h, h2] at h1
  exact (Except.ok.inj h1).symm

/-- `[a-c-[b]]+|\s{2}x?` -/
def ex1 : Pat :=
  .alt (.rep (.cls [⟨false, [.range 'a' 'c']⟩, ⟨false, [.ch 'b']⟩]) 1 none)
    (.cat (.rep (.esc false .space) 2 (some 2)) (.rep (.chr 'x') 0 (some 1)))

/-- `[a-z\-\p{Lu}-[^e\P{IsGreek}]]{2,5}^(|\|)*||\C.{3,}` -/
def ex2 : Pat :=
  .alt (.cat (.rep (.cls [⟨false, [.range 'a' 'z', .ch '-', .esc false (.cat "Lu")]⟩, ⟨true, [.ch 'e', .esc true (.block "Greek")]⟩]) 2 (some 5))
          (.cat (.chr '^') (.rep (.group (.alt .eps (.chr '|'))) 0 none)))
    (.alt .eps (.cat (.esc true .nameChar) (.rep .dot 3 none)))

example : renderXsd ex1 = "[a-c-[b]]+|\\s{2}x?".toList := by decide +kernel
example : ex1.Canon = true := by decide +kernel
example : parseChars "[a-c-[b]]+|\\s{2}x?".toList = .ok ex1 := by
  have h : renderXsd ex1 = "[a-c-[b]]+|\\s{2}x?".toList := by decide +kernel
  rw [← h]
  exact parse_renderXsd ex1 (by decide +kernel)

example : renderXsd ex2 = "[a-z\\-\\p{Lu}-[^e\\P{IsGreek}]]{2,5}^(|\\|)*||\\C.{3,}".toList := by decide +kernel
example : ex2.Canon = true := by decide +kernel
example : parseChars (renderXsd ex2) = .ok ex2 := parse_renderXsd ex2 (by decide +kernel)

/-- `(a|\$){1,65535}[^\d-]` in the PCRE dialect: `\$`, no multi-character escapes but `\d` -/
def ex3 : Pat :=
  .cat (.rep (.group (.alt (.chr 'a') (.chr '$'))) 1 (some 65535)) (.cls [⟨true, [.esc false .dig, .ch '-']⟩])

example : ex3.render .pcre = "(a|\\$){1,65535}[^\\d\\-]".toList := by decide +kernel
example : parseCharsD .pcre (ex3.render .pcre) = .ok ex3 :=
  parse_render_roundtrip .pcre ex3 (by decide +kernel) (by decide +kernel)
/-- the hypothesis `inDialect` is needed: `\s` is not in the PCRE dialect -/
example : ex1.inDialect .pcre = false := by decide +kernel

/-! ## 2. totality: the fuel is never exhausted -/

/-- `parseCharsD` never runs out of fuel: every input is either parsed or rejected with a syntax error. -/
theorem parse_total (d : Dialect) (cs : List Char) : parseCharsD d cs ≠ .error .fuel :=
  parseCharsD_ne_fuel d cs

/-- Fuel `2 * length + 2` suffices for a regExp, in any state of the accumulators. -/
theorem parseSeq_fuel (d : Dialect) (g : Bool) (alts cur : List Pat) (s : List Char) :
    ∀ f ≥ 2 * s.length + 2, parseSeq d f g alts cur s ≠ .error .fuel :=
  fun f hf => (seq_ne_fuel d f).1 g alts cur s hf

/-- Fuel `2 * length + 1` suffices for an atom. -/
theorem parseAtom_fuel (d : Dialect) (s : List Char) : ∀ f ≥ 2 * s.length + 1, parseAtom d f s ≠ .error .fuel :=
  fun f hf => (seq_ne_fuel d f).2 s hf

/-- Fuel `2 * length + 2` suffices for a character class (the text after `[`). -/
theorem parseClass_fuel (d : Dialect) (s : List Char) : ∀ f ≥ 2 * s.length + 2, parseClass d f s ≠ .error .fuel :=
  fun f hf => (class_ne_fuel d f).1 s hf

/-- Fuel `2 * length + 1` suffices for the members of a character group. -/
theorem parseItems_fuel (d : Dialect) (neg : Bool) (acc : List CItem) (s : List Char) :
    ∀ f ≥ 2 * s.length + 1, parseItems d f neg acc s ≠ .error .fuel :=
  fun f hf => (class_ne_fuel d f).2 neg acc s hf

/-- The parser consumes input: an atom takes at least one character, a regExp returns a suffix no longer than its input. -/
theorem parseAtom_consumes (d : Dialect) (f : Nat) (s r : List Char) (a : Pat) (h : parseAtom d f s = .ok (a, r)) :
    r.length < s.length :=
  (seq_len d f).2 s a r h

theorem parseSeq_consumes (d : Dialect) (f : Nat) (g : Bool) (alts cur : List Pat) (s r : List Char) (p : Pat)
    (h : parseSeq d f g alts cur s = .ok (p, r)) : r.length ≤ s.length :=
  (seq_len d f).1 g alts cur s p r h

/-- `length + 1` is not enough: `(((` with fuel 4 -/
example : (match parseSeq .xsd ("(((".toList.length + 1) false [] [] "(((".toList with | .error .fuel => true | _ => false) = true := by
  decide +kernel
/-- a rejected input is rejected for a syntactic reason -/
example : (match parseChars "a{2,1}".toList with | .error (.syn _) => true | _ => false) = true := by decide +kernel
example : (match parseChars "((((((((".toList with | .error (.syn _) => true | _ => false) = true := by decide +kernel

/-! ## 3. the parser builds canonical trees only -/

/-- Every result of the parser is a tree of the grammar: alternations and concatenations nested to the right, quantifiers
    on atoms only with `lo ≤ hi`, known category / block names, ranges in order, no empty class. -/
theorem canon_of_parse (d : Dialect) (cs : List Char) (p : Pat) (h : parseCharsD d cs = .ok p) : p.Canon = true :=
  parseCharsD_canon d cs p h

/-- XSD: the trees the parser can return are exactly the canonical ones. -/
theorem parse_range (p : Pat) : (∃ cs, parseChars cs = .ok p) ↔ p.Canon = true :=
  ⟨fun ⟨cs, h⟩ => canon_of_parse .xsd cs p h, fun h => ⟨renderXsd p, parse_renderXsd p h⟩⟩

/-- XSD: the canonical text of a parse result parses to the same tree (the printer normalises the spelling only). -/
theorem render_parse_idempotent (cs : List Char) (p : Pat) (h : parseChars cs = .ok p) : parseChars (renderXsd p) = .ok p :=
  parse_renderXsd p (canon_of_parse .xsd cs p h)

/-- a different spelling of `ex1`, `[a-c-[b]]{1,}|\s{2,2}x{0,1}`, gives the same canonical tree -/
example : parseChars "[a-c-[b]]{1,}|\\s{2,2}x{0,1}".toList = .ok ex1 := eq_ok_of_parsesTo (by decide +kernel)
example : ex1.Canon = true :=
  canon_of_parse .xsd "[a-c-[b]]{1,}|\\s{2,2}x{0,1}".toList ex1 (eq_ok_of_parsesTo (by decide +kernel))
/-- a tree that is not canonical (concatenation nested to the left) is the parse of no text -/
example : ¬ ∃ cs, parseChars cs = .ok (.cat (.cat (.chr 'a') (.chr 'b')) (.chr 'c')) := by
  rw [parse_range]; decide

/-! ## 4. the parser decides the declarative grammar -/

/-- A text the XSD parser accepts is derived by the grammar, with the tree the parser returns. -/
theorem parse_sound (s : List Char) (p : Pat) (h : parseChars s = .ok p) : Derives p s :=
  parseChars_sound s p h

/-- Every spelling the grammar derives for `p` parses to `p`. -/
theorem parse_complete (s : List Char) (p : Pat) (h : Derives p s) : parseChars s = .ok p :=
  parseChars_complete s p h

theorem parse_iff_derives (s : List Char) (p : Pat) : parseChars s = .ok p ↔ Derives p s :=
  ⟨parse_sound s p, parse_complete s p⟩

/-- The grammar is unambiguous: a text is a spelling of at most one tree. -/
theorem derives_unique (s : List Char) (p q : Pat) (hp : Derives p s) (hq : Derives q s) : p = q := by
  have h1 := parse_complete s p hp
  rw [parse_complete s q hq] at h1
  exact (Except.ok.inj h1).symm

/-- A text is rejected (with a syntax error: 2) exactly when it is a spelling of no tree. -/
theorem reject_iff (s : List Char) : (∃ e, parseChars s = .error e) ↔ ¬ ∃ p, Derives p s := by
  constructor
  · rintro ⟨e, he⟩ ⟨p, hp⟩
    rw [parse_complete s p hp] at he
    cases he
  · intro h
    cases hs : parseChars s with
    | error e => exact ⟨e, rfl⟩
    | ok p => exact absurd ⟨p, parse_sound s p hs⟩ h

/-- the trees that have a spelling are the canonical ones -/
theorem derives_iff_canon (p : Pat) : (∃ s, Derives p s) ↔ p.Canon = true :=
  ⟨fun ⟨s, h⟩ => canon_of_parse .xsd s p (parse_complete s p h), fun h => ⟨renderXsd p, parse_sound _ p (parse_renderXsd p h)⟩⟩

/-- `a{2,1}` is a spelling of nothing -/
example : ¬ ∃ p, Derives p "a{2,1}".toList := by
  rw [← reject_iff]
  cases h : parseChars "a{2,1}".toList with
  | error e => exact ⟨e, rfl⟩
  | ok p =>
    exfalso
    have : (match parseChars "a{2,1}".toList with | .error _ => true | .ok _ => false) = true := by decide +kernel
    rw [h] at this
    cases this

/-- the canonical text of a canonical tree is one of its spellings -/
theorem derives_render (p : Pat) (hc : p.Canon = true) : Derives p (renderXsd p) :=
  parse_sound _ p (parse_renderXsd p hc)

example : Derives ex1 "[a-c-[b]]{1,}|\\s{2,2}x{0,1}".toList :=
  parse_sound _ ex1 (eq_ok_of_parsesTo (by decide +kernel))
example : Derives ex2 (renderXsd ex2) := derives_render ex2 (by decide +kernel)
/-- Character class expressions: the parser (the text after `[`) reads exactly the spellings the grammar derives. -/
theorem class_sound (f : Nat) (s r : List Char) (cc : CClass) (h : parseClass .xsd f s = .ok (cc, r)) :
    ∃ t, s = t ++ r ∧ ClassExpr cc t :=
  (LyModel.XsdRe.class_sound f).1 s cc r h

theorem class_complete (cc : CClass) (t : List Char) (h : ClassExpr cc t) (rest : List Char) :
    ∀ f ≥ t.length + 1, parseClass .xsd f (t ++ rest) = .ok (cc, rest) :=
  fun f hf => h.parse f rest hf

/-- `[-a-z\\--[^\\d-]]`: a raw `-` first, a range, an escaped `-`, a subtraction whose negated group ends with a raw `-` -/
example : ∃ t, "-a-z\\--[^\\d-]]".toList = t ++ [] ∧
    ClassExpr [⟨false, [.ch '-', .range 'a' 'z', .ch '-']⟩, ⟨true, [.esc false .dig, .ch '-']⟩] t :=
  class_sound 40 _ [] _ (eq_ok_of_classParsesTo (by decide +kernel))

/-- the relation is not trivial: `a` is not a spelling of `b`, `*` is not a spelling of anything canonical … -/
example : ¬ Derives (.chr 'b') ['a'] := by
  intro h
  cases h

end LyModel.Props.C18Parse
