import LyModel.XsdRe.RenderLemmas
import LyModel.XsdRe.GrammarLemmas
/-!
# C18 — the parser of XML Schema regular expressions (`XsdRe/Parse.lean`) against its printer and its grammar

1. `parse_render_roundtrip`: the parser reads the canonical text (`Pat.render`, `XsdRe/Render.lean`) of every syntax tree of the
   grammar (`Pat.Canon`) back to that tree, in both dialects (for the PCRE dialect: every tree whose constructs the dialect
   has, `Pat.inDialect`).  So every canonical tree is the parse of some text: the parser is onto the trees of the grammar,
   and the printer is injective on them.
2. `parse_total`: the fuel of the parser is never exhausted, for any input: `.error .fuel` is not a result.  The bound that
   suffices is `2 * length + 2` for `parseSeq` (`parseCharsD` passes `2 * length + 4`); `length + 1` does not suffice (an
   opening parenthesis costs two units of fuel for one character: `(((`), so the remark in `Parse.lean` is too optimistic.
3. `canon_of_parse`: every tree the parser returns is a tree of the grammar (`Pat.Canon`).  With 1: the results of the parser
   are exactly the canonical trees (`parse_range`), and parsing the canonical text of a parse result gives the same tree
   (`render_parse_idempotent`).
4. `parse_sound`: the XSD parser is sound for the declarative grammar `Derives` (`XsdRe/Grammar.lean`: productions [1]–[11]
   and the escapes [23]–[27], [37] of Appendix F as an inductive relation between trees and texts): a text that parses to
   `p` is a spelling of `p`.  PARTIAL: character class expressions `[…]` (productions [12]–[22]) are a lexical relation
   delegated to `parseClass` (`ClassLex`), not given declaratively; completeness (`Derives p s → parseChars s = .ok p`) is
   not proved (it holds for the canonical spelling, 1).
-/
namespace LyModel.Props.C18Parse
open LyModel LyModel.XsdRe

/-! ## 1. parse ∘ render = id -/

/-- Reading the canonical text of a tree of the grammar gives that tree back. -/
theorem parse_render_roundtrip (d : Dialect) (p : Pat) (hc : p.Canon = true) (hd : p.inDialect d = true) :
    parseCharsD d (p.render d) = .ok p :=
  parseCharsD_render d p hc hd

/-- Every construct belongs to the XSD dialect. -/
theorem inDialect_xsd (p : Pat) : p.inDialect .xsd = true := Pat.inDialect_xsd p

/-- XSD: no side condition but `Canon`. -/
theorem parse_renderXsd (p : Pat) (hc : p.Canon = true) : parseChars (renderXsd p) = .ok p :=
  parseCharsD_render .xsd p hc (Pat.inDialect_xsd p)

/-- The printer is injective on the trees of the grammar. -/
theorem render_injective (d : Dialect) (p q : Pat) (hp : p.Canon = true) (hq : q.Canon = true)
    (dp : p.inDialect d = true) (dq : q.inDialect d = true) (h : p.render d = q.render d) : p = q := by
  have h1 := parse_render_roundtrip d p hp dp
  have h2 := parse_render_roundtrip d q hq dq
  rw [h, h2] at h1
  exact (Except.ok.inj h1).symm

/-- `[a-c-[b]]+|\s{2}x?` -/
def ex1 : Pat :=
  .alt (.rep (.cls [⟨false, [.range 'a' 'c']⟩, ⟨false, [.ch 'b']⟩]) 1 none)
    (.cat (.rep (.esc false .space) 2 (some 2)) (.rep (.chr 'x') 0 (some 1)))

/-- `[a-z\-\p{Lu}-[^e\P{IsGreek}]]{2,5}^(|\|)*||\C.{3,}` -/
def ex2 : Pat :=
  .alt (.cat (.rep (.cls [⟨false, [.range 'a' 'z', .ch '-', .esc false (.cat "Lu")]⟩, ⟨true, [.ch 'e', .esc true (.block "Greek")]⟩]) 2 (some 5))
          (.cat (.chr '^') (.rep (.group (.alt .eps (.chr '|'))) 0 none)))
    (.alt .eps (.cat (.esc true .nameChar) (.rep .dot 3 none)))

example : renderXsd ex1 = "[a-c-[b]]+|\\s{2}x?".toList := by decide +kernel
example : ex1.Canon = true := by decide +kernel
example : parseChars "[a-c-[b]]+|\\s{2}x?".toList = .ok ex1 := by
  have h : renderXsd ex1 = "[a-c-[b]]+|\\s{2}x?".toList := by decide +kernel
  rw [← h]
  exact parse_renderXsd ex1 (by decide +kernel)

example : renderXsd ex2 = "[a-z\\-\\p{Lu}-[^e\\P{IsGreek}]]{2,5}^(|\\|)*||\\C.{3,}".toList := by decide +kernel
example : ex2.Canon = true := by decide +kernel
example : parseChars (renderXsd ex2) = .ok ex2 := parse_renderXsd ex2 (by decide +kernel)

/-- `(a|\$){1,65535}[^\d-]` in the PCRE dialect: `\$`, no multi-character escapes but `\d` -/
def ex3 : Pat :=
  .cat (.rep (.group (.alt (.chr 'a') (.chr '$'))) 1 (some 65535)) (.cls [⟨true, [.esc false .dig, .ch '-']⟩])

example : ex3.render .pcre = "(a|\\$){1,65535}[^\\d\\-]".toList := by decide +kernel
example : parseCharsD .pcre (ex3.render .pcre) = .ok ex3 :=
  parse_render_roundtrip .pcre ex3 (by decide +kernel) (by decide +kernel)
/-- the hypothesis `inDialect` is needed: `\s` is not in the PCRE dialect -/
example : ex1.inDialect .pcre = false := by decide +kernel

/-! ## 2. totality: the fuel is never exhausted -/

/-- `parseCharsD` never runs out of fuel: every input is either parsed or rejected with a syntax error. -/
theorem parse_total (d : Dialect) (cs : List Char) : parseCharsD d cs ≠ .error .fuel :=
  parseCharsD_ne_fuel d cs

/-- Fuel `2 * length + 2` suffices for a regExp, in any state of the accumulators. -/
theorem parseSeq_fuel (d : Dialect) (g : Bool) (alts cur : List Pat) (s : List Char) :
    ∀ f ≥ 2 * s.length + 2, parseSeq d f g alts cur s ≠ .error .fuel :=
  fun f hf => (seq_ne_fuel d f).1 g alts cur s hf

/-- Fuel `2 * length + 1` suffices for an atom. -/
theorem parseAtom_fuel (d : Dialect) (s : List Char) : ∀ f ≥ 2 * s.length + 1, parseAtom d f s ≠ .error .fuel :=
  fun f hf => (seq_ne_fuel d f).2 s hf

/-- Fuel `2 * length + 2` suffices for a character class (the text after `[`). -/
theorem parseClass_fuel (d : Dialect) (s : List Char) : ∀ f ≥ 2 * s.length + 2, parseClass d f s ≠ .error .fuel :=
  fun f hf => (class_ne_fuel d f).1 s hf

/-- Fuel `2 * length + 1` suffices for the members of a character group. -/
theorem parseItems_fuel (d : Dialect) (neg : Bool) (acc : List CItem) (s : List Char) :
    ∀ f ≥ 2 * s.length + 1, parseItems d f neg acc s ≠ .error .fuel :=
  fun f hf => (class_ne_fuel d f).2 neg acc s hf

/-- The parser consumes input: an atom takes at least one character, a regExp returns a suffix no longer than its input. -/
theorem parseAtom_consumes (d : Dialect) (f : Nat) (s r : List Char) (a : Pat) (h : parseAtom d f s = .ok (a, r)) :
    r.length < s.length :=
  (seq_len d f).2 s a r h

theorem parseSeq_consumes (d : Dialect) (f : Nat) (g : Bool) (alts cur : List Pat) (s r : List Char) (p : Pat)
    (h : parseSeq d f g alts cur s = .ok (p, r)) : r.length ≤ s.length :=
  (seq_len d f).1 g alts cur s p r h

/-- `length + 1` is not enough: `(((` with fuel 4 -/
example : (match parseSeq .xsd ("(((".toList.length + 1) false [] [] "(((".toList with | .error .fuel => true | _ => false) = true := by
  decide +kernel
/-- a rejected input is rejected for a syntactic reason -/
example : (match parseChars "a{2,1}".toList with | .error (.syn _) => true | _ => false) = true := by decide +kernel
example : (match parseChars "((((((((".toList with | .error (.syn _) => true | _ => false) = true := by decide +kernel

/-! ## 3. the parser builds canonical trees only -/

/-- Every result of the parser is a tree of the grammar: alternations and concatenations nested to the right, quantifiers
    on atoms only with `lo ≤ hi`, known category / block names, ranges in order, no empty class. -/
theorem canon_of_parse (d : Dialect) (cs : List Char) (p : Pat) (h : parseCharsD d cs = .ok p) : p.Canon = true :=
  parseCharsD_canon d cs p h

/-- XSD: the trees the parser can return are exactly the canonical ones. -/
theorem parse_range (p : Pat) : (∃ cs, parseChars cs = .ok p) ↔ p.Canon = true :=
  ⟨fun ⟨cs, h⟩ => canon_of_parse .xsd cs p h, fun h => ⟨renderXsd p, parse_renderXsd p h⟩⟩

/-- XSD: the canonical text of a parse result parses to the same tree (the printer normalises the spelling only). -/
theorem render_parse_idempotent (cs : List Char) (p : Pat) (h : parseChars cs = .ok p) : parseChars (renderXsd p) = .ok p :=
  parse_renderXsd p (canon_of_parse .xsd cs p h)

/-- a different spelling of `ex1`, `[a-c-[b]]{1,}|\s{2,2}x{0,1}`, gives the same canonical tree -/
example : parseChars "[a-c-[b]]{1,}|\\s{2,2}x{0,1}".toList = .ok ex1 := eq_ok_of_parsesTo (by decide +kernel)
example : ex1.Canon = true :=
  canon_of_parse .xsd "[a-c-[b]]{1,}|\\s{2,2}x{0,1}".toList ex1 (eq_ok_of_parsesTo (by decide +kernel))
/-- a tree that is not canonical (concatenation nested to the left) is the parse of no text -/
example : ¬ ∃ cs, parseChars cs = .ok (.cat (.cat (.chr 'a') (.chr 'b')) (.chr 'c')) := by
  rw [parse_range]; decide

/-! ## 4. soundness for the declarative grammar (classes delegated) -/

/-- A text the XSD parser accepts is derived by the grammar, with the tree the parser returns. -/
theorem parse_sound (s : List Char) (p : Pat) (h : parseChars s = .ok p) : Derives p s :=
  parseChars_sound s p h

/-- the canonical text of a canonical tree is one of its spellings -/
theorem derives_render (p : Pat) (hc : p.Canon = true) : Derives p (renderXsd p) :=
  parse_sound _ p (parse_renderXsd p hc)

example : Derives ex1 "[a-c-[b]]{1,}|\\s{2,2}x{0,1}".toList :=
  parse_sound _ ex1 (eq_ok_of_parsesTo (by decide +kernel))
example : Derives ex2 (renderXsd ex2) := derives_render ex2 (by decide +kernel)
/-- the relation is not trivial: `a` is not a spelling of `b`, `*` is not a spelling of anything canonical … -/
example : ¬ Derives (.chr 'b') ['a'] := by
  intro h
  cases h

end LyModel.Props.C18Parse
