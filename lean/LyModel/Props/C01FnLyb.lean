import LyModel.Bridge.Lyb
/-!
# C01 (LYB) — the hash shortening of `lyb_generate_hash` as TRANSLATED from lyb.c (`tools/c2lean.py`, slices, regenerated on every run)
-/
namespace LyModel.Props.C01FnLyb
open LyModel LyModel.Generated

/-- **The translated shortening is the model's.**  For every 32-bit hash and collision id `< 8` (= `LYB_HASH_BITS`) the statements
    `hash = full_hash & (LYB_HASH_MASK >> id); hash |= LYB_HASH_COLLISION_ID >> id;` as translated compute the last line of
    `Lyb.generateHash`; the translated choice of `ext_len` is the model's `min(id, strlen(mod->name))`. -/
theorem gen_lyb_hash_shortening_is_model (h : UInt32) (c : UInt8) (len : UInt64) (hc : c.toNat < 8) :
    (Fn.lyb_generate_hash__mask h c).toNat
      = ((h.toNat &&& (LYB_HASH_MASK >>> c.toNat)) % 256 ||| (LYB_HASH_COLLISION_ID >>> c.toNat)) % 256 ∧
    (Fn.lyb_generate_hash__extlen c len).toNat = (if c.toNat > len.toNat then len.toNat else c.toNat) :=
  ⟨Bridge.Lyb.mask_eq h c hc, Bridge.Lyb.extlen_eq c len⟩

/-- **A shortened hash carries its collision id**: as translated, the result for collision id `c < 8` has bit `7 - c` set and
    no higher bit — the printer and the parser can read the id back from the position of the first set bit. -/
theorem gen_lyb_hash_id_readable : ∀ (c : Fin 8) (x : Fin 256),
    (Fn.lyb_generate_hash__mask (UInt8.ofNat x.val).toUInt32 (UInt8.ofNat c.val)).toNat / 2 ^ (7 - c.val) = 1 := by
  decide +kernel

example : Fn.lyb_generate_hash__mask 0xDEADBEEF 0 = 0xEF ∧ Fn.lyb_generate_hash__mask 0xDEADBEEF 3 = 0x1F := by decide +kernel

end LyModel.Props.C01FnLyb
