import LyModel.XPath.LemmasEval
import LyModel.XPath.LemmasComp
import LyModel.XPath.LemmasSet
import LyModel.XPath.LemmasMerge
import LyModel.XPath.LemmasNum
import LyModel.XPath.FastPath
/-!
# C08 — XPath evaluation on data follows XPath 1.0 with the YANG data model

Property theorems only (helper lemmas: `LyModel/XPath/Lemmas*.lean`).  Models: `XPath/Set.lean` (`set_sort`, `set_sorted_merge`),
`XPath/Comp.lean` (`lyxp_set_cast`, `moveto_op_comp`), `XPath/NumLex.lean` (number ↔ string lexical cores, floor/ceiling/round on exact
decimals), `XPath/Str.lean`, `XPath/FastPath.lean`, and the XPath 1.0 engine `XPath/Eval.lean` the implementation is run against.
Every theorem is parametric in the number type (`XNum N`) or free of numbers; `Float` occurs only in the driver.
-/
namespace LyModel.Props.C08
open LyModel LyModel.XPath

/-! ## Node-set ordering (`set_sort`) -/

/-- The bubble sort of `set_sort` — alternating comparison direction, early exit — returns a sorted permutation of every input
array, for every comparison function that is a consistent total preorder. -/
theorem set_sort_sorted_perm {α : Type} (cmp : α → α → Int) (h : Set.CmpOK cmp) (l : List α) :
    (Set.setSort cmp l).1.Pairwise (Set.Le cmp) ∧ (Set.setSort cmp l).1.Perm l :=
  Set.setSort_sorted_perm h l

/-- `set_sort_compare` restricted to the items of a real node-set (element and text nodes identified by their document
position) is such a comparison, and it orders items by position, an element before its text child. -/
theorem set_sort_compare_total_order :
    Set.CmpOK Set.keyCmp ∧ ∀ a b, (Set.keyCmp a b < 0 ↔ a < b) ∧ (Set.keyCmp a b > 0 ↔ b < a) :=
  ⟨Set.keyCmp_ok, fun a b => ⟨Set.keyCmp_lt a b, Set.keyCmp_gt a b⟩⟩

example : (Set.setSort Set.keyCmp [7, 2, 9, 4, 3, 2]).1 = [2, 2, 3, 4, 7, 9] ∧ (Set.setSort Set.keyCmp [7, 2, 9, 4, 3, 2]).2 = 4 := by
  decide

/-- non-vacuity (audit): `CmpOK` is met by libyang's comparison on position keys; six items, elements (even) and text nodes (odd)
mixed, one duplicate -/
example : (Set.setSort Set.keyCmp [7, 2, 9, 4, 3, 2]).1.Pairwise (Set.Le Set.keyCmp) ∧
    (Set.setSort Set.keyCmp [7, 2, 9, 4, 3, 2]).1.Perm [7, 2, 9, 4, 3, 2] :=
  set_sort_sorted_perm Set.keyCmp set_sort_compare_total_order.1 [7, 2, 9, 4, 3, 2]

-- AUDIT (note, no repair needed): the restriction to well-formed items in `set_sort_compare_total_order` is essential.  On raw
-- `Item`s `set_sort_compare` is NOT a `CmpOK` comparison (two different elements carrying the same `pos` compare `-1` both ways),
-- so `set_sort_sorted_perm` says nothing about arrays whose positions were not assigned injectively.  `keyCmp` covers element
-- and text items only; `set_sort_compare_total_order_with_root` below adds the root item (`pos = 0`); metadata items are outside
-- the model (`sortCompare` has no metadata branch).
/-- audit: `set_sort_compare` on unrestricted items violates the antisymmetry axiom of `CmpOK` -/
theorem set_sort_compare_raw_not_total_order : ¬ Set.CmpOK Set.sortCompare := fun h =>
  absurd ((h.anti ⟨1, 1, .elem⟩ ⟨1, 2, .elem⟩).1 (by decide)) (by decide)

/-- items of a node-set that may contain the root: key `0` is the root item (`pos = 0`, type root), every other key as `keyItem` -/
def keyItemR (k : Nat) : Set.Item := if k = 0 then ⟨0, 0, .root⟩ else Set.keyItem k
def keyCmpR (a b : Nat) : Int := Set.sortCompare (keyItemR a) (keyItemR b)

theorem keyCmpR_spec (a b : Nat) : (keyCmpR a b < 0 ↔ a < b) ∧ (keyCmpR a b > 0 ↔ b < a) := by
  by_cases ha : a = 0 <;> by_cases hb : b = 0
  · subst ha; subst hb; decide
  · subst ha
    have h : keyCmpR 0 b = -1 := by
      simp [keyCmpR, keyItemR, hb, Set.sortCompare, Set.keyItem]
    rw [h]; omega
  · subst hb
    have h : keyCmpR a 0 = 1 := by
      simp [keyCmpR, keyItemR, ha, Set.sortCompare, Set.keyItem]
    rw [h]; omega
  · have h : keyCmpR a b = Set.keyCmp a b := by simp [keyCmpR, keyItemR, ha, hb, Set.keyCmp]
    rw [h]; exact ⟨Set.keyCmp_lt a b, Set.keyCmp_gt a b⟩

/-- audit: `set_sort_compare_total_order` extended by the root item, which real node-sets contain (`/ | /a`, `ancestor::node()`) -/
theorem set_sort_compare_total_order_with_root :
    Set.CmpOK keyCmpR ∧ ∀ a b, (keyCmpR a b < 0 ↔ a < b) ∧ (keyCmpR a b > 0 ↔ b < a) := by
  refine ⟨⟨fun a b => ?_, fun a b => ?_, fun a b c => ?_⟩, keyCmpR_spec⟩
  · rw [(keyCmpR_spec b a).1, (keyCmpR_spec a b).2]
  · rw [(keyCmpR_spec a b).2, (keyCmpR_spec b a).2]; omega
  · rw [(keyCmpR_spec a b).2, (keyCmpR_spec b c).2, (keyCmpR_spec a c).2]; omega

/-- non-vacuity (audit): a node-set with the root, two elements and two text nodes -/
example : (Set.setSort keyCmpR [7, 2, 0, 4, 3]).1 = [0, 2, 3, 4, 7] := by decide

/-! ## Node-set union (`set_sorted_merge`) -/

/-- For sorted duplicate-free `trg` and `src`, `set_sorted_merge` with its `count`/`dup_count` block copies never indexes outside
the `trg->used + src->used` allocated entries (the model returns `some`) and leaves the sorted duplicate-free union in `trg`. -/
theorem sorted_merge_union (trg src : List Nat) (ht : trg.Pairwise (· < ·)) (hs : src.Pairwise (· < ·)) :
    ∃ r, Set.sortedMerge trg src = some r ∧ r.Pairwise (· < ·) ∧ ∀ x, x ∈ r ↔ x ∈ trg ∨ x ∈ src :=
  Set.sortedMerge_spec trg src ht hs

example : Set.sortedMerge [1, 4, 6, 8, 9] [2, 4, 5, 6, 7, 12] = some [1, 2, 4, 5, 6, 7, 8, 9, 12] := by decide

/-- non-vacuity (audit): both hypotheses at overlapping five- and six-element sets (two common keys, interleaved runs) -/
example : ∃ r, Set.sortedMerge [1, 4, 6, 8, 9] [2, 4, 5, 6, 7, 12] = some r ∧ r.Pairwise (· < ·) ∧
    ∀ x, x ∈ r ↔ x ∈ [1, 4, 6, 8, 9] ∨ x ∈ [2, 4, 5, 6, 7, 12] :=
  sorted_merge_union _ _ (by decide) (by decide)

/-! ## Conversions (`lyxp_set_cast`) -/
section
variable {N : Type} [XNum N]

/-- to boolean: REC §4.3 for every operand type -/
theorem cast_bool (c : Comp.Cfg) (o : Comp.Opnd N) : Comp.C.cast c o .bool = .bool (Comp.Spec.toBool o) :=
  Comp.cast_bool_eq c o

/-- to string: a node-set gives the string-value of its first node in document order, the empty node-set the empty string -/
theorem cast_nodeset_string (c : Comp.Cfg) (svs : List Bytes) :
    Comp.C.cast (N := N) c (.ns svs) .str = .str (svs.headD []) := by
  rw [Comp.cast_str_eq]; cases svs <;> rfl

/-- to number: booleans give 1/0, everything else goes through its string conversion -/
theorem cast_number (c : Comp.Cfg) (o : Comp.Opnd N) : Comp.C.cast c o .num = .num (Comp.Spec.toNum c o) :=
  Comp.cast_num_eq c o

example : Comp.Spec.toBool (N := N) (.ns [[0x61]]) = true ∧ Comp.Spec.toBool (N := N) (.str []) = false := by
  simp [Comp.Spec.toBool]

/-- non-vacuity (audit): the three casts (no hypotheses) at a two-node node-set and a boolean, for every number type -/
example (c : Comp.Cfg) : Comp.C.cast (N := N) c (.ns [[0x62], [0x61]]) .str = .str [0x62] ∧
    Comp.C.cast (N := N) c (.ns [[0x62], [0x61]]) .bool = .bool true ∧
    Comp.C.cast (N := N) c (.bool true) .num = .num XNum.one ∧
    Comp.C.cast (N := N) c (.ns [[0x31], [0x32]]) .num = .num (XNum.ofStr c.strtold [0x31]) :=
  ⟨cast_nodeset_string c _, cast_bool c _, cast_number c _, cast_number c _⟩

/-! ## Comparisons (`moveto_op_comp`) -/

/-- Full statement — `moveto_op_comp` is the comparison table of XPath 1.0 §3.4 for every pair of operand types — is FALSE:
a node-set compared with a boolean is evaluated node by node instead of through `boolean()` (finding F256). -/
theorem compare_table_fails :
    ¬ ∀ (c : Comp.Cfg) (op : BinOp) (a b : Comp.Opnd N), Comp.C.opComp c op a b = Comp.Spec.compare c op a b := by
  intro h
  have hw := Comp.opComp_ne_spec_witness (N := N) ⟨false, false⟩
  rw [h] at hw
  rw [hw.2] at hw
  exact absurd hw.1 (by decide)

/-- Every other cell of the table: node-set × node-set (existential over both), node-set × number, node-set × string, and all
nine scalar pairs with the promotion order boolean > number > string for `=`/`!=` and numbers for `< <= > >=` — including the
in-place conversion of the scalar operand inside the per-node loop, which does not change any verdict. -/
theorem compare_table_partial (c : Comp.Cfg) (op : BinOp) (a b : Comp.Opnd N) (h : ¬ Comp.NsBoolPair a b) :
    Comp.C.opComp c op a b = Comp.Spec.compare c op a b :=
  Comp.opComp_eq_spec c op a b h

/-- …and node-set × boolean itself is right for `=` and `!=` on non-empty node-sets. -/
theorem compare_nsbool_eqne_nonempty (c : Comp.Cfg) (op : BinOp) (hop : Comp.isEqNe op = true) (sv : Bytes) (l : List Bytes)
    (y : Bool) : Comp.C.opComp (N := N) c op (.ns (sv :: l)) (.bool y) = Comp.Spec.compare (N := N) c op (.ns (sv :: l)) (.bool y) :=
  Comp.opComp_nsBool_eqne c op hop sv l y

example : ¬ Comp.NsBoolPair (N := N) (.ns [[0x31], [0x32]]) (.str [0x32]) := by simp [Comp.NsBoolPair]

/-- non-vacuity (audit): `¬ NsBoolPair` at node-set × node-set (two nodes each, one common value: `=` is true), node-set × number
under `<`, boolean × string under `!=` -/
example (c : Comp.Cfg) (n : N) :
    Comp.C.opComp (N := N) c .eq (.ns [[0x31], [0x32]]) (.ns [[0x33], [0x32]]) = true ∧
    Comp.C.opComp c .lt (.ns [[0x31], [0x32]]) (.num n) =
      Comp.Spec.compare c .lt (.ns [[0x31], [0x32]]) (.num n) ∧
    Comp.C.opComp (N := N) c .ne (.bool true) (.str [0x78]) = false := by
  refine ⟨?_, compare_table_partial c _ _ _ (by simp [Comp.NsBoolPair]), ?_⟩
  · rw [compare_table_partial c _ _ _ (by simp [Comp.NsBoolPair])]
    simp [Comp.Spec.compare, Comp.Spec.cmpAtom, Comp.isEqNe, Comp.cmpStr, Comp.Spec.toStr]
  · rw [compare_table_partial c _ _ _ (by simp [Comp.NsBoolPair])]
    simp [Comp.Spec.compare, Comp.Spec.cmpAtom, Comp.isEqNe, Comp.cmpBool, Comp.Spec.toBool]

/-- non-vacuity (audit): `isEqNe` at `!=`, a two-node node-set against `true()` -/
example (c : Comp.Cfg) : Comp.C.opComp (N := N) c .ne (.ns [[0x61], [0x62]]) (.bool true) = false := by
  rw [compare_nsbool_eqne_nonempty c .ne (by decide)]
  simp [Comp.Spec.compare, Comp.Spec.cmpAtom, Comp.isEqNe, Comp.cmpBool, Comp.Spec.toBool]

end

/-! ## number → string (F38) -/

/-- Full statement — libyang's formatting is the REC's — is FALSE: `string(0.25)` = `0.2`. -/
theorem cast_number_string_fails : ¬ ∀ d : NumLex.Dec, NumLex.fmtC d = NumLex.fmtRec d :=
  fun h => NumLex.fmtC_ne_fmtRec_witness (h _)

/-- It holds for integers and for numbers with one fractional digit. -/
theorem cast_number_string_partial (d : NumLex.Dec) (h : d.normalize.scale ≤ 1) : NumLex.fmtC d = NumLex.fmtRec d :=
  NumLex.fmtC_eq_fmtRec_of_scale_le_one d h

example : NumLex.fmtC ⟨true, 1250, 2⟩ = [0x2d, 0x31, 0x32, 0x2e, 0x35] ∧ (⟨true, 1250, 2⟩ : NumLex.Dec).normalize.scale ≤ 1 := by
  decide

/-- non-vacuity (audit): the theorem at `-12.50` (negative, non-integer, needs normalisation) -/
example : NumLex.fmtC ⟨true, 1250, 2⟩ = NumLex.fmtRec ⟨true, 1250, 2⟩ := cast_number_string_partial _ (by decide)

/-! ## string → number (F39) -/

/-- Full statement — `strtold` + "everything consumed" recognises the REC's `Number` — is FALSE: `1e3`, `+1`, `0x10`, `inf` are
accepted, `12 ` (trailing blank) is rejected. -/
theorem cast_string_number_fails : ¬ ∀ s : Bytes, NumLex.strtoldNumber s = NumLex.recNumber s :=
  fun h => NumLex.strtold_ne_rec_witnesses.1 (h _)

/-- On the common lexical subset — optional `-`, digits, `.` — both recognise the same strings with the same value. -/
theorem cast_string_number_partial (s : Bytes) (h : NumLex.isPlain s = true) : NumLex.strtoldNumber s = NumLex.recNumber s :=
  NumLex.strtold_eq_rec_of_plain s h

example : NumLex.isPlain [0x2d, 0x31, 0x32, 0x2e, 0x35] = true ∧
    NumLex.recNumber [0x2d, 0x31, 0x32, 0x2e, 0x35] = .dec true 125 (-1) := by decide

/-- non-vacuity (audit): the theorem at `-12.5` (sign, integer part, fraction) -/
example : NumLex.strtoldNumber [0x2d, 0x31, 0x32, 0x2e, 0x35] = .dec true 125 (-1) := by
  rw [cast_string_number_partial _ (by decide)]; decide

/-! ## floor / ceiling / round (F40) -/

theorem fn_floor_fails : ¬ ∀ d : NumLex.Dec, NumLex.floorC d = NumLex.floorRec d :=
  fun h => NumLex.floorC_ne_witness (h _)
theorem fn_floor_partial (d : NumLex.Dec) (h : d.neg = false ∨ d.isInt = true) : NumLex.floorC d = NumLex.floorRec d :=
  NumLex.floorC_eq d h
theorem fn_ceiling_fails : ¬ ∀ d : NumLex.Dec, NumLex.ceilC d = NumLex.ceilRec d :=
  fun h => NumLex.ceilC_ne_witness (h _)
theorem fn_ceiling_partial (d : NumLex.Dec) (h : d.neg = false ∨ d.isInt = true) : NumLex.ceilC d = NumLex.ceilRec d :=
  NumLex.ceilC_eq d h
/-- `round(-1)` = 0: truncation of `x + 0.5` -/
theorem fn_round_fails : ¬ ∀ d : NumLex.Dec, NumLex.roundC d = NumLex.roundRec d :=
  fun h => NumLex.roundC_ne_witness (h _)
theorem fn_round_partial (d : NumLex.Dec) (h : d.neg = false) : NumLex.roundC d = NumLex.roundRec d :=
  NumLex.roundC_eq d h

example : NumLex.floorC ⟨false, 275, 2⟩ = 2 ∧ NumLex.ceilC ⟨false, 275, 2⟩ = 3 ∧ NumLex.roundC ⟨false, 25, 1⟩ = 3 ∧
    NumLex.floorC ⟨true, 15, 1⟩ = -1 ∧ NumLex.floorRec ⟨true, 15, 1⟩ = -2 := by decide

/-- non-vacuity (audit): the three `_partial` theorems at `2.75` / `2.5` (first disjunct: non-negative non-integers) and at
`-3.00` (second disjunct: negative integer) -/
example : NumLex.floorC ⟨false, 275, 2⟩ = NumLex.floorRec ⟨false, 275, 2⟩ ∧ NumLex.floorC ⟨true, 300, 2⟩ = NumLex.floorRec ⟨true, 300, 2⟩ ∧
    NumLex.ceilC ⟨false, 275, 2⟩ = NumLex.ceilRec ⟨false, 275, 2⟩ ∧ NumLex.ceilC ⟨true, 300, 2⟩ = NumLex.ceilRec ⟨true, 300, 2⟩ ∧
    NumLex.roundC ⟨false, 25, 1⟩ = NumLex.roundRec ⟨false, 25, 1⟩ ∧ NumLex.floorRec ⟨true, 300, 2⟩ = -3 ∧ NumLex.roundRec ⟨false, 25, 1⟩ = 3 :=
  ⟨fn_floor_partial _ (.inl rfl), fn_floor_partial _ (.inr (by decide)), fn_ceiling_partial _ (.inl rfl),
    fn_ceiling_partial _ (.inr (by decide)), fn_round_partial _ rfl, by decide, by decide⟩

/-! ## string-length (F41) -/

theorem fn_string_length_fails : ¬ ∀ s : Bytes, Str.length true s = Str.length false s :=
  fun h => Str.length_bytes_ne_chars_witness (h _)
theorem fn_string_length_partial (s : Bytes) (h : ∀ b ∈ s, b.toNat < 128) : Str.length true s = Str.length false s :=
  Str.length_bytes_eq_chars_of_ascii s h

example : Str.length false [0xc3, 0xbc, 0xe2, 0x82, 0xac] = 2 ∧ Str.length true [0xc3, 0xbc, 0xe2, 0x82, 0xac] = 5 := by decide

/-- non-vacuity (audit): the ASCII hypothesis at the three-character string `a ~` -/
example : Str.length true [0x61, 0x20, 0x7e] = Str.length false [0x61, 0x20, 0x7e] ∧ Str.length false [0x61, 0x20, 0x7e] = 3 :=
  ⟨fn_string_length_partial _ (by decide), by decide⟩

/-! ## Key-predicate fast path -/

/-- A child step with key/value predicates answered by one lookup per context node selects the same nodes, in the same order,
as filtering all children — for every implementation of the lookup that returns the first matching child (hash table or
linear scan), provided sibling instances have distinct key tuples. -/
theorem fastpath_eq_generic {Node Key : Type} [DecidableEq Key] (kids : Node → List Node) (key : Node → Option Key)
    (idx : Node → Key → Option Node) (hidx : FastPath.IsIndex kids key idx) (ctx : List Node) (k : Key)
    (hu : ∀ p ∈ ctx, FastPath.KeysUnique key (kids p)) :
    FastPath.fast idx ctx k = FastPath.generic kids key ctx k := by
  unfold FastPath.fast FastPath.generic
  induction ctx with
  | nil => rfl
  | cons p r ih =>
    have hp := FastPath.filter_eq_find?_toList key k (kids p) (hu p (by simp))
    rw [List.filterMap_cons, List.flatMap_cons, hp, hidx p k, ih (fun q hq => hu q (by simp [hq]))]
    cases List.find? (fun x => key x == some k) (kids p) <;> rfl

example : FastPath.fast (fun (p : Nat) (k : Nat) => ([10 * p + 1, 10 * p + 2, 10 * p + 3].find? fun x => some (x % 10) == some k))
    [1, 2] 2 = [12, 22] := by decide

/-- non-vacuity (audit): `IsIndex` and `KeysUnique` at two context nodes, each with one child that is not an instance of the list
(`key = none`) and three instances with distinct keys; the index is the linear scan -/
example :
    let kids : Nat → List Nat := fun p => [10 * p, 10 * p + 1, 10 * p + 2, 10 * p + 3]
    let key : Nat → Option Nat := fun x => if x % 10 == 0 then none else some (x % 10)
    let idx : Nat → Nat → Option Nat := fun p k => (kids p).find? fun x => key x == some k
    FastPath.IsIndex kids key idx ∧ (∀ p ∈ [1, 2], FastPath.KeysUnique key (kids p)) ∧
      FastPath.fast idx [1, 2] 2 = FastPath.generic kids key [1, 2] 2 ∧ FastPath.generic kids key [1, 2] 2 = [12, 22] := by
  intro kids key idx
  have h1 : FastPath.IsIndex kids key idx := fun _ _ => rfl
  have h2 : ∀ p ∈ [1, 2], FastPath.KeysUnique key (kids p) := by
    intro p hp
    simp only [List.mem_cons, List.not_mem_nil, or_false] at hp
    rcases hp with rfl | rfl <;> (unfold FastPath.KeysUnique; decide)
  exact ⟨h1, h2, fastpath_eq_generic kids key idx h1 [1, 2] 2 h2, by decide⟩

-- AUDIT (note, no repair needed): `KeysUnique` is a genuine restriction, not a convenience — it excludes key-less lists and state
-- leaf-lists with repeated values, for which a first-match lookup returns one node where the filter returns all of them.
/-- audit: without `KeysUnique` the statement is false (two siblings with the same key) -/
theorem fastpath_eq_generic_needs_unique_keys :
    ¬ ∀ (kids : Nat → List Nat) (key : Nat → Option Nat) (idx : Nat → Nat → Option Nat), FastPath.IsIndex kids key idx →
      ∀ ctx k, FastPath.fast idx ctx k = FastPath.generic kids key ctx k := fun h =>
  absurd (h (fun _ => [1, 2]) (fun _ => some 7) (fun _ k => [1, 2].find? fun _ => some 7 == some k) (fun _ _ => rfl) [0] 7)
    (by decide)

/-! ## The engine: node-sets are sets -/

/-- The "no duplicates" clause on the specification side: whatever expression of the fragment is evaluated, on whatever
document and context, with whatever combination of semantics switches, a node-set result is strictly increasing in document
order.  (By mutual induction over expressions, path starts, steps and predicates.) -/
theorem eval_nodeset_sorted_nodup {N : Type} [XNum N] (env : Env) (e : Expr) (cx : Cx) (l : List Ref)
    (h : eval (N := N) env e cx = .ok (.ns l)) : l.Pairwise (· < ·) :=
  eval_wf env e cx (.ns l) h

/-- The "exactly the selected nodes" clause on the specification side, for a location step (XPath 1.0 semantics, no predicates):
the result consists of precisely the document's nodes that lie on the axis of some context node and pass the node test. -/
theorem eval_step_exact {N : Type} [XNum N] (env : Env) (hq : env.q.predMerged = false) (ax : Axis) (t : Test) (s : List Ref) :
    ∃ r, evalSteps (N := N) env [.mk ax t []] s = .ok r ∧ r.Pairwise (· < ·) ∧
      ∀ x, x ∈ r ↔ x ∈ env.all ∧ ∃ c ∈ s, env.inAxis ax c x = true ∧ env.matchTest ax t x = true :=
  step_exact env hq ax t s

/-- …and for `|`: precisely the nodes of either operand. -/
theorem eval_union_exact {N : Type} [XNum N] (env : Env) (a b : Expr) (cx : Cx) (l1 l2 : List Ref)
    (ha : eval (N := N) env a cx = .ok (.ns l1)) (hb : eval (N := N) env b cx = .ok (.ns l2)) :
    ∃ r, eval (N := N) env (.bin .union a b) cx = .ok (.ns r) ∧ r.Pairwise (· < ·) ∧
      ∀ x, x ∈ r ↔ x ∈ env.all ∧ (x ∈ l1 ∨ x ∈ l2) :=
  union_exact env a b cx l1 l2 ha hb

/-- a three-element document `<a><b>v</b><c/></a>`: `child::*` from `a` selects `b` and `c`, not the text node -/
example : (⟨⟨#[⟨0, [], [0x61], false, [], []⟩, ⟨1, [], [0x62], true, [0x76], []⟩, ⟨1, [], [0x63], false, [], []⟩]⟩, {}, 0, {}⟩ : Env).candidates
    .child .any 2 = [4, 6] := by decide

/-- audit witness: `<c><l><k>1</k></l><l><k>2</k></l><ll>x</ll></c>` — a container with two entries of a keyed list and a leaf-list
instance; references `c`=2, `l`=4/8, `k`=6/10 (text 7/11), `ll`=12 (text 13); all semantics switches off -/
private def auditEnv : Env :=
  ⟨⟨#[⟨0, [], [0x63], false, [], []⟩, ⟨1, [], [0x6c], false, [], []⟩, ⟨2, [], [0x6b], true, [0x31], []⟩,
      ⟨1, [], [0x6c], false, [], []⟩, ⟨4, [], [0x6b], true, [0x32], []⟩, ⟨1, [], [0x6c, 0x6c], true, [0x78], []⟩]⟩, {}, 0, {}⟩
/-- `//l[k = '2']` -/
private def auditA : Expr :=
  .path .root [.mk .descendant (.name none [0x6c]) [.bin .eq (.path .ctx [.mk .child (.name none [0x6b]) []]) (.lit [0x32])]]
/-- `/c/ll/preceding-sibling::*` -/
private def auditB : Expr :=
  .path .root [.mk .child (.name none [0x63]) [], .mk .child (.name none [0x6c, 0x6c]) [], .mk .precedingSibling .any []]

/-- non-vacuity (audit): `eval_nodeset_sorted_nodup` at `//l[k = '2'] | /c/ll/preceding-sibling::*` on the witness document — a
predicate with a node-set × string comparison, a reverse axis and a union of overlapping operands; the result has two nodes -/
example {N : Type} [XNum N] : eval (N := N) auditEnv (.bin .union auditA auditB) ⟨0, 1, 1⟩ = .ok (.ns [4, 8]) ∧
    ([4, 8] : List Ref).Pairwise (· < ·) := by
  have ha : eval (N := N) auditEnv auditA ⟨0, 1, 1⟩ = .ok (.ns [8]) := rfl
  have hb : eval (N := N) auditEnv auditB ⟨0, 1, 1⟩ = .ok (.ns [4, 8]) := rfl
  have h : eval (N := N) auditEnv (.bin .union auditA auditB) ⟨0, 1, 1⟩ = .ok (.ns [4, 8]) := by rw [eval, ha, hb]; rfl
  exact ⟨h, eval_nodeset_sorted_nodup (N := N) _ _ _ _ h⟩

/-- non-vacuity (audit): `eval_step_exact` on the witness document — `descendant::k` from both list entries, and the reverse axis
`ancestor-or-self::node()` from a text node and the leaf-list instance (six nodes incl. the root, context nodes in different subtrees) -/
example {N : Type} [XNum N] :
    evalSteps (N := N) auditEnv [.mk .descendant (.name none [0x6b]) []] [4, 8] = .ok [6, 10] ∧
    evalSteps (N := N) auditEnv [.mk .ancestorOrSelf .node []] [7, 12] = .ok [0, 2, 4, 6, 7, 12] ∧
    ∃ r, evalSteps (N := N) auditEnv [.mk .ancestorOrSelf .node []] [7, 12] = .ok r ∧ r.Pairwise (· < ·) ∧
      ∀ x, x ∈ r ↔ x ∈ auditEnv.all ∧ ∃ c ∈ [7, 12], auditEnv.inAxis .ancestorOrSelf c x = true ∧
        auditEnv.matchTest .ancestorOrSelf .node x = true :=
  ⟨rfl, rfl, eval_step_exact auditEnv rfl _ _ _⟩

/-- non-vacuity (audit): `eval_union_exact` at `//k | /*/*` on the witness document: operands `[6, 10]` and `[4, 8, 12]` interleave -/
example {N : Type} [XNum N] :
    ∃ r, eval (N := N) auditEnv (.bin .union (.path .root [.mk .descendant (.name none [0x6b]) []])
      (.path .root [.mk .child .any [], .mk .child .any []])) ⟨0, 1, 1⟩ = .ok (.ns r) ∧ r.Pairwise (· < ·) ∧
      ∀ x, x ∈ r ↔ x ∈ auditEnv.all ∧ (x ∈ [6, 10] ∨ x ∈ [4, 8, 12]) :=
  eval_union_exact (N := N) auditEnv _ _ ⟨0, 1, 1⟩ [6, 10] [4, 8, 12] rfl rfl

-- AUDIT (scope, no repair possible inside this file): `eval_nodeset_sorted_nodup`, `eval_step_exact` and `eval_union_exact` are
-- statements about the specification engine `XPath/Eval.lean` only (as their docstrings say).  No theorem of this file relates
-- libyang's path evaluator (`eval_*`, `moveto_*` of xpath.c) to that engine; that part of C08 rests on the correspondence check.
-- `eval_step_exact` carries the hypothesis `predMerged = false` although the step has no predicates; the hypothesis is harmless
-- (met by the default `Quirks`) but not needed — `eval_step_exact_any_quirks` below drops it.

/-- audit: `eval_step_exact` for every combination of semantics switches (a step without predicates is not affected by F250) -/
theorem eval_step_exact_any_quirks {N : Type} [XNum N] (env : Env) (ax : Axis) (t : Test) (s : List Ref) :
    ∃ r, evalSteps (N := N) env [.mk ax t []] s = .ok r ∧ r.Pairwise (· < ·) ∧
      ∀ x, x ∈ r ↔ x ∈ env.all ∧ ∃ c ∈ s, env.inAxis ax c x = true ∧ env.matchTest ax t x = true := by
  cases hq : env.q.predMerged with
  | false => exact step_exact env hq ax t s
  | true =>
    refine ⟨env.norm (if ax.isReverse then (env.norm (s.flatMap (env.candidates ax t))).reverse
      else env.norm (s.flatMap (env.candidates ax t))), ?_, env.norm_isNodeSet _, ?_⟩
    · rw [evalSteps]
      simp only [hq, if_true]
      rw [evalPreds]
      simp only [bind, Except.bind, pure, Except.pure, evalSteps]
    · intro x
      have hm : x ∈ (if ax.isReverse then (env.norm (s.flatMap (env.candidates ax t))).reverse
          else env.norm (s.flatMap (env.candidates ax t))) ↔ x ∈ env.norm (s.flatMap (env.candidates ax t)) := by
        split <;> simp
      unfold Env.norm at hm ⊢
      rw [mem_mkNs, hm, mem_mkNs]
      simp only [Env.all, List.mem_flatMap, Env.candidates, List.mem_filter, Bool.and_eq_true]
      constructor
      · rintro ⟨hx, _, c, hc, _, h1, h2⟩; exact ⟨hx, c, hc, h1, h2⟩
      · rintro ⟨hx, c, hc, h1, h2⟩; exact ⟨hx, hx, c, hc, hx, h1, h2⟩


end LyModel.Props.C08
