import LyModel.Sib.HtOrderLemmas
/-!
# C04 — a leaf / container instantiated more than once under one parent (`Inv.single` does not hold)

`lyd_insert_node` links a second instance of a leaf or container (validation rejects it later).  The children hash table then
has several records under the same schema-only hash; `lyht_find` returns the first record of the collision chain, and chains
keep insertion order (`lyd_insert_hash` appends, `lyd_unlink_hash` takes one record out).  `HtOrd x recs nodes`
(Sib/HtOrderLemmas.lean): the records filed under the schema-only hash of `x`, in chain order, are the instances of `x` in
sibling order.  Under it `lyd_find_sibling_schema` through the table is the linear search — duplicates or not —, and the
insertion of a further duplicate keeps it.  (What is NOT done: `HtOrd` as a field of `Inv` carried through every edit op, which
would remove `Inv.single` from `inv_reachable` and `anchor_hash_eq_linear`; `lyd_unlink_hash` and the first-instance records of
(leaf-)lists are not covered by the lemmas here.)
-/
namespace LyModel.Props.C04Dup
open LyModel LyModel.Sib

/-- `find_schema_iff_scan` without `Inv.single`: with the chain order the hash lookup of a schema node returns its FIRST
    instance in sibling order, however many instances the leaf / container has -/
theorem find_schema_with_duplicates (x : SRef) (recs : List Rec) (nodes : List Node) (h : HtOrd x recs nodes)
    (hnd : (nodes.map (·.id)).Nodup) :
    (findSchemaHt recs x).bind (idxOfId nodes) = nodes.findIdx? (fun e => e.sch == some x) :=
  findSchemaHt_first x recs nodes h hnd

/-- one more instance of the leaf / container `x`, linked behind the instances already there (where `lyd_insert_node` puts it:
    in front of the first node of a later schema node) and filed at the end of its chain: the order invariant is kept -/
theorem ht_order_kept_by_duplicate_insert (x : SRef) (recs : List Rec) (a b : List Node) (n : Node) (hn : n.sch = some x)
    (hb : ∀ m ∈ b, m.sch ≠ some x) (h : HtOrd x recs (a ++ b)) :
    HtOrd x (recs ++ [(HKey.sch x, n.id)]) (a ++ n :: b) :=
  htOrd_insert_dup x recs a b n hn hb h

/-- … and by the insertion of any node of another schema node, with whatever records it files under other hashes -/
theorem ht_order_kept_by_other_insert (x : SRef) (recs : List Rec) (a b : List Node) (n : Node) (r : List Rec)
    (hn : n.sch ≠ some x) (hr : ∀ e ∈ r, e.1 ≠ HKey.sch x) (h : HtOrd x recs (a ++ b)) : HtOrd x (recs ++ r) (a ++ n :: b) :=
  htOrd_insert_other x recs a b n r hn hr h

/-- non-vacuity (audit): children `a`(id 2), `b`(id 4), `b`(id 3, re-inserted behind 4), `e`(id 5) — the state of the libyang
    probe — with the chain of `b` in the order 4, 3: the lookup of `b` gives index 1 (node 4), by table and by scan; a third `b`
    (id 9) goes behind both and to the end of the chain -/
def dupNodes : List Node := [⟨2, some ⟨0, 0⟩, .str []⟩, ⟨4, some ⟨0, 2⟩, .str []⟩, ⟨3, some ⟨0, 2⟩, .str []⟩, ⟨5, some ⟨0, 5⟩, .str []⟩]
def dupRecs : List Rec := [(.sch ⟨0, 0⟩, 2), (.sch ⟨0, 2⟩, 4), (.sch ⟨0, 5⟩, 5), (.sch ⟨0, 2⟩, 3)]

theorem dup_htOrd : HtOrd ⟨0, 2⟩ dupRecs dupNodes := by unfold HtOrd; decide

example : (findSchemaHt dupRecs ⟨0, 2⟩).bind (idxOfId dupNodes) = some 1 ∧
    dupNodes.findIdx? (fun e => e.sch == some ⟨0, 2⟩) = some 1 :=
  ⟨by decide, by decide⟩

example : (findSchemaHt dupRecs ⟨0, 2⟩).bind (idxOfId dupNodes) = dupNodes.findIdx? (fun e => e.sch == some ⟨0, 2⟩) :=
  find_schema_with_duplicates _ _ _ dup_htOrd (by decide)

example : HtOrd ⟨0, 2⟩ (dupRecs ++ [(.sch ⟨0, 2⟩, 9)])
    ([⟨2, some ⟨0, 0⟩, .str []⟩, ⟨4, some ⟨0, 2⟩, .str []⟩, ⟨3, some ⟨0, 2⟩, .str []⟩] ++ ⟨9, some ⟨0, 2⟩, .str []⟩ :: [⟨5, some ⟨0, 5⟩, .str []⟩]) :=
  ht_order_kept_by_duplicate_insert ⟨0, 2⟩ dupRecs
    [⟨2, some ⟨0, 0⟩, .str []⟩, ⟨4, some ⟨0, 2⟩, .str []⟩, ⟨3, some ⟨0, 2⟩, .str []⟩] [⟨5, some ⟨0, 5⟩, .str []⟩]
    ⟨9, some ⟨0, 2⟩, .str []⟩ rfl (by decide) dup_htOrd

end LyModel.Props.C04Dup
