import LyModel.Diff.UOBridgeNBDec
import LyModel.Props.C06UO
/-!
# C06 — a user-ordered leaf-list NEXT TO other siblings: apply(A, diff(A, B)) = B   (Stage 3a)

Property theorems (statements only; lemmas in `LyModel/Diff/UOBridgeNB*.lean`), about the executable model `lydrv` runs against
libyang: `diffFull` / `diffFromPtr` (`lyd_diff_siblings`) and `apply` (`lyd_diff_apply_all`).

The sibling lists are `P ++ instances ++ Q`: the instances of one user-ordered configuration leaf-list `s` between the SAME
neighbours in both trees — leaves and child-less containers of other (plain) schema nodes, e.g. the implicit default container
libyang puts next to top-level instances — in schema order.  This is the situation of every top-level pair of the exhaustive
leaf-list family of `tools/checks/c06.py`.
* `insertUO_among_neighbours` — `lyd_diff_insert` on `P ++ X ++ Q` does to the instance group `X` what it does on `X` alone
  (generic: value- and key-addressed kinds).
* `diff_userord_ll_neighbours_sim` — the diff is still, node for node, the encoding of `UOG.diffU` on the values.
* `apply_diff_userord_ll_neighbours`, `…_dec` — hence apply(A, diff(A, B)) = B up to `LYD_NEW`.
OPEN: neighbours that CHANGE (their operations interleave with the user-ordered ones in the diff: `insertBySchema`), neighbours
with children, several user-ordered groups, nesting — the tree induction.
-/
namespace LyModel.Props.C06UO
open LyModel LyModel.Tree LyModel.Diff LyModel.Diff.UOB LyModel.Diff.UOB.NB

/-- **`lyd_diff_insert` among neighbours.**  `X`: instances of `n`'s schema node (value- or key-addressed); `P` / `Q`: siblings of
earlier / later schema nodes; `moving`: index in `X` of the moved instance.  If an anchor is only given when there are
instances, `insertUO` on `P ++ X ++ Q` (indices shifted by `|P|`) yields `P ++ X' ++ Q` where `X'` is what it yields on `X`. -/
theorem insertUO_among_neighbours (S : Schema) (hasParent : Bool) (P X Q : List DNode) (n : DNode) (moving : Option Nat) (anchor : Option Bytes)
    (X' : List DNode) (hd : S.isDupInst n.sid = false)
    (hX : ∀ x ∈ X, x.sid = n.sid) (hP : ∀ x ∈ P, x.sid < n.sid) (hQ : ∀ x ∈ Q, n.sid < x.sid)
    (hm : ∀ i, moving = some i → i < X.length) (hc : X ≠ [] ∨ anchor = none)
    (h : insertUO S X hasParent n moving anchor = .ok X') :
    insertUO S (P ++ X ++ Q) hasParent n (moving.map (· + P.length)) anchor = .ok (P ++ X' ++ Q) :=
  insertUO_mid S hasParent P X Q n moving anchor X' hd hX hP hQ hm hc h

/-- **Simulation, diff side, with neighbours** (`NBCtx`: `P`, `Q` inert, pairwise different schema nodes, before / behind `s`). -/
theorem diff_userord_ll_neighbours_sim (S : Schema) (fx : Fixes) (s : Nat) (hs : IsUserOrdLeafList S s) (P Q : List DNode)
    (hN : NBCtx S s P Q) (va vb : List Bytes) (nda : va.Nodup) (ndb : vb.Nodup) (hne : [] ∉ vb) :
    ∃ nodes, diffFull S true (nbForest s P Q va) (nbForest s P Q vb) fx = (nodes, 0) ∧ OpNodes s nodes (UOG.diffU va vb) :=
  diffFull_nb hs.ctx hN fx va vb nda ndb hne

/-- **apply_diff_userord_ll_neighbours.**  `A = P ++ instances va ++ Q`, `B = P ++ instances vb ++ Q` (`nbForest`), values
duplicate-free, no empty value in `vb` (F122), any repaired findings: `lyd_diff_apply_all(A, lyd_diff_siblings(A, B,
LYD_DIFF_DEFAULTS))` succeeds and yields `B` up to `LYD_NEW` / the default flag of non-presence containers (`normL`). -/
theorem apply_diff_userord_ll_neighbours (S : Schema) (fx : Fixes) (s : Nat) (hs : IsUserOrdLeafList S s) (P Q : List DNode)
    (hN : NBCtx S s P Q) (va vb : List Bytes) (nda : va.Nodup) (ndb : vb.Nodup) (hne : [] ∉ vb) :
    ∃ B', apply S (nbForest s P Q va) (diffFromPtr S true (nbForest s P Q va) (nbForest s P Q vb) fx) fx = .ok B' ∧
      normL S B' = normL S (nbForest s P Q vb) :=
  apply_diff_nb hs.ctx hN fx va vb nda ndb hne

/-- **The same, from the decidable hypothesis the check evaluates per generated case** (`nbLL`, driver op `uohyp`). -/
theorem apply_diff_userord_ll_neighbours_dec (S : Schema) (fx : Fixes) (A B : List DNode) (s : Nat) (h : nbLL S A B = some s) :
    ∃ B', apply S A (diffFromPtr S true A B fx) fx = .ok B' ∧ normL S B' = normL S B := by
  obtain ⟨P, Q, va, vb, hs, hN, hA, hB, nda, ndb, hne⟩ := nbLL_spec h
  rw [hA, hB]
  exact apply_diff_userord_ll_neighbours S fx s hs P Q hN va vb nda ndb hne

/-! ## non-vacuity: the schema of the exhaustive leaf-list family, top level -/

/-- `container c { leaf a; leaf-list ul {ordered-by user} ; leaf z }  leaf-list ul { ordered-by user }  leaf t` -/
def exN : Schema :=
  { modName := "uo3", nodes := [
      { depth := 0, kind := .container, name := "c" },
      { depth := 1, kind := .leaf, name := "a" },
      { depth := 1, kind := .leaflist, name := "ul", userord := true },
      { depth := 1, kind := .leaf, name := "z" },
      { depth := 0, kind := .leaflist, name := "ul", userord := true },
      { depth := 0, kind := .leaf, name := "t" } ] }

/-- the implicit default container in front, a leaf behind -/
def exP : List DNode := [.inner 0 { dflt := true } [] []]
def exQ : List DNode := [.term 5 {} [] [116]]

example : nbLL exN (nbForest 4 exP exQ [[49], [50], [51]]) (nbForest 4 exP exQ [[51], [52], [49]]) = some 4 := by decide

example : ∃ B', apply exN (nbForest 4 exP exQ [[49], [50], [51]])
      (diffFromPtr exN true (nbForest 4 exP exQ [[49], [50], [51]]) (nbForest 4 exP exQ [[51], [52], [49]])) = .ok B' ∧
    normL exN B' = normL exN (nbForest 4 exP exQ [[51], [52], [49]]) :=
  apply_diff_userord_ll_neighbours_dec exN {} _ _ 4 (by decide)

-- the diff has the three user-ordered operations only; the neighbours do not appear
example : (diff exN true (nbForest 4 exP exQ [[49], [50], [51]]) (nbForest 4 exP exQ [[51], [52], [49]])) =
    [delNode 4 [49] [50], moveNode 4 [49] [] [51], createNode 4 [51] [52]] := by rfl

end LyModel.Props.C06UO
