import LyModel.Sib.ReachLemmas
/-!
# C04 — a data tree stays in canonical, searchable form under any sequence of edits: property theorems

Model: one sibling list with its children hash table (`LyModel/Sib/Model.lean`, mirroring `lyd_insert_node`,
`lyd_insert_get_next_anchor` (both algorithms), `lyds_insert`, `lyd_unlink`, `lyd_insert_before/after`,
`lyd_insert_hash` / `lyd_unlink_hash`, `lyd_change_node_value`, `lyd_find_sibling_first/val`).

`Inv` (`LyModel/Sib/Inv.lean`): siblings sorted by the total preorder `nle` — module rank, schema index, key of
system-ordered instances, ties (user-ordered instances, opaque nodes, equal keys) in the established order, opaque nodes
last — identities unique, schema references in range, and, whenever the hash table exists, its incrementally maintained
content equals (as a multiset) the from-scratch content: every node under its hash and the first instance of each
(leaf-)list under the schema-only hash.

All statements quantify over every schema `S`, every list, every node and every history.
-/
namespace LyModel.Props.C04
open LyModel LyModel.Sib

/-- the empty sibling list is canonical -/
theorem inv_init (S : Schema) (cx : Cx) (hwf : cx.nested = true → cx.top = false) : Inv S cx ⟨[], none⟩ :=
  inv_empty S cx hwf

/-- `lyd_insert_node(…, LYD_INSERT_NODE_DEFAULT)` — anchor search by either algorithm, sorted insertion of system-ordered
    instances, hash-table update incl. lazy creation at `LYD_HT_MIN_ITEMS` and first-instance hand-over -/
theorem inv_step_insert (S : Schema) (cx : Cx) (s : Sibs) (n : Node) (h : Inv S cx s) (hn : NewOk S cx s n) :
    Inv S cx (insertNode S cx s n) :=
  inv_insertNode S cx s n h hn

/-- `lyd_unlink` — incl. the hand-over of the first-instance record to the next instance -/
theorem inv_step_unlink (S : Schema) (cx : Cx) (s : Sibs) (id : Nat) (h : Inv S cx s) :
    Inv S cx (unlinkNode S cx s id) :=
  inv_unlinkNode S cx s id h

/-- `lyd_insert_before` (user-ordered instance next to an instance of the same schema) -/
theorem inv_step_before (S : Schema) (cx : Cx) (s : Sibs) (t : Nat) (n : Node) (h : Inv S cx s)
    (hok : OpOk S cx s (.before t n)) : Inv S cx (insertBefore S cx s t n) :=
  inv_insertBefore S cx s t n h hok

/-- `lyd_insert_after` -/
theorem inv_step_after (S : Schema) (cx : Cx) (s : Sibs) (t : Nat) (n : Node) (h : Inv S cx s)
    (hok : OpOk S cx s (.after t n)) : Inv S cx (insertAfter S cx s t n) :=
  inv_insertAfter S cx s t n h hok

/-- FULL STATEMENT — every op, `lyd_change_node_value` as the C source has it — is FALSE (finding F19): the node is
    re-inserted, and indexed, under its old hash before `lyd_hash()` recomputes it.  Witness: children
    `sll=1, sll=2, a, b` with a hash table, change `sll=1` to `5`: the table keeps a record under the hash of `sll=1`. -/
theorem inv_step_fails :
    ¬ ∀ (S : Schema) (cx : Cx) (s : Sibs) (o : Op), Inv S cx s → OpOk S cx s o → Inv S cx (step S cx false s o) := by
  intro hall
  have h := hall exS exCx exS0 (.change 1 (.int 5)) exS0_inv trivial
  have hlen := (h.ht _ rfl).length_eq
  revert hlen
  decide

/-- the same witness, stated for the change-value op alone -/
theorem inv_step_changeValue_fails :
    ¬ ∀ (S : Schema) (cx : Cx) (s : Sibs) (id : Nat) (k : Key), Inv S cx s → Inv S cx (changeKeyC S cx s id k).1 := by
  intro hall
  have h := hall exS exCx exS0 1 (.int 5) exS0_inv
  have hlen := (h.ht _ rfl).length_eq
  revert hlen
  decide

/-- … and in that witness `lyd_change_term` even succeeds silently; when the changed node becomes the first instance the
    second `lyd_insert_hash` fails and the call returns `LY_EINT` (`.2 = false`) although the tree was changed -/
theorem changeValue_eint_witness : (changeKeyC exS exCx exS0 2 (.int 0)).2 = false := by decide

/-- the true part: every op except change-value preserves the invariant (whichever change-value is modelled) -/
theorem inv_step_partial (S : Schema) (cx : Cx) (fixed : Bool) (s : Sibs) (o : Op) (h : Inv S cx s)
    (hok : OpOk S cx s o) (hc : isChange o = false) : Inv S cx (step S cx fixed s o) :=
  inv_step_gen S cx fixed s o h hok (Or.inr hc)

/-- with the two calls in the corrected order (`lyd_hash` before the re-insertion, see fixes/F19.diff) change-value
    preserves the invariant: re-sorted position, re-hashed records, no stale record -/
theorem inv_step_changeValue_fixed (S : Schema) (cx : Cx) (s : Sibs) (id : Nat) (k : Key) (h : Inv S cx s) :
    Inv S cx (changeKeyFixed S cx s id k).1 :=
  inv_changeKeyFixed S cx s id k h

/-- every history of edits (corrected change-value) starting in a canonical list ends in a canonical list -/
theorem inv_reachable (S : Schema) (cx : Cx) (ops : List Op) (s : Sibs) (h : Inv S cx s)
    (hok : HistOk S cx true s ops) : Inv S cx (runOps S cx true s ops) :=
  inv_runOps S cx true ops s h hok (Or.inl rfl)

/-- with the change-value of the C source: every history without a change-value op -/
theorem inv_reachable_partial (S : Schema) (cx : Cx) (ops : List Op) (s : Sibs) (h : Inv S cx s)
    (hok : HistOk S cx false s ops) (hc : ∀ o ∈ ops, isChange o = false) : Inv S cx (runOps S cx false s ops) :=
  inv_runOps S cx false ops s h hok (Or.inr hc)

/-- `lyd_find_sibling_first` / `_val`: through the hash table (full hash; for duplicate-instance lists the first-instance
    record and a walk over the instances) or by scan — the same node, or none.  `hu`: at most one sibling compares equal
    to the target (unique keys; automatic for leaves/containers by `Inv.single`); not needed for state leaf-lists and
    key-less lists, where the first equal instance in sibling order is returned. -/
theorem find_iff_scan (S : Schema) (cx : Cx) (s : Sibs) (t : Node) (h : Inv S cx s)
    (hu : ∀ x, t.sch = some x → (S x).dupInst = false →
      ∀ m1 ∈ s.nodes, ∀ m2 ∈ s.nodes, isMatch S t m1 = true → isMatch S t m2 = true → m1 = m2) :
    findFirst S cx s t = findScan S s.nodes t := by
  unfold findFirst
  cases hn : cx.nested with
  | false => rfl
  | true =>
    cases hht : s.ht with
    | none => rfl
    | some recs => exact findHt_eq_scan S cx s recs t h hht hu

/-- `lyd_find_sibling_schema`: the first-instance lookup through the table = the linear search for the first instance -/
theorem find_schema_iff_scan (S : Schema) (cx : Cx) (s : Sibs) (x : SRef) (h : Inv S cx s) :
    findSchema cx s x = s.nodes.findIdx? (fun e => e.sch == some x) :=
  findSchema_spec S cx s x h

/-- the two algorithms of `lyd_insert_get_next_anchor` put the node at the same place -/
theorem anchor_hash_eq_linear (S : Schema) (cx : Cx) (s : Sibs) (recs : List Rec) (n : Node) (h : Inv S cx s)
    (hn : NewOk S cx s n) (hnest : cx.nested = true) (hht : s.ht = some recs) :
    posBySchema s.nodes n (anchorHash cx recs s.nodes n) = posBySchema s.nodes n (anchorLinear cx s.nodes n) := by
  cases hsch : n.sch with
  | none => simp [anchorHash, anchorLinear, hsch]
  | some nx =>
    have hone : cx.top = false → ∀ a ∈ s.nodes, ∀ x, a.sch = some x → x.mod = nx.mod :=
      fun ht a ha x hx => hn.oneMod ht a ha x nx hx hsch
    rw [anchorHash_pos S cx s.nodes recs n nx hsch h.sorted h.single h.nodup (h.ht recs hht) h.range (hn.range nx hsch)
        (hone (h.cxwf hnest)),
      anchorLinear_pos S cx s.nodes n nx hsch h.sorted h.range (hn.range nx hsch) hone]

/-- `lyd_insert_node` links the node behind every leading sibling that is `≤` it — whether or not the hash table exists:
    the result is the stable sorted insertion -/
theorem insert_stable_sorted (S : Schema) (cx : Cx) (s : Sibs) (n : Node) (h : Inv S cx s) (hn : NewOk S cx s n) :
    (insertNode S cx s n).nodes =
      s.nodes.takeWhile (fun e => nle S e n) ++ n :: s.nodes.dropWhile (fun e => nle S e n) :=
  insertNode_nodes S cx s n h hn

/-- Insertion-order independence: inserting the nodes `xs` one by one and inserting `ys` one by one give the same
    sibling list whenever every class of ties (user-ordered instances of one schema, opaque nodes, equal keys) occurs in
    the same relative order in `xs` and `ys` — in particular for any two permutations of nodes with pairwise distinct
    (schema, key) — and independently of the hash-table regime (`cx₁`, `cx₂` may differ in `nested`). -/
theorem insert_perm (S : Schema) (cx₁ cx₂ : Cx) (f₁ f₂ : Bool) (xs ys : List Node)
    (hw₁ : cx₁.nested = true → cx₁.top = false) (hw₂ : cx₂.nested = true → cx₂.top = false)
    (hx : HistOk S cx₁ f₁ ⟨[], none⟩ (xs.map Op.insert)) (hy : HistOk S cx₂ f₂ ⟨[], none⟩ (ys.map Op.insert))
    (hties : ∀ a, xs.filter (fun b => nle S a b && nle S b a) = ys.filter (fun b => nle S a b && nle S b a)) :
    (runOps S cx₁ f₁ ⟨[], none⟩ (xs.map Op.insert)).nodes = (runOps S cx₂ f₂ ⟨[], none⟩ (ys.map Op.insert)).nodes := by
  rw [runOps_inserts_nodes S cx₁ f₁ xs _ (inv_empty S cx₁ hw₁) hx,
    runOps_inserts_nodes S cx₂ f₂ ys _ (inv_empty S cx₂ hw₂) hy]
  exact sinsAll_canonical (fun a b => nle S a b) (nle_total S) (nle_trans S) xs ys hties

/-! ## non-vacuity -/

/-- a non-trivial state satisfies the invariant: two sorted leaf-list instances and two leaves under a parent whose hash
    table exists (5 records: four own records and the first-instance record of `sll`) -/
example : Inv exS exCx exS0 := exS0_inv

example : (htContent exS exNodes).length = 5 := by decide

/-- a new instance that sorts in front of the leader meets the precondition; it lands first and the first-instance record
    moves to it -/
example : NewOk exS exCx exS0 exNew := exNew_ok

example : ((insertNode exS exCx exS0 exNew).nodes.map (·.id)) = [9, 1, 2, 3, 4] := by decide

example : (HKey.sch ⟨0, 0⟩, 9) ∈ ((insertNode exS exCx exS0 exNew).ht.getD []) := by decide

/-- a history meeting its preconditions: unlink the leader, insert a new instance, change a value (corrected) -/
example : HistOk exS exCx true exS0 [.unlink 1, .insert exNew, .change 2 (.int (-4))] :=
  ⟨trivial, by
    refine ⟨⟨?_, ?_, ?_, ?_⟩, trivial, trivial⟩
    · intro m hm
      have : m ∈ [(⟨2, some ⟨0, 0⟩, .int 2⟩ : Node), ⟨3, some ⟨0, 1⟩, .str []⟩, ⟨4, some ⟨0, 2⟩, .str []⟩] := hm
      simp only [List.mem_cons, List.not_mem_nil, or_false] at this
      rcases this with rfl | rfl | rfl <;> decide
    · intro x hx; simp [exNew] at hx; subst hx; decide
    · intro _ a ha x y hx hy
      have : a ∈ [(⟨2, some ⟨0, 0⟩, .int 2⟩ : Node), ⟨3, some ⟨0, 1⟩, .str []⟩, ⟨4, some ⟨0, 2⟩, .str []⟩] := ha
      simp only [List.mem_cons, List.not_mem_nil, or_false] at this
      simp [exNew] at hy; subst hy
      rcases this with rfl | rfl | rfl <;> simp at hx <;> subst hx <;> rfl
    · intro a _ x _ hy
      simp [exNew] at hy; subst hy; rfl⟩

/-- a target with a unique match (hypothesis `hu` of `find_iff_scan`) that is found: `sll=2` -/
example : findFirst exS exCx exS0 ⟨0, some ⟨0, 0⟩, .int 2⟩ = some 2 := by decide

/-- two insertion orders of three nodes with distinct (schema, key) satisfy the tie hypothesis of `insert_perm` -/
example : ∀ a ∈ exNodes, ([exNodes[2], exNodes[0], exNodes[1]] : List Node).filter (fun b => nle exS a b && nle exS b a) =
    ([exNodes[1], exNodes[2], exNodes[0]] : List Node).filter (fun b => nle exS a b && nle exS b a) := by decide

end LyModel.Props.C04
