import LyModel.Sib.ReachLemmas
/-!
# C04 — a data tree stays in canonical, searchable form under any sequence of edits: property theorems

Model: one sibling list with its children hash table (`LyModel/Sib/Model.lean`, mirroring `lyd_insert_node`,
`lyd_insert_get_next_anchor` (both algorithms), `lyds_insert`, `lyd_unlink`, `lyd_insert_before/after`,
`lyd_insert_hash` / `lyd_unlink_hash`, `lyd_change_node_value`, `lyd_find_sibling_first/val`).

`Inv` (`LyModel/Sib/Inv.lean`): siblings sorted by the total preorder `nle` — module rank, schema index, key of
system-ordered instances, ties (user-ordered instances, opaque nodes, equal keys) in the established order, opaque nodes
last — identities unique, schema references in range, and, whenever the hash table exists, its incrementally maintained
content equals (as a multiset) the from-scratch content: every node under its hash and the first instance of each
(leaf-)list under the schema-only hash.

All statements quantify over every schema `S`, every list, every node and every history.
-/
namespace LyModel.Props.C04
open LyModel LyModel.Sib

/-! ## audit support: executable, sound checkers for the hypothesis structures, and two witness histories

`NewOk` / `OpOk` / `HistOk` are `Prop`-valued structures with quantifiers over schema references, so `decide` cannot
discharge them on a concrete instance.  The Boolean versions below are *sufficient* conditions (soundness lemmas
`…_sound`); they are used only by the `non-vacuity (audit)` examples, never by a property theorem. -/

def newOkB (S : Schema) (cx : Cx) (s : Sibs) (n : Node) : Bool :=
  s.nodes.all (fun m => m.id != n.id) &&
  (match n.sch with
   | none => true
   | some y =>
     decide (y.idx < cx.nsch y.mod) &&
     (cx.top || s.nodes.all (fun a => match a.sch with | none => true | some x => x.mod == y.mod)) &&
     s.nodes.all (fun a => a.sch != some y || (S y).listLike))

theorem newOkB_sound {S : Schema} {cx : Cx} {s : Sibs} {n : Node} (h : newOkB S cx s n = true) : NewOk S cx s n := by
  unfold newOkB at h
  rw [Bool.and_eq_true, List.all_eq_true] at h
  obtain ⟨h1, h2⟩ := h
  refine ⟨?_, ?_, ?_, ?_⟩
  · intro m hm; simpa using h1 m hm
  · intro x hx
    rw [hx] at h2
    simp only [Bool.and_eq_true, decide_eq_true_eq] at h2
    exact h2.1.1
  · intro ht a ha x y hx hy
    rw [hy] at h2
    simp only [Bool.and_eq_true, Bool.or_eq_true, List.all_eq_true, ht] at h2
    have := h2.1.2
    simp only [Bool.false_eq_true, false_or] at this
    have := this a ha
    rw [hx] at this
    simpa using this
  · intro a ha x hx hy
    rw [hy] at h2
    simp only [Bool.and_eq_true, List.all_eq_true] at h2
    have := h2.2 a ha
    simpa [hx] using this

def opOkB (S : Schema) (cx : Cx) (s : Sibs) : Op → Bool
  | .insert n => newOkB S cx s n
  | .unlink _ => true
  | .before t n => newOkB S cx s n &&
      (match n.sch with
       | none => false
       | some x => (S x).userOrd && s.nodes.any (fun m => m.id == t && m.sch == some x))
  | .after t n => newOkB S cx s n &&
      (match n.sch with
       | none => false
       | some x => (S x).userOrd && s.nodes.any (fun m => m.id == t && m.sch == some x))
  | .change _ _ => true

theorem opOkB_sound {S : Schema} {cx : Cx} {s : Sibs} {o : Op} (h : opOkB S cx s o = true) : OpOk S cx s o := by
  have aux : ∀ (t : Nat) (n : Node), (newOkB S cx s n &&
      (match n.sch with
       | none => false
       | some x => (S x).userOrd && s.nodes.any (fun m => m.id == t && m.sch == some x))) = true →
      NewOk S cx s n ∧ ∃ x, n.sch = some x ∧ (S x).userOrd = true ∧ ∃ m ∈ s.nodes, m.id = t ∧ m.sch = some x := by
    intro t n h
    rw [Bool.and_eq_true] at h
    refine ⟨newOkB_sound h.1, ?_⟩
    have h2 := h.2
    cases hs : n.sch with
    | none => rw [hs] at h2; cases h2
    | some x =>
      rw [hs] at h2
      simp only [Bool.and_eq_true, List.any_eq_true, beq_iff_eq] at h2
      obtain ⟨hu, m, hm, e1, e2⟩ := h2
      exact ⟨x, rfl, hu, m, hm, e1, e2⟩
  cases o with
  | insert n => exact newOkB_sound h
  | unlink _ => trivial
  | before t n => exact aux t n h
  | after t n => exact aux t n h
  | change _ _ => trivial

def histOkB (S : Schema) (cx : Cx) (fixed : Bool) : Sibs → List Op → Bool
  | _, [] => true
  | s, o :: r => opOkB S cx s o && histOkB S cx fixed (step S cx fixed s o) r

theorem histOkB_sound {S : Schema} {cx : Cx} {fixed : Bool} : ∀ {ops : List Op} {s : Sibs},
    histOkB S cx fixed s ops = true → HistOk S cx fixed s ops
  | [], _, _ => trivial
  | o :: r, s, h => by
    simp only [histOkB, Bool.and_eq_true] at h
    exact ⟨opOkB_sound h.1, histOkB_sound h.2⟩

/-- sufficient, decidable form of hypothesis `hu` of `find_iff_scan` -/
def uniqMatchB (S : Schema) (s : Sibs) (t : Node) : Bool :=
  match t.sch with
  | none => true
  | some x => (S x).dupInst ||
      s.nodes.all (fun m1 => s.nodes.all (fun m2 => !(isMatch S t m1 && isMatch S t m2) || m1 == m2))

theorem uniqMatchB_sound {S : Schema} {s : Sibs} {t : Node} (h : uniqMatchB S s t = true) :
    ∀ x, t.sch = some x → (S x).dupInst = false →
      ∀ m1 ∈ s.nodes, ∀ m2 ∈ s.nodes, isMatch S t m1 = true → isMatch S t m2 = true → m1 = m2 := by
  intro x hx hd m1 h1 m2 h2 e1 e2
  unfold uniqMatchB at h
  rw [hx] at h
  simp only [hd, Bool.false_or, List.all_eq_true] at h
  have := h m1 h1 m2 h2
  simpa [e1, e2] using this

/-- the tie hypothesis of `insert_perm` quantifies over *all* nodes `a`; it is enough (and decidable) to check it for the
    nodes that occur in `xs ++ ys`: a node tied with none of them filters both lists to `[]`, a node tied with some `c` of
    them filters like `c` does (`nle` is a total preorder). -/
theorem ties_of_mem (S : Schema) (xs ys : List Node)
    (h : ∀ a ∈ xs ++ ys, xs.filter (fun b => nle S a b && nle S b a) = ys.filter (fun b => nle S a b && nle S b a)) :
    ∀ a, xs.filter (fun b => nle S a b && nle S b a) = ys.filter (fun b => nle S a b && nle S b a) := by
  intro a
  by_cases hex : ∃ c ∈ xs ++ ys, (nle S a c && nle S c a) = true
  · obtain ⟨c, hc, hac⟩ := hex
    rw [Bool.and_eq_true] at hac
    have hf : (fun b => nle S a b && nle S b a) = (fun b => nle S c b && nle S b c) := by
      funext b
      cases hb : (nle S c b && nle S b c)
      · cases hb' : (nle S a b && nle S b a)
        · rfl
        · rw [Bool.and_eq_true] at hb'
          have : (nle S c b && nle S b c) = true := by
            rw [Bool.and_eq_true]
            exact ⟨nle_trans S _ _ _ hac.2 hb'.1, nle_trans S _ _ _ hb'.2 hac.1⟩
          rw [hb] at this; cases this
      · rw [Bool.and_eq_true] at hb ⊢
        exact ⟨nle_trans S _ _ _ hac.1 hb.1, nle_trans S _ _ _ hb.2 hac.2⟩
    rw [hf]
    exact h c hc
  · have hn : ∀ l : List Node, (∀ b ∈ l, b ∈ xs ++ ys) → l.filter (fun b => nle S a b && nle S b a) = [] := by
      intro l hl
      rw [List.filter_eq_nil_iff]
      intro b hb hp
      exact hex ⟨b, hl b hb, hp⟩
    rw [hn xs (fun b hb => List.mem_append_left _ hb), hn ys (fun b hb => List.mem_append_right _ hb)]

/-- audit witness schema: keyed system-ordered list, system-ordered leaf-list, leaf, user-ordered list, state leaf-list
    (duplicates allowed), container -/
def auS : Schema := fun r =>
  match r.idx with
  | 0 => .list .sys
  | 1 => .leaflist .sys
  | 2 => .leaf
  | 3 => .list .user
  | 4 => .leaflist .dup
  | _ => .cont

/-- children of an inner node (hash table possible), seven schema siblings -/
def auCx : Cx := { nested := true, top := false, nsch := fun _ => 7 }

/-- a history over `auS` starting from no children: user-ordered list instances `b`, `a`, `z` (established order, not key
    order), keyed list instances `"m"`, `"c"` (the 4th schema child creates the hash table; `"c"` takes over the
    first-instance record), an opaque node, leaf-list values 5, -3, two equal state-leaf-list values, `insert_before` /
    `insert_after`, unlink of the keyed list's leader, change of a leaf-list value that re-sorts it, a container -/
def auOps : List Op :=
  [.insert ⟨1, some ⟨0, 3⟩, .str [98]⟩, .insert ⟨2, some ⟨0, 0⟩, .str [109]⟩, .insert ⟨3, some ⟨0, 2⟩, .str []⟩,
   .insert ⟨4, some ⟨0, 0⟩, .str [99]⟩, .insert ⟨5, some ⟨0, 3⟩, .str [97]⟩, .insert ⟨6, none, .str []⟩,
   .insert ⟨7, some ⟨0, 1⟩, .int 5⟩, .insert ⟨8, some ⟨0, 1⟩, .int (-3)⟩, .before 1 ⟨9, some ⟨0, 3⟩, .str [122]⟩,
   .insert ⟨10, some ⟨0, 4⟩, .int 1⟩, .after 10 ⟨11, some ⟨0, 4⟩, .int 1⟩, .unlink 4, .change 8 (.int 9),
   .insert ⟨12, some ⟨0, 5⟩, .str []⟩]

/-- the state `auOps` leads to (with the corrected change-value) -/
def auS1 : Sibs := runOps auS auCx true ⟨[], none⟩ auOps

/-- top-level sibling list (no hash table; data of three modules) -/
def auTop : Cx := { nested := false, top := true, nsch := fun _ => 7 }

def auTopOps : List Op :=
  [.insert ⟨1, some ⟨1, 0⟩, .str [120]⟩, .insert ⟨2, some ⟨2, 2⟩, .str []⟩, .insert ⟨3, some ⟨0, 1⟩, .int 4⟩,
   .insert ⟨4, some ⟨1, 0⟩, .str [97]⟩, .insert ⟨5, none, .str []⟩, .insert ⟨6, some ⟨0, 1⟩, .int 2⟩,
   .insert ⟨7, some ⟨1, 3⟩, .str [113]⟩, .unlink 3, .insert ⟨8, some ⟨0, 5⟩, .str []⟩]

theorem auOps_ok : HistOk auS auCx true ⟨[], none⟩ auOps := histOkB_sound (by decide)

theorem auS1_inv : Inv auS auCx auS1 :=
  inv_runOps auS auCx true auOps _ (inv_empty auS auCx (fun _ => rfl)) auOps_ok (Or.inl rfl)

/-- the state after the first three inserts of `auOps`: three schema children, no hash table yet -/
def auS0 : Sibs := runOps auS auCx true ⟨[], none⟩ (auOps.take 3)

theorem auS0_inv : Inv auS auCx auS0 :=
  inv_runOps auS auCx true (auOps.take 3) _ (inv_empty auS auCx (fun _ => rfl)) (histOkB_sound (by decide)) (Or.inl rfl)

/-- what the witness states look like: sibling order (identities) and number of hash records -/
example : auS0.nodes.map (·.id) = [2, 3, 1] ∧ auS0.ht = none := by decide
example : auS1.nodes.map (·.id) = [2, 7, 8, 3, 9, 1, 5, 10, 11, 12, 6] ∧ auS1.ht.map List.length = some 14 := by decide

/-- the empty sibling list is canonical -/
theorem inv_init (S : Schema) (cx : Cx) (hwf : cx.nested = true → cx.top = false) : Inv S cx ⟨[], none⟩ :=
  inv_empty S cx hwf

/-- non-vacuity (audit): `hwf` is met by both kinds of sibling list — children of an inner node and a top-level list -/
example : Inv auS auCx ⟨[], none⟩ ∧ Inv auS auTop ⟨[], none⟩ :=
  ⟨inv_init _ _ (by decide), inv_init _ _ (by decide)⟩

/-- `lyd_insert_node(…, LYD_INSERT_NODE_DEFAULT)` — anchor search by either algorithm, sorted insertion of system-ordered
    instances, hash-table update incl. lazy creation at `LYD_HT_MIN_ITEMS` and first-instance hand-over -/
theorem inv_step_insert (S : Schema) (cx : Cx) (s : Sibs) (n : Node) (h : Inv S cx s) (hn : NewOk S cx s n) :
    Inv S cx (insertNode S cx s n) :=
  inv_insertNode S cx s n h hn

/-- non-vacuity (audit): the 4th schema child (keyed-list instance `"c"` in front of the leader `"m"`) creates the hash
    table lazily: 4 own records + first-instance records of the keyed list (now `"c"`, id 4) and of the user-ordered list -/
example : Inv auS auCx (insertNode auS auCx auS0 ⟨4, some ⟨0, 0⟩, .str [99]⟩) ∧
    (insertNode auS auCx auS0 ⟨4, some ⟨0, 0⟩, .str [99]⟩).nodes.map (·.id) = [4, 2, 3, 1] ∧
    ((insertNode auS auCx auS0 ⟨4, some ⟨0, 0⟩, .str [99]⟩).ht.map List.length) = some 6 ∧
    (HKey.sch ⟨0, 0⟩, 4) ∈ ((insertNode auS auCx auS0 ⟨4, some ⟨0, 0⟩, .str [99]⟩).ht.getD []) :=
  ⟨inv_step_insert _ _ _ _ auS0_inv (newOkB_sound (by decide)), by decide, by decide, by decide⟩

/-- non-vacuity (audit): into the 11-node state `auS1` (hash table exists; keyed list, leaf-lists, user-ordered list,
    state leaf-list, container, opaque node): a user-ordered list instance with the smallest key still goes behind the
    existing instances `z, b, a`; an opaque node goes last; a state-leaf-list duplicate goes behind its equals -/
example : Inv auS auCx (insertNode auS auCx auS1 ⟨20, some ⟨0, 3⟩, .str [65]⟩) ∧
    (insertNode auS auCx auS1 ⟨20, some ⟨0, 3⟩, .str [65]⟩).nodes.map (·.id) = [2, 7, 8, 3, 9, 1, 5, 20, 10, 11, 12, 6] :=
  ⟨inv_step_insert _ _ _ _ auS1_inv (newOkB_sound (by decide)), by decide⟩

example : Inv auS auCx (insertNode auS auCx auS1 ⟨20, none, .str [65]⟩) ∧
    (insertNode auS auCx auS1 ⟨20, none, .str [65]⟩).nodes.map (·.id) = [2, 7, 8, 3, 9, 1, 5, 10, 11, 12, 6, 20] :=
  ⟨inv_step_insert _ _ _ _ auS1_inv (newOkB_sound (by decide)), by decide⟩

example : Inv auS auCx (insertNode auS auCx auS1 ⟨20, some ⟨0, 4⟩, .int 1⟩) ∧
    (insertNode auS auCx auS1 ⟨20, some ⟨0, 4⟩, .int 1⟩).nodes.map (·.id) = [2, 7, 8, 3, 9, 1, 5, 10, 11, 20, 12, 6] :=
  ⟨inv_step_insert _ _ _ _ auS1_inv (newOkB_sound (by decide)), by decide⟩

/-- non-vacuity (audit): `NewOk` does reject something — a second instance of the leaf (id 3) is not insertable -/
example : ¬ NewOk auS auCx auS1 ⟨20, some ⟨0, 2⟩, .str []⟩ := by
  intro h
  have := h.single ⟨3, some ⟨0, 2⟩, .str []⟩ (by decide) ⟨0, 2⟩ rfl rfl
  revert this; decide

/-- `lyd_unlink` — incl. the hand-over of the first-instance record to the next instance -/
theorem inv_step_unlink (S : Schema) (cx : Cx) (s : Sibs) (id : Nat) (h : Inv S cx s) :
    Inv S cx (unlinkNode S cx s id) :=
  inv_unlinkNode S cx s id h

/-- non-vacuity (audit): unlinking the leader (value 5, id 7) of the leaf-list in `auS1` hands the first-instance record
    over to the next instance (id 8); unlinking the only keyed-list instance (id 2) drops its first-instance record -/
example : Inv auS auCx (unlinkNode auS auCx auS1 7) ∧
    (unlinkNode auS auCx auS1 7).nodes.map (·.id) = [2, 8, 3, 9, 1, 5, 10, 11, 12, 6] ∧
    (HKey.sch ⟨0, 1⟩, 8) ∈ ((unlinkNode auS auCx auS1 7).ht.getD []) ∧
    (HKey.sch ⟨0, 1⟩, 7) ∉ ((unlinkNode auS auCx auS1 7).ht.getD []) :=
  ⟨inv_step_unlink _ _ _ _ auS1_inv, by decide, by decide, by decide⟩

example : Inv auS auCx (unlinkNode auS auCx auS1 2) ∧
    ((unlinkNode auS auCx auS1 2).ht.map List.length) = some 12 :=
  ⟨inv_step_unlink _ _ _ _ auS1_inv, by decide⟩

/-- `lyd_insert_before` (user-ordered instance next to an instance of the same schema) -/
theorem inv_step_before (S : Schema) (cx : Cx) (s : Sibs) (t : Nat) (n : Node) (h : Inv S cx s)
    (hok : OpOk S cx s (.before t n)) : Inv S cx (insertBefore S cx s t n) :=
  inv_insertBefore S cx s t n h hok

/-- non-vacuity (audit): `OpOk … (.before …)` is met in `auS1` — a user-ordered list instance in front of the first one
    (id 9, so the first-instance record moves to the new node) and a state-leaf-list instance in front of the second equal one -/
example : Inv auS auCx (insertBefore auS auCx auS1 9 ⟨20, some ⟨0, 3⟩, .str [120]⟩) ∧
    (insertBefore auS auCx auS1 9 ⟨20, some ⟨0, 3⟩, .str [120]⟩).nodes.map (·.id) = [2, 7, 8, 3, 20, 9, 1, 5, 10, 11, 12, 6] ∧
    (HKey.sch ⟨0, 3⟩, 20) ∈ ((insertBefore auS auCx auS1 9 ⟨20, some ⟨0, 3⟩, .str [120]⟩).ht.getD []) :=
  ⟨inv_step_before _ _ _ _ _ auS1_inv (opOkB_sound (o := .before _ _) (by decide)), by decide, by decide⟩

example : Inv auS auCx (insertBefore auS auCx auS1 11 ⟨20, some ⟨0, 4⟩, .int 1⟩) ∧
    (insertBefore auS auCx auS1 11 ⟨20, some ⟨0, 4⟩, .int 1⟩).nodes.map (·.id) = [2, 7, 8, 3, 9, 1, 5, 10, 20, 11, 12, 6] :=
  ⟨inv_step_before _ _ _ _ _ auS1_inv (opOkB_sound (o := .before _ _) (by decide)), by decide⟩

/-- `lyd_insert_after` -/
theorem inv_step_after (S : Schema) (cx : Cx) (s : Sibs) (t : Nat) (n : Node) (h : Inv S cx s)
    (hok : OpOk S cx s (.after t n)) : Inv S cx (insertAfter S cx s t n) :=
  inv_insertAfter S cx s t n h hok

/-- non-vacuity (audit): `OpOk … (.after …)` is met in `auS1` — behind the last user-ordered list instance (id 5) -/
example : Inv auS auCx (insertAfter auS auCx auS1 5 ⟨20, some ⟨0, 3⟩, .str [120]⟩) ∧
    (insertAfter auS auCx auS1 5 ⟨20, some ⟨0, 3⟩, .str [120]⟩).nodes.map (·.id) = [2, 7, 8, 3, 9, 1, 5, 20, 10, 11, 12, 6] :=
  ⟨inv_step_after _ _ _ _ _ auS1_inv (opOkB_sound (o := .after _ _) (by decide)), by decide⟩

/-- non-vacuity (audit): `OpOk` does reject — `insert_before` of a system-ordered leaf-list instance is not admitted -/
example : ¬ OpOk auS auCx auS1 (.before 7 ⟨20, some ⟨0, 1⟩, .int 0⟩) := by
  rintro ⟨_, x, hx, hu, _⟩
  cases hx
  revert hu; decide

/-- FULL STATEMENT — every op, `lyd_change_node_value` as the C source has it — is FALSE (finding F19): the node is
    re-inserted, and indexed, under its old hash before `lyd_hash()` recomputes it.  Witness: children
    `sll=1, sll=2, a, b` with a hash table, change `sll=1` to `5`: the table keeps a record under the hash of `sll=1`. -/
theorem inv_step_fails :
    ¬ ∀ (S : Schema) (cx : Cx) (s : Sibs) (o : Op), Inv S cx s → OpOk S cx s o → Inv S cx (step S cx false s o) := by
  intro hall
  have h := hall exS exCx exS0 (.change 1 (.int 5)) exS0_inv trivial
  have hlen := (h.ht _ rfl).length_eq
  revert hlen
  decide

/-- the same witness, stated for the change-value op alone -/
theorem inv_step_changeValue_fails :
    ¬ ∀ (S : Schema) (cx : Cx) (s : Sibs) (id : Nat) (k : Key), Inv S cx s → Inv S cx (changeKeyC S cx s id k).1 := by
  intro hall
  have h := hall exS exCx exS0 1 (.int 5) exS0_inv
  have hlen := (h.ht _ rfl).length_eq
  revert hlen
  decide

/-- … and in that witness `lyd_change_term` even succeeds silently; when the changed node becomes the first instance the
    second `lyd_insert_hash` fails and the call returns `LY_EINT` (`.2 = false`) although the tree was changed -/
theorem changeValue_eint_witness : (changeKeyC exS exCx exS0 2 (.int 0)).2 = false := by decide

/-- the true part: every op except change-value preserves the invariant (whichever change-value is modelled) -/
theorem inv_step_partial (S : Schema) (cx : Cx) (fixed : Bool) (s : Sibs) (o : Op) (h : Inv S cx s)
    (hok : OpOk S cx s o) (hc : isChange o = false) : Inv S cx (step S cx fixed s o) :=
  inv_step_gen S cx fixed s o h hok (Or.inr hc)

/-- non-vacuity (audit): a non-change op with the C source's change-value selected (`fixed = false`), in `auS1` -/
example : Inv auS auCx (step auS auCx false auS1 (.after 10 ⟨20, some ⟨0, 4⟩, .int 7⟩)) :=
  inv_step_partial _ _ false _ _ auS1_inv (opOkB_sound (o := .after _ _) (by decide)) rfl

/-- with the two calls in the corrected order (`lyd_hash` before the re-insertion, see fixes/F19.diff) change-value
    preserves the invariant: re-sorted position, re-hashed records, no stale record -/
theorem inv_step_changeValue_fixed (S : Schema) (cx : Cx) (s : Sibs) (id : Nat) (k : Key) (h : Inv S cx s) :
    Inv S cx (changeKeyFixed S cx s id k).1 :=
  inv_changeKeyFixed S cx s id k h

/-- non-vacuity (audit): in `auS1` changing leaf-list value 5 (id 7, the leader) to 100 moves it behind 9 (id 8) and hands
    the first-instance record over; changing the key of the lone keyed-list instance (id 2) re-hashes it in place -/
example : Inv auS auCx (changeKeyFixed auS auCx auS1 7 (.int 100)).1 ∧
    (changeKeyFixed auS auCx auS1 7 (.int 100)).1.nodes.map (·.id) = [2, 8, 7, 3, 9, 1, 5, 10, 11, 12, 6] ∧
    (HKey.sch ⟨0, 1⟩, 8) ∈ ((changeKeyFixed auS auCx auS1 7 (.int 100)).1.ht.getD []) ∧
    (HKey.inst ⟨0, 1⟩ (.int 100), 7) ∈ ((changeKeyFixed auS auCx auS1 7 (.int 100)).1.ht.getD []) ∧
    (HKey.inst ⟨0, 1⟩ (.int 5), 7) ∉ ((changeKeyFixed auS auCx auS1 7 (.int 100)).1.ht.getD []) :=
  ⟨inv_step_changeValue_fixed _ _ _ _ _ auS1_inv, by decide, by decide, by decide, by decide⟩

example : Inv auS auCx (changeKeyFixed auS auCx auS1 2 (.str [113])).1 ∧
    (HKey.inst ⟨0, 0⟩ (.str [113]), 2) ∈ ((changeKeyFixed auS auCx auS1 2 (.str [113])).1.ht.getD []) :=
  ⟨inv_step_changeValue_fixed _ _ _ _ _ auS1_inv, by decide⟩

/-- every history of edits (corrected change-value) starting in a canonical list ends in a canonical list -/
theorem inv_reachable (S : Schema) (cx : Cx) (ops : List Op) (s : Sibs) (h : Inv S cx s)
    (hok : HistOk S cx true s ops) : Inv S cx (runOps S cx true s ops) :=
  inv_runOps S cx true ops s h hok (Or.inl rfl)

/-- non-vacuity (audit): the 14-op history `auOps` from the empty list — keyed list, two leaf-lists (system-ordered and
    state), user-ordered list, leaf, container, opaque node; lazy creation of the hash table, `insert_before/after`,
    unlink of a leader, re-sorting change-value — meets `HistOk` and ends in the 11-node state `auS1` -/
example : Inv auS auCx (runOps auS auCx true ⟨[], none⟩ auOps) :=
  inv_reachable _ _ _ _ (inv_init _ _ (by decide)) auOps_ok

/-- with the change-value of the C source: every history without a change-value op -/
theorem inv_reachable_partial (S : Schema) (cx : Cx) (ops : List Op) (s : Sibs) (h : Inv S cx s)
    (hok : HistOk S cx false s ops) (hc : ∀ o ∈ ops, isChange o = false) : Inv S cx (runOps S cx false s ops) :=
  inv_runOps S cx false ops s h hok (Or.inr hc)

/-- non-vacuity (audit): `auOps` without its change-value op, under the change-value of the C source -/
example : Inv auS auCx (runOps auS auCx false ⟨[], none⟩ (auOps.eraseIdx 12)) :=
  inv_reachable_partial _ _ _ _ (inv_init _ _ (by decide)) (histOkB_sound (by decide)) (by decide)

/-- non-vacuity (audit): a top-level sibling list (no hash table, `Inv.oneMod` not applicable): data of three modules
    inserted out of module order, a keyed list sorted inside module 1, an opaque node, an unlink -/
example : Inv auS auTop (runOps auS auTop false ⟨[], none⟩ auTopOps) ∧
    (runOps auS auTop false ⟨[], none⟩ auTopOps).nodes.map (·.id) = [6, 8, 4, 1, 7, 2, 5] :=
  ⟨inv_reachable_partial _ _ _ _ (inv_init _ _ (by decide)) (histOkB_sound (by decide)) (by decide), by decide⟩

/-- `lyd_find_sibling_first` / `_val`: through the hash table (full hash; for duplicate-instance lists the first-instance
    record and a walk over the instances) or by scan — the same node, or none.  `hu`: at most one sibling compares equal
    to the target (unique keys; automatic for leaves/containers by `Inv.single`); not needed for state leaf-lists and
    key-less lists, where the first equal instance in sibling order is returned. -/
theorem find_iff_scan (S : Schema) (cx : Cx) (s : Sibs) (t : Node) (h : Inv S cx s)
    (hu : ∀ x, t.sch = some x → (S x).dupInst = false →
      ∀ m1 ∈ s.nodes, ∀ m2 ∈ s.nodes, isMatch S t m1 = true → isMatch S t m2 = true → m1 = m2) :
    findFirst S cx s t = findScan S s.nodes t := by
  unfold findFirst
  cases hn : cx.nested with
  | false => rfl
  | true =>
    cases hht : s.ht with
    | none => rfl
    | some recs => exact findHt_eq_scan S cx s recs t h hht hu

/-- non-vacuity (audit): in `auS1` (hash table with 14 records) hypothesis `hu` holds and both searches return the same
    node for: the keyed-list instance `"m"`, the leaf-list value 9, the user-ordered list instance `"a"`, the leaf; the
    same `none` for an absent key; and, with `hu` void (state leaf-list), the FIRST of the two equal values 1 -/
example : findFirst auS auCx auS1 ⟨0, some ⟨0, 0⟩, .str [109]⟩ = findScan auS auS1.nodes ⟨0, some ⟨0, 0⟩, .str [109]⟩ ∧
    findFirst auS auCx auS1 ⟨0, some ⟨0, 0⟩, .str [109]⟩ = some 2 :=
  ⟨find_iff_scan _ _ _ _ auS1_inv (uniqMatchB_sound (by decide)), by decide⟩

example : findFirst auS auCx auS1 ⟨0, some ⟨0, 1⟩, .int 9⟩ = findScan auS auS1.nodes ⟨0, some ⟨0, 1⟩, .int 9⟩ ∧
    findFirst auS auCx auS1 ⟨0, some ⟨0, 1⟩, .int 9⟩ = some 8 :=
  ⟨find_iff_scan _ _ _ _ auS1_inv (uniqMatchB_sound (by decide)), by decide⟩

example : findFirst auS auCx auS1 ⟨0, some ⟨0, 3⟩, .str [97]⟩ = findScan auS auS1.nodes ⟨0, some ⟨0, 3⟩, .str [97]⟩ ∧
    findFirst auS auCx auS1 ⟨0, some ⟨0, 3⟩, .str [97]⟩ = some 5 :=
  ⟨find_iff_scan _ _ _ _ auS1_inv (uniqMatchB_sound (by decide)), by decide⟩

example : findFirst auS auCx auS1 ⟨0, some ⟨0, 2⟩, .int 77⟩ = findScan auS auS1.nodes ⟨0, some ⟨0, 2⟩, .int 77⟩ ∧
    findFirst auS auCx auS1 ⟨0, some ⟨0, 2⟩, .int 77⟩ = some 3 :=
  ⟨find_iff_scan _ _ _ _ auS1_inv (uniqMatchB_sound (by decide)), by decide⟩

example : findFirst auS auCx auS1 ⟨0, some ⟨0, 1⟩, .int 6⟩ = findScan auS auS1.nodes ⟨0, some ⟨0, 1⟩, .int 6⟩ ∧
    findScan auS auS1.nodes ⟨0, some ⟨0, 1⟩, .int 6⟩ = none :=
  ⟨find_iff_scan _ _ _ _ auS1_inv (uniqMatchB_sound (by decide)), by decide⟩

example : findFirst auS auCx auS1 ⟨0, some ⟨0, 4⟩, .int 1⟩ = findScan auS auS1.nodes ⟨0, some ⟨0, 4⟩, .int 1⟩ ∧
    findFirst auS auCx auS1 ⟨0, some ⟨0, 4⟩, .int 1⟩ = some 10 :=
  ⟨find_iff_scan _ _ _ _ auS1_inv (uniqMatchB_sound (by decide)), by decide⟩

/-- non-vacuity (audit): `hu` is a real restriction — `Inv` admits two equal values of a system-ordered leaf-list (config
    duplicates in a not yet validated tree), and then `hu` fails for that value -/
example : ¬ uniqMatchB auS (insertNode auS auCx auS1 ⟨20, some ⟨0, 1⟩, .int 9⟩) ⟨0, some ⟨0, 1⟩, .int 9⟩ = true := by decide

/-- `lyd_find_sibling_schema`: the first-instance lookup through the table = the linear search for the first instance -/
theorem find_schema_iff_scan (S : Schema) (cx : Cx) (s : Sibs) (x : SRef) (h : Inv S cx s) :
    findSchema cx s x = s.nodes.findIdx? (fun e => e.sch == some x) :=
  findSchema_spec S cx s x h

/-- non-vacuity (audit): in `auS1` through the table — the user-ordered list's first instance is at index 4, the state
    leaf-list's at 7; a schema node without instance gives `none` on both sides -/
example : findSchema auCx auS1 ⟨0, 3⟩ = auS1.nodes.findIdx? (fun e => e.sch == some ⟨0, 3⟩) ∧
    findSchema auCx auS1 ⟨0, 3⟩ = some 4 ∧ findSchema auCx auS1 ⟨0, 4⟩ = some 7 ∧ findSchema auCx auS1 ⟨0, 6⟩ = none :=
  ⟨find_schema_iff_scan auS _ _ _ auS1_inv, by decide, by decide, by decide⟩

/-- the two algorithms of `lyd_insert_get_next_anchor` put the node at the same place -/
theorem anchor_hash_eq_linear (S : Schema) (cx : Cx) (s : Sibs) (recs : List Rec) (n : Node) (h : Inv S cx s)
    (hn : NewOk S cx s n) (hnest : cx.nested = true) (hht : s.ht = some recs) :
    posBySchema s.nodes n (anchorHash cx recs s.nodes n) = posBySchema s.nodes n (anchorLinear cx s.nodes n) := by
  cases hsch : n.sch with
  | none => simp [anchorHash, anchorLinear, hsch]
  | some nx =>
    have hone : cx.top = false → ∀ a ∈ s.nodes, ∀ x, a.sch = some x → x.mod = nx.mod :=
      fun ht a ha x hx => hn.oneMod ht a ha x nx hx hsch
    rw [anchorHash_pos S cx s.nodes recs n nx hsch h.sorted h.single h.nodup (h.ht recs hht) h.range (hn.range nx hsch)
        (hone (h.cxwf hnest)),
      anchorLinear_pos S cx s.nodes n nx hsch h.sorted h.range (hn.range nx hsch) hone]

/-- non-vacuity (audit): `auS1` with its leaf (id 3) unlinked, a new leaf instance: both algorithms find the anchor at
    index 3 (the first user-ordered list instance, id 9) — the hash variant by first-instance lookups of the following
    schema nodes, the linear one by the lock-step walk -/
example : posBySchema (unlinkNode auS auCx auS1 3).nodes ⟨20, some ⟨0, 2⟩, .str []⟩
      (anchorHash auCx ((unlinkNode auS auCx auS1 3).ht.getD []) (unlinkNode auS auCx auS1 3).nodes ⟨20, some ⟨0, 2⟩, .str []⟩) =
    posBySchema (unlinkNode auS auCx auS1 3).nodes ⟨20, some ⟨0, 2⟩, .str []⟩
      (anchorLinear auCx (unlinkNode auS auCx auS1 3).nodes ⟨20, some ⟨0, 2⟩, .str []⟩) ∧
    anchorHash auCx ((unlinkNode auS auCx auS1 3).ht.getD []) (unlinkNode auS auCx auS1 3).nodes ⟨20, some ⟨0, 2⟩, .str []⟩ = some 3 ∧
    anchorLinear auCx (unlinkNode auS auCx auS1 3).nodes ⟨20, some ⟨0, 2⟩, .str []⟩ = some 3 :=
  ⟨anchor_hash_eq_linear auS auCx _ _ _ (inv_step_unlink _ _ _ _ auS1_inv) (newOkB_sound (by decide)) rfl (by decide),
   by decide, by decide⟩

/-- non-vacuity (audit): no following instance at all (new container sibling behind everything but the opaque node):
    both algorithms return no anchor and the node goes in front of the opaque tail -/
example : posBySchema auS1.nodes ⟨20, some ⟨0, 6⟩, .str []⟩ (anchorHash auCx (auS1.ht.getD []) auS1.nodes ⟨20, some ⟨0, 6⟩, .str []⟩) =
    posBySchema auS1.nodes ⟨20, some ⟨0, 6⟩, .str []⟩ (anchorLinear auCx auS1.nodes ⟨20, some ⟨0, 6⟩, .str []⟩) ∧
    posBySchema auS1.nodes ⟨20, some ⟨0, 6⟩, .str []⟩ (anchorLinear auCx auS1.nodes ⟨20, some ⟨0, 6⟩, .str []⟩) = 10 :=
  ⟨anchor_hash_eq_linear auS auCx _ _ _ auS1_inv (newOkB_sound (by decide)) rfl (by decide), by decide⟩

/-- `lyd_insert_node` links the node behind every leading sibling that is `≤` it — whether or not the hash table exists:
    the result is the stable sorted insertion -/
theorem insert_stable_sorted (S : Schema) (cx : Cx) (s : Sibs) (n : Node) (h : Inv S cx s) (hn : NewOk S cx s n) :
    (insertNode S cx s n).nodes =
      s.nodes.takeWhile (fun e => nle S e n) ++ n :: s.nodes.dropWhile (fun e => nle S e n) :=
  insertNode_nodes S cx s n h hn

/-- non-vacuity (audit): leaf-list value 7 into `auS1` lands between 5 (id 7) and 9 (id 8) -/
example : (insertNode auS auCx auS1 ⟨20, some ⟨0, 1⟩, .int 7⟩).nodes =
      auS1.nodes.takeWhile (fun e => nle auS e ⟨20, some ⟨0, 1⟩, .int 7⟩) ++
        ⟨20, some ⟨0, 1⟩, .int 7⟩ :: auS1.nodes.dropWhile (fun e => nle auS e ⟨20, some ⟨0, 1⟩, .int 7⟩) ∧
    (insertNode auS auCx auS1 ⟨20, some ⟨0, 1⟩, .int 7⟩).nodes.map (·.id) = [2, 7, 20, 8, 3, 9, 1, 5, 10, 11, 12, 6] :=
  ⟨insert_stable_sorted _ _ _ _ auS1_inv (newOkB_sound (by decide)), by decide⟩

/-- Insertion-order independence: inserting the nodes `xs` one by one and inserting `ys` one by one give the same
    sibling list whenever every class of ties (user-ordered instances of one schema, opaque nodes, equal keys) occurs in
    the same relative order in `xs` and `ys` (`hties`: for every node `a`, the sublist of the nodes tied with `a` is the same
    list in `xs` and in `ys`), independently of the hash-table regime (`cx₁`, `cx₂` may differ in `nested`) and of the
    change-value variant.  Distinct (schema, key) alone does NOT give `hties`: instances of one user-ordered (leaf-)list are
    ties whatever their keys are, and exchanging them changes the result (`insert_perm_distinct_keys_insufficient_for_userord`,
    the intended behaviour of ordered-by user).  The corollary for two permutations of nodes no two of which are ties —
    pairwise distinct (schema, key), at most one instance per user-ordered list, at most one opaque node — is
    `insert_perm_of_perm`. -/
theorem insert_perm (S : Schema) (cx₁ cx₂ : Cx) (f₁ f₂ : Bool) (xs ys : List Node)
    (hw₁ : cx₁.nested = true → cx₁.top = false) (hw₂ : cx₂.nested = true → cx₂.top = false)
    (hx : HistOk S cx₁ f₁ ⟨[], none⟩ (xs.map Op.insert)) (hy : HistOk S cx₂ f₂ ⟨[], none⟩ (ys.map Op.insert))
    (hties : ∀ a, xs.filter (fun b => nle S a b && nle S b a) = ys.filter (fun b => nle S a b && nle S b a)) :
    (runOps S cx₁ f₁ ⟨[], none⟩ (xs.map Op.insert)).nodes = (runOps S cx₂ f₂ ⟨[], none⟩ (ys.map Op.insert)).nodes := by
  rw [runOps_inserts_nodes S cx₁ f₁ xs _ (inv_empty S cx₁ hw₁) hx,
    runOps_inserts_nodes S cx₂ f₂ ys _ (inv_empty S cx₂ hw₂) hy]
  exact sinsAll_canonical (fun a b => nle S a b) (nle_total S) (nle_trans S) xs ys hties

/-- eight nodes over `auS` — two keyed-list instances, two leaf-list values, a leaf, two user-ordered list instances
    (ids 1 then 5), an opaque node — and a second insertion order that keeps id 1 in front of id 5 -/
def auXs : List Node :=
  [⟨1, some ⟨0, 3⟩, .str [98]⟩, ⟨2, some ⟨0, 0⟩, .str [109]⟩, ⟨3, some ⟨0, 1⟩, .int 5⟩, ⟨4, some ⟨0, 0⟩, .str [99]⟩,
   ⟨5, some ⟨0, 3⟩, .str [97]⟩, ⟨6, none, .str []⟩, ⟨7, some ⟨0, 1⟩, .int (-3)⟩, ⟨8, some ⟨0, 2⟩, .str []⟩]

def auYs : List Node :=
  [⟨8, some ⟨0, 2⟩, .str []⟩, ⟨7, some ⟨0, 1⟩, .int (-3)⟩, ⟨6, none, .str []⟩, ⟨1, some ⟨0, 3⟩, .str [98]⟩,
   ⟨4, some ⟨0, 0⟩, .str [99]⟩, ⟨3, some ⟨0, 1⟩, .int 5⟩, ⟨5, some ⟨0, 3⟩, .str [97]⟩, ⟨2, some ⟨0, 0⟩, .str [109]⟩]

/-- non-vacuity (audit): all hypotheses of `insert_perm` — including `hties` for EVERY node `a` (`ties_of_mem`) — hold for
    `auXs` inserted below an inner node with the hash-table algorithm and `auYs` inserted with the linear algorithm and the
    other change-value; the resulting order is the same -/
example : (runOps auS auCx true ⟨[], none⟩ (auXs.map Op.insert)).nodes =
      (runOps auS { auCx with nested := false } false ⟨[], none⟩ (auYs.map Op.insert)).nodes ∧
    (runOps auS auCx true ⟨[], none⟩ (auXs.map Op.insert)).nodes.map (·.id) = [4, 2, 7, 3, 8, 1, 5, 6] :=
  ⟨insert_perm auS auCx { auCx with nested := false } true false auXs auYs (by decide) (by decide)
    (histOkB_sound (by decide)) (histOkB_sound (by decide)) (ties_of_mem _ _ _ (by decide)), by decide⟩

-- AUDIT (resolved): docstring of `insert_perm` states the tie hypothesis as proved; the permutation form is `insert_perm_of_perm` below.
/-- two user-ordered list instances with distinct keys, inserted in the two possible orders, give different lists -/
theorem insert_perm_distinct_keys_insufficient_for_userord :
    (runOps auS auCx true ⟨[], none⟩ (([⟨1, some ⟨0, 3⟩, .str [98]⟩, ⟨5, some ⟨0, 3⟩, .str [97]⟩] : List Node).map Op.insert)).nodes ≠
    (runOps auS auCx true ⟨[], none⟩ (([⟨5, some ⟨0, 3⟩, .str [97]⟩, ⟨1, some ⟨0, 3⟩, .str [98]⟩] : List Node).map Op.insert)).nodes := by
  decide

/-- Insertion-order independence in the form the property statement has it: two insertion orders (`ys` a permutation
    of `xs`) of nodes no two of which are ties — pairwise different (schema, key) for system-ordered instances, at most
    one instance of each user-ordered / key-less (leaf-)list, at most one opaque node — give the same sibling list,
    whichever hash-table regime and change-value variant is in force. -/
theorem insert_perm_of_perm (S : Schema) (cx₁ cx₂ : Cx) (f₁ f₂ : Bool) (xs ys : List Node)
    (hw₁ : cx₁.nested = true → cx₁.top = false) (hw₂ : cx₂.nested = true → cx₂.top = false)
    (hx : HistOk S cx₁ f₁ ⟨[], none⟩ (xs.map Op.insert)) (hy : HistOk S cx₂ f₂ ⟨[], none⟩ (ys.map Op.insert))
    (hp : xs.Perm ys) (hnt : xs.Pairwise (fun a b => (nle S a b && nle S b a) = false)) :
    (runOps S cx₁ f₁ ⟨[], none⟩ (xs.map Op.insert)).nodes = (runOps S cx₂ f₂ ⟨[], none⟩ (ys.map Op.insert)).nodes := by
  refine insert_perm S cx₁ cx₂ f₁ f₂ xs ys hw₁ hw₂ hx hy ?_
  intro a
  have hpf := hp.filter (fun b => nle S a b && nle S b a)
  have hpw := hnt.filter (fun b => nle S a b && nle S b a)
  cases hfx : xs.filter (fun b => nle S a b && nle S b a) with
  | nil => rw [hfx] at hpf; exact (List.nil_perm.1 hpf).symm
  | cons b t =>
    cases t with
    | nil => rw [hfx] at hpf; exact List.singleton_perm.1 hpf
    | cons c t' =>
      exfalso
      rw [hfx] at hpw
      have hbc := (List.pairwise_cons.1 hpw).1 c (by simp)
      have hb : b ∈ xs.filter (fun b => nle S a b && nle S b a) := by rw [hfx]; simp
      have hc : c ∈ xs.filter (fun b => nle S a b && nle S b a) := by rw [hfx]; simp
      have hb' := (List.mem_filter.1 hb).2
      have hc' := (List.mem_filter.1 hc).2
      rw [Bool.and_eq_true] at hb' hc'
      have : (nle S b c && nle S c b) = true := by
        rw [Bool.and_eq_true]
        exact ⟨nle_trans S _ _ _ hb'.2 hc'.1, nle_trans S _ _ _ hc'.2 hb'.1⟩
      rw [hbc] at this; cases this

/-- non-vacuity (audit): six of the nodes of `auXs` (one instance per user-ordered list, one opaque node) in two orders -/
example : (runOps auS auCx true ⟨[], none⟩ ((auXs.eraseIdx 4).map Op.insert)).nodes =
    (runOps auS { auCx with nested := false } false ⟨[], none⟩ ((auXs.eraseIdx 4).reverse.map Op.insert)).nodes :=
  insert_perm_of_perm auS auCx { auCx with nested := false } true false _ _ (by decide) (by decide)
    (histOkB_sound (by decide)) (histOkB_sound (by decide)) (List.reverse_perm _).symm (by decide)

/-! ## non-vacuity -/

/-- a non-trivial state satisfies the invariant: two sorted leaf-list instances and two leaves under a parent whose hash
    table exists (5 records: four own records and the first-instance record of `sll`) -/
example : Inv exS exCx exS0 := exS0_inv

example : (htContent exS exNodes).length = 5 := by decide

/-- a new instance that sorts in front of the leader meets the precondition; it lands first and the first-instance record
    moves to it -/
example : NewOk exS exCx exS0 exNew := exNew_ok

example : ((insertNode exS exCx exS0 exNew).nodes.map (·.id)) = [9, 1, 2, 3, 4] := by decide

example : (HKey.sch ⟨0, 0⟩, 9) ∈ ((insertNode exS exCx exS0 exNew).ht.getD []) := by decide

/-- a history meeting its preconditions: unlink the leader, insert a new instance, change a value (corrected) -/
example : HistOk exS exCx true exS0 [.unlink 1, .insert exNew, .change 2 (.int (-4))] :=
  ⟨trivial, by
    refine ⟨⟨?_, ?_, ?_, ?_⟩, trivial, trivial⟩
    · intro m hm
      have : m ∈ [(⟨2, some ⟨0, 0⟩, .int 2⟩ : Node), ⟨3, some ⟨0, 1⟩, .str []⟩, ⟨4, some ⟨0, 2⟩, .str []⟩] := hm
      simp only [List.mem_cons, List.not_mem_nil, or_false] at this
      rcases this with rfl | rfl | rfl <;> decide
    · intro x hx; simp [exNew] at hx; subst hx; decide
    · intro _ a ha x y hx hy
      have : a ∈ [(⟨2, some ⟨0, 0⟩, .int 2⟩ : Node), ⟨3, some ⟨0, 1⟩, .str []⟩, ⟨4, some ⟨0, 2⟩, .str []⟩] := ha
      simp only [List.mem_cons, List.not_mem_nil, or_false] at this
      simp [exNew] at hy; subst hy
      rcases this with rfl | rfl | rfl <;> simp at hx <;> subst hx <;> rfl
    · intro a _ x _ hy
      simp [exNew] at hy; subst hy; rfl⟩

/-- a target with a unique match (hypothesis `hu` of `find_iff_scan`) that is found: `sll=2` -/
example : findFirst exS exCx exS0 ⟨0, some ⟨0, 0⟩, .int 2⟩ = some 2 := by decide

/-- two insertion orders of three nodes with distinct (schema, key) satisfy the tie hypothesis of `insert_perm` -/
example : ∀ a ∈ exNodes, ([exNodes[2], exNodes[0], exNodes[1]] : List Node).filter (fun b => nle exS a b && nle exS b a) =
    ([exNodes[1], exNodes[2], exNodes[0]] : List Node).filter (fun b => nle exS a b && nle exS b a) := by decide

end LyModel.Props.C04
