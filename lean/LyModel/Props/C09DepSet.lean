import LyModel.Ctx.LemmasDepSet
import LyModel.Ctx.Examples
/-!
# C09 — the compilation stage, first step: the dependency set

What `lys_unres_glob_revert` can recompile after a failed compilation is what is in a dependency set and flagged `to_compile`.
The modules whose compiled content a new module changes are the targets of its augments and deviations; this file proves that
`lys_unres_dep_sets_create` puts them into the dependency set of the new module (so they are compiled with it, and marked again by
the repaired revert, F380).  Model: `Ctx/Model.lean` `createModR` / `singlesLoop` / `depSetsCreate`, with `ly_set_rm_index` moving
the last element into the freed slot.
-/
namespace LyModel.Props.C09
open LyModel LyModel.Ctx

/-- a module with data nodes is never a dependency set of its own (`LYS_IS_SINGLE_DEP_SET` is false) -/
theorem nonSingle_of_data {s : Ctx} {k : MKey} {m : Mod} (h : s.allFind k = some m) (hd : m.src.hasData = true) :
    s.nonSingle k :=
  ⟨m, h, by simp [Mod.isSingle, ModSrc.hasCompiledStmts, hd]⟩

/-- **The targets of augments and deviations are in the dependency set of the amending module.**  For every context, every
    module `k` with an augment or a deviation of an import `tn` that is resolved to a module `tk` with data nodes — `k` being not
    yet compiled (it is being implemented), or having data nodes or features itself —: `lys_unres_dep_sets_create(ctx, …, k)`
    produces a dependency set that contains both `k` and `tk`, whatever else is in the context, in whatever order. -/
theorem amend_targets_in_dep_set (s : Ctx) (k : MKey) (m : Mod) (hm : s.allFind k = some m)
    (hnew : m.compiled = none ∨ m.src.hasData = true ∨ m.src.feats ≠ [])
    (tn : Bytes) (htn : tn ∈ m.src.augments ++ m.src.deviations) (tk : MKey) (htk : m.impKey tn = some tk)
    (t : Mod) (ht : s.allFind tk = some t) (htd : t.src.hasData = true) :
    ∃ ds ∈ depSetsCreate s (some k), k ∈ ds ∧ tk ∈ ds := by
  have hs : m.isSingle = false := by
    have hst : m.src.hasCompiledStmts = true := by
      simp only [ModSrc.hasCompiledStmts, Bool.or_eq_true, Bool.not_eq_true', List.isEmpty_eq_false_iff]
      rcases List.mem_append.mp htn with h | h
      · exact Or.inl (Or.inr (List.ne_nil_of_mem h))
      · exact Or.inr (List.ne_nil_of_mem h)
    rcases hnew with h | h | h
    · simp [Mod.isSingle, hst, h]
    · simp [Mod.isSingle, hst, h]
    · have : m.src.feats.isEmpty = false := by simpa using h
      simp [Mod.isSingle, this]
  have hti : tk ∈ m.impRes := by
    unfold Mod.impKey at htk
    exact List.mem_of_find?_eq_some htk
  exact depSetsCreate_closure s k tk m hm hs hti (nonSingle_of_data ht htd)

/-- **… and they are flagged.**  After `lys_unres_dep_sets_create(ctx, …, k)` (dependency sets + "if there is a module to compile,
    all the implemented modules of the dep set need to be recompiled"): when `k` is flagged `to_compile` — it is, `lys_implement`
    sets the flag — every IMPLEMENTED target `tk` of its augments / deviations that has data is in a dependency set together with `k`
    and is flagged `to_compile`: it is compiled with `k`, and it is what a recompilation driven by flags and dependency sets
    (`lys_unres_glob_revert`) reaches. -/
theorem targets_flagged_after_dep_sets (s : Ctx) (k : MKey) (m : Mod) (hm : s.allFind k = some m)
    (hnew : m.compiled = none ∨ m.src.hasData = true ∨ m.src.feats ≠ [])
    (tn : Bytes) (htn : tn ∈ m.src.augments ++ m.src.deviations) (tk : MKey) (htk : m.impKey tn = some tk)
    (t : Mod) (ht : s.allFind tk = some t) (htd : t.src.hasData = true)
    (hflag : s.flagged k = true) (hti : s.implAt tk = true) :
    (∃ ds ∈ (depSetsM (some k) s).2.depSets, k ∈ ds ∧ tk ∈ ds) ∧ (depSetsM (some k) s).2.flagged tk = true := by
  obtain ⟨ds, hds, hk, htkd⟩ := amend_targets_in_dep_set s k m hm hnew tn htn tk htk t ht htd
  refine ⟨⟨ds, hds, hk, htkd⟩, ?_⟩
  show ((depSetsCreate s (some k)).foldl markDepSet s).flagged tk = true
  exact foldl_markDepSet_flags ds tk htkd _ s hds (List.any_eq_true.mpr ⟨k, hk, hflag⟩) hti

open LyModel.Ctx.Ex in
/-- non-vacuity: explicit-compile context, `aaa` implemented and compiled, then `ccc` (import + augment of `aaa`) parsed and marked
    implemented: `ccc` is not compiled, augments its import `aaa`, which has data — the hypotheses of the theorem — and the
    dependency sets of `ccc` contain a set with both -/
example : let s := (run (runs (ctx0 [A, C] true) [.parse A none, .compile]) (.parse C none)).2
    ((s.allFind (bs "ccc", [])).any fun m => m.compiled.isNone && (m.src.augments ++ m.src.deviations).contains (bs "aaa") &&
      (m.impKey (bs "aaa") == some (bs "aaa", []))) = true ∧
    ((s.allFind (bs "aaa", [])).any fun t => t.src.hasData && t.compiled.isSome) = true ∧
    ((depSetsCreate s (some (bs "ccc", []))).any fun ds => ds.contains (bs "ccc", []) && ds.contains (bs "aaa", [])) = true ∧
    s.flagged (bs "ccc", []) = true ∧ s.implAt (bs "aaa", []) = true ∧ (depSetsM (some (bs "ccc", [])) s).2.flagged (bs "aaa", []) = true :=
  ⟨by decide +kernel, by decide +kernel, by decide +kernel, by decide +kernel, by decide +kernel, by decide +kernel⟩

end LyModel.Props.C09
