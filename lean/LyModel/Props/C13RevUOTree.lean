import LyModel.Diff.UORevCompose
import LyModel.Props.C13RevUO
/-!
# C13 `reverse_apply` for user-ordered leaf-lists inside the TREE model — the bridge from the list core (repaired reversal)

Steps towards `reverse_apply_userord_tree_fixed` (the list-core theorem is `C13RevUO.userord_reverse_apply`):

* `reverse_userord_flat_ll_sim` — **proved**: `Diff.reverseRepaired` (`lyd_diff_reverse_all` with the second pass
  `lyd_diff_reverse_userord_r`) on the diff nodes of ANY list of operations on one user-ordered configuration leaf-list =
  the diff nodes of the inverse operations in reverse order (`UORev.reverseO`), node for node, metadata exact, as `LYD_NEW` copies.
* `userord_reverse_apply_strict` — **proved**: the list-core theorem over the strict generic core `UOG` (what the C06 bridge
  simulates) with leaf-list values as identities: `applyO vb (reverseO (diffO va vb)) = some va`; `diffO` = `UOG.diffU` + original anchors.
* `reverse_apply_userord_flat_ll_core` — **proved**: repaired reverse + apply on the diff nodes of `diffO va vb` gives `va` back, for
  all duplicate-free value lists without the empty value.
* `reverse_apply_userord_flat_ll_fixed_of_diff` — **proved, CONDITIONAL**: `reverseApply S true A B = ok A'`, `A'` equal to `A`, under
  the hypothesis that `lyd_diff_siblings(A, B)` IS the encoding of `diffO va vb` (operation, value AND orig-value, node for node).
  OPEN: that hypothesis.  C06 `diff_userord_flat_ll_sim` proves it up to the `orig-value` of delete / move nodes (`IsOpNode` leaves
  it existential: `attrs_delete` / `attrs_move` do not say which value it is); the strengthened simulation (orig-value = the
  predecessor in the virtual list, `UORev.predOf`) is not done.  The hypothesis is decidable per instance and checked for the witness.
* `reverse_apply_userord_flat_ll_ops` — **proved**: reverse, then `lyd_diff_apply_all` = the strict list core `UOG.applyU` on the
  reversed operations (through `UOB.apply_ops` of the C06 bridge; apply does not read `LYD_NEW` of a diff node).
-/
namespace LyModel.Props.C13RevUOTree
open LyModel LyModel.Tree LyModel.Diff LyModel.Diff.UOB LyModel.Diff.UORev

/-- **Simulation of the repaired reversal** (top-level diff of one user-ordered configuration leaf-list `s`, not a list key).
`ops`: operations with original anchors (`UORev.UOpO`), `enc s`: their diff nodes as `lyd_diff_add` writes them
(`delete` + `orig-value`; `create` + `value`; `replace` + `orig-default` + `orig-value` + `value`), every move with an anchor
different from its original anchor (else `LY_ENOT`, finding F15 (d)).  Then `lyd_diff_reverse_all` returns exactly the diff nodes
of `reverseO ops` — `create` ↔ `delete` with the anchor metadata renamed, anchors of a move switched, sibling order reversed. -/
theorem reverse_userord_flat_ll_sim {S : Schema} {s : Nat} (C : Ctx S s) (ops : List UOpO) (h : ∀ op ∈ ops, MoveOk op) :
    reverseRepaired S (ops.map (enc s)) = .ok ((reverseO ops).map (encF s { new := true })) :=
  reverseRepaired_enc C ops h

/-- … and with the switch read off the source: `Diff.reverse` is that function once the repair is in `src/diff.c` -/
theorem reverse_userord_flat_ll_sim_fixed {S : Schema} {s : Nat} (hq : Generated.Diff13.reverseUserordRepaired = true)
    (C : Ctx S s) (ops : List UOpO) (h : ∀ op ∈ ops, MoveOk op) :
    reverse S (ops.map (enc s)) = .ok ((reverseO ops).map (encF s { new := true })) := by
  unfold reverse
  rw [if_pos hq]
  exact reverseRepaired_enc C ops h

/-- **reverse + apply = the list core on the reversed operations.**  If `UOG.applyU` (as strict as `lyd_diff_insert`) applies
`reverseO ops` to the values `l` with result `l'`, then the repaired `lyd_diff_reverse_all` succeeds on the diff nodes of `ops`
and `lyd_diff_apply_all` of the reversed diff on data holding the instances `l` succeeds and holds the instances `l'`. -/
theorem reverse_apply_userord_flat_ll_ops {S : Schema} {s : Nat} (C : Ctx S s) (fx : Fixes) (ops : List UOpO)
    (hm : ∀ op ∈ ops, MoveOk op) (ha : ∀ op ∈ reverseO ops, AnchorOk op) (sibs : List DNode) (l l' : List Bytes)
    (hd : DataLL s sibs l) (hap : UOG.applyU l ((reverseO ops).map UOpO.forget) = some l') :
    ∃ R sibs', reverseRepaired S (ops.map (enc s)) = .ok R ∧ apply S sibs R fx = .ok sibs' ∧ DataLL s sibs' l' :=
  reverse_apply_enc C fx ops hm ha sibs l l' hd hap

/-- **the list core, strict.**  `UO.userord_reverse_apply` over `UOG.applyOp` (as strict as `lyd_diff_insert`) with leaf-list
values as identities: for all duplicate-free `va`, `vb`, the operations of diff(va, vb) with their original anchors, inverted and
applied to `vb` in reverse order, give `va`. -/
theorem userord_reverse_apply_strict (va vb : List Bytes) (nda : va.Nodup) (ndb : vb.Nodup) :
    applyO vb (reverseO (diffO va vb)) = some va :=
  chain_reverse (diffO_chain va vb nda ndb).1

/-- `diffO` is the generic core's `diffU` (what C06 `diff_userord_flat_ll_sim` speaks about) with original anchors -/
theorem userord_diffO_forget (va vb : List Bytes) : (diffO va vb).map UOpO.forget = UOG.diffU va vb := diffO_forget va vb

/-- **reverse + apply on the encodings of the core diff gives `va` back** — all duplicate-free value lists without the empty value
(the F122 / F15 (d) exclusion), data `sibs` holding the instances `vb`. -/
theorem reverse_apply_userord_flat_ll_core {S : Schema} {s : Nat} (C : Ctx S s) (fx : Fixes) (va vb : List Bytes)
    (nda : va.Nodup) (ndb : vb.Nodup) (ha : [] ∉ va) (hb : [] ∉ vb) (sibs : List DNode) (hd : DataLL s sibs vb) :
    ∃ R sibs', reverseRepaired S ((diffO va vb).map (enc s)) = .ok R ∧ apply S sibs R fx = .ok sibs' ∧ DataLL s sibs' va :=
  reverse_apply_diffO C fx va vb nda ndb ha hb sibs hd

/-- **`reverse_apply` for a flat user-ordered leaf-list, repaired source — conditional on the diff simulation with original
anchors** (`hdiff`; see the header: OPEN).  `A` = the instances `va`, `B` = the instances `vb` of one user-ordered configuration
leaf-list at the top level: `lyd_diff_apply_all(B, lyd_diff_reverse_all(lyd_diff_siblings(A, B, DEFAULTS)))` succeeds and gives
`A` back (`lyd_compare_siblings` with defaults). -/
theorem reverse_apply_userord_flat_ll_fixed_of_diff {S : Schema} {s : Nat} (hq : Generated.Diff13.reverseUserordRepaired = true)
    (C : Ctx S s) (fx : Fixes) (va vb : List Bytes) (nda : va.Nodup) (ndb : vb.Nodup) (ha : [] ∉ va) (hb : [] ∉ vb)
    (hdiff : diff S true (llForest s va) (llForest s vb) = (diffO va vb).map (enc s)) :
    ∃ A', reverseApply S true (llForest s va) (llForest s vb) fx = .ok A' ∧ dataEqL true A' (llForest s va) = true := by
  obtain ⟨R, A', h1, h2, h3⟩ := reverse_apply_diffO C fx va vb nda ndb ha hb (llForest s vb) (dataLL_llForest s vb)
  refine ⟨A', ?_, (dataEqL_iff_norm _ _).mpr (normL13_dataLL s A' va h3)⟩
  unfold reverseApply reverse
  rw [hdiff, if_pos hq, h1]
  simp [Except.bind, applyD, h2]

/-! ## non-vacuity: the witness of F15 (a), A = `0 1 2`, B = `1 2 0` (schema `C13.uoS`) -/

theorem uoS_ctx : Ctx C13.uoS 0 := ⟨by decide, by decide, by decide, by decide⟩

/-- the operations of diff(A, B): move 1 to the front (was behind 0), move 2 behind 1 (was behind 0) -/
def exOps : List UOpO := [.move [49] none (some [48]), .move [50] (some [49]) (some [48])]

example : beqL (diff C13.uoS true [C13.ul 0, C13.ul 1, C13.ul 2] [C13.ul 1, C13.ul 2, C13.ul 0]) (exOps.map (enc 0)) = true := by
  decide +kernel
example : reverseO exOps = [.move [50] (some [48]) (some [49]), .move [49] (some [48]) none] := by decide
example : ∃ R sibs', reverseRepaired C13.uoS (exOps.map (enc 0)) = .ok R ∧
    apply C13.uoS (llForest 0 [[49], [50], [48]]) R = .ok sibs' ∧ DataLL 0 sibs' [[48], [49], [50]] :=
  reverse_apply_userord_flat_ll_ops uoS_ctx {} exOps (by simp [exOps, MoveOk]) (by simp [exOps, reverseO, invOp, AnchorOk]) _ _ _
    (dataLL_llForest 0 _) (by decide)

example : diffO [[48], [49], [50]] [[49], [50], [48]] = exOps := by decide
example : applyO [[49], [50], [48]] (reverseO (diffO [[48], [49], [50]] [[49], [50], [48]])) = some [[48], [49], [50]] :=
  userord_reverse_apply_strict _ _ (by decide) (by decide)
/-- the hypothesis `hdiff` holds for the witness, and with it the law -/
theorem ex_hdiff : diff C13.uoS true (llForest 0 [[48], [49], [50]]) (llForest 0 [[49], [50], [48]]) =
    (diffO [[48], [49], [50]] [[49], [50], [48]]).map (enc 0) := by rfl
example (hq : Generated.Diff13.reverseUserordRepaired = true) :
    ∃ A', reverseApply C13.uoS true (llForest 0 [[48], [49], [50]]) (llForest 0 [[49], [50], [48]]) = .ok A' ∧
      dataEqL true A' (llForest 0 [[48], [49], [50]]) = true :=
  reverse_apply_userord_flat_ll_fixed_of_diff hq uoS_ctx {} _ _ (by decide) (by decide) (by decide) (by decide) ex_hdiff

end LyModel.Props.C13RevUOTree
