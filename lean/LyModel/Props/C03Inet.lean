import LyModel.Val.LemmasInet
import LyModel.Val.LemmasBasic
set_option linter.unusedSimpArgs false
/-!
# C03 — `ipv4-address`, `ipv4-address-no-zone`, `ipv4-prefix`, `ipv6-address`, `ipv6-address-no-zone`, `ipv6-prefix`
(ietf-inet-types, RFC 6991)

Model: `Val/Inet.lean` — the store / compare / sort / print callbacks of `plugins_types/ipv4_address.c`, `ipv4_address_no_zone.c`,
`ipv4_prefix.c`, `ipv6_address.c`, `ipv6_address_no_zone.c`, `ipv6_prefix.c`; compared with the implementation on every run
(`tools/checks/valinet.py`).  The compiled types (`Inet.tyOf`) are built from `models/ietf-inet-types@2013-07-15.yang` and from the
shape of the Inet.store callbacks (`Generated/ValInet.lean`).

ASSUMPTION (libc is modelled, not verified): `Inet.pton4`, `Inet.pton6`, `Inet.ntop4`, `Inet.ntop6` are `inet_pton` / `inet_ntop` of
glibc 2.36 (`resolv/inet_pton.c`, `resolv/inet_ntop.c`) for `AF_INET` / `AF_INET6`; `isalnum` is the one of the "C" locale.  The
differential check exercises them through the plug-ins on every run (the `-no-zone` types hand the value to `inet_pton` unfiltered).

The theorems are stated for every compiled type `t : ITy` of a given shape (flags `pfx`, `zone`, `checks`, `keeps`, `size`); the examples
use the six typedefs.
-/
namespace LyModel.Props.C03Inet
open LyModel LyModel.Val LyModel.Val.Inet

/-- bytes of a literal -/
def b (s : String) : Bytes := s.toUTF8.toList

def noType : ITy := ⟨⟨[], []⟩, false, false, false, 4, 0, false⟩
def ipv4Address : ITy := (tyOf "ipv4-address").getD noType
def ipv4NoZone : ITy := (tyOf "ipv4-address-no-zone").getD noType
def ipv4Prefix : ITy := (tyOf "ipv4-prefix").getD noType
def ipv6Address : ITy := (tyOf "ipv6-address").getD noType
def ipv6NoZone : ITy := (tyOf "ipv6-address-no-zone").getD noType
def ipv6Prefix : ITy := (tyOf "ipv6-prefix").getD noType

/-- the three IPv6 types without their pattern arrays (for the examples about callbacks that never look at the patterns) -/
def shapeV6Address : ITy := ⟨⟨[], []⟩, true, true, false, 16, 0, false⟩
def shapeV6NoZone : ITy := ⟨⟨[], []⟩, false, false, false, 16, 0, false⟩
def shapeV6Prefix : ITy := ⟨⟨[], []⟩, true, false, true, 16, 128, false⟩

example : (ipv6Prefix.checks, ipv6Prefix.zone, ipv6Prefix.pfx, ipv6Prefix.size, ipv6Prefix.maxp, ipv6Prefix.keeps) =
    (shapeV6Prefix.checks, shapeV6Prefix.zone, shapeV6Prefix.pfx, shapeV6Prefix.size, shapeV6Prefix.maxp, shapeV6Prefix.keeps) := by decide +kernel

/-! ## libc model: IPv4 text -/

/-- `inet_ntop_pton4`: `inet_pton(AF_INET)` reads back what `inet_ntop(AF_INET)` prints, for every 32-bit value -/
theorem inet_ntop_pton4 (a : Bytes) (h : a.length = 4) : pton4 (ntop4 a) = some a := pton4_ntop4 a h

example : ntop4 [192, 0, 2, 255] = b "192.0.2.255" ∧ pton4 (b "192.0.2.255") = some [192, 0, 2, 255] := by decide +kernel

/-- `inet_pton4_iff`: `inet_pton(AF_INET)` accepts exactly the texts `inet_ntop(AF_INET)` prints — four decimal octets 0..255 without
    leading zeros, separated by dots, nothing else (RFC 6991 `ipv4-address` without the zone) — and yields that address -/
theorem inet_pton4_iff (s a : Bytes) : pton4 s = some a ↔ (a.length = 4 ∧ s = ntop4 a) := pton4_eq_some_iff s a

example : pton4 (b "01.2.3.4") = none ∧ pton4 (b "1.2.3") = none ∧ pton4 (b "1.2.3.256") = none ∧ pton4 (b "1.2.3.4.") = none ∧
    pton4 (b "1.2.3.4 ") = none ∧ pton4 (b "0.0.0.0") = some [0, 0, 0, 0] := by decide +kernel

/-- `inet_pton6_length`: an accepted IPv6 text yields exactly sixteen bytes -/
theorem inet_pton6_length (s a : Bytes) (h : pton6 s = some a) : a.length = 16 := pton6_length s a h

example : pton6 (b "2001:DB8::1") = some [0x20, 0x01, 0x0d, 0xb8, 0, 0, 0, 0, 0, 0, 0, 0, 0, 0, 0, 1] ∧
    pton6 (b "::ffff:1.2.3.4") = some [0, 0, 0, 0, 0, 0, 0, 0, 0, 0, 0xff, 0xff, 1, 2, 3, 4] ∧
    pton6 (b "1:2:3:4:5:6:7::") = some [0, 1, 0, 2, 0, 3, 0, 4, 0, 5, 0, 6, 0, 7, 0, 0] ∧
    pton6 (b "1:2:3:4::5:6:7:8") = none ∧ pton6 (b ":::") = none ∧ pton6 (b "::01.2.3.4") = none ∧ pton6 (b "1::2::3") = none := by decide +kernel

/-! ## acceptance -/

/-- `inet_accept_iff`: a value is stored as `v` ⇔ the hint set allows a string ∧ (only for the plug-ins that look at them:
    `ipv4-address`, `ipv4-prefix`, `ipv6-address`, `ipv6-prefix`) the length restriction and every pattern of the typedef chain hold on
    the whole value ∧ the conversion step yields `v`.  The `-no-zone` plug-ins never look at the patterns. -/
theorem inet_accept_iff (t : ITy) (hints : Nat) (s : Bytes) (v : IVal) :
    Inet.store t hints s = .ok v ↔
      (checkHints hints "string").isSome = true ∧
      (t.checks = true → validateRange (rangeIsUnsigned "string") t.str.length (utf8Len (s.length + 1) s : Nat) = true ∧
        checkPatterns t.str.pats s = .ok ()) ∧
      Inet.convert t s = .ok v := by
  unfold Inet.store
  cases hh : checkHints hints "string" with
  | none => simp
  | some e =>
    simp only [Option.isSome_some, true_and]
    cases hc : t.checks with
    | false => simp
    | true =>
      by_cases hl : validateRange (rangeIsUnsigned "string") t.str.length (utf8Len (s.length + 1) s : Nat) = true
      · cases hp : checkPatterns t.str.pats s with
        | error e => simp [hl]
        | ok u => simp [hl]
      · simp [hl]

example : Inet.store ipv4Prefix Generated.LYD_HINT_DATA (b "10.1.2.3/8") = .ok ⟨[10, 0, 0, 0], none, 8, none⟩ := by decide +kernel
example : Inet.store ipv4Address Generated.LYD_HINT_DATA (b "01.2.3.4") = .error .Pattern ∧
    Inet.store ipv4NoZone Generated.LYD_HINT_DATA (b "01.2.3.4") = .error .InetPton ∧
    Inet.store ipv4Prefix Generated.LYD_HINT_DATA (b "1.2.3.4/33") = .error .Pattern ∧ Inet.store ipv4NoZone 0 (b "1.2.3.4") = .error .Hint := by
  decide +kernel

/-- the conversion of the `-no-zone` types: `inet_pton` on the C string of the value -/
theorem inet_convert_nozone_iff (t : ITy) (hp : t.pfx = false) (hz : t.zone = false) (s : Bytes) (v : IVal) :
    Inet.convert t s = .ok v ↔ ∃ addr, pton t (cstr s) = some addr ∧
      v = ⟨addr, none, 0, if t.keeps then some (cstr s) else none⟩ := by
  unfold Inet.convert
  simp only [hp, hz, Bool.false_eq_true, if_false]
  cases pton t (cstr s) with
  | none => simp
  | some a =>
    constructor
    · intro h
      simp only [Except.ok.injEq] at h
      exact ⟨a, rfl, h.symm⟩
    · rintro ⟨addr, e1, e2⟩
      simp only [Option.some.injEq] at e1
      subst e1; rw [e2]

/-- the conversion of the address types with a zone: the value is cut at the FIRST `%`; what follows is the zone, what precedes goes (as a
    C string) to `inet_pton` -/
theorem inet_convert_zone_iff (t : ITy) (hp : t.pfx = false) (hz : t.zone = true) (s : Bytes) (v : IVal) :
    Inet.convert t s = .ok v ↔
      (∃ a z addr, s = a ++ 37 :: z ∧ 37 ∉ a ∧ pton t (cstr a) = some addr ∧ v = ⟨addr, some z, 0, if t.keeps then some s else none⟩) ∨
      (37 ∉ s ∧ ∃ addr, pton t (cstr s) = some addr ∧ v = ⟨addr, none, 0, if t.keeps then some s else none⟩) := by
  unfold Inet.convert
  simp only [hp, hz, Bool.false_eq_true, if_false, if_true]
  cases hs : splitAt 37 s with
  | none =>
    have hn : 37 ∉ s := by
      intro hin
      have : s.contains 37 = true := by simpa using hin
      simp [splitAt, this] at hs
      exact hs hin
    constructor
    · intro h
      right
      refine ⟨hn, ?_⟩
      cases hq : pton t (cstr s) with
      | none => simp [hq] at h
      | some addr => simp only [hq, Except.ok.injEq] at h; exact ⟨addr, rfl, h.symm⟩
    · rintro (⟨a, z, addr, e, hna, _, _⟩ | ⟨_, addr, hq, e⟩)
      · exact absurd (by rw [e]; simp) hn
      · simp [hq, e]
  | some az =>
    obtain ⟨a, z⟩ := az
    obtain ⟨e, hna⟩ := splitAt_spec 37 s a z hs
    constructor
    · intro h
      left
      cases hq : pton t (cstr a) with
      | none => simp [hq] at h
      | some addr => simp only [hq, Except.ok.injEq] at h; exact ⟨a, z, addr, e, hna, hq, h.symm⟩
    · rintro (⟨a', z', addr, e', hna', hq, ev⟩ | ⟨hn, _⟩)
      · have := splitAt_append 37 a' z' hna'
        rw [← e', hs] at this
        simp only [Option.some.injEq, Prod.mk.injEq] at this
        obtain ⟨ea, ez⟩ := this
        subst ea; subst ez
        simp [hq, ev]
      · exact absurd (by rw [e]; simp) hn

/-- the conversion of the prefix types: the value is cut at the FIRST `/`; what precedes goes to `inet_pton`, what follows through
    `ly_strntou8`; the host bits are cleared -/
theorem inet_convert_prefix_iff (t : ITy) (hp : t.pfx = true) (s : Bytes) (v : IVal) :
    Inet.convert t s = .ok v ↔
      ∃ a l addr, s = a ++ 47 :: l ∧ 47 ∉ a ∧ pton t (cstr a) = some addr ∧
        v = ⟨zeroHost ((strntou8 l).getD 0) addr, none, (strntou8 l).getD 0, none⟩ := by
  unfold Inet.convert
  simp only [hp, if_true]
  cases hs : splitAt 47 s with
  | none =>
    have hn : 47 ∉ s := by
      intro hin
      have : s.contains 47 = true := by simpa using hin
      simp [splitAt, this] at hs
      exact hs hin
    constructor
    · intro h; simp at h
    · rintro ⟨a, l, addr, e, _⟩
      exact absurd (by rw [e]; simp) hn
  | some al =>
    obtain ⟨a, l⟩ := al
    obtain ⟨e, hna⟩ := splitAt_spec 47 s a l hs
    constructor
    · intro h
      cases hq : pton t (cstr a) with
      | none => simp [hq] at h
      | some addr => simp only [hq, Except.ok.injEq] at h; exact ⟨a, l, addr, e, hna, hq, h.symm⟩
    · rintro ⟨a', l', addr, e', hna', hq, ev⟩
      have := splitAt_append 47 a' l' hna'
      rw [← e', hs] at this
      simp only [Option.some.injEq, Prod.mk.injEq] at this
      obtain ⟨ea, el⟩ := this
      subst ea; subst el
      simp [hq, ev]

example : Inet.convert ipv4Prefix (b "10.1.2.3/8") = .ok ⟨[10, 0, 0, 0], none, 8, none⟩ := by decide +kernel

/-! ## canonical form -/

/-- `inet_canonical_generated`: a plug-in that does not keep the text (`ipv4-prefix` and the three IPv6 types) prints
    `inet_ntop(address)` followed by `%zone` / `/length` (decimal, no leading zeros) -/
theorem inet_canonical_generated (t : ITy) (hk : t.keeps = false) (hints : Nat) (s : Bytes) (v : IVal) (h : Inet.store t hints s = .ok v) :
    Inet.canon t v = ntop t v.addr ++ (if t.pfx then 47 :: dec8 v.plen else zoneSuffix v.zone) := by
  have hc := ((inet_accept_iff t hints s v).mp h).2.2
  have ht : v.text = none := by
    unfold Inet.convert at hc
    simp only [hk, Bool.false_eq_true, if_false] at hc
    repeat' split at hc
    all_goals first | (simp only [Except.ok.injEq] at hc; subst hc; rfl) | exact absurd hc (by simp)
  simp [Inet.canon, genCanon, ht]

example : Inet.canon shapeV6Address ⟨[0xfe, 0x80, 0, 0, 0, 0, 0, 0, 0, 0, 0, 0, 0, 0, 0, 1], some (b "eth0"), 0, none⟩ = b "fe80::1%eth0" := by
  decide +kernel
example : (Inet.convert shapeV6Prefix (b "::ffff:1.2.3.4/100")).map (Inet.canon shapeV6Prefix) = .ok (b "::ffff:0.0.0.0/100") ∧
    (Inet.store shapeV6NoZone Generated.LYD_HINT_DATA (b "0:0:0:0:0:0:0.0.3.4")).map (Inet.canon shapeV6NoZone) = .ok (b "::304") ∧
    (Inet.store shapeV6NoZone Generated.LYD_HINT_DATA (b "1:0:0:2:0:0:0:3")).map (Inet.canon shapeV6NoZone) = .ok (b "1:0:0:2::3") ∧
    (Inet.convert shapeV6Prefix (b "::/08")).map (Inet.canon shapeV6Prefix) = .ok (b "::/8") := by decide +kernel

/-- `ipv4_nozone_canonical`: `ipv4-address-no-zone` keeps the text it read, and that text IS `inet_ntop(address)` (because `inet_pton`
    accepts nothing else) -/
theorem ipv4_nozone_canonical (t : ITy) (hp : t.pfx = false) (hz : t.zone = false) (hs : t.size = 4) (hints : Nat) (s : Bytes) (v : IVal)
    (h : Inet.store t hints s = .ok v) : Inet.canon t v = ntop4 v.addr ∧ v.addr.length = 4 := by
  have hc := ((inet_accept_iff t hints s v).mp h).2.2
  obtain ⟨addr, hq, ev⟩ := (inet_convert_nozone_iff t hp hz s v).mp hc
  simp only [pton, hs, beq_self_eq_true, if_true] at hq
  obtain ⟨e1, e2⟩ := ntop4_of_pton4 _ _ hq
  subst ev
  refine ⟨?_, e2⟩
  cases hk : t.keeps with
  | true => simp [Inet.canon, e1, zoneSuffix]
  | false => simp [Inet.canon, genCanon, ntop, hs, hp, zoneSuffix]

/-- `ipv4_address_canonical`: `ipv4-address` keeps the text it read; for a value without a NUL byte (the patterns allow none) that text is
    `inet_ntop(address)` + `%zone` -/
theorem ipv4_address_canonical (t : ITy) (hp : t.pfx = false) (hz : t.zone = true) (hs : t.size = 4) (hints : Nat) (s : Bytes) (v : IVal)
    (hnul : (0 : UInt8) ∉ s) (h : Inet.store t hints s = .ok v) :
    Inet.canon t v = ntop4 v.addr ++ zoneSuffix v.zone := by
  have hc := ((inet_accept_iff t hints s v).mp h).2.2
  rcases (inet_convert_zone_iff t hp hz s v).mp hc with ⟨a, z, addr, e, _, hq, ev⟩ | ⟨_, addr, hq, ev⟩
  · have hna : (0 : UInt8) ∉ a := fun hh => hnul (by rw [e]; exact List.mem_append_left _ hh)
    rw [cstr_of_no_nul a hna] at hq
    simp only [pton, hs, beq_self_eq_true, if_true] at hq
    have e1 := (ntop4_of_pton4 _ _ hq).1
    subst ev
    cases hk : t.keeps with
    | true => simp [Inet.canon, e1, e, zoneSuffix]
    | false => simp [Inet.canon, genCanon, ntop, hs, hp, zoneSuffix]
  · rw [cstr_of_no_nul s hnul] at hq
    simp only [pton, hs, beq_self_eq_true, if_true] at hq
    have e1 := (ntop4_of_pton4 _ _ hq).1
    subst ev
    cases hk : t.keeps with
    | true => simp [Inet.canon, e1, zoneSuffix]
    | false => simp [Inet.canon, genCanon, ntop, hs, hp, zoneSuffix]

example : Inet.convert ipv4Address (b "192.0.2.1%eth0") = .ok ⟨[192, 0, 2, 1], some (b "eth0"), 0, some (b "192.0.2.1%eth0")⟩ := by
  decide +kernel

/-- `inet_nul_refused_fails` — full strength: a stored value was looked at as a whole.  False for the two `-no-zone` plug-ins: they hand a
    `strndup` copy to `inet_pton` and check nothing else, so `1.2.3.4\0junk` (12 bytes, through `lyd_value_validate` with an explicit
    length or a LYB-free caller) is accepted and stored as `1.2.3.4`. -/
theorem inet_nul_refused_fails :
    ¬ ∀ (t : ITy) (hints : Nat) (s : Bytes) (v : IVal), t.zone = false → t.pfx = false → Inet.store t hints s = .ok v → (0 : UInt8) ∉ s := by
  intro h
  have := h ipv4NoZone Generated.LYD_HINT_DATA (b "1.2.3.4" ++ [0] ++ b "junk") ⟨[1, 2, 3, 4], none, 0, some (b "1.2.3.4")⟩
    (by decide +kernel) (by decide +kernel) (by decide +kernel)
  exact absurd this (by decide +kernel)

/-- `inet_nul_refused_partial`: the plug-ins that check their patterns do look at the whole value: a stored value satisfied them -/
theorem inet_nul_refused_partial (t : ITy) (hc : t.checks = true) (hints : Nat) (s : Bytes) (v : IVal) (h : Inet.store t hints s = .ok v) :
    checkPatterns t.str.pats s = .ok () := (((inet_accept_iff t hints s v).mp h).2.1 hc).2

example : Inet.store ipv4Address Generated.LYD_HINT_DATA (b "1.2.3.4" ++ [0] ++ b "zz") = .error .Pattern := by decide +kernel

/-! ## prefixes -/

/-- `prefix_canonical_masked`: a stored prefix has all host bits zero (masking it again changes nothing), two lexical prefixes whose
    addresses agree on the first `len` bits are EQUAL values with the same canonical form, and the stored address is the only one with
    zero host bits among the addresses that agree with it on the network bits -/
theorem prefix_canonical_masked (t : ITy) (hp : t.pfx = true) (hints : Nat) (s : Bytes) (v : IVal)
    (h : Inet.store t hints s = .ok v) :
    zeroHost v.plen v.addr = v.addr ∧
    (∀ (s' : Bytes) (v' : IVal) (a l a' addr addr' : Bytes), Inet.store t hints s' = .ok v' →
      s = a ++ 47 :: l → 47 ∉ a → s' = a' ++ 47 :: l → 47 ∉ a' → pton t (cstr a) = some addr → pton t (cstr a') = some addr' →
      zeroHost ((strntou8 l).getD 0) addr = zeroHost ((strntou8 l).getD 0) addr' →
      Inet.cmpEq t v v' = true ∧ Inet.canon t v = Inet.canon t v') ∧
    (∀ x : Bytes, zeroHost v.plen x = x → zeroHost v.plen x = v.addr → x = v.addr) := by
  have hc := ((inet_accept_iff t hints s v).mp h).2.2
  obtain ⟨a0, l0, addr0, e0, hn0, hq0, ev0⟩ := (inet_convert_prefix_iff t hp s v).mp hc
  refine ⟨by subst ev0; exact zeroHost_idem _ _, ?_, fun x h1 h2 => by rw [← h1, h2]⟩
  intro s' v' a l a' addr addr' h' e hn e' hn' hq hq' hm
  have hc' := ((inet_accept_iff t hints s' v').mp h').2.2
  obtain ⟨a1, l1, addr1, e1, hn1, hq1, ev1⟩ := (inet_convert_prefix_iff t hp s' v').mp hc'
  -- the cut is unique
  have u0 := splitAt_append 47 a0 l0 hn0
  rw [← e0, e, splitAt_append 47 a l hn] at u0
  have u1 := splitAt_append 47 a1 l1 hn1
  rw [← e1, e', splitAt_append 47 a' l hn'] at u1
  simp only [Option.some.injEq, Prod.mk.injEq] at u0 u1
  obtain ⟨ea0, el0⟩ := u0
  obtain ⟨ea1, el1⟩ := u1
  subst ea0; subst el0; subst ea1; subst el1
  rw [hq] at hq0; rw [hq'] at hq1
  simp only [Option.some.injEq] at hq0 hq1
  subst hq0; subst hq1
  subst ev0; subst ev1
  simp [Inet.cmpEq, Inet.canon, genCanon, hm]

example : (Inet.store ipv4Prefix Generated.LYD_HINT_DATA (b "10.1.2.3/8")).map (Inet.canon ipv4Prefix) = .ok (b "10.0.0.0/8") ∧
    (Inet.store ipv4Prefix Generated.LYD_HINT_DATA (b "10.255.0.77/8")).map (Inet.canon ipv4Prefix) = .ok (b "10.0.0.0/8") ∧
    (Inet.convert shapeV6Prefix (b "ffff:ffff:ffff:ffff:ffff:ffff:ffff:ffff/65")).map (Inet.canon shapeV6Prefix) =
      .ok (b "ffff:ffff:ffff:ffff:8000::/65") := by decide +kernel

/-- a prefix length that covers the whole address keeps every bit; length 0 clears every bit -/
theorem prefix_mask_bounds (a : Bytes) : zeroHost (8 * a.length) a = a ∧ zeroHost 0 a = List.replicate a.length 0 :=
  ⟨zeroHost_full a _ (Nat.le_refl _), zeroHost_zero a⟩

/-! ## equality and order -/

/-- well-formed stored values: what the Inet.store callbacks produce -/
structure WF (t : ITy) (v : IVal) : Prop where
  len : v.addr.length = t.size
  plen : v.plen < 256
  nozone : t.pfx = true → v.zone = none
  noplen : t.pfx = false → v.plen = 0

/-- `inet_store_wf`: every stored value is well-formed (the address has 4 / 16 bytes, …) -/
theorem inet_store_wf (t : ITy) (hs : t.size = 4 ∨ t.size = 16) (hints : Nat) (s : Bytes) (v : IVal) (h : Inet.store t hints s = .ok v) : WF t v := by
  have hc := ((inet_accept_iff t hints s v).mp h).2.2
  cases hp : t.pfx with
  | true =>
    obtain ⟨a, l, addr, _, _, hq, ev⟩ := (inet_convert_prefix_iff t hp s v).mp hc
    subst ev
    refine ⟨by simp [zeroHost_length, pton_length t hs _ _ hq], ?_, fun _ => rfl, fun h' => by simp [hp] at h'⟩
    exact strntou8_lt l
  | false =>
    cases hz : t.zone with
    | true =>
      rcases (inet_convert_zone_iff t hp hz s v).mp hc with ⟨a, z, addr, _, _, hq, ev⟩ | ⟨_, addr, hq, ev⟩ <;> subst ev <;>
        exact ⟨pton_length t hs _ _ hq, by simp, fun h' => by simp [hp] at h', fun _ => rfl⟩
    | false =>
      obtain ⟨addr, hq, ev⟩ := (inet_convert_nozone_iff t hp hz s v).mp hc
      subst ev
      exact ⟨pton_length t hs _ _ hq, by simp, fun h' => by simp [hp] at h', fun _ => rfl⟩

/-- `inet_sort_consistent_with_eq`: the sort callback answers 0 exactly for equal values (address bytes, zone, prefix length) -/
theorem inet_sort_consistent_with_eq (t : ITy) (x y : IVal) (hx : WF t x) (hy : WF t y) : Inet.sort t x y = 0 ↔ Inet.cmpEq t x y = true := by
  have hl : x.addr.length = y.addr.length := by rw [hx.len, hy.len]
  unfold Inet.sort Inet.cmpEq
  cases hp : t.pfx with
  | true =>
    simp only [if_true]
    rw [memcmp_zero _ _ (by simp [hl])]
    have zx := hx.nozone hp; have zy := hy.nozone hp
    constructor
    · intro e
      have e1 := List.append_inj e hl
      have := ofNat8_inj _ _ hx.plen hy.plen (by simpa using e1.2)
      simp [e1.1, zx, zy, this]
    · intro e
      simp only [Bool.and_eq_true, beq_iff_eq] at e
      rw [e.1.1, e.2]
  | false =>
    simp only [Bool.false_eq_true, if_false]
    have px := hx.noplen hp; have py := hy.noplen hp
    by_cases c : memcmp x.addr y.addr = 0
    · have ea := (memcmp_zero _ _ hl).mp c
      simp only [ea, memcmp_refl, bne_self_eq_false, Bool.false_eq_true, if_false, beq_self_eq_true, Bool.true_and, px, py, Bool.and_true]
      cases x.zone with
      | none => cases y.zone with
        | none => simp [zoneOrd]
        | some z => simp [zoneOrd]
      | some z => cases y.zone with
        | none => simp [zoneOrd]
        | some z' => simp [zoneOrd, strcmp_zero]
    · have : (memcmp x.addr y.addr != 0) = true := by simpa using c
      simp only [this, if_true]
      constructor
      · intro e; exact absurd e c
      · intro e
        simp only [Bool.and_eq_true, beq_iff_eq] at e
        exact absurd ((memcmp_zero _ _ hl).mpr e.1.1) c

/-- `inet_sort_antisymm`: exchanging the arguments negates the answer -/
theorem inet_sort_antisymm (t : ITy) (x y : IVal) : Inet.sort t x y = -Inet.sort t y x := by
  unfold Inet.sort
  cases t.pfx with
  | true => simp only [if_true]; exact memcmp_antisymm _ _
  | false =>
    simp only [Bool.false_eq_true, if_false]
    have ha := memcmp_antisymm x.addr y.addr
    by_cases c : memcmp y.addr x.addr = 0
    · have c' : memcmp x.addr y.addr = 0 := by rw [ha, c]; rfl
      simp only [c, c', bne_self_eq_false, Bool.false_eq_true, if_false]
      exact zoneOrd_antisymm _ _
    · have c' : memcmp x.addr y.addr ≠ 0 := by rw [ha]; omega
      have b1 : (memcmp y.addr x.addr != 0) = true := by simpa using c
      have b2 : (memcmp x.addr y.addr != 0) = true := by simpa using c'
      simp only [b1, b2, if_true]; exact ha

/-- `inet_sort_total_order`: the sort callback is transitive on well-formed values (with antisymmetry above and `sort = 0 ⇔ equal`: a
    total order; the zones are ordered with no zone first, then `strcmp`) -/
theorem inet_sort_trans (t : ITy) (x y z : IVal) (hx : WF t x) (hy : WF t y) (hz : WF t z)
    (h1 : Inet.sort t x y ≤ 0) (h2 : Inet.sort t y z ≤ 0) : Inet.sort t x z ≤ 0 := by
  have l1 : x.addr.length = y.addr.length := by rw [hx.len, hy.len]
  have l2 : y.addr.length = z.addr.length := by rw [hy.len, hz.len]
  unfold Inet.sort at *
  cases hp : t.pfx with
  | true =>
    simp only [hp, if_true] at h1 h2 ⊢
    exact memcmp_trans _ _ _ (by simp [l1]) (by simp [l2]) h1 h2
  | false =>
    simp only [hp, Bool.false_eq_true, if_false] at h1 h2 ⊢
    by_cases cxy : memcmp x.addr y.addr = 0
    · have exy := (memcmp_zero _ _ l1).mp cxy
      rw [exy] at h1 ⊢
      simp only [memcmp_refl, bne_self_eq_false, Bool.false_eq_true, if_false] at h1
      by_cases cyz : memcmp y.addr z.addr = 0
      · simp only [cyz, bne_self_eq_false, Bool.false_eq_true, if_false] at h2 ⊢
        exact zoneOrd_trans _ _ _ h1 h2
      · have : (memcmp y.addr z.addr != 0) = true := by simpa using cyz
        simp only [this, if_true] at h2 ⊢; exact h2
    · have bxy : (memcmp x.addr y.addr != 0) = true := by simpa using cxy
      simp only [bxy, if_true] at h1
      by_cases cyz : memcmp y.addr z.addr = 0
      · have eyz := (memcmp_zero _ _ l2).mp cyz
        rw [← eyz]; simp only [bxy, if_true]; exact h1
      · have byz : (memcmp y.addr z.addr != 0) = true := by simpa using cyz
        simp only [byz, if_true] at h2
        have t3 := memcmp_trans _ _ _ l1 l2 h1 h2
        by_cases cxz : memcmp x.addr z.addr = 0
        · exfalso
          have exz := (memcmp_zero _ _ (l1.trans l2)).mp cxz
          rw [exz] at h1
          have := memcmp_antisymm z.addr y.addr
          omega
        · have : (memcmp x.addr z.addr != 0) = true := by simpa using cxz
          simp only [this, if_true]; exact t3

example : Inet.sort shapeV6Address ⟨List.replicate 16 0, none, 0, none⟩ ⟨List.replicate 16 0, some (b "a"), 0, none⟩ = -1 ∧
    Inet.sort shapeV6Address ⟨List.replicate 16 0, some (b "ab"), 0, none⟩ ⟨List.replicate 16 0, some (b "b"), 0, none⟩ = -1 ∧
    Inet.sort ipv4Prefix ⟨[10, 0, 0, 0], none, 8, none⟩ ⟨[10, 0, 0, 0], none, 16, none⟩ = -1 := by decide +kernel

/-! ## LYB -/

/-- `inet_lyb_roundtrip_partial`: a well-formed value whose zone (if any) is a non-empty string of ASCII letters and digits, whose prefix
    length is within the limit and whose host bits are zero comes back from its LYB form with the same address, zone and length -/
theorem inet_lyb_roundtrip_partial (t : ITy) (v : IVal) (hw : WF t v)
    (hzone : ∀ z, v.zone = some z → z ≠ [] ∧ z.all isAlnum = true) (hnz : t.pfx = false → t.zone = false → v.zone = none)
    (hmax : v.plen ≤ t.maxp) (hmask : t.pfx = true → zeroHost v.plen v.addr = v.addr) :
    Inet.unlyb t (Inet.lyb t v) = .ok ⟨v.addr, v.zone, v.plen, none⟩ := by
  have hl := hw.len
  unfold Inet.unlyb Inet.lyb
  cases hp : t.pfx with
  | true =>
    have hz := hw.nozone hp
    have e1 : (v.addr ++ [UInt8.ofNat v.plen]).getD t.size 0 = UInt8.ofNat v.plen := by
      rw [← hl]; simp [List.getD_eq_getElem?_getD]
    have e2 : (UInt8.ofNat v.plen).toNat = v.plen := ofNat_toNat_of_lt _ hw.plen
    have e3 : (v.addr ++ [UInt8.ofNat v.plen]).take t.size = v.addr := by rw [← hl]; simp
    simp only [if_true, e1, e2, e3, List.length_append, List.length_singleton, hl, bne_self_eq_false, Bool.false_eq_true, if_false]
    have : ¬ v.plen > t.maxp := by omega
    simp [this, hmask hp, hz]
  | false =>
    simp only [Bool.false_eq_true, if_false]
    have hpl := hw.noplen hp
    cases hzt : t.zone with
    | true =>
      simp only [if_true]
      cases hzv : v.zone with
      | none =>
        simp only [Option.getD_none, List.append_nil, hl, Nat.lt_irrefl, if_false, List.drop_length, List.all_nil, Bool.not_true, Bool.false_eq_true]
        simp [← hl, hpl]
      | some z =>
        obtain ⟨hne, hall⟩ := hzone z hzv
        have hpos : 0 < z.length := List.length_pos_iff.mpr hne
        have e1 : (v.addr ++ z).drop t.size = z := by rw [← hl]; simp
        have e2 : (v.addr ++ z).take t.size = v.addr := by rw [← hl]; simp
        simp only [Option.getD_some, List.length_append, hl, e1, e2, hall, Bool.not_true, Bool.false_eq_true, if_false]
        have c1 : ¬ (t.size + z.length < t.size) := by omega
        have c2 : t.size + z.length > t.size := by omega
        simp [c1, c2, hpl]
    | false =>
      have := hnz hp hzt
      simp [this, hl, hpl]

/-- `inet_lyb_roundtrip_fails` — full strength: every value the text form yields comes back from its LYB form.  False: the pattern of
    `ipv4-address` / `ipv6-address` allows every Unicode letter and digit in the zone (`[\p{N}\p{L}]+`), the LYB store callback only
    `isalnum` bytes: `1.2.3.4%é` is stored, printed as LYB (`01 02 03 04 c3 a9`) and refused when read back ("Invalid LYB ipv4-address
    zone character") — a data tree with such a leaf cannot be parsed back from its LYB form.  Stated for the conversion step (the value
    passed hints and patterns): that `1.2.3.4%é` satisfies the pattern of `ipv4-address` is computed by the compiled model and by libyang
    on every run (law `inet_lyb_zone` of `tools/checks/valinet.py`); the kernel cannot reduce the Unicode category lookup of `\p{L}`. -/
theorem inet_lyb_roundtrip_fails :
    ¬ ∀ (t : ITy) (s : Bytes) (v : IVal), Inet.convert t s = .ok v → ∃ w, Inet.unlyb t (Inet.lyb t v) = .ok w := by
  intro h
  obtain ⟨w, hw⟩ := h ipv4Address (b "1.2.3.4%é") ⟨[1, 2, 3, 4], some (b "é"), 0, some (b "1.2.3.4%é")⟩ (by decide +kernel)
  have : Inet.unlyb ipv4Address (Inet.lyb ipv4Address ⟨[1, 2, 3, 4], some (b "é"), 0, some (b "1.2.3.4%é")⟩) = .error .LybZone := by decide +kernel
  rw [this] at hw; exact absurd hw (by simp)

example : Inet.unlyb shapeV6Prefix (List.replicate 16 0xff ++ [65]) = .ok ⟨List.replicate 8 0xff ++ [0x80] ++ List.replicate 7 0, none, 65, none⟩ ∧
    Inet.unlyb shapeV6Prefix (List.replicate 16 0xff ++ [129]) = .error .LybPrefixLen ∧ Inet.unlyb ipv4NoZone [1, 2, 3] = .error .LybSize ∧
    Inet.unlyb ipv4Address ([1, 2, 3, 4] ++ b "e_0") = .error .LybZone := by decide +kernel

end LyModel.Props.C03Inet
