import LyModel.Diff.UserOrdRev
import LyModel.Props.C13
/-!
# C13 `reverse_apply` for user-ordered (leaf-)lists — the repaired `lyd_diff_reverse_all` (finding F15 (a), (b))

`fixes/F15.diff` adds a second pass to `lyd_diff_reverse_all` (`lyd_diff_reverse_userord_r`): the anchor metadata of a reversed
`create` / `delete` of a user-ordered instance is renamed (`orig-key` ↔ `key`, `orig-value` ↔ `value`, `orig-position` ↔
`position`), the user-ordered descendants of a subtree that is now created get their anchors, and the sibling instances of every
user-ordered (leaf-)list are put in REVERSE order.  `Generated.Diff13.reverseUserordRepaired` is read off `src/diff.c`; the model
`Diff.reverse` follows it (Diff/Reverse.lean: `reverseRepaired` / `reversePinned`), and the check compares model and code on every
generated user-ordered case, for both states of the source.

* `userord_reverse_apply` — **proved**, the list core of C06 (`UO.diffU`, `UO.applyU`; instances abstracted to their identities):
  for ALL duplicate-free lists `a`, `b`, the operations of `diff(a, b)` inverted one by one and applied to `b` in reverse order
  give `a` back.  `UO.diffU'` is `UO.diffU` with the original anchors `lyd_diff_userord_attrs` records (`userord_diff_orig_forget`).
* `userord_reverse_needs_order` — the same inverse operations in FORWARD order (what the pinned code emits, F15 (a)) do not.
* kernel-checked: the tree model with the repair gives `A` back on the two witnesses of F15 (`reverse_apply_userord_fails`,
  `reverse_apply_userord_delete_fails` in Props/C13.lean are stated for the unrepaired source).
OPEN: the bridge from the list core to the tree model (`Diff.diff` / `Diff.reverseRepaired` / `Diff.apply` on trees with
user-ordered lists) — the same gap as for C06 `userord_apply_diff` (see the end of Props/C06.lean); the position arithmetic of
F15 (c) (`revPosition`) is in the model and compared with the code on every generated case but has no general theorem (the list
core addresses by identity); the empty-string anchor (F15 (d), a consequence of F122) is not repaired.
-/
namespace LyModel.Props.C13RevUO
open LyModel LyModel.Tree LyModel.Diff LyModel.Props.C13

/-! ## the list core -/

/-- `UO.diffU'` is `UO.diffU` (C06) with the original anchor of every delete / move recorded -/
theorem userord_diff_orig_forget (a b : List Nat) : (UO.diffU' a b).map UO.UOp'.forget = UO.diffU a b :=
  UO.diffU'_forget a b

/-- **`reverse_apply`, user-ordered core.**  For one user-ordered (leaf-)list with duplicate-free instance identities: take the
operations the two passes of `lyd_diff_siblings_r` generate for `(a, b)` (all deletes, each with its predecessor as original
anchor; then per position of `b` a create or a move anchored at the instance placed just before it, a move also with its old
predecessor as original anchor), invert every operation (`UO.invOp`: create ↔ delete, anchor ↔ original anchor) and reverse their
order (`UO.reverseU`, the repaired `lyd_diff_reverse_all`); applied to `b` this yields `a` — for all lists, all lengths. -/
theorem userord_reverse_apply (a b : List Nat) (nda : a.Nodup) (ndb : b.Nodup) :
    UO.applyU' b (UO.reverseU (UO.diffU' a b)) = some a :=
  UO.chain_reverse (UO.diffU'_chain a b nda ndb)

/-- … and forwards the operations lead from `a` to `b` (C06 `userord_apply_diff` for `diffU'`) -/
theorem userord_apply_diff_orig (a b : List Nat) (nda : a.Nodup) (ndb : b.Nodup) :
    UO.applyU' a (UO.diffU' a b) = some b :=
  UO.chain_apply (UO.diffU'_chain a b nda ndb)

/-- reversing twice gives the operations back -/
theorem userord_reverse_involutive (ops : List UO.UOp') : UO.reverseU (UO.reverseU ops) = ops := by
  have hinv : ∀ o, UO.invOp (UO.invOp o) = o := by intro o; cases o <;> rfl
  simp [UO.reverseU, List.map_reverse, Function.comp_def, hinv]

-- non-vacuity: the rotation of F15 (a), and a pair with a delete, a move and a create
example : UO.diffU' [0, 1, 2] [1, 2, 0] = [.move 1 none (some 0), .move 2 (some 1) (some 0)] := by decide
example : UO.reverseU (UO.diffU' [0, 1, 2] [1, 2, 0]) = [.move 2 (some 0) (some 1), .move 1 (some 0) none] := by decide
example : UO.applyU' [1, 2, 0] (UO.reverseU (UO.diffU' [0, 1, 2] [1, 2, 0])) = some [0, 1, 2] :=
  userord_reverse_apply _ _ (by decide) (by decide)
example : UO.diffU' [1, 2, 3, 4, 5] [5, 1, 2, 7, 3] = [.del 4 (some 3), .move 5 none (some 3), .create 7 (some 2)] := by decide
example : UO.reverseU (UO.diffU' [1, 2, 3, 4, 5] [5, 1, 2, 7, 3]) =
    [.del 7 (some 2), .move 5 (some 3) none, .create 4 (some 3)] := by decide
example : UO.applyU' [5, 1, 2, 7, 3] (UO.reverseU (UO.diffU' [1, 2, 3, 4, 5] [5, 1, 2, 7, 3])) = some [1, 2, 3, 4, 5] := by decide

/-- **the order matters** (finding F15 (a) at the level of the core): the inverse operations in the forward order — what
`lyd_diff_reverse_all` emits without the second pass — do not give `a` back.  a = `0 1 2`, b = `1 2 0`: the result is `0 2 1`. -/
theorem userord_reverse_needs_order :
    ¬ ∀ (a b : List Nat), a.Nodup → b.Nodup → UO.applyU' b ((UO.diffU' a b).map UO.invOp) = some a := by
  intro h
  exact absurd (h [0, 1, 2] [1, 2, 0] (by decide) (by decide)) (by decide)

example : UO.applyU' [1, 2, 0] ((UO.diffU' [0, 1, 2] [1, 2, 0]).map UO.invOp) = some [0, 2, 1] := by decide

/-! ## the tree model with the repair, on the witnesses of F15 -/

/-- `lyd_diff_apply_all(B, reversed)` for the repaired reversal, whatever the source currently is -/
def reverseApplyRepaired (S : Schema) (A B : List DNode) : Except DiffErr (List DNode) :=
  (reverseRepaired S (diff S true A B)).bind (applyD S {} B)

/-- F15 (a): A = `0 1 2`, B = `1 2 0` — the repaired reversal gives `0 1 2` back -/
example : (match reverseApplyRepaired uoS [ul 0, ul 1, ul 2] [ul 1, ul 2, ul 0] with
    | .ok r => dataEqL true r [ul 0, ul 1, ul 2] | .error _ => false) = true := by decide +kernel
/-- F15 (b): A = `0 1`, B = `1` — the reversed `delete` is a `create` with the anchor `value`, apply succeeds with `0 1` -/
example : (match reverseApplyRepaired uoS [ul 0, ul 1] [ul 1] with
    | .ok r => dataEqL true r [ul 0, ul 1] | .error _ => false) = true := by decide +kernel
/-- the reversed diff of F15 (a) is `ul=2 replace value=0 orig-value=1 ; ul=1 replace value=0 orig-value=''` (the pinned code
emits the same two nodes in the order `ul=1 ; ul=2`) -/
example : (match reverseRepaired uoS (diff uoS true [ul 0, ul 1, ul 2] [ul 1, ul 2, ul 0]) with
    | .ok r => r.map (fun (n : DNode) => (n.val, getMeta n "value", getMeta n "orig-value")) ==
        [(natBytes 2, some (natBytes 0), some (natBytes 1)), (natBytes 1, some (natBytes 0), some [])]
    | .error _ => false) = true := by decide +kernel

/-- the law as the check evaluates it (`reverseApply`, which follows the source): once the second pass is in `src/diff.c` both
witnesses of F15 give `A` back -/
example : Generated.Diff13.reverseUserordRepaired = true →
    (match reverseApply uoS true [ul 0, ul 1, ul 2] [ul 1, ul 2, ul 0] with
      | .ok r => dataEqL true r [ul 0, ul 1, ul 2] | .error _ => false) = true := by decide +kernel
example : Generated.Diff13.reverseUserordRepaired = true →
    (match reverseApply uoS true [ul 0, ul 1] [ul 1] with
      | .ok r => dataEqL true r [ul 0, ul 1] | .error _ => false) = true := by decide +kernel

/-! ### position-addressed lists (finding F15 (c)): `lyd_diff_reverse_position` -/

/-- `leaf-list sl { config false; type uint8; }` — a state leaf-list is addressed by position -/
def posS : Schema :=
  { modName := "uopos", nodes := [ { depth := 0, kind := .leaflist, name := "sl", ty := .uint8, userord := true, config := false } ] }

example : posS.isDupInst 0 = true ∧ posS.isUserOrd 0 = true := by decide

/-- A = `0 1`, B = `1 0`: the forward move is `sl=1 position='' orig-position='1'`; switched (pinned code) it asks for the place
after instance 1 — the moved instance itself — and apply fails; `lyd_diff_reverse_position` makes `position='2'
orig-position=''` of it and apply gives `0 1` back -/
example : Generated.Diff13.reverseUserordRepaired = false →
    (match reverseApply posS true [ul 0, ul 1] [ul 1, ul 0] with
      | .ok _ => false | .error e => e == .einval) = true := by decide +kernel
example : Generated.Diff13.reverseUserordRepaired = true →
    (match reverseApply posS true [ul 0, ul 1] [ul 1, ul 0] with
      | .ok r => dataEqL true r [ul 0, ul 1] | .error _ => false) = true := by decide +kernel
/-- the arithmetic on its own: forward `position = p`, `orig-position = q`; the two cases `p ≤ q` (moved towards the front) and
`p > q`, and a reversed move reverses back -/
example : (match revPosition (.term 0 {} [("orig-position", bs "3"), ("position", bs "1")] []) with
    | .ok n => n.metas == [("orig-position", bs "1"), ("position", bs "4")] | .error _ => false) = true := by decide +kernel
example : (match revPosition (.term 0 {} [("orig-position", bs "1"), ("position", bs "4")] []) with
    | .ok n => n.metas == [("orig-position", bs "3"), ("position", bs "1")] | .error _ => false) = true := by decide +kernel
example : (match revPosition (.term 0 {} [("orig-position", bs "1"), ("position", [])] []) with
    | .ok n => n.metas == [("orig-position", []), ("position", bs "2")] | .error _ => false) = true := by decide +kernel

/-- on diffs without user-ordered nodes the repaired reversal is the pinned one (`Diff.reverse_of_noUO`): the theorems of
Props/C13.lean about the fragment hold for both values of the switch -/
theorem reverse_switch_irrelevant {S : Schema} {D R : List DNode} (hD : uoFreeL S D = true)
    (h : reversePinned S D = .ok R) : reverse S D = .ok R :=
  reverse_of_noUO hD h

example : uoFreeL exS (diff exS true exA exB) = true ∧ (diff exS true exA exB).length = 2 := by decide +kernel

end LyModel.Props.C13RevUO
