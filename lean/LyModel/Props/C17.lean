import LyModel.LyHt.Model2
namespace LyModel.Props.C17
theorem placeholder : True := trivial
end LyModel.Props.C17
