import LyModel.LyHt.LemmasSpec
import LyModel.Dict.LemmasSpec
/-!
# C17 — string references balance; the hash table under the dictionary is a faithful finite map

Property theorems about the models of `hash_table.c` (L2 = bucket lists with the code's bucket function, insertion
order, resize policy and re-insertion order; L3 = multiset of `(hash, value)`) and of `dict.c` (reference-counted
strings on that table).  The L1 (record-array) layer and its relation to L2 are in `Props/C17L1.lean`.

All statements quantify over every table state satisfying the representation invariant (`Inv2`, `Load`), every
callback, every hash value — and, for the dictionary, over every hash *function* `H`, so that collisions of any kind
(same bucket, same 32-bit hash) are covered.  The runtime half of C17 (no leak / double free over API histories) is
checked on the implementation by `harness/api_life.c` under ASan/LSan; it is not a theorem.
-/
namespace LyModel.Props.C17
open List LyModel LyModel.LyHt LyModel.LyHt.Ht2 LyModel.Dict LyModel.Generated

variable {α : Type}

/-! ## hash table: representation invariant -/

/-- `lyht_new` establishes the invariant: `size` buckets, no record, load 0. -/
theorem ht_new_inv (size resize : Nat) (hr : resize ≤ 2) :
    Inv2 (Ht2.new size resize : Ht2 α) ∧ Load (Ht2.new size resize : Ht2 α) := by
  unfold Ht2.new
  generalize hN : (if size < LYHT_MIN_SIZE then LYHT_MIN_SIZE else size) = N
  have hpos : 0 < N := by rw [← hN]; split <;> simp [LYHT_MIN_SIZE] at * <;> omega
  have hu : (empty N resize : Ht2 α).used = 0 := by simp [used]
  exact ⟨empty_inv N resize hpos, by rw [hu]; exact Nat.zero_le _, fun _ => by rw [hu]; simp [LYHT_ENLARGE_PERCENTAGE], hr⟩

/-- non-vacuity (audit): a requested size below `LYHT_MIN_SIZE` (raised to 8) with shrinking enabled from the start -/
example : Inv2 (Ht2.new 3 2 : Ht2 Nat) ∧ Load (Ht2.new 3 2 : Ht2 Nat) ∧ (Ht2.new 3 2 : Ht2 Nat).size = 8 :=
  ⟨(ht_new_inv 3 2 (by decide)).1, (ht_new_inv 3 2 (by decide)).2, by decide⟩

/-! ### audit support: populated witness tables

`Inv2` / `Load` / `Rel` quantify over all bucket indices, so they are not `decide`-able; for the witness tables they are
obtained from the refinement lemma `Ht2.run_spec` applied to the history that builds the table.  Used only by the
`non-vacuity (audit)` examples. -/

/-- the plain keyed callback: values are equal when they are the same number (any `mod`) -/
def auVe : VEq Nat := fun _ a b => a == b

theorem auVe_equiv : IsEquiv auVe (fun a b => a == b) :=
  ⟨fun _ _ _ => rfl, fun a => by simp, fun a b h => by simp only [beq_iff_eq] at *; omega,
   fun a b c h1 h2 => by simp only [beq_iff_eq] at *; omega⟩

theorem auNew_rel (ve : VEq Nat) (size : Nat) : Rel ve (Ht2.new size 1 : Ht2 Nat) [] := by
  obtain ⟨h1, h2⟩ := ht_new_inv (α := Nat) size 1 (by decide)
  refine ⟨h1, h2, ?_, ?_, ?_⟩
  · unfold Ht2.new; simp [empty]
  · unfold Ht2.new; rw [empty_toList]
  · unfold Distinct; exact List.Pairwise.nil

/-- five records in a resizable table of 8, ALL in bucket 3 (hashes 3, 3, 11, 19, 3: equal-hash and equal-bucket
    collisions); shrinking got armed at the 4th record (`resize = 2`); the next insertion reaches 75 % and enlarges -/
def auH : Ht2 Nat := ((Ht2.new 8 1 : Ht2 Nat).run auVe [.ins 1 3, .ins 2 3, .ins 3 11, .ins 4 19, .ins 5 3]).2

theorem auH_rel : Rel auVe auH (LyHt.specRun (fun a b => a == b) [] [.ins 1 3, .ins 2 3, .ins 3 11, .ins 4 19, .ins 5 3]).2 :=
  (Ht2.run_spec auVe_equiv _ (auNew_rel auVe 8)).2

example : auH.size = 8 ∧ auH.resize = 2 ∧ auH.bucket 3 = [(3, 1), (3, 2), (11, 3), (19, 4), (3, 5)] ∧ auH.used = 5 := by decide

/-- four records left in a table that was enlarged to 16 (six inserts, two removes): the next remove (18 % < 25 %) shrinks -/
def auH16 : Ht2 Nat :=
  ((Ht2.new 8 1 : Ht2 Nat).run auVe [.ins 1 3, .ins 2 3, .ins 3 11, .ins 4 19, .ins 5 3, .ins 6 35, .rem 2 3, .rem 5 3]).2

theorem auH16_rel : Rel auVe auH16
    (LyHt.specRun (fun a b => a == b) [] [.ins 1 3, .ins 2 3, .ins 3 11, .ins 4 19, .ins 5 3, .ins 6 35, .rem 2 3, .rem 5 3]).2 :=
  (Ht2.run_spec auVe_equiv _ (auNew_rel auVe 8)).2

example : auH16.size = 16 ∧ auH16.resize = 2 ∧ auH16.toList = [(3, 1), (19, 4), (35, 6), (11, 3)] := by decide

/-- Every operation keeps the representation invariant — bucket array of `size` entries, every record chained in the
bucket `hash & (size-1)`, `used ≤ size`, load below the enlarge threshold while resizing is enabled — whatever the
equality callbacks do (also for unchecked inserts of duplicates and inconsistent callbacks). -/
theorem ht_inv_preserved (h : Ht2 α) (hi : Inv2 h) (hl : Load h) (ve : VEq α) (rve : Option (VEq α)) (check wm : Bool)
    (v : α) (hash : UInt32) :
    (Inv2 (h.insert ve rve check wm v hash).2 ∧ Load (h.insert ve rve check wm v hash).2) ∧
    (Inv2 (h.remove ve rve v hash).2 ∧ Load (h.remove ve rve v hash).2) :=
  ⟨⟨insert_inv h hi ve rve check wm v hash, insert_load_all h hi hl ve rve check wm v hash⟩,
   ⟨remove_inv h hi ve rve v hash, remove_load h hi hl ve rve v hash⟩⟩

example : Inv2 ((Ht2.new 8 1 : Ht2 Nat).insert (fun _ a b => a == b) none true true 5 77).2 :=
  (ht_inv_preserved _ (ht_new_inv 8 1 (by decide)).1 (ht_new_inv 8 1 (by decide)).2 _ none true true 5 77).1.1

/-- non-vacuity (audit): at the populated table `auH` (5 of 8, one long chain) the 6th insertion enlarges to 16; at `auH16`
    a remove shrinks back to 8 — invariant and load bound hold after both -/
example : (Inv2 (auH.insert auVe none true true 6 35).2 ∧ Load (auH.insert auVe none true true 6 35).2) ∧
    (auH.insert auVe none true true 6 35).2.size = 16 :=
  ⟨(ht_inv_preserved auH auH_rel.inv auH_rel.load auVe none true true 6 35).1, by decide⟩

example : (Inv2 (auH16.remove auVe none 4 19).2 ∧ Load (auH16.remove auVe none 4 19).2) ∧
    (auH16.remove auVe none 4 19).2.size = 8 ∧ (auH16.remove auVe none 4 19).2.used = 3 :=
  ⟨(ht_inv_preserved auH16 auH16_rel.inv auH16_rel.load auVe none true true 4 19).2, by decide, by decide⟩

/-- non-vacuity (audit): "whatever the callbacks do" — an inconsistent callback (never equal when checking, always equal
    when searching) and an unchecked duplicate insert -/
example : Inv2 (auH.insert (fun m _ _ => !m) (some (fun _ _ _ => true)) false true 1 3).2 ∧
    Load (auH.insert (fun m _ _ => !m) (some (fun _ _ _ => true)) false true 1 3).2 :=
  (ht_inv_preserved auH auH_rel.inv auH_rel.load _ _ false true 1 3).1

/-- Memory-safety obligation of `_lyht_insert_with_resize_cb` (`assert(rec_idx < ht->size)` is compiled out): a table
with resizing enabled always has a free record — `insert` never reports `full`. -/
theorem ht_resizable_never_full (h : Ht2 α) (hi : Inv2 h) (hl : Load h) (hrs : h.resize ≠ 0) (ve : VEq α)
    (rve : Option (VEq α)) (check wm : Bool) (v : α) (hash : UInt32) :
    (h.insert ve rve check wm v hash).1 ≠ .full := by
  have hfree := free_of_load' hi hl hrs
  by_cases hnf : check = true → (h.bucket hash).find? (hit ve true v hash) = none
  · rw [insert_eq h ve rve check wm v hash hnf hfree]
    split
    · cases wm
      · simp
      · simp only [if_true]; split <;> simp
    · simp
  · have hc : check = true := by
      cases check with
      | false => exact absurd (fun h => by cases h) hnf
      | true => rfl
    subst hc
    cases hf : (h.bucket hash).find? (hit ve true v hash) with
    | none => exact absurd (fun _ => hf) hnf
    | some r => unfold Ht2.insert; simp only [if_true]; rw [hf]; simp

/-- non-vacuity (audit): the hypotheses hold at `auH`, the last state before an enlargement (5 of 8 records, `resize = 2`) -/
example : (auH.insert auVe none false false 9 0).1 ≠ .full :=
  ht_resizable_never_full auH auH_rel.inv auH_rel.load (by decide) auVe none false false 9 0

/-- …while a fixed-size table (`resize = 0`) filled to `size` records does report it (the C code would write out of
bounds there; callers size such tables with `lyht_get_fixed_size`). -/
example : ((List.range 8).foldl (fun (h : Ht2 Nat) i => (h.insert (fun _ a b => a == b) none false false i 0).2) (Ht2.new 8 0)
    |>.insert (fun _ a b => a == b) none false false 9 0).1 = .full := by decide

/-- The nested `lyht_insert` calls of `lyht_resize` can never resize again (the model re-inserts with `insertCore`):
while an enlargement re-inserts the records of a table with `used ≤ size`, and while a shrink re-inserts those of a
table below the shrink threshold, the load of the new table stays below the enlarge threshold after every single
re-insertion. -/
theorem nested_insert_never_resizes (h : Ht2 α) (ve : VEq α) (check : Bool) (pre : List (UInt32 × α)) (post : List (UInt32 × α))
    (hsplit : h.toList = pre ++ post) (hpos : 0 < h.size) :
    (h.used ≤ h.size →
      ((pre.foldl (reins ve check) (empty (h.size * 2) h.resize)).used + 1) * 100 / (h.size * 2) < LYHT_ENLARGE_PERCENTAGE ∨ post = []) ∧
    (h.used * 100 / h.size < LYHT_SHRINK_PERCENTAGE → LYHT_MIN_SIZE < h.size →
      ((pre.foldl (reins ve check) (empty (h.size / 2) h.resize)).used + 1) * 100 / (h.size / 2) < LYHT_ENLARGE_PERCENTAGE ∨ post = []) := by
  have hu : h.used = h.toList.length := rfl
  have hlen : pre.length + post.length = h.toList.length := by rw [hsplit]; simp
  constructor
  · intro hle
    cases post with
    | nil => exact Or.inr rfl
    | cons x xs =>
      left
      have := fold_used_le ve check pre (empty (h.size * 2) h.resize) (empty_inv _ _ (by omega))
      simp only [used, empty_toList, List.length_nil, Nat.zero_add, List.length_cons] at this hlen
      refine div_lt_of (by omega) ?_
      simp only [LYHT_ENLARGE_PERCENTAGE, used]; omega
  · intro hlt hmin
    cases post with
    | nil => exact Or.inr rfl
    | cons x xs =>
      left
      simp only [LYHT_MIN_SIZE] at hmin
      have := fold_used_le ve check pre (empty (h.size / 2) h.resize) (empty_inv _ _ (by omega))
      simp only [used, empty_toList, List.length_nil, Nat.zero_add, List.length_cons] at this hlen
      have hq := lt_of_div hpos hlt
      simp only [LYHT_SHRINK_PERCENTAGE] at hq
      refine div_lt_of (by omega) ?_
      simp only [LYHT_ENLARGE_PERCENTAGE, used]; omega

/-- non-vacuity (audit): enlargement of `auH` with its 6th record linked (6 of 8): after 4 of the 6 re-insertions into the
    table of 16 the next one sees (4 + 1) * 100 / 16 = 31 % -/
example : (((auH.link 6 35).toList.take 4).foldl (reins auVe true) (empty 16 2)).used = 4 ∧
    ((((auH.link 6 35).toList.take 4).foldl (reins auVe true) (empty 16 2)).used + 1) * 100 / 16 < LYHT_ENLARGE_PERCENTAGE := by
  refine ⟨by decide, ?_⟩
  have := (nested_insert_never_resizes (auH.link 6 35) auVe true ((auH.link 6 35).toList.take 4) ((auH.link 6 35).toList.drop 4)
    (List.take_append_drop 4 _).symm (by decide)).1 (by decide)
  rcases this with h | h
  · exact h
  · exact absurd h (by decide)

/-- non-vacuity (audit): the shrink half — `auH16` after the remove of one record (3 of 16 = 18 % < 25 %, 16 > 8), two of the
    three records re-inserted into the table of 8 -/
example : ((([(3, 1), (35, 6)] : List (UInt32 × Nat)).foldl (reins auVe true) (empty 8 2)).used + 1) * 100 / 8 <
    LYHT_ENLARGE_PERCENTAGE := by
  have := (nested_insert_never_resizes (⟨16, 2, [[], [], [], [(3, 1), (35, 6)], [], [], [], [], [], [], [], [(11, 3)], [], [], [], []]⟩ : Ht2 Nat)
    auVe true [(3, 1), (35, 6)] [(11, 3)] rfl (by decide)).2 (by decide) (by decide)
  rcases this with h | h
  · exact h
  · exact absurd h (by decide)

/-! ## hash table: operations against the multiset of records (L3) -/

/-- `find` succeeds iff a matching record is present anywhere in the table (only the bucket `hash & (size-1)` is
searched: completeness of the bucket function), and what it returns is a stored matching record. -/
theorem ht_find_iff (h : Ht2 α) (hi : Inv2 h) (ve : VEq α) (v : α) (hash : UInt32) :
    (h.find ve v hash = none ↔ ∀ r ∈ h.toList, ¬ (r.1 = hash ∧ ve false v r.2 = true)) ∧
    (∀ m, h.find ve v hash = some m → (hash, m) ∈ h.toList ∧ ve false v m = true) := by
  constructor
  · unfold Ht2.find
    rw [Option.map_eq_none_iff, find_none_iff h hi ve false v hash]
    constructor
    · intro hn r hr hc
      have := hn r hr
      simp [hit, hc.1, hc.2] at this
    · intro hn r hr
      have := hn r hr
      unfold hit
      cases h1 : (r.1 == hash) <;> cases h2 : ve false v r.2 <;> simp_all
  · intro m hm
    unfold Ht2.find at hm
    rw [Option.map_eq_some_iff] at hm
    obtain ⟨r, hr, rfl⟩ := hm
    obtain ⟨h1, h2, h3⟩ := find_some_mem h hi ve false v hash r hr
    exact ⟨by rw [← h2]; exact h1, h3⟩

example : (((Ht2.new 8 1 : Ht2 Nat).insert (fun _ a b => a == b) none true true 5 77).2.find (fun _ a b => a == b) 5 77) = some 5 := by
  decide

/-- non-vacuity (audit): at `auH` — value 4 (hash 19) is found behind three colliding records of the same bucket; value 4 under
    the colliding hash 3 is absent, and so says the full scan -/
example : (19, 4) ∈ auH.toList ∧ auVe false 4 4 = true :=
  (ht_find_iff auH auH_rel.inv auVe 4 19).2 4 (by decide)

example : ∀ r ∈ auH.toList, ¬ (r.1 = 3 ∧ auVe false 4 r.2 = true) :=
  (ht_find_iff auH auH_rel.inv auVe 4 3).1.1 (by decide)

/-- Checked insert of a value that is present (same hash, callback says equal in `mod = 1`): `LY_EEXIST`, the equal stored
value is returned, the table is unchanged. -/
theorem ht_insert_exists (h : Ht2 α) (hi : Inv2 h) (ve : VEq α) (rve : Option (VEq α)) (wm : Bool) (v : α) (hash : UInt32)
    (hex : ∃ r ∈ h.toList, r.1 = hash ∧ ve true v r.2 = true) :
    ∃ m, h.insert ve rve true wm v hash = (.exist m, h) ∧ (hash, m) ∈ h.toList ∧ ve true v m = true := by
  cases hf : (h.bucket hash).find? (hit ve true v hash) with
  | none =>
    obtain ⟨r, hr, h1, h2⟩ := hex
    have := (find_none_iff h hi ve true v hash).1 hf r hr
    simp [hit, h1, h2] at this
  | some r =>
    obtain ⟨h1, h2, h3⟩ := find_some_mem h hi ve true v hash r hf
    refine ⟨r.2, ?_, by rw [← h2]; exact h1, h3⟩
    unfold Ht2.insert; simp only [if_true]; rw [hf]

/-- non-vacuity (audit): hypothesis `hex` at `auH`: value 2 under hash 3 is stored (second of the chain) -/
example : ∃ m, auH.insert auVe none true true 2 3 = (.exist m, auH) ∧ (3, m) ∈ auH.toList ∧ auVe true 2 m = true :=
  ht_insert_exists auH auH_rel.inv auVe none true 2 3 ⟨(3, 2), by decide, rfl, by decide⟩

/-- Insert of an absent value (or any unchecked insert) into a table with a free record adds exactly `(hash, v)`;
if the insertion enlarges the table nothing else changes — provided the re-insertion check cannot mistake two records for
each other (`Distinct` for the callback in force during the resize; vacuous for unchecked inserts). -/
theorem ht_insert_adds (h : Ht2 α) (hi : Inv2 h) (ve : VEq α) (rve : Option (VEq α)) (check wm : Bool) (v : α) (hash : UInt32)
    (hab : check = true → ∀ r ∈ h.toList, ¬ (r.1 = hash ∧ ve true v r.2 = true)) (hfree : h.used < h.size)
    (hd : check = true → Distinct (rve.getD ve) ((hash, v) :: h.toList)) :
    (h.insert ve rve check wm v hash).2.toList ~ (hash, v) :: h.toList := by
  refine (insert_state h hi ve rve check wm v hash ?_ hfree hd).2
  intro hc
  rw [find_none_iff h hi ve true v hash]
  intro r hr
  have := hab hc r hr
  unfold hit
  cases h1 : (r.1 == hash) <;> cases h2 : ve true v r.2 <;> simp_all

/-- non-vacuity (audit): checked insert of the absent value 6 (hash 35, same bucket as all five stored records) into `auH`:
    `hab`, `hfree`, `hd` hold, the insertion enlarges the table to 16 and exactly `(35, 6)` is added -/
example : (auH.insert auVe none true true 6 35).2.toList ~ (35, 6) :: auH.toList ∧
    (auH.insert auVe none true true 6 35).2.size = 16 ∧ (auH.insert auVe none true true 6 35).1 = .ok (some 6) :=
  ⟨ht_insert_adds auH auH_rel.inv auVe none true true 6 35 (fun _ => by decide) (by decide) (fun _ => by unfold Distinct; decide),
   by decide, by decide⟩

/-- non-vacuity (audit): `hd` is a real restriction and it is needed — with a resize callback that calls everything equal,
    `Distinct` fails, and the enlarging insertion into `auH` keeps four records of six (one of the three with hash 3) -/
example : ¬ Distinct (fun _ _ _ => true) ((35, 6) :: auH.toList) ∧
    (auH.insert auVe (some (fun _ _ _ => true)) true true 6 35).2.toList.length = 4 := by
  constructor
  · unfold Distinct; decide
  · decide

/-- `remove`: `LY_ENOTFOUND` and no change if no record matches; otherwise exactly one matching record (the first of
its chain) disappears and everything else stays, also across the shrink. -/
theorem ht_remove_spec (h : Ht2 α) (hi : Inv2 h) (ve : VEq α) (rve : Option (VEq α)) (v : α) (hash : UInt32)
    (hd : Distinct (rve.getD ve) h.toList) :
    ((∀ r ∈ h.toList, ¬ (r.1 = hash ∧ ve true v r.2 = true)) → h.remove ve rve v hash = (.notfound, h)) ∧
    ((∃ r ∈ h.toList, r.1 = hash ∧ ve true v r.2 = true) →
      ∃ r, r.1 = hash ∧ ve true v r.2 = true ∧ (h.remove ve rve v hash).1 = .ok none ∧
        h.toList ~ r :: (h.remove ve rve v hash).2.toList) := by
  constructor
  · intro hab
    refine remove_absent h ve rve v hash ?_
    rw [find_none_iff h hi ve true v hash]
    intro r hr
    have := hab r hr
    unfold hit
    cases h1 : (r.1 == hash) <;> cases h2 : ve true v r.2 <;> simp_all
  · rintro ⟨r0, hr0, h1, h2⟩
    cases hf : (h.bucket hash).find? (hit ve true v hash) with
    | none =>
      have := (find_none_iff h hi ve true v hash).1 hf r0 hr0
      simp [hit, h1, h2] at this
    | some r =>
      obtain ⟨_, g2, g3⟩ := find_some_mem h hi ve true v hash r hf
      refine ⟨r, g2, g3, by rw [remove_eq h ve rve v hash r hf], (remove_state h hi ve rve v hash r hf hd).2⟩

/-- non-vacuity (audit): at `auH16` (4 of 16, `Distinct` holds): removing the stored value 4 (hash 19) shrinks the table to 8 and
    removes exactly that record; removing the absent value 9 changes nothing -/
example : ∃ r, r.1 = 19 ∧ auVe true 4 r.2 = true ∧ (auH16.remove auVe none 4 19).1 = .ok none ∧
    auH16.toList ~ r :: (auH16.remove auVe none 4 19).2.toList :=
  (ht_remove_spec auH16 auH16_rel.inv auVe none 4 19 (by unfold Distinct; decide)).2 ⟨(19, 4), by decide, rfl, by decide⟩

example : (auH16.remove auVe none 4 19).2.size = 8 ∧ (auH16.remove auVe none 4 19).2.toList = [(3, 1), (35, 6), (11, 3)] := by decide

example : auH16.remove auVe none 9 3 = (.notfound, auH16) :=
  (ht_remove_spec auH16 auH16_rel.inv auVe none 9 3 (by unfold Distinct; decide)).1 (by decide)

/-- Enlarge / shrink preserve the contents: `abs (resize h) = abs h` as multisets, for unchecked re-insertion always, for
checked re-insertion when no two records are equal for the callback. -/
theorem ht_resize_preserves_contents (h : Ht2 α) (ve : VEq α) (check : Bool) (newSize : Nat) (hn : 0 < newSize)
    (hd : check = true → Distinct ve h.toList) :
    (h.resizeTo ve check newSize).toList ~ h.toList ∧ Inv2 (h.resizeTo ve check newSize) :=
  ⟨resizeTo_toList h ve check newSize hn hd, resizeTo_inv h ve check newSize hn⟩

/-- non-vacuity (audit): checked enlargement of `auH` (one chain of five) to 16 and to 32 buckets: the chain splits over buckets
    3, 11, 19 -/
example : (auH.resizeTo auVe true 32).toList ~ auH.toList ∧ Inv2 (auH.resizeTo auVe true 32) :=
  ht_resize_preserves_contents auH auVe true 32 (by decide) (fun _ => by unfold Distinct; decide)

example : (auH.resizeTo auVe true 32).bucket 3 = [(3, 1), (3, 2), (3, 5)] ∧ (auH.resizeTo auVe true 32).bucket 11 = [(11, 3)] ∧
    (auH.resizeTo auVe true 32).bucket 19 = [(19, 4)] := by decide

/-- The hypothesis is needed: `lyht_resize` re-inserts with the duplicate check whenever the triggering call was a
checked insert or any remove, so duplicates stored through `lyht_insert_no_check` are silently dropped by the next
shrink/enlarge (release builds; `assert(!ret)` in debug builds).  Five copies of one value, then a `remove` that shrinks: -/
theorem ht_resize_preserves_contents_fails :
    ¬ ∀ (h : Ht2 Nat) (ve : VEq Nat) (n : Nat), 0 < n → (h.resizeTo ve true n).toList ~ h.toList := by
  intro hall
  have := (hall ⟨8, 2, [[(0, 1), (0, 1)], [], [], [], [], [], [], []]⟩ (fun _ a b => a == b) 4 (by decide)).length_eq
  revert this; decide

/-- non-vacuity (audit): the scenario the docstring describes, through the API: four unchecked inserts of one value into a
    table of 16 with shrinking enabled, then one `remove` — 3 of 16 = 18 % shrinks with the duplicate check and ONE record is left
    (the witness of the theorem above applies `resizeTo` directly to two copies) -/
example : (((List.range 4).foldl (fun (h : Ht2 Nat) _ => (h.insert auVe none false false 1 0).2) (Ht2.new 16 2)).remove auVe none 1 0).2.toList =
    [(0, 1)] := by decide

/-- **Refinement for every history** (keyed use: the callback is one equivalence relation, inserts are checked, resizing
enabled): whatever sequence of `insert`/`remove`/`find` is applied, with whatever hashes (collisions included), the
replies are those of the abstract finite set and the contents agree as multisets; the simulation relation includes
the representation invariant.
Scope ("keyed use" = hypothesis `IsEquiv`: the callback ignores `mod` and is an equivalence relation).  It is met by callbacks
such as pointer / key equality (XPath set hash, LYB sibling tables, pattern tables).  It is met by NEITHER callback of the
dictionary — `lydict_resize_val_eq` (`resizeEq`) depends on `mod`, `lydict_val_eq` (`valEq len`) is not reflexive (a string of
another length is not "equal" to itself); `ht_refines_spec_vacuous_for_dict_callbacks` proves both — and not by
`lyd_hash_table_val_equal` (pointer equality for `mod = 1`, value equality for `mod = 0`).  So this theorem is NOT a statement about
the dictionary or the data-tree children tables: for those uses the per-operation theorems above (`ht_inv_preserved`, `ht_find_iff`,
`ht_insert_exists`, `ht_insert_adds`, `ht_remove_spec`, which hold for every callback) apply, and the dictionary has its own
refinement theorems below (`dict_refcount_spec*`). -/
theorem ht_refines_spec (ve : VEq α) (e : α → α → Bool) (he : IsEquiv ve e) (ops : List (HOp α)) (h : Ht2 α)
    (l : List (UInt32 × α)) (hr : Rel ve h l) :
    (h.run ve ops).1 = (LyHt.specRun e l ops).1 ∧ (h.run ve ops).2.toList ~ (LyHt.specRun e l ops).2 ∧
    Inv2 (h.run ve ops).2 ∧ Load (h.run ve ops).2 := by
  obtain ⟨h1, h2⟩ := run_spec he ops hr
  exact ⟨h1, h2.perm, h2.inv, h2.load⟩

/-- non-vacuity (audit): the theorem at the history of the example below (collisions, `LY_EEXIST`, enlargement, removals) from
    the fresh table, and continued from the populated table `auH16` (hypothesis `Rel` at a non-empty state) -/
example : ((Ht2.new 8 1 : Ht2 Nat).run auVe
      [.ins 1 3, .ins 2 3, .ins 1 3, .ins 3 11, .ins 4 19, .ins 5 3, .ins 6 3, .rem 2 3, .find 2 3, .find 6 3, .rem 9 9]).1 =
    (LyHt.specRun (fun a b => a == b) []
      [.ins 1 3, .ins 2 3, .ins 1 3, .ins 3 11, .ins 4 19, .ins 5 3, .ins 6 3, .rem 2 3, .find 2 3, .find 6 3, .rem 9 9]).1 :=
  (ht_refines_spec auVe _ auVe_equiv _ _ [] (auNew_rel auVe 8)).1

example : (auH16.run auVe [.rem 4 19, .ins 1 3, .find 3 11, .rem 1 3, .rem 3 11, .find 6 35]).1 =
    [.ok none, .exist 1, .ok (some 3), .ok none, .ok none, .ok (some 6)] ∧
    Inv2 (auH16.run auVe [.rem 4 19, .ins 1 3, .find 3 11, .rem 1 3, .rem 3 11, .find 6 35]).2 :=
  ⟨by decide, (ht_refines_spec auVe _ auVe_equiv [.rem 4 19, .ins 1 3, .find 3 11, .rem 1 3, .rem 3 11, .find 6 35] _ _ auH16_rel).2.2.1⟩

/-- non-vacuity (audit): a coarser equivalence (numbers equal modulo 10: distinct representatives of one class) also meets
    `IsEquiv`; inserting 17 under the hash of the stored 7 reports `LY_EEXIST` with the STORED representative -/
example : ((Ht2.new 8 1 : Ht2 Nat).run (fun _ a b => a % 10 == b % 10) [.ins 7 3, .ins 17 3, .ins 17 4, .find 27 3, .rem 37 3, .find 7 3]).1 =
    (LyHt.specRun (fun a b => a % 10 == b % 10) [] [.ins 7 3, .ins 17 3, .ins 17 4, .find 27 3, .rem 37 3, .find 7 3]).1 ∧
    ((Ht2.new 8 1 : Ht2 Nat).run (fun _ a b => a % 10 == b % 10) [.ins 7 3, .ins 17 3, .ins 17 4, .find 27 3, .rem 37 3, .find 7 3]).1 =
    [.ok (some 7), .exist 7, .ok (some 17), .ok (some 7), .ok none, .notfound] :=
  ⟨(ht_refines_spec (fun _ a b => a % 10 == b % 10) (fun a b => a % 10 == b % 10)
      ⟨fun _ _ _ => rfl, fun a => by simp, fun a b h => by simp only [beq_iff_eq] at *; omega,
       fun a b c h1 h2 => by simp only [beq_iff_eq] at *; omega⟩ _ _ [] (auNew_rel _ 8)).1, by decide⟩

-- AUDIT (resolved): the scope of `ht_refines_spec` (which callbacks meet `IsEquiv`, which do not) is spelled out in its docstring.
/-- **scope of `ht_refines_spec`** (audit theorem): neither callback of the dictionary meets its hypothesis `IsEquiv`, whatever the
abstract relation `e` — `lydict_resize_val_eq` (`resizeEq`) depends on `mod`, `lydict_val_eq` (`valEq len`) is not reflexive for any
`len`.  `ht_refines_spec` therefore says nothing about the dictionary's use of the hash table (that is `dict_refcount_spec*`). -/
theorem ht_refines_spec_vacuous_for_dict_callbacks (e : DRec → DRec → Bool) :
    ¬ IsEquiv resizeEq e ∧ ∀ len, ¬ IsEquiv (valEq len) e := by
  constructor
  · intro h
    have h1 := h.ind true ⟨[1], 0, false⟩ ⟨[1], 0, true⟩
    have h2 := h.ind false ⟨[1], 0, false⟩ ⟨[1], 0, true⟩
    rw [← h2] at h1
    revert h1; decide
  · intro len h
    have h1 := h.ind true ⟨List.replicate (len + 1) 1, 0, true⟩ ⟨List.replicate (len + 1) 1, 0, true⟩
    rw [h.refl] at h1
    have h2 : ((List.replicate (len + 1) (1 : UInt8) ++ [0]).getD len 1 == 0) = false := by
      rw [List.getD_eq_getElem?_getD, List.getElem?_append_left (by simp)]
      simp
    simp only [valEq, h2, Bool.and_false] at h1
    cases h1

/-- a fresh resizable table is related to the empty set -/
theorem ht_new_rel (ve : VEq α) (size : Nat) : Rel ve (Ht2.new size 1 : Ht2 α) [] := by
  obtain ⟨h1, h2⟩ := ht_new_inv (α := α) size 1 (by decide)
  refine ⟨h1, h2, ?_, ?_, ?_⟩
  · unfold Ht2.new; simp [empty]
  · unfold Ht2.new; rw [empty_toList]
  · unfold Distinct; exact List.Pairwise.nil

/-- non-vacuity: a history with equal-hash and equal-bucket collisions, an `LY_EEXIST`, an enlargement (6th record in 8)
and removals -/
example : ((Ht2.new 8 1 : Ht2 Nat).run (fun _ a b => a == b)
    [.ins 1 3, .ins 2 3, .ins 1 3, .ins 3 11, .ins 4 19, .ins 5 3, .ins 6 3, .rem 2 3, .find 2 3, .find 6 3, .rem 9 9]).1 =
    [.ok (some 1), .ok (some 2), .exist 1, .ok (some 3), .ok (some 4), .ok (some 5), .ok (some 6), .ok none, .notfound,
     .ok (some 6), .notfound] := by decide

/-! ## dictionary -/

/-- `lydict_init` gives an empty dictionary satisfying the invariant. -/
theorem dict_init_spec (H : Bytes → UInt32) (n : Nat) : DInv H (Dict.init n) ∧ refs (Dict.init n) = fun _ => 0 :=
  ⟨init_inv H n, init_refs n⟩

/-! ### audit support: decision procedures for the history hypotheses (so that `decide` discharges them on concrete
histories; used only by the `non-vacuity (audit)` examples) -/

instance auOpWfDec (m : SMap) : (o : DOp) → Decidable (OpWf m o)
  | .ins v len zc _ => inferInstanceAs (Decidable ((0 : UInt8) ∉ v ∧ len ≤ v.length ∧ (zc = true → len = v.length)))
  | .dup v alias => inferInstanceAs (Decidable (alias = true → 0 < m v))
  | .rem _ => isTrue trivial

instance auNoPrefDec (H : Bytes → UInt32) : (o : DOp) → Decidable (OpNoPrefixCollision H o)
  | .ins v len _ _ => inferInstanceAs (Decidable (len = v.length ∨ H (v.take len) ≠ H v))
  | .dup _ _ => isTrue trivial
  | .rem _ => isTrue trivial

def auAllOpsDec (P : SMap → DOp → Prop) (dp : ∀ m o, Decidable (P m o)) : (m : SMap) → (ops : List DOp) → Decidable (AllOps P m ops)
  | _, [] => isTrue trivial
  | m, o :: os => @instDecidableAnd _ _ (dp m o) (auAllOpsDec P dp (Dict.specStep m o).2 os)

instance (m : SMap) (ops : List DOp) : Decidable (AllOps OpWf m ops) := auAllOpsDec OpWf (fun m o => auOpWfDec m o) m ops

instance (m : SMap) (ops : List DOp) : Decidable (RemovesMatched m ops) :=
  auAllOpsDec _ (fun m o => match o with
    | .rem v => inferInstanceAs (Decidable (0 < m v))
    | .ins .. => isTrue trivial
    | .dup .. => isTrue trivial) m ops

/-- **`dict_refcount_spec`** (partial, see `_fails`): for every hash function `H`, every dictionary state and every
history of `lydict_insert` / `lydict_insert_zc` / `lydict_dup` / `lydict_remove` calls that respect the API contract,
the dictionary abstracts to the map string ↦ reference count with insert/dup = +1 (creating at 1) and remove = −1
(deleting at 0, `LY_ENOTFOUND` if absent): same replies, same map, invariant kept — through every collision, enlargement
and shrink.  Extra hypothesis: a by-length insert of a proper prefix of the caller's buffer is not a 32-bit hash
collision with the whole buffer. -/
theorem dict_refcount_spec_partial (H : Bytes → UInt32) (d : Dict) (hd : DInv H d) (ops : List DOp)
    (hw : AllOps OpWf (refs d) ops) (hc : ∀ o ∈ ops, OpNoPrefixCollision H o) :
    (d.run H ops).1 = (Dict.specRun (refs d) ops).1 ∧ refs (d.run H ops).2 = (Dict.specRun (refs d) ops).2 ∧
    DInv H (d.run H ops).2 := by
  obtain ⟨h1, h2, h3⟩ := Dict.run_spec H ops d hd hw hc
  exact ⟨h2, h3, h1⟩

/-- the history of the examples below, and a hash under which all strings of equal length parity collide on all 32 bits -/
def exOps : List DOp :=
  [.ins [97] 1 false false, .ins [98] 1 false false, .dup [97] true, .ins [99, 100] 1 false false, .ins [97] 1 true false,
   .rem [97], .rem [98], .rem [97], .rem [99], .rem [97], .rem [97]]

def exH : Bytes → UInt32 := fun s => UInt32.ofNat (s.length % 2)

example : AllOps OpWf (fun _ => 0) exOps ∧ (∀ o ∈ exOps, OpNoPrefixCollision exH o) ∧
    ((Dict.init 8).run exH exOps).1 =
      [.ok [97], .ok [98], .ok [97], .ok [99], .ok [97], .done, .done, .done, .done, .done, .notfound] := by
  refine ⟨?_, ?_, by decide⟩
  · simp [exOps, AllOps, OpWf, Dict.specStep, SMap.upd]
  · intro o ho
    simp only [exOps, List.mem_cons, List.not_mem_nil, or_false] at ho
    rcases ho with h | h | h | h | h | h | h | h | h | h | h <;> subst h <;> simp [OpNoPrefixCollision, exH]

/-- non-vacuity (audit): the theorem itself at `exOps` / `exH` (all 1-byte strings collide on all 32 bits; dup through a
    dictionary pointer; zero-copy insert of a held string; the last remove is unmatched → `LY_ENOTFOUND` on both sides) -/
example : ((Dict.init 8).run exH exOps).1 = (Dict.specRun (fun _ => 0) exOps).1 ∧ DInv exH ((Dict.init 8).run exH exOps).2 := by
  obtain ⟨hi, hr⟩ := dict_init_spec exH 8
  have := dict_refcount_spec_partial exH (Dict.init 8) hi exOps (by rw [hr]; decide) (by decide)
  rw [hr] at this
  exact ⟨this.1, this.2.2⟩

/-- a history uses whole strings only: `lydict_insert(ctx, s, 0)` / `strlen`, `lydict_insert_zc`, `lydict_dup`, `lydict_remove` -/
def WholeStrings (ops : List DOp) : Prop :=
  ∀ o ∈ ops, match o with | .ins v len _ _ => len = v.length | _ => True

/-- audit support: `WholeStrings` is decidable -/
instance (ops : List DOp) : Decidable (WholeStrings ops) :=
  @List.decidableBAll _ _ (fun o => match o with
    | .ins v len _ _ => inferInstanceAs (Decidable (len = v.length))
    | .dup .. => isTrue trivial
    | .rem .. => isTrue trivial) ops

/-- **`dict_refcount_spec`** at full strength for the whole-string API: no hypothesis on the hash function at all. -/
theorem dict_refcount_spec (H : Bytes → UInt32) (d : Dict) (hd : DInv H d) (ops : List DOp)
    (hw : AllOps OpWf (refs d) ops) (hs : WholeStrings ops) :
    (d.run H ops).1 = (Dict.specRun (refs d) ops).1 ∧ refs (d.run H ops).2 = (Dict.specRun (refs d) ops).2 ∧
    DInv H (d.run H ops).2 := by
  refine dict_refcount_spec_partial H d hd ops hw ?_
  intro o ho
  have := hs o ho
  cases o with
  | ins v len zc alias => exact Or.inl this
  | dup v alias => trivial
  | rem v => trivial

example : WholeStrings [.ins [97] 1 false false, .ins [98, 99] 2 true false, .dup [97] true, .rem [97]] := by
  intro o ho
  simp only [List.mem_cons, List.not_mem_nil, or_false] at ho
  rcases ho with h | h | h | h <;> subst h <;> simp

/-! ### audit support: non-empty dictionary states (`DInv` obtained from `dict_refcount_spec` itself) -/

/-- five strings `a` (two references), `b`, `c`, `dd`, `e` in a dictionary of 8 records: the next new string enlarges -/
def auD5 : Dict := ((Dict.init 8).run exH
  [.ins [97] 1 false false, .ins [98] 1 false false, .ins [99] 1 false false, .ins [100, 100] 2 false false,
   .ins [101] 1 true false, .dup [97] true]).2

/-- non-vacuity (audit): `dict_refcount_spec` instantiated at that history (hypotheses `AllOps OpWf`, `WholeStrings` by `decide`) -/
theorem auD5_inv : DInv exH auD5 := by
  obtain ⟨hi, hr⟩ := dict_init_spec exH 8
  exact (dict_refcount_spec exH (Dict.init 8) hi _ (by rw [hr]; decide) (by decide)).2.2

example : auD5.ht.size = 8 ∧ auD5.content = [([100, 100], 1), ([97], 2), ([98], 1), ([99], 1), ([101], 1)] := by decide

/-- non-vacuity (audit): `dict_refcount_spec_partial` from the NON-empty state `auD5`, with a by-length insert of a proper
    prefix (`"fg"` of the buffer `"fgh"`, no hash collision between the two under `exH`) that is the 6th record and enlarges the
    table — the F110 situation without the collision — then a dup of it, removes down to a deletion and an absent remove -/
example : (auD5.run exH [.ins [102, 103, 104] 2 false false, .dup [102, 103] true, .rem [97], .rem [97], .rem [97], .rem [102, 103]]).1 =
      [.ok [102, 103], .ok [102, 103], .done, .done, .notfound, .done] ∧
    (auD5.run exH [.ins [102, 103, 104] 2 false false, .dup [102, 103] true, .rem [97], .rem [97], .rem [97], .rem [102, 103]]).2.ht.size = 16 ∧
    DInv exH (auD5.run exH [.ins [102, 103, 104] 2 false false, .dup [102, 103] true, .rem [97], .rem [97], .rem [97], .rem [102, 103]]).2 :=
  ⟨by decide, by decide,
   (dict_refcount_spec_partial exH auD5 auD5_inv _ (by decide) (by decide)).2.2⟩

/-- The full statement — by-length inserts of any prefix, any hash function — is **false** (§6 F110): with a hash that
makes the prefix `"ab"` collide with the buffer `"abX"` held by the dictionary, the `lydict_insert(ctx, "abX", 2)` that
enlarges the table returns `LY_ENOTFOUND` instead of `"ab"`: while the new record still points to the caller's buffer
`lyht_resize` compares it with `strcmp`, finds it "already present" and drops it. -/
theorem dict_refcount_spec_fails :
    ¬ ∀ (H : Bytes → UInt32) (d : Dict) (ops : List DOp), DInv H d → AllOps OpWf (refs d) ops →
        (d.run H ops).1 = (Dict.specRun (refs d) ops).1 := by
  intro hall
  have := hall (fun _ => 0) (Dict.init 8)
    [.ins [97, 98, 88] 3 false false, .ins [99] 1 false false, .ins [100] 1 false false, .ins [101] 1 false false,
     .ins [102] 1 false false, .ins [97, 98, 88] 2 false false]
    (init_inv _ 8) (by simp [AllOps, OpWf])
  revert this; decide

/-- With the candidate repair `fixes/F110.diff` (`Dict.insertFixed`: look up, copy, then `lyht_insert_no_check`) the full
statement holds: every hash function, every prefix length, no collision hypothesis. -/
theorem dict_refcount_spec_fixed (H : Bytes → UInt32) (d : Dict) (hd : DInv H d) (ops : List DOp)
    (hw : AllOps OpWf (refs d) ops) :
    (d.runF H ops).1 = (Dict.specRun (refs d) ops).1 ∧ refs (d.runF H ops).2 = (Dict.specRun (refs d) ops).2 ∧
    DInv H (d.runF H ops).2 := by
  obtain ⟨h1, h2, h3⟩ := runF_spec H ops d hd hw
  exact ⟨h2, h3, h1⟩

/-- non-vacuity (audit): the theorem at the witness of `dict_refcount_spec_fails` (constant hash, prefix `"ab"` of `"abX"`) -/
example : ((Dict.init 8).runF (fun _ => 0)
    [.ins [97, 98, 88] 3 false false, .ins [99] 1 false false, .ins [100] 1 false false, .ins [101] 1 false false,
     .ins [102] 1 false false, .ins [97, 98, 88] 2 false false]).1 =
    (Dict.specRun (fun _ => 0)
    [.ins [97, 98, 88] 3 false false, .ins [99] 1 false false, .ins [100] 1 false false, .ins [101] 1 false false,
     .ins [102] 1 false false, .ins [97, 98, 88] 2 false false]).1 := by
  obtain ⟨hi, hr⟩ := dict_init_spec (fun _ => 0) 8
  have := dict_refcount_spec_fixed (fun _ => 0) (Dict.init 8) hi
    [.ins [97, 98, 88] 3 false false, .ins [99] 1 false false, .ins [100] 1 false false, .ins [101] 1 false false,
     .ins [102] 1 false false, .ins [97, 98, 88] 2 false false] (by rw [hr]; decide)
  rw [hr] at this
  exact this.1

/-- the witness of `dict_refcount_spec_fails` is handled correctly by the repaired function -/
example : ((Dict.init 8).runF (fun _ => 0)
    [.ins [97, 98, 88] 3 false false, .ins [99] 1 false false, .ins [100] 1 false false, .ins [101] 1 false false,
     .ins [102] 1 false false, .ins [97, 98, 88] 2 false false]).1.getLast? = some (.ok [97, 98]) := by decide

/-- **`dict_insert_remove_cancel`**: `abs (remove (insert d s) s) = abs d`, for every hash function and every state —
also when the insert enlarges and the remove shrinks the table. -/
theorem dict_insert_remove_cancel (H : Bytes → UInt32) (d : Dict) (hd : DInv H d) (s : Bytes) (hs : (0 : UInt8) ∉ s)
    (zc alias : Bool) :
    refs ((d.insert H s s.length zc alias).2.remove H s).2 = refs d ∧
    (d.insert H s s.length zc alias).1 = .ok s ∧ ((d.insert H s s.length zc alias).2.remove H s).1 = .done ∧
    DInv H ((d.insert H s s.length zc alias).2.remove H s).2 := by
  obtain ⟨h1, h2, h3⟩ := insert_spec H d hd s s.length zc alias hs (Nat.le_refl _) (fun _ => rfl) (Or.inl rfl)
  rw [List.take_length] at h2 h3
  obtain ⟨g1, _, g3⟩ := remove_spec H (d.insert H s s.length zc alias).2 h1 s
  have hpos : 0 < refs (d.insert H s s.length zc alias).2 s := by rw [h3 s, if_pos rfl]; omega
  obtain ⟨g4, g5⟩ := g3 hpos
  refine ⟨?_, h2, g4, g1⟩
  funext t
  rw [g5 t, h3 s, if_pos rfl]
  by_cases ht : t = s
  · rw [if_pos ht, ht]; omega
  · rw [if_neg ht, h3 t, if_neg ht]

example : (0 : UInt8) ∉ ([100, 101] : Bytes) := by decide

/-- non-vacuity (audit): at `auD5` (5 of 8) the insert of a new string enlarges the table to 16; the remove deletes the record
    (no shrink: 5 of 16): the reference map is back, the table is not -/
example : refs ((auD5.insert exH [122, 122] 2 false false).2.remove exH [122, 122]).2 = refs auD5 ∧
    (auD5.insert exH [122, 122] 2 false false).2.ht.size = 16 ∧
    ((auD5.insert exH [122, 122] 2 false false).2.remove exH [122, 122]).2.ht.size = 16 :=
  ⟨(dict_insert_remove_cancel exH auD5 auD5_inv [122, 122] (by decide) false false).1, by decide, by decide⟩

/-- three strings in a dictionary of 16 records with shrinking enabled: a fourth string makes 25 %, its removal 18 % -/
def auD16 : Dict := (Dict.run exH ⟨Ht2.new 16 2⟩ [.ins [97] 1 false false, .ins [98] 1 false false, .ins [99, 99] 2 true false]).2

/-- non-vacuity (audit): `dict_refcount_spec` from a start state other than `Dict.init` (`DInv` of the empty table of 16 by hand) -/
theorem auD16_inv : DInv exH auD16 := by
  have hi : DInv exH ⟨Ht2.new 16 2⟩ :=
    ⟨(ht_new_inv 16 2 (by decide)).1, (ht_new_inv 16 2 (by decide)).2, by decide, by
      have ht : (⟨Ht2.new 16 2⟩ : Dict).ht.toList = [] := by decide
      rw [ht]
      exact ⟨by simp, by simp, by simp, by simp, by simp⟩⟩
  have hr : refs ⟨Ht2.new 16 2⟩ = fun _ => 0 := by funext s; rfl
  exact (dict_refcount_spec exH _ hi _ (by rw [hr]; decide) (by decide)).2.2

/-- non-vacuity (audit): at `auD16` the removal of the just inserted string shrinks the table 16 → 8 (re-insertion with
    `lydict_resize_val_eq`), and the reference map is still the one before the insert; zero-copy variant -/
example : refs ((auD16.insert exH [122] 1 true false).2.remove exH [122]).2 = refs auD16 ∧
    (auD16.insert exH [122] 1 true false).2.ht.size = 16 ∧
    ((auD16.insert exH [122] 1 true false).2.remove exH [122]).2.ht.size = 8 ∧
    ((auD16.insert exH [122] 1 true false).2.remove exH [122]).2.content = [([99, 99], 1), ([97], 1), ([98], 1)] :=
  ⟨(dict_insert_remove_cancel exH auD16 auD16_inv [122] (by decide) true false).1, by decide, by decide, by decide⟩

/-- **`dict_balanced_empty`**: start from the empty dictionary; after ANY history (contract respected) in which every
reference taken by an insert/dup is released by a remove and no remove is unmatched, the dictionary has no record left:
`lydict_clean` has nothing to report.  For every hash function — every collision pattern — and every initial size. -/
theorem dict_balanced_empty (H : Bytes → UInt32) (n : Nat) (ops : List DOp)
    (hw : AllOps OpWf (fun _ => 0) ops) (hc : ∀ o ∈ ops, OpNoPrefixCollision H o)
    (hm : RemovesMatched (fun _ => 0) ops) (hbal : ∀ s, adds s ops = rems s ops) :
    ((Dict.init n).run H ops).2.content = [] ∧ ((Dict.init n).run H ops).2.ht.used = 0 := by
  obtain ⟨hi, hr⟩ := dict_init_spec H n
  rw [← hr] at hw hm
  obtain ⟨_, h2, h3⟩ := dict_refcount_spec_partial H (Dict.init n) hi ops hw hc
  have hz : ∀ s, refs ((Dict.init n).run H ops).2 s = 0 := by
    intro s
    rw [h2]
    have := specRun_count s ops (refs (Dict.init n)) hm
    rw [hr] at this ⊢
    have hb := hbal s
    simp only at this
    omega
  have := empty_of_refs_zero H _ h3 hz
  exact ⟨by unfold Dict.content; rw [this]; rfl, by unfold Ht2.used; rw [this]; rfl⟩

/-- non-vacuity: `exOps` without its last (unmatched) remove is balanced; all of its 1-byte strings collide under `exH`,
the table starts at 8 records -/
example : RemovesMatched (fun _ => 0) exOps.dropLast ∧ (∀ s, adds s exOps.dropLast = rems s exOps.dropLast) ∧
    ((Dict.init 8).run exH exOps.dropLast).2.content = [] := by
  refine ⟨by simp [exOps, RemovesMatched, AllOps, Dict.specStep, SMap.upd], ?_, by decide⟩
  intro s
  by_cases h1 : s = [97]
  · subst h1; decide
  · by_cases h2 : s = [98]
    · subst h2; decide
    · by_cases h3 : s = [99]
      · subst h3; decide
      · have e1 : ¬ ([97] : Bytes) = s := fun h => h1 h.symm
        have e2 : ¬ ([98] : Bytes) = s := fun h => h2 h.symm
        have e3 : ¬ ([99] : Bytes) = s := fun h => h3 h.symm
        simp [exOps, adds, rems, e1, e2, e3]

/-- non-vacuity (audit): the theorem itself at that history — every hypothesis discharged, conclusion instantiated -/
example : ((Dict.init 8).run exH exOps.dropLast).2.content = [] ∧ ((Dict.init 8).run exH exOps.dropLast).2.ht.used = 0 := by
  refine dict_balanced_empty exH 8 exOps.dropLast (by decide) (by decide) (by decide) ?_
  intro s
  by_cases h1 : s = [97]
  · subst h1; decide
  · by_cases h2 : s = [98]
    · subst h2; decide
    · by_cases h3 : s = [99]
      · subst h3; decide
      · have e1 : ¬ ([97] : Bytes) = s := fun h => h1 h.symm
        have e2 : ¬ ([98] : Bytes) = s := fun h => h2 h.symm
        have e3 : ¬ ([99] : Bytes) = s := fun h => h3 h.symm
        simp [exOps, adds, rems, e1, e2, e3]

/-- non-vacuity (audit): `RemovesMatched` and the balance hypothesis are real restrictions — the full `exOps` (with its
    unmatched last remove) violates the first, `exOps` without its last two removes the second (and a string is left) -/
example : ¬ RemovesMatched (fun _ => 0) exOps := by decide

example : adds [97] (exOps.take 9) ≠ rems [97] (exOps.take 9) ∧ ((Dict.init 8).run exH (exOps.take 9)).2.content = [([97], 1)] := by
  decide

end LyModel.Props.C17
