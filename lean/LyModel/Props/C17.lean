import LyModel.LyHt.LemmasSpec
import LyModel.Dict.LemmasSpec
/-!
# C17 — string references balance; the hash table under the dictionary is a faithful finite map

Property theorems about the models of `hash_table.c` (L2 = bucket lists with the code's bucket function, insertion
order, resize policy and re-insertion order; L3 = multiset of `(hash, value)`) and of `dict.c` (reference-counted
strings on that table).  The L1 (record-array) layer and its relation to L2 are in `Props/C17L1.lean`.

All statements quantify over every table state satisfying the representation invariant (`Inv2`, `Load`), every
callback, every hash value — and, for the dictionary, over every hash *function* `H`, so that collisions of any kind
(same bucket, same 32-bit hash) are covered.  The runtime half of C17 (no leak / double free over API histories) is
checked on the implementation by `harness/api_life.c` under ASan/LSan; it is not a theorem.
-/
namespace LyModel.Props.C17
open List LyModel LyModel.LyHt LyModel.LyHt.Ht2 LyModel.Dict LyModel.Generated

variable {α : Type}

/-! ## hash table: representation invariant -/

/-- `lyht_new` establishes the invariant: `size` buckets, no record, load 0. -/
theorem ht_new_inv (size resize : Nat) (hr : resize ≤ 2) :
    Inv2 (Ht2.new size resize : Ht2 α) ∧ Load (Ht2.new size resize : Ht2 α) := by
  unfold Ht2.new
  generalize hN : (if size < LYHT_MIN_SIZE then LYHT_MIN_SIZE else size) = N
  have hpos : 0 < N := by rw [← hN]; split <;> simp [LYHT_MIN_SIZE] at * <;> omega
  have hu : (empty N resize : Ht2 α).used = 0 := by simp [used]
  exact ⟨empty_inv N resize hpos, by rw [hu]; exact Nat.zero_le _, fun _ => by rw [hu]; simp [LYHT_ENLARGE_PERCENTAGE], hr⟩

/-- Every operation keeps the representation invariant — bucket array of `size` entries, every record chained in the
bucket `hash & (size-1)`, `used ≤ size`, load below the enlarge threshold while resizing is enabled — whatever the
equality callbacks do (also for unchecked inserts of duplicates and inconsistent callbacks). -/
theorem ht_inv_preserved (h : Ht2 α) (hi : Inv2 h) (hl : Load h) (ve : VEq α) (rve : Option (VEq α)) (check wm : Bool)
    (v : α) (hash : UInt32) :
    (Inv2 (h.insert ve rve check wm v hash).2 ∧ Load (h.insert ve rve check wm v hash).2) ∧
    (Inv2 (h.remove ve rve v hash).2 ∧ Load (h.remove ve rve v hash).2) :=
  ⟨⟨insert_inv h hi ve rve check wm v hash, insert_load_all h hi hl ve rve check wm v hash⟩,
   ⟨remove_inv h hi ve rve v hash, remove_load h hi hl ve rve v hash⟩⟩

example : Inv2 ((Ht2.new 8 1 : Ht2 Nat).insert (fun _ a b => a == b) none true true 5 77).2 :=
  (ht_inv_preserved _ (ht_new_inv 8 1 (by decide)).1 (ht_new_inv 8 1 (by decide)).2 _ none true true 5 77).1.1

/-- Memory-safety obligation of `_lyht_insert_with_resize_cb` (`assert(rec_idx < ht->size)` is compiled out): a table
with resizing enabled always has a free record — `insert` never reports `full`. -/
theorem ht_resizable_never_full (h : Ht2 α) (hi : Inv2 h) (hl : Load h) (hrs : h.resize ≠ 0) (ve : VEq α)
    (rve : Option (VEq α)) (check wm : Bool) (v : α) (hash : UInt32) :
    (h.insert ve rve check wm v hash).1 ≠ .full := by
  have hfree := free_of_load' hi hl hrs
  by_cases hnf : check = true → (h.bucket hash).find? (hit ve true v hash) = none
  · rw [insert_eq h ve rve check wm v hash hnf hfree]
    split
    · cases wm
      · simp
      · simp only [if_true]; split <;> simp
    · simp
  · have hc : check = true := by
      cases check with
      | false => exact absurd (fun h => by cases h) hnf
      | true => rfl
    subst hc
    cases hf : (h.bucket hash).find? (hit ve true v hash) with
    | none => exact absurd (fun _ => hf) hnf
    | some r => unfold Ht2.insert; simp only [if_true]; rw [hf]; simp

/-- …while a fixed-size table (`resize = 0`) filled to `size` records does report it (the C code would write out of
bounds there; callers size such tables with `lyht_get_fixed_size`). -/
example : ((List.range 8).foldl (fun (h : Ht2 Nat) i => (h.insert (fun _ a b => a == b) none false false i 0).2) (Ht2.new 8 0)
    |>.insert (fun _ a b => a == b) none false false 9 0).1 = .full := by decide

/-- The nested `lyht_insert` calls of `lyht_resize` can never resize again (the model re-inserts with `insertCore`):
while an enlargement re-inserts the records of a table with `used ≤ size`, and while a shrink re-inserts those of a
table below the shrink threshold, the load of the new table stays below the enlarge threshold after every single
re-insertion. -/
theorem nested_insert_never_resizes (h : Ht2 α) (ve : VEq α) (check : Bool) (pre : List (UInt32 × α)) (post : List (UInt32 × α))
    (hsplit : h.toList = pre ++ post) (hpos : 0 < h.size) :
    (h.used ≤ h.size →
      ((pre.foldl (reins ve check) (empty (h.size * 2) h.resize)).used + 1) * 100 / (h.size * 2) < LYHT_ENLARGE_PERCENTAGE ∨ post = []) ∧
    (h.used * 100 / h.size < LYHT_SHRINK_PERCENTAGE → LYHT_MIN_SIZE < h.size →
      ((pre.foldl (reins ve check) (empty (h.size / 2) h.resize)).used + 1) * 100 / (h.size / 2) < LYHT_ENLARGE_PERCENTAGE ∨ post = []) := by
  have hu : h.used = h.toList.length := rfl
  have hlen : pre.length + post.length = h.toList.length := by rw [hsplit]; simp
  constructor
  · intro hle
    cases post with
    | nil => exact Or.inr rfl
    | cons x xs =>
      left
      have := fold_used_le ve check pre (empty (h.size * 2) h.resize) (empty_inv _ _ (by omega))
      simp only [used, empty_toList, List.length_nil, Nat.zero_add, List.length_cons] at this hlen
      refine div_lt_of (by omega) ?_
      simp only [LYHT_ENLARGE_PERCENTAGE, used]; omega
  · intro hlt hmin
    cases post with
    | nil => exact Or.inr rfl
    | cons x xs =>
      left
      simp only [LYHT_MIN_SIZE] at hmin
      have := fold_used_le ve check pre (empty (h.size / 2) h.resize) (empty_inv _ _ (by omega))
      simp only [used, empty_toList, List.length_nil, Nat.zero_add, List.length_cons] at this hlen
      have hq := lt_of_div hpos hlt
      simp only [LYHT_SHRINK_PERCENTAGE] at hq
      refine div_lt_of (by omega) ?_
      simp only [LYHT_ENLARGE_PERCENTAGE, used]; omega

/-! ## hash table: operations against the multiset of records (L3) -/

/-- `find` succeeds iff a matching record is present anywhere in the table (only the bucket `hash & (size-1)` is
searched: completeness of the bucket function), and what it returns is a stored matching record. -/
theorem ht_find_iff (h : Ht2 α) (hi : Inv2 h) (ve : VEq α) (v : α) (hash : UInt32) :
    (h.find ve v hash = none ↔ ∀ r ∈ h.toList, ¬ (r.1 = hash ∧ ve false v r.2 = true)) ∧
    (∀ m, h.find ve v hash = some m → (hash, m) ∈ h.toList ∧ ve false v m = true) := by
  constructor
  · unfold Ht2.find
    rw [Option.map_eq_none_iff, find_none_iff h hi ve false v hash]
    constructor
    · intro hn r hr hc
      have := hn r hr
      simp [hit, hc.1, hc.2] at this
    · intro hn r hr
      have := hn r hr
      unfold hit
      cases h1 : (r.1 == hash) <;> cases h2 : ve false v r.2 <;> simp_all
  · intro m hm
    unfold Ht2.find at hm
    rw [Option.map_eq_some_iff] at hm
    obtain ⟨r, hr, rfl⟩ := hm
    obtain ⟨h1, h2, h3⟩ := find_some_mem h hi ve false v hash r hr
    exact ⟨by rw [← h2]; exact h1, h3⟩

example : (((Ht2.new 8 1 : Ht2 Nat).insert (fun _ a b => a == b) none true true 5 77).2.find (fun _ a b => a == b) 5 77) = some 5 := by
  decide

/-- Checked insert of a value that is present (same hash, callback says equal in `mod = 1`): `LY_EEXIST`, the equal stored
value is returned, the table is unchanged. -/
theorem ht_insert_exists (h : Ht2 α) (hi : Inv2 h) (ve : VEq α) (rve : Option (VEq α)) (wm : Bool) (v : α) (hash : UInt32)
    (hex : ∃ r ∈ h.toList, r.1 = hash ∧ ve true v r.2 = true) :
    ∃ m, h.insert ve rve true wm v hash = (.exist m, h) ∧ (hash, m) ∈ h.toList ∧ ve true v m = true := by
  cases hf : (h.bucket hash).find? (hit ve true v hash) with
  | none =>
    obtain ⟨r, hr, h1, h2⟩ := hex
    have := (find_none_iff h hi ve true v hash).1 hf r hr
    simp [hit, h1, h2] at this
  | some r =>
    obtain ⟨h1, h2, h3⟩ := find_some_mem h hi ve true v hash r hf
    refine ⟨r.2, ?_, by rw [← h2]; exact h1, h3⟩
    unfold Ht2.insert; simp only [if_true]; rw [hf]

/-- Insert of an absent value (or any unchecked insert) into a table with a free record adds exactly `(hash, v)`;
if the insertion enlarges the table nothing else changes — provided the re-insertion check cannot mistake two records for
each other (`Distinct` for the callback in force during the resize; vacuous for unchecked inserts). -/
theorem ht_insert_adds (h : Ht2 α) (hi : Inv2 h) (ve : VEq α) (rve : Option (VEq α)) (check wm : Bool) (v : α) (hash : UInt32)
    (hab : check = true → ∀ r ∈ h.toList, ¬ (r.1 = hash ∧ ve true v r.2 = true)) (hfree : h.used < h.size)
    (hd : check = true → Distinct (rve.getD ve) ((hash, v) :: h.toList)) :
    (h.insert ve rve check wm v hash).2.toList ~ (hash, v) :: h.toList := by
  refine (insert_state h hi ve rve check wm v hash ?_ hfree hd).2
  intro hc
  rw [find_none_iff h hi ve true v hash]
  intro r hr
  have := hab hc r hr
  unfold hit
  cases h1 : (r.1 == hash) <;> cases h2 : ve true v r.2 <;> simp_all

/-- `remove`: `LY_ENOTFOUND` and no change if no record matches; otherwise exactly one matching record (the first of
its chain) disappears and everything else stays, also across the shrink. -/
theorem ht_remove_spec (h : Ht2 α) (hi : Inv2 h) (ve : VEq α) (rve : Option (VEq α)) (v : α) (hash : UInt32)
    (hd : Distinct (rve.getD ve) h.toList) :
    ((∀ r ∈ h.toList, ¬ (r.1 = hash ∧ ve true v r.2 = true)) → h.remove ve rve v hash = (.notfound, h)) ∧
    ((∃ r ∈ h.toList, r.1 = hash ∧ ve true v r.2 = true) →
      ∃ r, r.1 = hash ∧ ve true v r.2 = true ∧ (h.remove ve rve v hash).1 = .ok none ∧
        h.toList ~ r :: (h.remove ve rve v hash).2.toList) := by
  constructor
  · intro hab
    refine remove_absent h ve rve v hash ?_
    rw [find_none_iff h hi ve true v hash]
    intro r hr
    have := hab r hr
    unfold hit
    cases h1 : (r.1 == hash) <;> cases h2 : ve true v r.2 <;> simp_all
  · rintro ⟨r0, hr0, h1, h2⟩
    cases hf : (h.bucket hash).find? (hit ve true v hash) with
    | none =>
      have := (find_none_iff h hi ve true v hash).1 hf r0 hr0
      simp [hit, h1, h2] at this
    | some r =>
      obtain ⟨_, g2, g3⟩ := find_some_mem h hi ve true v hash r hf
      refine ⟨r, g2, g3, by rw [remove_eq h ve rve v hash r hf], (remove_state h hi ve rve v hash r hf hd).2⟩

/-- Enlarge / shrink preserve the contents: `abs (resize h) = abs h` as multisets, for unchecked re-insertion always, for
checked re-insertion when no two records are equal for the callback. -/
theorem ht_resize_preserves_contents (h : Ht2 α) (ve : VEq α) (check : Bool) (newSize : Nat) (hn : 0 < newSize)
    (hd : check = true → Distinct ve h.toList) :
    (h.resizeTo ve check newSize).toList ~ h.toList ∧ Inv2 (h.resizeTo ve check newSize) :=
  ⟨resizeTo_toList h ve check newSize hn hd, resizeTo_inv h ve check newSize hn⟩

/-- The hypothesis is needed: `lyht_resize` re-inserts with the duplicate check whenever the triggering call was a
checked insert or any remove, so duplicates stored through `lyht_insert_no_check` are silently dropped by the next
shrink/enlarge (release builds; `assert(!ret)` in debug builds).  Five copies of one value, then a `remove` that shrinks: -/
theorem ht_resize_preserves_contents_fails :
    ¬ ∀ (h : Ht2 Nat) (ve : VEq Nat) (n : Nat), 0 < n → (h.resizeTo ve true n).toList ~ h.toList := by
  intro hall
  have := (hall ⟨8, 2, [[(0, 1), (0, 1)], [], [], [], [], [], [], []]⟩ (fun _ a b => a == b) 4 (by decide)).length_eq
  revert this; decide

/-- **Refinement for every history** (keyed use: the callback is one equivalence relation, inserts are checked, resizing
enabled): whatever sequence of `insert`/`remove`/`find` is applied, with whatever hashes (collisions included), the
replies are those of the abstract finite set and the contents agree as multisets; the simulation relation includes
the representation invariant. -/
theorem ht_refines_spec (ve : VEq α) (e : α → α → Bool) (he : IsEquiv ve e) (ops : List (HOp α)) (h : Ht2 α)
    (l : List (UInt32 × α)) (hr : Rel ve h l) :
    (h.run ve ops).1 = (LyHt.specRun e l ops).1 ∧ (h.run ve ops).2.toList ~ (LyHt.specRun e l ops).2 ∧
    Inv2 (h.run ve ops).2 ∧ Load (h.run ve ops).2 := by
  obtain ⟨h1, h2⟩ := run_spec he ops hr
  exact ⟨h1, h2.perm, h2.inv, h2.load⟩

/-- a fresh resizable table is related to the empty set -/
theorem ht_new_rel (ve : VEq α) (size : Nat) : Rel ve (Ht2.new size 1 : Ht2 α) [] := by
  obtain ⟨h1, h2⟩ := ht_new_inv (α := α) size 1 (by decide)
  refine ⟨h1, h2, ?_, ?_, ?_⟩
  · unfold Ht2.new; simp [empty]
  · unfold Ht2.new; rw [empty_toList]
  · unfold Distinct; exact List.Pairwise.nil

/-- non-vacuity: a history with equal-hash and equal-bucket collisions, an `LY_EEXIST`, an enlargement (6th record in 8)
and removals -/
example : ((Ht2.new 8 1 : Ht2 Nat).run (fun _ a b => a == b)
    [.ins 1 3, .ins 2 3, .ins 1 3, .ins 3 11, .ins 4 19, .ins 5 3, .ins 6 3, .rem 2 3, .find 2 3, .find 6 3, .rem 9 9]).1 =
    [.ok (some 1), .ok (some 2), .exist 1, .ok (some 3), .ok (some 4), .ok (some 5), .ok (some 6), .ok none, .notfound,
     .ok (some 6), .notfound] := by decide

/-! ## dictionary -/

/-- `lydict_init` gives an empty dictionary satisfying the invariant. -/
theorem dict_init_spec (H : Bytes → UInt32) (n : Nat) : DInv H (Dict.init n) ∧ refs (Dict.init n) = fun _ => 0 :=
  ⟨init_inv H n, init_refs n⟩

/-- **`dict_refcount_spec`** (partial, see `_fails`): for every hash function `H`, every dictionary state and every
history of `lydict_insert` / `lydict_insert_zc` / `lydict_dup` / `lydict_remove` calls that respect the API contract,
the dictionary abstracts to the map string ↦ reference count with insert/dup = +1 (creating at 1) and remove = −1
(deleting at 0, `LY_ENOTFOUND` if absent): same replies, same map, invariant kept — through every collision, enlargement
and shrink.  Extra hypothesis: a by-length insert of a proper prefix of the caller's buffer is not a 32-bit hash
collision with the whole buffer. -/
theorem dict_refcount_spec_partial (H : Bytes → UInt32) (d : Dict) (hd : DInv H d) (ops : List DOp)
    (hw : AllOps OpWf (refs d) ops) (hc : ∀ o ∈ ops, OpNoPrefixCollision H o) :
    (d.run H ops).1 = (Dict.specRun (refs d) ops).1 ∧ refs (d.run H ops).2 = (Dict.specRun (refs d) ops).2 ∧
    DInv H (d.run H ops).2 := by
  obtain ⟨h1, h2, h3⟩ := Dict.run_spec H ops d hd hw hc
  exact ⟨h2, h3, h1⟩

/-- the history of the examples below, and a hash under which all strings of equal length parity collide on all 32 bits -/
def exOps : List DOp :=
  [.ins [97] 1 false false, .ins [98] 1 false false, .dup [97] true, .ins [99, 100] 1 false false, .ins [97] 1 true false,
   .rem [97], .rem [98], .rem [97], .rem [99], .rem [97], .rem [97]]

def exH : Bytes → UInt32 := fun s => UInt32.ofNat (s.length % 2)

example : AllOps OpWf (fun _ => 0) exOps ∧ (∀ o ∈ exOps, OpNoPrefixCollision exH o) ∧
    ((Dict.init 8).run exH exOps).1 =
      [.ok [97], .ok [98], .ok [97], .ok [99], .ok [97], .done, .done, .done, .done, .done, .notfound] := by
  refine ⟨?_, ?_, by decide⟩
  · simp [exOps, AllOps, OpWf, Dict.specStep, SMap.upd]
  · intro o ho
    simp only [exOps, List.mem_cons, List.not_mem_nil, or_false] at ho
    rcases ho with h | h | h | h | h | h | h | h | h | h | h <;> subst h <;> simp [OpNoPrefixCollision, exH]

/-- a history uses whole strings only: `lydict_insert(ctx, s, 0)` / `strlen`, `lydict_insert_zc`, `lydict_dup`, `lydict_remove` -/
def WholeStrings (ops : List DOp) : Prop :=
  ∀ o ∈ ops, match o with | .ins v len _ _ => len = v.length | _ => True

/-- **`dict_refcount_spec`** at full strength for the whole-string API: no hypothesis on the hash function at all. -/
theorem dict_refcount_spec (H : Bytes → UInt32) (d : Dict) (hd : DInv H d) (ops : List DOp)
    (hw : AllOps OpWf (refs d) ops) (hs : WholeStrings ops) :
    (d.run H ops).1 = (Dict.specRun (refs d) ops).1 ∧ refs (d.run H ops).2 = (Dict.specRun (refs d) ops).2 ∧
    DInv H (d.run H ops).2 := by
  refine dict_refcount_spec_partial H d hd ops hw ?_
  intro o ho
  have := hs o ho
  cases o with
  | ins v len zc alias => exact Or.inl this
  | dup v alias => trivial
  | rem v => trivial

example : WholeStrings [.ins [97] 1 false false, .ins [98, 99] 2 true false, .dup [97] true, .rem [97]] := by
  intro o ho
  simp only [List.mem_cons, List.not_mem_nil, or_false] at ho
  rcases ho with h | h | h | h <;> subst h <;> simp

/-- The full statement — by-length inserts of any prefix, any hash function — is **false** (§6 F110): with a hash that
makes the prefix `"ab"` collide with the buffer `"abX"` held by the dictionary, the `lydict_insert(ctx, "abX", 2)` that
enlarges the table returns `LY_ENOTFOUND` instead of `"ab"`: while the new record still points to the caller's buffer
`lyht_resize` compares it with `strcmp`, finds it "already present" and drops it. -/
theorem dict_refcount_spec_fails :
    ¬ ∀ (H : Bytes → UInt32) (d : Dict) (ops : List DOp), DInv H d → AllOps OpWf (refs d) ops →
        (d.run H ops).1 = (Dict.specRun (refs d) ops).1 := by
  intro hall
  have := hall (fun _ => 0) (Dict.init 8)
    [.ins [97, 98, 88] 3 false false, .ins [99] 1 false false, .ins [100] 1 false false, .ins [101] 1 false false,
     .ins [102] 1 false false, .ins [97, 98, 88] 2 false false]
    (init_inv _ 8) (by simp [AllOps, OpWf])
  revert this; decide

/-- With the candidate repair `fixes/F110.diff` (`Dict.insertFixed`: look up, copy, then `lyht_insert_no_check`) the full
statement holds: every hash function, every prefix length, no collision hypothesis. -/
theorem dict_refcount_spec_fixed (H : Bytes → UInt32) (d : Dict) (hd : DInv H d) (ops : List DOp)
    (hw : AllOps OpWf (refs d) ops) :
    (d.runF H ops).1 = (Dict.specRun (refs d) ops).1 ∧ refs (d.runF H ops).2 = (Dict.specRun (refs d) ops).2 ∧
    DInv H (d.runF H ops).2 := by
  obtain ⟨h1, h2, h3⟩ := runF_spec H ops d hd hw
  exact ⟨h2, h3, h1⟩

/-- the witness of `dict_refcount_spec_fails` is handled correctly by the repaired function -/
example : ((Dict.init 8).runF (fun _ => 0)
    [.ins [97, 98, 88] 3 false false, .ins [99] 1 false false, .ins [100] 1 false false, .ins [101] 1 false false,
     .ins [102] 1 false false, .ins [97, 98, 88] 2 false false]).1.getLast? = some (.ok [97, 98]) := by decide

/-- **`dict_insert_remove_cancel`**: `abs (remove (insert d s) s) = abs d`, for every hash function and every state —
also when the insert enlarges and the remove shrinks the table. -/
theorem dict_insert_remove_cancel (H : Bytes → UInt32) (d : Dict) (hd : DInv H d) (s : Bytes) (hs : (0 : UInt8) ∉ s)
    (zc alias : Bool) :
    refs ((d.insert H s s.length zc alias).2.remove H s).2 = refs d ∧
    (d.insert H s s.length zc alias).1 = .ok s ∧ ((d.insert H s s.length zc alias).2.remove H s).1 = .done ∧
    DInv H ((d.insert H s s.length zc alias).2.remove H s).2 := by
  obtain ⟨h1, h2, h3⟩ := insert_spec H d hd s s.length zc alias hs (Nat.le_refl _) (fun _ => rfl) (Or.inl rfl)
  rw [List.take_length] at h2 h3
  obtain ⟨g1, _, g3⟩ := remove_spec H (d.insert H s s.length zc alias).2 h1 s
  have hpos : 0 < refs (d.insert H s s.length zc alias).2 s := by rw [h3 s, if_pos rfl]; omega
  obtain ⟨g4, g5⟩ := g3 hpos
  refine ⟨?_, h2, g4, g1⟩
  funext t
  rw [g5 t, h3 s, if_pos rfl]
  by_cases ht : t = s
  · rw [if_pos ht, ht]; omega
  · rw [if_neg ht, h3 t, if_neg ht]

example : (0 : UInt8) ∉ ([100, 101] : Bytes) := by decide

/-- **`dict_balanced_empty`**: start from the empty dictionary; after ANY history (contract respected) in which every
reference taken by an insert/dup is released by a remove and no remove is unmatched, the dictionary has no record left:
`lydict_clean` has nothing to report.  For every hash function — every collision pattern — and every initial size. -/
theorem dict_balanced_empty (H : Bytes → UInt32) (n : Nat) (ops : List DOp)
    (hw : AllOps OpWf (fun _ => 0) ops) (hc : ∀ o ∈ ops, OpNoPrefixCollision H o)
    (hm : RemovesMatched (fun _ => 0) ops) (hbal : ∀ s, adds s ops = rems s ops) :
    ((Dict.init n).run H ops).2.content = [] ∧ ((Dict.init n).run H ops).2.ht.used = 0 := by
  obtain ⟨hi, hr⟩ := dict_init_spec H n
  rw [← hr] at hw hm
  obtain ⟨_, h2, h3⟩ := dict_refcount_spec_partial H (Dict.init n) hi ops hw hc
  have hz : ∀ s, refs ((Dict.init n).run H ops).2 s = 0 := by
    intro s
    rw [h2]
    have := specRun_count s ops (refs (Dict.init n)) hm
    rw [hr] at this ⊢
    have hb := hbal s
    simp only at this
    omega
  have := empty_of_refs_zero H _ h3 hz
  exact ⟨by unfold Dict.content; rw [this]; rfl, by unfold Ht2.used; rw [this]; rfl⟩

/-- non-vacuity: `exOps` without its last (unmatched) remove is balanced; all of its 1-byte strings collide under `exH`,
the table starts at 8 records -/
example : RemovesMatched (fun _ => 0) exOps.dropLast ∧ (∀ s, adds s exOps.dropLast = rems s exOps.dropLast) ∧
    ((Dict.init 8).run exH exOps.dropLast).2.content = [] := by
  refine ⟨by simp [exOps, RemovesMatched, AllOps, Dict.specStep, SMap.upd], ?_, by decide⟩
  intro s
  by_cases h1 : s = [97]
  · subst h1; decide
  · by_cases h2 : s = [98]
    · subst h2; decide
    · by_cases h3 : s = [99]
      · subst h3; decide
      · have e1 : ¬ ([97] : Bytes) = s := fun h => h1 h.symm
        have e2 : ¬ ([98] : Bytes) = s := fun h => h2 h.symm
        have e3 : ¬ ([99] : Bytes) = s := fun h => h3 h.symm
        simp [exOps, adds, rems, e1, e2, e3]

end LyModel.Props.C17
