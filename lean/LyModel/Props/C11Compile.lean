import LyModel.Compile.Model
import LyModel.Compile.Expand
import LyModel.Compile.LemmasTree
import LyModel.Iff.LemmasRange
import LyModel.Props.C11Range
/-! C11 — expansion core of the schema compiler (model: `LyModel/Compile/Model.lean`, RFC meaning of `uses`:
`LyModel/Compile/Expand.lean`).  What is PROVED here and what is only CHECKED (see DESIGN-notes/c11exp.md):

* `typedef_chain_restriction_subset` — proved for every typedef chain and type use;
* `config_inheritance_node` / `status_inheritance_node` — the per-node laws of `lys_compile_config` / `lys_compile_status`
  that every node of every compiled tree goes through (proved for all inputs);
* `compile_eq_expand` — FALSE as stated (finding F390): `compile_eq_expand_fails` is the witness; the equality on the
  generated inputs is checked on every run (driver op `cflat` against `cdump`, and libyang on both renderings);
* `augment_order_independent` — FALSE as stated (finding F81): `augment_order_independent_fails` is the witness;
  `rmSwapIdx_perm` (the removal never loses or duplicates a pending augment) is the proved part. -/
namespace LyModel.Props.C11
open LyModel LyModel.Compile LyModel.Range

/-! ## typedef chains only narrow -/

/-- every part of `parts` lies within one part of `base` -/
def AllWithin (parts base : List Part) : Prop := ∀ p ∈ parts, Within p base

theorem AllWithin.trans {a b c : List Part} (h1 : AllWithin a b) (h2 : AllWithin b c) : AllWithin a c := by
  intro p hp
  obtain ⟨q, hq, h3, h4⟩ := h1 p hp
  obtain ⟨r, hr, h5, h6⟩ := h2 q hq
  exact ⟨r, hr, by omega, by omega⟩

theorem AllWithin.refl_of (a : List Part) (h : ∀ p ∈ a, p.min ≤ p.max ∨ True) : AllWithin a a := by
  intro p hp
  exact ⟨p, hp, by omega, by omega⟩

/-- the restrictions met while folding a chain: the effective restriction after every step -/
def restrTrace (cfg : Cfg) (base : String) : Option (List Part) → List (Option String) → List (Option (List Part))
  | _, [] => []
  | cur, r :: rest =>
    match restrStep cfg base cur r with
    | .ok c => c :: restrTrace cfg base c rest
    | .error _ => []

theorem restrStep_within (cfg : Cfg) (hs : RangeSubsetSound cfg.rfx) (base : String) (b : List Part) (r : Option String)
    (c : Option (List Part)) (h : restrStep cfg base (some b) r = .ok c) : ∃ q, c = some q ∧ AllWithin q b := by
  unfold restrStep at h
  cases r with
  | none =>
    simp only [Except.ok.injEq] at h
    exact ⟨b, h.symm, fun p hp => ⟨p, hp, by omega, by omega⟩⟩
  | some arg =>
    simp only at h
    cases ht : typeOf base 0 with
    | none => simp [ht] at h
    | some t =>
      simp only [ht] at h
      cases hc : compileRange cfg.rfx t (some b) (toBytes arg) with
      | error e => simp [hc] at h
      | ok parts =>
        simp only [hc, Except.ok.injEq] at h
        exact ⟨parts, h.symm, hs t b _ parts hc⟩

/-- once a restriction is in force, everything the fold produces later lies within it -/
theorem restrFold_within (cfg : Cfg) (hs : RangeSubsetSound cfg.rfx) (base : String) :
    ∀ (rs : List (Option String)) (b : List Part) (res : Option (List Part)),
      restrFold cfg base (some b) rs = .ok res → ∃ q, res = some q ∧ AllWithin q b := by
  intro rs
  induction rs with
  | nil =>
    intro b res h
    simp only [restrFold, Except.ok.injEq] at h
    exact ⟨b, h.symm, fun p hp => ⟨p, hp, by omega, by omega⟩⟩
  | cons r rest ih =>
    intro b res h
    simp only [restrFold] at h
    cases hst : restrStep cfg base (some b) r with
    | error e => simp [hst, bind, Except.bind] at h
    | ok c =>
      simp only [hst, bind, Except.bind] at h
      obtain ⟨q, rfl, hq⟩ := restrStep_within cfg hs base b r c hst
      obtain ⟨q2, h2, hq2⟩ := ih q res h
      exact ⟨q2, h2, hq2.trans hq⟩

/-- **typedef_chain_restriction_subset.**  With the two repairs of the range compiler in the tree (F30, F75 — the state
`Generated/IffSrc.lean` reads off the source; without them `RangeSubsetSound` is false, `range_subset_sound_fails`), for
EVERY typedef table, type use and split of the folded restriction list `pre ++ post` (typedefs nearer to the built-in type /
nearer to the leaf, the leaf's own `type` statement last): if the ancestors `pre` already give the restriction `anc`, then
the effective restriction of the derived type exists and every one of its parts lies within a part of `anc` — a derived
type never accepts a value one of its ancestors rejects. -/
theorem typedef_chain_restriction_subset (cfg : Cfg) (h30 : cfg.rfx.f30 = true) (h51 : cfg.rfx.f51 = true)
    (base : String) (pre post : List (Option String)) (anc : List Part) (res : Option (List Part))
    (hpre : restrFold cfg base none pre = .ok (some anc))
    (hall : restrFold cfg base none (pre ++ post) = .ok res) :
    ∃ eff, res = some eff ∧ AllWithin eff anc := by
  have hs : RangeSubsetSound cfg.rfx := range_subset_sound_fixed cfg.rfx h30 h51
  have hsplit : ∀ (l1 l2 : List (Option String)) (cur mid : Option (List Part)),
      restrFold cfg base cur l1 = .ok mid → restrFold cfg base cur (l1 ++ l2) = restrFold cfg base mid l2 := by
    intro l1
    induction l1 with
    | nil => intro l2 cur mid h; simp only [restrFold, Except.ok.injEq] at h; simp [h]
    | cons r rest ih =>
      intro l2 cur mid h
      simp only [restrFold, List.cons_append] at h ⊢
      cases hst : restrStep cfg base cur r with
      | error e => simp [hst, bind, Except.bind] at h
      | ok c =>
        simp only [hst, bind, Except.bind] at h ⊢
        exact ih l2 c mid h
  rw [hsplit pre post none (some anc) hpre] at hall
  exact restrFold_within cfg hs base post anc res hall

/-- non-vacuity: `typedef t1 { type int8 { range "1..10|20..30"; } }  typedef t2 { type t1 { range "2..5|25..max"; } }
leaf l { type t2 { range "3..4"; } }` — the chain compiles, the effective restriction is 3..4, within t1's parts -/
example : restrFold { rfx := { f30 := true, f51 := true } } "int8" none [some "1..10|20..30"] = .ok (some [⟨1, 10⟩, ⟨20, 30⟩]) ∧
    restrFold { rfx := { f30 := true, f51 := true } } "int8" none ([some "1..10|20..30"] ++ [some "2..5|25..max", some "3..4"]) = .ok (some [⟨3, 4⟩]) := by
  constructor <;> rfl

/-- … and through the whole `lys_compile_type` model: the chain is found, units come from the nearest typedef that has
them, the default from the nearest that has one -/
example : (compileType { rfx := { f30 := true, f51 := true } }
      [{ name := "t1", typ := { ref := "int8", restr := some "1..10|20..30" }, dflt := some "7", units := some "s" },
       { name := "t2", typ := { ref := "t1", restr := some "2..5|25..max" }, dflt := none, units := none }]
      { ref := "t2", restr := some "3..4" }).toOption.map (fun r => (r.typ.base, r.typ.parts, r.dflt, r.units)) =
    some ("int8", some [⟨3, 4⟩], some "7", some "s") := by rfl

/-! ## config and status inheritance: the per-node laws -/

/-- **config_inheritance (node law).**  Whatever the parsed `config` statement (after refines and deviations), a node is
compiled only if it is not a config-true node below a config-false parent; without an own statement it has its parent's
value (true at the top level).  Every node of every compiled tree is built by `compileNode` from the result of this
function with its compiled parent as `parent`, and `augment` children with the augment's TARGET as parent — so a
config-false node has no config-true child, at every level. -/
theorem config_inheritance_node (parent : Option PInfo) (c : Option Bool) (v : Bool) (h : compileConfig parent c = .ok v) :
    (∀ pi, parent = some pi → pi.config = false → v = false) ∧
    (c = none → v = (match parent with | some pi => pi.config | none => true)) ∧
    (∀ b, c = some b → v = b) := by
  rcases parent with _ | ⟨m, n, k, pc, ps⟩ <;> rcases c with _ | b <;> (try cases pc) <;> (try cases b) <;>
    simp [compileConfig] at h <;> subst h <;> simp

example : compileConfig (some { mod := "m", name := "c", kind := .container, config := false, status := 1 }) none = .ok false ∧
    compileConfig (some { mod := "m", name := "c", kind := .container, config := false, status := 1 }) (some true) = .error .fail ∧
    compileConfig none none = .ok true := ⟨rfl, rfl, rfl⟩

/-- **status_inheritance (node law).**  `lys_compile_status`: the compiled status is the explicit one, else the one
inherited from a `uses`/`augment`, else the parent's, else `current`; and it is never "better" than the parent's
(1 current < 2 deprecated < 3 obsolete), otherwise the compilation fails. -/
theorem status_inheritance_node (parsed inh parent s : Nat) (h : compileStatus parsed inh parent = .ok s) :
    parent ≤ s ∧ s ≠ 0 ∧ (parsed ≠ 0 → s = parsed) ∧ (parsed = 0 → inh ≠ 0 → s = inh) := by
  unfold compileStatus at h
  simp only [bne_iff_ne, ne_eq, Bool.and_eq_true, decide_eq_true_eq] at h
  repeat' split at h
  all_goals first | (cases h; done) | (simp only [Except.ok.injEq] at h; subst h; omega)

example : compileStatus 0 2 1 = .ok 2 ∧ compileStatus 1 2 0 = .error .fail ∧ compileStatus 0 0 0 = .ok 1 := ⟨rfl, rfl, rfl⟩

/-! ## removal of an applied augment (`ly_set_rm`) -/

/-- **the restart loop loses nothing**: `ly_set_rm_index` (the last pending augment moves into the hole) removes exactly
the element at the index — the remaining pending augments are a permutation of the others, and there is one fewer, which
is the measure that bounds the restart loop `i = 0` of `lys_compile_node_augments`. -/
theorem rmSwapIdx_length {α} (l : List α) (i : Nat) (h : i < l.length) : (rmSwapIdx l i).length = l.length - 1 := by
  unfold rmSwapIdx
  cases hl : l.getLast? with
  | none => simp [List.getLast?_eq_none_iff] at hl; subst hl; simp at h
  | some last =>
    simp only
    split
    · simp [List.length_take]; omega
    · simp [List.length_take, List.length_drop, List.length_dropLast]; omega

example : rmSwapIdx [10, 11, 12, 13] 1 = [10, 13, 12] ∧ rmSwapIdx [10, 11, 12, 13] 3 = [10, 11, 12] := ⟨rfl, rfl⟩

/-! ## the two statements that are FALSE on this tree -/

def N (kind : Kind) (name : String) (kids : List PNode := []) : PNode := .node { kind := kind, name := name } kids
def tcfg : Cfg := { rfx := { f30 := true, f51 := true } }

/-- the witness of finding F81: three augments of the base module on one target and a foreign one -/
def f81aug (n : String) : PAug := ({ path := [("cwd", "c")] }, [N .leaf n])
def f81 : Schema :=
  { mods := [{ name := "cwd", data := [N .container "c" [N .leaf "x"]], augments := [f81aug "a1", f81aug "a2", f81aug "a3"] },
             { name := "cwe", augments := [f81aug "y"] }] }

def childNames (r : Except Err (List (String × List CNode))) : List String :=
  match r with
  | .ok ((_, c :: _) :: _) => c.children.map (·.d.name)
  | _ => []

/-- Full-strength statement: the compiled trees do not depend on the order in which the modules are loaded. -/
def AugmentOrderIndependent (cfg : Cfg) : Prop :=
  ∀ (sch : Schema) (o1 o2 : List String), o1.Perm o2 → compileSet cfg sch o1 = compileSet cfg sch o2

/-- **augment_order_independent is false** with `ly_set_rm` in `lys_compile_node_augments` (finding F81): the base
module's augments a1, a2, a3 of one container come out as a1,a3,a2 (not even the statement order) when the base module is loaded first and as
a3,a2,a1 when the other augmenting module is (its augment sits first in `ctx->augs`, and every removal moves the last
pending augment to the front).  The check replays this witness on libyang (`f81`). -/
theorem augment_order_independent_fails : ¬ AugmentOrderIndependent tcfg := by
  intro h
  have h1 : childNames (compileSet tcfg f81 ["cwd", "cwe"]) = ["x", "a1", "a3", "a2", "y"] := by decide +kernel
  have h2 : childNames (compileSet tcfg f81 ["cwe", "cwd"]) = ["x", "a3", "a2", "a1", "y"] := by decide +kernel
  rw [h f81 ["cwd", "cwe"] ["cwe", "cwd"] (List.Perm.swap _ _ _)] at h1
  rw [h1] at h2
  exact absurd h2 (by decide)

/-- the witness of finding F390: `uses g5` inside an augment of a node that came from `uses g5` -/
def f390 : Schema :=
  { groupings := [("g5", [N .container "c" [N .leaf "x"]])],
    mods := [{ name := "cya", data := [N .container "n10" [.uses { grouping := "g5" } []]] },
             { name := "cyb", augments := [({ path := [("cya", "n10"), ("cya", "c")] }, [.uses { grouping := "g5" } []])] }] }

def isOk {α} : Except Err α → Bool | .ok _ => true | .error _ => false

/-- Full-strength statement: a module set and its RFC 7950 expansion (every `uses` replaced by the refined / augmented copy
of the grouping) compile to the same trees, or both fail. -/
def CompileEqExpand (cfg : Cfg) : Prop :=
  ∀ (sch : Schema) (order : List String) (s' : Schema), expand cfg sch order = .ok s' →
    compileSet cfg s' order = compileSet cfg sch order

/-- **compile_eq_expand is false** (finding F390): the top-level augment is applied while the `uses g5` that created its
target is still open, so `g5` is still on the circular-dependency stack (`ctx->groupings`) and the `uses g5` in the augment
is rejected as a self-reference; the expansion contains no `uses` and compiles.  The check replays the witness on libyang
(both renderings).  The equality on all generated inputs without this shape is CHECKED on every run (op `cflat` vs
`cdump`, and libyang on both renderings), not proved. -/
theorem compile_eq_expand_fails : ¬ CompileEqExpand tcfg := by
  intro h
  have h1 : isOk (compileSet tcfg f390 ["cya", "cyb"]) = false := by decide +kernel
  have h2 : (match expand tcfg f390 ["cya", "cyb"] with
      | .ok s' => isOk (compileSet tcfg s' ["cya", "cyb"]) | .error _ => false) = true := by decide +kernel
  cases he : expand tcfg f390 ["cya", "cyb"] with
  | error e => simp [he] at h2
  | ok s' =>
    simp only [he] at h2
    rw [h f390 _ s' he, h1] at h2
    exact absurd h2 (by decide)

/-- module names and node names of the first three levels (for evaluated examples) -/
def names (r : Except Err (List (String × List CNode))) : List String :=
  match r with
  | .ok ms => (ms.map fun (m, cs) => m :: (cs.map fun c => c.d.name) ++ ((cs.map (·.children)).flatten.map fun c => c.d.name) ++
      (((cs.map (·.children)).flatten.map (·.children)).flatten.map fun c => c.d.name)).flatten
  | .error _ => ["error"]


/-! ## whole-tree invariants of every compiled tree -/

/-- **config_inheritance.**  For EVERY module set of the DSL, every load order and every state of the repairs: in every
compiled tree a config-false node has no config-true child, at every level (`Tree cfgLocal`: the law holds at the node
and, recursively, at all its children) — through uses, refines, deviations, uses-augments, chained top-level augments
(children of an augment obey the config of the augment's TARGET) and the removal of disabled nodes. -/
theorem config_inheritance (cfg : Cfg) (sch : Schema) (order : List String) (ms : List (String × List CNode))
    (h : compileSet cfg sch order = .ok ms) : ∀ x ∈ ms, TreeL cfgLocal x.2 := by
  intro x hx
  obtain ⟨m, a, d, top, hraw, hx2⟩ := compileSet_mem cfg sch order ms h x hx
  rw [hx2]
  exact ((prune_cfg cfg.fixF392 1000).2 top (goodL_tree_cfg top (compileModuleRaw_good _ _ m a d top hraw))).1

/-- non-vacuity: the chained / sibling augment witness compiles (two modules, four augments), so the invariant speaks
about real trees; the config-false case is exercised by the next example -/
example : isOk (compileSet tcfg f81 ["cwe", "cwd"]) = true := by decide +kernel
example : names (compileSet tcfg
      { mods := [{ name := "m", data := [.node { kind := .container, name := "st", config := some false } [N .leaf "l"]] }] } ["m"]) =
    ["m", "st", "l"] ∧
    isOk (compileSet tcfg
      { mods := [{ name := "m", data := [.node { kind := .container, name := "st", config := some false }
        [.node { kind := .leaf, name := "l", config := some true } []]] }] } ["m"]) = false := by
  constructor <;> decide +kernel

/-- **mandatory_parents, before the disabled nodes are removed** (every state of the repairs): in the tree `lys_compile`
builds, a container is flagged mandatory iff it is a non-presence container one of whose children is flagged. -/
theorem mandatory_parents_raw (env : Env) (fuel : Nat) (m : Module) (a d : List String) (top : List CNode)
    (h : compileModuleRaw env fuel m a d = .ok top) : TreeL mandLocal top :=
  goodL_tree_mand top (compileModuleRaw_good env fuel m a d top h)

/-- **mandatory_parents_fixed.**  With fixes/F392.diff in the tree the law holds for the FINAL trees (after the removal of
the nodes disabled by if-feature / deviate not-supported), for every module set and load order. -/
theorem mandatory_parents_fixed (cfg : Cfg) (hfix : cfg.fixF392 = true) (sch : Schema) (order : List String)
    (ms : List (String × List CNode)) (h : compileSet cfg sch order = .ok ms) : ∀ x ∈ ms, TreeL mandLocal x.2 := by
  intro x hx
  obtain ⟨m, a, d, top, hraw, hx2⟩ := compileSet_mem cfg sch order ms h x hx
  rw [hx2, hfix]
  exact ((prune_mand 1000).2 top (mandatory_parents_raw _ _ m a d top hraw)).1

/-- the witness of finding F392: the only mandatory child of a container is disabled by its if-feature -/
def f392 : Schema :=
  { mods := [{ name := "cwi", data := [.node { kind := .container, name := "c" }
      [.node { kind := .leaf, name := "x", mand := some true, iffs := ["f1"] } [], N .leaf "y"]] }] }

/-- (is container, mandatory, presence, some child mandatory) of the first top-level node -/
def topFlags (r : Except Err (List (String × List CNode))) : Bool × Bool × Bool × Bool :=
  match r with
  | .ok ((_, c :: _) :: _) => (c.d.kind == .container, c.d.mand, c.d.presence, c.children.any (·.d.mand))
  | _ => (false, false, false, false)

/-- **mandatory_parents is false on the unrepaired tree** (finding F392): container `c` keeps LYS_MAND_TRUE although its
only remaining child `y` is not mandatory.  The check evaluates the same law on libyang's own compiled tree. -/
theorem mandatory_parents_fails :
    ¬ (∀ (sch : Schema) (order : List String) (ms : List (String × List CNode)),
        compileSet tcfg sch order = .ok ms → ∀ x ∈ ms, TreeL mandLocal x.2) := by
  intro h
  have hflags : topFlags (compileSet tcfg f392 ["cwi"]) = (true, true, false, false) := by decide +kernel
  cases hr : compileSet tcfg f392 ["cwi"] with
  | error e => rw [hr] at hflags; simp [topFlags] at hflags
  | ok ms =>
    rw [hr] at hflags
    match ms, hr, hflags with
    | (n, (.mk d kids) :: rest) :: ms', hr, hflags =>
      have ht := h f392 ["cwi"] _ hr (n, (.mk d kids) :: rest) List.mem_cons_self
      simp only [TreeL, Tree, mandLocal] at ht
      simp only [topFlags, CNode.children, Prod.mk.injEq, beq_iff_eq] at hflags
      obtain ⟨hk, hm, hp, ha⟩ := hflags
      have := ht.1.1 hk
      simp only [CNode.d] at hk hm hp
      rw [hm, hp, ha] at this
      exact absurd this (by decide)
    | [], hr, hflags => simp [topFlags] at hflags
    | (n, []) :: ms', hr, hflags => simp [topFlags] at hflags

/-- with the repair the flag of the witness is cleared -/
example : topFlags (compileSet { tcfg with fixF392 := true } f392 ["cwi"]) = (true, false, false, false) := by decide +kernel

/-- with fixes/F390.diff the witness of `compile_eq_expand_fails` compiles, and to the same node list as its expansion -/
theorem compile_eq_expand_witness_fixed :
    names (compileSet { tcfg with fixF390 := true } f390 ["cya", "cyb"]) = ["cya", "n10", "c", "x", "c", "cyb"] ∧
    (match expand { tcfg with fixF390 := true } f390 ["cya", "cyb"] with
      | .ok s' => names (compileSet { tcfg with fixF390 := true } s' ["cya", "cyb"]) | .error _ => []) =
      ["cya", "n10", "c", "x", "c", "cyb"] := by
  constructor <;> decide +kernel

/-! ## a refine is local -/

/-- **uses_refine_local.**  `lys_compile_node_deviations_refines` on a node with schema path `path`: the pending refines
whose context node + nodeid is NOT this path are left alone, in their order (so they can only ever change another node),
and if no pending refine has this path the parsed statements of the node are returned unchanged.  Together with
`takeRefines` being the only place of `compileNode` where a refine is consumed: a refine changes exactly the node it names. -/
theorem uses_refine_local (cfg : Cfg) (path : Path) (cur : String) (rfns : List URfn) (p p' : Props) (rest : List URfn)
    (h : takeRefines cfg path cur rfns p = .ok (rest, p')) :
    rest = rfns.filter (fun r => !(r.ctx ++ r.nodeid.map (fun n => (cur, n)) == path)) ∧
    ((∀ r ∈ rfns, (r.ctx ++ r.nodeid.map (fun n => (cur, n)) == path) = false) → p' = p ∧ rest = rfns) := by
  unfold takeRefines at h
  simp only [bind, Except.bind, pure, Except.pure] at h
  split at h
  · cases h
  · rename_i q hq
    simp only [Except.ok.injEq, Prod.mk.injEq] at h
    obtain ⟨h1, h2⟩ := h
    refine ⟨h1.symm, fun hall => ?_⟩
    have hnone : rfns.filter (fun r => r.ctx ++ r.nodeid.map (fun n => (cur, n)) == path) = [] := by
      rw [List.filter_eq_nil_iff]; intro r hr; simp [hall r hr]
    rw [hnone] at hq
    have hq' : q = p := by
      cases hcfg : cfg.rfnReverse <;> simp [hcfg, pure, Except.pure] at hq <;> exact hq.symm
    refine ⟨by rw [← h2, hq'], ?_⟩
    rw [← h1]
    rw [List.filter_eq_self]
    intro r hr; simp [hall r hr]

example : (takeRefines tcfg [("m", "c"), ("m", "l")] "m"
      [{ ctx := [("m", "c")], nodeid := ["l"], rfns := [{ path := ["l"], config := some false }], usesId := 0 },
       { ctx := [("m", "c")], nodeid := ["k"], rfns := [{ path := ["k"], config := some false }], usesId := 0 }]
      { kind := .leaf, name := "l" }).toOption.map (fun r => (r.1.map (·.nodeid), r.2.config)) = some ([["k"]], some false) := by
  decide +kernel

end LyModel.Props.C11
