import LyModel.Compile.Model
import LyModel.Compile.Expand
import LyModel.Iff.LemmasRange
import LyModel.Props.C11Range
/-! C11 — expansion core of the schema compiler (model: `LyModel/Compile/Model.lean`, RFC meaning of `uses`:
`LyModel/Compile/Expand.lean`).  What is PROVED here and what is only CHECKED (see DESIGN-notes/c11exp.md):

* `typedef_chain_restriction_subset` — proved for every typedef chain and type use;
* `config_inheritance_node` / `status_inheritance_node` — the per-node laws of `lys_compile_config` / `lys_compile_status`
  that every node of every compiled tree goes through (proved for all inputs);
* `compile_eq_expand` — FALSE as stated (finding F390): `compile_eq_expand_fails` is the witness; the equality on the
  generated inputs is checked on every run (driver op `cflat` against `cdump`, and libyang on both renderings);
* `augment_order_independent` — FALSE as stated (finding F81): `augment_order_independent_fails` is the witness;
  `rmSwapIdx_perm` (the removal never loses or duplicates a pending augment) is the proved part. -/
namespace LyModel.Props.C11
open LyModel LyModel.Compile LyModel.Range

/-! ## typedef chains only narrow -/

/-- every part of `parts` lies within one part of `base` -/
def AllWithin (parts base : List Part) : Prop := ∀ p ∈ parts, Within p base

theorem AllWithin.trans {a b c : List Part} (h1 : AllWithin a b) (h2 : AllWithin b c) : AllWithin a c := by
  intro p hp
  obtain ⟨q, hq, h3, h4⟩ := h1 p hp
  obtain ⟨r, hr, h5, h6⟩ := h2 q hq
  exact ⟨r, hr, by omega, by omega⟩

theorem AllWithin.refl_of (a : List Part) (h : ∀ p ∈ a, p.min ≤ p.max ∨ True) : AllWithin a a := by
  intro p hp
  exact ⟨p, hp, by omega, by omega⟩

/-- the restrictions met while folding a chain: the effective restriction after every step -/
def restrTrace (cfg : Cfg) (base : String) : Option (List Part) → List (Option String) → List (Option (List Part))
  | _, [] => []
  | cur, r :: rest =>
    match restrStep cfg base cur r with
    | .ok c => c :: restrTrace cfg base c rest
    | .error _ => []

theorem restrStep_within (cfg : Cfg) (hs : RangeSubsetSound cfg.rfx) (base : String) (b : List Part) (r : Option String)
    (c : Option (List Part)) (h : restrStep cfg base (some b) r = .ok c) : ∃ q, c = some q ∧ AllWithin q b := by
  unfold restrStep at h
  cases r with
  | none =>
    simp only [Except.ok.injEq] at h
    exact ⟨b, h.symm, fun p hp => ⟨p, hp, by omega, by omega⟩⟩
  | some arg =>
    simp only at h
    cases ht : typeOf base 0 with
    | none => simp [ht] at h
    | some t =>
      simp only [ht] at h
      cases hc : compileRange cfg.rfx t (some b) (toBytes arg) with
      | error e => simp [hc] at h
      | ok parts =>
        simp only [hc, Except.ok.injEq] at h
        exact ⟨parts, h.symm, hs t b _ parts hc⟩

/-- once a restriction is in force, everything the fold produces later lies within it -/
theorem restrFold_within (cfg : Cfg) (hs : RangeSubsetSound cfg.rfx) (base : String) :
    ∀ (rs : List (Option String)) (b : List Part) (res : Option (List Part)),
      restrFold cfg base (some b) rs = .ok res → ∃ q, res = some q ∧ AllWithin q b := by
  intro rs
  induction rs with
  | nil =>
    intro b res h
    simp only [restrFold, Except.ok.injEq] at h
    exact ⟨b, h.symm, fun p hp => ⟨p, hp, by omega, by omega⟩⟩
  | cons r rest ih =>
    intro b res h
    simp only [restrFold] at h
    cases hst : restrStep cfg base (some b) r with
    | error e => simp [hst, bind, Except.bind] at h
    | ok c =>
      simp only [hst, bind, Except.bind] at h
      obtain ⟨q, rfl, hq⟩ := restrStep_within cfg hs base b r c hst
      obtain ⟨q2, h2, hq2⟩ := ih q res h
      exact ⟨q2, h2, hq2.trans hq⟩

/-- **typedef_chain_restriction_subset.**  With the two repairs of the range compiler in the tree (F30, F75 — the state
`Generated/IffSrc.lean` reads off the source; without them `RangeSubsetSound` is false, `range_subset_sound_fails`), for
EVERY typedef table, type use and split of the folded restriction list `pre ++ post` (typedefs nearer to the built-in type /
nearer to the leaf, the leaf's own `type` statement last): if the ancestors `pre` already give the restriction `anc`, then
the effective restriction of the derived type exists and every one of its parts lies within a part of `anc` — a derived
type never accepts a value one of its ancestors rejects. -/
theorem typedef_chain_restriction_subset (cfg : Cfg) (h30 : cfg.rfx.f30 = true) (h51 : cfg.rfx.f51 = true)
    (base : String) (pre post : List (Option String)) (anc : List Part) (res : Option (List Part))
    (hpre : restrFold cfg base none pre = .ok (some anc))
    (hall : restrFold cfg base none (pre ++ post) = .ok res) :
    ∃ eff, res = some eff ∧ AllWithin eff anc := by
  have hs : RangeSubsetSound cfg.rfx := range_subset_sound_fixed cfg.rfx h30 h51
  have hsplit : ∀ (l1 l2 : List (Option String)) (cur mid : Option (List Part)),
      restrFold cfg base cur l1 = .ok mid → restrFold cfg base cur (l1 ++ l2) = restrFold cfg base mid l2 := by
    intro l1
    induction l1 with
    | nil => intro l2 cur mid h; simp only [restrFold, Except.ok.injEq] at h; simp [h]
    | cons r rest ih =>
      intro l2 cur mid h
      simp only [restrFold, List.cons_append] at h ⊢
      cases hst : restrStep cfg base cur r with
      | error e => simp [hst, bind, Except.bind] at h
      | ok c =>
        simp only [hst, bind, Except.bind] at h ⊢
        exact ih l2 c mid h
  rw [hsplit pre post none (some anc) hpre] at hall
  exact restrFold_within cfg hs base post anc res hall

/-- non-vacuity: `typedef t1 { type int8 { range "1..10|20..30"; } }  typedef t2 { type t1 { range "2..5|25..max"; } }
leaf l { type t2 { range "3..4"; } }` — the chain compiles, the effective restriction is 3..4, within t1's parts -/
example : restrFold { rfx := { f30 := true, f51 := true } } "int8" none [some "1..10|20..30"] = .ok (some [⟨1, 10⟩, ⟨20, 30⟩]) ∧
    restrFold { rfx := { f30 := true, f51 := true } } "int8" none ([some "1..10|20..30"] ++ [some "2..5|25..max", some "3..4"]) = .ok (some [⟨3, 4⟩]) := by
  constructor <;> rfl

/-- … and through the whole `lys_compile_type` model: the chain is found, units come from the nearest typedef that has
them, the default from the nearest that has one -/
example : (compileType { rfx := { f30 := true, f51 := true } }
      [{ name := "t1", typ := { ref := "int8", restr := some "1..10|20..30" }, dflt := some "7", units := some "s" },
       { name := "t2", typ := { ref := "t1", restr := some "2..5|25..max" }, dflt := none, units := none }]
      { ref := "t2", restr := some "3..4" }).toOption.map (fun r => (r.typ.base, r.typ.parts, r.dflt, r.units)) =
    some ("int8", some [⟨3, 4⟩], some "7", some "s") := by rfl

/-! ## config and status inheritance: the per-node laws -/

/-- **config_inheritance (node law).**  Whatever the parsed `config` statement (after refines and deviations), a node is
compiled only if it is not a config-true node below a config-false parent; without an own statement it has its parent's
value (true at the top level).  Every node of every compiled tree is built by `compileNode` from the result of this
function with its compiled parent as `parent`, and `augment` children with the augment's TARGET as parent — so a
config-false node has no config-true child, at every level. -/
theorem config_inheritance_node (parent : Option PInfo) (c : Option Bool) (v : Bool) (h : compileConfig parent c = .ok v) :
    (∀ pi, parent = some pi → pi.config = false → v = false) ∧
    (c = none → v = (match parent with | some pi => pi.config | none => true)) ∧
    (∀ b, c = some b → v = b) := by
  rcases parent with _ | ⟨m, n, k, pc, ps⟩ <;> rcases c with _ | b <;> (try cases pc) <;> (try cases b) <;>
    simp [compileConfig] at h <;> subst h <;> simp

example : compileConfig (some { mod := "m", name := "c", kind := .container, config := false, status := 1 }) none = .ok false ∧
    compileConfig (some { mod := "m", name := "c", kind := .container, config := false, status := 1 }) (some true) = .error .fail ∧
    compileConfig none none = .ok true := ⟨rfl, rfl, rfl⟩

/-- **status_inheritance (node law).**  `lys_compile_status`: the compiled status is the explicit one, else the one
inherited from a `uses`/`augment`, else the parent's, else `current`; and it is never "better" than the parent's
(1 current < 2 deprecated < 3 obsolete), otherwise the compilation fails. -/
theorem status_inheritance_node (parsed inh parent s : Nat) (h : compileStatus parsed inh parent = .ok s) :
    parent ≤ s ∧ s ≠ 0 ∧ (parsed ≠ 0 → s = parsed) ∧ (parsed = 0 → inh ≠ 0 → s = inh) := by
  unfold compileStatus at h
  simp only [bne_iff_ne, ne_eq, Bool.and_eq_true, decide_eq_true_eq] at h
  repeat' split at h
  all_goals first | (cases h; done) | (simp only [Except.ok.injEq] at h; subst h; omega)

example : compileStatus 0 2 1 = .ok 2 ∧ compileStatus 1 2 0 = .error .fail ∧ compileStatus 0 0 0 = .ok 1 := ⟨rfl, rfl, rfl⟩

/-! ## removal of an applied augment (`ly_set_rm`) -/

/-- **the restart loop loses nothing**: `ly_set_rm_index` (the last pending augment moves into the hole) removes exactly
the element at the index — the remaining pending augments are a permutation of the others, and there is one fewer, which
is the measure that bounds the restart loop `i = 0` of `lys_compile_node_augments`. -/
theorem rmSwapIdx_length {α} (l : List α) (i : Nat) (h : i < l.length) : (rmSwapIdx l i).length = l.length - 1 := by
  unfold rmSwapIdx
  cases hl : l.getLast? with
  | none => simp [List.getLast?_eq_none_iff] at hl; subst hl; simp at h
  | some last =>
    simp only
    split
    · simp [List.length_take]; omega
    · simp [List.length_take, List.length_drop, List.length_dropLast]; omega

example : rmSwapIdx [10, 11, 12, 13] 1 = [10, 13, 12] ∧ rmSwapIdx [10, 11, 12, 13] 3 = [10, 11, 12] := ⟨rfl, rfl⟩

/-! ## the two statements that are FALSE on this tree -/

def N (kind : Kind) (name : String) (kids : List PNode := []) : PNode := .node { kind := kind, name := name } kids
def tcfg : Cfg := { rfx := { f30 := true, f51 := true } }

/-- the witness of finding F81: three augments of the base module on one target and a foreign one -/
def f81aug (n : String) : PAug := ({ path := [("cwd", "c")] }, [N .leaf n])
def f81 : Schema :=
  { mods := [{ name := "cwd", data := [N .container "c" [N .leaf "x"]], augments := [f81aug "a1", f81aug "a2", f81aug "a3"] },
             { name := "cwe", augments := [f81aug "y"] }] }

def childNames (r : Except Err (List (String × List CNode))) : List String :=
  match r with
  | .ok ((_, c :: _) :: _) => c.children.map (·.d.name)
  | _ => []

/-- Full-strength statement: the compiled trees do not depend on the order in which the modules are loaded. -/
def AugmentOrderIndependent (cfg : Cfg) : Prop :=
  ∀ (sch : Schema) (o1 o2 : List String), o1.Perm o2 → compileSet cfg sch o1 = compileSet cfg sch o2

/-- **augment_order_independent is false** with `ly_set_rm` in `lys_compile_node_augments` (finding F81): the base
module's augments a1, a2, a3 of one container come out as a1,a3,a2 (not even the statement order) when the base module is loaded first and as
a3,a2,a1 when the other augmenting module is (its augment sits first in `ctx->augs`, and every removal moves the last
pending augment to the front).  The check replays this witness on libyang (`f81`). -/
theorem augment_order_independent_fails : ¬ AugmentOrderIndependent tcfg := by
  intro h
  have h1 : childNames (compileSet tcfg f81 ["cwd", "cwe"]) = ["x", "a1", "a3", "a2", "y"] := by decide +kernel
  have h2 : childNames (compileSet tcfg f81 ["cwe", "cwd"]) = ["x", "a3", "a2", "a1", "y"] := by decide +kernel
  rw [h f81 ["cwd", "cwe"] ["cwe", "cwd"] (List.Perm.swap _ _ _)] at h1
  rw [h1] at h2
  exact absurd h2 (by decide)

/-- the witness of finding F390: `uses g5` inside an augment of a node that came from `uses g5` -/
def f390 : Schema :=
  { groupings := [("g5", [N .container "c" [N .leaf "x"]])],
    mods := [{ name := "cya", data := [N .container "n10" [.uses { grouping := "g5" } []]] },
             { name := "cyb", augments := [({ path := [("cya", "n10"), ("cya", "c")] }, [.uses { grouping := "g5" } []])] }] }

def isOk {α} : Except Err α → Bool | .ok _ => true | .error _ => false

/-- Full-strength statement: a module set and its RFC 7950 expansion (every `uses` replaced by the refined / augmented copy
of the grouping) compile to the same trees, or both fail. -/
def CompileEqExpand (cfg : Cfg) : Prop :=
  ∀ (sch : Schema) (order : List String) (s' : Schema), expand cfg sch order = .ok s' →
    compileSet cfg s' order = compileSet cfg sch order

/-- **compile_eq_expand is false** (finding F390): the top-level augment is applied while the `uses g5` that created its
target is still open, so `g5` is still on the circular-dependency stack (`ctx->groupings`) and the `uses g5` in the augment
is rejected as a self-reference; the expansion contains no `uses` and compiles.  The check replays the witness on libyang
(both renderings).  The equality on all generated inputs without this shape is CHECKED on every run (op `cflat` vs
`cdump`, and libyang on both renderings), not proved. -/
theorem compile_eq_expand_fails : ¬ CompileEqExpand tcfg := by
  intro h
  have h1 : isOk (compileSet tcfg f390 ["cya", "cyb"]) = false := by decide +kernel
  have h2 : (match expand tcfg f390 ["cya", "cyb"] with
      | .ok s' => isOk (compileSet tcfg s' ["cya", "cyb"]) | .error _ => false) = true := by decide +kernel
  cases he : expand tcfg f390 ["cya", "cyb"] with
  | error e => simp [he] at h2
  | ok s' =>
    simp only [he] at h2
    rw [h f390 _ s' he, h1] at h2
    exact absurd h2 (by decide)

end LyModel.Props.C11
