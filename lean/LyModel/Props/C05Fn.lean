import LyModel.Bridge.Utf8Get
import LyModel.Bridge.Utf8Put
import LyModel.Lex.JsonStrBufLemmas
/-!
# C05 (C01, C12) — the UTF-8 leaf functions as TRANSLATED from ly_common.c

`Generated.Fn.ly_getutf8` / `Generated.Fn.ly_pututf8` are rewritten from the C source on every run by `tools/c2lean.py`
(buffers by value: `C.rd` reads `0` at and behind the end of the list — the terminating NUL of a C string —, `C.wr`
*extends* the list on a store outside it, so such a store is visible as a changed length).  These theorems are
re-checked against the translation of the code as it is now.
-/
namespace LyModel.Props.C05Fn
open LyModel LyModel.Generated

/-- **The translated decoder and encoder are the models** every C01 / C05 / C12 theorem about `Utf8.getUtf8` and
    `Utf8.putUtf8` is proved about: return code, bytes consumed / stored, code point and `*bytes_read` /
    `*bytes_written` (left alone or zeroed exactly as the C does) agree on ALL inputs. -/
theorem gen_utf8_are_model (inp dst : Bytes) (c0 v : UInt32) (br : Option UInt64) (bw : UInt64) (h : 4 ≤ dst.length) :
    Fn.ly_getutf8 inp c0 br = Bridge.Utf8.getOut c0 br (Utf8.getUtf8 inp) ∧
    Fn.ly_pututf8 dst v bw = Bridge.Utf8.putOut dst bw (Utf8.putUtf8 v.toNat) :=
  ⟨Bridge.Utf8.getutf8_eq inp c0 br, Bridge.Utf8.pututf8_eq dst v bw h⟩

example : Fn.ly_getutf8 [0xE2, 0x82, 0xAC, 0x41] 0 (some 9) = ⟨0, 3, 0x20AC, some 3⟩ ∧
    Fn.ly_getutf8 [0xED, 0xA0, 0x80] 7 (some 9) = ⟨3, 0, 7, some 0⟩ := by decide +kernel

theorem hand_nul_indep (s j j' : Bytes) : Utf8.getUtf8 (s ++ 0 :: j) = Utf8.getUtf8 (s ++ 0 :: j') := by
  match s with
  | [] => simp [Utf8.getUtf8, Utf8.rd]
  | [a] => simp [Utf8.getUtf8, Utf8.rd, Utf8.isCont]
  | [a, b] => simp [Utf8.getUtf8, Utf8.rd, Utf8.isCont]
  | [a, b, c] => simp [Utf8.getUtf8, Utf8.rd, Utf8.isCont]
  | a :: b :: c :: d :: t => simp [Utf8.getUtf8, Utf8.rd]

/-- **The translated `ly_getutf8` never looks behind the first NUL.**  Whatever follows a NUL byte in memory — `j` or
    `j'` — has no influence on anything the translated function returns: on a NUL-terminated buffer, however malformed
    or truncated its content, the bytes behind the terminator are irrelevant to it. -/
theorem gen_getutf8_stops_at_nul (s j j' : Bytes) (c0 : UInt32) (br : Option UInt64) :
    Fn.ly_getutf8 (s ++ 0 :: j) c0 br = Fn.ly_getutf8 (s ++ 0 :: j') c0 br := by
  rw [Bridge.Utf8.getutf8_eq, Bridge.Utf8.getutf8_eq, hand_nul_indep]

/-- non-vacuity: a truncated 4-byte sequence in front of the terminator -/
example : Fn.ly_getutf8 ([0xF0, 0x90, 0x80] ++ 0 :: [0x80, 0x80]) 5 none = ⟨3, 0, 5, none⟩ := by decide +kernel

/-- **The translated `ly_pututf8` stores only inside the caller's 4 bytes.**  For every value and every destination of
    at least 4 bytes the destination keeps its length (a store outside it would have extended the list), at most 4 bytes
    are reported, and everything behind the reported bytes is unchanged. -/
theorem gen_pututf8_in_bounds (dst : Bytes) (v : UInt32) (bw : UInt64) (h : 4 ≤ dst.length) :
    (Fn.ly_pututf8 dst v bw).dst.length = dst.length ∧
    ((Fn.ly_pututf8 dst v bw).ret = 0 → (Fn.ly_pututf8 dst v bw).bytes_written ≤ 4 ∧
      (Fn.ly_pututf8 dst v bw).dst.drop (Fn.ly_pututf8 dst v bw).bytes_written.toNat = dst.drop (Fn.ly_pututf8 dst v bw).bytes_written.toNat) := by
  rw [Bridge.Utf8.pututf8_eq dst v bw h]
  cases hp : Utf8.putUtf8 v.toNat with
  | none => simp [Bridge.Utf8.putOut]
  | some bs =>
    have hl := LyModel.Lex.JsonStrBuf.putUtf8_length hp
    have e : (UInt64.ofNat bs.length).toNat = bs.length := by simp; omega
    refine ⟨by simp [Bridge.Utf8.putOut]; omega, fun _ => ⟨?_, ?_⟩⟩
    · simp only [Bridge.Utf8.putOut]
      rw [UInt64.le_iff_toNat_le, e]; simpa using hl
    · simp only [Bridge.Utf8.putOut, e]
      simp [List.drop_append]

example : Fn.ly_pututf8 [1, 2, 3, 4, 5] 0x20AC 0 = ⟨0, [0xE2, 0x82, 0xAC, 4, 5], 3⟩ := by decide +kernel

end LyModel.Props.C05Fn
