import LyModel.Diff.K13MergeTree
import LyModel.Diff.LemmasKeyCopy
import LyModel.Props.C13
/-!
# C13 — the composition law at TREE level: `apply (merge (diff A B) (diff B C)) A = C`

`merge_apply_partial_tree`: for every schema (`schemaOK`) and all well-formed trees `A`, `B`, `C` with canonical key / leaf-list
values — leaves, presence and non-presence containers, choices, keyed system-ordered lists and leaf-lists at any depth, any
number of instances and changes; NO hypothesis on the `sort` callbacks — with default nodes part of the diffs
(`LYD_DIFF_DEFAULTS`), both settings of `LYD_DIFF_MERGE_DEFAULTS` (with the repaired condition of finding F18(b) when it is set):
`lyd_diff_merge_all(diff(A,B), diff(B,C))` succeeds and `lyd_diff_apply_all` of the merged diff takes `A` to `C` (structure,
values, default flags of all leaves and leaf-list instances) — PROVIDED the two diffs MEET only in the ways `mergeSafe` lists
(Diff/MergeSafe.lean, decidable, evaluated by the driver on every generated triple): two leaf / leaf-list nodes — every accepted
cell of the 4 × 4 table: the 15 cell theorems of Props/C13Merge.lean and three more for copies inside created subtrees — or two
inner nodes in any of the five accepted cells, recursively.
The proof is the induction of `lyd_diff_merge_r` over the second diff (Diff/K13MergeTree.lean) on top of a forward
specification of `lyd_diff_apply_all` for exact diffs (Diff/K13Fwd.lean: `apply_exact_obs_keyed` below).

What the hypothesis excludes, and what stays outside the law:
* F18(a) (no `LYD_DIFF_DEFAULTS`), F18(b) (unrepaired `LYD_DIFF_MERGE_DEFAULTS`), the default-flagged second value of the cell
  `none` + `replace`: `merge_apply_nodefaults_fails`, `merge_apply_mergedefaults_fails`, `merge_apply_dfltvalue_fails`
  (Props/C13.lean) — the first two through the options of the statement, the third through `mergeSafe`
  (`mergeSafe_excludes_dfltvalue`: that triple is outside `mergeSafe`, and the law fails on it);
* all five cells of the table the C accepts for inner nodes are INSIDE: besides `none` + `none`, an instance created or deleted as
  a whole subtree by one diff and met again by the other one — created then changed inside, created then deleted, changed inside
  then deleted, deleted then created again with the same or with OTHER descendants ("delete-then-recreate", the design-phase cell
  of F18, composes with `LYD_DIFF_DEFAULTS`).  There the operations of the descendants are INHERITED; `lyd_diff_merge_delete` /
  `lyd_diff_merge_create` make the operations of the target node's children explicit first, the copies inside a created
  subtree keep inheriting `create` (Diff/K13MergeTree.lean: `merge_matched_inner_nd`, `_cd`, `_cn`, `_dc`);
* `mergeSafe` also asks that the key copies in front of a target node belong to earlier schema nodes than the children of the source
  node and, for `delete` + `create`, that the key leaves of the two copies agree in their default flags: true of every diff
  computed from well-formed trees (`wfForest`: the keys of a list instance are its first children, leaves without the default
  flag) — `keyCopyL_diff`, `mergeSafe_of_computed` (Diff/LemmasKeyCopy.lean) DERIVE these conditions for computed diffs, so
  `merge_apply_partial_tree_computed` below asks only for `mergeSafe0` (the meeting cells + the F18(c) exclusion); the core
  theorem `K13.merge_apply_exact` about ARBITRARY exact diffs keeps them as part of its hypothesis `mergeSafe`;
* user-ordered lists are outside (`lyd_diff_is_redundant` documents their merge as lossy).
-/
set_option linter.unusedSimpArgs false
namespace LyModel.Props.C13
open LyModel LyModel.Tree LyModel.Diff

/-! ## forward specification of `lyd_diff_apply_all` -/

/-- **apply on exact diffs is a function of the observation**: for an exact diff `D` of a good tree `A` (what
`lyd_diff_siblings(A, ·, LYD_DIFF_DEFAULTS)` computes: `diff_exact_on`) there is ONE observation `V` such that applying `D` to any
good tree with the observation of `A` (same structure, values and leaf default flags; metadata, `LYD_NEW`, container flags free)
succeeds and gives a good tree with the observation `V`.  Keyed lists included (`K13.keyedOK`). -/
theorem apply_exact_obs_keyed {S : Schema} (hS : K13.schemaOK S = true) (fx : Fixes) {A D : List DNode}
    (hA : K13.goodT S (K13.keyedOK S) A = true) (hD : K13.exactDiff S (K13.keyedOK S) A D = true) :
    ∃ V, ∀ X, K13.goodT S (K13.keyedOK S) X = true → dataEqL true X A = true →
      ∃ X1, apply S X D fx = .ok X1 ∧ K13.goodT S (K13.keyedOK S) X1 = true ∧ normL13 X1 = V := by
  obtain ⟨V, hV⟩ := K13.apply_exact_obs (fx := fx) (K13.keyOrderOn_keyed hS) hA hD
  exact ⟨V, fun X hgX hX => hV X hgX ((dataEqL_iff_norm X A).mp hX)⟩

/-! ## the cells `mergeSafe` admits for inner nodes are the cells the source accepts -/

/-- `meetOps` (the cells of two container / list-instance nodes that `mergeSafe` admits) is exactly the part of the table read from
the four `switch (cur_op)` of src/diff.c (tools/extractors/diff13.py: `Generated.Diff13.mergeAccepted`, pairs (source, target))
that does not involve `replace` — an operation inner nodes of the fragment never carry -/
theorem meetOps_are_accepted_cells (cop sop : Op) :
    meetOps (some cop) (some sop) = true ↔
      ((opCode sop, opCode cop) ∈ Generated.Diff13.mergeAccepted ∧ cop ≠ .replace ∧ sop ≠ .replace) := by
  cases cop <;> cases sop <;> decide

/-! ## the composition law -/

/-- **merge_apply_partial at tree level** (see the header).  `mergeApply S true o A B C fx` =
`lyd_diff_apply_all(A, lyd_diff_merge_all(lyd_diff_siblings(A, B, DEFAULTS), lyd_diff_siblings(B, C, DEFAULTS), o))`. -/
theorem merge_apply_partial_tree {S : Schema} (hS : K13.schemaOK S = true) (o : MergeOpts)
    (hq : o.defaults = true → Generated.Diff13.mergeDfltNeedsDeletedDflt = true) (fx : Fixes) (A B C : List DNode)
    (hA : wfForest S A = true) (hB : wfForest S B = true) (hC : wfForest S C = true) (hcA : K13.canonT S A = true)
    (hcB : K13.canonT S B = true) (hcC : K13.canonT S C = true)
    (hsafe : mergeSafe S (diff S true A B) (diff S true B C) = true) :
    ∃ C', mergeApply S true o A B C fx = .ok C' ∧ dataEqL true C' C = true := by
  have K := K13.keyOrderOn_keyed hS
  have hpA := K13.keyedT_of_wf hA hcA
  have hpB := K13.keyedT_of_wf hB hcB
  have hpC := K13.keyedT_of_wf hC hcC
  obtain ⟨B', h1, _, _, h4⟩ := K13.diff_chain_exact K fx A B C hA hB hC hpA hpB hpC
  obtain ⟨M, C1, C2, hm, ha, hb, hn⟩ := K13.merge_apply_exact (fx := fx) K hq (K13.goodT_of_wfForest A hA hpA)
    (K13.exactDiff_diff K.pinv A B hA hB hpA hpB) (litL_diff S A B hA hB) h1 h4 (litL_diff S B C hB hC) hsafe
  -- what diff(B, C) makes of B' is what it makes of B, and that is C
  obtain ⟨C3, g1, _, g3, _⟩ := K13.diff_chain_exact K fx B C C hB hC hC hpB hpC hpC
  obtain ⟨B'', j1, j2, j3, _⟩ := K13.diff_chain_exact K fx A B B hA hB hB hpA hpB hpB
  rw [h1] at j1
  cases j1
  obtain ⟨V, hV⟩ := K13.apply_exact_obs (fx := fx) K (K13.goodT_of_wfForest B hB hpB) (K13.exactDiff_diff K.pinv B C hB hC hpB hpC)
  obtain ⟨X1, k1, _, k3⟩ := hV B (K13.goodT_of_wfForest B hB hpB) rfl
  obtain ⟨X2, l1, _, l3⟩ := hV B' j2 j3
  rw [g1] at k1; cases k1
  rw [hb] at l1; cases l1
  refine ⟨C2, ?_, ?_⟩
  · simp [mergeApply, hm, Except.bind, applyD, ha]
  · rw [dataEqL_iff_norm, hn, l3, ← k3, g3]

/-- **merge_apply_partial at tree level, for the diffs libyang computes**: the side condition is `mergeSafe0` — which cells the two
diffs meet in (`meetOps`) and the one excluded leaf cell (`none` + `replace` with a default-flagged value, F18(c)); what `mergeSafe`
asks of the key copies is derived (`mergeSafe_of_computed`) -/
theorem merge_apply_partial_tree_computed {S : Schema} (hS : K13.schemaOK S = true) (o : MergeOpts)
    (hq : o.defaults = true → Generated.Diff13.mergeDfltNeedsDeletedDflt = true) (fx : Fixes) (A B C : List DNode)
    (hA : wfForest S A = true) (hB : wfForest S B = true) (hC : wfForest S C = true) (hcA : K13.canonT S A = true)
    (hcB : K13.canonT S B = true) (hcC : K13.canonT S C = true)
    (hsafe : mergeSafe0 S (diff S true A B) (diff S true B C) = true) :
    ∃ C', mergeApply S true o A B C fx = .ok C' ∧ dataEqL true C' C = true :=
  merge_apply_partial_tree hS o hq fx A B C hA hB hC hcA hcB hcC (mergeSafe_of_computed S A B C hA hB hC hsafe)

/-! ### non-vacuity: a keyed list with nested content — the SAME instance `l[1]` is changed in both steps (`v`: d → e → f, the
leaf-list `ll`), `l[2]` deleted and `l[3]` created by the first diff, `top` deleted by the first and created again by the second -/

def mtC : List DNode := [ mcL "1" [.term 2 {} [] (bs "f"), .term 3 {} [] (bs "b"), .term 3 {} [] (bs "g")],
  mcL "3" [.term 3 {} [] (bs "c")], .term 4 {} [] (bs "u") ]

example : wfForest mcS mtC = true ∧ K13.canonT mcS mtC = true ∧ (diff mcS true mcB mtC).length = 2 ∧
    mergeSafe mcS (diff mcS true mcA mcB) (diff mcS true mcB mtC) = true := by decide +kernel

example : ∃ C', mergeApply mcS true {} mcA mcB mtC = .ok C' ∧ dataEqL true C' mtC = true :=
  merge_apply_partial_tree (by decide +kernel) {} (fun h => by cases h) {} mcA mcB mtC (by decide +kernel) (by decide +kernel)
    (by decide +kernel) (by decide +kernel) (by decide +kernel) (by decide +kernel) (by decide +kernel)

example : mergeSafe0 mcS (diff mcS true mcA mcB) (diff mcS true mcB mtC) = true := by decide +kernel
example : ∃ C', mergeApply mcS true {} mcA mcB mtC = .ok C' ∧ dataEqL true C' mtC = true :=
  merge_apply_partial_tree_computed (by decide +kernel) {} (fun h => by cases h) {} mcA mcB mtC (by decide +kernel) (by decide +kernel)
    (by decide +kernel) (by decide +kernel) (by decide +kernel) (by decide +kernel) (by decide +kernel)
/-- the derived conditions are not empty: the key copies of the computed diff of the example -/
example : keyCopyL mcS (diff mcS true mcA mcB) := keyCopyL_diff mcS mcA mcB (by decide +kernel) (by decide +kernel)
example : ((diff mcS true mcA mcB).map fun n => (keysOf mcS n.kids).length) = [1, 1, 1, 0] := by decide +kernel

/-- … and with `LYD_DIFF_MERGE_DEFAULTS`, given the repaired condition of `lyd_diff_merge_create` -/
example (hq : Generated.Diff13.mergeDfltNeedsDeletedDflt = true) :
    ∃ C', mergeApply mcS true { defaults := true } mcA mcB mtC = .ok C' ∧ dataEqL true C' mtC = true :=
  merge_apply_partial_tree (by decide +kernel) _ (fun _ => hq) {} mcA mcB mtC (by decide +kernel) (by decide +kernel)
    (by decide +kernel) (by decide +kernel) (by decide +kernel) (by decide +kernel) (by decide +kernel)

/-- the merged diff of the example is not trivial: `l[1]` (with `v`: d → f and the two leaf-list changes), `l[2]`, `l[3]`, `top` -/
example : (match mergeDiff {} mcS (diff mcS true mcA mcB) (diff mcS true mcB mtC) with
    | .ok M => M.length | .error _ => 0) = 4 := by decide +kernel

/-- an instance created by the first diff and changed inside by the second (inherited `create` in the target), and one changed
inside and then deleted (inherited `delete` in the source): inside `mergeSafe` -/
def moB : List DNode := [ mcL "3" [.term 3 {} [] (bs "c")] ]
def moC : List DNode := [ mcL "3" [.term 2 {} [] (bs "w"), .term 3 {} [] (bs "c"), .term 3 {} [] (bs "d")] ]

example : mergeSafe mcS (diff mcS true [] moB) (diff mcS true moB moC) = true ∧
    mergeSafe mcS (diff mcS true moB moC) (diff mcS true moC []) = true := by decide +kernel
example : ∃ C', mergeApply mcS true {} [] moB moC = .ok C' ∧ dataEqL true C' moC = true :=
  merge_apply_partial_tree (by decide +kernel) {} (fun h => by cases h) {} [] moB moC (by decide +kernel) (by decide +kernel)
    (by decide +kernel) (by decide +kernel) (by decide +kernel) (by decide +kernel) (by decide +kernel)
example : ∃ C', mergeApply mcS true {} moB moC [] = .ok C' ∧ dataEqL true C' [] = true :=
  merge_apply_partial_tree (by decide +kernel) {} (fun h => by cases h) {} moB moC [] (by decide +kernel) (by decide +kernel)
    (by decide +kernel) (by decide +kernel) (by decide +kernel) (by decide +kernel) (by decide +kernel)

/-- "delete-then-recreate with different descendants" (the design-phase cell of finding F18): `l[3]` deleted as a whole by the
first diff and created again with other descendants by the second — inside `mergeSafe`, the law holds -/
example : mergeSafe mcS (diff mcS true moC []) (diff mcS true [] moB) = true := by decide +kernel
example : ∃ C', mergeApply mcS true {} moC [] moB = .ok C' ∧ dataEqL true C' moB = true :=
  merge_apply_partial_tree (by decide +kernel) {} (fun h => by cases h) {} moC [] moB (by decide +kernel) (by decide +kernel)
    (by decide +kernel) (by decide +kernel) (by decide +kernel) (by decide +kernel) (by decide +kernel)

/-- what `mergeSafe` excludes is NEEDED: the triple of `merge_apply_dfltvalue_fails` (Props/C13.lean: the cell `none` + `replace`
clears the default flag of the new value) is outside `mergeSafe`, and the law fails on it -/
theorem mergeSafe_excludes_dfltvalue :
    mergeSafe cellS (diff cellS true [tm 0 "d"] [tm 0 "d" true]) (diff cellS true [tm 0 "d" true] [tm 0 "e" true]) = false ∧
      (match mergeApply cellS true {} [tm 0 "d"] [tm 0 "d" true] [tm 0 "e" true] with
        | .ok r => dataEqL true r [tm 0 "e" true] | .error _ => false) = false := by
  decide +kernel

end LyModel.Props.C13
