import LyModel.Path.LemmasGrammar
/-!
# C15 — a node's path identifies that node, and paths create what they name

Property theorems about the model of `lyd_path`, `ly_path_parse`, `ly_path_compile`/`ly_path_eval_partial`
(`lyd_find_path`) and `lyd_new_path_` in `LyModel/Path`.  Statements only; lemmas are in `LyModel/Path/Lemmas*.lean`.
The buffer arithmetic (`len` formulas, `sprintf` formats, quote selection) is generated from the C source
(`Generated/PathFmt.lean`), so `path_buffer_in_bounds` and the round trips are re-proved against what the code says.
-/
namespace LyModel.Props.C15
open LyModel LyModel.Path

/-! ## the buffer of `lyd_path` -/

/-- **path_buffer_in_bounds.** For every tree, node, path type and buffer (caller-provided of any size, or grown by
    `realloc`): every `sprintf` of `lyd_path` and its three predicate writers lies inside the allocation as it is at
    that moment (offset + bytes written, NUL included, ≤ `buflen`), and once anything has been written the text and
    its terminating NUL fit the final allocation. -/
theorem path_buffer_in_bounds (f : Forest) (a : Addr) (pt : PathType) (static : Option Nat) (b : Buf)
    (h : lydPath f a pt static = some b) :
    (∀ w ∈ b.log, w.off + w.len ≤ w.cap) ∧ (b.log ≠ [] → b.data.length + 1 ≤ b.cap) :=
  ⟨(lydPath_good h).logOK, (lydPath_good h).term⟩

/-- a two-level tree: list `l` (keys `k1`, `k2`, the second with a `'` in it) under container `c`, and a leaf from an
    augmenting module below the list -/
def exTree : Forest :=
  -- bytes: ma = [109, 97], mb = [109, 98], c = [99], l = [108], k1 = [107, 49], k2 = [107, 50], x = [120],
  -- values "a b" = [97, 32, 98], "it's" = [105, 116, 39, 115], "v" = [118]
  [.mk [109, 97] [99] .inner []
    [.mk [109, 97] [108] (.list true) []
      [.mk [109, 97] [107, 49] (.leaf true) [97, 32, 98] [],
       .mk [109, 97] [107, 50] (.leaf true) [105, 116, 39, 115] [],
       .mk [109, 98] [120] (.leaf false) [118] []]]]

/-- non-vacuity: a static buffer of 20 bytes receives `/ma:c/l[k1='a b']` (the second key predicate no longer fits),
    in three writes, all in bounds -/
example : (lydPath exTree [0, 0, 2] .std (some 20)).map (fun b => (b.data, b.log.length)) =
    some ([47, 109, 97, 58, 99, 47, 108, 91, 107, 49, 61, 39, 97, 32, 98, 39, 93], 3) := by decide

/-- **static_buffer_terminated** (full statement): whenever `lyd_path` returns the caller's buffer it has written a
    (possibly truncated) NUL-terminated path into it.  FALSE for the code: finding F51. -/
def StaticBufferTerminated : Prop :=
  ∀ (f : Forest) (a : Addr) (pt : PathType) (n : Nat) (b : Buf), lydPath f a pt (some n) = some b → b.log ≠ []

theorem static_buffer_terminated_fails : ¬ StaticBufferTerminated := by
  intro h
  -- `char buf[3]; lyd_path(c, LYD_PATH_STD, buf, 3)`: "/ma:c" needs 6 bytes, nothing is written, `buf` is returned
  have key : ∃ b, lydPath exTree [0] .std (some 3) = some b ∧ b.log = [] := ⟨_, rfl, by decide⟩
  obtain ⟨b, hb, hlog⟩ := key
  exact h exTree [0] .std 3 b hb hlog

/-- the part that holds: a buffer with room for the first segment (`/module:name` + NUL) is written and terminated -/
theorem static_buffer_terminated_partial (f : Forest) (a : Addr) (pt : PathType) (n : Nat) (b : Buf) (l : Level)
    (rest : List Level) (h : lydPath f a pt (some n) = some b) (hl : levels f a = some (l :: rest))
    (hroom : 1 + (l.node.mod.length + 1) + l.node.name.length + 1 ≤ n) :
    b.log ≠ [] ∧ b.data.length + 1 ≤ b.cap := by
  have hw : b.log ≠ [] := by
    unfold lydPath at h
    rw [hl] at h
    simp only at h
    split at h
    · cases h
      simp only [printLevels]
      have hstep : (printStep ⟨true, n, [], []⟩ l ((pt == .std) || !rest.isEmpty)).1.log ≠ [] := by
        apply printStep_wrote
        have hp : l.pmod = none := by
          unfold levels levelsFrom at hl
          cases a with
          | nil => simp at hl
          | cons i r =>
            simp only at hl
            split at hl
            · cases hl
            · split at hl
              · cases hl
              · cases hl; rfl
        have hm : stepMod l = some l.node.mod := by simp [stepMod, hp]
        simp only [hm, Generated.PathFmt.stepLen]
        simp
        omega
      split
      · next b1 heq => rw [heq] at hstep; exact printLevels_log _ _ _ hstep
      · next b1 heq => rw [heq] at hstep; exact hstep
    · cases h
  exact ⟨hw, (lydPath_good h).term hw⟩

example : (lydPath exTree [0] .std (some 6)).map (fun b => (b.data, b.log.length)) = some ([47, 109, 97, 58, 99], 1) := by
  decide

/-! ## printed predicates and paths are read back -/

/-- names are identifiers, positions fit — everything `Level.Printable` asks except the literal form of the values -/
structure NamesOK (l : Level) : Prop where
  name : IsIdent l.node.name
  mod : IsIdent l.node.mod
  keys : ∀ k ∈ keyLeaves l.node.children, IsIdent k.name
  nodup : l.KeysNodup
  pos : listPos l.sibs l.idx l.node < 2 ^ 32

/-- **pred_roundtrip** (full statement): tokenizing and parsing the predicate text `lyd_path` emits for a node gives
    back the predicate (key names and values / leaf-list value / position).  FALSE for the code: finding F7. -/
def PredRoundtrip : Prop :=
  ∀ (l : Level), NamesOK l → predText l ≠ [] → (tokenize (predText l)).bind parsePred = some (predOf l, [])

/-- F7 witness: configuration leaf-list instance with the value `'"`; `lyd_path` prints `[.="'""]`, the literal ends
    at the second `"` and the rest does not tokenize. -/
def f7Level : Level :=
  let n : DNode := .mk [109, 97] [108, 108] (.leaflist true) [39, 34] []
  ⟨[n], 0, n, none⟩

theorem pred_roundtrip_fails : ¬ PredRoundtrip := by
  intro h
  have := h f7Level ⟨by decide, by decide, by decide, by decide, by decide⟩ (by decide)
  revert this
  decide

/-- **pred_roundtrip_partial.** For EVERY key / leaf-list value that does not contain both quote characters (and
    identifier names): the predicate text the printer emits — `[k='v']` per key in order, `[.='v']`, `[N]` —
    tokenizes and parses back to exactly that predicate, with nothing left over. -/
theorem pred_roundtrip_partial (l : Level) (hl : l.Printable) (hnd : l.KeysNodup) (hne : predText l ≠ []) :
    (tokenize (predText l)).bind parsePred = some (predOf l, []) := by
  have hlex := lex_pred l hl [] (Or.inl rfl) true
  simp only [List.append_nil] at hlex
  have htne : predToks l ≠ [] := by
    intro e
    rw [e] at hlex
    exact hne (LexSeq.nil_inv hlex).symm
  have hstop := predText_stop l [] (Or.inl rfl)
  simp only [List.append_nil] at hstop
  have ht := LexSeq.tokenize hlex htne hstop.skipWs
  have hp := parsePred_printed l hl hnd [] (Or.inl rfl)
  simp only [List.append_nil] at hp
  simp [ht, hp]

/-- non-vacuity: the list of `exTree` with its two keys, one of them quoted with `"` because it contains `'` -/
example : ∃ l : Level, l.Printable ∧ l.KeysNodup ∧
    predText l = [91, 107, 49, 61, 39, 97, 32, 98, 39, 93, 91, 107, 50, 61, 34, 105, 116, 39, 115, 34, 93] ∧   -- [k1='a b'][k2="it's"]
    predOf l = .keys [([107, 49], .lit [97, 32, 98]), ([107, 50], .lit [105, 116, 39, 115])] :=
  ⟨⟨exTree[0]!.children, 0, exTree[0]!.children[0]!, some [109, 97]⟩,
    ⟨by decide, by decide, by decide, by decide, by decide⟩, by decide, by decide, by decide⟩

/-- **path_parse_print.** For every node of every tree (names identifiers, predicate values with a literal form):
    `ly_path_parse` applied to the path `lyd_path` prints is accepted as an absolute path and yields one step per
    element of the node's ancestor-or-self chain — the name, prefixed with the module exactly where the module differs
    from the parent's, and the predicate of that element. -/
theorem path_parse_print (f : Forest) (a : Addr) (ls : List Level) (h : levels f a = some ls) (hne : ls ≠ [])
    (hp : ∀ l ∈ ls, l.Printable ∧ l.KeysNodup) :
    ∃ p, pathOf f a = some p ∧ parsePath p = some (true, stepsOf true ls) := by
  refine ⟨levelsText true ls, pathOf_eq_text h hne, ?_⟩
  cases ls with
  | nil => exact absurd rfl hne
  | cons l rest =>
    apply parsePath_printed true l rest hp
    have hpm : l.pmod = none := by
      unfold levels levelsFrom at h
      cases a with
      | nil => simp at h
      | cons i r =>
        simp only at h
        split at h
        · cases h
        · split at h
          · cases h
          · cases h; rfl
    simp [stepMod, hpm]

/-- non-vacuity: the leaf `mb:x` of `exTree` — three steps, prefixes at the top and where the module changes -/
example :
    -- /ma:c/l[k1='a b'][k2="it's"]/mb:x
    pathOf exTree [0, 0, 2] = some [47, 109, 97, 58, 99, 47, 108, 91, 107, 49, 61, 39, 97, 32, 98, 39, 93, 91, 107, 50, 61, 34, 105, 116, 39, 115, 34, 93, 47, 109, 98, 58, 120] ∧
    (levels exTree [0, 0, 2]).map (stepsOf true) = some
      [⟨[109, 97, 58, 99], .none⟩,
       ⟨[108], .keys [([107, 49], .lit [97, 32, 98]), ([107, 50], .lit [105, 116, 39, 115])]⟩,
       ⟨[109, 98, 58, 120], .none⟩] := by
  decide

end LyModel.Props.C15
