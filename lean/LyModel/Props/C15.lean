import LyModel.Path.LemmasNew
/-!
# C15 — a node's path identifies that node, and paths create what they name

Property theorems about the model of `lyd_path`, `ly_path_parse`, `ly_path_compile`/`ly_path_eval_partial`
(`lyd_find_path`) and `lyd_new_path_` in `LyModel/Path`.  Statements only; lemmas are in `LyModel/Path/Lemmas*.lean`.
The buffer arithmetic (`len` formulas, `sprintf` formats, quote selection) is generated from the C source
(`Generated/PathFmt.lean`), so `path_buffer_in_bounds` and the round trips are re-proved against what the code says.
-/
namespace LyModel.Props.C15
open LyModel LyModel.Path

/-! ## the buffer of `lyd_path` -/

/-- **path_buffer_in_bounds.** For every tree, node, path type and buffer (caller-provided of any size, or grown by
    `realloc`): every `sprintf` of `lyd_path` and its three predicate writers lies inside the allocation as it is at
    that moment (offset + bytes written, NUL included, ≤ `buflen`), and once anything has been written the text and
    its terminating NUL fit the final allocation. -/
theorem path_buffer_in_bounds (f : Forest) (a : Addr) (pt : PathType) (static : Option Nat) (b : Buf)
    (h : lydPath f a pt static = some b) :
    (∀ w ∈ b.log, w.off + w.len ≤ w.cap) ∧ (b.log ≠ [] → b.data.length + 1 ≤ b.cap) :=
  ⟨(lydPath_good h).logOK, (lydPath_good h).term⟩

/-- a two-level tree: list `l` (keys `k1`, `k2`, the second with a `'` in it) under container `c`, and a leaf from an
    augmenting module below the list -/
def exTree : Forest :=
  -- bytes: ma = [109, 97], mb = [109, 98], c = [99], l = [108], k1 = [107, 49], k2 = [107, 50], x = [120],
  -- values "a b" = [97, 32, 98], "it's" = [105, 116, 39, 115], "v" = [118]
  [.mk [109, 97] [99] .inner []
    [.mk [109, 97] [108] (.list true) []
      [.mk [109, 97] [107, 49] (.leaf true) [97, 32, 98] [],
       .mk [109, 97] [107, 50] (.leaf true) [105, 116, 39, 115] [],
       .mk [109, 98] [120] (.leaf false) [118] []]]]

/-- non-vacuity: a static buffer of 20 bytes receives `/ma:c/l[k1='a b']` (the second key predicate no longer fits),
    the allocation stays the caller's 20 bytes -/
example : (lydPath exTree [0, 0, 2] .std (some 20)).map (fun b => (b.data, b.cap)) =
    some ([47, 109, 97, 58, 99, 47, 108, 91, 107, 49, 61, 39, 97, 32, 98, 39, 93], 20) := by decide

/-- audit witness tree (three levels, two modules): container `ma:c` with
    * two entries of the keyed list `l` that agree in `k1` and differ in `k2` (the second `k2` is `q]`); the second entry holds
      two instances of the configuration leaf-list `ll` (`ü`, `it's`) and two equal-valued instances of the state leaf-list
      `mb:sl` from an augmenting module;
    * two entries of the key-less list `kl`, each with a leaf `y`. -/
def auTree : Forest :=
  [.mk [109, 97] [99] .inner []
    [.mk [109, 97] [108] (.list true) []
      [.mk [109, 97] [107, 49] (.leaf true) [97, 32, 98] [],
       .mk [109, 97] [107, 50] (.leaf true) [105, 116, 39, 115] [],
       .mk [109, 98] [120] (.leaf false) [118] []],
     .mk [109, 97] [108] (.list true) []
      [.mk [109, 97] [107, 49] (.leaf true) [97, 32, 98] [],
       .mk [109, 97] [107, 50] (.leaf true) [113, 93] [],
       .mk [109, 97] [108, 108] (.leaflist true) [195, 188] [],
       .mk [109, 97] [108, 108] (.leaflist true) [105, 116, 39, 115] [],
       .mk [109, 98] [115, 108] (.leaflist false) [115] [],
       .mk [109, 98] [115, 108] (.leaflist false) [115] []],
     .mk [109, 97] [107, 108] .keyless [] [.mk [109, 97] [121] (.leaf false) [49] []],
     .mk [109, 97] [107, 108] .keyless [] [.mk [109, 97] [121] (.leaf false) [50] []]]]

/-- chain of the node of `auTree` at address `a`.  The addresses used below:
    `[0, 1, 3]` = `/ma:c/l[k1='a b'][k2='q]']/ll[.="it's"]`, `[0, 1, 5]` = `/ma:c/l[k1='a b'][k2='q]']/mb:sl[2]`,
    `[0, 3, 0]` = `/ma:c/kl[2]/y`, `[0, 1, 0]` = `/ma:c/l[k1='a b'][k2='q]']/k1` (a key leaf) -/
def auLevels (a : Addr) : List Level := (levels auTree a).getD []

/-- the `i`-th element of that chain -/
def auLevel (a : Addr) (i : Nat) : Level := (auLevels a).getD i ⟨[], 0, default, none⟩

/-- non-vacuity (audit): `path_buffer_in_bounds` with a `realloc`ed buffer on the second `ll` instance of `auTree` (depth 3, key
    and value predicates): six writes, the allocation grows 6 → 8 → 18 → 27 → 30 → 40 bytes for 39 characters -/
example : ∃ b, lydPath auTree [0, 1, 3] .std none = some b ∧ (b.data.length, b.cap, b.log.length) = (39, 40, 6) ∧
    (∀ w ∈ b.log, w.off + w.len ≤ w.cap) ∧ (b.log ≠ [] → b.data.length + 1 ≤ b.cap) := by
  cases h : lydPath auTree [0, 1, 3] .std none with
  | none => exact absurd h (by decide +kernel)
  | some b =>
    have hv : (lydPath auTree [0, 1, 3] .std none).map (fun b => (b.data.length, b.cap, b.log.length)) = some (39, 40, 6) := by
      decide +kernel
    rw [h] at hv
    have := path_buffer_in_bounds _ _ _ _ b h
    exact ⟨b, rfl, by simpa using hv, this.1, this.2⟩

/-- **static_buffer_terminated** (full statement): whenever `lyd_path` returns the caller's buffer it has written a
    (possibly truncated) NUL-terminated path into it.  The pinned source lacks the up-front termination (finding F66):
    the statement is FALSE for it, TRUE once `buffer[0] = '\0'` is there — both proved relative to the generated fact
    `Generated.PathFmt.staticInitNul`, which says which of the two the source is right now. -/
def StaticBufferTerminated : Prop :=
  ∀ (f : Forest) (a : Addr) (pt : PathType) (n : Nat) (b : Buf), lydPath f a pt (some n) = some b → b.log ≠ []

theorem static_buffer_terminated_fails (hsrc : Generated.PathFmt.staticInitNul = false) : ¬ StaticBufferTerminated := by
  intro h
  -- `char buf[3]; lyd_path(c, LYD_PATH_STD, buf, 3)`: "/ma:c" needs 6 bytes, nothing is written, `buf` is returned
  have key : ∃ b, lydPath exTree [0] .std (some 3) = some b ∧ b.log = [] := by
    refine ⟨(printLevels true (initBuf (some 3)) [⟨exTree, 0, exTree[0]!, none⟩]).1, rfl, ?_⟩
    simp only [initBuf, hsrc]
    decide
  obtain ⟨b, hb, hlog⟩ := key
  exact h exTree [0] .std 3 b hb hlog

/-- with the repair of F66 in the source the full statement holds -/
theorem static_buffer_terminated_fixed (hsrc : Generated.PathFmt.staticInitNul = true) : StaticBufferTerminated := by
  intro f a pt n b h
  unfold lydPath at h
  split at h
  · cases h
  · cases h
  · simp only at h
    split at h
    · cases h
      exact printLevels_log _ _ _ (by simp [initBuf, hsrc])
    · cases h

-- AUDIT (by design, no repair needed): `static_buffer_terminated_fails` and `static_buffer_terminated_fixed` each take an equation
-- between the generated constant `Generated.PathFmt.staticInitNul` and a literal as hypothesis, so at any time exactly one of
-- the two is vacuous.  On the current tree the constant is `true` (fix of F66 applied): `_fixed` is the live one and `_fails` is
-- vacuous.  Both directions exist, which is what makes the pair meaningful; `static_buffer_terminated_iff_source` below states
-- them as one unconditional theorem.  The current value is deliberately not pinned by an `example` here: the constant is
-- regenerated from the source on every check run and a pinned value would break the build on the unfixed source.
/-- audit: the full statement holds exactly when the source terminates the caller's buffer up front -/
theorem static_buffer_terminated_iff_source : StaticBufferTerminated ↔ Generated.PathFmt.staticInitNul = true := by
  constructor
  · intro h
    cases hs : Generated.PathFmt.staticInitNul with
    | true => rfl
    | false => exact absurd h (static_buffer_terminated_fails hs)
  · exact static_buffer_terminated_fixed

/-- the part that holds either way: a buffer with room for the first segment (`/module:name` + NUL) is written and
    terminated -/
theorem static_buffer_terminated_partial (f : Forest) (a : Addr) (pt : PathType) (n : Nat) (b : Buf) (l : Level)
    (rest : List Level) (h : lydPath f a pt (some n) = some b) (hl : levels f a = some (l :: rest))
    (hroom : 1 + (l.node.mod.length + 1) + l.node.name.length + 1 ≤ n) :
    b.log ≠ [] ∧ b.data.length + 1 ≤ b.cap := by
  have hw : b.log ≠ [] := by
    unfold lydPath at h
    rw [hl] at h
    simp only at h
    split at h
    · cases h
      simp only [printLevels]
      have hstep : (printStep (initBuf (some n)) l ((pt == .std) || !rest.isEmpty)).1.log ≠ [] := by
        apply printStep_wrote
        have hp : l.pmod = none := by
          unfold levels levelsFrom at hl
          cases a with
          | nil => simp at hl
          | cons i r =>
            simp only at hl
            split at hl
            · cases hl
            · split at hl
              · cases hl
              · cases hl; rfl
        have hm : stepMod l = some l.node.mod := by simp [stepMod, hp]
        simp only [hm, Generated.PathFmt.stepLen, initBuf]
        simp
        omega
      split
      · next b1 heq => rw [heq] at hstep; exact printLevels_log _ _ _ hstep
      · next b1 heq => rw [heq] at hstep; exact hstep
    · cases h
  exact ⟨hw, (lydPath_good h).term hw⟩

example : (lydPath exTree [0] .std (some 6)).map (fun b => (b.data, b.log.isEmpty)) = some ([47, 109, 97, 58, 99], false) := by
  decide

/-- non-vacuity (audit): `static_buffer_terminated_partial` at the depth-3 node `[0, 1, 3]` of `auTree` with a 20-byte buffer:
    room for the first segment (6 bytes), the output is cut inside the predicates of the second segment -/
example : ∃ b, lydPath auTree [0, 1, 3] .std (some 20) = some b ∧
    b.data = [47, 109, 97, 58, 99, 47, 108, 91, 107, 49, 61, 39, 97, 32, 98, 39, 93] ∧      -- /ma:c/l[k1='a b']
    b.log ≠ [] ∧ b.data.length + 1 ≤ b.cap := by
  cases h : lydPath auTree [0, 1, 3] .std (some 20) with
  | none => exact absurd h (by decide +kernel)
  | some b =>
    have hv : (lydPath auTree [0, 1, 3] .std (some 20)).map (·.data) =
        some [47, 109, 97, 58, 99, 47, 108, 91, 107, 49, 61, 39, 97, 32, 98, 39, 93] := by decide +kernel
    rw [h] at hv
    have := static_buffer_terminated_partial auTree [0, 1, 3] .std 20 b (auLevel [0, 1, 3] 0) (auLevels [0, 1, 3]).tail h rfl
      (by decide +kernel)
    exact ⟨b, rfl, by simpa using hv, this.1, this.2⟩

/-! ## printed predicates and paths are read back -/

/-- names are identifiers, positions fit — everything `Level.Printable` asks except the literal form of the values -/
structure NamesOK (l : Level) : Prop where
  name : IsIdent l.node.name
  mod : IsIdent l.node.mod
  keys : ∀ k ∈ keyLeaves l.node.children, IsIdent k.name
  nodup : l.KeysNodup
  pos : listPos l.sibs l.idx l.node < 2 ^ 32

/-- **pred_roundtrip** (full statement): tokenizing and parsing the predicate text `lyd_path` emits for a node gives
    back the predicate (key names and values / leaf-list value / position).  FALSE for the code: finding F7. -/
def PredRoundtrip : Prop :=
  ∀ (l : Level), NamesOK l → predText l ≠ [] → (tokenize (predText l)).bind parsePred = some (predOf l, [])

/-- F7 witness: configuration leaf-list instance with the value `'"`; `lyd_path` prints `[.="'""]`, the literal ends
    at the second `"` and the rest does not tokenize. -/
def f7Level : Level :=
  let n : DNode := .mk [109, 97] [108, 108] (.leaflist true) [39, 34] []
  ⟨[n], 0, n, none⟩

theorem pred_roundtrip_fails : ¬ PredRoundtrip := by
  intro h
  have := h f7Level ⟨by decide, by decide, by decide, by decide, by decide⟩ (by decide)
  revert this
  decide

/-- **pred_roundtrip_partial.** For EVERY key / leaf-list value that does not contain both quote characters (and
    identifier names): the predicate text the printer emits — `[k='v']` per key in order, `[.='v']`, `[N]` —
    tokenizes and parses back to exactly that predicate, with nothing left over. -/
theorem pred_roundtrip_partial (l : Level) (hl : l.Printable) (hnd : l.KeysNodup) (hne : predText l ≠ []) :
    (tokenize (predText l)).bind parsePred = some (predOf l, []) := by
  have hlex := lex_pred l hl [] (Or.inl rfl) true
  simp only [List.append_nil] at hlex
  have htne : predToks l ≠ [] := by
    intro e
    rw [e] at hlex
    exact hne (LexSeq.nil_inv hlex).symm
  have hstop := predText_stop l [] (Or.inl rfl)
  simp only [List.append_nil] at hstop
  have ht := LexSeq.tokenize hlex htne hstop.skipWs
  have hp := parsePred_printed l hl hnd [] (Or.inl rfl)
  simp only [List.append_nil] at hp
  simp [ht, hp]

/-- non-vacuity: the list of `exTree` with its two keys, one of them quoted with `"` because it contains `'` -/
example : ∃ l : Level, l.Printable ∧ l.KeysNodup ∧
    predText l = [91, 107, 49, 61, 39, 97, 32, 98, 39, 93, 91, 107, 50, 61, 34, 105, 116, 39, 115, 34, 93] ∧   -- [k1='a b'][k2="it's"]
    predOf l = .keys [([107, 49], .lit [97, 32, 98]), ([107, 50], .lit [105, 116, 39, 115])] :=
  ⟨⟨exTree[0]!.children, 0, exTree[0]!.children[0]!, some [109, 97]⟩,
    ⟨by decide, by decide, by decide, by decide, by decide⟩, by decide, by decide, by decide⟩

/-- non-vacuity (audit): `pred_roundtrip_partial` at the three other predicate forms, on `auTree`: the second list entry (a key value
    with `]` in it), the second `ll` instance (`[.="it's"]`, quoted with `"`), the second `mb:sl` instance (`[2]`) -/
example :
    (predText (auLevel [0, 1, 3] 1) = [91, 107, 49, 61, 39, 97, 32, 98, 39, 93, 91, 107, 50, 61, 39, 113, 93, 39, 93] ∧    -- [k1='a b'][k2='q]']
      (tokenize (predText (auLevel [0, 1, 3] 1))).bind parsePred =
        some (.keys [([107, 49], .lit [97, 32, 98]), ([107, 50], .lit [113, 93])], [])) ∧
    (predText (auLevel [0, 1, 3] 2) = [91, 46, 61, 34, 105, 116, 39, 115, 34, 93] ∧                                      -- [.="it's"]
      (tokenize (predText (auLevel [0, 1, 3] 2))).bind parsePred = some (.dot (.lit [105, 116, 39, 115]), [])) ∧
    (predText (auLevel [0, 1, 5] 2) = [91, 50, 93] ∧                                                                      -- [2]
      (tokenize (predText (auLevel [0, 1, 5] 2))).bind parsePred = some (.pos [50], [])) := by
  refine ⟨⟨by decide +kernel, ?_⟩, ⟨by decide +kernel, ?_⟩, ⟨by decide +kernel, ?_⟩⟩
  · rw [pred_roundtrip_partial _ (by decide +kernel) (by decide +kernel) (by decide +kernel)]; decide +kernel
  · rw [pred_roundtrip_partial _ (by decide +kernel) (by decide +kernel) (by decide +kernel)]; decide +kernel
  · rw [pred_roundtrip_partial _ (by decide +kernel) (by decide +kernel) (by decide +kernel)]; decide +kernel

/-- **path_parse_print.** For every node of every tree (names identifiers, predicate values with a literal form):
    `ly_path_parse` applied to the path `lyd_path` prints is accepted as an absolute path and yields one step per
    element of the node's ancestor-or-self chain — the name, prefixed with the module exactly where the module differs
    from the parent's, and the predicate of that element. -/
theorem path_parse_print (f : Forest) (a : Addr) (ls : List Level) (h : levels f a = some ls) (hne : ls ≠ [])
    (hp : ∀ l ∈ ls, l.Printable ∧ l.KeysNodup) :
    ∃ p, pathOf f a = some p ∧ parsePath p = some (true, stepsOf true ls) := by
  refine ⟨levelsText true ls, pathOf_eq_text h hne, ?_⟩
  cases ls with
  | nil => exact absurd rfl hne
  | cons l rest =>
    apply parsePath_printed true l rest hp
    have hpm : l.pmod = none := by
      unfold levels levelsFrom at h
      cases a with
      | nil => simp at h
      | cons i r =>
        simp only at h
        split at h
        · cases h
        · split at h
          · cases h
          · cases h; rfl
    simp [stepMod, hpm]

/-- non-vacuity: the leaf `mb:x` of `exTree` — three steps, prefixes at the top and where the module changes -/
example :
    -- /ma:c/l[k1='a b'][k2="it's"]/mb:x
    pathOf exTree [0, 0, 2] = some [47, 109, 97, 58, 99, 47, 108, 91, 107, 49, 61, 39, 97, 32, 98, 39, 93, 91, 107, 50, 61, 34, 105, 116, 39, 115, 34, 93, 47, 109, 98, 58, 120] ∧
    (levels exTree [0, 0, 2]).map (stepsOf true) = some
      [⟨[109, 97, 58, 99], .none⟩,
       ⟨[108], .keys [([107, 49], .lit [97, 32, 98]), ([107, 50], .lit [105, 116, 39, 115])]⟩,
       ⟨[109, 98, 58, 120], .none⟩] := by
  decide

/-- non-vacuity (audit): the three hypotheses of `path_parse_print` at four nodes of `auTree` (depth 3; key, value and position
    predicates; a prefix where the module changes), and the theorem instantiated at each -/
example : ∀ a ∈ [[0, 1, 3], [0, 1, 5], [0, 3, 0], [0, 1, 0]],
    ∃ p, pathOf auTree a = some p ∧ parsePath p = some (true, stepsOf true (auLevels a)) := by
  intro a ha
  simp only [List.mem_cons, List.not_mem_nil, or_false] at ha
  rcases ha with rfl | rfl | rfl | rfl <;>
    exact path_parse_print auTree _ _ rfl (by decide) (by decide +kernel)

/-- …with the printed paths: `/ma:c/l[k1='a b'][k2='q]']/ll[.="it's"]`, `/ma:c/l[k1='a b'][k2='q]']/mb:sl[2]`, `/ma:c/kl[2]/y` -/
example :
    pathOf auTree [0, 1, 3] = some [47, 109, 97, 58, 99, 47, 108, 91, 107, 49, 61, 39, 97, 32, 98, 39, 93, 91, 107, 50, 61, 39,
      113, 93, 39, 93, 47, 108, 108, 91, 46, 61, 34, 105, 116, 39, 115, 34, 93] ∧
    pathOf auTree [0, 1, 5] = some [47, 109, 97, 58, 99, 47, 108, 91, 107, 49, 61, 39, 97, 32, 98, 39, 93, 91, 107, 50, 61, 39,
      113, 93, 39, 93, 47, 109, 98, 58, 115, 108, 91, 50, 93] ∧
    pathOf auTree [0, 3, 0] = some [47, 109, 97, 58, 99, 47, 107, 108, 91, 50, 93, 47, 121] := by
  decide +kernel

/-! ## `*` is a NameTest on its own (F352) -/

/-- **star_never_prefix.** With the repaired lexer (`Generated.XpConsts.starNoPrefix = true`, read off `lyxp_expr_parse`) a `*` at the
    start of a NameTest is the whole token whatever follows — in particular `*:name` is not one NameTest, and since a lone `:` starts no
    token, `ly_path_parse` refuses `/*:a` … -/
theorem star_never_prefix (hsrc : Generated.XpConsts.starNoPrefix = true) (r : Bytes) :
    nameTest (42 :: r) = some ([42], r) ∧ parsePath [47, 42, 58, 97] = none := by
  constructor
  · simp [nameTest, nameTestWith, hsrc, firstLen]
  · simp only [parsePath, tokenize, tokAux, skipWs, isWs, lexOne, nameTest, nameTestWith, hsrc]
    decide

/-- … while the pinned lexer took `*:a` as one NameTest (both variants are in the model; the source decides which one is live) -/
theorem star_prefix_pinned : nameTestWith false [42, 58, 97] = some ([42, 58, 97], []) ∧
    nameTestWith true [42, 58, 97] = some ([42], [58, 97]) := by decide

/-! ## searching and creating along the printed path -/

/-- What the theorems below ask of a node's ancestor-or-self chain `ls` in tree `f` under schema `schema`:
    it is the chain of address `a`; names are identifiers and predicate values have a literal form (`Printable`);
    each element is unique among its siblings in the way its predicate needs (`Addressable`: keys unique among list
    instances, values unique among configuration leaf-list instances, instances contiguous for positions, single
    instance otherwise); and the chain instantiates schema nodes of `schema` (`Conforms`). -/
structure ChainOK (schema : List SNode) (f : Forest) (a : Addr) (ls : List Level) : Prop where
  levels : levels f a = some ls
  ne : ls ≠ []
  printable : ∀ l ∈ ls, l.Printable
  addressable : ∀ l ∈ ls, l.Addressable
  conforms : Conforms schema ls

theorem ChainOK.compiled {schema : List SNode} {f : Forest} {a : Addr} {ls : List Level} (h : ChainOK schema f a ls)
    (single : Bool) : ∃ p, pathOf f a = some p ∧ p.head? = some 47 ∧ compilePath schema single p = .ok (ls.map cstepOf) := by
  obtain ⟨p, hp, hparse⟩ := path_parse_print f a ls h.levels h.ne
    (fun l hl => ⟨h.printable l hl, (h.addressable l hl).keysNodup⟩)
  refine ⟨p, hp, ?_, ?_⟩
  · have := pathOf_eq_text h.levels h.ne
    rw [hp] at this
    cases this
    cases hls : ls with
    | nil => exact absurd hls h.ne
    | cons l rest => simp [levelsText, stepText_eq]
  · have hc := compileSteps_levels single a f none ls schema none h.levels h.conforms h.printable trivial
    simp [compilePath, hparse, hc]

-- AUDIT (resolved by the witnesses below): `ChainOK` bundles five hypotheses, two of them (`addressable`, `conforms`) with
-- case-dependent content.  Before the audit its only kernel-checked instance was a one-element chain of a top-level key-less
-- list (`f50_chainOK` and the example after it); the closing example of this file evaluates `findPath`/`newPath` on `exTree` but
-- does not show that `exTree` satisfies `ChainOK`.  `au_chainOK` and `ex_chainOK` establish it for depth-3 chains through a
-- container and a keyed list entry that has an earlier sibling entry sharing one key, ending in: a configuration leaf-list
-- instance (by value, earlier instance present), a state leaf-list instance of an augmenting module (by position 2, equal
-- values), a leaf below the second entry of a nested key-less list, a key leaf, a leaf of an augmenting module.  The Boolean
-- sufficient conditions used (`Level.addressableB`, `conformsB`, …) are in `Path/LemmasNew.lean`.

/-- schema of `auTree` -/
def auSchema : List SNode :=
  [.mk [109, 97] [99] .inner
    [.mk [109, 97] [108] (.list true)
      [.mk [109, 97] [107, 49] (.leaf true) [], .mk [109, 97] [107, 50] (.leaf true) [],
       .mk [109, 98] [120] (.leaf false) [], .mk [109, 97] [108, 108] (.leaflist true) [],
       .mk [109, 98] [115, 108] (.leaflist false) []],
     .mk [109, 97] [107, 108] .keyless [.mk [109, 97] [121] (.leaf false) []]]]

/-- the four addresses of `auTree` the witnesses use (see `auLevels`) -/
def auAddrs : List Addr := [[0, 1, 3], [0, 1, 5], [0, 3, 0], [0, 1, 0]]

/-- non-vacuity (audit): `ChainOK` holds for the four depth-3 chains of `auTree` -/
theorem au_chainOK : ∀ a ∈ auAddrs, ChainOK auSchema auTree a (auLevels a) := by
  intro a ha
  simp only [auAddrs, List.mem_cons, List.not_mem_nil, or_false] at ha
  rcases ha with rfl | rfl | rfl | rfl <;>
    exact ⟨rfl, by decide, by decide +kernel,
      fun l hl => Level.addressable_of_check l (List.all_eq_true.mp (by decide +kernel) l hl),
      conforms_of_check _ _ (by decide +kernel)⟩

/-- non-vacuity (audit): `ChainOK.compiled` on them, in both target modes -/
example : ∀ a ∈ auAddrs, ∀ single, ∃ p, pathOf auTree a = some p ∧ p.head? = some 47 ∧
    compilePath auSchema single p = .ok ((auLevels a).map cstepOf) :=
  fun a ha single => (au_chainOK a ha).compiled single

/-- **path_finds_node.** For every node whose chain is `ChainOK`: the path `lyd_path` prints for it is accepted by
    `lyd_find_path` (parse, compile against the schema, evaluate) and the search returns exactly that node — by key
    predicates for keyed lists, by value for configuration leaf-lists, by position for key-less lists and state
    leaf-lists, with the module prefix exactly where the module changes. -/
theorem path_finds_node (schema : List SNode) (f : Forest) (a : Addr) (ls : List Level) (h : ChainOK schema f a ls) :
    ∃ p, pathOf f a = some p ∧ findPath schema f p = .ok a := by
  obtain ⟨p, hp, _, hc⟩ := h.compiled true
  refine ⟨p, hp, ?_⟩
  have he := evalSteps_levels a f none ls h.levels h.addressable
  have hlen : 0 < ls.length := by
    cases hls : ls with
    | nil => exact absurd hls h.ne
    | cons _ _ => simp
  simp [findPath, hc, evalPath, he, hlen]

-- AUDIT (scope): C15 also claims that *XPath* search (`lyd_find_xpath`) on the printed path returns the node.  No theorem of this
-- file covers that half (the XPath route is compared by the correspondence check only; known finding F68 lives there).
/-- non-vacuity (audit): `path_finds_node` at the four nodes of `auTree`; for the second `ll` instance with the printed path -/
example : (∀ a ∈ auAddrs, ∃ p, pathOf auTree a = some p ∧ findPath auSchema auTree p = .ok a) ∧
    (findPath auSchema auTree [47, 109, 97, 58, 99, 47, 108, 91, 107, 49, 61, 39, 97, 32, 98, 39, 93, 91, 107, 50, 61, 39,
      113, 93, 39, 93, 47, 108, 108, 91, 46, 61, 34, 105, 116, 39, 115, 34, 93]).toOption = some [0, 1, 3] :=
  ⟨fun a ha => path_finds_node _ _ _ _ (au_chainOK a ha), by decide +kernel⟩

theorem conforms_hasKey : ∀ (ls : List Level) (sch : List SNode), Conforms sch ls → ∀ l ∈ ls, l.HasKey := by
  intro ls
  induction ls with
  | nil => intro _ _ l hl; simp at hl
  | cons x rest ih =>
    intro sch hc l hl
    obtain ⟨s, _, hso, hrest⟩ := hc
    simp only [List.mem_cons] at hl
    rcases hl with rfl | hl
    · exact hso.hasKey
    · exact ih s.children hrest l hl

/-- non-vacuity (audit): `conforms_hasKey` on the chains of `auTree` (each contains a keyed list entry) -/
example : ∀ a ∈ auAddrs, ∀ l ∈ auLevels a, l.HasKey :=
  fun a ha => conforms_hasKey _ _ (au_chainOK a ha).conforms

/-- **new_path_exists.** `lyd_new_path` with the printed path of a node that exists (in a tree without default-flagged
    nodes, any value, no `LYD_NEW_PATH_UPDATE`) reports `LY_EEXIST` — for every node, also the position-addressed
    ones — instead of creating a duplicate. -/
theorem new_path_exists (schema : List SNode) (f : Forest) (a : Addr) (ls : List Level) (v : Bytes)
    (h : ChainOK schema f a ls) : ∃ p, pathOf f a = some p ∧ newPath schema f p v = .error .exists := by
  obtain ⟨p, hp, hhead, hc⟩ := h.compiled false
  refine ⟨p, hp, ?_⟩
  have hcf := checkFind_levels v ls 0 (conforms_hasKey ls schema h.conforms)
  have he := evalSteps_levels a f none ls h.levels h.addressable
  have hlen : 0 < ls.length := by
    cases hls : ls with
    | nil => exact absurd hls h.ne
    | cons _ _ => simp
  simp [newPath, newPathC, hhead, hc, hcf, he, hlen]

/-- non-vacuity (audit): `new_path_exists` at the four nodes of `auTree`, incl. the position-addressed `mb:sl[2]` and `kl[2]/y` -/
example : ∀ a ∈ auAddrs, ∃ p, pathOf auTree a = some p ∧ newPath auSchema auTree p [118] = .error .exists :=
  fun a ha => new_path_exists _ _ _ _ [118] (au_chainOK a ha)

/-- the value of the last chain element: what the caller passes to `lyd_new_path` -/
def lastValue : List Level → Bytes
  | [] => []
  | [l] => l.node.value
  | _ :: l2 :: rest => lastValue (l2 :: rest)

theorem lastValueIs_lastValue : ∀ (ls : List Level), lastValueIs (lastValue ls) ls := by
  intro ls
  induction ls with
  | nil => trivial
  | cons l rest ih =>
    cases rest with
    | nil => simp [lastValueIs, lastValue]
    | cons l2 r => simpa [lastValueIs, lastValue] using ih

/-- the top-level element of the chain is addressed by a position greater than 1 (finding F65) -/
def TopPositionAbove1 : List Level → Prop
  | [] => False
  | l :: _ => l.node.kind.dupInst = true ∧ 1 < listPos l.sibs l.idx l.node

instance : (ls : List Level) → Decidable (TopPositionAbove1 ls)
  | [] => isFalse (fun h => h)
  | l :: _ => inferInstanceAs (Decidable (l.node.kind.dupInst = true ∧ 1 < listPos l.sibs l.idx l.node))

/-- **new_path_chain** (full statement): `lyd_new_path(NULL, ctx, lyd_path(n), value(n))` creates, in an empty tree, a
    chain equal (content-wise: names, modules, kinds, key leaves, value) to `n` and its ancestors.
    FALSE for the code: finding F65. -/
def NewPathChain : Prop :=
  ∀ (schema : List SNode) (f : Forest) (a : Addr) (ls : List Level) (c : DNode), ChainOK schema f a ls →
    (∀ l ∈ ls, l.TermNoKids) → chainOf ls = some c →
    ∃ p, pathOf f a = some p ∧ newPath schema [] p (lastValue ls) = .ok ⟨[], c⟩

/-- F65 witness: two instances of a top-level key-less list `kl`; the path of the second, `/ma:kl[2]`, cannot be created in
    an empty tree: "Cannot create "kl" on position 2, no instances exist" (`LY_EINVAL`). -/
def f50Schema : List SNode := [.mk [109, 97] [107, 108] .keyless []]
def f50Tree : Forest := [.mk [109, 97] [107, 108] .keyless [] [], .mk [109, 97] [107, 108] .keyless [] []]
def f50Levels : List Level := [⟨f50Tree, 1, f50Tree[1]!, none⟩]

theorem f50_chainOK : ChainOK f50Schema f50Tree [1] f50Levels where
  levels := rfl
  ne := by simp [f50Levels]
  printable := by
    intro l hl
    simp only [f50Levels, List.mem_singleton] at hl
    subst hl
    exact ⟨by decide, by decide, by decide, by decide, by decide⟩
  addressable := by
    intro l hl
    simp only [f50Levels, List.mem_singleton] at hl
    subst hl
    refine ⟨by decide, ?_⟩
    show ∃ pre blk post, _
    exact ⟨[], f50Tree, [], rfl, by decide, by decide, by decide, by decide⟩
  conforms := ⟨f50Schema[0]!, rfl, ⟨rfl, rfl, by decide, by intro c hc; cases hc⟩, trivial⟩

/-- non-vacuity of `ChainOK` together with the hypothesis of `new_path_chain_partial`: the first `kl` instance (`/ma:kl[1]`) -/
example : ChainOK f50Schema f50Tree [0] [⟨f50Tree, 0, f50Tree[0]!, none⟩] ∧
    ¬ TopPositionAbove1 [⟨f50Tree, 0, f50Tree[0]!, none⟩] := by
  refine ⟨⟨rfl, by simp, ?_, ?_, ?_⟩, by simp only [TopPositionAbove1]; decide⟩
  · intro l hl
    simp only [List.mem_singleton] at hl
    subst hl
    exact ⟨by decide, by decide, by decide, by decide, by decide⟩
  · intro l hl
    simp only [List.mem_singleton] at hl
    subst hl
    refine ⟨by decide, ?_⟩
    show ∃ pre blk post, _
    exact ⟨[], f50Tree, [], rfl, by decide, by decide, by decide, by decide⟩
  · exact ⟨f50Schema[0]!, rfl, ⟨rfl, rfl, by decide, by intro c hc; cases hc⟩, trivial⟩

theorem new_path_chain_fails : ¬ NewPathChain := by
  intro h
  have hterm : ∀ l ∈ f50Levels, l.TermNoKids := by
    intro l hl
    simp only [f50Levels, List.mem_singleton] at hl
    subst hl
    intro hk
    rcases hk with hk | ⟨k, hk⟩
    · cases hk
    · cases hk
  obtain ⟨p, hp, hn⟩ := h f50Schema f50Tree [1] f50Levels _ f50_chainOK hterm rfl
  have hp' : pathOf f50Tree [1] = some [47, 109, 97, 58, 107, 108, 91, 50, 93] := by decide   -- /ma:kl[2]
  rw [hp'] at hp
  cases hp
  have : newPath f50Schema [] [47, 109, 97, 58, 107, 108, 91, 50, 93] (lastValue f50Levels) = .error .einval := rfl
  rw [this] at hn
  cases hn

/-- **new_path_chain_partial.** Unless the chain's top-level element is addressed by a position above 1: creating the
    printed path with the node's value in an empty tree succeeds, attaches at the top level, and the created chain is
    the node and its ancestors — lists with exactly their key leaves, position-addressed elements as the first
    instance, the module of every element as in the original. -/
theorem new_path_chain_partial (schema : List SNode) (f : Forest) (a : Addr) (ls : List Level) (c : DNode)
    (h : ChainOK schema f a ls) (hterm : ∀ l ∈ ls, l.TermNoKids) (hc : chainOf ls = some c)
    (hpos : ¬ TopPositionAbove1 ls) :
    ∃ p, pathOf f a = some p ∧ newPath schema [] p (lastValue ls) = .ok ⟨[], c⟩ := by
  obtain ⟨p, hp, hhead, hcomp⟩ := h.compiled false
  refine ⟨p, hp, ?_⟩
  have hcf := checkFind_levels (lastValue ls) ls 0 (conforms_hasKey ls schema h.conforms)
  have hcreate := createChain_levels (lastValue ls) a f none ls h.levels
    (fun l hl => ⟨(h.addressable l hl).keysNodup, hterm l hl⟩) (lastValueIs_lastValue ls)
  have hposbad : posBad [] (ls.map cstepOf) = false := by
    cases hls : ls with
    | nil => rfl
    | cons l rest =>
      rw [hls] at hpos
      simp only [TopPositionAbove1, not_and] at hpos
      simp only [List.map_cons, posBad]
      cases hk : l.node.kind with
      | inner => simp [cstepOf, cpredOf, hk]
      | leaf k => simp [cstepOf, cpredOf, hk]
      | list cfg => cases hks : keyLeaves l.node.children <;> simp [cstepOf, cpredOf, hk, hks]
      | keyless =>
        have := hpos (by simp [hk, Kind.dupInst])
        simp [cstepOf, cpredOf, hk, Kind.dupInst, instCount, firstIdx]; omega
      | leaflist cfg =>
        cases cfg with
        | true => simp [cstepOf, cpredOf, hk]
        | false =>
          have := hpos (by simp [hk, Kind.dupInst])
          simp [cstepOf, cpredOf, hk, Kind.dupInst, instCount, firstIdx]; omega
  simp [newPath, newPathC, hhead, hcomp, hcf, evalSteps_empty, childrenAt, hposbad, hcreate, hc]

/-- non-vacuity (audit): all four hypotheses of `new_path_chain_partial` at the four nodes of `auTree` (the position-addressed
    elements are nested, so `TopPositionAbove1` does not apply), and the theorem instantiated at each -/
example : ∀ a ∈ auAddrs, ∃ p c, pathOf auTree a = some p ∧ chainOf (auLevels a) = some c ∧
    newPath auSchema [] p (lastValue (auLevels a)) = .ok ⟨[], c⟩ := by
  intro a ha
  have hok := au_chainOK a ha
  simp only [auAddrs, List.mem_cons, List.not_mem_nil, or_false] at ha
  have hterm : ∀ l ∈ auLevels a, l.TermNoKids := by
    intro l hl
    refine Level.termNoKids_of_check l (List.all_eq_true.mp ?_ l hl)
    rcases ha with rfl | rfl | rfl | rfl <;> decide +kernel
  have hpos : ¬ TopPositionAbove1 (auLevels a) := by
    rcases ha with rfl | rfl | rfl | rfl <;> decide +kernel
  cases hc : chainOf (auLevels a) with
  | none =>
    have : (chainOf (auLevels a)).isSome = true := by rcases ha with rfl | rfl | rfl | rfl <;> decide +kernel
    rw [hc] at this; cases this
  | some c =>
    obtain ⟨p, hp, hn⟩ := new_path_chain_partial _ _ _ _ c hok hterm hc hpos
    exact ⟨p, c, hp, rfl, hn⟩

/-- …and what is created for `/ma:c/l[k1='a b'][k2='q]']/mb:sl[2]` with value `s`: the container, the list entry with its two key
    leaves, and the state leaf-list instance of module `mb` (as the first instance) -/
example : lastValue (auLevels [0, 1, 5]) = [115] ∧
    (newPath auSchema [] [47, 109, 97, 58, 99, 47, 108, 91, 107, 49, 61, 39, 97, 32, 98, 39, 93, 91, 107, 50, 61, 39,
      113, 93, 39, 93, 47, 109, 98, 58, 115, 108, 91, 50, 93] [115]).toOption.map (fun c => (c.parent, c.chain.flat 0)) =
      some ([], [⟨[109, 97], [99], .inner, [], 0⟩, ⟨[109, 97], [108], .list true, [], 1⟩,
        ⟨[109, 97], [107, 49], .leaf true, [97, 32, 98], 2⟩, ⟨[109, 97], [107, 50], .leaf true, [113, 93], 2⟩,
        ⟨[109, 98], [115, 108], .leaflist false, [115], 2⟩]) := by
  decide +kernel

/-- non-vacuity of the three theorems above: the leaf `mb:x` of `exTree` under a two-module schema -/
def exSchema : List SNode :=
  [.mk [109, 97] [99] .inner
    [.mk [109, 97] [108] (.list true)
      [.mk [109, 97] [107, 49] (.leaf true) [], .mk [109, 97] [107, 50] (.leaf true) [],
       .mk [109, 98] [120] (.leaf false) []]]]

/-- `/ma:c/l[k1='a b'][k2="it's"]/mb:x` -/
def exPath : Bytes := [47, 109, 97, 58, 99, 47, 108, 91, 107, 49, 61, 39, 97, 32, 98, 39, 93, 91, 107, 50, 61, 34, 105, 116,
  39, 115, 34, 93, 47, 109, 98, 58, 120]

example : pathOf exTree [0, 0, 2] = some exPath ∧
    (findPath exSchema exTree exPath).toOption = some [0, 0, 2] ∧
    (match newPath exSchema exTree exPath [118] with | .error e => some e | .ok _ => none) = some Err.exists ∧
    (newPath exSchema [] exPath [118]).toOption.map (fun c => (c.parent, c.chain.flat 0)) =
      some ([], [⟨[109, 97], [99], .inner, [], 0⟩, ⟨[109, 97], [108], .list true, [], 1⟩,
        ⟨[109, 97], [107, 49], .leaf true, [97, 32, 98], 2⟩, ⟨[109, 97], [107, 50], .leaf true, [105, 116, 39, 115], 2⟩,
        ⟨[109, 98], [120], .leaf false, [118], 2⟩]) := by
  decide +kernel

/-- non-vacuity (audit): the hypotheses themselves for that node — `ChainOK` of the chain of `mb:x` in `exTree`, terminals without
    children, top-level element not position-addressed — so the evaluation above is an instance of `path_finds_node`,
    `new_path_exists` and `new_path_chain_partial`, not only a computation -/
theorem ex_chainOK : ChainOK exSchema exTree [0, 0, 2] ((levels exTree [0, 0, 2]).getD []) :=
  ⟨rfl, by decide, by decide +kernel,
    fun l hl => Level.addressable_of_check l (List.all_eq_true.mp (by decide +kernel) l hl),
    conforms_of_check _ _ (by decide +kernel)⟩

example : findPath exSchema exTree exPath = .ok [0, 0, 2] ∧ newPath exSchema exTree exPath [118] = .error .exists := by
  obtain ⟨p, hp, hf⟩ := path_finds_node _ _ _ _ ex_chainOK
  obtain ⟨p', hp', hn⟩ := new_path_exists _ _ _ _ [118] ex_chainOK
  have he : pathOf exTree [0, 0, 2] = some exPath := by decide +kernel
  rw [he] at hp hp'
  cases hp; cases hp'
  exact ⟨hf, hn⟩

end LyModel.Props.C15
