import LyModel.Val.LemmasBase816
/-!
# C03 — typed values: integer acceptance under the hint sets that select base 8 only / base 16 only, and the complete
# map from hint sets to bases

`Props/C03.lean` characterises integer acceptance for base 10 (`int_accept_iff`: XML, the value API, JSON numbers) and
base 0 (`int_accept_iff_base0`: schema defaults).  `lyplg_type_check_hints` can also hand base 8 (only
`LYD_VALHINT_OCTNUM` among the three number bits) or base 16 (only `LYD_VALHINT_HEXNUM`) to `strtoll` / `strtoull`.  No
libyang parser produces such a hint set, but the store callbacks are public plug-in API and accept any hint value.  This
file closes the gap: `int_accept_iff_base8`, `int_accept_iff_base16` (lexical spaces `IntLexWs8` / `IntLexWs16`,
`Val/SpecBase816.lean`, written from ISO C 7.22.1.4), and `hints_select_base_complete`, which shows that the four
acceptance theorems together cover every hint set that is not refused.

All statements are about the executable model `LyModel.Val` (tied to the C code by `tools/checks/c03.py`), for all inputs;
bounds and the hint table are the generated ones.
-/
namespace LyModel.Props.C03Base
open LyModel LyModel.Val

/-! ## which base a hint set selects -/

/-- Complete map from hint sets to bases, for every hint value (only the low seven bits matter) and all eight integer types:
    `lyplg_type_check_hints` refuses the set (`none`) unless it carries a number bit — for the 64-bit types: the
    `LYD_VALHINT_NUM64` bit — (`intHintsAllowed`), and otherwise selects the base `type_get_hints_base` computes from the
    three number bits (`baseOfHints`, `Val/SpecBase816.lean`): DECNUM alone 10, OCTNUM alone 8, HEXNUM alone 16, two or three
    of them the generic base 0.  The one entry the two trees differ in — no number bit at all, reachable only for the
    64-bit types (a JSON string carrying a 64-bit integer) — is `b0`: 10 on the repaired tree, 0 on the pinned tree
    (finding F63); whichever it is, it is the same for every such hint set and both 64-bit types.

    The domain of `lyplg_type_check_hints` for the integer types is finite (128 hint subsets × 8 types) and is enumerated
    in full by the translator (`Generated.checkHintsTable`, produced by executing the C function); the proof is a
    `decide` over that whole table, not over samples, lifted to all naturals by `hints % 128`. -/
theorem hints_select_base_complete :
    ∃ b0, (b0 = 10 ∨ b0 = 0) ∧ ∀ (hints : Nat) (t : IntTy),
      checkHints hints t.name = if intHintsAllowed hints t then some (baseOfHints b0 hints) else none :=
  ⟨noNumberBitBase, checkHints_table_spec.1, checkHints_eq_baseOfHints⟩

/-- non-vacuity: both branches occur, and every base occurs — refused (no number bit at int8; no NUM64 bit at int64), base
    10 (DECNUM), 8 (OCTNUM), 16 (HEXNUM), 0 (OCTNUM | HEXNUM; all three: `LYD_HINT_SCHEMA`), also above 127 -/
example : intHintsAllowed 17 .int8 = false ∧ intHintsAllowed 14 .int64 = false ∧
    intHintsAllowed Generated.LYD_VALHINT_OCTNUM .int8 = true ∧ baseOfHints 10 Generated.LYD_VALHINT_OCTNUM = 8 ∧
    baseOfHints 10 Generated.LYD_VALHINT_HEXNUM = 16 ∧ baseOfHints 10 Generated.LYD_VALHINT_DECNUM = 10 ∧ baseOfHints 10 12 = 0 ∧
    baseOfHints 10 Generated.LYD_HINT_SCHEMA = 0 ∧ baseOfHints 10 Generated.LYD_HINT_DATA = 10 ∧
    intHintsAllowed Generated.LYD_HINT_DATA .uint64 = true := by decide
/-- non-vacuity: the theorem used at concrete hint sets — HEXNUM alone at uint16 selects 16, NUM64 | OCTNUM at int64 selects
    8, OCTNUM alone at int64 is refused (whatever `b0` is) -/
example : checkHints 8 "uint16" = some 16 ∧ checkHints 20 "int64" = some 8 ∧ checkHints 4 "int64" = none := by
  obtain ⟨b0, _, h⟩ := hints_select_base_complete
  exact ⟨h 8 .uint16, h 20 .int64, h 4 .int64⟩

/-- Consequence: a hint set is refused or selects one of the four bases 0, 8, 10, 16 — the bases of `int_accept_iff_base0`,
    `int_accept_iff_base8`, `C03.int_accept_iff`, `int_accept_iff_base16`.  No other base reaches `strtoll`. -/
theorem hints_select_base_cases (hints : Nat) (t : IntTy) :
    checkHints hints t.name = none ∨ checkHints hints t.name = some 0 ∨ checkHints hints t.name = some 8 ∨
    checkHints hints t.name = some 10 ∨ checkHints hints t.name = some 16 := by
  obtain ⟨b0, hb0, h⟩ := hints_select_base_complete
  rw [h hints t]
  cases intHintsAllowed hints t
  · exact Or.inl rfl
  · right
    simp only [if_true, Option.some.injEq]
    unfold baseOfHints
    cases hintBit hints Generated.LYD_VALHINT_DECNUM <;> cases hintBit hints Generated.LYD_VALHINT_OCTNUM <;>
      cases hintBit hints Generated.LYD_VALHINT_HEXNUM <;> simp only <;>
      first
        | (rcases hb0 with rfl | rfl <;> decide)
        | decide

example : checkHints 4 "int8" = some 8 ∧ checkHints 0 "int8" = none := by decide

/-- Exactly which hint sets select base 8 and base 16: the type is allowed and the only number bit is OCTNUM, resp. HEXNUM. -/
theorem hints_base8_base16_iff (hints : Nat) (t : IntTy) :
    (checkHints hints t.name = some 8 ↔ intHintsAllowed hints t = true ∧ hintBit hints Generated.LYD_VALHINT_DECNUM = false ∧
      hintBit hints Generated.LYD_VALHINT_OCTNUM = true ∧ hintBit hints Generated.LYD_VALHINT_HEXNUM = false) ∧
    (checkHints hints t.name = some 16 ↔ intHintsAllowed hints t = true ∧ hintBit hints Generated.LYD_VALHINT_DECNUM = false ∧
      hintBit hints Generated.LYD_VALHINT_OCTNUM = false ∧ hintBit hints Generated.LYD_VALHINT_HEXNUM = true) := by
  obtain ⟨b0, hb0, h⟩ := hints_select_base_complete
  rw [h hints t]
  unfold baseOfHints
  cases intHintsAllowed hints t <;> cases hintBit hints Generated.LYD_VALHINT_DECNUM <;>
    cases hintBit hints Generated.LYD_VALHINT_OCTNUM <;> cases hintBit hints Generated.LYD_VALHINT_HEXNUM <;>
    rcases hb0 with rfl | rfl <;> decide

/-- non-vacuity: ⇐ used — the bit description yields the base: OCTNUM alone at every type below 64 bits … -/
example (t : IntTy) (h : t.bits < 64) : checkHints Generated.LYD_VALHINT_OCTNUM t.name = some 8 :=
  (hints_base8_base16_iff _ t).1.mpr ⟨by cases t <;> first | (exfalso; revert h; decide) | decide, by decide, by decide, by decide⟩
/-- … ⇒ used — a set with base 16 has the HEXNUM bit and not the DECNUM bit (NUM64 | HEXNUM at uint64) -/
example : hintBit 24 Generated.LYD_VALHINT_HEXNUM = true ∧ hintBit 24 Generated.LYD_VALHINT_DECNUM = false :=
  let h := (hints_base8_base16_iff 24 .uint64).2.mp (by decide)
  ⟨h.2.2.2, h.2.1⟩

/-! ## base 8 -/

/-- Acceptance under hints that select base 8 (only `LYD_VALHINT_OCTNUM` among the number bits) ⇔ the string is, between
    optional white space, an optional sign followed by one or more octal digits as `strtoll(…, 8)` reads them
    (`IntLexWs8`, `Val/SpecBase816.lean`; a leading `0` is just a digit, there is no prefix), its value — in base 8 — is
    within the type's bounds and in the union of the range parts.  All eight integer types, every compiled range, every
    byte string without NUL; same hypotheses as `C03.int_accept_iff` but for the base.  In particular `8`, `08`, `0x10`,
    `- 1` are refused, `17` and `017` are both 15, and for the unsigned types a `-` is accepted only in front of a zero. -/
theorem int_accept_iff_base8 (t : IntTy) (range : List (Int × Int)) (hints : Nat) (s : Bytes) (v : Int)
    (h0 : (0 : UInt8) ∉ s) (hb : checkHints hints t.name = some 8) (hwf : PartsWF t.min t.max range) :
    storeInt t range hints s = .ok v ↔ IntLexWs8 s v ∧ t.min ≤ v ∧ v ≤ t.max ∧ InParts range v :=
  storeInt_accept_iff_base8 t range hints s v h0 hb hwf

/-- non-vacuity: the base hypothesis holds for `LYD_VALHINT_OCTNUM` (4) at the types below 64 bits and for
    `LYD_VALHINT_NUM64 | LYD_VALHINT_OCTNUM` (20) at the 64-bit types -/
example : checkHints Generated.LYD_VALHINT_OCTNUM "int8" = some 8 ∧ checkHints Generated.LYD_VALHINT_OCTNUM "uint32" = some 8 ∧
    checkHints (Generated.LYD_VALHINT_NUM64 + Generated.LYD_VALHINT_OCTNUM) "int64" = some 8 ∧ checkHints 20 "uint64" = some 8 := by decide
/-- non-vacuity: accepted — `" 017\n"` at int8 with a two-part range is 15; all three hypotheses met, ⇒ used -/
example : IntLexWs8 [32, 48, 49, 55, 10] 15 ∧ IntTy.min .int8 ≤ 15 ∧ 15 ≤ IntTy.max .int8 ∧ InParts [(-128, -100), (5, 40)] 15 :=
  (int_accept_iff_base8 .int8 [(-128, -100), (5, 40)] 4 [32, 48, 49, 55, 10] 15
    (by decide) (by decide) (by simp only [PartsWF]; decide)).mp (by decide)
/-- non-vacuity: accepted without leading zero — `17` is 15 as well (and 17 under the data hints); ⇐ used: the store result
    is derived from the lexical description -/
example : storeInt .int8 [] 4 [49, 55] = .ok 15 :=
  (int_accept_iff_base8 .int8 [] 4 [49, 55] 15 (by decide) (by decide) trivial).mpr
    ⟨⟨[], [49, 55], [], rfl, rfl, rfl, [], [49, 55], 15, rfl, Or.inl rfl, ⟨by decide, by decide, by decide⟩, by decide⟩,
      by decide, by decide, Or.inl rfl⟩
example : storeInt .int8 [] Generated.LYD_HINT_DATA [49, 55] = .ok 17 := by decide
/-- non-vacuity: negative, the lower bound of int8 — `-200`; ⇐ used -/
example : storeInt .int8 [] 4 [45, 50, 48, 48] = .ok (-128) :=
  (int_accept_iff_base8 .int8 [] 4 [45, 50, 48, 48] (-128) (by decide) (by decide) trivial).mpr
    ⟨⟨[], [45, 50, 48, 48], [], rfl, rfl, rfl, [45], [50, 48, 48], 128, rfl, Or.inr (Or.inr rfl), ⟨by decide, by decide, by decide⟩, by decide⟩,
      by decide, by decide, Or.inl rfl⟩
/-- non-vacuity: unsigned 64-bit under NUM64 | OCTNUM, `1` + twenty-one `7`s = 2⁶⁴−1 (above the signed range), range
    `0..5 | 2⁶³..max`; ⇒ used -/
example : IntLexWs8 [49, 55, 55, 55, 55, 55, 55, 55, 55, 55, 55, 55, 55, 55, 55, 55, 55, 55, 55, 55, 55, 55] (2 ^ 64 - 1) ∧
    IntTy.min .uint64 ≤ 2 ^ 64 - 1 ∧ (2 ^ 64 - 1 : Int) ≤ IntTy.max .uint64 ∧ InParts [(0, 5), (2 ^ 63, 2 ^ 64 - 1)] (2 ^ 64 - 1) :=
  (int_accept_iff_base8 .uint64 [(0, 5), (2 ^ 63, 2 ^ 64 - 1)] 20
    [49, 55, 55, 55, 55, 55, 55, 55, 55, 55, 55, 55, 55, 55, 55, 55, 55, 55, 55, 55, 55, 55] (2 ^ 64 - 1)
    (by decide) (by decide) (by simp only [PartsWF]; decide)).mp (by decide)
/-- non-vacuity: rejected forms — `8` and `08` (8 is no octal digit), `0x10` (no prefix in base 8), `- 1`: the model refuses
    them, and (⇒, contrapositive) no value makes `8` / `08` lexical values of base 8 -/
example : storeInt .int8 [] 4 [56] = .error .Invalid ∧ storeInt .int8 [] 4 [48, 56] = .error .Invalid ∧
    storeInt .int8 [] 4 [48, 120, 49, 48] = .error .Invalid ∧ storeInt .int8 [] 4 [45, 32, 49] = .error .Invalid := by decide
example : (∀ v, ¬ (IntLexWs8 [56] v ∧ IntTy.min .int8 ≤ v ∧ v ≤ IntTy.max .int8 ∧ InParts [] v)) ∧
    (∀ v, ¬ (IntLexWs8 [48, 56] v ∧ IntTy.min .int8 ≤ v ∧ v ≤ IntTy.max .int8 ∧ InParts [] v)) :=
  ⟨fun v h => absurd ((int_accept_iff_base8 .int8 [] 4 [56] v (by decide) (by decide) trivial).mpr h)
      (by rw [show storeInt .int8 [] 4 [56] = .error .Invalid by decide]; exact fun h => nomatch h),
   fun v h => absurd ((int_accept_iff_base8 .int8 [] 4 [48, 56] v (by decide) (by decide) trivial).mpr h)
      (by rw [show storeInt .int8 [] 4 [48, 56] = .error .Invalid by decide]; exact fun h => nomatch h)⟩
/-- non-vacuity: out of range — `200` = 128 is a lexical value of base 8 but above the int8 bound, fine for uint8; `50` = 40
    is inside the bounds but between the range parts; `2` + twenty-one zeros = 2⁶⁴ overflows `strtoull` -/
example : storeInt .int8 [] 4 [50, 48, 48] = .error .Bounds ∧ storeInt .uint8 [] 4 [50, 48, 48] = .ok 128 ∧
    storeInt .int8 [(-128, -100), (5, 20)] 4 [53, 48] = .error .Range ∧
    storeInt .uint64 [] 20 [50, 48, 48, 48, 48, 48, 48, 48, 48, 48, 48, 48, 48, 48, 48, 48, 48, 48, 48, 48, 48, 48] = .error .Invalid := by decide
/-- non-vacuity: unsigned types and `-` — `-0` and `-00` are the unsigned 0, `-1` is refused (and is −1 for int8) -/
example : storeInt .uint8 [] 4 [45, 48] = .ok 0 ∧ storeInt .uint8 [] 4 [45, 48, 48] = .ok 0 ∧
    storeInt .uint8 [] 4 [45, 49] = .error .Bounds ∧ storeInt .int8 [] 4 [45, 49] = .ok (-1) := by decide
/-- … `-0` at uint8 from the lexical description (⇐ used): the sign is allowed, the value 0 is inside `0 ..= 255` -/
example : storeInt .uint8 [] 4 [45, 48] = .ok 0 :=
  (int_accept_iff_base8 .uint8 [] 4 [45, 48] 0 (by decide) (by decide) trivial).mpr
    ⟨⟨[], [45, 48], [], rfl, rfl, rfl, [45], [48], 0, rfl, Or.inr (Or.inr rfl), ⟨by decide, by decide, by decide⟩, by decide⟩,
      by decide, by decide, Or.inl rfl⟩

/-! ## base 16 -/

/-- Acceptance under hints that select base 16 (only `LYD_VALHINT_HEXNUM` among the number bits) ⇔ the string is, between
    optional white space, an optional sign, an optional `0x` / `0X` and one or more hexadecimal digits as `strtoll(…, 16)`
    reads them (`IntLexWs16`, `Val/SpecBase816.lean`), its value — in base 16 — is within the type's bounds and in the
    union of the range parts.  All eight integer types, every compiled range, every byte string without NUL.  In
    particular `ff` and `0xFF` are both 255, `10` is 16, `0x` (glibc converts the `0` and stops at the `x`, libyang refuses
    the left-over), `0xg`, `0x 1`, `g` are refused. -/
theorem int_accept_iff_base16 (t : IntTy) (range : List (Int × Int)) (hints : Nat) (s : Bytes) (v : Int)
    (h0 : (0 : UInt8) ∉ s) (hb : checkHints hints t.name = some 16) (hwf : PartsWF t.min t.max range) :
    storeInt t range hints s = .ok v ↔ IntLexWs16 s v ∧ t.min ≤ v ∧ v ≤ t.max ∧ InParts range v :=
  storeInt_accept_iff_base16 t range hints s v h0 hb hwf

/-- non-vacuity: the base hypothesis holds for `LYD_VALHINT_HEXNUM` (8) at the types below 64 bits and for
    `LYD_VALHINT_NUM64 | LYD_VALHINT_HEXNUM` (24) at all types -/
example : checkHints Generated.LYD_VALHINT_HEXNUM "int8" = some 16 ∧ checkHints Generated.LYD_VALHINT_HEXNUM "uint32" = some 16 ∧
    checkHints (Generated.LYD_VALHINT_NUM64 + Generated.LYD_VALHINT_HEXNUM) "int64" = some 16 ∧ checkHints 24 "uint64" = some 16 ∧
    checkHints 24 "int16" = some 16 := by decide
/-- non-vacuity: accepted without prefix — `" ff\n"` at uint8 with a two-part range is 255; all three hypotheses met, ⇒ used -/
example : IntLexWs16 [32, 102, 102, 10] 255 ∧ IntTy.min .uint8 ≤ 255 ∧ 255 ≤ IntTy.max .uint8 ∧ InParts [(0, 5), (200, 255)] 255 :=
  (int_accept_iff_base16 .uint8 [(0, 5), (200, 255)] 8 [32, 102, 102, 10] 255
    (by decide) (by decide) (by simp only [PartsWF]; decide)).mp (by decide)
/-- non-vacuity: accepted with prefix — `0xFF` is 255 too; ⇒ used -/
example : IntLexWs16 [48, 120, 70, 70] 255 ∧ IntTy.min .uint8 ≤ 255 ∧ 255 ≤ IntTy.max .uint8 ∧ InParts [] 255 :=
  (int_accept_iff_base16 .uint8 [] 8 [48, 120, 70, 70] 255 (by decide) (by decide) trivial).mp (by decide)
/-- non-vacuity: accepted, negative with an upper-case prefix — `-0X80` is the lower bound of int8; ⇐ used: the store result
    is derived from the lexical description (prefix form) -/
example : storeInt .int8 [] 8 [45, 48, 88, 56, 48] = .ok (-128) :=
  (int_accept_iff_base16 .int8 [] 8 [45, 48, 88, 56, 48] (-128) (by decide) (by decide) trivial).mpr
    ⟨⟨[], [45, 48, 88, 56, 48], [], rfl, rfl, rfl, [45], [48, 88, 56, 48], 128, rfl, Or.inr (Or.inr rfl),
      Or.inl ⟨88, [56, 48], rfl, Or.inr rfl, by decide, by decide, by decide⟩, by decide⟩, by decide, by decide, Or.inl rfl⟩
/-- non-vacuity: ⇐ used with the form without prefix — `+7f` is 127 -/
example : storeInt .int8 [] 8 [43, 55, 102] = .ok 127 :=
  (int_accept_iff_base16 .int8 [] 8 [43, 55, 102] 127 (by decide) (by decide) trivial).mpr
    ⟨⟨[], [43, 55, 102], [], rfl, rfl, rfl, [43], [55, 102], 127, rfl, Or.inr (Or.inl rfl),
      Or.inr ⟨by decide, by decide, by decide⟩, by decide⟩, by decide, by decide, Or.inl rfl⟩
/-- non-vacuity: unsigned 64-bit under NUM64 | HEXNUM, sixteen `f`s = 2⁶⁴−1, range `0..5 | 2⁶³..max`; ⇒ used -/
example : IntLexWs16 [102, 102, 102, 102, 102, 102, 102, 102, 102, 102, 102, 102, 102, 102, 102, 102] (2 ^ 64 - 1) ∧
    IntTy.min .uint64 ≤ 2 ^ 64 - 1 ∧ (2 ^ 64 - 1 : Int) ≤ IntTy.max .uint64 ∧ InParts [(0, 5), (2 ^ 63, 2 ^ 64 - 1)] (2 ^ 64 - 1) :=
  (int_accept_iff_base16 .uint64 [(0, 5), (2 ^ 63, 2 ^ 64 - 1)] 24
    [102, 102, 102, 102, 102, 102, 102, 102, 102, 102, 102, 102, 102, 102, 102, 102] (2 ^ 64 - 1)
    (by decide) (by decide) (by simp only [PartsWF]; decide)).mp (by decide)
/-- non-vacuity: rejected forms — `0x` (no digit after the prefix: the `0` is converted, the `x` is left over), `g`, `0x 1`,
    `0xg`, `x1`: the model refuses them, and (⇒, contrapositive) no value makes `0x` / `g` / `0x 1` lexical values of base 16 -/
example : storeInt .int8 [] 8 [48, 120] = .error .Invalid ∧ storeInt .int8 [] 8 [103] = .error .Invalid ∧
    storeInt .int8 [] 8 [48, 120, 32, 49] = .error .Invalid ∧ storeInt .int8 [] 8 [48, 120, 103] = .error .Invalid ∧
    storeInt .int8 [] 8 [120, 49] = .error .Invalid ∧ storeInt .int8 [] 8 [48] = .ok 0 := by decide
example : (∀ v, ¬ (IntLexWs16 [48, 120] v ∧ IntTy.min .int8 ≤ v ∧ v ≤ IntTy.max .int8 ∧ InParts [] v)) ∧
    (∀ v, ¬ (IntLexWs16 [103] v ∧ IntTy.min .int8 ≤ v ∧ v ≤ IntTy.max .int8 ∧ InParts [] v)) ∧
    (∀ v, ¬ (IntLexWs16 [48, 120, 32, 49] v ∧ IntTy.min .int8 ≤ v ∧ v ≤ IntTy.max .int8 ∧ InParts [] v)) :=
  ⟨fun v h => absurd ((int_accept_iff_base16 .int8 [] 8 [48, 120] v (by decide) (by decide) trivial).mpr h)
      (by rw [show storeInt .int8 [] 8 [48, 120] = .error .Invalid by decide]; exact fun h => nomatch h),
   fun v h => absurd ((int_accept_iff_base16 .int8 [] 8 [103] v (by decide) (by decide) trivial).mpr h)
      (by rw [show storeInt .int8 [] 8 [103] = .error .Invalid by decide]; exact fun h => nomatch h),
   fun v h => absurd ((int_accept_iff_base16 .int8 [] 8 [48, 120, 32, 49] v (by decide) (by decide) trivial).mpr h)
      (by rw [show storeInt .int8 [] 8 [48, 120, 32, 49] = .error .Invalid by decide]; exact fun h => nomatch h)⟩
/-- non-vacuity: out of range — `80` = 128 is a lexical value of base 16 but above the int8 bound, fine for uint8; `0x28` = 40
    is inside the bounds but between the range parts; `1` + sixteen zeros = 2⁶⁴ overflows `strtoull` -/
example : storeInt .int8 [] 8 [56, 48] = .error .Bounds ∧ storeInt .uint8 [] 8 [56, 48] = .ok 128 ∧
    storeInt .int8 [(-128, -100), (5, 20)] 8 [48, 120, 50, 56] = .error .Range ∧
    storeInt .uint64 [] 24 [49, 48, 48, 48, 48, 48, 48, 48, 48, 48, 48, 48, 48, 48, 48, 48, 48] = .error .Invalid := by decide
/-- non-vacuity: unsigned types and `-` — `-0` and `-0x0` are the unsigned 0, `-1` is refused (and is −1 for int8) -/
example : storeInt .uint8 [] 8 [45, 48] = .ok 0 ∧ storeInt .uint8 [] 8 [45, 48, 120, 48] = .ok 0 ∧
    storeInt .uint8 [] 8 [45, 49] = .error .Bounds ∧ storeInt .int8 [] 8 [45, 49] = .ok (-1) := by decide
/-- … `-0` at uint8 from the lexical description (⇐ used) -/
example : storeInt .uint8 [] 8 [45, 48] = .ok 0 :=
  (int_accept_iff_base16 .uint8 [] 8 [45, 48] 0 (by decide) (by decide) trivial).mpr
    ⟨⟨[], [45, 48], [], rfl, rfl, rfl, [45], [48], 0, rfl, Or.inr (Or.inr rfl), Or.inr ⟨by decide, by decide, by decide⟩, by decide⟩,
      by decide, by decide, Or.inl rfl⟩
/-- the four bases on the same strings: `10` is 8 / 10 / 16, `010` is 8 under base 0 and base 8, 10 under base 10, 16 under
    base 16; `0x10` is 16 under base 0 and 16 and refused under base 8 and 10 -/
example : storeInt .int8 [] 4 [49, 48] = .ok 8 ∧ storeInt .int8 [] 2 [49, 48] = .ok 10 ∧ storeInt .int8 [] 8 [49, 48] = .ok 16 ∧
    storeInt .int8 [] 12 [49, 48] = .ok 10 ∧
    storeInt .int8 [] 4 [48, 49, 48] = .ok 8 ∧ storeInt .int8 [] 12 [48, 49, 48] = .ok 8 ∧ storeInt .int8 [] 2 [48, 49, 48] = .ok 10 ∧
    storeInt .int8 [] 8 [48, 49, 48] = .ok 16 ∧
    storeInt .int8 [] 8 [48, 120, 49, 48] = .ok 16 ∧ storeInt .int8 [] 12 [48, 120, 49, 48] = .ok 16 ∧
    storeInt .int8 [] 4 [48, 120, 49, 48] = .error .Invalid ∧ storeInt .int8 [] 2 [48, 120, 49, 48] = .error .Invalid := by decide

/-! ## canonical form under base 8 / base 16

The canonical form of an integer is decimal (RFC 7950 §9.2.2).  Under a hint set that selects base 8 or base 16 the parser
does not read it as decimal, so the round trip `store (canon v) = v` of `C03.int_canon_idempotent` (base 10) and
`C03.int_canon_idempotent_base0` does NOT carry over: -/

/-- FULL STATEMENT for base 8 — false: the canonical string of 10 is `10`, which base 8 reads as 8 (and the canonical
    string of 8 is `8`, which base 8 refuses). -/
theorem int_canon_idempotent_base8_fails :
    ¬ ∀ (t : IntTy) (range : List (Int × Int)) (hints : Nat) (v : Int), checkHints hints t.name = some 8 →
      PartsWF t.min t.max range → t.min ≤ v → v ≤ t.max → InParts range v → storeInt t range hints (canonInt v) = .ok v := by
  intro h
  have := h .int8 [] 4 10 (by decide) trivial (by decide) (by decide) (Or.inl rfl)
  revert this; decide

example : canonInt 10 = [49, 48] ∧ storeInt .int8 [] 4 (canonInt 10) = .ok 8 ∧ storeInt .int8 [] 4 (canonInt 8) = .error .Invalid := by decide

/-- The true part for base 8, exactly: for an admissible value (inside the bounds and the range) the canonical string is read
    back as that value if and only if it is a single octal digit with optional `-`, i.e. −7 ≤ v ≤ 7 — at every integer
    type, under every compiled range.  (Two or more decimal digits read in base 8 denote a smaller number or contain
    an `8` / `9`.) -/
theorem int_canon_idempotent_base8_partial (t : IntTy) (range : List (Int × Int)) (hints : Nat) (v : Int)
    (hb : checkHints hints t.name = some 8) (hwf : PartsWF t.min t.max range)
    (hlo : t.min ≤ v) (hhi : v ≤ t.max) (hin : InParts range v) :
    storeInt t range hints (canonInt v) = .ok v ↔ (-7 ≤ v ∧ v ≤ 7) := by
  rw [storeInt_canon_base8_iff t range hints v hb hwf hlo hhi hin]
  omega

/-- non-vacuity: int8 with a two-part range under OCTNUM, the values −7 and 0 are read back (⇐ used) … -/
example : storeInt .int8 [(-128, -5), (0, 20)] 4 (canonInt (-7)) = .ok (-7) ∧ storeInt .int8 [(-128, -5), (0, 20)] 4 (canonInt 0) = .ok 0 :=
  ⟨(int_canon_idempotent_base8_partial .int8 _ 4 (-7) (by decide) (by simp only [PartsWF]; decide) (by decide) (by decide)
      (by simp only [InParts]; decide)).mpr (by decide),
   (int_canon_idempotent_base8_partial .int8 _ 4 0 (by decide) (by simp only [PartsWF]; decide) (by decide) (by decide)
      (by simp only [InParts]; decide)).mpr (by decide)⟩
/-- … and 17 (`17` is 15 in base 8) and 8 (`8` is refused) are not (⇒ used, contrapositive) -/
example : ¬ storeInt .int8 [(-128, -5), (0, 20)] 4 (canonInt 17) = .ok 17 ∧ ¬ storeInt .uint64 [] 20 (canonInt 8) = .ok 8 :=
  ⟨fun h => absurd ((int_canon_idempotent_base8_partial .int8 _ 4 17 (by decide) (by simp only [PartsWF]; decide) (by decide) (by decide)
      (by simp only [InParts]; decide)).mp h) (by decide),
   fun h => absurd ((int_canon_idempotent_base8_partial .uint64 [] 20 8 (by decide) trivial (by decide) (by decide) (Or.inl rfl)).mp h) (by decide)⟩

/-- FULL STATEMENT for base 16 — false: the canonical string of 10 is `10`, which base 16 reads as 16. -/
theorem int_canon_idempotent_base16_fails :
    ¬ ∀ (t : IntTy) (range : List (Int × Int)) (hints : Nat) (v : Int), checkHints hints t.name = some 16 →
      PartsWF t.min t.max range → t.min ≤ v → v ≤ t.max → InParts range v → storeInt t range hints (canonInt v) = .ok v := by
  intro h
  have := h .int8 [] 8 10 (by decide) trivial (by decide) (by decide) (Or.inl rfl)
  revert this; decide

example : storeInt .int8 [] 8 (canonInt 10) = .ok 16 ∧ storeInt .int8 [] 8 (canonInt (-100)) = .error .Bounds := by decide

/-- The true part for base 16, exactly: for an admissible value the canonical string is read back as that value if and only
    if it is a single decimal digit with optional `-`, i.e. −9 ≤ v ≤ 9 — at every integer type, under every compiled range.
    (A canonical string is always a lexical value of base 16, but two or more decimal digits denote a greater number there.) -/
theorem int_canon_idempotent_base16_partial (t : IntTy) (range : List (Int × Int)) (hints : Nat) (v : Int)
    (hb : checkHints hints t.name = some 16) (hwf : PartsWF t.min t.max range)
    (hlo : t.min ≤ v) (hhi : v ≤ t.max) (hin : InParts range v) :
    storeInt t range hints (canonInt v) = .ok v ↔ (-9 ≤ v ∧ v ≤ 9) := by
  rw [storeInt_canon_base16_iff t range hints v hb hwf hlo hhi hin]
  omega

/-- non-vacuity: uint64 with a two-part range under NUM64 | HEXNUM, the value 9; int8 under HEXNUM, the value −9 (⇐ used) … -/
example : storeInt .uint64 [(0, 5), (9, 2 ^ 64 - 1)] 24 (canonInt 9) = .ok 9 ∧ storeInt .int8 [] 8 (canonInt (-9)) = .ok (-9) :=
  ⟨(int_canon_idempotent_base16_partial .uint64 _ 24 9 (by decide) (by simp only [PartsWF]; decide) (by decide) (by decide)
      (by simp only [InParts]; decide)).mpr (by decide),
   (int_canon_idempotent_base16_partial .int8 [] 8 (-9) (by decide) trivial (by decide) (by decide) (Or.inl rfl)).mpr (by decide)⟩
/-- … and 2⁶³ at uint64 is not (⇒ used, contrapositive): its nineteen decimal digits read in base 16 overflow `strtoull` -/
example : ¬ storeInt .uint64 [] 24 (canonInt (2 ^ 63)) = .ok (2 ^ 63) :=
  fun h => absurd ((int_canon_idempotent_base16_partial .uint64 [] 24 (2 ^ 63) (by decide) trivial (by decide) (by decide) (Or.inl rfl)).mp h)
    (by decide)

end LyModel.Props.C03Base
