import LyModel.Iff.LemmasRangeInv
import LyModel.Iff.LemmasRangeGram
/-!
# C11 — range / length restrictions

Model: `LyModel.Range.compileRange` (= `lys_compile_type_range`: the part parser `loop` and the base-restriction
`walk`), `validate` (= `lyplg_type_validate_range`).  `fx : RFix` says which of the candidate repairs fixes/F30.diff,
fixes/F75.diff the modelled source contains (`{}` = the pinned tree).
-/
namespace LyModel.Props.C11
open LyModel LyModel.Range

def int8 : RType := { uns := false, lo := -128, hi := 127 }

/-! ## value validation = membership in the union of the parts -/

/-- `lyplg_type_validate_range` accepts exactly the members of the union of the parts — for every ascending part list
(neighbours may even share an end point) and every value. (Soundness needs no hypothesis; completeness needs the
ascending order the walk relies on.) -/
theorem validate_range_correct (parts : List Part) (hne : parts ≠ []) (hasc : Ascending parts) (v : Int) :
    validate parts v = true ↔ ∃ p ∈ parts, p.min ≤ v ∧ v ≤ p.max :=
  ⟨validate_sound parts v hne, validate_complete parts v hasc⟩

example : Ascending [⟨-5, -5⟩, ⟨1, 10⟩, ⟨20, 20⟩] ∧ validate [⟨-5, -5⟩, ⟨1, 10⟩, ⟨20, 20⟩] 7 = true ∧
    validate [⟨-5, -5⟩, ⟨1, 10⟩, ⟨20, 20⟩] 11 = false := by
  refine ⟨?_, by decide, by decide⟩
  simp [Ascending]

/-- non-vacuity (audit): the theorem at four parts with negative bounds, single-value parts and two neighbours sharing the
end point 10; both sides of the iff are true for 10 and false for 0 -/
example : (validate [⟨-5, -5⟩, ⟨1, 10⟩, ⟨10, 20⟩, ⟨30, 30⟩] 10 = true ↔
      ∃ p ∈ ([⟨-5, -5⟩, ⟨1, 10⟩, ⟨10, 20⟩, ⟨30, 30⟩] : List Part), p.min ≤ 10 ∧ 10 ≤ p.max) ∧
    validate [⟨-5, -5⟩, ⟨1, 10⟩, ⟨10, 20⟩, ⟨30, 30⟩] 10 = true ∧ validate [⟨-5, -5⟩, ⟨1, 10⟩, ⟨10, 20⟩, ⟨30, 30⟩] 0 = false :=
  ⟨validate_range_correct [⟨-5, -5⟩, ⟨1, 10⟩, ⟨10, 20⟩, ⟨30, 30⟩] (by simp) (by simp [Ascending]) 10, by decide, by decide⟩

/-- without the ascending order the walk is incomplete: `range "5 1"` (accepted, see F75) then rejects the value 1 -/
example : validate [⟨5, 5⟩, ⟨1, 1⟩] 1 = false := by decide

/-! ## a derived restriction only narrows -/

/-- Full-strength statement: whenever `lys_compile_type_range` accepts a restriction of a type that already has the
restriction `base`, every part of the result lies within one part of `base` (so the accepted values are a subset). -/
def RangeSubsetSound (fx : RFix) : Prop :=
  ∀ (t : RType) (base : List Part) (arg : Bytes) (parts : List Part),
    compileRange fx t (some base) arg = .ok parts → ∀ p ∈ parts, Within p base

/-- **F75.** False: in `range "1 100"` the second number opens a new part without `|`, `parts_done` is not advanced, and
the subset walk (which runs to `parts_done`) never looks at the part `100` — accepted against the base `1..10`. -/
theorem range_subset_sound_fails : ¬ RangeSubsetSound {} := by
  intro h
  have hc : compileRange {} int8 (some [⟨1, 10⟩]) [0x31, 0x20, 0x31, 0x30, 0x30] = .ok [⟨1, 1⟩, ⟨100, 100⟩] := by rfl
  obtain ⟨b, hb, _, h2⟩ := h int8 [⟨1, 10⟩] _ _ hc ⟨100, 100⟩ (by simp)
  simp only [List.mem_singleton] at hb
  subst hb
  exact absurd h2 (by decide)

/-- The part that holds — for every type, base and argument: if the parser's own part counter agrees with the number of
parts it produced (every part was closed by `|` or the end of the argument, which is what the RFC grammar guarantees),
an accepted derived restriction has every part within a part of the base; in particular widening is rejected. -/
theorem range_subset_sound_partial (fx : RFix) (t : RType) (base : List Part) (arg : Bytes) (parts : List Part)
    (done : Nat) (hloop : loop fx t (some base) (arg.length + 1) arg {} = .ok (parts, done))
    (hdone : done = parts.length) (hc : compileRange fx t (some base) arg = .ok parts) :
    ∀ p ∈ parts, Within p base := by
  unfold compileRange at hc
  rw [hloop] at hc
  simp only [] at hc
  cases hw : walk parts base done (done + base.length + 1) 0 0 with
  | error e => simp [hw] at hc
  | ok b =>
    cases b with
    | false => simp [hw] at hc
    | true =>
      intro p hp
      obtain ⟨k, hk, hkp⟩ := List.getElem_of_mem hp
      obtain ⟨q, hq, hwithin⟩ := walk_sound parts base done _ 0 0 hw k (Nat.zero_le _) (by omega)
      rw [List.getElem?_eq_getElem hk, hkp] at hq
      simp only [Option.some.injEq] at hq
      subst hq
      exact hwithin

/-- `range "2..5|7"` derived from `1..10`: the hypotheses are satisfiable -/
example : loop {} int8 (some [⟨1, 10⟩]) 8 [0x32, 0x2e, 0x2e, 0x35, 0x7c, 0x37] {} = .ok ([⟨2, 5⟩, ⟨7, 7⟩], 2) ∧
    compileRange {} int8 (some [⟨1, 10⟩]) [0x32, 0x2e, 0x2e, 0x35, 0x7c, 0x37] = .ok [⟨2, 5⟩, ⟨7, 7⟩] := ⟨rfl, rfl⟩

/-- non-vacuity (audit): the theorem at `range "2..5|7 | 12..max"` derived from the two-part base `1..10 | 12..20` (three
parts, white space, the keyword `max`; counter 3 = number of parts): every part lies within a base part -/
example : ∀ p ∈ ([⟨2, 5⟩, ⟨7, 7⟩, ⟨12, 20⟩] : List Part), Within p [⟨1, 10⟩, ⟨12, 20⟩] :=
  range_subset_sound_partial {} int8 [⟨1, 10⟩, ⟨12, 20⟩] [50, 46, 46, 53, 124, 55, 32, 124, 32, 49, 50, 46, 46, 109, 97, 120]
    [⟨2, 5⟩, ⟨7, 7⟩, ⟨12, 20⟩] 3 rfl rfl rfl

/-- widening `range "2..11"` of `1..10` is rejected -/
example : compileRange {} int8 (some [⟨1, 10⟩]) [0x32, 0x2e, 0x2e, 0x31, 0x31] = .error .valid := rfl

/-- with fixes/F75.diff the witness `1 100` is a syntax error -/
example : compileRange { f51 := true } int8 (some [⟨1, 10⟩]) [0x31, 0x20, 0x31, 0x30, 0x30] = .error .valid := rfl

/-! ## the parser never reads outside its arrays -/

/-- Full-strength statement: the compiler of range/length arguments terminates with a result or an error for every
type, base restriction and argument (no out-of-bounds access). -/
def RangeParseSafe (fx : RFix) : Prop :=
  ∀ (t : RType) (base : Option (List Part)) (arg : Bytes), compileRange fx t base arg ≠ .error .crashOob

/-- **F30.** False: `range "min||"` on a type derived from `1..10`: each `|` increments `parts_done` although no part
follows, the subset walk then reads `parts[1]`, `parts[2]` of a one-element array. -/
theorem range_parse_safe_fails : ¬ RangeParseSafe {} := by
  intro h
  exact h int8 (some [⟨1, 10⟩]) [0x6d, 0x69, 0x6e, 0x7c, 0x7c] rfl

-- AUDIT (resolved): `range_parse_safe_partial_anybase` (below) is now THE stated "part that holds" theorem (every `base`, rejecting parses included); this one keeps its statement and is documented as the special case it is.
/-- Special case `base = some _` with an accepting part parser (the walk lemma; kept because
`range_parse_safe_partial_anybase` and `range_parse_safe_fixed` are proved from it): when the part parser accepts with
a part counter that does not exceed the number of parts, the subset walk against the base restriction stays inside the
parts array. It says nothing about `base = none` or about a rejecting part parser — see
`range_parse_safe_partial_anybase` for the stated theorem. -/
theorem range_parse_safe_partial (fx : RFix) (t : RType) (base : List Part) (arg : Bytes) (parts : List Part)
    (done : Nat) (hloop : loop fx t (some base) (arg.length + 1) arg {} = .ok (parts, done))
    (hdone : done ≤ parts.length) : compileRange fx t (some base) arg ≠ .error .crashOob := by
  unfold compileRange
  rw [hloop]
  simp only []
  have key : ∀ (fuel u v : Nat), walk parts base done fuel u v ≠ .error .crashOob := by
    intro fuel
    induction fuel with
    | zero => intro u v; simp [walk]
    | succ n ih =>
      intro u v
      simp only [walk]
      split
      · rename_i hc
        simp only [Bool.and_eq_true, decide_eq_true_eq] at hc
        split
        · have := List.getElem?_eq_none_iff.mp ‹parts[u]? = none›
          omega
        · intro h; cases h
        · repeat' split
          all_goals first | exact ih _ _ | (intro h; cases h)
      · intro h; cases h
  cases hw : walk parts base done (done + base.length + 1) 0 0 with
  | error e =>
    simp only [ne_eq, Except.error.injEq]
    intro he
    subst he
    exact key _ _ _ hw
  | ok b => cases b <;> simp

/-- non-vacuity (audit): the hypotheses at the F75 witness `range "1 100"` against `1..10` on the pinned tree: the parser
accepts two parts with the counter at 1 (so `range_subset_sound_partial` does not apply) and the walk stays inside -/
example : compileRange {} int8 (some [⟨1, 10⟩]) [0x31, 0x20, 0x31, 0x30, 0x30] ≠ .error .crashOob :=
  range_parse_safe_partial {} int8 [⟨1, 10⟩] [0x31, 0x20, 0x31, 0x30, 0x30] [⟨1, 1⟩, ⟨100, 100⟩] 1 rfl (by decide)

/-- The part that holds — for either state of the repairs, every type, every argument and every `base`: the compiler
never reads outside its arrays (a) when there is no base restriction (no subset walk happens, whatever the part
counter), (b) when the part parser rejects the argument (the parser itself never reports an out-of-bounds access), and
(c) with a base restriction and an accepting parse, whenever the part counter `parts_done` does not exceed the number
of parts. The hypothesis asks for the counter bound only in case (c); F30 (`range_parse_safe_fails`) is exactly a
violation of it. (`range_parse_safe_partial` above is case (c) alone.) -/
theorem range_parse_safe_partial_anybase (fx : RFix) (t : RType) (base : Option (List Part)) (arg : Bytes)
    (hdone : ∀ b parts done, base = some b → loop fx t base (arg.length + 1) arg {} = .ok (parts, done) → done ≤ parts.length) :
    compileRange fx t base arg ≠ .error .crashOob := by
  cases hl : loop fx t base (arg.length + 1) arg {} with
  | error e =>
    unfold compileRange
    rw [hl]
    simp only [ne_eq, Except.error.injEq]
    exact loop_err fx t base _ arg {} e hl
  | ok r =>
    obtain ⟨parts, done⟩ := r
    cases base with
    | none => unfold compileRange; rw [hl]; simp
    | some b => exact range_parse_safe_partial fx t b arg parts done hl (hdone b parts done rfl hl)

/-- non-vacuity (audit): no base restriction — the F30 witness `min||` and its over-counted `parts_done` are harmless -/
example : compileRange {} int8 none [0x6d, 0x69, 0x6e, 0x7c, 0x7c] ≠ .error .crashOob :=
  range_parse_safe_partial_anybase {} int8 none _ (fun _ _ _ h => by cases h)
example : loop {} int8 none 6 [0x6d, 0x69, 0x6e, 0x7c, 0x7c] {} = .ok ([⟨-128, -128⟩], 3) := rfl
/-- non-vacuity (audit): … a base restriction and an accepting parse whose counter stays within the parts — the F75
witness `1 100` against `1..10` (counter 1, two parts): the hypothesis is met by computing the parse -/
example : compileRange {} int8 (some [⟨1, 10⟩]) [0x31, 0x20, 0x31, 0x30, 0x30] ≠ .error .crashOob :=
  range_parse_safe_partial_anybase {} int8 (some [⟨1, 10⟩]) _ (fun _ parts done _ hl => by
    have h : loop {} int8 (some [⟨1, 10⟩]) 6 [0x31, 0x20, 0x31, 0x30, 0x30] {} = .ok ([⟨1, 1⟩, ⟨100, 100⟩], 1) := rfl
    have h2 := hl.symm.trans h
    simp only [Except.ok.injEq, Prod.mk.injEq] at h2
    obtain ⟨rfl, rfl⟩ := h2
    decide)
/-- non-vacuity (audit): … and a base restriction with a rejecting part parser — `5..` against `1..10` (nothing after
`..`): no accepting parse, so the hypothesis asks for nothing -/
example : compileRange {} int8 (some [⟨1, 10⟩]) [0x35, 0x2e, 0x2e] ≠ .error .crashOob :=
  range_parse_safe_partial_anybase {} int8 (some [⟨1, 10⟩]) _ (fun _ parts done _ hl => by
    have h : loop {} int8 (some [⟨1, 10⟩]) 4 [0x35, 0x2e, 0x2e] {} = .error .valid := rfl
    exact absurd (h.symm.trans hl) (by simp))

/-- with fixes/F30.diff the witness `min||` is a syntax error -/
example : compileRange { f30 := true } int8 (some [⟨1, 10⟩]) [0x6d, 0x69, 0x6e, 0x7c, 0x7c] = .error .valid := rfl

/-! ## with the two repairs: every argument -/

/-- **With fixes/F30.diff and fixes/F75.diff**, for EVERY type, base and byte string: if the part parser accepts, its
part counter equals the number of parts and the parts are ascending (loop invariant
`parts_done ≤ COUNT(parts) ≤ parts_done + 1`, which the unrepaired code breaks exactly at `|` — F30 — and where a new
part is opened — F75). -/
theorem range_parse_invariant_fixed (fx : RFix) (h30 : fx.f30 = true) (h51 : fx.f51 = true) (t : RType)
    (base : Option (List Part)) (arg : Bytes) (parts : List Part) (done : Nat)
    (h : loop fx t base (arg.length + 1) arg {} = .ok (parts, done)) :
    done = parts.length ∧ Ascending parts ∧ parts ≠ [] :=
  loop_inv fx h30 h51 t base _ arg {} parts done Inv_init h

/-- … hence the full-strength statements hold: a derived restriction only narrows, -/
theorem range_subset_sound_fixed (fx : RFix) (h30 : fx.f30 = true) (h51 : fx.f51 = true) : RangeSubsetSound fx := by
  intro t base arg parts hc p hp
  cases hl : loop fx t (some base) (arg.length + 1) arg {} with
  | error e => simp [compileRange, hl] at hc
  | ok r =>
    obtain ⟨parts', done⟩ := r
    have hpe : parts' = parts := by
      unfold compileRange at hc
      rw [hl] at hc
      simp only [] at hc
      split at hc <;> simp at hc
      exact hc
    subst hpe
    exact range_subset_sound_partial fx t base arg parts' done hl
      (range_parse_invariant_fixed fx h30 h51 t (some base) arg parts' done hl).1 hc p hp

/-- the parser never reads outside its arrays, -/
theorem range_parse_safe_fixed (fx : RFix) (h30 : fx.f30 = true) (h51 : fx.f51 = true) : RangeParseSafe fx := by
  intro t base arg
  cases base with
  | none =>
    unfold compileRange
    cases hl : loop fx t none (arg.length + 1) arg {} with
    | error e =>
      -- the part parser itself never reports an out-of-bounds access
      simp only [ne_eq, Except.error.injEq]
      exact loop_err fx t none _ arg {} e hl
    | ok r => simp
  | some b =>
    cases hl : loop fx t (some b) (arg.length + 1) arg {} with
    | error e =>
      unfold compileRange
      rw [hl]
      simp only [ne_eq, Except.error.injEq]
      exact loop_err fx t (some b) _ arg {} e hl
    | ok r =>
      obtain ⟨parts, done⟩ := r
      exact range_parse_safe_partial fx t b arg parts done hl
        (Nat.le_of_eq (range_parse_invariant_fixed fx h30 h51 t (some b) arg parts done hl).1)

/-- and every accepted restriction validates values by membership in the union of its parts. -/
theorem range_validate_fixed (fx : RFix) (h30 : fx.f30 = true) (h51 : fx.f51 = true) (t : RType)
    (base : Option (List Part)) (arg : Bytes) (parts : List Part) (hc : compileRange fx t base arg = .ok parts) (v : Int) :
    validate parts v = true ↔ ∃ p ∈ parts, p.min ≤ v ∧ v ≤ p.max := by
  cases hl : loop fx t base (arg.length + 1) arg {} with
  | error e => simp [compileRange, hl] at hc
  | ok r =>
    obtain ⟨parts', done⟩ := r
    have hinv := range_parse_invariant_fixed fx h30 h51 t base arg parts' done hl
    have hpe : parts' = parts := by
      unfold compileRange at hc
      rw [hl] at hc
      simp only [] at hc
      cases base with
      | none => simpa using hc
      | some b =>
        simp only [] at hc
        split at hc <;> simp at hc
        exact hc
    subst hpe
    exact validate_range_correct parts' hinv.2.2 hinv.2.1 v

example : compileRange { f30 := true, f51 := true } int8 (some [⟨1, 10⟩]) [0x32, 0x2e, 0x2e, 0x35, 0x7c, 0x37] =
    .ok [⟨2, 5⟩, ⟨7, 7⟩] := rfl

/-- non-vacuity (audit): with both repairs on, `range "2..5|7 | 12..max"` against `1..10 | 12..20` is still accepted
(three parts, counter 3), so the four `_fixed` theorems have accepting instances; each is instantiated there -/
example : ([⟨2, 5⟩, ⟨7, 7⟩, ⟨12, 20⟩] : List Part).length = 3 ∧ Ascending [⟨2, 5⟩, ⟨7, 7⟩, ⟨12, 20⟩] ∧ ([⟨2, 5⟩, ⟨7, 7⟩, ⟨12, 20⟩] : List Part) ≠ [] :=
  range_parse_invariant_fixed { f30 := true, f51 := true } rfl rfl int8 (some [⟨1, 10⟩, ⟨12, 20⟩])
    [50, 46, 46, 53, 124, 55, 32, 124, 32, 49, 50, 46, 46, 109, 97, 120] [⟨2, 5⟩, ⟨7, 7⟩, ⟨12, 20⟩] 3 rfl
example : ∀ p ∈ ([⟨2, 5⟩, ⟨7, 7⟩, ⟨12, 20⟩] : List Part), Within p [⟨1, 10⟩, ⟨12, 20⟩] :=
  range_subset_sound_fixed { f30 := true, f51 := true } rfl rfl int8 [⟨1, 10⟩, ⟨12, 20⟩]
    [50, 46, 46, 53, 124, 55, 32, 124, 32, 49, 50, 46, 46, 109, 97, 120] [⟨2, 5⟩, ⟨7, 7⟩, ⟨12, 20⟩] rfl
example : compileRange { f30 := true, f51 := true } int8 (some [⟨1, 10⟩, ⟨12, 20⟩]) [50, 46, 46, 53, 124, 55, 32, 124, 32, 49, 50, 46, 46, 109, 97, 120] ≠ .error .crashOob :=
  range_parse_safe_fixed { f30 := true, f51 := true } rfl rfl int8 _ _
example : validate [⟨2, 5⟩, ⟨7, 7⟩, ⟨12, 20⟩] 7 = true ↔ ∃ p ∈ ([⟨2, 5⟩, ⟨7, 7⟩, ⟨12, 20⟩] : List Part), p.min ≤ 7 ∧ (7 : Int) ≤ p.max :=
  range_validate_fixed { f30 := true, f51 := true } rfl rfl int8 (some [⟨1, 10⟩, ⟨12, 20⟩])
    [50, 46, 46, 53, 124, 55, 32, 124, 32, 49, 50, 46, 46, 109, 97, 120] [⟨2, 5⟩, ⟨7, 7⟩, ⟨12, 20⟩] rfl 7
example : validate [⟨2, 5⟩, ⟨7, 7⟩, ⟨12, 20⟩] 7 = true ∧ validate [⟨2, 5⟩, ⟨7, 7⟩, ⟨12, 20⟩] 6 = false ∧ validate [⟨2, 5⟩, ⟨7, 7⟩, ⟨12, 20⟩] 21 = false := by decide

/-! ## the part parser and the RFC grammar -/

/-- Full-strength statement: `lys_compile_type_range` accepts exactly the arguments of the RFC 7950 `range-arg` /
`length-arg` grammar (here: everything it accepts is generated by the grammar `RangeA`). -/
def RangeParseCorrect (fx : RFix) : Prop :=
  ∀ (t : RType) (arg : Bytes) (parts : List Part), compileRange fx t none arg = .ok parts → ∃ a : RangeA, a.render = arg

/-- **F77.** False, with or without the repairs: `range "+2"` is accepted (as 2), but no `range-arg` starts with `+`. -/
theorem range_parse_correct_fails (fx : RFix) : ¬ RangeParseCorrect fx := by
  intro h
  have hc : compileRange fx int8 none [0x2b, 0x32] = .ok [⟨2, 2⟩] := by
    cases fx with
    | mk f30 f51 => cases f30 <;> cases f51 <;> rfl
  obtain ⟨a, ha⟩ := h int8 _ _ hc
  -- every range-arg starts with `m`, `-` or a digit
  have hhead : ∀ b : Bnd, ∃ c tl, b.render = c :: tl ∧ c ≠ 0x2b := by
    intro b
    cases b with
    | min => exact ⟨0x6d, _, rfl, by decide⟩
    | max => exact ⟨0x6d, _, rfl, by decide⟩
    | num n =>
      obtain ⟨c, tl, hr, hc⟩ := n.render_head
      refine ⟨c, tl, hr, ?_⟩
      rcases hc with hc | hc
      · intro e; subst e; revert hc; decide
      · subst hc; decide
  obtain ⟨c, tl, hr, hne⟩ := hhead a.first.lo
  have : a.render = c :: (tl ++ (match a.first.hi with
      | none => []
      | some (o1, o2, b) => o1.s ++ kwDots ++ o2.s ++ b.render) ++ renderRest a.rest) := by
    simp only [RangeA.render, PartA.render, hr, List.cons_append, List.append_assoc]
    rfl
  rw [this] at ha
  simp only [List.cons.injEq] at ha
  exact hne ha.1

/-- The part that holds, for both integer ranges and lengths, every base restriction and either state of the repairs:
every argument of the grammar — any number of parts, any white space where `optsep` stands, `min` as the first and
`max` as the last boundary — whose boundaries are values of the type and whose parts are ascending and disjoint is
accepted, and compiles to exactly the parts it denotes (with `parts_done` = their number, so the subset walk of a
derived restriction sees every part). -/
theorem range_parse_correct_partial (fx : RFix) (t : RType) (hwf : t.WF) (base : Option (List Part)) (a : RangeA)
    (P : List Part) (hk : a.KwOK) (hv : a.values t base = some P) (hasc : StrictAsc P) :
    loop fx t base (a.render.length + 1) a.render {} = .ok (P, P.length) ∧
    (base = none → compileRange fx t none a.render = .ok P) := by
  refine ⟨loop_grammatical fx t base hwf a P hk hv hasc, ?_⟩
  intro hb
  subst hb
  have := loop_grammatical fx t none hwf a P hk hv hasc
  simp [compileRange, this]

/-- `min .. 5 |\t7..max` on int8: the hypotheses are satisfiable by a non-trivial argument -/
def sampleRange : RangeA :=
  { first := { lo := .min, hi := some (⟨[0x20], by decide⟩, ⟨[0x20], by decide⟩, .num ⟨false, [0x35], by decide, by decide⟩) },
    rest := [(⟨[0x20], by decide⟩, ⟨[0x09], by decide⟩,
      { lo := .num ⟨false, [0x37], by decide, by decide⟩, hi := some (⟨[], by decide⟩, ⟨[], by decide⟩, .max) })] }

example : sampleRange.render = [0x6d, 0x69, 0x6e, 0x20, 0x2e, 0x2e, 0x20, 0x35, 0x20, 0x7c, 0x09, 0x37, 0x2e, 0x2e, 0x6d, 0x61, 0x78] := rfl
example : sampleRange.values int8 none = some [⟨-128, 5⟩, ⟨7, 127⟩] := rfl
example : compileRange {} int8 none sampleRange.render = .ok [⟨-128, 5⟩, ⟨7, 127⟩] := rfl
example : int8.WF ∧ StrictAsc [⟨-128, 5⟩, ⟨7, 127⟩] := by
  refine ⟨⟨rfl, by decide⟩, ?_⟩
  simp [StrictAsc]
example : sampleRange.KwOK := by
  simp [sampleRange, RangeA.KwOK, PartA.KwOK, RestKwOK]

/-- `min..3 |\t25 .. max` -/
def sampleLength : RangeA :=
  { first := { lo := .min, hi := some (⟨[], by decide⟩, ⟨[], by decide⟩, .num ⟨false, [0x33], by decide, by decide⟩) },
    rest := [(⟨[0x20], by decide⟩, ⟨[0x09], by decide⟩,
      { lo := .num ⟨false, [0x32, 0x35], by decide, by decide⟩, hi := some (⟨[0x20], by decide⟩, ⟨[0x20], by decide⟩, .max) })] }

/-- the `length` of a string: compared as `uint64_t` -/
def strLen : RType := { uns := true, lo := 0, hi := 18446744073709551615 }

example : sampleLength.render = [109, 105, 110, 46, 46, 51, 32, 124, 9, 50, 53, 32, 46, 46, 32, 109, 97, 120] := rfl

/-- non-vacuity (audit): the theorem at the flagship sample (signed type, no base: both conjuncts say something) -/
example : loop {} int8 none (sampleRange.render.length + 1) sampleRange.render {} = .ok ([⟨-128, 5⟩, ⟨7, 127⟩], 2) ∧
    ((none : Option (List Part)) = none → compileRange {} int8 none sampleRange.render = .ok [⟨-128, 5⟩, ⟨7, 127⟩]) :=
  range_parse_correct_partial {} int8 ⟨rfl, by decide⟩ none sampleRange [⟨-128, 5⟩, ⟨7, 127⟩]
    (by simp [sampleRange, RangeA.KwOK, PartA.KwOK, RestKwOK]) rfl (by simp [StrictAsc])

/-- non-vacuity (audit): … and at a `length` (unsigned type) derived from the two-part base `1..10 | 20..30`, where `min` and
`max` resolve to the bounds of the base (1 and 30), a two-digit number, with both repairs on -/
example : loop { f30 := true, f51 := true } strLen (some [⟨1, 10⟩, ⟨20, 30⟩]) (sampleLength.render.length + 1)
      sampleLength.render {} = .ok ([⟨1, 3⟩, ⟨25, 30⟩], 2) :=
  (range_parse_correct_partial { f30 := true, f51 := true } strLen ⟨rfl, by decide⟩ (some [⟨1, 10⟩, ⟨20, 30⟩]) sampleLength
    [⟨1, 3⟩, ⟨25, 30⟩] (by simp [sampleLength, RangeA.KwOK, PartA.KwOK, RestKwOK]) rfl (by simp [StrictAsc])).1

end LyModel.Props.C11
