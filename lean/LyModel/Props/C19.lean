import LyModel.Ctx.LemmasCount
import LyModel.Ctx.LemmasHash
import LyModel.Ctx.LemmasRevert
import LyModel.Ctx.Yl
import LyModel.Ctx.LemmasYl
import LyModel.Ctx.Examples
/-!
# C19 — change counter, module-set hash, and the context rebuilt from its yang-library data

Model: `LyModel.Ctx` (`Ctx/Model.lean`, `Ctx/Jenkins.lean`, `Ctx/Yl.lean`), tied to libyang on every run by
`harness/api_ctx.c` and `harness/api_yl.c` (`tools/checks/c19.py`): counter value, 32-bit hash value and the context
produced by `ly_ctx_new_yldata` are compared token for token.
-/
namespace LyModel.Props.C19
open LyModel LyModel.Ctx

/-! ## the change counter -/

/-- a 16-bit counter incremented `k` times, `0 < k < 2^16`, shows a different value -/
theorem change_count_changes (c : BitVec 16) (k : Nat) (h0 : 0 < k) (hk : k < 2 ^ 16) : c + BitVec.ofNat 16 k ≠ c := by
  intro h
  have h1 : BitVec.ofNat 16 k = 0#16 := BitVec.add_right_eq_self.mp h
  have h2 := congrArg BitVec.toNat h1
  simp only [BitVec.toNat_ofNat, BitVec.toNat_zero] at h2
  rw [Nat.mod_eq_of_lt hk] at h2
  omega

private theorem cc_init (s : Ctx) : CC s.changeCount s.ticks s.mods.length s :=
  ⟨by simp, Nat.le_refl _, Nat.le_refl _⟩

private theorem cc_erase {c t n} {s : Ctx} (h : CC c t n s) : CC c t n (erase s) := h.same rfl rfl rfl

private theorem cc_revert {c t n} {s : Ctx} (h : CC c t n s) : CC c t n (revert s) := by
  have h1 : CC c t n (revertCore s) := by
    obtain ⟨hm, _⟩ := foldl_unimplement s.implementing s
    have hcc : ∀ (l : List MKey) (u : Ctx), (l.foldl unimplement u).changeCount = u.changeCount ∧
        (l.foldl unimplement u).ticks = u.ticks := by
      intro l
      induction l with
      | nil => intro u; exact ⟨rfl, rfl⟩
      | cons k r ih => intro u; exact ih (unimplement u k)
    obtain ⟨g, _, e⟩ := fixLatest_spec (s.implementing.foldl unimplement s) (removeCreated (s.implementing.foldl unimplement s))
    unfold revertCore
    rw [e]
    refine ⟨?_, ?_, ?_⟩
    · show (s.implementing.foldl unimplement s).changeCount = _ + BitVec.ofNat 16 ((s.implementing.foldl unimplement s).ticks - t)
      rw [(hcc _ s).1, (hcc _ s).2]
      exact h.value
    · show t ≤ (s.implementing.foldl unimplement s).ticks
      rw [(hcc _ s).2]; exact h.mono
    · show ((List.filter _ (s.implementing.foldl unimplement s).mods).map g).length + t ≤ n + (s.implementing.foldl unimplement s).ticks
      rw [(hcc _ s).2, List.length_map]
      have h2 : (List.filter (fun m => !(s.implementing.foldl unimplement s).creating.contains m.key)
          (s.implementing.foldl unimplement s).mods).length ≤ s.mods.length := by
        refine Nat.le_trans (List.length_filter_le _ _) ?_
        rw [hm]; simp
      have := h.added
      omega
  rw [revert_eq]
  split
  · exact h1
  · exact presCC_compileAll _ h1

private theorem cc_restore {c t n} {s s1 : Ctx} {op : Op} (h : CC c t n s1) : CC c t n (restoreFeats s op s1) := by
  rcases restoreFeats_cases s op s1 with e | ⟨k, m0, _, _, e⟩ <;> rw [e]
  · exact h
  · exact h.upd k _

/-- **Counter arithmetic of every API call**, successful or not: the value afterwards is the value before plus the number
    `k` of increments the call performed (one per module added to the context, one per `lys_compile`), modulo 2^16; and
    every module the call added is counted. -/
theorem change_count_value (s : Ctx) (op : Op) :
    let s' := (run s op).2
    s'.changeCount = s.changeCount + BitVec.ofNat 16 (s'.ticks - s.ticks) ∧ s.ticks ≤ s'.ticks ∧
      s'.mods.length + s.ticks ≤ s.mods.length + s'.ticks := by
  have hf := presCC_forward op s (cc_init s)
  have key : CC s.changeCount s.ticks s.mods.length (run s op).2 := by
    unfold run
    split
    · exact cc_init s
    · split
      · next s1 hfw =>
        rw [hfw] at hf
        cases op <;> dsimp only <;> (try split) <;> first | exact hf | exact cc_erase hf
      · next e s1 hfw =>
        rw [hfw] at hf
        cases op <;> dsimp only <;> first | exact hf | exact cc_erase (cc_revert hf) | exact cc_erase (cc_revert (cc_restore hf)) | exact (cc_erase (cc_revert hf)).same rfl rfl rfl
  exact ⟨key.value, key.mono, key.added⟩

/-- so: a call that performed `0 < k < 2^16` increments leaves a different counter value, … -/
theorem change_count_differs (s : Ctx) (op : Op) (h0 : s.ticks < (run s op).2.ticks)
    (hk : (run s op).2.ticks - s.ticks < 2 ^ 16) : (run s op).2.changeCount ≠ s.changeCount := by
  rw [(change_count_value s op).1]
  exact change_count_changes _ _ (by omega) hk

/-- … and a call after which the context has more modules did perform at least one -/
theorem module_added_is_counted (s : Ctx) (op : Op) (h : s.mods.length < (run s op).2.mods.length) :
    s.ticks < (run s op).2.ticks := by
  have := (change_count_value s op).2.2
  omega

/-! ## the modules hash -/

/-- what `ly_ctx_get_modules_hash` is supposed to depend on, per module -/
def hashView (m : Mod) : Bytes × Bytes × Bool × List (Bytes × Bool) × List (List (Bytes × Bool)) :=
  (m.src.name, m.src.rev, m.implemented, m.feats.map (fun f => (f.name, f.on)), m.subFeats.map (·.map fun f => (f.name, f.on)))

private theorem enabled_of_view : ∀ (l l' : List Feat), l'.map (fun f => (f.name, f.on)) = l.map (fun f => (f.name, f.on)) →
    (l'.filter (·.on)).map (·.name) = (l.filter (·.on)).map (·.name) := by
  intro l
  induction l with
  | nil => intro l' h; cases l' with
    | nil => rfl
    | cons a r => simp at h
  | cons a r ih =>
    intro l' h
    cases l' with
    | nil => simp at h
    | cons a' r' =>
      simp only [List.map_cons, List.cons.injEq, Prod.mk.injEq] at h
      obtain ⟨⟨h1, h2⟩, h3⟩ := h
      have := ih r' h3
      simp only [List.filter_cons, h2]
      split <;> simp [this, h1]

private theorem view_flatten (l l' : List (List Feat))
    (h : l'.map (·.map fun f => (f.name, f.on)) = l.map (·.map fun f => (f.name, f.on))) (k : Nat) :
    ((l'.drop k).flatten).map (fun f => (f.name, f.on)) = ((l.drop k).flatten).map (fun f => (f.name, f.on)) := by
  have h' : (l'.drop k).map (·.map fun f => (f.name, f.on)) = (l.drop k).map (·.map fun f => (f.name, f.on)) := by
    rw [List.map_drop, List.map_drop, h]
  rw [List.map_flatten, List.map_flatten, h']

/-- **the hash is a function of the ordered module set**: two contexts (however they were built) whose module lists show
    the same names, revisions, implemented flags and feature values in the same order have the same hash -/
theorem hash_deterministic (s s' : Ctx) (h : s'.mods.map hashView = s.mods.map hashView) :
    s'.modulesHash = s.modulesHash := by
  have key : ∀ (rs : Bool) (l l' : List Mod) (fi : Nat), l'.map hashView = l.map hashView → hashPartsG rs l' fi = hashPartsG rs l fi := by
    intro rs l
    induction l with
    | nil => intro l' fi h; cases l' with
      | nil => rfl
      | cons a r => simp at h
    | cons m r ih =>
      intro l' fi h
      cases l' with
      | nil => simp at h
      | cons m' r' =>
        simp only [List.map_cons, List.cons.injEq, hashView, Prod.mk.injEq] at h
        obtain ⟨⟨h1, h2, h3, h4, h5⟩, hr⟩ := h
        have hlen : m'.subFeats.length = m.subFeats.length := by
          have := congrArg List.length h5; simpa using this
        have hfi : ∀ fi, (hashFeats m' fi).2 = (hashFeats m fi).2 := by
          intro fi; simp only [hashFeats, hlen]; split <;> rfl
        have hen : ∀ fi, ((hashFeats m' fi).1.filter (·.on)).map (·.name) = ((hashFeats m fi).1.filter (·.on)).map (·.name) := by
          intro fi
          apply enabled_of_view
          unfold hashFeats
          dsimp only
          split
          · have := view_flatten _ _ h5 0
            simp only [List.drop_zero] at this
            simp [Mod.allFeats, h4, this]
          · exact view_flatten _ _ h5 _
        simp only [hashPartsG, h1, h2, h3, hfi, hen]
        rw [ih r' _ hr]
  simp only [Ctx.modulesHash, Ctx.modulesHashG]
  rw [key _ (hashedMods Generated.CtxFacts.hashSkipsInternal s) (hashedMods Generated.CtxFacts.hashSkipsInternal s') 0
    (by simp only [hashedMods, List.map_append, h])]

/-- **flipping `implemented` of any one module changes the 32-bit value** (same length, one byte differs; every step of
    the Jenkins hash is a bijection of the state — proved algebraically in `Ctx/JenkinsLemmas.lean`) -/
theorem hash_depends_on_implemented (s s' : Ctx) (pre suf : List Mod) (m : Mod) (hs : s.mods = pre ++ m :: suf)
    (hs' : s'.mods = pre ++ flipImpl m :: suf) (hw : WfNames s.mods) : s.modulesHash ≠ s'.modulesHash :=
  hash_flip_implemented _ _ s s' pre suf m hs hs' hw

open LyModel.Ctx.Ex in
/-- non-vacuity: `aaa` implemented vs. imported only (`0ab1… ≠ …`) -/
example : WfNames (run (ctx0 [A]) (.parse A none)).2.mods := by
  intro m hm
  have : (run (ctx0 [A]) (.parse A none)).2.mods.all (fun m => !m.src.name.isEmpty && m.allFeats.all fun f => !f.name.isEmpty) = true := by
    decide +kernel
  rw [List.all_eq_true] at this
  have h1 := this m hm
  simp only [Bool.and_eq_true, Bool.not_eq_true', List.all_eq_true] at h1
  refine ⟨fun h => by simp [h] at h1, fun f hf h => ?_⟩
  have := h1.2 f hf
  simp [h] at this

/-- the code as it is now: is the feature iterator index restarted for every module?  (read from context.c on every run) -/
abbrev fiReset : Bool := Generated.CtxFacts.hashFiReset

/-- **what reaches the hash (the part of `hash_depends` that holds for the pinned code, where `fi` is not reset).**
    Name, revision and `implemented` of every module, in order; the enabled features of the FIRST module (and its
    submodules); of a later module only the features of those submodules whose index is at least the largest number
    of submodules seen so far — none at all when it has no more submodules than an earlier module. -/
theorem hash_input_partial (hcode : fiReset = false) (m : Mod) (r : List Mod) :
    hashParts (m :: r) 0 = [m.src.name] ++ (if m.src.rev.isEmpty then [] else [m.src.rev]) ++ m.enabledNames
        ++ [[implByte m]] ++ hashParts r (m.subFeats.length + 1) ∧
    ∀ (m' : Mod) (r' : List Mod) (fi : Nat), m'.subFeats.length < fi →
      hashParts (m' :: r') fi = [m'.src.name] ++ (if m'.src.rev.isEmpty then [] else [m'.src.rev]) ++ [[implByte m']]
        ++ hashParts r' fi := by
  unfold hashParts
  rw [show Generated.CtxFacts.hashFiReset = false from hcode]
  constructor
  · simp [hashPartsG, hashFeats, Mod.enabledNames, implByte]
  · intro m' r' fi hfi
    have h0 : fi ≠ 0 := by omega
    have hd : List.drop (fi - 1) m'.subFeats = [] := List.drop_eq_nil_of_le (by omega)
    have hmax : max fi (m'.subFeats.length + 1) = fi := by omega
    simp [hashPartsG, hashFeats, h0, hd, hmax, implByte]

/-- with the index restarted per module (fixes/F23.diff) the hashed parts are exactly what the documentation says:
    for every module its name, revision, all its enabled features, `implemented` -/
theorem hash_input_fixed (hcode : fiReset = true) (l : List Mod) (fi : Nat) : hashParts l fi = hashPartsSpec l := by
  unfold hashParts
  rw [show Generated.CtxFacts.hashFiReset = true from hcode]
  induction l generalizing fi with
  | nil => rfl
  | cons m r ih => simp [hashPartsG, hashPartsSpec, hashFeats, Mod.enabledNames, ih]

/-- the two contexts of the F23 witness: `aaa` (no feature enabled), `bbb` with `g1` off / on -/
def wOff : Ctx := LyModel.Ctx.Ex.runs (LyModel.Ctx.Ex.ctx0 [LyModel.Ctx.Ex.A, LyModel.Ctx.Ex.B2])
  [.parse LyModel.Ctx.Ex.A none, .parse LyModel.Ctx.Ex.B2 none]
def wOn : Ctx := LyModel.Ctx.Ex.runs (LyModel.Ctx.Ex.ctx0 [LyModel.Ctx.Ex.A, LyModel.Ctx.Ex.B2])
  [.parse LyModel.Ctx.Ex.A none, .parse LyModel.Ctx.Ex.B2 (some [LyModel.Ctx.Ex.bs "g1"])]

/-- **The statement as given is false for the pinned code (F23).**  The feature state of `bbb` is different, the hash is the
    same — the feature iterator index `fi` is not reset per module, so only the first module's features are visited. -/
theorem hash_depends_fails (hcode : fiReset = false) :
    ¬ ∀ (s s' : Ctx), s.mods.map hashView ≠ s'.mods.map hashView → s.modulesHash ≠ s'.modulesHash := by
  intro h
  have hne : wOff.mods.map hashView ≠ wOn.mods.map hashView := by
    intro heq
    have : (wOff.mods.map hashView == wOn.mods.map hashView) = true := by rw [heq]; simp
    revert this
    decide +kernel
  have h1 := h _ _ hne
  unfold Ctx.modulesHash at h1
  rw [show Generated.CtxFacts.hashFiReset = false from hcode] at h1
  -- (whether or not the internal modules are hashed in front)
  have h2 : ∀ sk : Bool, wOff.modulesHashG false sk = wOn.modulesHashG false sk := by
    intro sk; cases sk <;> decide +kernel
  exact h1 (h2 _)

/-- … and with the index restarted the two contexts of the witness are told apart -/
example : ∀ sk : Bool, wOff.modulesHashG true sk ≠ wOn.modulesHashG true sk := by
  intro sk; cases sk <;> decide +kernel

/-- the model's counter has the width of `ly_ctx.change_count` -/
example : Generated.CtxFacts.changeCountBits = 16 := by decide

/-- the shape table of the internal modules (`Ctx.internalMods`) lists the modules of `internal_modules[]` -/
example : internalMods.map (fun m => (m.src.name, m.implemented)) =
    Generated.CtxFacts.internalModules.map (fun x => (x.1.toUTF8.toList, x.2.2)) := by decide +kernel

/-! ## the internal modules and the hash (F136) -/

/-- the code as it is now: does the loop of `ly_ctx_get_modules_hash` start behind the internal modules? -/
abbrev skipsInternal : Bool := Generated.CtxFacts.hashSkipsInternal

/-- **F136, before the repair** (the loop starts at `ly_ctx_internal_modules_count()`): the hash is a function of the modules
    loaded after the internal ones alone — whatever happens to an internal module (ietf-yang-types implemented, …), it does
    not reach the hash. -/
theorem hash_ignores_internal (hcode : skipsInternal = true) (s : Ctx) : s.modulesHash = hashOfList fiReset s.mods := by
  unfold Ctx.modulesHash
  rw [show Generated.CtxFacts.hashSkipsInternal = true from hcode, modulesHashG_eq_list]
  simp [hashedMods]

/-- **F136, after the repair** (the loop starts with the first module): the hashed modules are the internal ones, then the
    others; and flipping `implemented` of any ONE internal module changes the 32-bit value, whatever the other modules are. -/
theorem hash_covers_internal (hcode : skipsInternal = false) (s : Ctx) (hw : WfNames s.mods) :
    s.modulesHash = hashOfList fiReset (internalHashMods ++ s.mods) ∧
    ∀ (pre suf : List Mod) (m : Mod), internalHashMods = pre ++ m :: suf →
      hashOfList fiReset (pre ++ m :: suf ++ s.mods) ≠ hashOfList fiReset (pre ++ flipImpl m :: suf ++ s.mods) := by
  constructor
  · unfold Ctx.modulesHash
    rw [show Generated.CtxFacts.hashSkipsInternal = false from hcode, modulesHashG_eq_list]
    simp [hashedMods]
  · intro pre suf m hi
    have hw2 : WfNames (pre ++ m :: (suf ++ s.mods)) := by
      have := wfNames_hashed (sk := false) hw
      simp only [hashedMods, Bool.false_eq_true, if_false, hi, List.append_assoc, List.cons_append] at this
      exact this
    have := hashOfList_flip fiReset pre (suf ++ s.mods) m hw2
    simpa only [List.append_assoc, List.cons_append] using this

/-- non-vacuity: the table has eight modules; `ietf-yang-types` (import-only in a new context) is one of them -/
example : internalHashMods.length = 8 ∧ (internalHashMods.any fun m => m.src.name == "ietf-yang-types".toUTF8.toList && !m.implemented) = true := by
  decide +kernel

/-! ## the counter and features in an explicit-compile context (F133) -/

open LyModel.Ctx.Ex in
/-- the F133 witness: explicit-compile context, `aaa` parsed and compiled; then `lys_set_implemented(aaa, {"f1"})` -/
def w133 (c : Cfg) : Ctx := runs (ctx0 [A] true c) [.parse A none, .compile]
open LyModel.Ctx.Ex in
def op133 : Op := .setImpl (bs "aaa", []) (some [bs "f1"])

open LyModel.Ctx.Ex in
/-- **F133, before the repair.**  `change_count` is incremented by `lys_parse_in` and `lys_compile` only: with LY_CTX_EXPLICIT_COMPILE a successful
    `lys_set_implemented(aaa, {"f1"})` changes what `lys_feature_value` and `ly_ctx_get_yanglib_data` report, and the counter
    (the recommended yang-library content-id) keeps its value until `ly_ctx_compile`. -/
theorem counter_misses_pending_feature_change (c : Cfg) (hc : c.countsImplement = false) :
    ∃ (s : Ctx) (op : Op), s.cfg = c ∧ (run s op).1.isOk = true ∧ ylGen (run s op).2 ≠ ylGen s ∧
      (run s op).2.changeCount = s.changeCount := by
  have h : ∀ c : Cfg, c.countsImplement = false → (w133 c).cfg = c ∧ (run (w133 c) op133).1.isOk = true ∧
      ylGen (run (w133 c) op133).2 ≠ ylGen (w133 c) ∧ (run (w133 c) op133).2.changeCount = (w133 c).changeCount :=
    forall_cfg (by decide +kernel)
  exact ⟨w133 c, op133, h c hc⟩

open LyModel.Ctx.Ex in
/-- **F133, after the repair** (`change_count++` in `lys_implement` and for a feature change in `_lys_set_implemented`): the same
    call is counted, and so is implementing a module in an explicit-compile context. -/
theorem counter_sees_pending_feature_change (c : Cfg) (hc : c.countsImplement = true) :
    (run (w133 c) op133).1.isOk = true ∧ ylGen (run (w133 c) op133).2 ≠ ylGen (w133 c) ∧
      (run (w133 c) op133).2.changeCount ≠ (w133 c).changeCount ∧
    (let s := (run (ctx0 [A, Top] true c) (.parse Top none)).2
     let s' := (run s (.setImpl (bs "aaa", []) none)).2
     s'.mods.map (·.implemented) ≠ s.mods.map (·.implemented) ∧ s'.changeCount ≠ s.changeCount) := by
  have h : ∀ c : Cfg, c.countsImplement = true → (run (w133 c) op133).1.isOk = true ∧ ylGen (run (w133 c) op133).2 ≠ ylGen (w133 c) ∧
      (run (w133 c) op133).2.changeCount ≠ (w133 c).changeCount ∧
      ((run ((run (ctx0 [A, Top] true c) (.parse Top none)).2) (.setImpl (bs "aaa", []) none)).2.mods.map (·.implemented) ≠
        ((run (ctx0 [A, Top] true c) (.parse Top none)).2).mods.map (·.implemented) ∧
       (run ((run (ctx0 [A, Top] true c) (.parse Top none)).2) (.setImpl (bs "aaa", []) none)).2.changeCount ≠
        ((run (ctx0 [A, Top] true c) (.parse Top none)).2).changeCount) := forall_cfg (by decide +kernel)
  exact h c hc

/-- where a successful call ends: the state after the forward part, possibly with the unres sets erased -/
private theorem run_ok {s : Ctx} {op : Op} (h : (run s op).1.isOk = true) :
    (run s op).2 = (forward op s).2 ∨ (run s op).2 = erase (forward op s).2 := by
  unfold run at h ⊢
  split at h
  · simp [Except.isOk, Except.toBool] at h
  · next hx =>
    simp only [hx]
    split at h
    · next s1 hfw =>
      simp only [hfw]
      cases op <;> dsimp only <;> (try split) <;> simp
    · simp [Except.isOk, Except.toBool] at h
      cases op <;> simp at h

/-- **F133, after the repair, in general.**  With `change_count++` in `lys_implement` and for a feature change of an
    implemented module, EVERY successful call — `lys_parse`, `ly_ctx_load_module`, `lys_set_implemented`, `ly_ctx_compile`,
    `ly_ctx_set_options`, in any context, explicit compilation or not, pending batch or not — after which the yang-library
    data of the context is different has incremented the counter … -/
theorem counter_counts_every_change (s : Ctx) (op : Op) (hcfg : s.cfg.countsImplement = true)
    (hok : (run s op).1.isOk = true) (hne : ylGen (run s op).2 ≠ ylGen s) : s.ticks < (run s op).2.ticks := by
  have hf : YT s.cfg (ylGen s) s.ticks (forward op s).2 := presYT_forward op s ⟨rfl, Nat.le_refl _, fun _ _ => rfl⟩
  have key : YT s.cfg (ylGen s) s.ticks (run s op).2 := by
    rcases run_ok hok with h | h
    · rw [h]; exact hf
    · rw [h]; exact hf.keep rfl rfl rfl
  have h1 := key.mono
  have h2 := key.same hcfg
  by_cases h3 : (run s op).2.ticks = s.ticks
  · exact absurd (h2 h3) hne
  · omega

/-- … so (fewer than 2^16 increments in one call) `ly_ctx_get_change_count` returns a different value -/
theorem change_count_differs_after_change (s : Ctx) (op : Op) (hcfg : s.cfg.countsImplement = true)
    (hok : (run s op).1.isOk = true) (hne : ylGen (run s op).2 ≠ ylGen s) (hk : (run s op).2.ticks - s.ticks < 2 ^ 16) :
    (run s op).2.changeCount ≠ s.changeCount :=
  change_count_differs s op (counter_counts_every_change s op hcfg hok hne) hk

/-! ## rebuilt from the yang-library data -/

/-- a dated revision of `bbb` -/
def B2new : ModSrc := { LyModel.Ctx.Ex.B2 with rev := LyModel.Ctx.Ex.bs "2021-03-03" }

open LyModel.Ctx.Ex in
/-- a context with imports, an augment that implements its target, and enabled features is reproduced (example) -/
example :
    let s := runs (ctx0 [A, C, E]) [.parse C none, .setImpl (bs "aaa", []) (some [bs "f1", bs "f2"]), .parse E none]
    (match ylLoad s.repo (ylGen s) with
     | .ok s2 => implView s2 == implView s
     | .error _ => false) = true := by decide +kernel

open LyModel.Ctx.Ex in
/-- **F135 (the open question F12, settled).**  `yl_roundtrip` is false as stated: a module without a revision has no
    `revision` leaf in the yang-library data, `ly_ctx_new_yldata` passes NULL, and NULL means "the newest revision the
    sources have" — with `bbb` (no revision) implemented and `bbb@2021-03-03` also among the sources, the rebuilt context
    implements the other revision. -/
theorem yl_roundtrip_fails :
    ∃ (s : Ctx), (s.mods.all fun m => s.repo.contains m.src) = true ∧
      (match ylLoad s.repo (ylGen s) with
       | .ok s2 => implView s2 != implView s
       | .error _ => false) = true :=
  ⟨runs (ctx0 [B2, B2new]) [.parse B2 none], by decide +kernel, by decide +kernel⟩

/-! ### the complete yang-library data (`module` with submodules / features / deviations, `import-only-module`, `content-id`) -/

/-- **what `ly_ctx_new_yldata` reads back** of the data `ly_ctx_get_yanglib_data` generates is name, revision and enabled features
    of the implemented modules; the `import-only-module`, `submodule` and `deviation` lists and `content-id` play no role in
    the rebuild (import-only modules come back through the imports, deviating modules through their own `module` entry) -/
theorem yl_read_back (s : Ctx) : (ylExport s).core = ylGen s := ylExport_core s

/-- what the yang-library data show of one module -/
def ylView (m : Mod) : Bytes × Bytes × Bool × List Bytes × List Bytes × List Bytes :=
  (m.src.name, m.src.rev, m.implemented, m.src.subNames, m.enabledNames, m.devBy.map (·.1))

/-- **the data are a function of the ordered module list and the counter**: two contexts (however they were built) whose module
    lists show the same names, revisions, implemented flags, submodules, enabled features and deviating modules in the same
    order, with the same change count, have the same yang-library data -/
theorem yl_export_deterministic (s s' : Ctx) (h : s'.mods.map ylView = s.mods.map ylView) (hc : s'.changeCount = s.changeCount) :
    ylExport s' = ylExport s := by
  have key : ∀ u : Ctx, ylExport u =
      { modules := ((u.mods.map ylView).filter (·.2.2.1)).map fun x =>
          { name := x.1, rev := x.2.1, subs := x.2.2.2.1, feats := x.2.2.2.2.1, devs := x.2.2.2.2.2 },
        importOnly := ((u.mods.map ylView).filter (fun x => !x.2.2.1)).map fun x => { name := x.1, rev := x.2.1, subs := x.2.2.2.1 },
        contentId := u.changeCount.toNat } := by
    intro u
    simp only [ylExport, List.filter_map, List.map_map, YlFull.mk.injEq]
    exact ⟨rfl, rfl, trivial⟩
  rw [key, key, h, hc]

/-- **what the fixpoint `ylExport (rebuilt) = ylExport (original)` says**: the same implemented modules at the same revisions with
    the same enabled features in the same order, the same deviating modules per module, the same import-only modules with
    revisions and submodules, and the same content-id -/
theorem yl_fixpoint_gives (s s2 : Ctx) (h : ylExport s2 = ylExport s) :
    implView s2 = implView s ∧
    (s2.mods.filter (·.implemented)).map (fun m => (m.key, m.src.subNames, m.devBy.map (·.1))) =
      (s.mods.filter (·.implemented)).map (fun m => (m.key, m.src.subNames, m.devBy.map (·.1))) ∧
    (s2.mods.filter (fun m => !m.implemented)).map (fun m => (m.key, m.src.subNames)) =
      (s.mods.filter (fun m => !m.implemented)).map (fun m => (m.key, m.src.subNames)) ∧
    s2.changeCount = s.changeCount := by
  have hv : ∀ u : Ctx, implView u = (ylExport u).modules.map fun e => (e.name, e.rev, e.feats) := by
    intro u; simp [implView, ylExport, ylMod, List.map_map, Function.comp_def]
  have hd : ∀ u : Ctx, (u.mods.filter (·.implemented)).map (fun m => (m.key, m.src.subNames, m.devBy.map (·.1))) =
      (ylExport u).modules.map fun e => ((e.name, e.rev), e.subs, e.devs) := by
    intro u; simp [ylExport, ylMod, List.map_map, Function.comp_def, Mod.key]
  have hi : ∀ u : Ctx, (u.mods.filter (fun m => !m.implemented)).map (fun m => (m.key, m.src.subNames)) =
      (ylExport u).importOnly.map fun e => ((e.name, e.rev), e.subs) := by
    intro u; simp [ylExport, ylImp, List.map_map, Function.comp_def, Mod.key]
  refine ⟨by rw [hv, hv, h], by rw [hd, hd, h], by rw [hi, hi, h], ?_⟩
  have := congrArg YlFull.contentId h
  simp only [ylExport] at this
  exact BitVec.eq_of_toNat_eq this

/-- `top@2018-01-01` imports `aaa` without revision-date -/
def TopD : ModSrc := { LyModel.Ctx.Ex.Top with rev := LyModel.Ctx.Ex.bs "2018-01-01" }

open LyModel.Ctx.Ex in
/-- the context of the order witness: `top` loaded while `aaa@2019-01-01` was the newest `aaa`, then `aaa@2020-01-01` appeared among
    the sources, then `aaa@2019-01-01` was implemented — context order `top`, `aaa@2019-01-01` -/
def wOrder : Ctx :=
  (run { (run (ctx0 [A19, TopD]) (.parse TopD none)).2 with repo := [A19, A20, TopD] } (.setImpl (bs "aaa", bs "2019-01-01") none)).2

open LyModel.Ctx.Ex in
/-- the same modules in the other order: `aaa@2019-01-01` implemented first, then `top` -/
def wOrder' : Ctx := runs (ctx0 [A19, A20, TopD]) [.parse A19 none, .parse TopD none]

/-- **Order effects (`yl_roundtrip` with the F135 hypothesis is still false).**  Every module carries a revision, the sources serve
    every module of the context, the yang-library data list the same two implemented modules — and the rebuild depends on their
    ORDER: `ly_ctx_new_yldata` loads the `module` entries in the order of the data and resolves the imports of an entry before the
    later entries are loaded.  With `aaa@2019-01-01` listed first, `top` (import without revision-date) is bound to it and the
    rebuilt context is the original one; with `top` listed first its import is resolved to the newest source `aaa@2020-01-01`,
    which stays in the rebuilt context as an additional import-only module: other yang-library data, another modules hash. -/
theorem yl_roundtrip_order_fails :
    (wOrder.mods.all fun m => !m.src.rev.isEmpty && wOrder.repo.contains m.src) = true ∧
    (implView wOrder').Perm (implView wOrder) ∧
    (match ylLoad wOrder'.repo (ylGen wOrder') with
     | .ok s2 => (ylExport s2).modules == (ylExport wOrder').modules && (ylExport s2).importOnly == (ylExport wOrder').importOnly
                  && s2.modulesHash == wOrder'.modulesHash
     | .error _ => false) = true ∧
    (match ylLoad wOrder.repo (ylGen wOrder) with
     | .ok s2 => implView s2 == implView wOrder && (ylExport s2).importOnly != (ylExport wOrder).importOnly
                  && s2.modulesHash != wOrder.modulesHash
     | .error _ => false) = true := by
  refine ⟨by decide +kernel, ?_, by decide +kernel, by decide +kernel⟩
  have h1 : implView wOrder' = [(Ex.bs "aaa", Ex.bs "2019-01-01", []), (Ex.bs "top", Ex.bs "2018-01-01", [])] := by decide +kernel
  have h2 : implView wOrder = [(Ex.bs "top", Ex.bs "2018-01-01", []), (Ex.bs "aaa", Ex.bs "2019-01-01", [])] := by decide +kernel
  rw [h1, h2]
  exact List.Perm.swap _ _ _

-- OPEN: yl_roundtrip_partial at full strength —
--   ∀ s, Quiescent s → (every module of s has a revision) → (s.repo serves every module of s) → (the order hypothesis: every
--     import without revision-date of a module of s resolves, at the time its importer is re-loaded in data order, to the
--     revision it is bound to in s) → no source has a fault → ∃ s2, ylLoad s.repo (ylGen s) = .ok s2 ∧ ylExport s2 = ylExport s
--     ∧ s2.modulesHash = s.modulesHash
--   Proved: what the rebuild reads (`yl_read_back`), that data and hash are functions of the ordered module view
--   (`yl_export_deterministic`, `hash_deterministic`), what the fixpoint gives (`yl_fixpoint_gives`), and that without the order
--   hypothesis the statement is false (`yl_roundtrip_order_fails`, besides `yl_roundtrip_fails` for modules without revision).
--   Evidence for the rest: `ylLoad` ≡ `ly_ctx_new_yldata` and `ylExport` ≡ `ly_ctx_get_yanglib_data` token for token on every
--   generated history (K), and the law itself evaluated on the implementation through `ly_ctx_new_ylmem` (L), tools/checks/c19.py.

end LyModel.Props.C19
