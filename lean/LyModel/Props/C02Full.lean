import LyModel.Valid.FullUniqMain
import LyModel.Valid.FullSaneB
import LyModel.Valid.LemmasPerm
import LyModel.Valid.FullOper
import LyModel.Valid.FullPermGood
import LyModel.Valid.FullExact
/-!
# C02 — validation accepts exactly the valid instances: the full schema language of the model

`Props/C02.lean` proves `validate_ok_iff_valid` / `validate_error_tag` for plain schemas (presence containers, lists, leaf-lists,
leaves).  This file states them for the FULL schema language of the model of `src/validation.c` + `lyd_new_implicit`:
`choice` / `case` in any nesting, mandatory choices, default cases, `default` on leaves and leaf-lists, non-presence containers
(mandatory descendants seen through them, as `lyd_validate_mandatory` / `lys_getnext` do), `min-elements` / `max-elements` on
(leaf-)lists inside cases, state data, `unique` statements whose targets sit inside containers / choices / cases (defaults in use) —
and `verdict_order_independent`, `operational_relaxes`, `multi_error_set_exact`.  Helper lemmas: `LyModel/Valid/Full*.lean`,
`LyModel/Valid/LemmasPerm.lean`; correspondence with the C: `tools/checks/c02.py`.

**Hypotheses** (all decidable; `FullSane` through `fullSaneB`, `fullSane_of_B`):
* the schema (`FullSane X o`, LyModel/Valid/FullPipe.lean) is what `lys_compile` lets through — on every data level the children of
  choices are cases, the data nodes have different ids (`LevelSane`); `min-elements ≤ max-elements < 2³²`; a mandatory leaf has no
  default (RFC 7950 §7.6.4), a mandatory choice no default case (§7.9.4), a leaf-list with defaults has no `min-elements` and at
  most `max-elements` default values; no mandatory node directly in a default case, and a non-presence container there has no mandatory descendant
  (§7.9.3, libyang: "Mandatory node … under the default case"); `config false` is inherited (§7.21.1).  libyang's compiler was run at
  every excluded point (DESIGN-notes/valchoice.md; law `compiler-guarantee` of tools/checks/c02.py on every run): all are refused,
  except a leaf-list with MORE default values than `max-elements`, which compiles and then makes every instance without explicit
  entries invalid (finding F320, replayed by the check; fixes/F320.diff).
* the code variant: `lyd_new_implicit` completes the case of THIS choice (`X.q.implicitInnerCase = false`, the repaired F180) and
  `lyd_validate_unique` counts a default only where it is in use (`X.q.uniqueDefaultAlways = false`, the repaired F175) — what
  `tools/extractors/valid.py` finds in the source: `Quirks.current`.
* `unique` statements (`UniqPathsOk`, `NodeLookupOk`; for the order theorem `UniqueWF`): non-empty; every leaf is found by the schema
  path (`pathTo`, with the specification's fuel and the model's) on which the flat table (`uniqChain`) and the schema tree agree, and
  a case on that path is the first of its name in its choice.
* the instance (`goodL X X.top t`) is as `lyd_new_*` / the parsers leave it: every node carries `LYD_NEW` and nothing else, is an
  instance of a data node of its level, a term node iff its schema node is a leaf / leaf-list; sibling lists shorter than 2³².
  **Excluded**: an instance that contains an EMPTY non-presence container node (it carries `LYD_DEFAULT`): the specification drops
  it (`explicitPart`) while libyang counts it as data of its case (a `<n/>` of case `a` next to data of case `b` is `DupCase`).
* options: every set without `LYD_VALIDATE_OPERATIONAL`.
-/
namespace LyModel.Props.C02
open LyModel LyModel.Tree LyModel.Valid

/-- **`validate_ok_iff_valid`, full schema language**: the instance can be built and `lyd_validate` logs no
error **iff** the instance satisfies the RFC 7950 specification `Valid` — duplicates §7.5–7.8, one case per choice §7.9, keys
§7.8.2, min/max §7.7.5–6 (also inside cases), mandatory leaf §7.6.5 and mandatory choice §7.9.4 (a case constrains only when it has
data; seen through non-presence containers), values §9, no state data under no-state.  Unbounded in the schema, the tree and the
values.  (Hypotheses: header of this file.) -/
theorem validate_ok_iff_valid_full (X : SchemaX) (o : VOpts) (hop : o.operational = false) (hq : X.q.implicitInnerCase = false)
    (hqu : X.q.uniqueDefaultAlways = false) (hl : KidsLookupOk X) (hnl : NodeLookupOk X) (hio : InfoOk X) (hs : FullSane X o)
    (hup : UniqPathsOk X) (t : List DNode)
    (hg : goodL X X.top t = true) (hlen0 : t.length ≤ uint32Max) (hh : sheightL X.top ≤ walkFuel X t) :
    (buildL X.base t = none ∧ (validate X o t).errs = []) ↔ Valid X o t :=
  validate_full_iff X o hop (uniqBridge_of_paths X o hop hq hl hio hs hqu hnl hup) hq hl hio hs t hg hlen0 hh

/-- **`validate_error_tag`, full schema language**: every error `lyd_validate` logs — the first one, which is the
verdict without `LYD_VALIDATE_MULTI_ERROR`, and every further one with it — is of a constraint family the instance violates
according to the specification (`DupCase` only where two cases of a choice have data, `NoMandChoice` / app-tag `missing-choice`
only where a mandatory choice of an existing parent or of a case with data has none, `NoMand`, `NoMin` / `NoMax`
(`too-few-elements` / `too-many-elements`), `Dup`, `UnexpState` likewise; `EKind.appTag`). -/
theorem validate_error_tag_full (X : SchemaX) (o : VOpts) (hop : o.operational = false) (hq : X.q.implicitInnerCase = false)
    (hqu : X.q.uniqueDefaultAlways = false) (hl : KidsLookupOk X) (hnl : NodeLookupOk X) (hio : InfoOk X) (hs : FullSane X o)
    (hup : UniqPathsOk X) (t : List DNode)
    (hg : goodL X X.top t = true) (hlen0 : t.length ≤ uint32Max) (hh : sheightL X.top ≤ walkFuel X t) :
    ∀ e ∈ (validate X o t).errs, e.kind ∈ violations X o t :=
  validate_full_sound X o hop (uniqBridge_of_paths X o hop hq hl hio hs hqu hnl hup) hq hl hio hs t hg hlen0 hh

/-- the witness schema `Xfull` (LyModel/Valid/FullSaneB.lean:
`container c { presence; list l { key k; leaf k; container n { choice ch { default d; case d { leaf u { default "9"; } leaf-list dl
{ default "a"; default "b"; } } case e { leaf v { mandatory true; } choice in { mandatory true; case i1 { leaf w; } case i2 {
leaf-list x { min-elements 1; max-elements 2; } } } } } } leaf m { mandatory true; } } leaf s { config false; } }`) with two `unique`
statements on the list: `unique "n/u m"` (`u`: a leaf with a default in the default case of the choice inside the non-presence
container) and `unique "n/w"` (`w`: reached through the nested choice) -/
def XfullU : SchemaX := { Xfull with uniques := [(1, [6, 15]), (1, [12])] }

/-- two list entries `l[k=1] { m = m }`, `l[k=2] { m = <mv> }`, no `n`: the default case `d` is in use in both, so `u = 9` in both -/
def tUniq (mv : UInt8) : List DNode :=
  [.inner 0 flN [] [.inner 1 flN [] [.term 2 flN [] [49], .term 15 flN [] [109]], .inner 1 flN [] [.term 2 flN [] [50], .term 15 flN [] [mv]]]]

/-- the hypotheses of the theorems for the witness schema -/
theorem full_hyps (o : VOpts) (hs : fullSaneB XfullU o = true) (t : List DNode)
    (h : (goodL XfullU XfullU.top t && decide (t.length ≤ uint32Max) && decide (sheightL XfullU.top ≤ walkFuel XfullU t)) = true) :
    XfullU.q.implicitInnerCase = false ∧ XfullU.q.uniqueDefaultAlways = false ∧ KidsLookupOk XfullU ∧ NodeLookupOk XfullU ∧
      InfoOk XfullU ∧ FullSane XfullU o ∧ UniqPathsOk XfullU ∧
      goodL XfullU XfullU.top t = true ∧ t.length ≤ uint32Max ∧ sheightL XfullU.top ≤ walkFuel XfullU t := by
  simp only [Bool.and_eq_true, decide_eq_true_eq] at h
  exact ⟨rfl, rfl, lookupOk_of_B _ (by decide), nodeLookupOk_of_B _ (by decide), infoOk_of_B _ (by decide), fullSane_of_B _ _ hs,
    uniqPathsOk_of_B _ (by decide), h.1.1, h.1.2, h.2⟩

/-- non-vacuity: the theorems instantiated on the witness schema — a list entry inside a presence container holding a non-presence
container with a choice (default case with leaf and leaf-list defaults; the other case with a mandatory leaf and a nested mandatory
choice whose second case holds a leaf-list with min / max) and a mandatory leaf.  `tFullOk` (case `e` with `v`, `x = a`; `m`) is
valid and accepted; `tFullBad1` (no `x`: the nested mandatory choice has no data; no `m`) and `tFullBad2` (`u` of case `d` next to
`v`: two cases; three `x`) are refused by both sides, the errors the model logs are of families the specification lists; under
`LYD_VALIDATE_NO_STATE` too; two entries that agree on `m` and on the default of `u` violate `unique "n/u m"` (`tUniq 109`), with
different `m` they do not (`tUniq 110`) -/
example : (buildL XfullU.base tFullOk = none ∧ (validate XfullU {} tFullOk).errs = []) ∧ Valid XfullU {} tFullOk ∧
    ¬ Valid XfullU {} tFullBad1 ∧ ¬ Valid XfullU {} tFullBad2 ∧ Valid XfullU { noState := true } tFullOk ∧
    violations XfullU {} tFullBad1 = [.noMandChoice, .noMand] ∧ violations XfullU {} tFullBad2 = [.dupCase, .noMax] ∧
    ((validate XfullU {} tFullBad1).errs.map (·.kind)) = [.noMand, .noMandChoice] ∧
    ((validate XfullU {} tFullBad2).errs.map (·.kind)) = [.dupCase] ∧
    (∀ e ∈ (validate XfullU {} tFullBad1).errs, e.kind ∈ violations XfullU {} tFullBad1) ∧
    violations XfullU {} (tUniq 109) = [.noUniq] ∧ ((validate XfullU {} (tUniq 109)).errs.map (·.kind)) = [.noUniq] ∧
    (buildL XfullU.base (tUniq 110) = none ∧ (validate XfullU {} (tUniq 110)).errs = []) :=
  have H : ∀ (o : VOpts) (t : List DNode), o.operational = false → fullSaneB XfullU o = true →
      (goodL XfullU XfullU.top t && decide (t.length ≤ uint32Max) && decide (sheightL XfullU.top ≤ walkFuel XfullU t)) = true →
      ((buildL XfullU.base t = none ∧ (validate XfullU o t).errs = []) ↔ Valid XfullU o t) := fun o t hop hs h => by
    obtain ⟨h1, h2, h3, h4, h5, h6, h7, h8, h9, h10⟩ := full_hyps o hs t h
    exact validate_ok_iff_valid_full XfullU o hop h1 h2 h3 h4 h5 h6 h7 t h8 h9 h10
  ⟨(H {} tFullOk rfl (by decide) (by decide)).2 (by decide),
   (H {} tFullOk rfl (by decide) (by decide)).1 (by decide),
   fun h => absurd ((H {} tFullBad1 rfl (by decide) (by decide)).2 h).2 (by decide),
   fun h => absurd ((H {} tFullBad2 rfl (by decide) (by decide)).2 h).2 (by decide),
   (H { noState := true } tFullOk rfl (by decide) (by decide)).1 (by decide),
   by decide, by decide, by decide, by decide,
   by
    obtain ⟨h1, h2, h3, h4, h5, h6, h7, h8, h9, h10⟩ := full_hyps {} (by decide) tFullBad1 (by decide)
    exact validate_error_tag_full XfullU {} rfl h1 h2 h3 h4 h5 h6 h7 tFullBad1 h8 h9 h10,
   by decide, by decide,
   (H {} (tUniq 110) rfl (by decide) (by decide)).2 (by decide)⟩

/-! ## the verdict does not depend on the order of the siblings -/

/-- **`verdict_order_independent`**: for two instances that differ only in the order of sibling instances at any depth
(`TreePerm`: generated by swapping adjacent siblings that are not list keys — libyang keeps the keys of a list entry first, in
schema order —, at the top level or among the children of any node), the first as the builders / parsers leave it (then so is the second:
`goodL_perm`): libyang's verdict
— the instance can be built and `lyd_validate` logs no error — is the same.  Proof: `validate_ok_iff_valid_full` on both sides,
and the specification `Valid` is invariant under `TreePerm` (`valid_perm_keysFirst`, LyModel/Valid/LemmasPerm.lean: every
constraint family of the specification is permutation invariant — instance counts, pairwise-different keys / values, cases with
data, the recursion into the instances, and the `unique` tuples, whose `find?` by schema id is order independent inside a valid
entry (`UniqueWF`: every leaf a `unique` statement names is a leaf and the choices on the way have only cases as children) —; `KeysFirst`: the key leaves of a list are its first schema children, decidable
`keysFirstB`). -/
theorem verdict_order_independent (X : SchemaX) (o : VOpts) (hop : o.operational = false) (hq : X.q.implicitInnerCase = false)
    (hqu : X.q.uniqueDefaultAlways = false) (hl : KidsLookupOk X) (hnl : NodeLookupOk X) (hio : InfoOk X) (hs : FullSane X o)
    (hup : UniqPathsOk X) (hw : UniqueWF X) (hk : KeysFirst X.base)
    (t t' : List DNode) (hp : TreePerm X.base t t')
    (hg : goodL X X.top t = true) (hlen0 : t.length ≤ uint32Max) (hh : sheightL X.top ≤ walkFuel X t) :
    (buildL X.base t = none ∧ (validate X o t).errs = []) ↔ (buildL X.base t' = none ∧ (validate X o t').errs = []) := by
  have hg' : goodL X X.top t' = true := goodL_perm X hp hg
  have hlen0' : t'.length ≤ uint32Max := by rw [length_perm hp]; exact hlen0
  have hh' : sheightL X.top ≤ walkFuel X t' := by rw [walkFuel_perm X hp]; exact hh
  rw [validate_ok_iff_valid_full X o hop hq hqu hl hnl hio hs hup t hg hlen0 hh,
    validate_ok_iff_valid_full X o hop hq hqu hl hnl hio hs hup t' hg' hlen0' hh']
  exact valid_perm_keysFirst X o hw hk hp

/-- `tFullOk` with the mandatory leaf `m` in front of the container `n`, and `x` in front of `v` inside it -/
def tFullOkPerm : List DNode :=
  [.inner 0 flN [] [.inner 1 flN [] [.term 2 flN [] [49], .term 15 flN [] [109], .inner 3 flN [] [.term 14 flN [] [97], .term 9 flN [] [118]]]]]

/-- `tFullBad2` with `v` in front of `u` -/
def tFullBad2Perm : List DNode :=
  fullEntry [.term 9 flN [] [118], .term 6 flN [] [57], .term 14 flN [] [97], .term 14 flN [] [98], .term 14 flN [] [99]] [.term 15 flN [] [109]]

/-- non-vacuity: the permuted valid tree is accepted, the permuted invalid one refused, by the theorem from the verdicts on the
originals (the hypotheses hold: `KeysFirst`, `TreePerm` by the swaps spelled out) -/
example : KeysFirst XfullU.base ∧ TreePerm XfullU.base tFullOk tFullOkPerm ∧
    (buildL XfullU.base tFullOkPerm = none ∧ (validate XfullU {} tFullOkPerm).errs = []) ∧
    ¬ (buildL XfullU.base tFullBad2Perm = none ∧ (validate XfullU {} tFullBad2Perm).errs = []) := by
  have hk : KeysFirst XfullU.base := keysFirst_of_keysFirstB _ (by decide)
  have hp1 : TreePerm XfullU.base tFullOk tFullOkPerm := by
    unfold tFullOk tFullOkPerm fullEntry
    refine .kids _ _ _ _ (.kids _ _ _ _ (.cons _ ?_))
    refine .trans (b := [.inner 3 flN [] [.term 14 flN [] [97], .term 9 flN [] [118]], .term 15 flN [] [109]]) ?_ ?_
    · exact .kids _ _ _ _ (.swap _ _ _ (by decide) (by decide))
    · exact .swap _ _ _ (by decide) (by decide)
  have hp2 : TreePerm XfullU.base tFullBad2 tFullBad2Perm := by
    unfold tFullBad2 tFullBad2Perm fullEntry
    exact .kids _ _ _ _ (.kids _ _ _ _ (.cons _ (.kids _ _ _ _ (.swap _ _ _ (by decide) (by decide)))))
  have V : ∀ (t t' : List DNode), TreePerm XfullU.base t t' →
      (goodL XfullU XfullU.top t && decide (t.length ≤ uint32Max) && decide (sheightL XfullU.top ≤ walkFuel XfullU t)) = true →
      ((buildL XfullU.base t = none ∧ (validate XfullU {} t).errs = []) ↔ (buildL XfullU.base t' = none ∧ (validate XfullU {} t').errs = [])) :=
    fun t t' hp h => by
      obtain ⟨h1, h2, h3, h4, h5, h6, h7, h8, h9, h10⟩ := full_hyps {} (by decide) t h
      exact verdict_order_independent XfullU {} rfl h1 h2 h3 h4 h5 h6 h7 (by decide) hk t t' hp h8 h9 h10
  exact ⟨hk, hp1, (V _ _ hp1 (by decide)).1 (by decide),
    fun h => absurd ((V _ _ hp2 (by decide)).2 h).2 (by decide)⟩

/-! ## `LYD_VALIDATE_OPERATIONAL` only downgrades -/

/-- **`operational_relaxes`** (every schema of the model, every option set, EVERY tree — no hypothesis): `LYD_VALIDATE_OPERATIONAL`
does not change what validation does to the tree (same resulting tree, same change set); the errors it logs are a sublist, in
order, of the errors logged without it; it never reports `NoMin` / `NoMax` / `NoUniq` / `NoMand` / `NoMandChoice` (`downgraded`:
in the C these become warnings, `LY_VAL_ERR_GOTO` is not taken); and what disappears is one of those or a `Dup` (duplicate list /
leaf-list instances, `lyd_validate_duplicates`). -/
theorem operational_relaxes (X : SchemaX) (o : VOpts) (t : List DNode) :
    (validate X (o.oper true) t).tree = (validate X (o.oper false) t).tree ∧
    (validate X (o.oper true) t).evs = (validate X (o.oper false) t).evs ∧
    (validate X (o.oper true) t).errs.Sublist (validate X (o.oper false) t).errs ∧
    (∀ e ∈ (validate X (o.oper true) t).errs, downgraded e.kind = false) ∧
    (∀ e ∈ (validate X (o.oper false) t).errs, e ∉ (validate X (o.oper true) t).errs → downgraded e.kind = true ∨ e.kind = .dup) :=
  LyModel.Valid.operational_relaxes X o t

/-- hence, with `validate_ok_iff_valid_full`: a valid instance is accepted under `LYD_VALIDATE_OPERATIONAL` too -/
theorem operational_accepts_valid (X : SchemaX) (o : VOpts) (hop : o.operational = false) (hq : X.q.implicitInnerCase = false)
    (hqu : X.q.uniqueDefaultAlways = false) (hl : KidsLookupOk X) (hnl : NodeLookupOk X) (hio : InfoOk X) (hs : FullSane X o)
    (hup : UniqPathsOk X) (t : List DNode)
    (hg : goodL X X.top t = true) (hlen0 : t.length ≤ uint32Max) (hh : sheightL X.top ≤ walkFuel X t) (hv : Valid X o t) :
    (validate X (o.oper true) t).errs = [] := by
  have ho : o.oper false = o := by cases o; simp [VOpts.oper] at hop ⊢; exact hop
  apply operational_accepts X o t
  rw [ho]
  exact ((validate_ok_iff_valid_full X o hop hq hqu hl hnl hio hs hup t hg hlen0 hh).2 hv).2

/-- non-vacuity: on `tFullBad1` (nested mandatory choice without data, missing mandatory leaf) the operational run logs nothing and
returns the same tree; on `tFullBad2` (two cases) `DupCase` stays; the valid `tFullOk` is accepted by the theorem -/
example : (validate XfullU { operational := true } tFullBad1).errs = [] ∧
    (validate XfullU { operational := true } tFullBad1).tree = (validate XfullU {} tFullBad1).tree ∧
    ((validate XfullU { operational := true } tFullBad2).errs.map (·.kind)) = [.dupCase] ∧
    (validate XfullU { operational := true } tFullOk).errs = [] := by
  refine ⟨by decide, (operational_relaxes XfullU {} tFullBad1).1, by decide, ?_⟩
  obtain ⟨h1, h2, h3, h4, h5, h6, h7, h8, h9, h10⟩ := full_hyps {} (by decide) tFullOk (by decide)
  exact operational_accepts_valid XfullU {} rfl h1 h2 h3 h4 h5 h6 h7 tFullOk h8 h9 h10 (by decide)

/-! ## `LYD_VALIDATE_MULTI_ERROR`: which families are reported -/

/-- **`multi_error_set_exact`**: for a buildable instance in which no choice has data of two cases, the families of the errors
`lyd_validate` logs under `LYD_VALIDATE_MULTI_ERROR` (the model's error list; without the option libyang stops at its head) are
EXACTLY the constraint families the instance violates: `K` is violated iff some logged error has kind `K`.  (Same hypotheses as
`validate_ok_iff_valid_full`; `→` is the kind-exact completeness `level_main_exact`, `←` is `validate_error_tag_full`.) -/
theorem multi_error_set_exact (X : SchemaX) (o : VOpts) (hop : o.operational = false) (hq : X.q.implicitInnerCase = false)
    (hqu : X.q.uniqueDefaultAlways = false) (hl : KidsLookupOk X) (hnl : NodeLookupOk X) (hio : InfoOk X) (hs : FullSane X o)
    (hup : UniqPathsOk X) (t : List DNode)
    (hg : goodL X X.top t = true) (hlen0 : t.length ≤ uint32Max) (hh : sheightL X.top ≤ walkFuel X t)
    (hb : buildL X.base t = none) (hdc : EKind.dupCase ∉ violations X o t) (K : EKind) :
    K ∈ violations X o t ↔ ∃ e ∈ (validate X o t).errs, e.kind = K :=
  validate_multi_exact X o hop (uniqBridge_of_paths X o hop hq hl hio hs hqu hnl hup) hq hl hio hs t hg hlen0 hh hb hdc K

/-- the hypothesis "no choice has data of two cases" is needed: with two cases the final checks descend into the first case only
(`lyd_validate_siblings_schema_r`: "find the existing case … validate only this case"), so a violation inside the other case is
not reported — `tFullBad2` violates `DupCase` and `NoMax`, and only `DupCase` is logged (also by libyang: same error list in the
correspondence) -/
theorem multi_error_set_exact_needs_one_case :
    ¬ ∀ (K : EKind), K ∈ violations XfullU { multiError := true } tFullBad2 →
      ∃ e ∈ (validate XfullU { multiError := true } tFullBad2).errs, e.kind = K := by
  intro h
  have hv : violations XfullU { multiError := true } tFullBad2 = [.dupCase, .noMax] := by decide
  obtain ⟨e, he, hk⟩ := h .noMax (by rw [hv]; simp)
  have : ∀ e ∈ (validate XfullU { multiError := true } tFullBad2).errs, e.kind ≠ .noMax := by decide
  exact this e he hk

/-- non-vacuity: `tFullBad1` violates `NoMandChoice` and `NoMand`, both are logged, nothing else -/
example : (∀ K, K ∈ violations XfullU {} tFullBad1 ↔ ∃ e ∈ (validate XfullU {} tFullBad1).errs, e.kind = K) ∧
    (∃ e ∈ (validate XfullU {} tFullBad1).errs, e.kind = .noMandChoice) ∧ EKind.dupCase ∉ violations XfullU {} tFullBad1 := by
  obtain ⟨h1, h2, h3, h4, h5, h6, h7, h8, h9, h10⟩ := full_hyps {} (by decide) tFullBad1 (by decide)
  have hv : violations XfullU {} tFullBad1 = [.noMandChoice, .noMand] := by decide
  have hdc : EKind.dupCase ∉ violations XfullU {} tFullBad1 := by rw [hv]; simp
  have H := multi_error_set_exact XfullU {} rfl h1 h2 h3 h4 h5 h6 h7 tFullBad1 h8 h9 h10 (by decide) hdc
  exact ⟨H, (H .noMandChoice).1 (by rw [hv]; simp), hdc⟩

/-! ## the source tree at hand -/

/-- **the variant of the code the check runs against is the one the theorems speak about**: the two facts `tools/extractors/valid.py`
reads off `src/tree_data_new.c` / `src/validation.c` (`Generated/ValidConsts.lean`) — `lyd_new_implicit` completes the case of the
choice it is working on (F180 repaired), `lyd_validate_unique` uses a leaf's default only where it is in use (F175 repaired).  When
one of them stops holding in the source this theorem, and with it `validate_ok_iff_valid_current`, stops building, and the check
reports a broken proof obligation. -/
theorem current_source_is_repaired :
    Quirks.current.implicitInnerCase = false ∧ Quirks.current.uniqueDefaultAlways = false := by decide

/-- **`validate_ok_iff_valid_full` for the schemas the driver builds** (`SchemaX.ofSchema` / `SchemaX.ofHex`: `q := Quirks.current`),
i.e. for the model exactly as `tools/checks/c02.py` compares it with libyang on every run -/
theorem validate_ok_iff_valid_current (S : Schema) (u : List (Nat × List Nat)) (o : VOpts) (hop : o.operational = false)
    (hl : KidsLookupOk (SchemaX.ofSchema S u)) (hnl : NodeLookupOk (SchemaX.ofSchema S u)) (hio : InfoOk (SchemaX.ofSchema S u))
    (hs : FullSane (SchemaX.ofSchema S u) o) (hup : UniqPathsOk (SchemaX.ofSchema S u)) (t : List DNode)
    (hg : goodL (SchemaX.ofSchema S u) (SchemaX.ofSchema S u).top t = true) (hlen0 : t.length ≤ uint32Max)
    (hh : sheightL (SchemaX.ofSchema S u).top ≤ walkFuel (SchemaX.ofSchema S u) t) :
    (buildL S t = none ∧ (validate (SchemaX.ofSchema S u) o t).errs = []) ↔ Valid (SchemaX.ofSchema S u) o t :=
  validate_ok_iff_valid_full (SchemaX.ofSchema S u) o hop current_source_is_repaired.1 current_source_is_repaired.2 hl hnl hio hs hup t hg hlen0 hh

/-- non-vacuity: the witness schema as the driver builds it -/
example : (buildL Sfull tFullOk = none ∧ (validate (SchemaX.ofSchema Sfull [(1, [6, 15]), (1, [12])]) {} tFullOk).errs = []) ↔
    Valid (SchemaX.ofSchema Sfull [(1, [6, 15]), (1, [12])]) {} tFullOk :=
  validate_ok_iff_valid_current Sfull _ {} rfl (lookupOk_of_B _ (by decide)) (nodeLookupOk_of_B _ (by decide)) (infoOk_of_B _ (by decide))
    (fullSane_of_B _ _ (by decide)) (uniqPathsOk_of_B _ (by decide)) tFullOk (by decide) (by decide) (by decide)

end LyModel.Props.C02
