import LyModel.XPath.LemmasYang
namespace LyModel.Props.C08Yang
end LyModel.Props.C08Yang
