import LyModel.XPath.LemmasYang
import LyModel.XPath.LemmasYangInst
/-!
# C08 — the XPath functions of RFC 7950 §10 and the type-aware comparison  (engine `LyModel.XPath`, `Yang.lean` / `Eval.lean`)

Every statement is about `callFn` / `compare` of the independent XPath engine, i.e. about what the differential check of
`tools/checks/c08.py` compares with `lyd_eval_xpath4` on every run.  Schema knowledge (`Env.facts`) is derived by the python side
from the YANG text of the test modules.  Identity derivation is `Val.Ident.Derived` (the transitive closure of the `base`
statements, RFC 7950 §7.18.2), regular-expression matching is the denotation `XsdRe.Regex.L` of the XSD pattern (property C18),
canonical forms are those of the value models of property C03.
-/
namespace LyModel.Props.C08Yang
open LyModel LyModel.XPath

section
variable {N : Type} [XNum N]

/-- RFC 7950 §10.4.1 `derived-from(nodes, identity)`: true iff SOME node of the set is an identityref terminal whose identity is
derived from the named identity — `Derived` is the transitive closure of the `base` statements, so the identity itself does not count
(`derived_irreflexive`).  Nodes of any other kind (text nodes, the root, inner nodes, terminals of other types) are skipped. -/
theorem derived_from_iff (env : Env) (cx : Cx) (hwf : env.facts.idctx.WF) (l : List Ref) (name : Value N) (id : Yang.Idn)
    (hid : Yang.lookupIdent env.facts env.curMod (name.toStr env) = .ok id) :
    ∃ b, callFn env cx "derived-from" [.ns l, name] = .ok (.bool b) ∧
      (b = true ↔ ∃ x ∈ l, ∃ e, env.doc.elem? x = some e ∧ e.term = true ∧ e.btype = "identityref".toUTF8.toList ∧
        Val.Ident.Derived env.facts.idctx id (Yang.identOfValue e.mod e.value)) := by
  refine ⟨Yang.derivedAny env.facts env.doc false id l, ?_, ?_⟩
  · rw [callFn_derived_from]; simp only [derivedFn, hid]; rfl
  · rw [derivedAny_iff _ hwf]; simp

/-- RFC 7950 §10.4.2 `derived-from-or-self`: as `derived-from`, or the identity of the node IS the named identity. -/
theorem derived_from_or_self_iff (env : Env) (cx : Cx) (hwf : env.facts.idctx.WF) (l : List Ref) (name : Value N) (id : Yang.Idn)
    (hid : Yang.lookupIdent env.facts env.curMod (name.toStr env) = .ok id) :
    ∃ b, callFn env cx "derived-from-or-self" [.ns l, name] = .ok (.bool b) ∧
      (b = true ↔ ∃ x ∈ l, ∃ e, env.doc.elem? x = some e ∧ e.term = true ∧ e.btype = "identityref".toUTF8.toList ∧
        (id = Yang.identOfValue e.mod e.value ∨ Val.Ident.Derived env.facts.idctx id (Yang.identOfValue e.mod e.value))) := by
  refine ⟨Yang.derivedAny env.facts env.doc true id l, ?_, ?_⟩
  · rw [callFn_derived_from_or_self]; simp only [derivedFn, hid]; rfl
  · rw [derivedAny_iff _ hwf]; simp

/-- "derived from" is irreflexive in an acyclic identity set: `derived-from` never holds because of the identity itself -/
theorem derived_irreflexive (c : Val.Ident.IdCtx) (hwf : c.WF) (i : Yang.Idn) : ¬ Val.Ident.Derived c i i := by
  obtain ⟨rank, _, hr⟩ := hwf
  intro h
  exact Nat.lt_irrefl _ (Val.Ident.derived_rank hr h)

/-- the identity argument: a prefix must be an implemented module, otherwise the call is an error, whatever the node-set is -/
theorem derived_from_unknown_module (env : Env) (cx : Cx) (self : Bool) (l : List Ref) (name : Value N)
    (hid : Yang.lookupIdent env.facts env.curMod (name.toStr env) = .noModule) :
    callFn env cx "derived-from" [.ns l, name] = .error .noModule := by
  rw [callFn_derived_from]; simp only [derivedFn, hid]; rfl

end

/-! non-vacuity: `base ← a ← b`, a document `<idr>m:b</idr>`; `derived-from(/idr, 'm:base')` and `derived-from-or-self(/idr, 'm:b')` hold,
`derived-from(/idr, 'm:b')` does not -/
private def exM : Bytes := [0x6d]
private def exCtx : Val.Ident.IdCtx :=
  { defs := [⟨⟨exM, [0]⟩, []⟩, ⟨⟨exM, [1]⟩, [⟨exM, [0]⟩]⟩, ⟨⟨exM, [2]⟩, [⟨exM, [1]⟩]⟩] }
private theorem exCtx_wf : exCtx.WF := ⟨fun i => (i.name.headD 0).toNat, by decide, by decide⟩
private def exEnv : Env :=
  { doc := ⟨#[⟨0, exM, [0x69], true, exM ++ [58, 2], "identityref".toUTF8.toList⟩]⟩, q := {}, cur := 0,
    facts := { mods := [exM], idctx := exCtx } }
example : Yang.lookupIdent exEnv.facts exEnv.curMod (exM ++ [58, 0]) = .ok ⟨exM, [0]⟩ := by decide
example : ∃ x ∈ [2], ∃ e, exEnv.doc.elem? x = some e ∧ e.term = true ∧ e.btype = "identityref".toUTF8.toList ∧
    Val.Ident.Derived exEnv.facts.idctx ⟨exM, [1]⟩ (Yang.identOfValue e.mod e.value) := by
  refine ⟨2, by simp, ⟨0, exM, [0x69], true, exM ++ [58, 2], "identityref".toUTF8.toList⟩, by rfl, rfl, rfl, ?_⟩
  exact .direct ⟨⟨⟨exM, [2]⟩, [⟨exM, [1]⟩]⟩, by decide, by decide, by decide⟩
example : exEnv.facts.idctx.WF := exCtx_wf

section
variable {N : Type} [XNum N]

/-- RFC 7950 §10.6.1 `enum-value(nodes)`: the integer assigned to the enum of the FIRST node in document order when that node is a
terminal whose type is an enumeration (`#enum` fact for its schema node) — and NaN in every other case (empty set, other node). -/
theorem enum_value_spec (env : Env) (cx : Cx) (l : List Ref) :
    ∃ n : N, callFn env cx "enum-value" [.ns l] = .ok (.num n) ∧
      (∀ v, (∃ x rest e items, l = x :: rest ∧ env.doc.elem? x = some e ∧ e.term = true ∧
                env.facts.enums.lookup (env.doc.spath x) = some items ∧ items.lookup e.value = some v) → n = XNum.ofInt v) ∧
      ((¬ ∃ v x rest e items, l = x :: rest ∧ env.doc.elem? x = some e ∧ e.term = true ∧
                env.facts.enums.lookup (env.doc.spath x) = some items ∧ items.lookup e.value = some v) → n = XNum.nan) := by
  refine ⟨_, callFn_enum_value env cx l, ?_, ?_⟩
  · intro v h
    rw [(enumValue_eq_some env.facts env.doc l v).mpr h]
  · intro h
    cases hv : Yang.enumValue env.facts env.doc l with
    | none => rfl
    | some v => exact absurd ⟨v, (enumValue_eq_some _ _ _ _).mp hv⟩ h

/-- RFC 7950 §10.6.2 `bit-is-set(nodes, bit)`: the first node is a `bits` terminal and the name is one of the set bits -/
theorem bit_is_set_spec (env : Env) (cx : Cx) (l : List Ref) (b : Value N) :
    ∃ r, callFn env cx "bit-is-set" [.ns l, b] = .ok (.bool r) ∧
      (r = true ↔ ∃ x rest e, l = x :: rest ∧ env.doc.elem? x = some e ∧ e.term = true ∧ e.btype = "bits".toUTF8.toList ∧
        b.toStr env ∈ Str.words e.value) := by
  refine ⟨_, callFn_bit_is_set env cx l b, ?_⟩
  unfold Yang.bitIsSet
  cases l with
  | nil => simp
  | cons x rest =>
    cases he : env.doc.elem? x with
    | none => simp [he]
    | some e => simp [he, Bool.and_eq_true, and_assoc]

/-- RFC 7950 §10.2.1 `re-match(string, pattern)`: for a pattern that is an XSD regular expression and a UTF-8 string, the result is
membership of the WHOLE string in the language of the pattern (`XsdRe.Regex.L`, the denotational semantics of property C18). -/
theorem re_match_iff (env : Env) (cx : Cx) (a b : Value N) (pat : XsdRe.Pat) (cs : List Char)
    (hp : XsdRe.parseXsd (b.toStr env) = .ok pat) (hs : XsdRe.decodeUtf8 (a.toStr env) = some cs) :
    ∃ r, callFn env cx "re-match" [a, b] = .ok (.bool r) ∧ (r = true ↔ XsdRe.Regex.L pat.toRegex cs) := by
  refine ⟨pat.toRegex.matches cs, ?_, XsdRe.Regex.matches_iff_L cs pat.toRegex⟩
  rw [callFn_re_match]; simp only [Yang.reMatch, hp, hs]

/-- a pattern that is no XSD regular expression is an error (LY_EVALID), not `false` -/
theorem re_match_bad_pattern (env : Env) (cx : Cx) (a b : Value N) (e : XsdRe.ReErr)
    (hp : XsdRe.parseXsd (b.toStr env) = .error e) : callFn env cx "re-match" [a, b] = .error .valid := by
  rw [callFn_re_match]; simp only [Yang.reMatch, hp]

/-- RFC 7950 §10.3.1 `deref(nodes)` on a leafref (XPath 1.0 reading, switch F354 off): the result is a node-set in document order
containing exactly the nodes that the leafref's path selects from the first node AND that are terminals holding the same value. -/
theorem deref_leafref_spec (env : Env) (cx : Cx) (hq : env.q.derefErr = false) (x : Ref) (rest : List Ref) (e : Elem)
    (abs : Bool) (steps : List (Axis × Test))
    (he : env.doc.elem? x = some e) (ht : e.term = true) (hl : env.facts.lrefs.lookup (env.doc.spath x) = some (abs, steps)) :
    ∃ r, callFn (N := N) env cx "deref" [.ns (x :: rest)] = .ok (.ns r) ∧ IsNodeSet r ∧
      ∀ y, y ∈ r ↔ y ∈ env.all ∧ y ∈ env.walk steps [if abs then 0 else x] ∧
        ∃ t, env.doc.elem? y = some t ∧ t.term = true ∧ t.value = e.value := by
  let ts := (env.walk steps [if abs then 0 else x]).filter fun y =>
      match env.doc.elem? y with
      | some t => t.term && t.value == e.value
      | none => false
  have hts : env.leafrefTargets x = some ts := by
    simp only [Env.leafrefTargets, he, ht, if_true, hl] <;> rfl
  refine ⟨env.norm ts, ?_, env.norm_isNodeSet _, ?_⟩
  · rw [callFn_deref, derefAny_leafref env x rest _ hts, derefFn_leafref env x rest _ hts]; simp [hq]
  · intro y
    unfold Env.norm
    rw [mem_mkNs, List.mem_filter]
    simp only [Env.all]
    constructor
    · rintro ⟨h1, h2, h3⟩
      refine ⟨h1, h2, ?_⟩
      cases hy : env.doc.elem? y with
      | none => simp [hy] at h3
      | some t => simp only [hy, Bool.and_eq_true, beq_iff_eq] at h3; exact ⟨t, rfl, h3.1, h3.2⟩
    · rintro ⟨h1, h2, t, hy, h3, h4⟩
      refine ⟨h1, h2, ?_⟩
      simp [hy, h3, h4]

/-- what libyang does instead when no such node exists (switch F354 on): the evaluation fails -/
theorem deref_leafref_dangling (env : Env) (cx : Cx) (hq : env.q.derefErr = true) (x : Ref) (rest : List Ref)
    (h : env.leafrefTargets x = some []) : callFn (N := N) env cx "deref" [.ns (x :: rest)] = .error .inval := by
  rw [callFn_deref, derefAny_leafref env x rest _ h, derefFn_leafref env x rest _ h]; simp [hq]

/-- the path of a leafref (`Env.walk`, used by `deref`) selects exactly what the same predicate-free location path selects when it is
written in an expression (`evalSteps`, XPath 1.0 step semantics) -/
theorem deref_path_is_location_path (env : Env) (hq : env.q.predMerged = false) (steps : List (Axis × Test)) (s : List Ref) :
    evalSteps (N := N) env (steps.map fun p => .mk p.1 p.2 []) s = .ok (env.walk steps s) :=
  walk_eq_evalSteps env hq steps s

example {N : Type} [XNum N] (env : Env) (hq : env.q.predMerged = false) (x : Ref) :
    evalSteps (N := N) env [.mk .parent .node [], .mk .child (.name none [0x74]) []] [x] =
      .ok (env.walk [(.parent, .node), (.child, .name none [0x74])] [x]) :=
  deref_path_is_location_path env hq [(.parent, .node), (.child, .name none [0x74])] [x]

/-- RFC 7950 §10.1.1 `current()`: the initial context node of the whole expression, whatever the context (node, position, size) of
the place where it is called -/
theorem current_spec (env : Env) (cx : Cx) : eval (N := N) env (.fn "current" []) cx = .ok (.ns [env.cur]) := by
  rw [eval]; simp only [evalArgs, bind, Except.bind, pure, Except.pure]; exact callFn_current env cx

/-- `set_comp_canonize` (finding F355, switch `canonStr` on): a node compared with a string by `=` is compared with the CANONICAL
form of the string in the node's type exactly when the type plug-in accepts the string, and with the string itself otherwise. -/
theorem comp_canonize_spec (env : Env) (hq : env.q.canonStr = true) (x : Ref) (e : Elem) (ty : Val.Ty) (s : Bytes)
    (he : env.doc.elem? x = some e) (ht : e.term = true) (hty : env.facts.types.lookup (env.doc.spath x) = some (.val ty)) :
    (compare (N := N) env .eq (.ns [x]) (.str s) = true ↔
      (∃ v, Val.store ty Generated.LYD_HINT_DATA s = .ok v ∧ env.strValue x = Val.canon ty v) ∨
      ((∀ v, Val.store ty Generated.LYD_HINT_DATA s ≠ .ok v) ∧ env.strValue x = s)) := by
  rw [compare_canon_single env hq]
  have hc : env.canonFor x s = Yang.canonize env.facts e.mod (.val ty) s := by simp only [Env.canonFor, he, ht, if_true, hty]
  rw [hc, beq_iff_eq]
  show (env.strValue x = (match Val.store ty Generated.LYD_HINT_DATA s with | .ok v => Val.canon ty v | .error _ => s)) ↔ _
  cases Val.store ty Generated.LYD_HINT_DATA s with
  | ok v => simp
  | error er => simp

/-- XPath 1.0 §3.4 (every switch off): the string-value is compared with the string as it is -/
theorem comp_rec_spec (env : Env) (hq : env.q.canonStr = false) (hb : env.q.nsBool = false) (x : Ref) (s : Bytes) :
    (compare (N := N) env .eq (.ns [x]) (.str s) = true ↔ env.strValue x = s) := by
  rw [compare_nocanon_single env hq hb, beq_iff_eq]

/-- when no node of the operands has a canoniser (no typed terminals) the canonising comparison IS libyang's plain `moveto_op_comp`,
about which `Props.C08.compare_table_partial` speaks -/
theorem comp_canonize_conservative (c : Comp.Cfg) (op : BinOp) (l : List Bytes) (o : Comp.Opnd N) (sw : Bool) :
    Comp.CZ.nsScalar c op (l.map fun s => ⟨s, fun t => t⟩) o sw = Comp.C.nsScalar c op l o sw := CZ_nsScalar_id c op l o sw

end

/-! non-vacuity of the remaining statements: `<e>a</e>` with `enum a = 7`; `<b>x z</b>` of type bits; `re-match('aa', 'a*')`;
a leafref `<r>v</r>` with path `../t` next to `<t>v</t>`; `current()` -/
private def exEnvE : Env :=
  { doc := ⟨#[⟨0, exM, [0x65], true, [0x61], []⟩, ⟨0, exM, [0x62], true, [0x78, 0x20, 0x7a], "bits".toUTF8.toList⟩,
              ⟨0, exM, [0x72], true, [0x76], []⟩, ⟨0, exM, [0x74], true, [0x76], []⟩]⟩, q := {}, cur := 2,
    facts := { mods := [exM], enums := [([0x2f, 0x6d, 0x3a, 0x65], [([0x61], 7)])],
               lrefs := [([0x2f, 0x6d, 0x3a, 0x72], (false, [(.parent, .node), (.child, .name none [0x74])]))] } }
example : Yang.enumValue exEnvE.facts exEnvE.doc [2] = some 7 := by rfl
example : Yang.enumValue exEnvE.facts exEnvE.doc [4] = none := by rfl
example : ∃ x rest e, [4] = x :: rest ∧ exEnvE.doc.elem? x = some e ∧ e.term = true ∧ e.btype = "bits".toUTF8.toList ∧
    [0x7a] ∈ Str.words e.value :=
  ⟨4, [], ⟨0, exM, [0x62], true, [0x78, 0x20, 0x7a], "bits".toUTF8.toList⟩, rfl, by rfl, rfl, rfl, by decide⟩
example : Yang.reMatch [0x61, 0x61] [0x61, 0x2a] = some true := by rfl
example : Yang.reMatch [0x61, 0x62] [0x61, 0x2a] = some false := by rfl
example : exEnvE.leafrefTargets 6 = some [8] := by rfl
example {N : Type} [XNum N] : eval (N := N) exEnvE (.fn "current" []) ⟨8, 3, 4⟩ = .ok (.ns [2]) := current_spec _ _

/-! non-vacuity and the deviation itself: `<n>5</n>` of type int32; `/n = '05'` is true with the switch on and false in XPath 1.0 -/
private def exEnvN (canon : Bool) : Env :=
  { doc := ⟨#[⟨0, exM, [0x6e], true, [0x35], "int".toUTF8.toList⟩]⟩, q := { canonStr := canon }, cur := 0,
    facts := { mods := [exM], types := [([0x2f, 0x6d, 0x3a, 0x6e], .val (.int .int32 []))] } }

example : (exEnvN true).doc.elem? 2 = some ⟨0, exM, [0x6e], true, [0x35], "int".toUTF8.toList⟩ := by rfl
example : (exEnvN true).facts.types.lookup ((exEnvN true).doc.spath 2) = some (.val (.int .int32 [])) := by rfl

/-- the deviation (finding F355): whenever the type accepts a string whose canonical form differs from it and the node holds that
canonical form (`<n>5</n>`, int32, `'05'`; witnesses replayed on libyang by the check on every run), libyang's comparison is true and
XPath 1.0's is false -/
theorem comp_canonize_deviates {N : Type} [XNum N] (env0 env1 : Env)
    (h0 : env0.q.canonStr = false) (hb : env0.q.nsBool = false) (h1 : env1.q.canonStr = true)
    (x : Ref) (e : Elem) (ty : Val.Ty) (s : Bytes) (v : Val.Value)
    (he : env1.doc.elem? x = some e) (ht : e.term = true) (hty : env1.facts.types.lookup (env1.doc.spath x) = some (.val ty))
    (hst : Val.store ty Generated.LYD_HINT_DATA s = .ok v) (hne : Val.canon ty v ≠ s)
    (hv1 : env1.strValue x = Val.canon ty v) (hv0 : env0.strValue x = Val.canon ty v) :
    compare (N := N) env1 .eq (.ns [x]) (.str s) = true ∧ compare (N := N) env0 .eq (.ns [x]) (.str s) = false := by
  constructor
  · exact (comp_canonize_spec env1 h1 x e ty s he ht hty).mpr (Or.inl ⟨v, hst, hv1⟩)
  · rw [Bool.eq_false_iff]
    intro h
    exact hne (hv0 ▸ (comp_rec_spec env0 h0 hb x s).mp h)

/-! ## `deref()` of an instance-identifier terminal, canonisation by a union type -/
section
variable {N : Type} [XNum N]

/-- RFC 7950 §10.3.1 `deref(nodes)` when the first node is an instance-identifier terminal (XPath reading, switch F356 off): the
result is a node-set with AT MOST ONE node; that node is an element the instance-identifier value DENOTES (`Yang.Denotes`: the chain
of child steps from the root whose key / value predicates hold, RFC 7950 §9.13), it is the first such node in document order, and the
result is non-empty whenever the value denotes some node.  In valid data (unique list keys, unique leaf-list values) at most one node
is denoted, so the result is exactly that node. -/
theorem deref_instid_spec (env : Env) (cx : Cx) (hq : env.q.derefInstErr = false) (x : Ref) (rest : List Ref) (e : Elem)
    (steps : List Yang.IStep)
    (he : env.doc.elem? x = some e) (ht : e.term = true) (hl : env.facts.lrefs.lookup (env.doc.spath x) = none)
    (hi : env.facts.insts.contains (env.doc.spath x) = true) (hp : Yang.parseInst e.value = some steps) :
    ∃ r, callFn (N := N) env cx "deref" [.ns (x :: rest)] = .ok (.ns r) ∧ IsNodeSet r ∧ r.length ≤ 1 ∧
      (∀ y ∈ r, ∃ i, y = 2 * i ∧ Yang.Denotes env.doc 0 steps i ∧ ∀ j, Yang.Denotes env.doc 0 steps j → y ≤ 2 * j) ∧
      ((∃ i, Yang.Denotes env.doc 0 steps i) → r ≠ []) := by
  have hlt : env.leafrefTargets x = none := by simp only [Env.leafrefTargets, he, ht, if_true, hl]
  have hit : env.instTarget x = some ((env.norm (Yang.instTargets env.doc e.value)).take 1) := by
    simp only [Env.instTarget, he, ht, hi, Bool.and_self, if_true]
  have hmem : ∀ y, y ∈ env.norm (Yang.instTargets env.doc e.value) ↔ y ∈ env.all ∧ ∃ i, y = 2 * i ∧ Yang.Denotes env.doc 0 steps i := by
    intro y
    unfold Env.norm
    rw [mem_mkNs]
    simp only [Env.all, Yang.instTargets, hp, List.mem_map, mem_instDown]
    constructor
    · rintro ⟨h1, i, hd, rfl⟩; exact ⟨h1, i, rfl, hd⟩
    · rintro ⟨h1, i, rfl, hd⟩; exact ⟨h1, i, hd, rfl⟩
  have hall : ∀ j, Yang.Denotes env.doc 0 steps j → 2 * j ∈ env.norm (Yang.instTargets env.doc e.value) := by
    intro j hj
    exact (hmem _).mpr ⟨elemRef_mem_allRefs _ _ _ (denotes_elem _ hj), j, rfl, hj⟩
  refine ⟨(env.norm (Yang.instTargets env.doc e.value)).take 1, ?_, ?_, ?_, ?_, ?_⟩
  · rw [callFn_deref, derefAny_inst env x rest _ hlt hit]; simp [hq]
  · exact List.Pairwise.sublist (List.take_sublist _ _) (env.norm_isNodeSet _)
  · exact (List.length_take_le _ _)
  · intro y hy
    have hs := env.norm_isNodeSet (Yang.instTargets env.doc e.value)
    cases hn : env.norm (Yang.instTargets env.doc e.value) with
    | nil => rw [hn] at hy; simp at hy
    | cons a l =>
      rw [hn] at hy hs
      simp only [List.take_succ_cons, List.take_zero, List.mem_singleton] at hy
      subst hy
      obtain ⟨_, i, hyi, hd⟩ := (hmem y).mp (by rw [hn]; simp)
      refine ⟨i, hyi, hd, ?_⟩
      intro j hj
      have hjm := hall j hj
      rw [hn] at hjm
      rcases List.mem_cons.mp hjm with h1 | h1
      · exact Nat.le_of_eq h1.symm
      · exact Nat.le_of_lt (List.rel_of_pairwise_cons hs h1)
  · rintro ⟨i, hd⟩ h
    have := hall i hd
    cases hn : env.norm (Yang.instTargets env.doc e.value) with
    | nil => rw [hn] at this; simp at this
    | cons a l => rw [hn] at h; simp at h

/-- when the value denotes exactly one node `i` (valid data: list keys and leaf-list values are unique), `deref()` is exactly
the node-set `{i}` — the node the instance-identifier refers to, RFC 7950 §10.3.1 -/
theorem deref_instid_exact (env : Env) (cx : Cx) (hq : env.q.derefInstErr = false) (x : Ref) (rest : List Ref) (e : Elem)
    (steps : List Yang.IStep) (i : Nat)
    (he : env.doc.elem? x = some e) (ht : e.term = true) (hl : env.facts.lrefs.lookup (env.doc.spath x) = none)
    (hi : env.facts.insts.contains (env.doc.spath x) = true) (hp : Yang.parseInst e.value = some steps)
    (hd : Yang.Denotes env.doc 0 steps i) (hu : ∀ j, Yang.Denotes env.doc 0 steps j → j = i) :
    callFn (N := N) env cx "deref" [.ns (x :: rest)] = .ok (.ns [2 * i]) := by
  obtain ⟨r, hr, _, hlen, hall, hne⟩ := deref_instid_spec (N := N) env cx hq x rest e steps he ht hl hi hp
  rw [hr]
  match r, hlen, hall, hne ⟨i, hd⟩ with
  | [], _, _, h => exact absurd rfl h
  | [y], _, hall, _ =>
    obtain ⟨j, hy, hj, _⟩ := hall y (by simp)
    rw [hy, hu j hj]
  | _ :: _ :: _, hlen, _, _ => simp at hlen

/-- no node denoted, switch off (RFC 7950 §10.3.1): the empty node-set -/
theorem deref_instid_none (env : Env) (cx : Cx) (hq : env.q.derefInstErr = false) (x : Ref) (rest : List Ref) (e : Elem)
    (steps : List Yang.IStep)
    (he : env.doc.elem? x = some e) (ht : e.term = true) (hl : env.facts.lrefs.lookup (env.doc.spath x) = none)
    (hi : env.facts.insts.contains (env.doc.spath x) = true) (hp : Yang.parseInst e.value = some steps)
    (hn : ∀ j, ¬ Yang.Denotes env.doc 0 steps j) :
    callFn (N := N) env cx "deref" [.ns (x :: rest)] = .ok (.ns []) := by
  obtain ⟨r, hr, _, _, hall, _⟩ := deref_instid_spec (N := N) env cx hq x rest e steps he ht hl hi hp
  rw [hr]
  match r, hall with
  | [], _ => rfl
  | y :: _, hall =>
    obtain ⟨j, _, hj, _⟩ := hall y (by simp)
    exact absurd hj (hn j)
/-- what libyang does when the instance-identifier has no instance (switch F356 on; only `require-instance false` leaves and
unvalidated data can be in that state): the evaluation fails with LY_EINVAL instead of returning the empty node-set -/
theorem deref_instid_dangling (env : Env) (cx : Cx) (hq : env.q.derefInstErr = true) (x : Ref) (rest : List Ref)
    (hl : env.leafrefTargets x = none) (h : env.instTarget x = some []) :
    callFn (N := N) env cx "deref" [.ns (x :: rest)] = .error .inval := by
  rw [callFn_deref, derefAny_inst env x rest _ hl h]; simp [hq]

/-- `set_comp_canonize` on a UNION-typed terminal (switch `canonStr` on): `value.realtype` of such a node is the union type itself, so
the string is stored through the union plug-in — the members are tried IN ORDER and the first one that accepts THE STRING gives the
canonical form the node's string-value is compared with (whatever member the node's own value resolved to); when no member accepts it
the string is compared as it is. -/
theorem comp_canonize_union_spec (env : Env) (hq : env.q.canonStr = true) (x : Ref) (e : Elem) (ms : List UMem) (s : Bytes)
    (he : env.doc.elem? x = some e) (ht : e.term = true) (hty : env.facts.types.lookup (env.doc.spath x) = some (.union ms)) :
    (compare (N := N) env .eq (.ns [x]) (.str s) = true ↔
      (∃ pre m post, ms = pre ++ m :: post ∧ (∀ m' ∈ pre, Yang.canonMem env.facts e.mod m' s = none) ∧
          Yang.canonMem env.facts e.mod m s = some (env.strValue x)) ∨
      ((∀ m ∈ ms, Yang.canonMem env.facts e.mod m s = none) ∧ env.strValue x = s)) := by
  rw [compare_canon_single env hq]
  have hc : env.canonFor x s = Yang.canonUnion env.facts e.mod ms s := by
    simp only [Env.canonFor, he, ht, if_true, hty, Yang.canonize]
  rw [hc, beq_iff_eq, eq_comm, canonUnion_spec]

end

/-! non-vacuity: `<l><k>a</k><v>1</v></l><l><k>b</k><v>2</v></l><i>/m:l[k='b']/v</i>`: the value parses, denotes element 6 (`v` of the
second entry), and `deref(/i)` is that node; `<u>5</u>` of type union { int8, enumeration { one }, string }: `'05'` goes to the int8
member (`5`), `'one'` to the enumeration, `' one'` to the string member -/
private def exIid : Bytes := [0x2f, 0x6d, 0x3a, 0x6c, 0x5b, 0x6b, 0x3d, 0x27, 0x62, 0x27, 0x5d, 0x2f, 0x76]
private def exEnvI : Env :=
  { doc := ⟨#[⟨0, exM, [0x6c], false, [], []⟩, ⟨1, exM, [0x6b], true, [0x61], []⟩, ⟨1, exM, [0x76], true, [0x31], []⟩,
              ⟨0, exM, [0x6c], false, [], []⟩, ⟨4, exM, [0x6b], true, [0x62], []⟩, ⟨4, exM, [0x76], true, [0x32], []⟩,
              ⟨0, exM, [0x69], true, exIid, []⟩]⟩, q := {}, cur := 0,
    facts := { mods := [exM], insts := [[0x2f, 0x6d, 0x3a, 0x69]] } }
example : Yang.parseInst exIid = some [{ mod := exM, name := [0x6c], keys := [([0x6b], [0x62])] }, { mod := exM, name := [0x76] }] := by rfl
example : Yang.instDown exEnvI.doc [{ mod := exM, name := [0x6c], keys := [([0x6b], [0x62])] }, { mod := exM, name := [0x76] }] 0 = [6] := by rfl
example : exEnvI.instTarget 14 = some [12] := by rfl
example : ∀ j, j ∈ Yang.instDown exEnvI.doc [{ mod := exM, name := [0x6c], keys := [([0x6b], [0x62])] }, { mod := exM, name := [0x76] }] 0 → j = 6 := by
  intro j hj
  have h : Yang.instDown exEnvI.doc [{ mod := exM, name := [0x6c], keys := [([0x6b], [0x62])] }, { mod := exM, name := [0x76] }] 0 = [6] := by rfl
  rw [h] at hj; simpa using hj
example : exEnvI.facts.insts.contains (exEnvI.doc.spath 14) = true := by rfl

private def exUn : List UMem := [.val (.int .int8 []), .enm [[0x6f, 0x6e, 0x65]], .str]
example : Yang.canonUnion {} exM exUn [0x30, 0x35] = [0x35] := by rfl
example : Yang.canonUnion {} exM exUn [0x6f, 0x6e, 0x65] = [0x6f, 0x6e, 0x65] := by rfl
example : Yang.canonMem {} exM (.enm [[0x6f, 0x6e, 0x65]]) [0x20, 0x6f, 0x6e, 0x65] = none := by rfl

/-! ## `bit-is-set`: first-node rule, `false` for everything that is not a set bit of a bits terminal -/
section
variable {N : Type} [XNum N]

/-- the first-node rule of `bit-is-set` (RFC 7950 §10.6.2 "the first node in document order"): the nodes after the first one of the
node-set never matter, whatever they are -/
theorem bit_is_set_first_node (env : Env) (cx : Cx) (x : Ref) (rest rest' : List Ref) (b : Value N) :
    callFn env cx "bit-is-set" [.ns (x :: rest), b] = callFn env cx "bit-is-set" [.ns (x :: rest'), b] := by
  rw [callFn_bit_is_set, callFn_bit_is_set]; rfl

/-- every input whose first node is not a `bits` terminal — the empty set, a text node or the root, an inner node, a terminal whose
value type (the dump's `realtype`: the target type for a leafref, the UNION type for a union even when the value is a bits member) is not
`bits` — gives `false`, never an error -/
theorem bit_is_set_not_bits (env : Env) (cx : Cx) (l : List Ref) (b : Value N)
    (h : ∀ x rest e, l = x :: rest → env.doc.elem? x = some e → e.term = true → e.btype ≠ "bits".toUTF8.toList) :
    callFn env cx "bit-is-set" [.ns l, b] = .ok (.bool false) := by
  obtain ⟨r, hr, hiff⟩ := bit_is_set_spec env cx l b
  rw [hr]
  cases r with
  | false => rfl
  | true =>
    obtain ⟨x, rest, e, hl, he, ht, hb, _⟩ := hiff.mp rfl
    exact absurd hb (h x rest e hl he ht)

/-- the second argument is converted with `string()`; a name that is not ONE word of the value (the empty string, two names, a name
with white space) is never set -/
theorem bit_is_set_one_word (env : Env) (cx : Cx) (l : List Ref) (b : Value N)
    (h : ∀ x rest e, l = x :: rest → env.doc.elem? x = some e → b.toStr env ∉ Str.words e.value) :
    callFn env cx "bit-is-set" [.ns l, b] = .ok (.bool false) := by
  obtain ⟨r, hr, hiff⟩ := bit_is_set_spec env cx l b
  rw [hr]
  cases r with
  | false => rfl
  | true =>
    obtain ⟨x, rest, e, hl, he, _, _, hw⟩ := hiff.mp rfl
    exact absurd hw (h x rest e hl he)
end

/-! non-vacuity: element 1 of `exEnvI` (the list entry `<l>`, an inner node) as the first node; `bit-is-set((/b | …), 'x z')` on the bits node -/
example : ∀ x rest e, [2, 12] = x :: rest → exEnvI.doc.elem? x = some e → e.term = true → e.btype ≠ "bits".toUTF8.toList := by
  intro x rest e hl he ht
  cases hl
  have h2 : exEnvI.doc.elem? 2 = some ⟨0, exM, [0x6c], false, [], []⟩ := by rfl
  rw [h2] at he; cases he; cases ht
example : ∀ x rest e, [4] = x :: rest → exEnvE.doc.elem? x = some e → [0x78, 0x20, 0x7a] ∉ Str.words e.value := by
  intro x rest e hl he
  cases hl
  have h2 : exEnvE.doc.elem? 4 = some ⟨0, exM, [0x62], true, [0x78, 0x20, 0x7a], "bits".toUTF8.toList⟩ := by rfl
  rw [h2] at he; cases he; decide

end LyModel.Props.C08Yang
