import LyModel.LyHt.Ops
import LyModel.LyHt.RefineTop
/-!
# C17, L1: the record array of `struct ly_ht` refines the bucket-list model

`Inv1 h cs fl` (LyModel/LyHt/Refine.lean) is the representation invariant of the C structure with ghost chains `cs` and
ghost free list `fl`: every chain threaded from `hlists[b].first` through `next` to `LYHT_NO_RECORD`, `hlists[b].last` its
last record, the free list threaded from `first_free_rec` to the index `size`, chains + free list a permutation of
`0 … size-1` (acyclic, in bounds, disjoint, every record reachable from exactly one of them), every chained record in
bucket `hash & (size-1)`, `used` = number of chained records.  `toL2` reads the chains off the arrays with the same
fuelled walks the model's operations use (fuel `size + 1`, proved sufficient here).
-/
namespace LyModel.Props.C17L1
open List LyModel LyModel.LyHt LyModel.Generated

variable {α : Type} [Inhabited α]

/-- `lyht_new` establishes the representation invariant and abstracts to the empty L2 table. -/
theorem l1_new (size resize : Nat) (hs : size < NO) :
    (∃ cs fl, Inv1 (Ht.new size resize : Ht α) cs fl) ∧ (Ht.new size resize : Ht α).toL2 = Ht2.new size resize :=
  new_l2 size resize hs

/-- non-vacuity (audit): `hs` for the dictionary's start size and for a size below `LYHT_MIN_SIZE` -/
example : (∃ cs fl, Inv1 (Ht.new 1024 1 : Ht Nat) cs fl) ∧ (∃ cs fl, Inv1 (Ht.new 0 2 : Ht Nat) cs fl) :=
  ⟨(l1_new 1024 1 (by decide)).1, (l1_new 0 2 (by decide)).1⟩

/-- **Every operation preserves the representation invariant and commutes with the abstraction**, with the same reply:
the index arithmetic of `_lyht_insert_with_resize_cb`, `lyht_remove_with_resize_cb`, `lyht_resize`, `lyht_find_rec`,
`lyht_find`, `lyht_find_next_with_collision_cb` implements the bucket-list model exactly — for every callback, also
inconsistent ones, for checked and unchecked inserts, through enlargements and shrinks. -/
theorem l1_step_refines (ve : VEq α) (rve cve : Option (VEq α)) (h : Ht α) (cs : List (List Nat)) (fl : List Nat)
    (hi : Inv1 h cs fl) (hsm : h.size * 2 < NO) (o : Op α) :
    (∃ cs' fl', Inv1 (h.step ve rve cve o).2 cs' fl') ∧
    (h.step ve rve cve o).2.toL2 = (h.toL2.stepOp ve rve cve o).2 ∧
    (h.step ve rve cve o).1 = (h.toL2.stepOp ve rve cve o).1 := by
  cases o with
  | ins c w v hash => exact insert_l2 hi hsm ve rve c w v hash
  | rem v hash => exact remove_l2 hi ve rve v hash
  | find v hash =>
    simp only [Ht.step, Ht2.stepOp]
    rw [find_l2 hi]
    exact ⟨⟨cs, fl, hi⟩, trivial, rfl⟩
  | next v hash =>
    simp only [Ht.step, Ht2.stepOp]
    rw [findNext_l2 hi]
    exact ⟨⟨cs, fl, hi⟩, trivial, rfl⟩

/-- **Refinement L1 → L2 for every history** (sizes below 2^31 along the way): same replies, and the final record array
abstracts to the final bucket lists; the representation invariant holds at the end (hence after every prefix). -/
theorem l1_refines_l2 (ve : VEq α) (rve cve : Option (VEq α)) (ops : List (Op α)) (h : Ht α) (cs : List (List Nat)) (fl : List Nat)
    (hi : Inv1 h cs fl) (hb : Ht.sizesBelow ve rve cve (2 ^ 31 - 1) h ops) :
    (h.runOps ve rve cve ops).1 = (h.toL2.runOps ve rve cve ops).1 ∧
    (h.runOps ve rve cve ops).2.toL2 = (h.toL2.runOps ve rve cve ops).2 ∧
    ∃ cs' fl', Inv1 (h.runOps ve rve cve ops).2 cs' fl' := by
  induction ops generalizing h cs fl with
  | nil => exact ⟨rfl, rfl, cs, fl, hi⟩
  | cons o os ih =>
    have hsm : h.size * 2 < NO := by
      have := hb.1
      simp only [NO, LYHT_NO_RECORD]
      omega
    obtain ⟨⟨cs', fl', hi'⟩, h2, h3⟩ := l1_step_refines ve rve cve h cs fl hi hsm o
    obtain ⟨i1, i2, i3⟩ := ih (h.step ve rve cve o).2 cs' fl' hi' hb.2
    simp only [Ht.runOps, Ht2.runOps]
    rw [← h2]
    exact ⟨by rw [h3, i1], i2, i3⟩

/-- non-vacuity: a history with colliding hashes that enlarges (6th record of 8) and shrinks again, on the record array -/
example : ((Ht.new 8 1 : Ht Nat).runOps (fun _ a b => a == b) none none
    [.ins true true 1 3, .ins true true 2 3, .ins true true 1 3, .ins false true 3 11, .ins true false 4 19, .ins true true 5 3,
     .ins true true 6 3, .rem 2 3, .find 2 3, .next 1 3, .rem 9 9, .rem 1 3, .rem 3 11, .rem 4 19]).1 =
    [.ok (some 1), .ok (some 2), .exist 1, .ok (some 3), .ok none, .ok (some 5), .ok (some 6), .ok none, .notfound,
     .notfound, .notfound, .ok none, .ok none, .ok none] := by decide

/-- …and the hypotheses of `l1_refines_l2` hold for it: the table never grows beyond 16 records -/
example : Ht.sizesBelow (fun _ a b => a == b) none none (2 ^ 31 - 1) (Ht.new 8 1 : Ht Nat)
    [.ins true true 1 3, .ins true true 2 3, .ins true true 1 3, .ins false true 3 11, .ins true false 4 19, .ins true true 5 3,
     .ins true true 6 3, .rem 2 3, .find 2 3, .next 1 3, .rem 9 9, .rem 1 3, .rem 3 11, .rem 4 19] := by
  simp only [Ht.sizesBelow]; decide

/-! ### audit support: a populated record array whose `Inv1` comes from `l1_refines_l2` itself -/

/-- the plain keyed callback -/
def auVe : VEq Nat := fun _ a b => a == b

/-- `sizesBelow` is decidable (so that `decide` discharges it on computed histories) -/
def auSizesDec (ve : VEq α) (rve cve : Option (VEq α)) (bound : Nat) :
    (h : Ht α) → (ops : List (Op α)) → Decidable (Ht.sizesBelow ve rve cve bound h ops)
  | h, [] => inferInstanceAs (Decidable (h.size ≤ bound))
  | h, o :: os => @instDecidableAnd _ _ (inferInstanceAs (Decidable (h.size ≤ bound))) (auSizesDec ve rve cve bound (h.step ve rve cve o).2 os)

instance (ve : VEq α) (rve cve : Option (VEq α)) (bound : Nat) (h : Ht α) (ops : List (Op α)) :
    Decidable (Ht.sizesBelow ve rve cve bound h ops) := auSizesDec ve rve cve bound h ops

/-- six inserts (five of them into bucket 3 of 8; the 6th enlarges to 16: chains of 5 and 1 records), one remove from the
    middle of a chain (its record goes to the head of the free list) -/
def auOps1 : List (Op Nat) :=
  [.ins true true 1 3, .ins true true 2 3, .ins false true 3 11, .ins true false 4 19, .ins true true 5 3, .ins true true 6 35,
   .rem 2 3]

def auH1 : Ht Nat := ((Ht.new 8 1 : Ht Nat).runOps auVe none none auOps1).2

/-- non-vacuity (audit): `l1_refines_l2` instantiated at the fresh table and `auOps1` (hypothesis `sizesBelow` by evaluation) -/
theorem auH1_inv : ∃ cs fl, Inv1 auH1 cs fl := by
  obtain ⟨cs, fl, hi⟩ := (l1_new (α := Nat) 8 1 (by decide)).1
  exact (l1_refines_l2 auVe none none auOps1 _ cs fl hi (by decide)).2.2

example : auH1.size = 16 ∧ auH1.used = 5 ∧ auH1.toL2.buckets =
    [[], [], [], [(3, 1), (19, 4), (3, 5), (35, 6)], [], [], [], [], [], [], [], [(11, 3)], [], [], [], []] := by decide

/-- non-vacuity (audit): `l1_step_refines` at the populated array `auH1` (hypotheses `Inv1`, `size * 2 < NO`): an insert into
    the long chain, a remove of a chain head, a `find_next` -/
example : (auH1.step auVe none none (.ins true true 7 19)).2.toL2 = (auH1.toL2.stepOp auVe none none (.ins true true 7 19)).2 ∧
    (auH1.step auVe none none (.rem 1 3)).1 = (auH1.toL2.stepOp auVe none none (.rem 1 3)).1 ∧
    (auH1.step auVe none none (.next 1 3)).1 = (auH1.toL2.stepOp auVe none none (.next 1 3)).1 := by
  obtain ⟨cs, fl, hi⟩ := auH1_inv
  exact ⟨(l1_step_refines auVe none none auH1 cs fl hi (by decide) _).2.1,
    (l1_step_refines auVe none none auH1 cs fl hi (by decide) _).2.2,
    (l1_step_refines auVe none none auH1 cs fl hi (by decide) _).2.2⟩

/-- non-vacuity (audit): `l1_refines_l2` continued from the populated array (removes down to the shrink 16 → 8) -/
example : (auH1.runOps auVe none none [.rem 1 3, .rem 3 11, .find 6 35, .next 5 3]).2.toL2 =
      (auH1.toL2.runOps auVe none none [.rem 1 3, .rem 3 11, .find 6 35, .next 5 3]).2 ∧
    (auH1.runOps auVe none none [.rem 1 3, .rem 3 11, .find 6 35, .next 5 3]).2.size = 8 := by
  obtain ⟨cs, fl, hi⟩ := auH1_inv
  exact ⟨(l1_refines_l2 auVe none none _ auH1 cs fl hi (by decide)).2.1, by decide⟩

/-- Memory-safety obligation of `_lyht_insert_with_resize_cb` at the index level: whenever the table is not full the head of
the free list is a valid record index (and it is not, exactly when `used = size` — the case the compiled-out
`assert(rec_idx < ht->size)` guards). -/
theorem l1_first_free_in_bounds (h : Ht α) (cs : List (List Nat)) (fl : List Nat) (hi : Inv1 h cs fl) :
    (h.firstFree < h.size ↔ h.used < h.size) ∧ h.used ≤ h.size ∧ h.firstFree ≤ h.size := by
  refine ⟨hi.free_iff, hi.used_le, ?_⟩
  cases hfl : fl with
  | nil => have := hi.free; rw [hfl] at this; simp only [IsChain] at this; omega
  | cons a fl' =>
    have := hi.free; rw [hfl] at this
    have ha : a < h.size := hi.mem_lt (by rw [hfl]; simp)
    rw [this.1]; omega

/-- non-vacuity (audit): at `auH1` (5 of 16 used, the freed record 1 is the head of the free list) both sides of the `iff` are
    true; at a fixed-size table filled with 8 of 8 records both are false (`firstFree = size`) -/
example : (auH1.firstFree < auH1.size ↔ auH1.used < auH1.size) ∧ auH1.used ≤ auH1.size ∧ auH1.firstFree ≤ auH1.size := by
  obtain ⟨cs, fl, hi⟩ := auH1_inv
  exact l1_first_free_in_bounds auH1 cs fl hi

example : auH1.firstFree < auH1.size ∧ auH1.used < auH1.size := by decide

/-- a fixed-size table (`resize = 0`) filled to the last record -/
def auFull : Ht Nat := ((Ht.new 8 0 : Ht Nat).runOps auVe none none ((List.range 8).map fun i => .ins false false i 5)).2

example : (auFull.firstFree < auFull.size ↔ auFull.used < auFull.size) ∧ ¬ auFull.used < auFull.size ∧ auFull.firstFree = auFull.size := by
  obtain ⟨cs, fl, hi⟩ := (l1_new (α := Nat) 8 0 (by decide)).1
  obtain ⟨cs', fl', hi'⟩ := (l1_refines_l2 auVe none none ((List.range 8).map fun i => .ins false false i 5) _ cs fl hi
    (by decide)).2.2
  exact ⟨(l1_first_free_in_bounds auFull cs' fl' hi').1, by decide, by decide⟩

/-- The walks of the C macros terminate within the fuel the model gives them: under the invariant a chain has at most `size`
records, so `LYHT_ITER_HLIST_RECS` with fuel `size + 1` sees the whole chain (`toL2` reads exactly the ghost chains). -/
theorem l1_fuel_sufficient (h : Ht α) (cs : List (List Nat)) (fl : List Nat) (hi : Inv1 h cs fl) :
    h.toL2.buckets = cs.map (fun c => c.map h.item) ∧ h.toL2.used = h.used := by
  refine ⟨?_, hi.used_eq⟩
  rw [hi.toL2_eq]

/-- non-vacuity (audit): at the full fixed-size table `auFull` one chain holds all 8 records — the longest walk the fuel
    `size + 1` has to cover — and `toL2` still reads all of them -/
example : auFull.toL2.used = auFull.used ∧ auFull.toL2.used = 8 ∧ (auFull.toL2.buckets.getD 5 []).length = 8 := by
  obtain ⟨cs, fl, hi⟩ := (l1_new (α := Nat) 8 0 (by decide)).1
  obtain ⟨cs', fl', hi'⟩ := (l1_refines_l2 auVe none none ((List.range 8).map fun i => .ins false false i 5) _ cs fl hi
    (by decide)).2.2
  exact ⟨(l1_fuel_sufficient auFull cs' fl' hi').2, by decide, by decide⟩

end LyModel.Props.C17L1
